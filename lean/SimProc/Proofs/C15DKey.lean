/-
C15D / C16D — machinery, part 1: the transition system of `Proofs/C15WKey.lean` extended by the two
sites at which a running world GROWS: a constructor-fresh device is appended, a constructor-fresh
maintainer is appended.

`DStep P ph k k'` is the reflexive-transitive closure of the steps of `C15W.KStep ph` and of
* `newDev k d` — the device key `d` is appended (`P k d` holds: `P` is the condition on created
  devices, it may look at the key at the moment of creation), and
* `newMaint k v` — a value bookkeeping `v` with `value = init` and an empty history is appended.
Existing indices are unchanged, so every invariant of `KStep` that holds for an appended fresh device
is an invariant of `DStep` (`DStep.lift`): nothing of `Proofs/C15WInv.lean` is proved again.
-/
import SimProc.Proofs.C16WSteps
import SimProc.Proofs.C15WCount

namespace SimProc
namespace C15D
open World FloorCoreL C15 C15W RM

/-! ### constructor-fresh keys -/

/-- A device as a constructor makes it: all counters at zero, level zero, the value at its start,
no history. -/
def DFresh (d : DKey) : Prop :=
  d.produced = 0 ∧ d.costProduced = 0 ∧ d.recvCount = 0 ∧ d.recvValue = 0 ∧ d.level = 0 ∧
  d.val.value = d.val.init ∧ d.val.hist = []

instance (d : DKey) : Decidable (DFresh d) := by unfold DFresh; infer_instance

/-- A value bookkeeping as a constructor makes it. -/
def VFresh (a : AssetVal) : Prop := a.value = a.init ∧ a.hist = []

instance (a : AssetVal) : Decidable (VFresh a) := by unfold VFresh; infer_instance

theorem VFresh.reset {a : AssetVal} (h : VFresh a) : a.reset = a := by
  obtain ⟨i, v, hs⟩ := a
  obtain ⟨h1, h2⟩ := h
  simp only at h1 h2
  subst h1 h2
  rfl

theorem DFresh.vfresh {d : DKey} (h : DFresh d) : VFresh d.val := ⟨h.2.2.2.2.2.1, h.2.2.2.2.2.2⟩

theorem dfresh_default : DFresh (default : DKey) := by decide

/-! ### the transition system -/

inductive DStep (P : WKey → DKey → Prop) (ph : Phase) : WKey → WKey → Prop where
  | refl (k : WKey) : DStep P ph k k
  | trans {a b c : WKey} : DStep P ph a b → DStep P ph b c → DStep P ph a c
  /-- everything the library does to a world with a fixed set of assets -/
  | ks {a b : WKey} : KStep ph a b → DStep P ph a b
  /-- a device constructor: the new device gets the next index -/
  | newDev (k : WKey) (d : DKey) (h : P k d) : DStep P ph k { k with devs := k.devs ++ [d] }
  /-- the maintainer constructor -/
  | newMaint (k : WKey) (v : AssetVal) (h : VFresh v) : DStep P ph k { k with mvals := k.mvals ++ [v] }

variable {P : WKey → DKey → Prop} {ph : Phase}

theorem DStep.cast {k k1 k2 : WKey} (h : DStep P ph k k1) (e : k1 = k2) : DStep P ph k k2 := e ▸ h

/-- More permissions, a weaker condition on created devices: more steps. -/
theorem DStep.mono {P' : WKey → DKey → Prop} {ph' : Phase} (hP : ∀ k d, P k d → P' k d)
    (hle : ph.le ph') {k k' : WKey} (h : DStep P ph k k') : DStep P' ph' k k' := by
  induction h with
  | refl k => exact .refl k
  | trans _ _ ih1 ih2 => exact .trans ih1 ih2
  | ks h => exact .ks (h.mono hle)
  | newDev k d h => exact .newDev k d (hP k d h)
  | newMaint k v h => exact .newMaint k v h

theorem Phase.le_refl (ph : Phase) : ph.le ph := ⟨id, id, id, id⟩

/-- **Lifting**: an invariant of `KStep` that survives the two creation sites is an invariant of
`DStep`. -/
theorem DStep.lift {I : WKey → Prop} (hs : ∀ {k k'}, KStep ph k k' → I k → I k')
    (hd : ∀ k d, P k d → I k → I { k with devs := k.devs ++ [d] })
    (hm : ∀ k v, VFresh v → I k → I { k with mvals := k.mvals ++ [v] })
    {k k' : WKey} (h : DStep P ph k k') (hi : I k) : I k' := by
  induction h with
  | refl k => exact hi
  | trans _ _ ih1 ih2 => exact ih2 (ih1 hi)
  | ks h => exact hs h hi
  | newDev k d h => exact hd k d h hi
  | newMaint k v h => exact hm k v h hi

/-! ### reading an extended key -/

theorem getD_append_one {α} (l : List α) (a d : α) (y : Nat) :
    (l ++ [a]).getD y d = if y = l.length then a else l.getD y d := by
  by_cases h : y = l.length
  · subst h; rw [if_pos rfl]; exact getD_append_singleton l a d
  · rw [if_neg h]
    by_cases h2 : y < l.length
    · exact getD_append_left l [a] y d h2
    · have h3 : l.length + 1 ≤ y := by omega
      simp [List.getD_eq_getElem?_getD, h3, Nat.le_of_lt h3]

theorem dev_newDev (k : WKey) (d : DKey) (y : Nat) :
    ({ k with devs := k.devs ++ [d] } : WKey).dev y = if y = k.devs.length then d else k.dev y := by
  unfold WKey.dev; exact getD_append_one _ _ _ _

theorem mval_newMaint (k : WKey) (v : AssetVal) (m : Nat) :
    ({ k with mvals := k.mvals ++ [v] } : WKey).mval m = if m = k.mvals.length then v else k.mval m := by
  unfold WKey.mval; exact getD_append_one _ _ _ _

theorem dev_length_default (k : WKey) : k.dev k.devs.length = default := by
  unfold WKey.dev; simp [List.getD_eq_getElem?_getD]

theorem dev_ge_default (k : WKey) (y : Nat) (h : k.devs.length ≤ y) : k.dev y = default := by
  unfold WKey.dev; simp [List.getD_eq_getElem?_getD, h]

/-! ### quiet steps do not look at the value bookkeeping of the devices

`initialize` of a device created while the simulation runs resets its value bookkeeping; between
the registration of the device and that reset the library only wires the device up (`set_upstream`
and the notifications it triggers) — steps that neither read nor change any device key.  So the
reset may be moved to the front: abstractly, the device is appended with its bookkeeping already
reset. -/

/-- The key with the value bookkeeping of device `i` reset. -/
def resetAt (i : Nat) (k : WKey) : WKey :=
  { k with devs := k.devs.set i { k.dev i with val := (k.dev i).val.reset } }

theorem dev_resetAt (i : Nat) (k : WKey) (x : Nat) :
    (resetAt i k).dev x = if i = x ∧ i < k.devs.length then { k.dev i with val := (k.dev i).val.reset }
      else k.dev x := by
  unfold resetAt WKey.dev
  exact C15W.getD_set _ _ _ _ _

theorem noBatchK_resetAt (i : Nat) (k : WKey) (h : NoBatchK (resetAt i k)) : NoBatchK k := by
  intro x
  have := h x
  rw [dev_resetAt] at this
  split at this
  · rename_i hc; rw [← hc.1]; exact this
  · exact this

theorem KStep.resetAt (i : Nat) {k k' : WKey} (h : KStep ph k k') (hm : ph.mv = false)
    (hs : ph.sup = false) (hi : ph.ini = false) : KStep ph (resetAt i k) (resetAt i k') := by
  induction h with
  | refl k => exact .refl _
  | trans _ _ ih1 ih2 => exact .trans ih1 ih2
  | env k op h => exact KStep.env (C15D.resetAt i k) op h
  | plain k r hp ht => exact KStep.plain (C15D.resetAt i k) r hp ht
  | rm k a b recs ha hia h => exact KStep.rm (C15D.resetAt i k) a b recs ha hia h
  | recvSink k x p q v lv hph => rw [Phase.moves, hm] at hph; cases hph
  | recvBuf k x p n q v hph => rw [Phase.moves, hm] at hph; cases hph
  | recvOther k x p q v hph => rw [Phase.moves, hm] at hph; cases hph
  | release k x n hph => rw [Phase.moves, hm] at hph; cases hph
  | supply k x p v hph => rw [hs] at hph; cases hph
  | maintCost k m c hph => exact KStep.maintCost (C15D.resetAt i k) m c hph
  | plSet k b h => exact KStep.plSet (C15D.resetAt i k) b (fun hn => h (noBatchK_resetAt i k hn))
  | rmInit k hph => rw [hi] at hph; cases hph
  | devReset k x hph => rw [hi] at hph; cases hph
  | maintReset k m hph => rw [hi] at hph; cases hph

theorem resetAt_newDev (k : WKey) (d : DKey) :
    resetAt k.devs.length { k with devs := k.devs ++ [d] } =
      { k with devs := k.devs ++ [{ d with val := d.val.reset }] } := by
  unfold C15D.resetAt
  simp only [dev_newDev, if_true]
  congr 1
  simp

/-! ### the invariants of `Proofs/C15WInv.lean` at the creation sites -/

theorem SupInv.newDev {k : WKey} {d : DKey} (hf : DFresh d) (hi : SupInv k) :
    SupInv { k with devs := k.devs ++ [d] } := by
  intro y
  rw [dev_newDev]
  split
  · rename_i e
    subst e
    have := hi k.devs.length
    rw [dev_length_default] at this
    rw [hf.1]; exact this
  · exact hi y

theorem SupInv.dstep (hP : ∀ k d, P k d → DFresh d) {k k' : WKey} (h : DStep P ph k k')
    (hi : SupInv k) : SupInv k' :=
  h.lift SupInv.step (fun _ _ hp hi => SupInv.newDev (hP _ _ hp) hi) (fun _ _ _ hi => hi) hi

theorem LevelInvK.newDev {k : WKey} {d : DKey} (hf : DFresh d) (hi : LevelInvK k) :
    LevelInvK { k with devs := k.devs ++ [d] } := by
  intro y
  rw [dev_newDev]
  split
  · rename_i e
    subst e
    have := hi k.devs.length
    rw [dev_length_default] at this
    rw [hf.2.2.2.2.1]; exact this
  · exact hi y

theorem LevelInvK.dstep (hP : ∀ k d, P k d → DFresh d) {k k' : WKey} (h : DStep P ph k k')
    (hi : LevelInvK k) : LevelInvK k' :=
  h.lift LevelInvK.step (fun _ _ hp hi => LevelInvK.newDev (hP _ _ hp) hi) (fun _ _ _ hi => hi) hi

theorem ValInv.dstep (hP : ∀ k d, P k d → VFresh d.val) {k k' : WKey} (h : DStep P ph k k')
    (hi : ValInv k) : ValInv k' := by
  refine h.lift ValInv.step ?_ ?_ hi
  · intro k d hp hi
    refine ⟨fun y => ?_, hi.2⟩
    rw [dev_newDev]
    split
    · exact vinv_fresh _ (hP _ _ hp).1 (hP _ _ hp).2
    · exact hi.1 y
  · intro k v hv hi
    refine ⟨hi.1, fun m => ?_⟩
    rw [mval_newMaint]
    split
    · exact vinv_fresh _ hv.1 hv.2
    · exact hi.2 m

theorem ValueInv.dstep (hP : ∀ k d, P k d → DFresh d) {k k' : WKey} (h : DStep P .run k k')
    (hi : ValueInv k) : ValueInv k' := by
  refine h.lift ValueInv.step ?_ (fun _ _ _ hi => hi) hi
  intro k d hp hi y
  rw [dev_newDev]
  split
  · obtain ⟨_, h2, _, h4, _, h6, _⟩ := hP _ _ hp
    exact ⟨by omega, fun _ => h2, fun _ => h4⟩
  · exact hi y

theorem LabelInv.dstep (hP : ∀ k d, P k d → VFresh d.val) {k k' : WKey} (h : DStep P ph k k')
    (hi : LabelInv k) : LabelInv k' := by
  refine h.lift LabelInv.step ?_ ?_ hi
  · intro k d hp hi
    refine ⟨fun y => ?_, hi.2⟩
    rw [dev_newDev]
    split
    · intro e he
      rw [(hP _ _ hp).2] at he; cases he
    · exact hi.1 y
  · intro k v hv hi
    refine ⟨hi.1, fun m => ?_⟩
    rw [mval_newMaint]
    split
    · intro e he
      rw [hv.2] at he; cases he
    · exact hi.2 m

theorem DelivInv.dstep (hP : ∀ k d, P k d → DFresh d) {k k' : WKey} (h : DStep P ph k k')
    (hi : DelivInv k) : DelivInv k' := by
  refine h.lift DelivInv.step ?_ (fun _ _ _ hi => hi) hi
  intro k d hp hi
  refine ⟨?_, fun y => ?_⟩
  · have := hi.1
    simp only [recvTotal, List.map_append, List.sum_append, List.map_cons, List.map_nil,
      List.sum_cons, List.sum_nil, (hP _ _ hp).2.2.1] at this ⊢
    omega
  · rw [dev_newDev]
    split
    · intro _; exact (hP _ _ hp).2.2.1
    · exact hi.2 y

theorem ResInv.dstep {k k' : WKey} (h : DStep P ph k k') (hi : ResInv k) : ResInv k' :=
  h.lift ResInv.step (fun _ _ _ hi => hi) (fun _ _ _ hi => hi) hi

theorem HasRecInv.dstep {k k' : WKey} (h : DStep P ph k k') (hi : HasRecInv k) : HasRecInv k' :=
  h.lift HasRecInv.step (fun _ _ _ hi => hi) (fun _ _ _ hi => hi) hi

theorem inited_dstep {k k' : WKey} (h : DStep P ph k k') (hi : k.rmInited = true) :
    k'.rmInited = true :=
  h.lift (I := fun k => k.rmInited = true) (fun h hi => inited_step h hi) (fun _ _ _ hi => hi)
    (fun _ _ _ hi => hi) hi

/-- No device is set up to create batches and no batch exists: created devices must not be set up
for batches either. -/
theorem LeafInv.dstep (hP : ∀ k d, P k d → d.genBatch = 0 ∧ d.bsize = none) {k k' : WKey}
    (h : DStep P ph k k') (hi : LeafInv k) : LeafInv k' := by
  refine h.lift LeafInv.step ?_ (fun _ _ _ hi => hi) hi
  intro k d hp hi
  refine ⟨fun y => ?_, hi.2⟩
  rw [dev_newDev]
  split
  · exact hP _ _ hp
  · exact hi.1 y

/-! ### time stamps -/

theorem DStep.stamped {k k' : WKey} (h : DStep P ph k k') : Stamped k k' := by
  induction h with
  | refl k => exact Stamped.refl k
  | trans _ _ ih1 ih2 => exact ih1.trans ih2
  | ks h => exact h.stamped
  | newDev k d h => exact ⟨rfl, [], by simp, by simp⟩
  | newMaint k v h => exact ⟨rfl, [], by simp, by simp⟩

theorem envInv_dstep {k k' : WKey} (h : DStep P ph k k') (hi : C01.Inv k.env) : C01.Inv k'.env :=
  h.lift (I := fun k => C01.Inv k.env) (fun h hi => envInv_step h hi) (fun _ _ _ hi => hi)
    (fun _ _ _ hi => hi) hi

theorem TimeInv.dstep {k k' : WKey} (h : DStep P ph k k') (hi : TimeInv k) : TimeInv k' :=
  h.lift TimeInv.step (fun _ _ _ hi => hi) (fun _ _ _ hi => hi) hi

/-! ### what never changes: the existing devices, their kinds and starting values -/

/-- `k'` has all the devices and maintainers of `k`, with their kinds and starting values. -/
def Grows (k k' : WKey) : Prop :=
  k.devs.length ≤ k'.devs.length ∧ k.mvals.length ≤ k'.mvals.length ∧
  (∀ x, x < k.devs.length → (k'.dev x).kind = (k.dev x).kind ∧ (k'.dev x).val.init = (k.dev x).val.init) ∧
  (∀ m, m < k.mvals.length → (k'.mval m).init = (k.mval m).init)

theorem Grows.refl (k : WKey) : Grows k k :=
  ⟨Nat.le_refl _, Nat.le_refl _, fun _ _ => ⟨rfl, rfl⟩, fun _ _ => rfl⟩

theorem Grows.trans {a b c : WKey} (h1 : Grows a b) (h2 : Grows b c) : Grows a c := by
  refine ⟨Nat.le_trans h1.1 h2.1, Nat.le_trans h1.2.1 h2.2.1, fun x hx => ?_, fun m hm => ?_⟩
  · have a1 := h1.2.2.1 x hx
    have a2 := h2.2.2.1 x (Nat.lt_of_lt_of_le hx h1.1)
    exact ⟨a2.1.trans a1.1, a2.2.trans a1.2⟩
  · exact (h2.2.2.2 m (Nat.lt_of_lt_of_le hm h1.2.1)).trans (h1.2.2.2 m hm)

theorem Grows.of_static {k k' : WKey}
    (h : k'.devs.length = k.devs.length ∧ k'.mvals.length = k.mvals.length ∧
      (∀ x, (k'.dev x).kind = (k.dev x).kind ∧ (k'.dev x).val.init = (k.dev x).val.init) ∧
      (∀ m, (k'.mval m).init = (k.mval m).init)) : Grows k k' :=
  ⟨Nat.le_of_eq h.1.symm, Nat.le_of_eq h.2.1.symm, fun x _ => h.2.2.1 x, fun m _ => h.2.2.2 m⟩

theorem DStep.grows {k k' : WKey} (h : DStep P ph k k') : Grows k k' := by
  induction h with
  | refl k => exact Grows.refl k
  | trans _ _ ih1 ih2 => exact ih1.trans ih2
  | ks h => exact Grows.of_static (KStep.static h)
  | newDev k d h =>
    refine ⟨by simp, Nat.le_refl _, fun x hx => ?_, fun _ _ => rfl⟩
    rw [dev_newDev, if_neg (Nat.ne_of_lt hx)]
    exact ⟨rfl, rfl⟩
  | newMaint k v h =>
    refine ⟨Nat.le_refl _, by simp, fun _ _ => ⟨rfl, rfl⟩, fun m hm => ?_⟩
    rw [mval_newMaint, if_neg (Nat.ne_of_lt hm)]

/-! ### runs of the event loop -/

/-- Runs of the event loop on keys: event actions (which may create assets) and pops of the queue. -/
inductive DRun (P : WKey → DKey → Prop) : WKey → WKey → Prop where
  | refl (k : WKey) : DRun P k k
  | trans {a b c : WKey} : DRun P a b → DRun P b c → DRun P a c
  | act {a b : WKey} : DStep P .run a b → DRun P a b
  | pop (k : WKey) : DRun P k { k with env := (k.env.apply Arith.exact .step).1 }

theorem DRun.preserve {I : WKey → Prop} (hs : ∀ {k k'}, DStep P .run k k' → I k → I k')
    (he : ∀ (k : WKey) (e : Env), I k → I { k with env := e }) {k k' : WKey} (h : DRun P k k')
    (hi : I k) : I k' := by
  induction h with
  | refl k => exact hi
  | trans _ _ ih1 ih2 => exact ih2 (ih1 hi)
  | act h => exact hs h hi
  | pop k => exact he k _ hi

theorem DRun.mono {P' : WKey → DKey → Prop} (hP : ∀ k d, P k d → P' k d) {k k' : WKey}
    (h : DRun P k k') : DRun P' k k' := by
  induction h with
  | refl k => exact .refl k
  | trans _ _ ih1 ih2 => exact .trans ih1 ih2
  | act h => exact .act (h.mono hP (Phase.le_refl _))
  | pop k => exact .pop k

theorem DRun.grows {k k' : WKey} (h : DRun P k k') : Grows k k' := by
  induction h with
  | refl k => exact Grows.refl k
  | trans _ _ ih1 ih2 => exact ih1.trans ih2
  | act h => exact h.grows
  | pop k => exact Grows.refl _

theorem TimeInv.drun {k k' : WKey} (h : DRun P k k') (hi : TimeInv k) : TimeInv k' := by
  induction h with
  | refl k => exact hi
  | trans _ _ ih1 ih2 => exact ih2 (ih1 hi)
  | act h => exact TimeInv.dstep h hi
  | pop k => exact TimeInv.pop k hi

end C15D
end SimProc
