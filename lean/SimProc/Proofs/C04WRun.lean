/-
C04 (general serial line) — layer 2: one lemma per kind of event (the run invariant is preserved).
-/
import SimProc.Proofs.C04WPhi

set_option linter.unusedSimpArgs false
set_option linter.unusedVariables false

namespace SimProc
namespace C04W
open World C04
open SS (Key key cls)


/-! ### function update -/

def upd {α : Type} (f : Nat → α) (i : Nat) (v : α) : Nat → α := fun k => if k = i then v else f k

@[simp] theorem upd_same {α : Type} (f : Nat → α) (i : Nat) (v : α) : upd f i v i = v := by simp [upd]
theorem upd_ne {α : Type} (f : Nat → α) {i k : Nat} (v : α) (h : k ≠ i) : upd f i v k = f k := by
  simp [upd, h]

theorem xin_upd_ne (x : Nat → Nat) {i j : Nat} (v : Nat) (h : j ≠ i + 1) : xin (upd x i v) j = xin x j := by
  unfold xin
  split
  · rfl
  · exact upd_ne _ _ (by omega)

theorem xin_succ (x : Nat → Nat) (j : Nat) : xin x (j + 1) = x j := by simp [xin]

/-- Counts decrease along the line. -/
theorem Inv.x_le {P : Par} {T : Int} {s : S} {x : Nat → Nat} {m : Nat → Mode} (inv : Inv P T s x m)
    {j : Nat} (hj : j ≤ P.L.n) : x j ≤ x 0 := by
  induction j with
  | zero => exact Nat.le_refl _
  | succ j ih =>
    have := (inv.di (j + 1) hj).pd.le (by omega)
    rw [xin_succ] at this
    exact Nat.le_trans this (ih (by omega))


/-! ### the popped event -/

theorem pop_recs (s : S) (e : Event) (rest : List Event) : (pop s e rest).recs = s.recs := rfl
theorem pop_parts (s : S) (e : Event) (rest : List Event) : (pop s e rest).parts = s.parts := rfl
theorem pop_evs (s : S) (e : Event) (rest : List Event) : (pop s e rest).evs = rest := rfl
theorem pop_now (s : S) (e : Event) (rest : List Event) : (pop s e rest).now = e.time := rfl
theorem dv_pop (s : S) (e : Event) (rest : List Event) (j : Nat) : dv (pop s e rest) j = dv s j := rfl

/-- What is known when the popped event is the FINISH event of station `j`. -/
theorem head_proc {P : Par} {T : Int} {s : S} {x : Nat → Nat} {m : Nat → Mode} (inv : Inv P T s x m)
    {e : Event} {rest : List Event} (hs : s.evs = e :: rest) {j : Nat} (ha : e.asset = (j : Int) + 1)
    (hj : j ≤ P.L.n) (hm : m j = .proc) :
    InvH P T (pop s e rest) x m [j] ∧ e.time ≤ T ∧
    e.time = eI P.L j (x j + 1) + (stn P.L j).c ∧ e.act = 2 + 16 * j ∧ e.cancelled = false ∧
    cls ((j : Int) + 1) rest = [] ∧
    PD P.L e.time j (dyn (dv s j)) (xin x j) (x j) (x (j + 1)) .proc := by
  obtain ⟨ih, hT, hle, hk, hpd⟩ := inv.pop hs ha hj
  rw [hm] at hk hpd
  simp only [keysOf] at hk
  obtain ⟨hk1, hk2⟩ := List.cons.inj hk
  obtain ⟨h1, _, _, h4, h5⟩ := SS.key_fields hk1
  exact ⟨ih, hT, h1, h4, h5, hk2, hpd⟩

/-- What is known when the popped event is the PASS event of station `j`. -/
theorem head_ready {P : Par} {T : Int} {s : S} {x : Nat → Nat} {m : Nat → Mode} (inv : Inv P T s x m)
    {e : Event} {rest : List Event} (hs : s.evs = e :: rest) {j : Nat} (ha : e.asset = (j : Int) + 1)
    (hj : j ≤ P.L.n) {t : Int} (hm : m j = .ready t) :
    InvH P T (pop s e rest) x m [j] ∧ e.time ≤ T ∧
    e.time = t ∧ e.act = 3 + 16 * j ∧ e.cancelled = false ∧
    cls ((j : Int) + 1) rest = [] ∧
    PD P.L e.time j (dyn (dv s j)) (xin x j) (x j) (x (j + 1)) (.ready t) := by
  obtain ⟨ih, hT, hle, hk, hpd⟩ := inv.pop hs ha hj
  rw [hm] at hk hpd
  simp only [keysOf] at hk
  obtain ⟨hk1, hk2⟩ := List.cons.inj hk
  obtain ⟨h1, _, _, h4, h5⟩ := SS.key_fields hk1
  exact ⟨ih, hT, h1, h4, h5, hk2, hpd⟩

/-! ### FINISH of a handler / processor -/

theorem case_finish_hp {P : Par} {T : Int} {s : S} {x : Nat → Nat} {m : Nat → Mode} (hL : P.L.WF)
    (inv : Inv P T s x m) {e : Event} {rest : List Event} (hs : s.evs = e :: rest) {j : Nat}
    (ha : e.asset = (j : Int) + 1) (hj : j < P.L.n)
    (hk : kindOf P.L j = .handler ∨ kindOf P.L j = .processor) (hm : m j = .proc) :
    ∃ s', (W P s).step = some (e, W P s') ∧ Inv P T s' x (upd m j (.ready e.time)) ∧
      Decr P x m x (upd m j (.ready e.time)) := by
  have hle := Nat.le_of_lt hj
  obtain ⟨ih, hT, ht, hact, hcan, hk0, hpd⟩ := head_proc inv hs ha hle hm
  have hG0 := ih.good
  have hkind := (hG0.stat.facts hle).kind
  have hsl := (Slots_hp hk _ _ _ _).1 hpd.slots
  have hj1 : 1 ≤ j := by
    rcases Nat.eq_zero_or_pos j with h | h
    · subst h; rw [kindOf_zero] at hk; rcases hk with hk | hk <;> cases hk
    · exact h
  obtain ⟨p, hp⟩ : ∃ p, (dv s j).part = some p := by
    have := hsl.1.2 rfl
    simp only [dyn] at this
    exact Option.isSome_iff_exists.1 this
  have ho : (dv s j).output = none := by
    have := hsl.2
    simp [dyn] at this
    exact this
  have hstep := step_live P s e rest hs inv.term hcan (by omega)
  rw [hact, ofNat_finish] at hstep
  have hex : (W P (pop s e rest)).exec (.finishCycle j) = W P (finishS P (pop s e rest) j p) := by
    show (W P (pop s e rest)).finishCycle j = _
    refine W_finishCycle P _ j p hG0.stat hle ?_ ?_ hp ho hG0.pok hG0.now0
    · rw [dv_pop, ← dv_pop s e rest, hkind]; rcases hk with hk | hk <;> rw [hk] <;> simp
    · rw [dv_pop, ← dv_pop s e rest, hkind]; rcases hk with hk | hk <;> rw [hk] <;> simp
  rw [hex] at hstep
  refine ⟨_, hstep, ?_, decr1 hle (fun i _ hne => ⟨rfl, upd_ne _ _ hne⟩) (fun B _ => by
    unfold wt; rw [upd_same, hm]; simp [rank])⟩
  obtain ⟨e1, e2, e3, F⟩ := finishHP_spec hG0 hle hk p hk0
  refine ih.close F (hG0.finishS j p) ?_ ?_ inv.bud
  · intro i hi him
    have : i = j := by simpa using him
    subst this
    rw [upd_same]
    have d := inv.di i hi
    refine ⟨by rw [e2]; rfl, ?_, fun h1 => by rw [e3]; exact d.ent h1, fun h0 => by omega⟩
    have hnow : (finishS P (pop s e rest) i p).now = e.time := by rw [finishS_now]; rfl
    rw [hnow, e1]
    have hw : (dv s i).waitingDS = false := by
      have := hpd.wds; simp [dyn] at this; exact this
    have hdI := dI_ge_ec P.L hL hle (x i)
    exact { past := hpd.past, le := hpd.le, cap := hpd.cap, idle := (by intro h; cases h),
            nonidle := fun h1 _ => hpd.nonidle h1 (by simp), procm := (by intro h; cases h),
            readym := (by
              intro t h; cases h
              exact ⟨hj, by show _ ≤ e.time; omega, by show e.time ≤ _; omega⟩),
            blockedm := (by intro h; cases h), exhm := (by intro h; cases h),
            wds := (by simp),
            slots := (Slots_hp hk _ _ _ _).2 (by simp) }
  · intro i hi hni
    have : i ≠ j := by simpa using hni
    exact ⟨rfl, rfl, rfl, upd_ne _ _ this⟩


/-! ### the source generates a part -/

theorem gen_spec {P : Par} {s : S} (hG : Good P s) (hkeys : cls (((0 : Nat) : Int) + 1) s.evs = []) :
    dyn (dv (genS P s) 0) = { dyn (dv s 0) with output := some s.parts.length, wds := false } ∧
    cls (((0 : Nat) : Int) + 1) (genS P s).evs = [(s.now, 28, ((0 : Nat) : Int) + 1, 3 + 16 * 0, false)] ∧
    (genS P s).recs = s.recs ∧ (genS P s).parts.length = s.parts.length + 1 := by
  have hlt := hG.stat.lt (Nat.zero_le P.L.n)
  obtain ⟨s1, hs1⟩ : ∃ s1 : S, s1 = { setD s 0 { dv s 0 with output := some s.parts.length } with
      parts := SS.histAdd (s.parts ++ [{ quality := 1, value := 0 }]) s.parts.length 0
      gen := s.gen ++ [s.parts.length] } := ⟨_, rfl⟩
  have hG1 : Good P s1 := by
    rw [hs1]
    exact ⟨(hG.setD (j := 0) (by rfl)).stat, SS.PartsOK_histAdd (SS.PartsOK_append hG.pok 1) _ _, hG.now0⟩
  have hgen : genS P s = passS P s1 0 0 := by rw [hs1]; rfl
  have hlt1 : 0 < s1.ds.length := hG1.stat.lt (Nat.zero_le _)
  have hd1 : dv s1 0 = { dv s 0 with output := some s.parts.length } := by
    rw [hs1]; exact dv_setD_same s 0 _ hlt
  have hk1 : cls (((0 : Nat) : Int) + 1) s1.evs = [] := by rw [hs1]; exact hkeys
  have hn1 : s1.now = s.now := by rw [hs1]; rfl
  rw [hgen]
  refine ⟨?_, ?_, by rw [passS_recs, hs1]; rfl, ?_⟩
  · rw [dyn_passS_same _ _ _ _ hlt1, hd1]; rfl
  · rw [cls_passS_same hG1 (Nat.zero_le _) 0 hk1, hn1]; simp
  · rw [passS_parts, hs1]
    show (SS.histAdd _ _ _).length = _
    rw [SS.histAdd_length]; simp

theorem case_finish_src {P : Par} {T : Int} {s : S} {x : Nat → Nat} {m : Nat → Mode} (hL : P.L.WF)
    (inv : Inv P T s x m) {e : Event} {rest : List Event} (hs : s.evs = e :: rest)
    (ha : e.asset = ((0 : Nat) : Int) + 1) (hm : m 0 = .proc) :
    ∃ s', (W P s).step = some (e, W P s') ∧ Inv P T s' x (upd m 0 (.ready e.time)) ∧
      Decr P x m x (upd m 0 (.ready e.time)) := by
  have hle := Nat.zero_le P.L.n
  have hk := kindOf_zero P.L
  obtain ⟨ih, hT, ht, hact, hcan, hk0, hpd⟩ := head_proc inv hs ha hle hm
  have hG0 := ih.good
  have hf := hG0.stat.facts hle
  have hsl := (Slots_source hk _ _ _ _).1 hpd.slots
  have ho : (dv s 0).output = none := by
    have := hsl.2.1; simp [dyn] at this; exact this
  have hstep := step_live P s e rest hs inv.term hcan (by omega)
  rw [hact, ofNat_finish] at hstep
  have hex : (W P (pop s e rest)).exec (.finishCycle 0) = W P (genS P (pop s e rest)) := by
    show (W P (pop s e rest)).finishCycle 0 = _
    exact W_finishCycle_source P _ (by rw [hf.kind]; exact hk) ho hf.genBatch hf.genQuality hf.genValue
      hG0.pok hG0.now0 (hG0.stat.lt hle)
  rw [hex] at hstep
  refine ⟨_, hstep, ?_, decr1 hle (fun i _ hne => ⟨rfl, upd_ne _ _ hne⟩) (fun B _ => by
    unfold wt; rw [upd_same, hm]; simp [rank])⟩
  obtain ⟨e1, e2, e3, e4⟩ := gen_spec hG0 hk0
  refine ih.close (Foot.genS hG0) hG0.genS ?_ ?_ inv.bud
  · intro i hi him
    have : i = 0 := by simpa using him
    subst this
    rw [upd_same]
    have d := inv.di 0 hi
    refine ⟨by rw [e2]; rfl, ?_, fun h1 => by omega, fun _ => ?_⟩
    · have hnow : (genS P (pop s e rest)).now = e.time := rfl
      rw [hnow, e1]
      have hdI := dI_ge_ec P.L hL hle (x 0)
      exact { past := hpd.past, le := hpd.le, cap := hpd.cap, idle := (by intro h; cases h),
              nonidle := fun h1 _ => by omega, procm := (by intro h; cases h),
              readym := (by
                intro t h; cases h
                exact ⟨n_pos P.L, by show _ ≤ e.time; omega, by show e.time ≤ _; omega⟩),
              blockedm := (by intro h; cases h), exhm := (by intro h; cases h),
              wds := (by simp),
              slots := (Slots_source hk _ _ _ _).2 ⟨hsl.1, by simp, hsl.2.2⟩ }
    · rw [e4]
      have := d.plen rfl
      rw [hm] at this
      simp at this ⊢
      exact this
  · intro i hi hni
    have : i ≠ 0 := by simpa using hni
    exact ⟨rfl, rfl, rfl, upd_ne _ _ this⟩

/-! ### FINISH of the sink -/

@[simp] theorem wakeS_recs (P : Par) (s : S) (u : Nat) : (wakeS P s u).recs = s.recs := by
  unfold wakeS; split <;> rfl
@[simp] theorem wakeS_parts (P : Par) (s : S) (u : Nat) : (wakeS P s u).parts = s.parts := by
  unfold wakeS; split <;> rfl

theorem wakeMode_proc (now : Int) (m : Mode) : (wakeMode now m = .proc) ↔ m = .proc := by
  unfold wakeMode
  split
  · next h => subst h; simp
  · rfl

/-- Waking up station `u` (if it is blocked), at the level of its whole invariant. -/
theorem DI.wake {P : Par} {s : S} (hG : Good P s) {u : Nat} (hu : u < P.L.n) {xp xu xn : Nat} {mu : Mode}
    (d : DI P s u xp xu xn mu) (hlb : mu = .blocked → s.now ≤ dI P.L u (xu + 1)) (xn' : Nat) :
    DI P (wakeS P s u) u xp xu xn' (wakeMode s.now mu) := by
  obtain ⟨w1, w2⟩ := wake_spec hG hu d.keys d.pd hlb xn'
  refine ⟨w1, by rw [wakeS_now]; exact w2, fun h1 => by rw [wakeS_recs]; exact d.ent h1, fun h0 => ?_⟩
  rw [wakeS_parts, d.plen h0]
  by_cases hp : mu = .proc
  · rw [if_pos hp, if_pos ((wakeMode_proc _ _).2 hp)]
  · rw [if_neg hp, if_neg (fun h => hp ((wakeMode_proc _ _).1 h))]

theorem case_finish_sink {P : Par} {T : Int} {s : S} {x : Nat → Nat} {m : Nat → Mode} (hL : P.L.WF)
    (inv : Inv P T s x m) {e : Event} {rest : List Event} (hs : s.evs = e :: rest)
    (ha : e.asset = (P.L.n : Int) + 1) (hm : m P.L.n = .proc) :
    ∃ s', (W P s).step = some (e, W P s') ∧
      Inv P T s' (upd x P.L.n (x P.L.n + 1))
        (upd (upd m P.L.n .idle) (P.L.n - 1) (wakeMode e.time (m (P.L.n - 1)))) ∧
      Decr P x m (upd x P.L.n (x P.L.n + 1))
        (upd (upd m P.L.n .idle) (P.L.n - 1) (wakeMode e.time (m (P.L.n - 1)))) := by
  have hn := n_pos P.L
  have hle := Nat.le_refl P.L.n
  have hk := kindOf_n P.L
  obtain ⟨ih, hT, ht, hact, hcan, hk0, hpd⟩ := head_proc inv hs ha hle hm
  have hG0 := ih.good
  have hf := hG0.stat.facts hle
  have hsl := (Slots_sink hk _ _ _ _).1 hpd.slots
  obtain ⟨p, hp⟩ : ∃ p, (dv s P.L.n).part = some p := by
    have := hsl.1.2 rfl
    simp only [dyn] at this
    exact Option.isSome_iff_exists.1 this
  have ho : (dv s P.L.n).output = none := hsl.2.1
  have hstep := step_live P s e rest hs inv.term hcan (by omega)
  rw [hact, ofNat_finish] at hstep
  have hex : (W P (pop s e rest)).exec (.finishCycle P.L.n) = W P (finishKS P (pop s e rest) P.L.n) := by
    show (W P (pop s e rest)).finishCycle P.L.n = _
    exact W_finishCycle_sink P _ P.L.n p hG0.stat rfl (by rw [hf.kind]; exact hk) hp ho hG0.now0
  rw [hex] at hstep
  refine ⟨_, hstep, ?_, decr2 (a := P.L.n - 1) (b := P.L.n) (by omega) hle (by omega)
    (fun i _ h1 h2 => ⟨upd_ne _ _ h2, by rw [upd_ne _ _ h1, upd_ne _ _ h2]⟩) (fun B _ => by
      have hr := rank_wakeMode e.time (m (P.L.n - 1))
      unfold wt
      rw [upd_ne _ _ (by omega : P.L.n - 1 ≠ P.L.n), upd_same, upd_same,
        upd_ne _ _ (by omega : P.L.n ≠ P.L.n - 1), upd_same, hm]
      have r1 : rank Mode.idle = 0 := rfl
      have r2 : rank Mode.proc = 2 := rfl
      rw [r1, r2]
      omega)⟩
  -- counts
  have hbuf : isBuf P.L P.L.n = false := by unfold isBuf; rw [hk]; rfl
  have hcap1 := effCap_nonbuf P.L hle hbuf
  have hxp : xin x P.L.n = x P.L.n + 1 := by
    have h1 := hpd.nonidle hn (by simp)
    have h2 := hpd.cap hn 1 hcap1
    omega
  have hn1 : P.L.n - 1 + 1 = P.L.n := by omega
  have hdn : dI P.L P.L.n (x P.L.n + 1) = e.time := by
    rw [dI_sink hL, ht]
    obtain ⟨n', hn'⟩ : ∃ n', P.L.n = n' + 1 := ⟨P.L.n - 1, by omega⟩
    rw [hn']
    rfl
  -- the sink itself
  obtain ⟨e1, e2, e3⟩ := finishKS_self hG0
  -- the upstream station
  obtain ⟨s1, hs1⟩ : ∃ s1, s1 = waitS (setD (pop s e rest) P.L.n
      { dv (pop s e rest) P.L.n with output := none, part := none }) P.L.n := ⟨_, rfl⟩
  have hG1 : Good P s1 := by rw [hs1]; exact (hG0.setD (by rfl)).waitS _
  have F1 : Foot P.L [P.L.n] (pop s e rest) s1 := by
    rw [hs1]; exact (Foot.setD P.L _ _ _).trans (Foot.waitS P.L _ _)
  have heq : finishKS P (pop s e rest) P.L.n = wakeS P s1 (P.L.n - 1) := by
    rw [finishKS_eq hG0, hs1]
  have hu : P.L.n - 1 < P.L.n := by omega
  have du := (ih.di (P.L.n - 1) (by omega) (by simp; omega)).frame F1 (by simp; omega)
  rw [hn1] at du
  have hnow1 : s1.now = e.time := by rw [F1.now]; rfl
  have hlb : m (P.L.n - 1) = .blocked → s1.now ≤ dI P.L (P.L.n - 1) (x (P.L.n - 1) + 1) := by
    intro hb
    obtain ⟨_, _, K, hK, hxK⟩ := du.pd.blockedm hb
    rw [hn1, hcap1] at hK
    cases hK
    have := dI_ge_block P.L hL hu (x (P.L.n - 1)) 1 (by rw [hn1]; exact hcap1)
    rw [hn1, hxK] at this
    rw [hnow1, ← hdn, hxK]
    simpa using this
  have dw := du.wake hG1 hu hlb (x P.L.n + 1)
  rw [hnow1, ← heq] at dw
  have F : Foot P.L [P.L.n - 1, P.L.n] (pop s e rest) (finishKS P (pop s e rest) P.L.n) :=
    Foot.finishKS hG0 hle
  refine (ih.widen (H' := [P.L.n - 1, P.L.n]) (by simp)).close F (hG0.finishKS _) ?_ ?_ ?_
  · intro i hi him
    have hcases : i = P.L.n - 1 ∨ i = P.L.n := by simpa using him
    rcases hcases with hi1 | hi2
    · -- upstream station
      subst hi1
      rw [upd_same]
      have hx1 : xin (upd x P.L.n (x P.L.n + 1)) (P.L.n - 1) = xin x (P.L.n - 1) :=
        xin_upd_ne _ _ (by omega)
      have hx2 : upd x P.L.n (x P.L.n + 1) (P.L.n - 1) = x (P.L.n - 1) := upd_ne _ _ (by omega)
      have hx3 : upd x P.L.n (x P.L.n + 1) (P.L.n - 1 + 1) = x P.L.n + 1 := by
        rw [hn1, upd_same]
      rw [hx1, hx2, hx3]
      exact dw
    · subst hi2
      have hx1 : xin (upd x P.L.n (x P.L.n + 1)) P.L.n = xin x P.L.n := xin_upd_ne _ _ (by omega)
      have hx2 : upd x P.L.n (x P.L.n + 1) P.L.n = x P.L.n + 1 := upd_same _ _ _
      have hx3 : upd x P.L.n (x P.L.n + 1) (P.L.n + 1) = x (P.L.n + 1) := upd_ne _ _ (by omega)
      have hm2 : upd (upd m P.L.n .idle) (P.L.n - 1) (wakeMode e.time (m (P.L.n - 1))) P.L.n = .idle := by
        rw [upd_ne _ _ (by omega : P.L.n ≠ P.L.n - 1), upd_same]
      rw [hx1, hx2, hx3, hm2]
      have d := inv.di P.L.n hle
      refine ⟨by rw [e2]; exact hk0, ?_, fun h1 => by rw [e3]; exact d.ent h1, fun h0 => by omega⟩
      have hnow : (finishKS P (pop s e rest) P.L.n).now = e.time := by rw [finishKS_now]; rfl
      rw [hnow, e1]
      exact { past := (by rw [hdn]; exact Int.le_refl _), le := fun _ => by omega,
              cap := (by intro _ K hK; rw [hcap1] at hK; cases hK; omega),
              idle := fun _ => ⟨hn, hxp⟩, nonidle := fun _ h => absurd rfl h,
              procm := (by intro h; cases h), readym := (by intro t h; cases h),
              blockedm := (by intro h; cases h), exhm := (by intro h; cases h),
              wds := (by
                have := hpd.wds
                simp [dyn] at this ⊢
                exact this),
              slots := (Slots_sink hk _ _ _ _).2 ⟨by simp [dyn], rfl, hsl.2.2⟩ }
  · intro i hi hni
    have hne : i ≠ P.L.n - 1 ∧ i ≠ P.L.n := by simpa using hni
    refine ⟨xin_upd_ne _ _ (by omega), upd_ne _ _ hne.2, upd_ne _ _ (by omega), ?_⟩
    rw [upd_ne _ _ hne.1, upd_ne _ _ hne.2]
  · intro B hB
    rw [upd_ne _ _ (by omega)]
    exact inv.bud B hB


/-! ### a hand-over -/

/-- Station `j+1` (which has room) takes the part at the head of station `j`: the part leaves `j`
at the reference's time, and `j+1` satisfies its invariant again. -/
theorem transfer_spec {P : Par} {s : S} (hG : Good P s) (hL : P.L.WF) {j : Nat} (hj : j < P.L.n) (p : Nat)
    {xj x1 x2 : Nat} {m1 : Mode} (d1 : DI P s (j + 1) xj x1 x2 m1)
    (hq : (dv s j).waitingDS = false) (hc : canAcc (dv s (j + 1)) = true)
    (hlo : eI P.L j (xj + 1) + (stn P.L j).c ≤ s.now) (hpast : dI P.L j xj ≤ s.now)
    (hup : s.now ≤ dI P.L j (xj + 1)) :
    dI P.L j (xj + 1) = s.now ∧
    DI P (acceptS P s (j + 1) p) (j + 1) (xj + 1) (accX P.L (j + 1) x1) x2 (accM P.L (j + 1) s.now m1) ∧
    Foot P.L [j + 1] s (acceptS P s (j + 1) p) := by
  have hE := handover_time hG hL hj d1.pd hc hlo hpast hup
  obtain ⟨a1, a2, a3, F⟩ := accept_spec hG hL (by omega) (by omega : j + 1 ≤ P.L.n) p d1.keys d1.pd
    (d1.ent (by omega)) hE hq hc
  exact ⟨hE, ⟨a1, by rw [acceptS_now]; exact a2, fun _ => a3, fun h0 => by omega⟩, F⟩

/-! ### PASS of a handler / processor -/

theorem case_pass_hp {P : Par} {T : Int} {s : S} {x : Nat → Nat} {m : Nat → Mode} (hL : P.L.WF)
    (inv : Inv P T s x m) {e : Event} {rest : List Event} (hs : s.evs = e :: rest) {j : Nat}
    (ha : e.asset = (j : Int) + 1) (hj : j < P.L.n)
    (hk : kindOf P.L j = .handler ∨ kindOf P.L j = .processor) {t : Int} (hm : m j = .ready t) :
    ∃ s' x' m', (W P s).step = some (e, W P s') ∧ Inv P T s' x' m' ∧ Decr P x m x' m' := by
  have hle := Nat.le_of_lt hj
  obtain ⟨ih, hT, ht, hact, hcan, hk0, hpd⟩ := head_ready inv hs ha hle hm
  have hG0 := ih.good
  have hkind := (hG0.stat.facts hle).kind
  have hsl := (Slots_hp hk _ _ _ _).1 hpd.slots
  have hj1 : 1 ≤ j := by
    rcases Nat.eq_zero_or_pos j with h | h
    · subst h; rw [kindOf_zero] at hk; rcases hk with hk | hk <;> cases hk
    · exact h
  obtain ⟨p, hp⟩ : ∃ p, (dv s j).output = some p := by
    have := hsl.2.2 ⟨by simp, by simp⟩
    simp only [dyn] at this
    exact Option.isSome_iff_exists.1 this
  have hpart : (dv s j).part = none := by
    have := hsl.1; simp [dyn] at this; exact this
  have hw : (dv s j).waitingDS = false := by
    have := hpd.wds; simp [dyn] at this; exact this
  obtain ⟨_, hlo, hup⟩ := hpd.readym t rfl
  have hbuf := isBuf_hp hk
  have hcap1 := effCap_nonbuf P.L hle hbuf
  have hxp : xin x j = x j + 1 := by
    have h1 := hpd.nonidle hj1 (by simp)
    have h2 := hpd.cap hj1 1 hcap1
    omega
  have hstep := step_live P s e rest hs inv.term hcan (by omega)
  rw [hact, ofNat_pass] at hstep
  have hex : (W P (pop s e rest)).exec (.passPart j) = W P (passHS P (pop s e rest) j p) := by
    show (W P (pop s e rest)).passPart j = _
    refine W_passPart_handler P _ j p hL hG0 hj ?_ hp
    rw [dv_pop, ← dv_pop s e rest, hkind]; exact hk
  rw [hex] at hstep
  have d1 := ih.di (j + 1) (by omega) (by simp)
  rw [xin_succ] at d1
  have hlt0 : j < (pop s e rest).ds.length := hG0.stat.lt hle
  by_cases hc : canAcc (dv (pop s e rest) (j + 1)) = true
  · -- the downstream station takes the part
    have hnow0 : (pop s e rest).now = e.time := rfl
    obtain ⟨hE, da, Fa⟩ := transfer_spec hG0 hL hj p d1 hw hc (by rw [hnow0, ht]; exact hlo)
      (by rw [hnow0]; exact hpd.past) (by rw [hnow0, ht]; exact hup)
    rw [hnow0] at hE da
    obtain ⟨s1, hs1⟩ : ∃ s1, s1 = acceptS P (pop s e rest) (j + 1) p := ⟨_, rfl⟩
    rw [← hs1] at da Fa
    have hG1 : Good P s1 := by rw [hs1]; exact hG0.acceptS _ _
    obtain ⟨s2, hs2⟩ : ∃ s2, s2 = setD s1 j { dv s1 j with output := none } := ⟨_, rfl⟩
    have hG2 : Good P s2 := by rw [hs2]; exact hG1.setD (by rfl)
    have F2 : Foot P.L [j] s1 s2 := by rw [hs2]; exact Foot.setD P.L _ _ _
    have hpass : passHS P (pop s e rest) j p = wakeS P (waitS s2 j) (j - 1) := by
      have : (giveS P (pop s e rest) (j + 1) p) = (s1, true) := by
        unfold giveS; rw [if_pos hc, hs1]
      unfold passHS
      simp only [this, if_true]
      rw [← hs2]
      refine notifyS_wake P s2 (by omega) ?_
      intro h
      have hk2 := (hG2.stat.facts hle).kind
      rw [h.1] at hk2
      rcases hk with hk | hk <;> rw [hk] at hk2 <;> cases hk2
    rw [hpass] at hstep
    have hlt1 : j < s1.ds.length := hG1.stat.lt hle
    have hlt2 : j < s2.ds.length := hG2.stat.lt hle
    have hd1 : dv s1 j = dv s j := by rw [Fa.dvj j (by simp)]; rfl
    have hd2 : dv s2 j = { dv s j with output := none } := by
      rw [hs2, dv_setD_same _ _ _ hlt1, hd1]
    obtain ⟨s3, hs3⟩ : ∃ s3, s3 = waitS s2 j := ⟨_, rfl⟩
    have hG3 : Good P s3 := by rw [hs3]; exact hG2.waitS j
    have F3 : Foot P.L [j] s2 s3 := by rw [hs3]; exact Foot.waitS P.L _ _
    rw [← hs3] at hstep
    have F03 : Foot P.L [j, j + 1] (pop s e rest) s3 :=
      ((Fa.mono (by simp)).trans (F2.mono (by simp))).trans (F3.mono (by simp))
    have hnow3 : s3.now = e.time := by rw [F03.now]; rfl
    -- the upstream station
    have hu : j - 1 < P.L.n := by omega
    have hj1' : j - 1 + 1 = j := by omega
    have du := (ih.di (j - 1) (by omega) (by simp; omega)).frame F03 (by simp; omega)
    rw [hj1'] at du
    have hlb : m (j - 1) = .blocked → s3.now ≤ dI P.L (j - 1) (x (j - 1) + 1) := by
      intro hb
      obtain ⟨_, _, K, hK, hxK⟩ := du.pd.blockedm hb
      rw [hj1', hcap1] at hK
      cases hK
      have := dI_ge_block P.L hL hu (x (j - 1)) 1 (by rw [hj1']; exact hcap1)
      rw [hj1', hxK] at this
      rw [hnow3, ← hE, hxK]
      simpa using this
    have dw := du.wake hG3 hu hlb (x j + 1)
    rw [hnow3] at dw
    have Fw : Foot P.L [j - 1] s3 (wakeS P s3 (j - 1)) := Foot.wakeS hG3 (by omega)
    have F : Foot P.L [j - 1, j, j + 1] (pop s e rest) (wakeS P s3 (j - 1)) :=
      (F03.mono (by simp)).trans (Fw.mono (by simp))
    -- the station itself
    have dj : DI P (wakeS P s3 (j - 1)) j (xin x j) (x j + 1) (accX P.L (j + 1) (x (j + 1))) .idle := by
      have hdv : dyn (dv (wakeS P s3 (j - 1)) j) = { dyn (dv s j) with output := none } := by
        rw [Fw.dvj j (by simp; omega), hs3, dyn_waitS _ _ _ hlt2, hd2]; rfl
      have d := inv.di j hle
      refine ⟨?_, ?_, fun h1 => ?_, fun h0 => by omega⟩
      · rw [Fw.kj j (by simp; omega), hs3, waitS_evs, hs2, setD_evs, Fa.kj j (by simp)]
        exact hk0
      · rw [wakeS_now, hnow3, hdv]
        exact { past := (by rw [hE]; exact Int.le_refl _), le := fun _ => by omega,
                cap := (by intro _ K hK; rw [hcap1] at hK; cases hK; omega),
                idle := fun _ => ⟨hj1, hxp⟩, nonidle := fun _ h => absurd rfl h,
                procm := (by intro h; cases h), readym := (by intro t h; cases h),
                blockedm := (by intro h; cases h), exhm := (by intro h; cases h),
                wds := (by simp [dyn, hw]),
                slots := (Slots_hp hk _ _ _ _).2 (by simp [dyn, hpart]) }
      · rw [wakeS_recs, hs3, waitS_recs, hs2, setD_recs, Fa.rt j (by simp)]
        exact d.ent h1
    -- the downstream station
    have dn : DI P (wakeS P s3 (j - 1)) (j + 1) (x j + 1) (accX P.L (j + 1) (x (j + 1))) (x (j + 2))
        (accM P.L (j + 1) e.time (m (j + 1))) :=
      da.frame (((F2.mono (by simp)).trans (F3.mono (by simp))).trans (Fw.mono (by simp)) :
        Foot P.L [j - 1, j] s1 _) (by simp; omega)
    have hxB : ∀ B, P.L.budget = some B → x j + 1 ≤ B := by
      intro B hB
      have h1 := inv.x_le (j := j - 1) (by omega)
      have h2 := inv.bud B hB
      have h3 : xin x j = x (j - 1) := by unfold xin; rw [if_neg (by omega)]
      omega
    refine ⟨_, upd (upd x (j + 1) (accX P.L (j + 1) (x (j + 1)))) j (x j + 1),
      upd (upd (upd m (j + 1) (accM P.L (j + 1) e.time (m (j + 1)))) j .idle) (j - 1)
        (wakeMode e.time (m (j - 1))), hstep, ?_,
      decr3 (a := j - 1) (b := j) (c := j + 1) (by omega) hle (by omega) (by omega) (by omega) (by omega)
        (fun i _ h1 h2 h3 => ⟨by rw [upd_ne _ _ h2, upd_ne _ _ h3],
          by rw [upd_ne _ _ h1, upd_ne _ _ h2, upd_ne _ _ h3]⟩)
        (fun B hB => by
          have hr := rank_wakeMode e.time (m (j - 1))
          have hr2 := rank_le (accM P.L (j + 1) e.time (m (j + 1)))
          have hax := accX_ge P.L (j + 1) (x (j + 1))
          have hB' := hxB B hB
          unfold wt
          rw [upd_ne _ _ (by omega : j - 1 ≠ j), upd_ne _ _ (by omega : j - 1 ≠ j + 1), upd_same,
            upd_same, upd_ne _ _ (by omega : j ≠ j - 1), upd_same,
            upd_ne _ _ (by omega : j + 1 ≠ j), upd_same,
            upd_ne _ _ (by omega : j + 1 ≠ j - 1), upd_ne _ _ (by omega : j + 1 ≠ j), upd_same, hm]
          have r1 : rank Mode.idle = 0 := rfl
          have r2 : rank (Mode.ready t) = 1 := rfl
          rw [r1, r2]
          omega)⟩
    refine (ih.widen (H' := [j - 1, j, j + 1]) (by simp)).close F (hG3.wakeS _) ?_ ?_ ?_
    · intro i hi him
      have hcases : i = j - 1 ∨ i = j ∨ i = j + 1 := by simpa using him
      rcases hcases with h | h | h
      · subst h
        have e1 : xin (upd (upd x (j + 1) (accX P.L (j + 1) (x (j + 1)))) j (x j + 1)) (j - 1) =
            xin x (j - 1) := by
          rw [xin_upd_ne _ _ (by omega), xin_upd_ne _ _ (by omega)]
        have e2 : upd (upd x (j + 1) (accX P.L (j + 1) (x (j + 1)))) j (x j + 1) (j - 1) = x (j - 1) := by
          rw [upd_ne _ _ (by omega), upd_ne _ _ (by omega)]
        have e3 : upd (upd x (j + 1) (accX P.L (j + 1) (x (j + 1)))) j (x j + 1) (j - 1 + 1) = x j + 1 := by
          rw [hj1', upd_same]
        rw [e1, e2, e3, upd_same]
        exact dw
      · subst h
        have e1 : xin (upd (upd x (i + 1) (accX P.L (i + 1) (x (i + 1)))) i (x i + 1)) i = xin x i := by
          rw [xin_upd_ne _ _ (by omega), xin_upd_ne _ _ (by omega)]
        have e2 : upd (upd x (i + 1) (accX P.L (i + 1) (x (i + 1)))) i (x i + 1) i = x i + 1 := upd_same _ _ _
        have e3 : upd (upd x (i + 1) (accX P.L (i + 1) (x (i + 1)))) i (x i + 1) (i + 1) =
            accX P.L (i + 1) (x (i + 1)) := by
          rw [upd_ne _ _ (by omega), upd_same]
        have e4 : upd (upd (upd m (i + 1) (accM P.L (i + 1) e.time (m (i + 1)))) i .idle) (i - 1)
            (wakeMode e.time (m (i - 1))) i = .idle := by
          rw [upd_ne _ _ (by omega), upd_same]
        rw [e1, e2, e3, e4]
        exact dj
      · subst h
        have e1 : xin (upd (upd x (j + 1) (accX P.L (j + 1) (x (j + 1)))) j (x j + 1)) (j + 1) = x j + 1 := by
          rw [xin_succ, upd_same]
        have e2 : upd (upd x (j + 1) (accX P.L (j + 1) (x (j + 1)))) j (x j + 1) (j + 1) =
            accX P.L (j + 1) (x (j + 1)) := by
          rw [upd_ne _ _ (by omega), upd_same]
        have e3 : upd (upd x (j + 1) (accX P.L (j + 1) (x (j + 1)))) j (x j + 1) (j + 1 + 1) = x (j + 2) := by
          rw [upd_ne _ _ (by omega), upd_ne _ _ (by omega)]
        have e4 : upd (upd (upd m (j + 1) (accM P.L (j + 1) e.time (m (j + 1)))) j .idle) (j - 1)
            (wakeMode e.time (m (j - 1))) (j + 1) = accM P.L (j + 1) e.time (m (j + 1)) := by
          rw [upd_ne _ _ (by omega), upd_ne _ _ (by omega), upd_same]
        rw [e1, e2, e3, e4]
        exact dn
    · intro i hi hni
      have hne : i ≠ j - 1 ∧ i ≠ j ∧ i ≠ j + 1 := by simpa using hni
      refine ⟨?_, ?_, ?_, ?_⟩
      · by_cases h2 : i = j + 2
        · subst h2
          rw [xin_succ, xin_succ, upd_ne _ _ (by omega), upd_same]
          unfold accX
          rw [if_neg (by omega)]
        · rw [xin_upd_ne _ _ (by omega), xin_upd_ne _ _ (by omega)]
      · rw [upd_ne _ _ (by omega), upd_ne _ _ (by omega)]
      · rw [upd_ne _ _ (by omega), upd_ne _ _ (by omega)]
      · rw [upd_ne _ _ hne.1, upd_ne _ _ hne.2.1, upd_ne _ _ hne.2.2]
    · intro B hB
      rw [upd_ne _ _ (by omega), upd_ne _ _ (by omega)]
      exact inv.bud B hB
  · -- refused: the station is blocked
    have hc' : canAcc (dv (pop s e rest) (j + 1)) = false := by simpa using hc
    obtain ⟨K, hK, hxK⟩ := full_of_not_room hG0.stat (by omega) (by omega : j + 1 ≤ P.L.n) d1.pd hc'
    have hpass : passHS P (pop s e rest) j p =
        setD (pop s e rest) j { dv (pop s e rest) j with waitingDS := true } := by
      unfold passHS giveS
      simp only [hc', Bool.false_eq_true, if_false]
    rw [hpass] at hstep
    refine ⟨_, x, upd m j .blocked, hstep, ?_, decr1 hle (fun i _ hne => ⟨rfl, upd_ne _ _ hne⟩)
      (fun B _ => by unfold wt; rw [upd_same, hm]; simp [rank])⟩
    refine ih.close (Foot.setD P.L _ j _) (hG0.setD (by rfl)) ?_ ?_ inv.bud
    · intro i hi him
      have : i = j := by simpa using him
      subst this
      rw [upd_same]
      have d := inv.di i hi
      refine ⟨hk0, ?_, d.ent, fun h0 => by omega⟩
      rw [dv_setD_same _ _ _ hlt0]
      show PD P.L e.time i { dyn (dv s i) with wds := true } _ _ _ _
      exact { past := hpd.past, le := hpd.le, cap := hpd.cap, idle := (by intro h; cases h),
              nonidle := fun h1 _ => hpd.nonidle h1 (by simp), procm := (by intro h; cases h),
              readym := (by intro t h; cases h),
              blockedm := fun _ => ⟨hj, by rw [← ht] at hlo; exact hlo, K, hK, hxK⟩,
              exhm := (by intro h; cases h),
              wds := (by simp),
              slots := hpd.slots.congr rfl rfl rfl rfl rfl rfl (by simp) (by simp) }
    · intro i hi hni
      have : i ≠ j := by simpa using hni
      exact ⟨rfl, rfl, rfl, upd_ne _ _ this⟩


/-! ### the source -/

theorem srcExhausted_iff {P : Par} {s : S} (hG : Good P s) {k : Nat} (hp : (dv s 0).produced = (k : Int)) :
    srcExhausted (dv s 0) = true ↔ ∃ B, P.L.budget = some B ∧ B ≤ k := by
  have hf := hG.stat.facts (Nat.zero_le P.L.n)
  unfold srcExhausted
  rw [hf.maxParts, if_pos rfl, hp]
  cases P.L.budget with
  | none => simp
  | some B =>
    simp only [Option.map_some, Option.some.injEq, exists_eq_left', decide_eq_true_eq, Int.ofNat_eq_natCast]
    constructor
    · intro h; split at h <;> omega
    · intro h; split <;> omega

/-- The source starts its next cycle after part `k` has left it (at the current time). -/
theorem restart_spec {P : Par} {s : S} (hG : Good P s) (hL : P.L.WF) {k xn : Nat}
    (hkeys : cls (((0 : Nat) : Int) + 1) s.evs = [])
    (hout : (dv s 0).output = none) (hpart : (dv s 0).part = none) (hw : (dv s 0).waitingDS = false)
    (hprod : (dv s 0).produced = (k : Int)) (hD : dI P.L 0 k = s.now) (hplen : s.parts.length = k) :
    DI P (schedFin0S P s) 0 0 k xn (if 0 < (stn P.L 0).c then .proc else .ready s.now) := by
  have hle := Nat.zero_le P.L.n
  have hk := kindOf_zero P.L
  have hbuf : isBuf P.L 0 = false := by unfold isBuf; rw [hk]; rfl
  have hc := hG.cycle_eq hle hbuf
  have heI : eI P.L 0 (k + 1) = s.now := by rw [eI_zero]; exact hD
  unfold schedFin0S
  rw [hc]
  by_cases hpos : 0 < (stn P.L 0).c
  · rw [if_neg (by omega), if_pos hpos, hG.aid hle]
    refine ⟨?_, ?_, fun h => by omega, fun _ => by rw [push_parts, hplen]; simp⟩
    · rw [push_evs]
      refine (SS.cls_insort_eq (((0 : Nat) : Int) + 1) _ _ rfl hkeys).trans ?_
      simp only [keysOf, heI, key_mkEv]
      rfl
    · rw [push_now, dv_push]
      exact { past := (by rw [hD]; exact Int.le_refl _), le := fun h => by omega, cap := fun h => by omega,
              idle := (by intro h; cases h), nonidle := fun h => by omega,
              procm := fun _ => ⟨hbuf, hpos⟩, readym := (by intro t h; cases h),
              blockedm := (by intro h; cases h), exhm := (by intro h; cases h),
              wds := (by simp [dyn, hw]),
              slots := (Slots_source hk _ _ _ _).2 ⟨hpart, by simp [dyn, hout], hprod⟩ }
  · have hc0 : (stn P.L 0).c = 0 := by have := c_nonneg hL hle; omega
    rw [if_pos (by omega), if_neg hpos]
    obtain ⟨e1, e2, e3, e4⟩ := gen_spec hG hkeys
    refine ⟨by rw [e2]; rfl, ?_, fun h => by omega, fun _ => by rw [e4, hplen]; simp⟩
    have hnow : (genS P s).now = s.now := rfl
    rw [hnow, e1]
    have := dI_ge_ec P.L hL hle k
    exact { past := (by rw [hD]; exact Int.le_refl _), le := fun h => by omega, cap := fun h => by omega,
            idle := (by intro h; cases h), nonidle := fun h => by omega,
            procm := (by intro h; cases h),
            readym := (by
              intro t h; cases h
              exact ⟨n_pos P.L, by omega, by omega⟩),
            blockedm := (by intro h; cases h), exhm := (by intro h; cases h),
            wds := (by simp),
            slots := (Slots_source hk _ _ _ _).2 ⟨hpart, by simp, hprod⟩ }

/-! ### PASS of the source -/

theorem case_pass_src {P : Par} {T : Int} {s : S} {x : Nat → Nat} {m : Nat → Mode} (hL : P.L.WF)
    (inv : Inv P T s x m) {e : Event} {rest : List Event} (hs : s.evs = e :: rest)
    (ha : e.asset = ((0 : Nat) : Int) + 1) {t : Int} (hm : m 0 = .ready t) :
    ∃ s' x' m', (W P s).step = some (e, W P s') ∧ Inv P T s' x' m' ∧ Decr P x m x' m' := by
  have hn := n_pos P.L
  have hle := Nat.zero_le P.L.n
  have hk := kindOf_zero P.L
  obtain ⟨ih, hT, ht, hact, hcan, hk0, hpd⟩ := head_ready inv hs ha hle hm
  have hG0 := ih.good
  have hsl := (Slots_source hk _ _ _ _).1 hpd.slots
  simp only [dyn] at hsl
  obtain ⟨hpart, hout, hprod⟩ := hsl
  obtain ⟨p, hp⟩ : ∃ p, (dv s 0).output = some p := Option.isSome_iff_exists.1 (hout.2 (by simp))
  have hw : (dv s 0).waitingDS = false := by
    have := hpd.wds; simp [dyn] at this; exact this
  obtain ⟨_, hlo, hup⟩ := hpd.readym t rfl
  have hstep := step_live P s e rest hs inv.term hcan (by omega)
  rw [hact, ofNat_pass] at hstep
  have hex : (W P (pop s e rest)).exec (.passPart 0) = W P (passSrcS P (pop s e rest) p) :=
    W_passPart_source P _ p hL hG0 hp
  rw [hex] at hstep
  have d0 := inv.di 0 hle
  have hplen : s.parts.length = x 0 + 1 := by
    have := d0.plen rfl; rw [hm] at this; simpa using this
  have hlt0 : 0 < (pop s e rest).ds.length := hG0.stat.lt hle
  have hnow0 : (pop s e rest).now = e.time := rfl
  by_cases hx : srcExhausted (dv (pop s e rest) 0) = true
  · -- the budget is used up
    obtain ⟨B, hB, hBx⟩ := (srcExhausted_iff hG0 (k := x 0) hprod).1 hx
    have hpass : passSrcS P (pop s e rest) p = pop s e rest := by
      unfold passSrcS; rw [if_pos hx]
    rw [hpass] at hstep
    refine ⟨_, x, upd m 0 .exhausted, hstep, ?_, decr1 hle (fun i _ hne => ⟨rfl, upd_ne _ _ hne⟩)
      (fun B _ => by unfold wt; rw [upd_same, hm]; simp [rank])⟩
    refine ih.close (Foot.refl _ _ _) hG0 ?_ ?_ inv.bud
    · intro i hi him
      have : i = 0 := by simpa using him
      subst this
      rw [upd_same]
      refine ⟨hk0, ?_, fun h => by omega, fun _ => by rw [pop_parts, hplen]; simp⟩
      exact { past := hpd.past, le := hpd.le, cap := hpd.cap, idle := (by intro h; cases h),
              nonidle := fun h1 _ => by omega, procm := (by intro h; cases h),
              readym := (by intro t h; cases h), blockedm := (by intro h; cases h),
              exhm := fun _ => ⟨rfl, B, hB, hBx⟩,
              wds := (by simp [dyn, hw]; exact hw),
              slots := hpd.slots.congr rfl rfl rfl rfl rfl rfl (by simp) (by simp) }
    · intro i hi hni
      have : i ≠ 0 := by simpa using hni
      exact ⟨rfl, rfl, rfl, upd_ne _ _ this⟩
  · have hnb : ∀ B, P.L.budget = some B → x 0 < B := by
      intro B hB
      by_cases h : x 0 < B
      · exact h
      · exact absurd ((srcExhausted_iff hG0 (k := x 0) hprod).2 ⟨B, hB, by omega⟩) hx
    have d1 := ih.di 1 (by omega) (by simp)
    rw [xin_succ] at d1
    by_cases hc : canAcc (dv (pop s e rest) 1) = true
    · -- the first station takes the part; the source starts its next cycle
      obtain ⟨hE, da, Fa⟩ := transfer_spec hG0 hL hn p d1 hw hc (by rw [hnow0, ht]; exact hlo)
        (by rw [hnow0]; exact hpd.past) (by rw [hnow0, ht]; exact hup)
      rw [hnow0] at hE da
      obtain ⟨s1, hs1⟩ : ∃ s1, s1 = acceptS P (pop s e rest) (0 + 1) p := ⟨_, rfl⟩
      rw [← hs1] at da Fa
      have hG1 : Good P s1 := by rw [hs1]; exact hG0.acceptS _ _
      have hlt1 : 0 < s1.ds.length := hG1.stat.lt hle
      obtain ⟨s2, hs2⟩ : ∃ s2, s2 = setD s1 0 { dv s1 0 with output := none } := ⟨_, rfl⟩
      have hG2 : Good P s2 := by rw [hs2]; exact hG1.setD (by rfl)
      have hlt2 : 0 < s2.ds.length := hG2.stat.lt hle
      have hd1 : dv s1 0 = dv s 0 := by rw [Fa.dvj 0 (by simp)]; rfl
      have hd2 : dv s2 0 = { dv s 0 with output := none } := by
        rw [hs2, dv_setD_same _ _ _ hlt1, hd1]
      obtain ⟨s3, hs3⟩ : ∃ s3, s3 = waitS s2 0 := ⟨_, rfl⟩
      have hG3 : Good P s3 := by rw [hs3]; exact hG2.waitS 0
      have hlt3 : 0 < s3.ds.length := hG3.stat.lt hle
      have hph : passHS P (pop s e rest) 0 p = s3 := by
        have : (giveS P (pop s e rest) (0 + 1) p) = (s1, true) := by
          unfold giveS; rw [if_pos hc, hs1]
        unfold passHS
        simp only [this, if_true]
        rw [← hs2, hs3]
        refine notifyS_zero P s2 ?_
        rw [(hG2.stat.facts hle).kind, hk]; simp
      have hdy3 : dyn (dv s3 0) = { dyn (dv s 0) with output := none } := by
        rw [hs3, dyn_waitS _ _ _ hlt2, hd2]; rfl
      have ho3 : (dv s3 0).output = none := by
        have : (dyn (dv s3 0)).output = none := by rw [hdy3]
        exact this
      obtain ⟨s5, hs5⟩ : ∃ s5, s5 = addR (setD s3 0 { dv s3 0 with
          produced := (dv s3 0).produced + 1, val := (dv s3 0).val.addCost lblSupplied e.time 0,
          costProduced := (dv s3 0).costProduced + 0 }) (.supplied 0 e.time p) := ⟨_, rfl⟩
      have hG5 : Good P s5 := by rw [hs5]; exact (hG3.setD (by rfl)).addR _
      have hpass : passSrcS P (pop s e rest) p = schedFin0S P s5 := by
        unfold passSrcS
        rw [if_neg hx]
        simp only [hph, ho3, Option.isNone_none, if_true, hs5, hnow0]
      rw [hpass] at hstep
      have F01 : Foot P.L [0, 1] (pop s e rest) s1 := Fa.mono (by simp)
      have F15 : Foot P.L [0] s1 s5 := by
        rw [hs5, hs3, hs2]
        exact (((Foot.setD P.L _ _ _).trans (Foot.waitS P.L _ _)).trans (Foot.setD P.L _ _ _)).trans
          (Foot.addR _ _ _ (.supplied 0 e.time p) trivial)
      have F5s : Foot P.L [0] s5 (schedFin0S P s5) := Foot.schedFin0S hG5 hL
      have F : Foot P.L [0, 1] (pop s e rest) (schedFin0S P s5) :=
        (F01.trans (F15.mono (by simp))).trans (F5s.mono (by simp))
      have hdy5 : dyn (dv s5 0) = { dyn (dv s 0) with output := none, produced := (x 0 : Int) + 1 } := by
        rw [hs5, dv_addR, dv_setD_same _ _ _ hlt3]
        show ({ dyn (dv s3 0) with produced := (dv s3 0).produced + 1 } : Dyn) = _
        have hp3 : (dv s3 0).produced = (x 0 : Int) := by
          have : (dyn (dv s3 0)).produced = (x 0 : Int) := by rw [hdy3]; exact hprod
          exact this
        rw [hp3, hdy3]
      have hf5 : ∀ {α : Type} (f : Dyn → α), f (dyn (dv s5 0)) = f { dyn (dv s 0) with output := none, produced := (x 0 : Int) + 1 } :=
        fun f => by rw [hdy5]
      have hnow5 : s5.now = e.time := by rw [F15.now, Fa.now]; rfl
      have hk5 : cls (((0 : Nat) : Int) + 1) s5.evs = [] := by
        rw [hs5, addR_evs, setD_evs, hs3, waitS_evs, hs2, setD_evs, Fa.kj 0 (by simp)]
        exact hk0
      have hplen5 : s5.parts.length = x 0 + 1 := by
        rw [hs5, addR_parts, setD_parts, hs3, waitS_parts, hs2, setD_parts, Fa.plen (by simp)]
        exact hplen
      have hout5 : (dv s5 0).output = none := by
        have : (dyn (dv s5 0)).output = none := by rw [hdy5]
        exact this
      have hpart5 : (dv s5 0).part = none := by
        have : (dyn (dv s5 0)).part = none := by rw [hdy5]; exact hpart
        exact this
      have hw5 : (dv s5 0).waitingDS = false := by
        have : (dyn (dv s5 0)).wds = false := by rw [hdy5]; exact hw
        exact this
      have hprod5 : (dv s5 0).produced = ((x 0 + 1 : Nat) : Int) := by
        have : (dyn (dv s5 0)).produced = ((x 0 + 1 : Nat) : Int) := by rw [hdy5]; simp
        exact this
      have dr := restart_spec hG5 hL (k := x 0 + 1) (xn := accX P.L 1 (x 1)) hk5 hout5 hpart5 hw5 hprod5
        (by rw [hnow5]; exact hE) hplen5
      rw [hnow5] at dr
      have dn : DI P (schedFin0S P s5) 1 (x 0 + 1) (accX P.L 1 (x 1)) (x 2) (accM P.L 1 e.time (m 1)) :=
        da.frame (F15.trans F5s) (by simp)
      refine ⟨_, upd (upd x 1 (accX P.L 1 (x 1))) 0 (x 0 + 1),
        upd (upd m 1 (accM P.L 1 e.time (m 1))) 0 (if 0 < (stn P.L 0).c then .proc else .ready e.time),
        hstep, ?_,
        decr2 (a := 0) (b := 1) hle (by omega) (by omega)
          (fun i _ h1 h2 => ⟨by rw [upd_ne _ _ h1, upd_ne _ _ h2], by rw [upd_ne _ _ h1, upd_ne _ _ h2]⟩)
          (fun B hB => by
            have hr := rank_le (if 0 < (stn P.L 0).c then Mode.proc else .ready e.time)
            have hr2 := rank_le (accM P.L 1 e.time (m 1))
            have hax := accX_ge P.L 1 (x 1)
            have hB' := hnb B hB
            unfold wt
            rw [upd_same, upd_same, upd_ne _ _ (by omega : 1 ≠ 0), upd_same,
              upd_ne _ _ (by omega : 1 ≠ 0), upd_same, hm]
            have r2 : rank (Mode.ready t) = 1 := rfl
            rw [r2]
            omega)⟩
      refine (ih.widen (H' := [0, 1]) (by simp)).close F hG5.schedFin0S ?_ ?_ ?_
      · intro i hi him
        have hcases : i = 0 ∨ i = 1 := by simpa using him
        rcases hcases with h | h
        · subst h
          have e1 : xin (upd (upd x 1 (accX P.L 1 (x 1))) 0 (x 0 + 1)) 0 = 0 := by simp [xin]
          have e2 : upd (upd x 1 (accX P.L 1 (x 1))) 0 (x 0 + 1) 0 = x 0 + 1 := upd_same _ _ _
          have e3 : upd (upd x 1 (accX P.L 1 (x 1))) 0 (x 0 + 1) (0 + 1) = accX P.L 1 (x 1) := by
            rw [upd_ne _ _ (by omega)]; exact upd_same _ _ _
          rw [e1, e2, e3, upd_same]
          exact dr
        · subst h
          have e1 : xin (upd (upd x 1 (accX P.L 1 (x 1))) 0 (x 0 + 1)) 1 = x 0 + 1 := by
            rw [xin_succ, upd_same]
          have e2 : upd (upd x 1 (accX P.L 1 (x 1))) 0 (x 0 + 1) 1 = accX P.L 1 (x 1) := by
            rw [upd_ne _ _ (by omega), upd_same]
          have e3 : upd (upd x 1 (accX P.L 1 (x 1))) 0 (x 0 + 1) (1 + 1) = x 2 := by
            rw [upd_ne _ _ (by omega), upd_ne _ _ (by omega)]
          have e4 : upd (upd m 1 (accM P.L 1 e.time (m 1))) 0
              (if 0 < (stn P.L 0).c then Mode.proc else .ready e.time) 1 = accM P.L 1 e.time (m 1) := by
            rw [upd_ne _ _ (by omega), upd_same]
          rw [e1, e2, e3, e4]
          exact dn
      · intro i hi hni
        have hne : i ≠ 0 ∧ i ≠ 1 := by simpa using hni
        refine ⟨?_, ?_, ?_, ?_⟩
        · by_cases h2 : i = 2
          · subst h2
            rw [xin_succ, xin_succ, upd_ne _ _ (by omega), upd_same]
            unfold accX
            rw [if_neg (by omega)]
          · rw [xin_upd_ne _ _ (by omega), xin_upd_ne _ _ (by omega)]
        · rw [upd_ne _ _ (by omega), upd_ne _ _ (by omega)]
        · rw [upd_ne _ _ (by omega), upd_ne _ _ (by omega)]
        · rw [upd_ne _ _ hne.1, upd_ne _ _ hne.2]
      · intro B hB
        rw [upd_same]
        exact hnb B hB
    · -- refused: the source is blocked
      have hc' : canAcc (dv (pop s e rest) 1) = false := by simpa using hc
      obtain ⟨K, hK, hxK⟩ := full_of_not_room hG0.stat (by omega) (by omega : 1 ≤ P.L.n) d1.pd hc'
      have hph : passHS P (pop s e rest) 0 p =
          setD (pop s e rest) 0 { dv (pop s e rest) 0 with waitingDS := true } := by
        unfold passHS giveS
        simp only [hc', Bool.false_eq_true, if_false]
      have hpass : passSrcS P (pop s e rest) p =
          setD (pop s e rest) 0 { dv (pop s e rest) 0 with waitingDS := true } := by
        unfold passSrcS
        rw [if_neg hx]
        simp only [hph, dv_setD_same _ _ _ hlt0]
        have : (dv (pop s e rest) 0).output = some p := hp
        simp [this]
      rw [hpass] at hstep
      refine ⟨_, x, upd m 0 .blocked, hstep, ?_, decr1 hle (fun i _ hne => ⟨rfl, upd_ne _ _ hne⟩)
        (fun B _ => by unfold wt; rw [upd_same, hm]; simp [rank])⟩
      refine ih.close (Foot.setD P.L _ 0 _) (hG0.setD (by rfl)) ?_ ?_ inv.bud
      · intro i hi him
        have : i = 0 := by simpa using him
        subst this
        rw [upd_same]
        refine ⟨hk0, ?_, fun h => by omega, fun _ => by rw [setD_parts, pop_parts, hplen]; simp⟩
        rw [dv_setD_same _ _ _ hlt0]
        show PD P.L e.time 0 { dyn (dv s 0) with wds := true } _ _ _ _
        exact { past := hpd.past, le := hpd.le, cap := hpd.cap, idle := (by intro h; cases h),
                nonidle := fun h1 _ => by omega, procm := (by intro h; cases h),
                readym := (by intro t h; cases h),
                blockedm := fun _ => ⟨hn, by rw [← ht] at hlo; exact hlo, K, hK, hxK⟩,
                exhm := (by intro h; cases h),
                wds := (by simp),
                slots := hpd.slots.congr rfl rfl rfl rfl rfl rfl (by simp) (by simp) }
      · intro i hi hni
        have : i ≠ 0 := by simpa using hni
        exact ⟨rfl, rfl, rfl, upd_ne _ _ this⟩

end C04W
end SimProc
