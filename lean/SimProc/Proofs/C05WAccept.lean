/-
C05W / C17W machinery, part 2: what `acceptPart` does to the auxiliary view (only the accepting
device changes) and to the `kids` column of the part table (only a batcher changes it, and only for
the part it has just accepted and its shell under construction).
-/
import SimProc.Proofs.C05WViews
import SimProc.Proofs.C17Lemmas
import SimProc.Proofs.C08Lemmas
namespace SimProc
namespace C05W
open World C02V

/-! ### the auxiliary view with one device masked -/

def BDev.dflt : BDev := ⟨0, [], none, 0, none, none⟩

/-- The auxiliary view without device `z`. -/
def maskB (z : Nat) (b : List BDev × Int) : List BDev × Int := (b.1.set z BDev.dflt, b.2)

theorem maskB_setDev (w : World) (z : Nat) (d : Dev) : maskB z (bv (w.setDev z d)) = maskB z (bv w) := by
  simp [maskB, bv, World.setDev, List.map_set, List.set_set]

theorem maskB_modDev (w : World) (z : Nat) (f : Dev → Dev) :
    maskB z (bv (w.modDev z f)) = maskB z (bv w) := maskB_setDev w z _

/-- Only device `z` (if any) differs in the auxiliary view. -/
def BO (z : Nat) (w w' : World) : Prop := maskB z (bv w') = maskB z (bv w)

theorem BO.refl (z : Nat) (w : World) : BO z w w := rfl
theorem BO.trans {z : Nat} {a b c : World} (h1 : BO z a b) (h2 : BO z b c) : BO z a c :=
  Eq.trans h2 h1
theorem BO.of_bv {z : Nat} {w w' : World} (h : bv w' = bv w) : BO z w w' := by unfold BO; rw [h]

theorem BO.now {z : Nat} {w w' : World} (h : BO z w w') : w'.now = w.now := congrArg Prod.snd h

theorem BO.len {z : Nat} {w w' : World} (h : BO z w w') : w'.devs.length = w.devs.length := by
  have h1 := congrArg (fun b => b.1.length) h
  simpa [maskB, bv] using h1

theorem BO.bdev_eq {z : Nat} {w w' : World} (h : BO z w w') {y : Nat} (hy : y ≠ z) :
    C05W.bdev (w'.dev y) = C05W.bdev (w.dev y) := by
  have h1 := congrArg (fun b => b.1.getD y (C05W.bdev default)) h
  simp only [maskB, bv, List.getD_eq_getElem?_getD, List.getElem?_set_ne (Ne.symm hy),
    List.getElem?_map] at h1
  simp only [World.dev, List.getD_eq_getElem?_getD]
  cases h' : w'.devs[y]? <;> cases h'' : w.devs[y]? <;> simp_all

macro_rules | `(tactic| fr_step) => `(tactic| first
  | rw [maskB_setDev] | rw [maskB_modDev])

/-! ### the batcher loop -/

theorem bo_batchGet (w : World) (x p : Nat) : maskB x (bv (batchGet w x p).1) = maskB x (bv w) := by
  unfold batchGet; frame
theorem bo_batchShell (w : World) (x : Nat) : maskB x (bv (batchShell w x).1) = maskB x (bv w) := by
  unfold batchShell; frame
frame_lemma1 bo_batchGet
frame_lemma1 bo_batchShell
theorem bo_batchAdd (w : World) (x t : Nat) : maskB x (bv (batchAdd w x t)) = maskB x (bv w) := by
  unfold batchAdd; frame
frame_lemma1 bo_batchAdd

theorem bo_batcherLoop (f : Nat) : ∀ (w : World) (x : Nat),
    maskB x (bv (batcherLoop f w x)) = maskB x (bv w) := by
  induction f with
  | zero => intro w x; rfl
  | succ f ih =>
    intro w x; rw [C02V.batcherLoop_succ]
    split
    · rw [ih]; frame
    · rfl
frame_lemma1 bo_batcherLoop

theorem bo_tryMove (w : World) (x : Nat) : maskB x (bv (w.tryMove x)) = maskB x (bv w) := by
  unfold World.tryMove; frame
frame_lemma1 bo_tryMove
theorem bo_onReceived (w : World) (x p : Nat) : maskB x (bv (w.onReceived x p)) = maskB x (bv w) := by
  unfold World.onReceived; frame
frame_lemma1 bo_onReceived
theorem bo_acceptPart (w : World) (x p : Nat) : BO x w (w.acceptPart x p) := by
  unfold BO World.acceptPart; frame

/-! ### devices that are neither buffers nor batchers do not change the auxiliary view at all -/

theorem bv_tryMove_plain (w : World) (x : Nat) (h1 : (w.dev x).kind ≠ .buffer)
    (h2 : (w.dev x).kind ≠ .batcher) : bv (w.tryMove x) = bv w := by
  unfold World.tryMove
  simp only []
  split
  · rename_i h; exact absurd h h1
  · rename_i h; exact absurd h h2
  · frame
  · frame

theorem bv_acceptPre (w : World) (x p : Nat) : bv (acceptPre w x p) = bv w := by
  unfold acceptPre; frame
theorem st_acceptPre (w : World) (x p : Nat) : st (acceptPre w x p) = st w := by
  unfold acceptPre; frame

theorem bv_recvBook_plain (w : World) (x p : Nat) (h1 : (w.dev x).kind ≠ .buffer) :
    bv (recvBook w x p) = bv w := by
  unfold recvBook
  simp only []
  split
  · frame
  · rename_i h; exact absurd h h1
  · frame
theorem st_recvBook (w : World) (x p : Nat) : st (recvBook w x p) = st w := by
  unfold recvBook; frame

theorem bv_acceptPart_plain (w : World) (x p : Nat) (h1 : (w.dev x).kind ≠ .buffer)
    (h2 : (w.dev x).kind ≠ .batcher) : bv (w.acceptPart x p) = bv w := by
  rw [acceptPart_eq, onReceived_eq]
  have k1 : ((acceptPre w x p).dev x).kind = (w.dev x).kind := kind_of_st (st_acceptPre w x p) x
  have k2 : ((recvBook (acceptPre w x p) x p).dev x).kind = (w.dev x).kind :=
    (kind_of_st (st_recvBook _ x p) x).trans k1
  have e1 : bv (recvBook (acceptPre w x p) x p) = bv w := by
    rw [bv_recvBook_plain _ x p (by rw [k1]; exact h1), bv_acceptPre]
  split
  · rw [bv_tryMove_plain _ x (by rw [k2]; exact h1) (by rw [k2]; exact h2), e1]
  · exact e1

/-! ### the `kids` column -/

/-- Outside the set `S`, the parts of `w` keep their `kids` in `w'` (and no part disappears). -/
def KOx (S : Nat → Prop) (w w' : World) : Prop :=
  w.parts.length ≤ w'.parts.length ∧
    ∀ q, q < w.parts.length → ¬ S q → (w'.part q).kids = (w.part q).kids

/-- All parts of `w` keep their `kids`. -/
abbrev KO (w w' : World) : Prop := KOx (fun _ => False) w w'

theorem KOx.refl (S : Nat → Prop) (w : World) : KOx S w w := ⟨Nat.le_refl _, fun _ _ _ => rfl⟩

theorem KOx.trans {S : Nat → Prop} {a b c : World} (h1 : KOx S a b) (h2 : KOx S b c) : KOx S a c :=
  ⟨Nat.le_trans h1.1 h2.1, fun q hq hs =>
    (h2.2 q (Nat.lt_of_lt_of_le hq h1.1) hs).trans (h1.2 q hq hs)⟩

theorem KOx.mono {S T : Nat → Prop} {a b : World} (h : KOx S a b) (hst : ∀ q, S q → T q) : KOx T a b :=
  ⟨h.1, fun q hq hs => h.2 q hq (fun h' => hs (hst q h'))⟩

theorem KO.of_parts {w w' : World} (h : w'.parts = w.parts) : KO w w' :=
  ⟨by rw [h]; exact Nat.le_refl _, fun q _ _ => by rw [part_congr h]⟩

theorem kids_of_sv {w w' : World} (h : sv w' = sv w) (q : Nat) : (w'.part q).kids = (w.part q).kids := by
  rw [← kids_get, ← kids_get, h]

theorem KO.of_sv {w w' : World} (h : sv w' = sv w) : KO w w' :=
  ⟨by rw [parts_len_of_sv h]; exact Nat.le_refl _, fun q _ _ => kids_of_sv h q⟩

theorem KOx.right_sv {S : Nat → Prop} {a b c : World} (h : sv c = sv b) (h1 : KOx S a b) : KOx S a c :=
  h1.trans ((KO.of_sv h).mono (fun _ h => h.elim))

theorem KOx.right_parts {S : Nat → Prop} {a b c : World} (h : c.parts = b.parts) (h1 : KOx S a b) :
    KOx S a c := h1.trans ((KO.of_parts h).mono (fun _ h => h.elim))

theorem KO.leafCount {w w' : World} (h : KO w w') {q : Nat} (hq : q < w.parts.length) :
    w'.leafCount q = w.leafCount q := by
  unfold World.leafCount; rw [h.2 q hq (fun h => h)]

theorem KO.foldl {α} (g : World → α → World) (hg : ∀ w a, KO w (g w a)) (l : List α) (w : World) :
    KO w (l.foldl g w) := by
  induction l generalizing w with
  | nil => exact KOx.refl _ _
  | cons a l ih => exact (hg w a).trans (ih _)

theorem ko_genPart (w : World) (x : Nat) : KO w (w.genPart x).1 := by
  cases h : ((w.dev x).genBatch == 0)
  · rw [genPart_batch w x h]
    refine ⟨by simp, fun q hq _ => ?_⟩
    simp only [World.part, List.getD_eq_getElem?_getD]
    rw [List.append_assoc, List.getElem?_append_left hq]
  · rw [genPart_leaf w x h]
    refine ⟨by simp, fun q hq _ => ?_⟩
    simp only [World.part, List.getD_eq_getElem?_getD]
    rw [List.getElem?_append_left hq]

theorem ko_finishCycleHandler (w : World) (x : Nat) : KO w (w.finishCycleHandler x) :=
  KO.of_parts (C08L.finishCycleHandler_parts w x)

theorem ko_finishCycle (w : World) (x : Nat) : KO w (w.finishCycle x) := by
  unfold World.finishCycle
  simp only []
  split
  · -- source
    refine KOx.right_sv (sv_schedulePass ..) ?_
    split
    · refine KOx.right_sv (sv_addHist ..) ?_
      exact KOx.right_parts rfl (ko_genPart w x)
    · exact KOx.refl _ _
  · -- sink
    refine KOx.right_sv (sv_notify ..) ?_
    exact KOx.right_parts rfl (ko_finishCycleHandler w x)
  · -- processor
    have h0 : ∀ (a b : World), b.parts = (w.finishCycleHandler x).parts → KO w b := fun a b hb =>
      KOx.right_parts hb (ko_finishCycleHandler w x)
    split
    · split
      · exact KOx.right_sv (sv_schedLib ..) (h0 w _ rfl)
      · exact h0 w _ rfl
    · refine KOx.right_sv (sv_addRec ..) ?_
      refine KOx.trans ?_ (KO.foldl _ (fun w s => KO.of_sv (sv_senseOutput w s _)) _ _)
      refine KOx.trans ?_ (KO.foldl _ (fun w c => KO.of_sv (sv_applyPartCb w x _ c)) _ _)
      split
      · exact KOx.right_sv (sv_schedLib ..) (h0 w _ rfl)
      · exact h0 w _ rfl
  · exact ko_finishCycleHandler w x

theorem ko_scheduleFinish (w : World) (x : Nat) : KO w (w.scheduleFinish x) := by
  rcases scheduleFinish_cases w x with h | h
  · rw [h]; refine KOx.trans ?_ (ko_finishCycle _ x); exact KO.of_parts rfl
  · exact KO.of_sv h

theorem ko_tryMove_nonbatcher (w : World) (x : Nat) (h : (w.dev x).kind ≠ .batcher) :
    KO w (w.tryMove x) := by
  unfold World.tryMove
  simp only []
  split
  · split
    · exact KOx.refl _ _
    · split
      · exact KOx.right_sv (sv_schedulePass ..) (KOx.right_sv (sv_notify ..) (KO.of_parts rfl))
      · exact KOx.right_sv (sv_notify ..) (KO.of_parts rfl)
  · rename_i hk; exact absurd hk h
  · split
    · refine KOx.trans ?_ (ko_scheduleFinish _ x); exact KO.of_parts rfl
    · exact KOx.refl _ _
  · split
    · exact ko_scheduleFinish _ x
    · exact KOx.refl _ _

/-- `tryMove` on any device: only the `kids` of its input part and of its shell under construction
may change. -/
theorem kox_tryMove (w : World) (x : Nat) :
    KOx (fun q => (w.dev x).part = some q ∨ (w.dev x).inprog = some q) w (w.tryMove x) := by
  by_cases hk : (w.dev x).kind = .batcher
  · rcases C17.tryMove_batcher hk with ⟨e, _⟩ | ⟨p, _, _, _, e⟩ | ⟨p, _, _, _, e⟩
    · rw [e]; exact KOx.refl _ _
    · rw [e]; exact (KO.of_parts rfl).mono (fun _ h => h.elim)
    · rw [e]
      have hl : KOx (fun q => (w.dev x).part = some q ∨ (w.dev x).inprog = some q) w
          (batcherLoop (w.leafCount p + 2) w x) :=
        ⟨(C17.batcherLoop_frame _ w x).parts_le, fun q hq hs => by
          rw [(C17.batcherLoop_frame _ w x).parts_old q hq (fun h => hs (Or.inl h)) (fun h => hs (Or.inr h))]⟩
      split
      · exact KOx.right_sv (sv_schedulePass ..) hl
      · exact hl
  · exact (ko_tryMove_nonbatcher w x hk).mono (fun _ h => h.elim)

theorem parts_acceptPre (w : World) (x p : Nat) :
    (acceptPre w x p).parts.length = w.parts.length ∧
      ∀ q, ((acceptPre w x p).part q).kids = (w.part q).kids := by
  have h : sv (acceptPre w x p) = accept (sv w) x p (sdev (w.dev x)) := sv_acceptPre w x p
  constructor
  · have := congrArg (fun a => a.kids.length) h
    simpa [sv, accept] using this
  · intro q
    rw [← kids_get, ← kids_get, h]; rfl

theorem dev_acceptPre (w : World) (x p : Nat) (hx : x < w.devs.length) :
    sdev ((acceptPre w x p).dev x) = { sdev (w.dev x) with part := some p } := by
  have := congrArg (fun a => a.dev x) (sv_acceptPre w x p)
  simp only [sv_dev] at this
  rw [this]
  simp [accept, SV.dev, sv, hx]

/-- `acceptPart` on any device `x`: only the `kids` of the accepted part and of the shell under
construction of `x` may change. -/
theorem kox_acceptPart (w : World) (x p : Nat) (hx : x < w.devs.length) :
    KOx (fun q => q = p ∨ (w.dev x).inprog = some q) w (w.acceptPart x p) := by
  rw [acceptPart_eq, onReceived_eq]
  obtain ⟨hl, hk⟩ := parts_acceptPre w x p
  have hs : sv (recvBook (acceptPre w x p) x p) = sv (acceptPre w x p) := sv_recvBook ..
  have h0 : KOx (fun q => q = p ∨ (w.dev x).inprog = some q) w (recvBook (acceptPre w x p) x p) :=
    ⟨by rw [parts_len_of_sv hs, hl]; exact Nat.le_refl _, fun q _ _ => by rw [kids_of_sv hs, hk]⟩
  have hd : sdev ((recvBook (acceptPre w x p) x p).dev x) = { sdev (w.dev x) with part := some p } := by
    rw [sdev_of_sv hs, dev_acceptPre w x p hx]
  split
  · refine h0.trans ((kox_tryMove _ x).mono ?_)
    intro q hq
    have h1 : ((recvBook (acceptPre w x p) x p).dev x).part = some p := congrArg SDev.part hd
    have h2 : ((recvBook (acceptPre w x p) x p).dev x).inprog = (w.dev x).inprog := congrArg SDev.inprog hd
    rw [h1, h2] at hq
    rcases hq with hq | hq
    · left; exact (Option.some.inj hq).symm
    · right; exact hq
  · exact h0

theorem ko_acceptPart_nonbatcher (w : World) (x p : Nat) (h : (w.dev x).kind ≠ .batcher) :
    KO w (w.acceptPart x p) := by
  rw [acceptPart_eq, onReceived_eq]
  obtain ⟨hl, hk⟩ := parts_acceptPre w x p
  have hs : sv (recvBook (acceptPre w x p) x p) = sv (acceptPre w x p) := sv_recvBook ..
  have h0 : KO w (recvBook (acceptPre w x p) x p) :=
    ⟨by rw [parts_len_of_sv hs, hl]; exact Nat.le_refl _, fun q _ _ => by rw [kids_of_sv hs, hk]⟩
  have k2 : ((recvBook (acceptPre w x p) x p).dev x).kind = (w.dev x).kind :=
    (kind_of_st (st_recvBook _ x p) x).trans (kind_of_st (st_acceptPre w x p) x)
  split
  · exact h0.trans (ko_tryMove_nonbatcher _ x (by rw [k2]; exact h))
  · exact h0

end C05W
end SimProc
