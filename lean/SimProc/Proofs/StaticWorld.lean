/-
The static closed-world theorem for C02: if the scripts neither rewire nor create devices nor
schedule failures of sinks, the wiring satisfies `GiveOK` everywhere and no failure of a sink is
pending, then this remains so, every executed action is admissible, and the strengthened invariant
holds in every reachable state.
-/
import SimProc.Proofs.StaticFloor
import SimProc.Proofs.WorldExec
import SimProc.Proofs.Budget
namespace SimProc
namespace C02V
open World

/-! ### the wiring view: the static view without the source budgets -/

def eraseB (d : TDev) : TDev := { d with maxParts := none, produced := 0 }
def ST.topo (t : ST) : ST := ⟨t.devs.map eraseB, t.gin⟩
def tv (w : World) : ST := (st w).topo

theorem tv_of_st {w w' : World} (h : st w' = st w) : tv w' = tv w := by unfold tv; rw [h]

theorem topo_get (t : ST) (x : Nat) : t.topo.devs.getD x ST.tdflt = eraseB (t.devs.getD x ST.tdflt) := by
  simp only [ST.topo, List.getD_eq_getElem?_getD, List.getElem?_map]
  cases t.devs[x]? <;> rfl

theorem topo_kind (t : ST) (x : Nat) : t.topo.kind x = t.kind x := by
  unfold ST.kind; rw [topo_get]; rfl
theorem topo_down (t : ST) (x : Nat) : t.topo.down x = t.down x := by
  unfold ST.down; rw [topo_get]; rfl
theorem topo_group (t : ST) (x : Nat) : t.topo.group x = t.group x := by
  unfold ST.group; rw [topo_get]; rfl

theorem reach_topo (t : ST) (y z : Nat) : Reach t.topo y z ↔ Reach t y z := by
  constructor
  · intro h
    induction h with
    | self y hk => exact Reach.self y (by rw [← topo_kind]; exact hk)
    | gate y z u hk hz _ ih => exact Reach.gate y z u (by rw [← topo_kind]; exact hk) (by rw [← topo_down]; exact hz) ih
    | gpath y u hk _ ih => exact Reach.gpath y u (by rw [← topo_kind]; exact hk) (by rw [← topo_group]; exact ih)
    | goutput y g z u hk hz _ ih => exact Reach.goutput y g z u (by rw [← topo_kind]; exact hk) (by rw [← topo_down]; exact hz) ih
  · intro h
    induction h with
    | self y hk => exact Reach.self y (by rw [topo_kind]; exact hk)
    | gate y z u hk hz _ ih => exact Reach.gate y z u (by rw [topo_kind]; exact hk) (by rw [topo_down]; exact hz) ih
    | gpath y u hk _ ih => exact Reach.gpath y u (by rw [topo_kind]; exact hk) (by rw [topo_group]; exact ih)
    | goutput y g z u hk hz _ ih => exact Reach.goutput y g z u (by rw [topo_kind]; exact hk) (by rw [topo_down]; exact hz) ih

/-- `GiveOK` everywhere only depends on the wiring view and the number of devices. -/
def TopoOK (w : World) : Prop := ∀ x, GiveOK w x

theorem giveOK_iff (w : World) (x : Nat) : GiveOK w x ↔
    ∀ y ∈ (tv w).down x, ∀ z, Reach (tv w) y z → z < w.devs.length := by
  unfold GiveOK tv
  simp only [topo_down, reach_topo, st_down]

theorem TopoOK.of_tv {w w' : World} (h : TopoOK w) (e : tv w' = tv w) (el : w'.devs.length = w.devs.length) :
    TopoOK w' := by
  intro x
  rw [giveOK_iff, e, el, ← giveOK_iff]
  exact h x

theorem kind_of_tv {w w' : World} (e : tv w' = tv w) (x : Nat) : (w'.dev x).kind = (w.dev x).kind := by
  have := congrArg (fun t => t.kind x) e
  simpa [tv, topo_kind, st_kind] using this


/-! ### static scripts -/

/-- Operations that neither change the wiring nor create devices nor schedule the failure of a sink. -/
def OpStatic (w : World) : Op → Prop
  | .rewire _ _ => False
  | .create _ => False
  | .schedFail d _ => (w.dev d).kind ≠ .sink
  | .schedFailRel d _ => (w.dev d).kind ≠ .sink
  | _ => True

def ScriptsStatic (w : World) : Prop := ∀ l ∈ w.scripts, ∀ op ∈ l, OpStatic w op

/-- `sk` is the set of sinks of `w` -/
def SkOK (sk : Nat → Prop) (w : World) : Prop := ∀ d, sk d ↔ (w.dev d).kind = .sink

/-- wiring, scripts and the pending bad actions are unchanged -/
def SR (sk : Nat → Prop) (w w' : World) : Prop :=
  tv w' = tv w ∧ w'.scripts = w.scripts ∧ HasBad (badAct sk) w' = HasBad (badAct sk) w

theorem SR.refl (sk : Nat → Prop) (w : World) : SR sk w w := ⟨rfl, rfl, rfl⟩
theorem SR.trans {sk : Nat → Prop} {a b c : World} (h1 : SR sk a b) (h2 : SR sk b c) : SR sk a c :=
  ⟨h2.1.trans h1.1, h2.2.1.trans h1.2.1, h2.2.2.trans h1.2.2⟩

def Stat (sk : Nat → Prop) (w : World) : Prop := SkOK sk w ∧ ScriptsStatic w

theorem opStatic_of_tv {w w' : World} (e : tv w' = tv w) (op : Op) (h : OpStatic w op) : OpStatic w' op := by
  cases op <;> simp only [OpStatic] at h ⊢ <;> first | exact h | (rw [kind_of_tv e]; exact h)

theorem Stat.of_sr {sk : Nat → Prop} {w w' : World} (h : Stat sk w) (r : SR sk w w') : Stat sk w' := by
  refine ⟨fun d => ?_, ?_⟩
  · rw [kind_of_tv r.1]; exact h.1 d
  · intro l hl op hop
    rw [r.2.1] at hl
    exact opStatic_of_tv r.1 op (h.2 l hl op hop)

/-! ### `st`/`tv`/`HasBad` for the functions of `Model/World.lean` -/

section
variable (sk : Nat → Prop) (w : World)

theorem st_startOrders (m : Nat) (l : List Order) : st (w.startOrders m l) = st w := by
  unfold World.startOrders; frame
theorem hb_startOrders (m : Nat) (l : List Order) :
    HasBad (badAct sk) (w.startOrders m l) = HasBad (badAct sk) w := by
  unfold World.startOrders; frame
theorem st_schedUpdate (s : Nat) (b : Bool) : st (w.schedUpdate s b) = st w := by
  unfold World.schedUpdate; frame
theorem hb_schedUpdate (s : Nat) (b : Bool) :
    HasBad (badAct sk) (w.schedUpdate s b) = HasBad (badAct sk) w := by
  unfold World.schedUpdate; frame
theorem st_periodicSense (s : Nat) : st (w.periodicSense s) = st w := by
  unfold World.periodicSense; frame
theorem hb_periodicSense (s : Nat) : HasBad (badAct sk) (w.periodicSense s) = HasBad (badAct sk) w := by
  unfold World.periodicSense; frame

end

frame_lemmas2 st_startOrders hb_startOrders

theorem st_modMaint (w : World) (m : Nat) (f : Maint → Maint) : st (w.modMaint m f) = st w := rfl
theorem hb_modMaint (sk : Nat → Prop) (w : World) (m : Nat) (f : Maint → Maint) :
    HasBad (badAct sk) (w.modMaint m f) = HasBad (badAct sk) w := rfl
theorem st_setVar (w : World) (h : Nat) (v : Option Nat) : st (w.setVar h v) = st w := rfl
theorem hb_setVar (sk : Nat → Prop) (w : World) (h : Nat) (v : Option Nat) :
    HasBad (badAct sk) (w.setVar h v) = HasBad (badAct sk) w := rfl
frame_lemmas2 st_modMaint hb_modMaint
frame_lemmas2 st_setVar hb_setVar
macro_rules | `(tactic| fr_step) => `(tactic| rw [hb_sched])

theorem tdevE_setDev (w : World) (x : Nat) (d : Dev) (h : eraseB (tdev d) = eraseB (tdev (w.dev x))) :
    tv (w.setDev x d) = tv w := by
  simp only [tv, ST.topo, st, World.setDev, List.map_map]
  rw [map_set_getD_self (eraseB ∘ tdev) w.devs x default d h]

theorem tv_adjustParts (w : World) (x : Nat) (v : Int) : tv (w.adjustParts x v) = tv w := by
  unfold World.adjustParts
  simp only []
  split
  · rfl
  · split
    · rw [tv_of_st (st_schedulePass ..)]; exact tdevE_setDev _ _ _ rfl
    · exact tdevE_setDev _ _ _ rfl

theorem st_applyOp_static (w : World) (op : Op) (h1 : ∀ d ups, op ≠ .rewire d ups) (h2 : ∀ s, op ≠ .create s)
    (h3 : ∀ d n, op ≠ .adjust d n) : st (w.applyOp op).1 = st w := by
  cases op
  case rewire d ups => exact absurd rfl (h1 d ups)
  case create s => exact absurd rfl (h2 s)
  case adjust d n => exact absurd rfl (h3 d n)
  all_goals (unfold World.applyOp; frame')

theorem tv_applyOp_static (w : World) (op : Op) (h : OpStatic w op) : tv (w.applyOp op).1 = tv w := by
  by_cases h3 : ∃ d n, op = .adjust d n
  · obtain ⟨d, n, rfl⟩ := h3; exact tv_adjustParts w d n
  · apply tv_of_st
    apply st_applyOp_static
    · intro d ups e; subst e; exact h
    · intro s e; subst e; exact h
    · intro d n e; exact h3 ⟨d, n, e⟩

theorem hb_applyOp_static (sk : Nat → Prop) (w : World) (op : Op) (hs : SkOK sk w) (h : OpStatic w op) :
    HasBad (badAct sk) (w.applyOp op).1 = HasBad (badAct sk) w := by
  cases op
  case rewire d ups => exact absurd h id
  case create s => exact absurd h id
  case schedFail d t =>
    simp only [World.applyOp]
    split
    · rfl
    · exact hb_sched _ _ _ _ _ _ (not_bad_fail sk d (fun hd => h ((hs d).1 hd)))
  case schedFailRel d t =>
    simp only [World.applyOp]
    split
    · rfl
    · exact hb_sched _ _ _ _ _ _ (not_bad_fail sk d (fun hd => h ((hs d).1 hd)))
  all_goals (unfold World.applyOp; frame')

theorem sr_applyOp (sk : Nat → Prop) (w : World) (op : Op) (hs : SkOK sk w) (h : OpStatic w op) :
    SR sk w (w.applyOp op).1 :=
  ⟨tv_applyOp_static w op h, scr_applyOp w op, hb_applyOp_static sk w op hs h⟩


theorem SR.of_st {sk : Nat → Prop} {w w' : World} (h1 : st w' = st w) (h2 : w'.scripts = w.scripts)
    (h3 : HasBad (badAct sk) w' = HasBad (badAct sk) w) : SR sk w w' := ⟨tv_of_st h1, h2, h3⟩

theorem sr_applyOps (sk : Nat → Prop) (ops : List Op) : ∀ (w : World), Stat sk w →
    (∀ op ∈ ops, OpStatic w op) → SR sk w (w.applyOps ops) := by
  induction ops with
  | nil => intro w _ _; exact SR.refl sk w
  | cons op ops ih =>
    intro w h hok
    unfold World.applyOps
    simp only [List.foldl_cons]
    have r1 : SR sk w ((w.applyOp op).1.addRes (w.applyOp op).2) :=
      (sr_applyOp sk w op h.1 (hok op (List.mem_cons_self ..))).trans ⟨rfl, rfl, rfl⟩
    have := ih ((w.applyOp op).1.addRes (w.applyOp op).2) (h.of_sr r1)
      (fun o ho => opStatic_of_tv r1.1 o (hok o (List.mem_cons_of_mem _ ho)))
    unfold World.applyOps at this
    exact r1.trans this

theorem sr_runScript (sk : Nat → Prop) (w : World) (k : Nat) (h : Stat sk w) : SR sk w (w.runScript k) := by
  unfold World.runScript
  apply sr_applyOps sk _ w h
  intro op hop
  by_cases hk : k < w.scripts.length
  · have : w.scripts.getD k [] = w.scripts[k] := by simp [List.getD_eq_getElem?_getD, hk]
    rw [this] at hop
    exact h.2 _ (List.getElem_mem hk) op hop
  · have : w.scripts.getD k [] = [] := by simp [List.getD_eq_getElem?_getD, Nat.le_of_not_lt hk]
    rw [this] at hop; cases hop

theorem sr_scan (sk : Nat → Prop) (n : Nat) : ∀ (w : World) (i : Nat), Stat sk w →
    SR sk w (scanWaiting scanOps n w i) := by
  induction n with
  | zero => intro w i _; exact SR.refl sk w
  | succ n ih =>
    intro w i h
    unfold scanWaiting
    split
    · exact SR.refl sk w
    · split
      · rename_i req cb _ _
        have r1 : SR sk w (scanOps.erase (scanOps.call w cb req) i) := by
          cases cb with
          | script k =>
            have r0 : SR sk w (w.addRes (.cb k)) := ⟨rfl, rfl, rfl⟩
            exact (r0.trans (sr_runScript sk _ k (h.of_sr r0))).trans ⟨rfl, rfl, rfl⟩
          | proc d =>
            exact (SR.of_st (st_procResourceCb w d) (scr_procResourceCb w d) (hb_procResourceCb sk w d)).trans
              ⟨rfl, rfl, rfl⟩
        exact r1.trans (ih _ _ (h.of_sr r1))
      · exact ih _ _ h

theorem sr_rmCheck (sk : Nat → Prop) (w : World) (h : Stat sk w) : SR sk w w.rmCheck := sr_scan sk _ _ _ h

theorem sr_hookStart (sk : Nat → Prop) (w : World) (tgt : Nat) (tag : Int) (h : Stat sk w) :
    SR sk w (w.hookStart tgt tag) := by
  have r0 : SR sk w (w.addRes (.hook true tgt tag)) := ⟨rfl, rfl, rfl⟩
  unfold World.hookStart
  simp only []
  split
  · exact r0.trans (SR.of_st (st_shutdownDev ..) (scr_shutdownDev ..) (hb_shutdownDev sk ..))
  · split
    · exact r0.trans (sr_runScript sk _ _ (h.of_sr r0))
    · exact r0

theorem sr_hookEnd (sk : Nat → Prop) (w : World) (tgt : Nat) (tag : Int) (h : Stat sk w) :
    SR sk w (w.hookEnd tgt tag) := by
  have r0 : SR sk w (w.addRes (.hook false tgt tag)) := ⟨rfl, rfl, rfl⟩
  unfold World.hookEnd
  simp only []
  split
  · exact r0.trans (SR.of_st (st_restoreDev ..) (scr_restoreDev ..) (hb_restoreDev sk ..))
  · split
    · exact r0.trans (sr_runScript sk _ _ (h.of_sr r0))
    · exact r0

theorem sr_startWork (sk : Nat → Prop) (w : World) (m seq : Nat) (h : Stat sk w) :
    SR sk w (w.startWork m seq) := by
  have key : ∀ w' : World, SR sk w w' → ∀ t g a b d,
      SR sk w ((w'.hookStart t g).schedLib a b (.finishWork m seq) d) := fun w' r t g a b d =>
    (r.trans (sr_hookStart sk w' t g (h.of_sr r))).trans
      (SR.of_st (st_schedLib ..) (scr_schedLib ..)
        (hb_schedLib _ _ _ _ _ _ (not_bad_of_not_fail sk _ (by intro d h; cases h))))
  unfold World.startWork
  split
  · exact SR.of_st (st_setErr ..) (scr_setErr ..) (hb_setErr ..)
  · simp only []
    refine key _ ?_ _ _ _ _ _
    exact ⟨rfl, rfl, rfl⟩

theorem sr_finishWork (sk : Nat → Prop) (w : World) (m seq : Nat) (h : Stat sk w) :
    SR sk w (w.finishWork m seq) := by
  have key : ∀ w' : World, SR sk w w' → ∀ w'' : World, SR sk w' w'' → ∀ m l,
      SR sk w (w''.startOrders m l) := fun w' r w'' r' m l =>
    (r.trans r').trans (SR.of_st (st_startOrders ..) (scr_startOrders ..) (hb_startOrders sk ..))
  unfold World.finishWork
  split
  · exact SR.of_st (st_setErr ..) (scr_setErr ..) (hb_setErr ..)
  · simp only []
    rename_i o _
    refine key _ (sr_hookEnd sk w o.target o.tag h) _ ?_ _ _
    exact ⟨rfl, rfl, rfl⟩


theorem tv_passPart (w : World) (x : Nat) : tv (w.passPart x) = tv w := by
  by_cases hk : (w.dev x).kind = .source
  · unfold World.passPart
    simp only [hk]
    repeat' split
    all_goals first
      | rfl
      | exact tv_of_st (st_passHandler w x)
      | (rw [tv_of_st (st_scheduleFinish ..), tv_of_st (st_addRec ..)]
         unfold World.modDev
         rw [tdevE_setDev]
         · exact tv_of_st (st_passHandler w x)
         · rfl)
  · exact tv_of_st (st_passPart_nonsource w x hk)

theorem sr_exec (sk : Nat → Prop) (w : World) (a : Action) (h : Stat sk w) : SR sk w (w.exec a) := by
  cases a with
  | terminate => exact SR.refl sk w
  | script k => exact sr_runScript sk w k h
  | finishCycle d => exact SR.of_st (st_finishCycle w d) (scr_finishCycle w d) (hb_finishCycle sk w d)
  | passPart d => exact ⟨tv_passPart w d, scr_passPart w d, hb_passPart sk w d⟩
  | fail d => exact SR.of_st (st_failDev w d) (scr_failDev w d) (hb_failDev sk w d)
  | releaseIfIdle d => exact SR.of_st (st_releaseIfIdle w d) (scr_releaseIfIdle w d) (hb_releaseIfIdle sk w d)
  | rmCheck => exact sr_rmCheck sk w h
  | startWork m o => exact sr_startWork sk w m o h
  | finishWork m o => exact sr_finishWork sk w m o h
  | schedUpdate s => exact SR.of_st (st_schedUpdate w s true) (scr_schedUpdate w s true) (hb_schedUpdate sk w s true)
  | periodicSense s => exact SR.of_st (st_periodicSense w s) (scr_periodicSense w s) (hb_periodicSense sk w s)
  | unknown n => exact SR.of_st (st_setErr ..) (scr_setErr ..) (hb_setErr ..)

/-! ### the static closed-world theorem -/

/-- Static well-formedness: static scripts, good wiring, no failure of a sink pending. -/
def Static (w : World) : Prop :=
  ScriptsStatic w ∧ TopoOK w ∧ ¬ HasBad (badAct (fun d => (w.dev d).kind = .sink)) w

theorem devs_len_of_tv {w w' : World} (e : tv w' = tv w) : w'.devs.length = w.devs.length := by
  have := congrArg (fun t => t.devs.length) e
  simpa [tv, ST.topo, st] using this

theorem Static.of_sr {w w' : World} (h : Static w) (r : SR (fun d => (w.dev d).kind = .sink) w w') :
    Static w' := by
  have hs : Stat (fun d => (w.dev d).kind = .sink) w := ⟨fun _ => Iff.rfl, h.1⟩
  have hs' := hs.of_sr r
  refine ⟨hs'.2, h.2.1.of_tv r.1 (devs_len_of_tv r.1), ?_⟩
  have e : (fun d => (w'.dev d).kind = .sink) = (fun d => (w.dev d).kind = .sink) := by
    funext d; rw [kind_of_tv r.1]
  rw [e, r.2.2]; exact h.2.2

theorem scriptsOK_of_static {w : World} (h : ScriptsStatic w) : ScriptsOK' w := by
  intro l hl op hop
  have := h l hl op hop
  cases op <;> first | trivial | exact absurd this id

theorem static_actOK (w : World) (e : Event) (env' : Env) (h : Static w)
    (hst : w.env.step = some (e, env')) : ActOK { w with env := env' } (Action.ofNat e.act) := by
  cases ha : Action.ofNat e.act with
  | fail d =>
    intro hk
    apply h.2.2
    refine ⟨e.act, ?_, d, ha, hk⟩
    rw [mem_acts]
    refine ⟨e, Or.inl ?_, rfl⟩
    unfold Env.step at hst
    split at hst
    · cases hst
    · rename_i e' es he
      simp only [Option.some.injEq, Prod.mk.injEq] at hst
      rw [he, ← hst.1]; exact List.mem_cons_self ..
  | passPart x => exact h.2.1 x
  | _ => trivial

theorem static_pop (w : World) (e : Event) (env' : Env) (h : Static w)
    (hst : w.env.step = some (e, env')) : Static { w with env := env' } := by
  refine ⟨h.1, h.2.1, ?_⟩
  intro hb
  apply h.2.2
  obtain ⟨n, hn, hbad⟩ := hb
  refine ⟨n, ?_, hbad⟩
  unfold Env.step at hst
  split at hst
  · cases hst
  · rename_i e' es he
    simp only [Option.some.injEq, Prod.mk.injEq] at hst
    rw [mem_acts] at hn ⊢
    obtain ⟨x, hx, rfl⟩ := hn
    rw [← hst.2] at hx
    refine ⟨x, ?_, rfl⟩
    rw [he]
    rcases hx with hx | hx
    · exact Or.inl (List.mem_cons_of_mem _ hx)
    · exact Or.inr hx

theorem static_step (w w' : World) (e : Event) (hI : InvW w) (h : Static w) (hst : w.step = some (e, w')) :
    InvW w' ∧ Static w' := by
  have hg : Good Inv w := ⟨hI, scriptsOK_of_static h.1⟩
  refine ⟨(good_step w w' e hg hst (fun env' he _ => static_actOK w e env' h he)).1, ?_⟩
  unfold World.step at hst
  split at hst
  · cases hst
  · rename_i e' env' henv
    simp only [Option.some.injEq, Prod.mk.injEq] at hst
    obtain ⟨rfl, rfl⟩ := hst
    have h1 := static_pop w e' env' h henv
    split
    · exact h1.of_sr (sr_exec _ _ _ ⟨fun _ => Iff.rfl, h1.1⟩)
    · exact h1

theorem static_runLoop (n : Nat) : ∀ (w : World), InvW w → Static w →
    InvW (runLoop n w) ∧ Static (runLoop n w) := by
  induction n with
  | zero =>
    intro w hI h
    refine ⟨hI.of_sv (sv_setErr ..), h.of_sr (SR.of_st (st_setErr ..) (scr_setErr ..) (hb_setErr ..))⟩
  | succ n ih =>
    intro w hI h
    unfold runLoop
    split
    · split
      · exact ⟨hI, h⟩
      · rename_i e w' hst
        have := static_step w w' e hI h hst
        exact ih w' this.1 this.2
    · exact ⟨hI, h⟩


/-! ### initialisation -/

frame_lemma1 hb_initDev
frame_lemmas2 st_schedUpdate hb_schedUpdate

theorem st_initAsset (w : World) (a : AssetRef) : st (w.initAsset a) = st w := by
  unfold World.initAsset; frame
theorem hb_initAsset (sk : Nat → Prop) (w : World) (a : AssetRef) :
    HasBad (badAct sk) (w.initAsset a) = HasBad (badAct sk) w := by
  unfold World.initAsset; frame

theorem scr_simulateInit (w : World) : w.simulateInit.scripts = w.scripts := by
  unfold World.simulateInit
  split
  · rfl
  · simp only []
    show World.scripts (List.foldl _ _ _) = _
    rw [foldl_proj World.scripts _ _ _ (fun _ _ => scr_initAsset ..), scr_rmEffects]

theorem sr_simulateInit (sk : Nat → Prop) (w : World) : SR sk w w.simulateInit := by
  unfold World.simulateInit
  split
  · exact SR.refl sk w
  · simp only []
    refine SR.of_st ?_ ?_ ?_
    · show st (List.foldl _ _ _) = _
      rw [foldl_proj st _ _ _ (fun _ _ => st_initAsset ..), st_rmEffects]; rfl
    · show World.scripts (List.foldl _ _ _) = _
      rw [foldl_proj World.scripts _ _ _ (fun _ _ => scr_initAsset ..), scr_rmEffects]
    · show HasBad (badAct sk) (List.foldl _ _ _) = _
      rw [foldl_proj (HasBad (badAct sk)) _ _ _ (fun _ _ => hb_initAsset sk ..), hb_rmEffects]; rfl

theorem static_simulateInit (w : World) (h : Static w) : Static w.simulateInit :=
  h.of_sr (sr_simulateInit _ w)

end C02V
end SimProc
