/-
C17W machinery, part 4: the events other than `passPart` do not touch the batchers (except a failure
of the batcher itself, which drops its input); the closed-world invariant of C17W through `step`,
`runLoop` and initialisation.
-/
import SimProc.Proofs.C17WStep
namespace SimProc
namespace C17W
open World C02V C05W

/-! ### events other than `passPart` -/

/-- A settled batcher ignores a (spurious) `finishCycle` event. -/
theorem finishCycle_batcher_settled (w : World) (d : Nat) (hk : (w.dev d).kind = .batcher)
    (hs : (w.dev d).output.isSome ∨ (w.dev d).part = none) : sv (w.finishCycle d) = sv w := by
  unfold World.finishCycle
  simp only [hk]
  unfold World.finishCycleHandler
  simp only []
  split
  · exact sv_setErr ..
  · split
    · exact sv_setErr ..
    · rename_i p hp
      split
      · exact sv_setErr ..
      · rename_i ho
        rcases hs with hs | hs
        · exact absurd hs ho
        · rw [hs] at hp; cases hp

theorem sdev_failDev_ne (w : World) {x y : Nat} (h : y ≠ x) :
    sdev ((w.failDev x).dev y) = sdev (w.dev y) := by
  unfold World.failDev
  simp only []
  rw [sdev_of_sv (sv_shutdownDev ..), sdev_of_sv (sv_addRec ..), sdev_of_sv (sv_releaseReserved ..),
    dev_modDev_ne (Ne.symm h)]
  split <;> rfl

theorem sdev_failDev_self (w : World) {x : Nat} (hx : x < w.devs.length) :
    sdev ((w.failDev x).dev x) = { sdev (w.dev x) with part := none } := by
  unfold World.failDev
  simp only []
  rw [sdev_of_sv (sv_shutdownDev ..), sdev_of_sv (sv_addRec ..), sdev_of_sv (sv_releaseReserved ..)]
  split
  · rw [dev_modDev_same (by exact hx)]; rfl
  · rw [dev_modDev_same hx]; rfl

/-- The slots of a batcher are not changed by an event that is neither a `passPart` nor a failure
of the batcher itself. -/
theorem sdev_quiet (w : World) (a : Action) (hs : ScriptsNoRC w) (hB : BatAll w)
    (y : Nat) (hy : (w.dev y).kind = .batcher) (ha : ∀ d, a ≠ .passPart d) (hf : a ≠ .fail y) :
    sdev ((w.exec a).dev y) = sdev (w.dev y) := by
  cases a with
  | terminate => rfl
  | script k => exact sdev_of_sv (sv_of_sb (sb_runScript w k hs)) y
  | finishCycle d =>
    by_cases hdy : d = y
    · subst hdy
      exact sdev_of_sv (finishCycle_batcher_settled w d hy (hB d hy).settled) d
    · have hst := steps_finishCycle w d
      have hylt := lt_of_kind_batcher hy
      have hl : (w.finishCycle d).devs.length = w.devs.length := by
        have := hst.length; simpa [sv] using this
      have h1 := hst.devs_ne (Ne.symm hdy)
      rw [sv_get w y hylt, sv_get _ y (by rw [hl]; exact hylt)] at h1
      exact Option.some.inj h1
  | passPart d => exact absurd rfl (ha d)
  | fail d =>
    have hdy : y ≠ d := by rintro rfl; exact hf rfl
    exact sdev_failDev_ne w hdy
  | releaseIfIdle d => exact sdev_of_sv (sv_releaseIfIdle w d) y
  | rmCheck => exact sdev_of_sv (sv_of_sb (sb_rmCheck w hs)) y
  | startWork m o => exact sdev_of_sv (sv_of_sb (sb_startWork w m o hs)) y
  | finishWork m o => exact sdev_of_sv (sv_of_sb (sb_finishWork w m o hs)) y
  | schedUpdate s => exact sdev_of_sv (sv_schedUpdate w s true) y
  | periodicSense s => exact sdev_of_sv (sv_periodicSense w s) y
  | unknown n => exact sdev_of_sv (sv_setErr ..) y

/-- Events other than `passPart`: every batcher keeps its invariant; its sequence is unchanged unless
the event is a failure of this very batcher. -/
theorem bat_quiet (w : World) (a : Action) (hI : InvW w) (hw : Static w) (hB : BatAll w)
    (ha : ∀ d, a ≠ .passPart d) :
    BatAll (w.exec a) ∧
    ∀ y, (w.dev y).kind = .batcher → a ≠ .fail y → C17.seqOf (w.exec a) y = C17.seqOf w y := by
  have hs := scriptsNoRC_of_static hw.1
  obtain ⟨hbv, hko⟩ := quiet_exec w a hs ha
  have hkids : ∀ y, y < w.devs.length → ∀ q ∈ (sdev (w.dev y)).held,
      ((w.exec a).part q).kids = (w.part q).kids :=
    fun y hy q hq => hko.2 q (held_valid hI hy hq) (fun h => h)
  constructor
  · intro y hy
    rw [kind_exec w a hw] at hy
    have hylt := lt_of_kind_batcher hy
    have hbs : ((w.exec a).dev y).bsize = (w.dev y).bsize := (bdev_fields (bdev_of_bv hbv y)).2.2.2.2.1
    by_cases hf : a = .fail y
    · subst hf
      have e : w.exec (Action.fail y) = w.failDev y := rfl
      rw [e] at hbs hkids ⊢
      have hsd : sdev ((w.failDev y).dev y) = { sdev (w.dev y) with part := none } := sdev_failDev_self w hylt
      have h0 := hB y hy
      have ho : ((w.failDev y).dev y).output = (w.dev y).output := congrArg SDev.output hsd
      have hi : ((w.failDev y).dev y).inprog = (w.dev y).inprog := congrArg SDev.inprog hsd
      have hp : ((w.failDev y).dev y).part = none := congrArg SDev.part hsd
      refine ⟨⟨by rw [hbs]; exact h0.pos, by rw [hbs, hi]; exact h0.noprog, ?_, ?_, ?_⟩, Or.inr hp⟩
      · intro n hn b hb
        rw [hbs] at hn; rw [hi] at hb
        have := hkids y hylt b (held_inprog hb)
        show (((w.failDev y).part b).kids.getD []).length < n
        rw [show ((w.failDev y).part b).kids = (w.part b).kids from this]
        exact h0.prog_lt n hn b hb
      · intro n hn o ho'
        rw [hbs] at hn; rw [ho] at ho'
        have := hkids y hylt o (held_output ho')
        show ∃ l, ((w.failDev y).part o).kids = some l ∧ l.length = n
        rw [show ((w.failDev y).part o).kids = (w.part o).kids from this]
        exact h0.out_batch n hn o ho'
      · intro hn o ho'
        rw [hbs] at hn; rw [ho] at ho'
        have := hkids y hylt o (held_output ho')
        show ((w.failDev y).part o).kids = none
        rw [show ((w.failDev y).part o).kids = (w.part o).kids from this]
        exact h0.out_single hn o ho'
    · exact batOK_transport (sdev_quiet w a hs hB y hy ha hf) hbs (hkids y hylt) (hB y hy)
  · intro y hy hf
    exact seqOf_transport (sdev_quiet w a hs hB y hy ha hf) (hkids y (lt_of_kind_batcher hy))

/-! ### the closed-world invariant of C17W -/

/-- Conservation, static well-formedness, and the invariant of every batcher. -/
structure CI (w : World) : Prop where
  inv : InvW w
  stat : Static w
  bat : BatAll w

theorem batAll_exec (w : World) (a : Action) (hI : InvW w) (hw : Static w) (hB : BatAll w)
    (ha : ActOK w a) : BatAll (w.exec a) := by
  by_cases hp : ∃ d, a = .passPart d
  · obtain ⟨d, rfl⟩ := hp
    exact (bat_passPart w d hI hB ha).all
  · exact (bat_quiet w a hI hw hB (fun d hd => hp ⟨d, hd⟩)).1

theorem ci_step (w w' : World) (e : Event) (h : CI w) (hst : w.step = some (e, w')) : CI w' := by
  obtain ⟨hI', hS'⟩ := static_step w w' e h.inv h.stat hst
  refine ⟨hI', hS', ?_⟩
  unfold World.step at hst
  split at hst
  · cases hst
  · rename_i e' env' henv
    simp only [Option.some.injEq, Prod.mk.injEq] at hst
    obtain ⟨rfl, rfl⟩ := hst
    have hS1 := static_pop w e' env' h.stat henv
    have hI1 : InvW ({ w with env := env' } : World) := h.inv.of_sv rfl
    have hB1 : BatAll ({ w with env := env' } : World) := fun y hy =>
      batOK_transport (w := w) rfl rfl (fun _ _ => rfl) (h.bat y hy)
    split
    · exact batAll_exec _ _ hI1 hS1 hB1 (static_actOK w e' env' h.stat henv)
    · exact hB1

theorem ci_runLoop (n : Nat) : ∀ (w : World), CI w → CI (runLoop n w) := by
  induction n with
  | zero =>
    intro w h
    have hr := static_runLoop 0 w h.inv h.stat
    refine ⟨hr.1, hr.2, ?_⟩
    exact batAll_of_frame (w' := w.setErr "fuel") (kind_of_st (st_setErr ..)) (sv_setErr ..) (bv_setErr ..) h.bat
  | succ n ih =>
    intro w h
    unfold runLoop
    split
    · split
      · exact h
      · rename_i e w' hst
        exact ih w' (ci_step w w' e h hst)
    · exact h

/-! ### initialisation -/

theorem sdev_initDev (w : World) (d y : Nat) (h : y ≠ d ∨ (w.dev d).kind = .batcher) :
    sdev ((w.initDev d).dev y) = sdev (w.dev y) := by
  by_cases hk : (w.dev d).kind = .batcher
  · have hk' : ((initFlag w d).dev d).kind = .batcher := by rw [kind_of_st (st_initFlag w d)]; exact hk
    have : sv (w.initDev d) = sv w := by
      rw [initDev_eq]; simp only [hk']; rw [sv_setWaiting, sv_initFlag]
    exact sdev_of_sv this y
  · have hyd : y ≠ d := h.resolve_right hk
    have hst := (genS_initDev w d).steps
    have hl : (w.initDev d).devs.length = w.devs.length := by
      have := hst.length; simpa [sv] using this
    by_cases hy : y < w.devs.length
    · have h1 := hst.devs_ne hyd
      rw [sv_get w y hy, sv_get _ y (by rw [hl]; exact hy)] at h1
      exact Option.some.inj h1
    · rw [dev_of_ge w y (Nat.le_of_not_lt hy), dev_of_ge _ y (by rw [hl]; exact Nat.le_of_not_lt hy)]

theorem sdev_initAsset (w : World) (a : AssetRef) (y : Nat) (hy : (w.dev y).kind = .batcher) :
    sdev ((w.initAsset a).dev y) = sdev (w.dev y) := by
  cases a with
  | dev d =>
    refine sdev_initDev w d y ?_
    by_cases h : y = d
    · subst h; exact Or.inr hy
    · exact Or.inl h
  | maint m => exact sdev_of_sv (sv_initAsset_nondev _ _ (by intro d hd; cases hd)) y
  | sched m => exact sdev_of_sv (sv_initAsset_nondev _ _ (by intro d hd; cases hd)) y
  | sensor m => exact sdev_of_sv (sv_initAsset_nondev _ _ (by intro d hd; cases hd)) y
  | cms m => exact sdev_of_sv (sv_initAsset_nondev _ _ (by intro d hd; cases hd)) y

theorem sdev_simulateInit (w : World) (y : Nat) (hy : (w.dev y).kind = .batcher) :
    sdev (w.simulateInit.dev y) = sdev (w.dev y) := by
  unfold World.simulateInit
  split
  · rfl
  · simp only []
    show sdev ((List.foldl _ _ _ : World).dev y) = _
    have key : ∀ (l : List AssetRef) (w0 : World), (w0.dev y).kind = .batcher →
        sdev ((l.foldl (fun w a => w.initAsset a) w0).dev y) = sdev (w0.dev y) := by
      intro l
      induction l with
      | nil => intro w0 _; rfl
      | cons a l ih =>
        intro w0 h0
        simp only [List.foldl_cons]
        rw [ih (w0.initAsset a) (by rw [kind_of_st (st_initAsset w0 a)]; exact h0), sdev_initAsset w0 a y h0]
    rw [key _ _ (by rw [kind_of_st (st_rmEffects ..)]; exact hy)]
    exact sdev_of_sv (sv_rmEffects ..) y

end C17W
end SimProc
