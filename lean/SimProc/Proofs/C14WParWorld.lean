/-
C14W, pass 2 (continued) — the functions of `Model/World.lean`; the action of an event.
-/
import SimProc.Proofs.C14WParFloor2

namespace SimProc
namespace C14W
open World C01W

macro_rules | `(tactic| pp_step) => `(tactic| with_reducible apply PP.of_EK (EK_modMaint _ _ _) rfl rfl)
macro_rules | `(tactic| pp_step) => `(tactic| with_reducible apply PP.of_EK (EK_setVar _ _ _) rfl rfl)

section
variable {Q : Env → Env → Prop} {s1 m1 s2 m2 : Nat}
local notation "PP'" => PP Q s1 m1 s2 m2

theorem pp_startOrders (hQ : Cong Q s1 m1 s2 m2) {w : World} {t : Twin} (h : PP' w t)
    (m : Nat) (st : List Order) :
    PP' (w.startOrders m st) (NX (fun v => v.startOrders m st) w t) := by
  pp_go h [startOrders]

theorem pp_schedUpdate (hQ : Cong Q s1 m1 s2 m2) {w : World} {t : Twin} (h : PP' w t)
    (s : Nat) (adv : Bool) :
    PP' (w.schedUpdate s adv) (NX (fun v => v.schedUpdate s adv) w t) := by
  have h' : ∀ (st : Int) (w : World) (t : Twin) (a : Nat × Option Nat),
      (match a with | (o, ovr) => (sw w t).addRes (.act s o (sw w t).now st ovr)) =
        sw (match a with | (o, ovr) => w.addRes (.act s o w.now st ovr)) t := by
    intro st w t a; rfl
  pp_go h [schedUpdate, h']

end

macro_rules | `(tactic| pp_step) => `(tactic| with_reducible apply pp_startOrders ‹Cong _ _ _ _ _›)
macro_rules | `(tactic| pp_step) => `(tactic| with_reducible apply pp_schedUpdate ‹Cong _ _ _ _ _›)

section
variable {Q : Env → Env → Prop} {s1 m1 s2 m2 : Nat}
local notation "PP'" => PP Q s1 m1 s2 m2

theorem pp_initAsset (hQ : Cong Q s1 m1 s2 m2) {w : World} {t : Twin} (h : PP' w t)
    (a : AssetRef) : PP' (w.initAsset a) (NX (fun v => v.initAsset a) w t) := by
  pp_go h [initAsset]

/-- The registration step of `addDev`: the new device gets asset id `registration index + 1 ≥ 1`. -/
theorem pp_addDev_reg {w : World} {t : Twin} (h : PP' w t) (d : Dev) (a : AssetRef) :
    PP' { w with devs := w.devs ++ [{ d with aid := w.assets.length + 1, up := [] }],
                 assets := w.assets ++ [a] } t := by
  refine ⟨⟨?_, h.good.scr⟩, h.seed, h.wmod, h.tseed, h.twmod, h.q⟩
  intro x hx
  simp only [List.map_append, List.map_cons, List.map_nil, List.mem_append, List.mem_singleton] at hx
  rcases hx with hx | hx
  · exact h.good.aid x hx
  · subst hx; omega

end

macro_rules | `(tactic| pp_step) => `(tactic| with_reducible apply pp_initAsset ‹Cong _ _ _ _ _›)
macro_rules | `(tactic| pp_step) => `(tactic| apply pp_addDev_reg)

section
variable {Q : Env → Env → Prop} {s1 m1 s2 m2 : Nat}
local notation "PP'" => PP Q s1 m1 s2 m2

theorem pp_addDev (hQ : Cong Q s1 m1 s2 m2) {w : World} {t : Twin} (h : PP' w t)
    (d : Dev) : PP' (w.addDev d) (NX (fun v => v.addDev d) w t) := by
  pp_go h [addDev]

end

macro_rules | `(tactic| pp_step) => `(tactic| with_reducible apply pp_addDev ‹Cong _ _ _ _ _›)

section
variable {Q : Env → Env → Prop} {s1 m1 s2 m2 : Nat}
local notation "PP'" => PP Q s1 m1 s2 m2

theorem pp_addAsset (hQ : Cong Q s1 m1 s2 m2) {w : World} {t : Twin} (h : PP' w t)
    (spec : AssetSpec) : PP' (w.addAsset spec) (NX (fun v => v.addAsset spec) w t) := by
  pp_go h [addAsset]

end

macro_rules | `(tactic| pp_step) => `(tactic| with_reducible apply pp_addAsset ‹Cong _ _ _ _ _›)

end C14W
end SimProc
