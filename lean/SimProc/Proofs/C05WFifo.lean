/-
C05W machinery, part 9: how the queue of a buffer evolves during one event (no invariant needed):
entries leave from the front, after their minimum delay; new entries are appended with the current
time.  Holds in every topology, self-loops included.
-/
import SimProc.Proofs.C05WStep
namespace SimProc
namespace C05W
open World C02V

/-- The queue of `y` only grew, by entries stamped with the current time. -/
def QApp (w w' : World) (y : Nat) : Prop :=
  (w'.dev y).delay = (w.dev y).delay ∧
  ∃ new, (w'.dev y).buf = (w.dev y).buf ++ new ∧ ∀ e ∈ new, e.1 = w.now

/-- The queue of `y` lost a prefix of entries whose minimum delay had expired and gained entries
stamped with the current time. -/
def QEv (w w' : World) (y : Nat) : Prop :=
  (w'.dev y).delay = (w.dev y).delay ∧
  ∃ k new, (w'.dev y).buf = (w.dev y).buf.drop k ++ new ∧ (∀ e ∈ new, e.1 = w.now) ∧
    ∀ e ∈ (w.dev y).buf.take k, e.1 + (w.dev y).delay ≤ w.now

theorem QApp.refl (w : World) (y : Nat) : QApp w w y := ⟨rfl, [], by simp, by simp⟩

theorem QApp.of_bdev {w w' : World} {y : Nat} (h : bdev (w'.dev y) = bdev (w.dev y)) : QApp w w' y :=
  ⟨congrArg BDev.delay h, [], by rw [List.append_nil]; exact congrArg BDev.buf h, by simp⟩

theorem QApp.trans {a b c : World} {y : Nat} (hn : b.now = a.now) (h1 : QApp a b y) (h2 : QApp b c y) :
    QApp a c y := by
  obtain ⟨d1, n1, e1, t1⟩ := h1
  obtain ⟨d2, n2, e2, t2⟩ := h2
  refine ⟨d2.trans d1, n1 ++ n2, by rw [e2, e1, List.append_assoc], ?_⟩
  intro e he
  rcases List.mem_append.1 he with he | he
  · exact t1 e he
  · rw [← hn]; exact t2 e he

theorem QApp.qev {w w' : World} {y : Nat} (h : QApp w w' y) : QEv w w' y := by
  obtain ⟨d, n, e, t⟩ := h
  exact ⟨d, 0, n, by simpa using e, t, by simp⟩

theorem QEv.refl (w : World) (y : Nat) : QEv w w y := (QApp.refl w y).qev

theorem QEv.trans {a b c : World} {y : Nat} (hn : b.now = a.now) (h1 : QEv a b y) (h2 : QEv b c y) :
    QEv a c y := by
  obtain ⟨d1, k1, n1, e1, t1, x1⟩ := h1
  obtain ⟨d2, k2, n2, e2, t2, x2⟩ := h2
  refine ⟨d2.trans d1, k1 + k2, n1.drop (k2 - ((a.dev y).buf.drop k1).length) ++ n2, ?_, ?_, ?_⟩
  · rw [e2, e1, List.drop_append, List.drop_drop, List.append_assoc]
  · intro e he
    rcases List.mem_append.1 he with he | he
    · exact t1 e (List.mem_of_mem_drop he)
    · rw [← hn]; exact t2 e he
  · intro e he
    rw [List.take_add] at he
    rcases List.mem_append.1 he with he | he
    · exact x1 e he
    · have : e ∈ (b.dev y).buf.take k2 := by
        rw [e1, List.take_append]
        exact List.mem_append_left _ he
      have := x2 e this
      rw [d1, hn] at this
      exact this

/-! ### one hand-over -/

theorem qapp_acceptPart (w : World) (z p y : Nat) (ho : (w.dev z).output = none)
    (hy : (w.dev y).kind = .buffer) : QApp w (w.acceptPart z p) y := by
  by_cases hyz : y = z
  · subst hyz
    obtain ⟨_, a2, _, _, _, a6, _⟩ := C05.acceptPart_buffer w y p (lt_of_kind_buffer hy) hy ho
    exact ⟨a6, [(w.now, p)], a2, by simp⟩
  · exact QApp.of_bdev ((bo_acceptPart w z p).bdev_eq hyz)

theorem qapp_tryGive (w : World) (l : List Nat) (p y : Nat) (hy : (w.dev y).kind = .buffer) :
    QApp w (tryList givePart w l p).1 y ∧ (tryList givePart w l p).1.now = w.now := by
  cases hb : (tryList givePart w l p).2 with
  | false =>
    have hf := (tryGive_gd w l p).1 hb
    exact ⟨QApp.of_bdev (bdev_of_fr3 hf y), now_of_bv hf.bv⟩
  | true =>
    obtain ⟨_, _, z, w0, hf, _, _, _, ho, _, he⟩ := (tryGive_gd w l p).2 hb
    rw [he]
    have h1 : QApp w w0 y := QApp.of_bdev (bdev_of_fr3 hf y)
    have h2 := qapp_acceptPart w0 z p y ho (by rw [kind_of_fr3 hf]; exact hy)
    exact ⟨QApp.trans (now_of_bv hf.bv) h1 h2, ((bo_acceptPart w0 z p).now).trans (now_of_bv hf.bv)⟩

/-! ### `passHandler`, `bufferLoop`, `passPart` -/

theorem qapp_passHandler (w : World) (x y : Nat) (hy : (w.dev y).kind = .buffer) :
    QApp w (w.passHandler x) y ∧ (w.passHandler x).now = w.now := by
  unfold World.passHandler
  simp only []
  split
  · exact ⟨QApp.refl w y, rfl⟩
  · split
    · exact ⟨QApp.refl w y, rfl⟩
    · rename_i p hp
      have key := qapp_tryGive w (w.sortedDown x) p y hy
      split
      · rename_i w1 h
        rw [h] at key
        have hb : bv ((w1.modDev x (fun d => { d with output := none })).notify x) = bv w1 := by
          rw [bv_notify]; exact bv_modDev_same _ _ _ (fun _ => rfl)
        exact ⟨QApp.trans key.2 key.1 (QApp.of_bdev (bdev_of_bv hb y)), (now_of_bv hb).trans key.2⟩
      · rename_i w1 h
        rw [h] at key
        have hb : bv (w1.modDev x (fun d => { d with waitingDS := true })) = bv w1 :=
          bv_modDev_same _ _ _ (fun _ => rfl)
        exact ⟨QApp.trans key.2 key.1 (QApp.of_bdev (bdev_of_bv hb y)), (now_of_bv hb).trans key.2⟩

theorem qev_bufferLoop (f : Nat) : ∀ (w : World) (x y : Nat), (w.dev y).kind = .buffer →
    QEv w (bufferLoop f w x) y ∧ (bufferLoop f w x).now = w.now := by
  induction f with
  | zero => intro w x y _; exact ⟨QEv.refl w y, rfl⟩
  | succ f ih =>
    intro w x y hy
    rw [C05.bufferLoop_succ]
    split
    · exact ⟨QEv.refl w y, rfl⟩
    · rename_i t p rest hb
      split
      · exact ⟨QEv.refl w y, rfl⟩
      · rename_i hh
        have key := qapp_tryGive w (w.sortedDown x) p y hy
        have hst1 := st_tryGive w (w.sortedDown x) p
        cases hr : tryList givePart w (w.sortedDown x) p with
        | mk w1 b =>
          rw [hr] at key hst1
          simp only [] at key hst1
          cases b with
          | false => exact ⟨key.1.qev, key.2⟩
          | true =>
            simp only []
            have hy2 : ((C05.popHead w1 x (w.leafCount p)).dev y).kind = .buffer := by
              rw [kind_of_st ((popHead_st ..).trans hst1)]; exact hy
            have hn2 : (C05.popHead w1 x (w.leafCount p)).now = w.now := key.2
            obtain ⟨hq, hn⟩ := ih (C05.popHead w1 x (w.leafCount p)) x y hy2
            refine ⟨QEv.trans hn2 ?_ hq, hn.trans hn2⟩
            by_cases hyx : y = x
            · subst hyx
              obtain ⟨d1, n1, e1, t1⟩ := key.1
              have hy1 : y < w1.devs.length := by
                have := congrArg (fun t => t.devs.length) hst1
                simp only [st, List.length_map] at this
                rw [this]; exact lt_of_kind_buffer hy
              have hd2 := C05.popHead_dev w1 y (w.leafCount p) hy1
              refine ⟨by rw [hd2]; exact d1, 1, n1, ?_, t1, ?_⟩
              · rw [hd2]; show (w1.dev y).buf.drop 1 = _
                rw [e1, hb]; rfl
              · intro e he
                rw [hb] at he
                simp only [List.take_succ_cons, List.take_zero, List.mem_singleton] at he
                subst he
                show t + (w.dev y).delay ≤ w.now
                omega
            · have := (popHead_bo w1 x (w.leafCount p)).bdev_eq hyx
              exact (QApp.trans key.2 key.1 (QApp.of_bdev this)).qev

theorem qev_passPart (w : World) (x y : Nat) (hy : (w.dev y).kind = .buffer) :
    QEv w (w.passPart x) y ∧ (w.passPart x).now = w.now := by
  have hfin : ∀ w'' w' : World, bv w'' = bv w' → (QEv w w' y ∧ w'.now = w.now) →
      QEv w w'' y ∧ w''.now = w.now := fun w'' w' hb h =>
    ⟨QEv.trans h.2 h.1 (QApp.of_bdev (bdev_of_bv hb y)).qev, (now_of_bv hb).trans h.2⟩
  have hph : QEv w (w.passHandler x) y ∧ (w.passHandler x).now = w.now :=
    ⟨(qapp_passHandler w x y hy).1.qev, (qapp_passHandler w x y hy).2⟩
  cases hk : (w.dev x).kind
  case source =>
    unfold World.passPart
    simp only [hk]
    repeat' split
    all_goals first
      | exact ⟨QEv.refl w y, rfl⟩
      | exact hph
      | (refine hfin _ (w.passHandler x) ?_ hph
         rw [bv_scheduleFinish, bv_addRec]
         exact bv_modDev_same _ _ _ (fun _ => rfl))
  case buffer =>
    unfold World.passPart
    simp only [hk]
    refine hfin _ (bufferLoop ((w.dev x).buf.length + 1) w x) ?_ (qev_bufferLoop _ w x y hy)
    rw [bv_notify]; split
    · rfl
    · split
      · rw [bv_schedulePass]
      · exact bv_setDev_same _ _ _ rfl
  case batcher =>
    unfold World.passPart
    simp only [hk]
    split
    · have hyx : y ≠ x := by
        rintro rfl; rw [hk] at hy; cases hy
      have hbo := bo_tryMove (w.passHandler x) x
      exact ⟨QEv.trans hph.2 hph.1 (QApp.of_bdev ((BO.bdev_eq hbo hyx))).qev, (BO.now hbo).trans hph.2⟩
    · exact hph
  case sink =>
    have : w.passPart x = w := by unfold World.passPart; simp only [hk]
    rw [this]; exact ⟨QEv.refl w y, rfl⟩
  all_goals
    unfold World.passPart
    simp only [hk]
    exact hph

/-- One event: for every buffer, the queue evolves as described. -/
theorem qev_exec (w : World) (a : Action) (hs : ScriptsNoRC w) (y : Nat)
    (hy : (w.dev y).kind = .buffer) : QEv w (w.exec a) y ∧ (w.exec a).now = w.now := by
  by_cases hp : ∃ d, a = .passPart d
  · obtain ⟨d, rfl⟩ := hp
    exact qev_passPart w d y hy
  · have hq := quiet_exec w a hs (fun d hd => hp ⟨d, hd⟩)
    exact ⟨(QApp.of_bdev (bdev_of_bv hq.1 y)).qev, now_of_bv hq.1⟩

/-! ### the clock only moves when an event is popped -/

/-- The clock, as a projection. -/
def nowp (w : World) : Int := w.env.now

theorem now_give (f : Nat) (w : World) (x p : Nat) : nowp (give f w x p).1 = nowp w :=
  give_proj nowp (fun w x p => (bo_acceptPart w x p).now) (fun w x => now_of_bv (bv_procAcquire w x))
    (fun w m => now_of_bv (bv_setErr w m)) (fun w p x => now_of_bv (bv_addHist w p x))
    (fun w p => now_of_bv (bv_dropHist w p)) (fun _ _ _ => rfl) f w x p

theorem now_tryGive (w : World) (l : List Nat) (p : Nat) : nowp (tryList givePart w l p).1 = nowp w :=
  tryList_proj nowp _ (fun w y p => now_give w.fuel w y p) l w p

theorem now_passHandler (w : World) (x : Nat) : nowp (w.passHandler x) = nowp w :=
  passHandler_proj nowp now_tryGive (fun _ _ => rfl) (fun _ _ => rfl)
    (fun w x => now_of_bv (bv_notify w x)) w x

theorem now_bufferLoop (f : Nat) (w : World) (x : Nat) : nowp (bufferLoop f w x) = nowp w :=
  bufferLoop_proj nowp now_tryGive (fun _ _ _ => rfl) (fun _ _ => rfl) f w x

theorem now_passPart (w : World) (x : Nat) : (w.passPart x).now = w.now := by
  have hfin : ∀ w'' w' : World, bv w'' = bv w' → w'.now = w.now → w''.now = w.now :=
    fun w'' w' hb h => (now_of_bv hb).trans h
  have hph : (w.passHandler x).now = w.now := now_passHandler w x
  cases hk : (w.dev x).kind
  case source =>
    unfold World.passPart
    simp only [hk]
    repeat' split
    all_goals first
      | rfl
      | exact hph
      | (refine hfin _ (w.passHandler x) ?_ hph
         rw [bv_scheduleFinish, bv_addRec]
         exact bv_modDev_same _ _ _ (fun _ => rfl))
  case buffer =>
    unfold World.passPart
    simp only [hk]
    refine hfin _ (bufferLoop ((w.dev x).buf.length + 1) w x) ?_ (now_bufferLoop _ w x)
    rw [bv_notify]; split
    · rfl
    · split
      · rw [bv_schedulePass]
      · exact bv_setDev_same _ _ _ rfl
  case batcher =>
    unfold World.passPart
    simp only [hk]
    split
    · exact (BO.now (bo_tryMove (w.passHandler x) x)).trans hph
    · exact hph
  case sink =>
    have : w.passPart x = w := by unfold World.passPart; simp only [hk]
    rw [this]
  all_goals
    unfold World.passPart
    simp only [hk]
    exact hph

theorem now_exec (w : World) (a : Action) (hs : ScriptsNoRC w) : (w.exec a).now = w.now := by
  by_cases hp : ∃ d, a = .passPart d
  · obtain ⟨d, rfl⟩ := hp
    exact now_passPart w d
  · exact now_of_bv (quiet_exec w a hs (fun d hd => hp ⟨d, hd⟩)).1

end C05W
end SimProc
