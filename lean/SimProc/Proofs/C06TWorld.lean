/-
C06T (exact cycle times over whole runs), part 3: scripted operations, the actions of events and
one step of the event loop as sequences of atomic moves.  Mirrors `Proofs/C06WWorld.lean`; the
invariant at intermediate states is taken from there (`ws_*`).
-/
import SimProc.Proofs.C06TPass
namespace SimProc
namespace C06T
open World FloorCoreL C06W
open C02V (Reach st GiveOK Static SR HasBad badAct OpStatic ScriptsStatic TopoOK)

variable {F : Nat → Prop}

theorem mv_fr {w w' : World} (h : FI w) (f : Fr None_ w w') : Moves F w w' := .one h (.frame f)

/-! ### scripted operations -/

theorem mv_applyOp {w : World} (h : WI w) (op : Op) (h1 : OpStatic w op) (h2 : OpNoPause w op) :
    Moves F w (w.applyOp op).1 := by
  cases op
  case rewire d ups => exact absurd h1 id
  case create s => exact absurd h1 id
  case pause a => exact mv_fr h.fi (fr_envop_other h.fi a h2 _ (Or.inl rfl))
  case unpause a => exact mv_fr h.fi (fr_envop_other h.fi a h2 _ (Or.inr (Or.inl rfl)))
  case cancel a => exact mv_fr h.fi (fr_envop_other h.fi a h2 _ (Or.inr (Or.inr rfl)))
  case shutdown d =>
    simp only [World.applyOp]
    split
    · exact .refl _
    · rename_i hk
      exact .one h.fi (.shutdown d (by simpa using hk))
  case restore d =>
    simp only [World.applyOp]
    split
    · exact .refl _
    · rename_i hk
      exact .one h.fi (.restore d (by simpa using hk))
  case setParams tgt tag dur need cost =>
    refine mv_fr h.fi ?_
    simp only [World.applyOp]
    refine fr_of_fields rfl rfl rfl ?_
    show List.map (·.dev) (w.targets.set tgt _) = _
    apply map_set_of_eq (d := default)
    rfl
  all_goals (refine mv_fr h.fi ?_; unfold World.applyOp; fr_auto)

theorem mv_applyOps (ops : List Op) : ∀ (w : World), WI w →
    (∀ op ∈ ops, OpStatic w op ∧ OpNoPause w op) → Moves F w (w.applyOps ops) := by
  induction ops with
  | nil => intro w h _; exact .refl _
  | cons op ops ih =>
    intro w h hok
    unfold World.applyOps
    simp only [List.foldl_cons]
    have ho := hok op (List.mem_cons_self ..)
    have s1 := ws_applyOp h op ho.1 ho.2
    have m1 : Moves F w (w.applyOp op).1 := mv_applyOp h op ho.1 ho.2
    have s2 : WS w ((w.applyOp op).1.addRes (w.applyOp op).2) :=
      s1.trans (ws_addRes (h.of_ws s1).fi _)
    have m2 : Moves F w ((w.applyOp op).1.addRes (w.applyOp op).2) :=
      m1.trans (mv_fr (h.of_ws s1).fi (fr_addRes _ _))
    have h' := h.of_ws s2
    have := ih _ h' (fun o hm =>
      have hoo := hok o (List.mem_cons_of_mem _ hm)
      ⟨C02V.opStatic_of_tv s2.sr.1 o hoo.1, opNoPause_of_ka s2.good.2.len s2.good.2.ka o hoo.2⟩)
    unfold World.applyOps at this
    exact m2.trans this

theorem mv_runScript {w : World} (h : WI w) (k : Nat) : Moves F w (w.runScript k) := by
  unfold World.runScript
  apply mv_applyOps _ w h
  intro op hop
  by_cases hk : k < w.scripts.length
  · have : w.scripts.getD k [] = w.scripts[k] := by simp [List.getD_eq_getElem?_getD, hk]
    rw [this] at hop
    exact ⟨h.st.1 _ (List.getElem_mem hk) op hop, h.nps _ (List.getElem_mem hk) op hop⟩
  · have : w.scripts.getD k [] = [] := by simp [List.getD_eq_getElem?_getD, Nat.le_of_not_lt hk]
    rw [this] at hop; cases hop

/-- invariant and moves together, at the world level -/
structure WM (F : Nat → Prop) (w w' : World) : Prop where
  ws : WS w w'
  mv : Moves F w w'

theorem WM.refl {w : World} (h : FI w) : WM F w w := ⟨WS.refl h, .refl _⟩
theorem WM.trans {a b c : World} (h1 : WM F a b) (h2 : WM F b c) : WM F a c :=
  ⟨h1.ws.trans h2.ws, h1.mv.trans h2.mv⟩

theorem wm_addRes {w : World} (h : FI w) (r : Res) : WM F w (w.addRes r) :=
  ⟨ws_addRes h r, mv_fr h (fr_addRes _ _)⟩

theorem wm_runScript {w : World} (h : WI w) (k : Nat) : WM F w (w.runScript k) :=
  ⟨ws_runScript h k, mv_runScript h k⟩

theorem wm_erase {w : World} (h : FI w) (i : Nat) : WM F w (scanOps.erase w i) :=
  ⟨ws_erase h i, mv_fr h (fr_of_fields (X := None_) (w := w) (w' := scanOps.erase w i) rfl rfl rfl rfl)⟩

theorem wm_scan (n : Nat) : ∀ (w : World) (i : Nat), WI w → WM F w (scanWaiting scanOps n w i) := by
  induction n with
  | zero => intro w i h; exact WM.refl h.fi
  | succ n ih =>
    intro w i h
    unfold scanWaiting
    split
    · exact WM.refl h.fi
    · split
      · rename_i req cb _ _
        have s1 : WM F w (scanOps.erase (scanOps.call w cb req) i) := by
          cases cb with
          | script k =>
            have s0 : WM F w (w.addRes (.cb k)) := wm_addRes h.fi (.cb k)
            have s1 := s0.trans (wm_runScript (h.of_ws s0.ws) k)
            exact s1.trans (wm_erase (h.of_ws s1.ws).fi i)
          | proc d =>
            have s0 : WM F w (w.procResourceCb d) :=
              ⟨WS.of_floor ((fr_procResourceCb (X := None_) w d).good h.fi) (C02V.st_procResourceCb w d)
                (C02V.scr_procResourceCb w d) (fun sk => C02V.hb_procResourceCb sk w d),
               mv_fr h.fi (fr_procResourceCb w d)⟩
            exact s0.trans (wm_erase (h.of_ws s0.ws).fi i)
        exact s1.trans (ih _ _ (h.of_ws s1.ws))
      · exact ih _ _ h

theorem wm_rmCheck {w : World} (h : WI w) : WM F w w.rmCheck := wm_scan _ _ _ h

theorem wm_hookStart {w : World} (h : WI w) (tgt : Nat) (tag : Int) : WM F w (w.hookStart tgt tag) := by
  have s0 : WM F w (w.addRes (.hook true tgt tag)) := wm_addRes h.fi (.hook true tgt tag)
  have h0 := h.of_ws s0.ws
  have e : w.hookStart tgt tag = (match (w.targets.getD tgt default).dev with
      | some d => (w.addRes (.hook true tgt tag)).shutdownDev d false none
      | none => match (w.targets.getD tgt default).startScript with
        | some k => (w.addRes (.hook true tgt tag)).runScript k
        | none => w.addRes (.hook true tgt tag)) := rfl
  rw [e]
  split
  · rename_i d hd
    have hk : ((w.addRes (.hook true tgt tag)).dev d).kind = .processor := targets_dev_proc h hd
    exact s0.trans ⟨WS.of_floor ((loc_shutdown h0.fi hk).good h0.fi) (C02V.st_shutdownDev ..)
      (C02V.scr_shutdownDev ..) (fun sk => C02V.hb_shutdownDev sk ..), .one h0.fi (.shutdown d hk)⟩
  · split
    · exact s0.trans (wm_runScript h0 _)
    · exact s0

theorem wm_hookEnd {w : World} (h : WI w) (tgt : Nat) (tag : Int) : WM F w (w.hookEnd tgt tag) := by
  have s0 : WM F w (w.addRes (.hook false tgt tag)) := wm_addRes h.fi (.hook false tgt tag)
  have h0 := h.of_ws s0.ws
  have e : w.hookEnd tgt tag = (match (w.targets.getD tgt default).dev with
      | some d => (w.addRes (.hook false tgt tag)).restoreDev d
      | none => match (w.targets.getD tgt default).endScript with
        | some k => (w.addRes (.hook false tgt tag)).runScript k
        | none => w.addRes (.hook false tgt tag)) := rfl
  rw [e]
  split
  · rename_i d hd
    have hk : ((w.addRes (.hook false tgt tag)).dev d).kind = .processor := targets_dev_proc h hd
    exact s0.trans ⟨WS.of_floor ((loc_restoreDev h0.fi hk).good h0.fi) (C02V.st_restoreDev ..)
      (C02V.scr_restoreDev ..) (fun sk => C02V.hb_restoreDev sk ..), .one h0.fi (.restore d hk)⟩
  · split
    · exact s0.trans (wm_runScript h0 _)
    · exact s0

theorem wm_schedLib {w : World} (h : FI w) (t a : Int) (act : Action) (p : Int)
    (hnf : ∀ d, act ≠ .fail d) (hnfin : ∀ y, act ≠ .finishCycle y) : WM F w (w.schedLib t a act p) :=
  ⟨ws_schedLib h t a act p hnf hnfin,
    mv_fr h (fr_schedLib (X := None_) w t a act p (fun y e => absurd e (hnfin y)))⟩

theorem wm_setErr {w : World} (h : FI w) (m : String) (hm : allowedErrs.contains m = true) :
    WM F w (w.setErr m) :=
  ⟨ws_setErr h m hm, mv_fr h (fr_setErr (X := None_) w m hm)⟩

theorem wm_plain {w w' : World} (h : FI w) (hd : w'.devs = w.devs) (he : w'.env = w.env)
    (herr : w'.error = w.error) (htg : w'.targets = w.targets) (hs : w'.scripts = w.scripts)
    (hg : w'.groups = w.groups) : WM F w w' :=
  ⟨ws_plain h hd he herr htg hs hg, mv_fr h (fr_of_fields (X := None_) hd he herr (by rw [htg]))⟩

theorem wm_startWork {w : World} (h : WI w) (m seq : Nat) : WM F w (w.startWork m seq) := by
  have key : ∀ w' : World, WM F w w' → ∀ t g a b d,
      WM F w ((w'.hookStart t g).schedLib a b (.finishWork m seq) d) := fun w' s t g a b d =>
    let s1 := s.trans (wm_hookStart (h.of_ws s.ws) t g)
    s1.trans (wm_schedLib (h.of_ws s1.ws).fi a b _ d (by intro d e; cases e) (by intro y e; cases e))
  unfold World.startWork
  split
  · exact wm_setErr h.fi _ (by decide)
  · simp only []
    refine key _ ?_ _ _ _ _ _
    exact wm_plain h.fi rfl rfl rfl rfl rfl rfl

theorem wm_startOrders {w : World} (h : FI w) (m : Nat) (l : List Order) : WM F w (w.startOrders m l) :=
  ⟨ws_startOrders h m l, mv_fr h (fr_startOrders (X := None_) w m l)⟩

theorem wm_finishWork {w : World} (h : WI w) (m seq : Nat) : WM F w (w.finishWork m seq) := by
  have key : ∀ w' : World, WM F w w' → ∀ w'' : World, WM F w' w'' → ∀ m l,
      WM F w (w''.startOrders m l) := fun w' s w'' s' m l =>
    let s1 := s.trans s'
    s1.trans (wm_startOrders (h.of_ws s1.ws).fi m l)
  unfold World.finishWork
  split
  · exact wm_setErr h.fi _ (by decide)
  · simp only []
    rename_i o _
    refine key _ (wm_hookEnd h o.target o.tag) _ ?_ _ _
    exact wm_plain (h.of_ws (wm_hookEnd (F := F) h o.target o.tag).ws).fi rfl rfl rfl rfl rfl rfl

/-! ### the actions of events -/

/-- Every action except the finish event of a device, as a sequence of atomic moves; only the
action `fail d` contains a failure, and only of `d`. -/
theorem mv_exec {w : World} (h : WI w) (a : Action) (hfin : ∀ d, a ≠ .finishCycle d)
    (hfail : ∀ d, a = .fail d → (w.dev d).kind = .processor) :
    Moves (fun d => a = .fail d) w (w.exec a) := by
  cases a with
  | terminate => exact .refl _
  | script k => exact mv_runScript h k
  | finishCycle d => exact absurd rfl (hfin d)
  | passPart d => exact (gm_passPart w d h.fi (h.st.2.1 d)).mv
  | fail d => exact .one h.fi (.fail d (hfail d rfl) rfl)
  | releaseIfIdle d => exact mv_fr h.fi (fr_releaseIfIdle w d)
  | rmCheck => exact (wm_rmCheck h).mv
  | startWork m o => exact (wm_startWork h m o).mv
  | finishWork m o => exact (wm_finishWork h m o).mv
  | schedUpdate s => exact mv_fr h.fi (fr_schedUpdate w s true)
  | periodicSense s => exact mv_fr h.fi (fr_periodicSense w s)
  | unknown n => exact mv_fr h.fi (fr_setErr w _ (by decide))

/-! ### one step of the event loop -/

/-- The three kinds of step of the event loop: the popped event is cancelled (nothing runs), it is
the live finish event of a timing device `x` (which is then in the `Mid` state and finishes its
cycle), or its action is a sequence of atomic moves from a state satisfying the invariant. -/
inductive StepKind (w : World) (e : Event) (env' : Env) (w' : World) : Prop
  | skipped (hl : e.live = false) (hw : w' = { w with env := env' })
  | finish (x : Nat) (hl : e.live = true) (ha : e.act = finAct x)
      (hm : Mid ({ w with env := env' } : World) x)
      (hw : w' = ({ w with env := env' } : World).finishCycle x)
  | action (hl : e.live = true) (hfi : FI ({ w with env := env' } : World))
      (hsrc : ∀ x, e.act = finAct x → (w.dev x).kind = .source)
      (hw : w' = ({ w with env := env' } : World).exec (Action.ofNat e.act))
      (mv : Moves (fun d => Action.ofNat e.act = .fail d) ({ w with env := env' } : World) w')

theorem step_kind {w w' : World} {e : Event} (h : WI w) (hst : w.step = some (e, w')) :
    ∃ env', w.env.step = some (e, env') ∧ StepKind w e env' w' := by
  unfold World.step at hst
  split at hst
  · cases hst
  · rename_i e' env' henv
    simp only [Option.some.injEq, Prod.mk.injEq] at hst
    obtain ⟨rfl, rfl⟩ := hst
    refine ⟨env', henv, ?_⟩
    obtain ⟨s1, s2, s3, s4⟩ := si_pop h henv
    by_cases hl : e'.live = true
    · rw [if_pos hl]
      rcases pop_cases h henv with ⟨x, _, ha, hm⟩ | ⟨hfi, hsrc⟩
      · refine .finish x hl ha hm ?_
        rw [ha, ofNat_finAct]; rfl
      · have h1 : WI ({ w with env := env' } : World) := ⟨hfi, s1, s2, s3, s4⟩
        refine .action hl hfi (fun x => hsrc x hl) rfl ?_
        by_cases hc : ∃ d, Action.ofNat e'.act = .finishCycle d
        · obtain ⟨d, hd⟩ := hc
          rw [hd]
          have hk : (w.dev d).kind = .source := hsrc d hl (ofNat_finish hd)
          exact mv_fr hfi (fr_finishCycle_source (X := None_) ({ w with env := env' } : World) d hk)
        · refine mv_exec h1 _ (fun d hd => hc ⟨d, hd⟩) ?_
          intro d hd
          cases hk : (w.dev d).kind
          case processor => exact hk
          all_goals
            exfalso
            apply h.nf
            refine ⟨e'.act, ?_, d, hd, ?_⟩
            · rw [C02V.mem_acts]; exact ⟨e', Or.inl (mem_events_of_step henv), rfl⟩
            · show (w.dev d).kind ≠ .processor
              rw [hk]; decide
    · rw [if_neg hl]
      exact .skipped (by simpa using hl) rfl

end C06T
end SimProc
