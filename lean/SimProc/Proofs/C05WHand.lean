/-
C05W / C17W machinery, part 4: the facts about one successful hand-over that the closed-world
proofs need: only the accepting device changes in the auxiliary view, and (by conservation) the
`kids` of every part held by another device stay as they are.
-/
import SimProc.Proofs.C05WGive
import SimProc.Proofs.FloorPass
namespace SimProc
namespace C05W
open World C02V

theorem bdev_of_fr3 {w w0 : World} (h : Fr3 w w0) (y : Nat) : bdev (w0.dev y) = bdev (w.dev y) :=
  bdev_of_bv h.bv y

theorem kind_of_fr3 {w w0 : World} (h : Fr3 w w0) (y : Nat) : (w0.dev y).kind = (w.dev y).kind :=
  kind_of_st h.st y

/-- What one acceptance does, without any invariant. -/
theorem acc_basic {w w0 : World} (z p : Nat) (hf : Fr3 w w0) :
    BO z w (w0.acceptPart z p) ∧ st (w0.acceptPart z p) = st w ∧
    ((w.dev z).kind ≠ .buffer → (w.dev z).kind ≠ .batcher → bv (w0.acceptPart z p) = bv w) :=
  ⟨(BO.of_bv hf.bv).trans (bo_acceptPart w0 z p), (st_acceptPart w0 z p).trans hf.st,
    fun h1 h2 => (bv_acceptPart_plain w0 z p (by rw [kind_of_fr3 hf]; exact h1)
      (by rw [kind_of_fr3 hf]; exact h2)).trans hf.bv⟩

theorem acc_kids {w w0 : World} (z p : Nat) (hf : Fr3 w w0) (hz : z < w.devs.length) :
    KOx (fun q => q = p ∨ (w.dev z).inprog = some q) w (w0.acceptPart z p) ∧
    ((w.dev z).kind ≠ .batcher → KO w (w0.acceptPart z p)) := by
  have hl : w0.parts.length = w.parts.length := parts_len_of_sv hf.sv
  have hk : ∀ q, (w0.part q).kids = (w.part q).kids := kids_of_sv hf.sv
  have hi : (w0.dev z).inprog = (w.dev z).inprog := congrArg SDev.inprog (sdev_of_sv hf.sv z)
  have h0 : ∀ S, KOx S w w0 := fun S => ⟨by rw [hl]; exact Nat.le_refl _, fun q _ _ => hk q⟩
  constructor
  · have := kox_acceptPart w0 z p (by rw [devs_len_of_sv hf.sv]; exact hz)
    rw [hi] at this
    exact (h0 _).trans this
  · intro hkz
    exact (h0 _).trans (ko_acceptPart_nonbatcher w0 z p (by rw [kind_of_fr3 hf]; exact hkz))

/-- In a state that satisfies the conservation invariant, an acceptance by `z` of a part `p` leaves
the `kids` of every part `q ≠ p` held by a device other than `z` alone. -/
theorem acc_kids_others {w w0 : World} (z p : Nat) (hI : InvW w) (hf : Fr3 w w0) (hz : z < w.devs.length)
    {y q : Nat} (hy : y < w.devs.length) (hq : q ∈ (sdev (w.dev y)).held) (hqp : q ≠ p) (hyz : y ≠ z) :
    ((w0.acceptPart z p).part q).kids = (w.part q).kids := by
  have hv : q < w.parts.length := held_valid hI hy hq
  refine (acc_kids z p hf hz).1.2 q hv ?_
  rintro (h | h)
  · exact hqp h
  · have : q ∈ (sdev (w.dev z)).held := by simp [SDev.held, sdev, h]
    exact hyz (SVBatchAux.held_unique hI.1 (sv_get w y hy) (sv_get w z hz) hq this)

/-- The facts about a successful `tryList givePart` from a state satisfying conservation. -/
structure Handed (w : World) (p : Nat) (w1 : World) (z : Nat) (w0 : World) : Prop where
  lt : z < w.devs.length
  fr : Fr3 w w0
  hl : isHandlerLike (w.dev z).kind = true
  part : (w.dev z).part = none
  output : (w.dev z).output = none
  room : (w.dev z).kind = .buffer → w0.canAcceptBasic z p = true
  eq : w1 = w0.acceptPart z p
  bo : BO z w w1
  st : st w1 = st w

theorem handed_of_acc {w w1 : World} {l : List Nat} {p : Nat}
    (hl : ∀ y ∈ l, ∀ z, Reach (st w) y z → z < w.devs.length)
    (h : ∃ y ∈ l, Acc w y p w1) : ∃ z w0, Handed w p w1 z w0 := by
  obtain ⟨y, hy, z, w0, hf, hr, hh, hp, ho, hroom, he⟩ := h
  have hb := acc_basic z p hf
  refine ⟨z, w0, hl y hy z hr, hf, by rw [← kind_of_fr3 hf]; exact hh,
    by rw [← part_of_sv hf.sv]; exact hp, by rw [← output_of_sv hf.sv]; exact ho,
    fun hk => hroom (by rw [kind_of_fr3 hf]; exact hk), he, he ▸ hb.1, he ▸ hb.2.1⟩

theorem tryGive_handed (w : World) (x p : Nat) (hg : GiveOK w x)
    (hb : (tryList givePart w (w.sortedDown x) p).2 = true) :
    ∃ z w0, Handed w p (tryList givePart w (w.sortedDown x) p).1 z w0 :=
  handed_of_acc (fun y hy z hr => hg y ((C02V.mem_sortedDown ..).1 hy) z hr)
    ((tryGive_gd w (w.sortedDown x) p).2 hb)

end C05W
end SimProc
