/-
C14W, pass 1 — `f (sw w t) … = sw (f w …) (NX … w t)` for every function of `Model/Floor.lean` and
`Model/World.lean` that can run inside an event action or a scripted operation.
-/
import SimProc.Proofs.C14WBase

namespace SimProc
namespace C14W
open World

/-! ### functions that do not touch the queue at all -/

@[c14w] theorem sw_setWaiting (w : World) (t : Twin) (x : Nat) (a b : Bool) :
    (sw w t).setWaiting x a b = sw (w.setWaiting x a b) t := by
  bl_close [setWaiting]

@[c14w] theorem sw_addHist (w : World) (t : Twin) (p d : Nat) :
    (sw w t).addHist p d = sw (w.addHist p d) t := by
  bl_close [addHist]

@[c14w] theorem sw_dropHist (w : World) (t : Twin) (p : Nat) :
    (sw w t).dropHist p = sw (w.dropHist p) t := by
  bl_close [dropHist]

@[c14w] theorem sw_applyPartCb (w : World) (t : Twin) (x p : Nat) (c : PartCb) :
    (sw w t).applyPartCb x p c = sw (w.applyPartCb x p c) t := by
  bl_close [applyPartCb]

@[c14w] theorem sw_senseOutput (w : World) (t : Twin) (s p : Nat) :
    (sw w t).senseOutput s p = sw (w.senseOutput s p) t := by
  bl_close [senseOutput]

/-! ### notifications -/

theorem bl_schedulePass (x : Nat) (o : Int) : Blind (fun w => w.schedulePass x o) := by
  intro w t
  bl_close [schedulePass]

@[c14w] theorem sw_schedulePass (w : World) (t : Twin) (x : Nat) (o : Int) :
    (sw w t).schedulePass x o = sw (w.schedulePass x o) (NX (fun v => v.schedulePass x o) w t) :=
  (bl_schedulePass x o).eq w t

theorem bl_notifyUp_spaceAvail (n : Nat) :
    (∀ x, Blind (fun w => notifyUp n w x)) ∧ (∀ x, Blind (fun w => spaceAvail n w x)) := by
  induction n with
  | zero =>
    constructor <;> intro x w t
    · bl_norm [notifyUp]
    · bl_norm [spaceAvail]
  | succ n ih =>
    have hN : ∀ w t x, notifyUp n (sw w t) x = sw (notifyUp n w x) (NX (fun v => notifyUp n v x) w t) :=
      fun w t x => (ih.1 x).eq w t
    have hS : ∀ w t x, spaceAvail n (sw w t) x = sw (spaceAvail n w x) (NX (fun v => spaceAvail n v x) w t) :=
      fun w t x => (ih.2 x).eq w t
    constructor <;> intro x w t
    · bl_close [notifyUp, hN, hS]
    · bl_close [spaceAvail, hN, hS]

@[c14w] theorem sw_notifyUp (n : Nat) (w : World) (t : Twin) (x : Nat) :
    notifyUp n (sw w t) x = sw (notifyUp n w x) (NX (fun v => notifyUp n v x) w t) :=
  ((bl_notifyUp_spaceAvail n).1 x).eq w t
@[c14w] theorem sw_spaceAvail (n : Nat) (w : World) (t : Twin) (x : Nat) :
    spaceAvail n (sw w t) x = sw (spaceAvail n w x) (NX (fun v => spaceAvail n v x) w t) :=
  ((bl_notifyUp_spaceAvail n).2 x).eq w t

theorem bl_notify (x : Nat) : Blind (fun w => w.notify x) := by
  intro w t; bl_norm [notify]
@[c14w] theorem sw_notify (w : World) (t : Twin) (x : Nat) :
    (sw w t).notify x = sw (w.notify x) (NX (fun v => v.notify x) w t) := (bl_notify x).eq w t

theorem bl_spaceAvailable (x : Nat) : Blind (fun w => w.spaceAvailable x) := by
  intro w t; bl_norm [spaceAvailable]
@[c14w] theorem sw_spaceAvailable (w : World) (t : Twin) (x : Nat) :
    (sw w t).spaceAvailable x = sw (w.spaceAvailable x) (NX (fun v => v.spaceAvailable x) w t) :=
  (bl_spaceAvailable x).eq w t

/-! ### resources of a processor -/

theorem bl_releaseReserved (x : Nat) : Blind (fun w => w.releaseReserved x) := by
  intro w t
  bl_close [releaseReserved]
@[c14w] theorem sw_releaseReserved (w : World) (t : Twin) (x : Nat) :
    (sw w t).releaseReserved x = sw (w.releaseReserved x) (NX (fun v => v.releaseReserved x) w t) :=
  (bl_releaseReserved x).eq w t

theorem bl_procAcquire (x : Nat) : Blind2 (fun w => w.procAcquire x) := by
  intro w t
  bl_close [procAcquire]
@[c14w] theorem sw_procAcquire (w : World) (t : Twin) (x : Nat) :
    (sw w t).procAcquire x =
      (sw (w.procAcquire x).1 (NX (fun v => (v.procAcquire x).1) w t), (w.procAcquire x).2) :=
  (bl_procAcquire x).eq w t

/-! ### finishing a cycle -/

theorem bl_finishCycleHandler (x : Nat) : Blind (fun w => w.finishCycleHandler x) := by
  intro w t
  bl_close [finishCycleHandler]
@[c14w] theorem sw_finishCycleHandler (w : World) (t : Twin) (x : Nat) :
    (sw w t).finishCycleHandler x =
      sw (w.finishCycleHandler x) (NX (fun v => v.finishCycleHandler x) w t) :=
  (bl_finishCycleHandler x).eq w t

theorem sw_genPart_fold (d : Dev) (l : List Nat) (w : World) (t : Twin) (acc : List Nat) :
    l.foldl (fun (acc : World × List Nat) _ =>
      let (w', k) := acc.1.newPart { quality := d.genQuality, value := d.genValue }
      (w', acc.2 ++ [k])) (sw w t, acc) =
    (sw (l.foldl (fun (acc : World × List Nat) _ =>
      let (w', k) := acc.1.newPart { quality := d.genQuality, value := d.genValue }
      (w', acc.2 ++ [k])) (w, acc)).1 t,
     (l.foldl (fun (acc : World × List Nat) _ =>
      let (w', k) := acc.1.newPart { quality := d.genQuality, value := d.genValue }
      (w', acc.2 ++ [k])) (w, acc)).2) := by
  induction l generalizing w acc with
  | nil => rfl
  | cons a l ih =>
    rw [List.foldl_cons, List.foldl_cons]
    exact ih (w.newPart { quality := d.genQuality, value := d.genValue }).1 _

@[c14w] theorem sw_genPart (w : World) (t : Twin) (x : Nat) :
    (sw w t).genPart x = (sw (w.genPart x).1 t, (w.genPart x).2) := by
  bl_close [genPart, sw_genPart_fold]

theorem bl_finishCycle (x : Nat) : Blind (fun w => w.finishCycle x) := by
  intro w t
  bl_close [finishCycle]
@[c14w] theorem sw_finishCycle (w : World) (t : Twin) (x : Nat) :
    (sw w t).finishCycle x = sw (w.finishCycle x) (NX (fun v => v.finishCycle x) w t) :=
  (bl_finishCycle x).eq w t

theorem bl_scheduleFinish (x : Nat) : Blind (fun w => w.scheduleFinish x) := by
  intro w t
  bl_close [scheduleFinish]
@[c14w] theorem sw_scheduleFinish (w : World) (t : Twin) (x : Nat) :
    (sw w t).scheduleFinish x = sw (w.scheduleFinish x) (NX (fun v => v.scheduleFinish x) w t) :=
  (bl_scheduleFinish x).eq w t

@[c14w] theorem sw_batcherLoop (n : Nat) (w : World) (t : Twin) (x : Nat) :
    batcherLoop n (sw w t) x = sw (batcherLoop n w x) t := by
  induction n generalizing w with
  | zero => rfl
  | succ n ih =>
    rw [batcherLoop, batcherLoop]
    bl_close [ih]

theorem bl_tryMove (x : Nat) : Blind (fun w => w.tryMove x) := by
  intro w t
  bl_close [tryMove]
@[c14w] theorem sw_tryMove (w : World) (t : Twin) (x : Nat) :
    (sw w t).tryMove x = sw (w.tryMove x) (NX (fun v => v.tryMove x) w t) := (bl_tryMove x).eq w t

theorem bl_onReceived (x p : Nat) : Blind (fun w => w.onReceived x p) := by
  intro w t
  bl_close [onReceived]
@[c14w] theorem sw_onReceived (w : World) (t : Twin) (x p : Nat) :
    (sw w t).onReceived x p = sw (w.onReceived x p) (NX (fun v => v.onReceived x p) w t) :=
  (bl_onReceived x p).eq w t

theorem bl_acceptPart (x p : Nat) : Blind (fun w => w.acceptPart x p) := by
  intro w t
  bl_close [acceptPart]
@[c14w] theorem sw_acceptPart (w : World) (t : Twin) (x p : Nat) :
    (sw w t).acceptPart x p = sw (w.acceptPart x p) (NX (fun v => v.acceptPart x p) w t) :=
  (bl_acceptPart x p).eq w t

/-! ### handing parts over -/

theorem bl_tryList (g : World → Nat → Nat → World × Bool)
    (hg : ∀ w t y p, g (sw w t) y p = (sw (g w y p).1 (NX (fun v => (g v y p).1) w t), (g w y p).2))
    (l : List Nat) (p : Nat) : Blind2 (fun w => tryList g w l p) := by
  intro w t
  induction l generalizing w t with
  | nil => exact ⟨rfl, rfl⟩
  | cons y ys ih =>
    simp only [tryList, hg]
    cases hb : (g w y p).2 with
    | true =>
      rw [show g w y p = ((g w y p).1, true) from Prod.ext rfl hb]
      exact ⟨rfl, rfl⟩
    | false =>
      rw [show g w y p = ((g w y p).1, false) from Prod.ext rfl hb]
      exact ih _ _

@[c14w] theorem sw_tryList (g : World → Nat → Nat → World × Bool)
    (hg : ∀ w t y p, g (sw w t) y p = (sw (g w y p).1 (NX (fun v => (g v y p).1) w t), (g w y p).2))
    (w : World) (t : Twin) (l : List Nat) (p : Nat) :
    tryList g (sw w t) l p =
      (sw (tryList g w l p).1 (NX (fun v => (tryList g v l p).1) w t), (tryList g w l p).2) :=
  (bl_tryList g hg l p).eq w t

theorem bl_give (n : Nat) : ∀ x p, Blind2 (fun w => give n w x p) := by
  induction n with
  | zero =>
    intro x p w t
    bl_norm [give]
    bl_fin
  | succ n ih =>
    have hG : ∀ w t x p, give n (sw w t) x p =
        (sw (give n w x p).1 (NX (fun v => (give n v x p).1) w t), (give n w x p).2) :=
      fun w t x p => (ih x p).eq w t
    intro x p w t
    simp only [give, sw_dev]
    split_match <;> bl_close [hG]

@[c14w] theorem sw_give (n : Nat) (w : World) (t : Twin) (x p : Nat) :
    give n (sw w t) x p = (sw (give n w x p).1 (NX (fun v => (give n v x p).1) w t), (give n w x p).2) :=
  (bl_give n x p).eq w t

theorem bl_givePart (x p : Nat) : Blind2 (fun w => w.givePart x p) := by
  intro w t
  bl_norm [givePart]
  bl_fin
@[c14w] theorem sw_givePart (w : World) (t : Twin) (x p : Nat) :
    (sw w t).givePart x p =
      (sw (w.givePart x p).1 (NX (fun v => (v.givePart x p).1) w t), (w.givePart x p).2) :=
  (bl_givePart x p).eq w t

theorem bl_passHandler (x : Nat) : Blind (fun w => w.passHandler x) := by
  intro w t
  bl_close [passHandler]
@[c14w] theorem sw_passHandler (w : World) (t : Twin) (x : Nat) :
    (sw w t).passHandler x = sw (w.passHandler x) (NX (fun v => v.passHandler x) w t) :=
  (bl_passHandler x).eq w t

theorem bl_bufferLoop (n : Nat) (x : Nat) : Blind (fun w => bufferLoop n w x) := by
  induction n with
  | zero => intro w t; rfl
  | succ n ih =>
    have hB : ∀ w t, bufferLoop n (sw w t) x = sw (bufferLoop n w x) (NX (fun v => bufferLoop n v x) w t) :=
      fun w t => ih.eq w t
    intro w t
    bl_close [bufferLoop, hB]
@[c14w] theorem sw_bufferLoop (n : Nat) (w : World) (t : Twin) (x : Nat) :
    bufferLoop n (sw w t) x = sw (bufferLoop n w x) (NX (fun v => bufferLoop n v x) w t) :=
  (bl_bufferLoop n x).eq w t

theorem bl_passPart (x : Nat) : Blind (fun w => w.passPart x) := by
  intro w t
  bl_close [passPart]
@[c14w] theorem sw_passPart (w : World) (t : Twin) (x : Nat) :
    (sw w t).passPart x = sw (w.passPart x) (NX (fun v => v.passPart x) w t) := (bl_passPart x).eq w t

/-! ### processors: failure, shutdown, restore -/

theorem bl_shutdownDev (x : Nat) (f : Bool) (lost : Option Nat) :
    Blind (fun w => w.shutdownDev x f lost) := by
  intro w t
  bl_close [shutdownDev]
@[c14w] theorem sw_shutdownDev (w : World) (t : Twin) (x : Nat) (f : Bool) (lost : Option Nat) :
    (sw w t).shutdownDev x f lost =
      sw (w.shutdownDev x f lost) (NX (fun v => v.shutdownDev x f lost) w t) :=
  (bl_shutdownDev x f lost).eq w t

theorem bl_failDev (x : Nat) : Blind (fun w => w.failDev x) := by
  intro w t
  bl_close [failDev]
@[c14w] theorem sw_failDev (w : World) (t : Twin) (x : Nat) :
    (sw w t).failDev x = sw (w.failDev x) (NX (fun v => v.failDev x) w t) := (bl_failDev x).eq w t

theorem bl_restoreDev (x : Nat) : Blind (fun w => w.restoreDev x) := by
  intro w t
  bl_close [restoreDev]
@[c14w] theorem sw_restoreDev (w : World) (t : Twin) (x : Nat) :
    (sw w t).restoreDev x = sw (w.restoreDev x) (NX (fun v => v.restoreDev x) w t) :=
  (bl_restoreDev x).eq w t

theorem bl_releaseIfIdle (x : Nat) : Blind (fun w => w.releaseIfIdle x) := by
  intro w t
  bl_close [releaseIfIdle]
@[c14w] theorem sw_releaseIfIdle (w : World) (t : Twin) (x : Nat) :
    (sw w t).releaseIfIdle x = sw (w.releaseIfIdle x) (NX (fun v => v.releaseIfIdle x) w t) :=
  (bl_releaseIfIdle x).eq w t

theorem bl_procResourceCb (x : Nat) : Blind (fun w => w.procResourceCb x) := by
  intro w t
  bl_norm [procResourceCb]
@[c14w] theorem sw_procResourceCb (w : World) (t : Twin) (x : Nat) :
    (sw w t).procResourceCb x = sw (w.procResourceCb x) (NX (fun v => v.procResourceCb x) w t) :=
  (bl_procResourceCb x).eq w t

/-! ### scripted operations on devices -/

theorem bl_setBlock (x : Nat) (b : Bool) : Blind (fun w => w.setBlock x b) := by
  intro w t
  bl_close [setBlock]
@[c14w] theorem sw_setBlock (w : World) (t : Twin) (x : Nat) (b : Bool) :
    (sw w t).setBlock x b = sw (w.setBlock x b) (NX (fun v => v.setBlock x b) w t) :=
  (bl_setBlock x b).eq w t

theorem bl_adjustParts (x : Nat) (v : Int) : Blind (fun w => w.adjustParts x v) := by
  intro w t
  bl_close [adjustParts]
@[c14w] theorem sw_adjustParts (w : World) (t : Twin) (x : Nat) (v : Int) :
    (sw w t).adjustParts x v = sw (w.adjustParts x v) (NX (fun u => u.adjustParts x v) w t) :=
  (bl_adjustParts x v).eq w t

theorem bl_rewire (x : Nat) (ups : List Nat) : Blind (fun w => w.rewire x ups) := by
  intro w t
  bl_close [rewire]
@[c14w] theorem sw_rewire (w : World) (t : Twin) (x : Nat) (ups : List Nat) :
    (sw w t).rewire x ups = sw (w.rewire x ups) (NX (fun v => v.rewire x ups) w t) :=
  (bl_rewire x ups).eq w t

theorem bl_initDev (x : Nat) : Blind (fun w => w.initDev x) := by
  intro w t
  bl_close [initDev]
@[c14w] theorem sw_initDev (w : World) (t : Twin) (x : Nat) :
    (sw w t).initDev x = sw (w.initDev x) (NX (fun v => v.initDev x) w t) := (bl_initDev x).eq w t

end C14W
end SimProc
