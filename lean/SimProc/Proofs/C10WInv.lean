/-
C10W — the world's scan: `World.scanOps` satisfies `C10.Laws`; one served entry (`erase ∘ call`)
keeps the closed-world invariant; the pending-check invariant `Pend` through a complete check;
`exec`, `step`, `runBegin`, `simulateInit`.
-/
import SimProc.Proofs.C10WCWorld
import SimProc.Proofs.C10WScan
import SimProc.Proofs.C11WMono

namespace SimProc
namespace C10W
open World FloorCoreL C01W

/-! ### the interface laws -/

/-- **`World.scanOps` satisfies the interface laws of C10's generic scan theorems**, for every
world and every callback (unconditionally): a callback — the resource callback of a processor or a
script — only appends to the waiting list, and `pop(i)` removes exactly entry `i`. -/
theorem scanOps_laws : C10.Laws World.scanOps where
  call_appends := by
    intro w cb req
    cases cb with
    | script k => exact (U_runScript (w.addRes (.cb k)) k).wapp'
    | proc d => exact (U_procResourceCb w d).wapp'
  erase_spec := fun _ _ => rfl

/-! ### list facts about the processors in the waiting list -/

theorem split_at {α} (l : List α) (i : Nat) (e0 : α) (hi : l[i]? = some e0) :
    l = l.take i ++ e0 :: l.drop (i + 1) ∧ l.eraseIdx i = l.take i ++ l.drop (i + 1) := by
  obtain ⟨hlt, hget⟩ := List.getElem?_eq_some_iff.mp hi
  refine ⟨?_, List.eraseIdx_eq_take_drop_succ l i⟩
  rw [← hget, ← List.drop_eq_getElem_cons hlt, List.take_append_drop]

theorem filterMap_eraseIdx_none {l : List (Req × Cb)} {i : Nat} {e0 : Req × Cb}
    (hi : l[i]? = some e0) (h0 : procOf e0 = none) :
    (l.eraseIdx i).filterMap procOf = l.filterMap procOf := by
  obtain ⟨h1, h2⟩ := split_at l i e0 hi
  rw [h2]
  conv => rhs; rw [h1]
  simp [List.filterMap_append, h0]

theorem filterMap_eraseIdx_some {l : List (Req × Cb)} {i d : Nat} {e0 : Req × Cb}
    (hn : (l.filterMap procOf).Nodup) (hi : l[i]? = some e0) (h0 : procOf e0 = some d) :
    (∀ e ∈ l.eraseIdx i, procOf e ≠ some d) ∧
    (∀ y, y ≠ d → y ∈ l.filterMap procOf → y ∈ (l.eraseIdx i).filterMap procOf) := by
  obtain ⟨h1, h2⟩ := split_at l i e0 hi
  rw [h1, List.filterMap_append, List.filterMap_cons, h0] at hn
  have hn' := List.nodup_append.1 hn
  have hdA : d ∉ (l.take i).filterMap procOf := by
    intro hm
    exact hn'.2.2 d hm d (List.mem_cons_self) rfl
  have hdB : d ∉ (l.drop (i + 1)).filterMap procOf := (List.nodup_cons.1 hn'.2.1).1
  constructor
  · intro e he hpe
    rw [h2] at he
    rcases List.mem_append.1 he with he | he
    · exact hdA (List.mem_filterMap.2 ⟨e, he, hpe⟩)
    · exact hdB (List.mem_filterMap.2 ⟨e, he, hpe⟩)
  · intro y hy hm
    rw [h1, List.filterMap_append, List.filterMap_cons, h0] at hm
    rw [h2, List.filterMap_append]
    rcases List.mem_append.1 hm with hm | hm
    · exact List.mem_append_left _ hm
    · rcases List.mem_cons.1 hm with hm | hm
      · exact absurd hm hy
      · exact List.mem_append_right _ hm

/-! ### one served entry keeps `P` -/

theorem erase_KC (w : World) (i : Nat) :
    (scanOps.erase w i).scripts = w.scripts ∧ (scanOps.erase w i).devs = w.devs ∧
    (scanOps.erase w i).env = w.env ∧
    (scanOps.erase w i).rm = { w.rm with waiting := w.rm.waiting.eraseIdx i } :=
  ⟨rfl, rfl, rfl, rfl⟩

/-- Removing a script's entry. -/
theorem P_eraseScript (w : World) (i : Nat) (e0 : Req × Cb) (hp : P w)
    (hi : w.rm.waiting[i]? = some e0) (h0 : procOf e0 = none) : P (scanOps.erase w i) := by
  have hf : (scanOps.erase w i).rm.waiting.filterMap procOf = w.rm.waiting.filterMap procOf :=
    filterMap_eraseIdx_none hi h0
  refine ⟨hp.aid, hp.scr, ?_, ?_, ?_⟩
  · rw [hf]; exact hp.wait.nodup
  · intro e he d hd
    exact hp.wait.entry e ((List.eraseIdx_sublist _ _).subset he) d hd
  · intro d hd
    rw [hf]; exact hp.wait.flag d hd

theorem KC_notify (w : World) (x : Nat) : KC (w.notify x) = KC w := by
  have m := (C11W.monoS_notify w x).m0
  have h2 : (w.notify x).devs.map Dev.resA = w.devs.map Dev.resA := congrArg Prod.snd m.keepA
  have h3 := congrArg (List.map (fun a : Option Nat × Option Req × Bool × Kind × Int × Bool =>
    (a.2.2.2.2.1, a.2.2.1, a.2.1))) h2
  simp only [List.map_map] at h3
  unfold KC
  rw [m.rm, m.scr]
  exact congrArg (fun l => (w.rm, w.scripts, l)) h3

/-- What the resource callback of processor `d` does to what the invariant reads. -/
theorem procResourceCb_spec (w : World) (d : Nat) :
    (w.procResourceCb d).rm = w.rm ∧ (w.procResourceCb d).scripts = w.scripts ∧
    (w.procResourceCb d).devs.map (·.aid) = w.devs.map (·.aid) ∧
    (∀ y, y ≠ d → kd ((w.procResourceCb d).dev y) = kd (w.dev y)) ∧
    (d < w.devs.length → ((w.procResourceCb d).dev d).waitingRes = false) := by
  have hk := KC_notify (w.modDev d (fun x => { x with waitingRes := false })) d
  have e : w.procResourceCb d = (w.modDev d (fun x => { x with waitingRes := false })).notify d := rfl
  rw [e]
  refine ⟨(KC_rm hk).trans rfl, (KC_scr hk).trans rfl, ?_, ?_, ?_⟩
  · rw [aids_of_map (KC_devs hk)]
    unfold World.modDev World.setDev
    exact map_set_of_eq Dev.aid w.devs d _ default rfl
  · intro y hy
    rw [KC_kd hk y, dev_modDev, if_neg (fun h => hy h.1.symm)]
  · intro hd
    rw [kd_waitingRes (KC_kd hk d), dev_modDev, if_pos ⟨rfl, hd⟩]

/-- Calling back processor `d` (entry `i`) and removing its entry. -/
theorem P_serveProc (w : World) (i d : Nat) (req : Req) (hp : P w)
    (hi : w.rm.waiting[i]? = some (req, .proc d)) :
    P (scanOps.erase (w.procResourceCb d) i) := by
  obtain ⟨hrm, hscr, haid, hoth, hflag⟩ := procResourceCb_spec w d
  have hmem : (req, Cb.proc d) ∈ w.rm.waiting := List.mem_of_getElem? hi
  obtain ⟨hfl, hrq⟩ := hp.wait.entry _ hmem d rfl
  have hd : d < w.devs.length := lt_of_resReq hrq
  obtain ⟨hne, hin⟩ := filterMap_eraseIdx_some hp.wait.nodup hi (show procOf (req, Cb.proc d) = some d from rfl)
  have hw : (scanOps.erase (w.procResourceCb d) i).rm.waiting = w.rm.waiting.eraseIdx i := by
    show (w.procResourceCb d).rm.waiting.eraseIdx i = _
    rw [hrm]
  have hdev : ∀ y, (scanOps.erase (w.procResourceCb d) i).dev y = (w.procResourceCb d).dev y :=
    fun _ => rfl
  refine ⟨?_, ?_, ?_, ?_, ?_⟩
  · unfold AidOK
    show ∀ a ∈ (w.procResourceCb d).devs.map (·.aid), _
    rw [haid]; exact hp.aid
  · unfold ScriptsC
    show ∀ l ∈ (w.procResourceCb d).scripts, _
    rw [hscr]; exact hp.scr
  · rw [hw]
    exact ((List.eraseIdx_sublist _ _).filterMap procOf).nodup hp.wait.nodup
  · intro e he y hy
    rw [hw] at he
    have hyd : y ≠ d := fun h => hne e he (h ▸ hy)
    obtain ⟨h1, h2⟩ := hp.wait.entry e ((List.eraseIdx_sublist _ _).subset he) y hy
    rw [hdev y]
    have := hoth y hyd
    exact ⟨(kd_waitingRes this).trans h1, (kd_resReq this).trans h2⟩
  · intro y hy
    rw [hdev y] at hy
    have hyd : y ≠ d := by
      intro h; subst h
      rw [hflag hd] at hy; cases hy
    rw [kd_waitingRes (hoth y hyd)] at hy
    rw [hw]
    exact hin y hyd (hp.wait.flag y hy)

theorem P_addRes {w : World} (hp : P w) (r : Res) : P (w.addRes r) := hp.of_KC rfl

/-- Calling back script `k` (entry `i`) and removing its entry. -/
theorem P_serveScript (w : World) (i k : Nat) (req : Req) (hp : P w)
    (hi : w.rm.waiting[i]? = some (req, .script k)) :
    P (scanOps.erase ((w.addRes (.cb k)).runScript k) i) := by
  have h1 : P ((w.addRes (.cb k)).runScript k) := (C_runScript _ k (P_addRes hp _)).1
  obtain ⟨l, hl⟩ := (U_runScript (w.addRes (.cb k)) k).wapp'
  refine P_eraseScript _ i (req, .script k) h1 ?_ rfl
  rw [hl]
  obtain ⟨hlt, _⟩ := List.getElem?_eq_some_iff.mp hi
  rw [List.getElem?_append_left (show i < (w.addRes (.cb k)).rm.waiting.length from hlt)]
  exact hi

theorem P_serve (w : World) (i : Nat) (req : Req) (cb : Cb) (hp : P w)
    (hi : w.rm.waiting[i]? = some (req, cb)) :
    P (scanOps.erase (scanOps.call w cb req) i) := by
  cases cb with
  | script k => exact P_serveScript w i k req hp hi
  | proc d => exact P_serveProc w i d req hp hi

/-- **The check keeps the invariant `P`** (with any fuel, from any index). -/
theorem P_scan (f : Nat) (w : World) (i : Nat) (hp : P w) : P (scanWaiting scanOps f w i) :=
  scan_induct scanOps P (fun w i req cb h hw _ => P_serve w i req cb h hw) f w i hp

/-! ### what one callback does to the queue and the pools -/

theorem call_post (w : World) (cb : Cb) (req : Req) (hp : P w) :
    Post w (scanOps.call w cb req) := by
  cases cb with
  | script k =>
    have := (C_runScript _ k (P_addRes hp (.cb k))).2
    exact ⟨this.ref, this.ini, this.pend⟩
  | proc d =>
    have hrm := (procResourceCb_spec w d).1
    refine ⟨(Via_procResourceCb w d hp.good).2, fun h => by
      show (w.procResourceCb d).rm.inited = true
      rw [hrm]; exact h, fun _ => Or.inr ⟨?_, ?_⟩⟩
    · show (w.procResourceCb d).rm.waiting = _
      rw [hrm]
    · show C10.PoolLe (w.procResourceCb d).rm w.rm
      rw [hrm]; exact C10.PoolLe.refl _

/-! ### the invariants -/

/-- A feasible waiting request has a live availability check queued for the current instant. -/
def Pend (w : World) : Prop := C10.feasibleWaiting w.rm → ChkNow w

/-- The invariant without `Pend`. -/
structure Inv0 (w : World) : Prop where
  p : P w
  ini : w.rm.inited = true
  q : C01.Inv w.env

/-- **The closed-world invariant of C10W.** -/
structure Inv (w : World) : Prop where
  i0 : Inv0 w
  pend : Pend w

theorem Inv0.step_C {w w' : World} (h : Inv0 w) (c : C w w') : Inv0 w' :=
  ⟨(c h.p).1, (c h.p).2.ini h.ini, (c h.p).2.ref.inv h.q⟩

theorem Pend.step_C {w w' : World} (h : Pend w) (hp : P w) (hi : w.rm.inited = true)
    (c : C w w') : Pend w' := by
  intro ⟨e, he, hc⟩
  rcases (c hp).2.pend hi with hq | ⟨hs, hle⟩
  · exact hq
  · rw [hs] at he
    exact (h ⟨e, he, C10.canFulfill_mono hle _ hc⟩).refines (c hp).2.ref

theorem Inv.step_C {w w' : World} (h : Inv w) (c : C w w') : Inv w' :=
  ⟨h.i0.step_C c, h.pend.step_C h.i0.p h.i0.ini c⟩

theorem Inv0.serve {w : World} (h : Inv0 w) (i : Nat) (req : Req) (cb : Cb)
    (hi : w.rm.waiting[i]? = some (req, cb)) :
    Inv0 (scanOps.erase (scanOps.call w cb req) i) := by
  have hq := call_post w cb req h.p
  exact ⟨P_serve w i req cb h.p hi, hq.ini h.ini, hq.ref.inv h.q⟩

theorem Inv0.scan {w : World} (h : Inv0 w) (f i : Nat) : Inv0 (scanWaiting scanOps f w i) :=
  scan_induct scanOps Inv0 (fun _ i req cb h hw _ => h.serve i req cb hw) f w i h

/-! ### the pending-check invariant through a check -/

/-- Scan invariant: a check is queued, or everything the scan has passed is infeasible. -/
def SI (w : World) (i : Nat) : Prop :=
  ChkNow w ∨ ∀ j e, j < i → w.rm.waiting[j]? = some e → w.rm.canFulfill e.1 = false

theorem SI.serve {w : World} {i : Nat} (h : SI w i) (h0 : Inv0 w) (req : Req) (cb : Cb) :
    SI (scanOps.erase (scanOps.call w cb req) i) i := by
  have hq := call_post w cb req h0.p
  have henv : (scanOps.erase (scanOps.call w cb req) i).env = (scanOps.call w cb req).env := rfl
  rcases hq.pend h0.ini with hc | ⟨hs, hle⟩
  · exact Or.inl (hc.of_env henv)
  · rcases h with h | h
    · exact Or.inl ((h.refines hq.ref).of_env henv)
    · right
      intro j e hj he
      have hw : (scanOps.erase (scanOps.call w cb req) i).rm.waiting =
          w.rm.waiting.eraseIdx i := by
        show (scanOps.call w cb req).rm.waiting.eraseIdx i = _
        rw [hs]
      rw [hw, List.getElem?_eraseIdx, if_pos hj] at he
      have h1 := h j e hj he
      cases hc : (scanOps.erase (scanOps.call w cb req) i).rm.canFulfill e.1 with
      | false => rfl
      | true =>
        have hc' : (scanOps.call w cb req).rm.canFulfill e.1 = true := by
          rw [← hc]
          exact C10.canFulfill_pools _ _ rfl _
        rw [C10.canFulfill_mono hle _ hc'] at h1; cases h1

/-- **A check that reaches the end of the waiting list re-establishes `Pend`.** -/
theorem pend_scan (f : Nat) (w : World) (i : Nat) (h0 : Inv0 w) (hs : SI w i)
    (hd : C10.scanDone scanOps f w i = true) : Pend (scanWaiting scanOps f w i) := by
  induction f generalizing w i with
  | zero => simp [C10.scanDone] at hd
  | succ f ih =>
    cases hw : w.rm.waiting[i]? with
    | none =>
      have hw' : (scanOps.rm w).waiting[i]? = none := hw
      simp only [scanWaiting, hw']
      intro ⟨e, he, hc⟩
      rcases hs with hs | hs
      · exact hs
      · obtain ⟨j, hj⟩ := List.mem_iff_getElem?.mp he
        have : w.rm.waiting.length ≤ i := List.getElem?_eq_none_iff.mp hw
        have hj' : j < w.rm.waiting.length := (List.getElem?_eq_some_iff.mp hj).1
        rw [hs j e (by omega) hj] at hc; cases hc
    | some e =>
      obtain ⟨req, cb⟩ := e
      have hw' : (scanOps.rm w).waiting[i]? = some (req, cb) := hw
      by_cases hc : w.rm.canFulfill req = true
      · have hc' : (scanOps.rm w).canFulfill req = true := hc
        simp only [scanWaiting, C10.scanDone, hw', hc', if_true] at hd ⊢
        exact ih _ _ (h0.serve i req cb hw) (hs.serve h0 req cb) hd
      · have hc' : ¬ (scanOps.rm w).canFulfill req = true := hc
        simp only [scanWaiting, C10.scanDone, hw', hc'] at hd ⊢
        refine ih _ _ h0 ?_ hd
        rcases hs with hs | hs
        · exact Or.inl hs
        · right
          intro j e hj he
          by_cases hji : j = i
          · subst hji
            rw [hw] at he; cases he
            simpa using hc
          · exact hs j e (by omega) he

/-! ### events -/

/-- The check executed by the next step (if it is a live check event) reaches the end of the
waiting list with the model's fuel (the Python loop has no bound). -/
def StepDone (w : World) : Prop :=
  match w.env.step with
  | none => True
  | some (e, env') => e.live = true → Action.ofNat e.act = .rmCheck →
    C10.scanDone scanOps 10000 ({ w with env := env' } : World) 0 = true

instance (w : World) : Decidable (StepDone w) := by
  unfold StepDone
  split <;> infer_instance

theorem StepDone.spec {w : World} (h : StepDone w) {e : Event} {env' : Env}
    (hs : w.env.step = some (e, env')) (hl : e.live = true)
    (ha : Action.ofNat e.act = .rmCheck) :
    C10.scanDone scanOps 10000 ({ w with env := env' } : World) 0 = true := by
  unfold StepDone at h
  rw [hs] at h
  exact h hl ha

theorem Inv0.exec {w : World} (h : Inv0 w) (a : Action) : Inv0 (w.exec a) := by
  by_cases ha : a = .rmCheck
  · subst ha; exact h.scan 10000 0
  · exact h.step_C (C_exec w a ha)

/-- Taking the next event from the queue. -/
theorem Inv0.pop {w : World} (h : Inv0 w) {e : Event} {env' : Env}
    (hst : w.env.step = some (e, env')) : Inv0 ({ w with env := env' } : World) :=
  ⟨h.p.of_KC rfl, h.ini, C01.inv_step h.q hst⟩

theorem Inv0.step {w w' : World} {e : Event} (h : Inv0 w) (hst : w.step = some (e, w')) :
    Inv0 w' := by
  obtain ⟨env1, hs1, _, hdead, hlive⟩ := step_via hst
  cases hl : e.live with
  | true => rw [hlive hl]; exact (h.pop hs1).exec _
  | false => rw [hdead hl]; exact h.pop hs1

/-- After the pop: the check was the event taken, or `Pend` still holds. -/
theorem Pend.pop {w : World} (h : Inv w) {e : Event} {env' : Env}
    (hst : w.env.step = some (e, env')) :
    (e.cancelled = false ∧ Action.ofNat e.act = .rmCheck) ∨
      Pend ({ w with env := env' } : World) := by
  obtain ⟨es, hes, henv'⟩ := Env.step_some.1 hst
  have hehd : e ∈ w.env.events := by rw [hes]; exact List.mem_cons_self ..
  by_cases hf : C10.feasibleWaiting w.rm
  · obtain ⟨ew, hew, h1, h2, h3, h4, h5⟩ := h.pend hf
    have ht : e.time = w.now := by
      have hle := C01.step_min_time h.i0.q hst ew hew
      have hge := h.i0.q.future e hehd
      unfold World.now at h2 ⊢
      omega
    rw [hes] at hew
    rcases List.mem_cons.1 hew with rfl | hew
    · left
      refine ⟨h5, ?_⟩
      rw [h1]; exact C11W.ofNat_rmCheck
    · right
      intro _
      refine ⟨ew, ?_, h1, ?_, h3, h4, h5⟩
      · show ew ∈ env'.events
        rw [henv']; exact hew
      · show ew.time = env'.now
        rw [henv']; exact h2.trans ht.symm
  · exact Or.inr (fun hf' => absurd hf' hf)

/-- **Every event whose check (if it is one) completes preserves the invariant.** -/
theorem Inv.step {w w' : World} {e : Event} (h : Inv w) (hst : w.step = some (e, w'))
    (hdone : StepDone w) : Inv w' := by
  refine ⟨h.i0.step hst, ?_⟩
  obtain ⟨env1, hs1, _, hdead, hlive⟩ := step_via hst
  have h0 := h.i0.pop hs1
  cases hl : e.live with
  | true =>
    rw [hlive hl]
    by_cases ha : Action.ofNat e.act = .rmCheck
    · rw [ha]
      exact pend_scan 10000 _ 0 h0 (Or.inr (fun j _ hj => absurd hj (Nat.not_lt_zero j)))
        (hdone.spec hs1 hl ha)
    · rcases Pend.pop h hs1 with ⟨_, h2⟩ | h2
      · exact absurd h2 ha
      · exact h2.step_C h0.p h0.ini (C_exec _ _ ha)
  | false =>
    rw [hdead hl]
    rcases Pend.pop h hs1 with ⟨h1, _⟩ | h2
    · unfold Event.live at hl
      rw [h1] at hl; cases hl
    · exact h2

/-! ### `runBegin` -/

theorem KC_runBegin (w : World) (d : Int) : KC (w.runBegin d).1 = KC w := by
  unfold World.runBegin
  dsimp only
  split <;> rfl

theorem Inv0.runBegin {w : World} (h : Inv0 w) (d : Int) : Inv0 (w.runBegin d).1 := by
  refine ⟨h.p.of_KC (KC_runBegin w d), by rw [KC_rm (KC_runBegin w d)]; exact h.ini, ?_⟩
  rw [(runBegin_env w d).1]
  exact C01.inv_apply Arith.exact _ h.q

theorem Pend.runBegin {w : World} (h : Pend w) (d : Int) : Pend (w.runBegin d).1 := by
  intro hf
  rw [KC_rm (KC_runBegin w d)] at hf
  obtain ⟨e, he, hr⟩ := h hf
  unfold World.runBegin
  dsimp only
  split
  · exact ⟨e, he, hr⟩
  · rename_i env' henv
    unfold Env.runBegin at henv
    obtain ⟨_, rfl⟩ := Env.schedule_some.1 henv
    exact ⟨e, insort_mem.2 (Or.inr he), hr⟩

theorem Inv.runBegin {w : World} (h : Inv w) (d : Int) : Inv (w.runBegin d).1 :=
  ⟨h.i0.runBegin d, h.pend.runBegin d⟩

/-! ### fresh worlds and initialisation -/

/-- **Fresh worlds**: not yet started; no processor waits for resources (no processor entry in
the waiting list — script requests registered before the simulation starts are allowed —, no
`waitingRes` flag set); the queue invariant. -/
def Fresh (w : World) : Prop :=
  w.started = false ∧ (∀ e ∈ w.rm.waiting, procOf e = none) ∧
  (∀ d ∈ w.devs, d.waitingRes = false) ∧ C01.Inv w.env

/-- **The static class**: device asset ids ≥ 1, scripts as in `opC`. -/
def Cls (w : World) : Prop := AidOK w ∧ ScriptsC w

instance (w : World) : Decidable (Cls w) := by unfold Cls; infer_instance

theorem P_fresh {w : World} (hc : Cls w) (hf : Fresh w) : P w := by
  obtain ⟨_, hw, hd, _⟩ := hf
  have hnil : w.rm.waiting.filterMap procOf = [] := List.filterMap_eq_nil_iff.2 hw
  have hfl : ∀ d, (w.dev d).waitingRes = false := by
    intro d
    by_cases hlt : d < w.devs.length
    · exact hd _ (C11W.mem_devs_of_lt hlt)
    · rw [dev_of_length_le (Nat.not_lt.1 hlt)]; rfl
  refine ⟨hc.1, hc.2, by rw [hnil]; exact List.nodup_nil, ?_, ?_⟩
  · intro e he d hd'
    rw [hw e he] at hd'; cases hd'
  · intro d hd'
    rw [hfl d] at hd'; cases hd'

/-- **`System.simulate`'s initialisation establishes the invariant.** -/
theorem inv_simulateInit {w : World} (hc : Cls w) (hf : Fresh w) : Inv w.simulateInit := by
  have hp := P_fresh hc hf
  have hst : w.started = false := hf.1
  -- the first half: initialise the manager
  have key : ∀ (rm : RM) (recs : List ResRec) (chk : Bool), w.rm.init = (rm, recs, chk) →
      Inv (({ w with rm := rm } : World).rmEffects recs chk) := by
    intro rm recs chk hr
    have hrm : rm = { w.rm with inited := true } := by
      have : rm = w.rm.init.1 := by rw [hr]
      exact this
    have hchk : chk = !w.rm.waiting.isEmpty := by
      have : chk = w.rm.init.2.2 := by rw [hr]
      exact this
    have hR : RmC w.rm rm chk := by
      refine ⟨⟨[], by rw [hrm]; simp, by simp⟩, fun _ => by rw [hrm], fun _ => Or.inr ⟨?_, ?_⟩⟩
      · rw [hrm]
      · rw [hrm]; exact C10.PoolLe.of_pools rfl
    have hC := C_rmStep w rm recs chk hR hp
    have hk := KC_rmEffects ({ w with rm := rm } : World) recs chk
    have hr' : (({ w with rm := rm } : World).rmEffects recs chk).rm = rm :=
      KC_rm (w := ({ w with rm := rm } : World)) hk
    refine ⟨⟨hC.1, by rw [hr', hrm], hC.2.ref.inv hf.2.2.2⟩, ?_⟩
    intro ⟨e, he, _⟩
    rw [hr', hrm] at he
    have hne : w.rm.waiting.isEmpty = false := by
      cases hw : w.rm.waiting with
      | nil => rw [hw] at he; cases he
      | cons a t => rfl
    have : chk = true := by rw [hchk, hne]; rfl
    subst this
    exact chkNow_rmEffects _ _
  unfold simulateInit
  rw [if_neg (by rw [hst]; decide)]
  rcases hr : w.rm.init with ⟨rm, recs, chk⟩
  have h1 := key rm recs chk hr
  dsimp only
  generalize ({ w with rm := rm } : World).rmEffects recs chk = W1 at h1
  have h2 : Inv (W1.assets.foldl (fun w a => w.initAsset a) W1) :=
    h1.step_C (C.foldl _ _ _ (fun w a => C_initAsset w a))
  exact h2.step_C (C.of_KK rfl)

/-! ### the event loop -/

theorem Inv0.runLoop (n : Nat) : ∀ {w : World}, Inv0 w → Inv0 (World.runLoop n w) := by
  induction n with
  | zero => intro w h; exact h.step_C (C.of_KK (KK_setErr _ _))
  | succ n ih =>
    intro w h
    unfold World.runLoop
    split
    · split
      · exact h
      · rename_i e w' hst
        exact ih (h.step hst)
    · exact h

/-- Every check executed by `runLoop n w` reaches the end of the waiting list. -/
def RunDone : Nat → World → Prop
  | 0, _ => True
  | n + 1, w =>
    w.env.running = true →
      match w.step with
      | none => True
      | some (_, w') => StepDone w ∧ RunDone n w'

instance : (n : Nat) → (w : World) → Decidable (RunDone n w)
  | 0, _ => isTrue trivial
  | n + 1, w => by
    unfold RunDone
    have : ∀ w', Decidable (RunDone n w') := fun w' => instDecidableRunDone n w'
    cases w.step with
    | none => infer_instance
    | some q => obtain ⟨e, w'⟩ := q; infer_instance

theorem Inv.runLoop (n : Nat) : ∀ {w : World}, Inv w → RunDone n w → Inv (World.runLoop n w) := by
  induction n with
  | zero => intro w h _; exact h.step_C (C.of_KK (KK_setErr _ _))
  | succ n ih =>
    intro w h hd
    unfold World.runLoop
    split
    · rename_i hrun
      have hd' := hd hrun
      split
      · exact h
      · rename_i e w' hst
        rw [hst] at hd'
        exact ih (h.step hst hd'.1) hd'.2
    · exact h

end C10W
end SimProc
