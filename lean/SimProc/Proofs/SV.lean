/-
Slot view of a world (C02): what the conservation invariant depends on, the invariant on the
slot view, and the abstract moves of one device.
-/
import SimProc.Model.WorldDef
namespace SimProc
namespace C02V

/-- The slots of a device. -/
structure SDev where
  kind : Kind
  part : Option Nat
  output : Option Nat
  buf : List Nat
  inprog : Option Nat

def SDev.held (d : SDev) : List Nat := d.part.toList ++ d.output.toList ++ d.buf ++ d.inprog.toList

/-- Slot view: device slots, the `kids` column of the part table, the ghost logs. -/
structure SV where
  devs : List SDev
  kids : List (Option (List Nat))
  gen : List Nat
  del : List Nat
  lost : List Nat

namespace SV

def leaves (a : SV) (p : Nat) : List Nat :=
  match a.kids.getD p none with
  | some l => l
  | none => [p]

def inside (a : SV) : List Nat :=
  (a.devs.filter (fun d => d.kind != .sink)).flatMap (fun d => d.held.flatMap a.leaves)

def mass (a : SV) : List Nat := a.inside ++ a.del ++ a.lost

def setDev (a : SV) (z : Nat) (d : SDev) : SV := { a with devs := a.devs.set z d }

end SV

/-- Mirror of `C02.Cons` on the slot view. -/
structure ConsV (a : SV) : Prop where
  perm : a.mass.Perm a.gen
  nodup : a.gen.Nodup
  topNodup : (a.devs.flatMap SDev.held).Nodup
  heldValid : ∀ d ∈ a.devs, ∀ p ∈ d.held, p < a.kids.length
  kidsLeaf : ∀ (p : Nat) (l : List Nat), a.kids[p]? = some (some l) → ∀ k ∈ l, a.kids[k]? = some none
  genValid : ∀ p ∈ a.gen, a.kids[p]? = some none

/-- The strengthening needed to make the invariant inductive. -/
structure ExtraV (a : SV) : Prop where
  /-- the batch under construction of a batcher is a batch -/
  inprogBatch : ∀ d ∈ a.devs, ∀ b, d.inprog = some b → ∃ l, a.kids[b]? = some (some l)
  /-- what a sink holds has been counted as delivered -/
  sinkDel : ∀ d ∈ a.devs, d.kind = .sink → ∀ p ∈ d.held, ∀ l ∈ a.leaves p, l ∈ a.del

def Inv (a : SV) : Prop := ConsV a ∧ ExtraV a

/-- A source generates a part (a leaf, or a batch of `n` leaves) into its empty output slot. -/
inductive Gen (z : Nat) : SV → SV → Prop
  | leaf (a : SV) (d : SDev) : a.devs[z]? = some d → d.kind ≠ .sink → d.output = none →
      Gen z a { a with devs := a.devs.set z { d with output := some a.kids.length }
                       kids := a.kids ++ [none]
                       gen := a.gen ++ [a.kids.length] }
  | batch (a : SV) (d : SDev) (n : Nat) : a.devs[z]? = some d → d.kind ≠ .sink → d.output = none →
      Gen z a { a with devs := a.devs.set z { d with output := some (a.kids.length + n) }
                       kids := a.kids ++ List.replicate n none ++ [some (List.range' a.kids.length n)]
                       gen := a.gen ++ List.range' a.kids.length n }

/-- `kids` after appending `t` to the batch `b`. -/
def addKid (kids : List (Option (List Nat))) (b t : Nat) : List (Option (List Nat)) :=
  kids.set b (some ((kids.getD b none).getD [] ++ [t]))

/-- The internal moves of device `z`. -/
inductive Move (z : Nat) : SV → SV → Prop
  /-- rearrange the slots; parts may be dropped by a sink, or if they have no leaves -/
  | rearr (a : SV) (d d' : SDev) (r : List Nat) : a.devs[z]? = some d → d'.kind = d.kind →
      d.held.Perm (r ++ d'.held) → (d.kind = .sink ∨ ∀ q ∈ r, a.leaves q = []) →
      (∀ b, d'.inprog = some b → d.inprog = some b) → Move z a (a.setDev z d')
  | gen (a a' : SV) : Gen z a a' → Move z a a'
  /-- a batcher starts a new batch -/
  | shell (a : SV) (d : SDev) : a.devs[z]? = some d → d.inprog = none →
      Move z a { a with devs := a.devs.set z { d with inprog := some a.kids.length }
                        kids := a.kids ++ [some []] }
  /-- a batcher takes the first part out of its input batch and puts it into its output slot -/
  | kidOut (a : SV) (d : SDev) (p k : Nat) (rest : List Nat) : a.devs[z]? = some d → d.kind ≠ .sink →
      d.part = some p → d.output = none → a.kids[p]? = some (some (k :: rest)) →
      Move z a { a with devs := a.devs.set z { d with part := if rest.isEmpty then none else some p
                                                      output := some k }
                        kids := a.kids.set p (some rest) }
  /-- … or into the batch under construction -/
  | kidIn (a : SV) (d : SDev) (p k : Nat) (rest : List Nat) (b : Nat) : a.devs[z]? = some d →
      d.kind ≠ .sink → d.part = some p → d.inprog = some b → a.kids[p]? = some (some (k :: rest)) →
      Move z a { a with devs := a.devs.set z { d with part := if rest.isEmpty then none else some p }
                        kids := addKid (a.kids.set p (some rest)) b k }
  /-- a batcher moves a single input part into the batch under construction -/
  | leafIn (a : SV) (d : SDev) (p b : Nat) : a.devs[z]? = some d → d.kind ≠ .sink →
      d.part = some p → d.inprog = some b → a.kids.getD p none = none →
      Move z a { a with devs := a.devs.set z { d with part := none }
                        kids := addKid a.kids b p }

inductive Steps (z : Nat) : SV → SV → Prop
  | refl (a : SV) : Steps z a a
  | tail (a b c : SV) : Steps z a b → Move z b c → Steps z a c

/-- Device `z` takes the part `p` into its input slot (a sink counts it as delivered). -/
def accept (a : SV) (z p : Nat) (d : SDev) : SV :=
  { a with devs := a.devs.set z { d with part := some p }
           del := if d.kind = .sink then a.del ++ a.leaves p else a.del }

/-- Replace the slots of device `x` (used to take the giver's copy out of the picture). -/
def mask (a : SV) (x : Nat) (s : SDev) : SV := a.setDev x s

end C02V
end SimProc
