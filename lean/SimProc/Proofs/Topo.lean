/-
Which handler-like devices a `give` starting at a device can reach (over-approximation on the
static view), and `sortedDown`.
-/
import SimProc.Proofs.Views
namespace SimProc
namespace C02V
open World

namespace ST
def tdflt : TDev := tdev default
def kind (t : ST) (x : Nat) : Kind := (t.devs.getD x tdflt).kind
def down (t : ST) (x : Nat) : List Nat := (t.devs.getD x tdflt).down
def group (t : ST) (x : Nat) : Nat := (t.devs.getD x tdflt).group
end ST

theorem st_get (w : World) (x : Nat) : (st w).devs.getD x ST.tdflt = tdev (w.dev x) := by
  simp only [st, World.dev, List.getD_eq_getElem?_getD, List.getElem?_map, ST.tdflt]
  cases w.devs[x]? <;> rfl

theorem st_kind (w : World) (x : Nat) : (st w).kind x = (w.dev x).kind := by
  unfold ST.kind; rw [st_get]; rfl
theorem st_down (w : World) (x : Nat) : (st w).down x = (w.dev x).down := by
  unfold ST.down; rw [st_get]; rfl
theorem st_group (w : World) (x : Nat) : (st w).group x = (w.dev x).group := by
  unfold ST.group; rw [st_get]; rfl
theorem st_gin (w : World) (g : Nat) : (st w).gin.getD g 0 = (w.groups.getD g default).input := by
  simp only [st, List.getD_eq_getElem?_getD, List.getElem?_map]
  cases w.groups[g]? <;> rfl

/-- `Reach t y z`: a `give` to device `y` may end up offering the part to the handler-like device `z`. -/
inductive Reach (t : ST) : Nat → Nat → Prop
  | self (y : Nat) : isHandlerLike (t.kind y) = true → Reach t y y
  | gate (y z u : Nat) : (t.kind y = .gate ∨ t.kind y = .ginput) → z ∈ t.down y → Reach t z u → Reach t y u
  | gpath (y u : Nat) : t.kind y = .gpath → Reach t (t.gin.getD (t.group y) 0) u → Reach t y u
  | goutput (y g z u : Nat) : t.kind y = .goutput → z ∈ t.down g → Reach t z u → Reach t y u

/-! ### `sortedDown` is a rearrangement of `down` -/

theorem mem_insertByKey (key : Nat → Option Int) (x y : Nat) (l : List Nat) :
    y ∈ insertByKey key x l ↔ y = x ∨ y ∈ l := by
  induction l with
  | nil => simp [insertByKey]
  | cons a l ih =>
    unfold insertByKey
    split
    · simp [ih]; constructor
      · rintro (h | h | h) <;> simp [h]
      · rintro (h | h | h) <;> simp [h]
    · simp

theorem mem_stableSort (key : Nat → Option Int) (l : List Nat) (y : Nat) : y ∈ stableSort key l ↔ y ∈ l := by
  unfold stableSort
  have : ∀ (acc : List Nat), y ∈ l.foldl (fun acc x => insertByKey key x acc) acc ↔ y ∈ l ∨ y ∈ acc := by
    induction l with
    | nil => intro acc; simp
    | cons a l ih =>
      intro acc
      simp only [List.foldl_cons, ih, mem_insertByKey, List.mem_cons]
      constructor
      · rintro (h | h | h) <;> simp [h]
      · rintro ((h | h) | h) <;> simp [h]
  simpa using this []

theorem mem_sortedDown (w : World) (x y : Nat) : y ∈ w.sortedDown x ↔ y ∈ (w.dev x).down := by
  unfold World.sortedDown; exact mem_stableSort _ _ _

end C02V
end SimProc
