/-
C09W — `R w (f w)` for every function of `Model/World.lean`: well-formed scripted operations,
constructors, maintainer / scheduler / sensor events, `exec` of every action (the availability
check through `scan_induct`), `simulateInit`, `step`, `runBegin`, `runLoop`.
-/
import SimProc.Proofs.C09WFloor

namespace SimProc
namespace C09W
open World FloorCoreL

@[simp] theorem KR_modMaint (w : World) (m : Nat) (f : Maint → Maint) :
    KR (w.modMaint m f) = KR w := rfl
@[simp] theorem KR_setVar (w : World) (h : Nat) (v : Option Nat) : KR (w.setVar h v) = KR w := rfl

macro_rules | `(tactic| r_step) => `(tactic| with_reducible apply R.trans_KR (h := KR_modMaint _ _ _))
macro_rules | `(tactic| r_step) => `(tactic| with_reducible apply R.trans_KR (h := KR_setVar _ _ _))

theorem R_startOrders (w : World) (m : Nat) (st : List Order) : R w (w.startOrders m st) := by
  unfold startOrders
  r_auto

macro_rules | `(tactic| r_step) => `(tactic| with_reducible apply R.trans (h2 := R_startOrders _ _ _))

theorem R_schedUpdate (w : World) (s : Nat) (advance : Bool) :
    R w (w.schedUpdate s advance) := by
  unfold schedUpdate
  dsimp only
  r_auto

macro_rules | `(tactic| r_step) => `(tactic| with_reducible apply R.trans (h2 := R_schedUpdate _ _ _))

theorem R_initAsset (w : World) (a : AssetRef) : R w (w.initAsset a) := by
  unfold initAsset
  split <;> (try dsimp only) <;> r_auto

macro_rules | `(tactic| r_step) => `(tactic| with_reducible apply R.trans (h2 := R_initAsset _ _))

/-! ### constructors -/

/-- Registering a new device whose declared request is a dictionary. -/
theorem R_appendDev (w : World) (d : Dev) (as : List AssetRef) (hd : reqOK d.resReq) :
    R w ({ w with devs := w.devs ++ [d], assets := as } : World) := by
  intro hq
  refine ⟨hq.inv, hq.scr, ?_⟩
  intro x hx
  have : x ∈ w.devs ++ [d] := hx
  rcases List.mem_append.1 this with h | h
  · exact hq.dev x h
  · have : x = d := by simpa using h
    subst this; exact hd

theorem R_addDev (w : World) (d : Dev) (hd : reqOK d.resReq) : R w (w.addDev d) := by
  unfold addDev
  extract_lets i d' ups w1 w2 gr w3
  have h1 : R w w1 := R_appendDev w _ _ hd
  have h2 : R w1 w2 := R_rewire _ _ _
  have h3 : R w2 w3 := by
    show R w2 (if _ then _ else _)
    split
    · exact R.of_KR rfl
    · exact R.refl _
  have h4 : R w3 (if w3.started = true then w3.initAsset (AssetRef.dev i) else w3) := by
    split
    · exact R_initAsset _ _
    · exact R.refl _
  exact (h1.trans h2).trans (h3.trans h4)

macro_rules | `(tactic| r_step) => `(tactic|
  ((with_reducible apply R.trans (h2 := R_addDev _ _ ?hd)); case hd => first | (intro _ h; cases h) | assumption))

theorem R_addAsset (w : World) (spec : AssetSpec) (h : specWF spec) :
    R w (w.addAsset spec) := by
  cases spec with
  | dev d => exact R_addDev w d h
  | group gid devs ins outs =>
    simp only [addAsset]
    r_auto
  | maint cap v =>
    simp only [addAsset]
    r_auto
  | sched tt cyc =>
    simp only [addAsset]
    r_auto
  | sensor sw =>
    simp only [addAsset]
    r_auto
  | cms =>
    simp only [addAsset]
    r_auto

/-! ### scripted operations -/

macro "r_ops" : tactic => `(tactic| repeat' first | r_step | split | dsimp only)

/-- **Every well-formed operation keeps the invariant** (no condition on the event-queue side:
`opC` is not needed here). -/
theorem R_applyOp (w : World) (op : Op) (hop : opWF op) : R w (w.applyOp op).1 := by
  cases op with
  | sched t a k p => exact R.of_KR (KR_sched _ _ _ _ _)
  | schedRel dt a k p => exact R.of_KR (KR_sched _ _ _ _ _)
  | pause a => exact R.of_KR rfl
  | unpause a => exact R.of_KR rfl
  | cancel a => exact R.of_KR rfl
  | addRes r amt =>
    have h : C09.Inv w.rm → C09.Inv (w.rm.add r amt).1 := fun hi => C09.inv_add hi r amt
    simp only [applyOp]
    rcases hr : w.rm.add r amt with ⟨rm, res, recs, chk⟩
    rw [hr] at h
    dsimp only at h ⊢
    exact R_rmStep w rm recs chk h
  | reserve hd req =>
    have h : C09.Inv w.rm → C09.Inv (w.rm.reserve req).1 := fun hi => C09.inv_reserve hi req hop
    simp only [applyOp]
    rcases hr : w.rm.reserve req with ⟨rm, res, id, recs⟩
    rw [hr] at h
    dsimp only at h ⊢
    split
    · exact R.refl _
    · r_step
      exact R_rmStep w rm recs false h
  | release hd part =>
    simp only [applyOp]
    cases w.getVar hd with
    | none => exact R.refl _
    | some id =>
      dsimp only
      refine R_rmStep w _ _ _ (fun hi => C09.inv_release hi id part ?_)
      intro rel hp; subst hp; exact hop
  | merge h1 h2 =>
    simp only [applyOp]
    cases w.getVar h1 with
    | none => exact R.refl _
    | some a =>
      cases w.getVar h2 with
      | none => exact R.refl _
      | some b =>
        dsimp only
        exact R_rmSet w _ (fun hi => C09.inv_merge hi a b)
  | register k req =>
    simp only [applyOp]
    exact R_rmStep w _ _ _ (fun hi => inv_congr hi rfl rfl)
  | schedFail d t =>
    simp only [applyOp]
    split
    · exact R.refl _
    · exact R.of_KR (KR_sched _ _ _ _ _)
  | schedFailRel d dt =>
    simp only [applyOp]
    split
    · exact R.refl _
    · exact R.of_KR (KR_sched _ _ _ _ _)
  | shutdown d => simp only [applyOp]; r_ops
  | restore d => simp only [applyOp]; r_ops
  | block d b => simp only [applyOp]; r_ops
  | adjust d n => simp only [applyOp]; r_ops
  | setCycle d c => simp only [applyOp]; r_ops
  | offsetNext d o => simp only [applyOp]; r_ops
  | rewire d ups => simp only [applyOp]; r_ops
  | workOrder m tgt tag info =>
    simp only [applyOp]
    r_ops
  | setParams tgt tag dur need cost => simp only [applyOp]; r_ops
  | regObj s obj ovr => simp only [applyOp]; r_ops
  | unregObj s obj => simp only [applyOp]; r_ops
  | setVar k v => simp only [applyOp]; r_ops
  | addSensor c s => simp only [applyOp]; r_ops
  | create spec =>
    simp only [applyOp]
    exact R_addAsset w spec hop

theorem R_applyOps (w : World) (ops : List Op) (h : ∀ op ∈ ops, opWF op) :
    R w (w.applyOps ops) := by
  unfold applyOps
  induction ops generalizing w with
  | nil => exact R.refl _
  | cons op ops ih =>
    rw [List.foldl_cons]
    refine R.trans ?_ (ih _ (fun o ho => h o (List.mem_cons_of_mem _ ho)))
    exact (R_applyOp w op (h op List.mem_cons_self)).trans_KR (KR_addRes _ _)

theorem R_runScript (w : World) (k : Nat) : R w (w.runScript k) := by
  refine R.with_Q fun hp => ?_
  unfold runScript
  refine R_applyOps _ _ ?_
  intro op hop
  obtain ⟨s, hs, hm⟩ := C01W.mem_getD_nil hop
  exact hp.scr s hs op hm

macro_rules | `(tactic| r_step) => `(tactic| with_reducible apply R.trans (h2 := R_runScript _ _))

/-! ### maintainer events -/

theorem R_hookStart (w : World) (tgt : Nat) (tag : Int) : R w (w.hookStart tgt tag) := by
  unfold hookStart
  dsimp only
  r_auto

theorem R_hookEnd (w : World) (tgt : Nat) (tag : Int) : R w (w.hookEnd tgt tag) := by
  unfold hookEnd
  dsimp only
  r_auto

macro_rules | `(tactic| r_step) => `(tactic| with_reducible apply R.trans (h2 := R_hookStart _ _ _))
macro_rules | `(tactic| r_step) => `(tactic| with_reducible apply R.trans (h2 := R_hookEnd _ _ _))

theorem R_startWork (w : World) (m seq : Nat) : R w (w.startWork m seq) := by
  unfold startWork
  dsimp only
  r_auto

theorem R_finishWork (w : World) (m seq : Nat) : R w (w.finishWork m seq) := by
  unfold finishWork
  dsimp only
  r_auto

theorem R_periodicSense (w : World) (s : Nat) : R w (w.periodicSense s) := by
  unfold periodicSense
  dsimp only
  r_auto

/-! ### events -/

/-- Every action other than the availability check. -/
theorem R_exec (w : World) (a : Action) (ha : a ≠ .rmCheck) : R w (w.exec a) := by
  unfold exec
  split
  · exact R.refl _
  · exact R_runScript _ _
  · exact R_finishCycle _ _
  · exact R_passPart _ _
  · exact R_failDev _ _
  · exact R_releaseIfIdle _ _
  · exact absurd rfl ha
  · exact R_startWork _ _ _
  · exact R_finishWork _ _ _
  · exact R_schedUpdate _ _ _
  · exact R_periodicSense _ _
  · exact R.of_KR (KR_setErr _ _)

theorem R_simulateInit (w : World) : R w w.simulateInit := by
  unfold simulateInit
  split
  · exact R.refl _
  · rcases hr : w.rm.init with ⟨rm, recs, chk⟩
    have h' : C09.Inv w.rm → C09.Inv rm := by
      intro hi
      have : rm = w.rm.init.1 := by rw [hr]
      rw [this]
      exact inv_congr hi rfl rfl
    dsimp only
    r_step
    r_step
    exact R_rmStep w rm recs chk h'

/-! ### the availability check, events, the event loop -/

theorem Q_addRes {w : World} (hq : Q w) (r : Res) : Q (w.addRes r) := hq.of_KR rfl

/-- Removing a waiting entry. -/
theorem Q_erase {w : World} (hq : Q w) (i : Nat) : Q (scanOps.erase w i) :=
  ⟨inv_congr hq.inv rfl rfl, hq.scr, hq.dev⟩

theorem R_procResourceCb (w : World) (d : Nat) : R w (w.procResourceCb d) := by
  unfold procResourceCb
  r_auto

/-- A callback run by the check — a processor's resource callback or a script (which may reserve,
release, merge, add capacity, register …) — keeps the invariant. -/
theorem Q_call {w : World} (hq : Q w) (cb : Cb) (req : Req) : Q (scanOps.call w cb req) := by
  cases cb with
  | script k => exact R_runScript _ k (Q_addRes hq _)
  | proc d => exact R_procResourceCb w d hq

/-- **The check keeps the invariant** (with any fuel, from any index). -/
theorem Q_scan (f : Nat) (w : World) (i : Nat) (hq : Q w) : Q (scanWaiting scanOps f w i) :=
  C10W.scan_induct scanOps Q (fun _ i req cb h _ _ => Q_erase (Q_call h cb req) i) f w i hq

theorem Q.exec {w : World} (h : Q w) (a : Action) : Q (w.exec a) := by
  by_cases ha : a = .rmCheck
  · subst ha; exact Q_scan 10000 w 0 h
  · exact R_exec w a ha h

theorem Q.step {w w' : World} {e : Event} (h : Q w) (hst : w.step = some (e, w')) : Q w' := by
  obtain ⟨env1, _, _, hdead, hlive⟩ := C01W.step_via hst
  have h1 : Q ({ w with env := env1 } : World) := h.of_KR rfl
  cases hl : e.live with
  | true => rw [hlive hl]; exact h1.exec _
  | false => rw [hdead hl]; exact h1

theorem KR_runBegin (w : World) (d : Int) : KR (w.runBegin d).1 = KR w := by
  unfold World.runBegin
  dsimp only
  split <;> rfl

theorem Q.runBegin {w : World} (h : Q w) (d : Int) : Q (w.runBegin d).1 := h.of_KR (KR_runBegin w d)

theorem Q.runLoop (n : Nat) : ∀ {w : World}, Q w → Q (World.runLoop n w) := by
  induction n with
  | zero => intro w h; exact h.of_KR (KR_setErr _ _)
  | succ n ih =>
    intro w h
    unfold World.runLoop
    split
    · split
      · exact h
      · rename_i e w' hst
        exact ih (h.step hst)
    · exact h

end C09W
end SimProc
