/-
Abstract (slot-view) version of one iteration of the batcher's loop, and its decomposition into moves.
-/
import SimProc.Proofs.SVBasic
namespace SimProc
namespace C02V

def SDev.dflt : SDev := ⟨.handler, none, none, [], none⟩

namespace SV

def dev (a : SV) (x : Nat) : SDev := a.devs.getD x SDev.dflt
def modDev (a : SV) (x : Nat) (f : SDev → SDev) : SV := a.setDev x (f (a.dev x))
def kidsOf (a : SV) (p : Nat) : Option (List Nat) := a.kids.getD p none
def setKids (a : SV) (p : Nat) (v : Option (List Nat)) : SV := { a with kids := a.kids.set p v }

end SV

/-- `_get_part_from_input` on the slot view. -/
def getV (a : SV) (x p : Nat) : SV × Nat :=
  match a.kidsOf p with
  | some (k :: rest) =>
    let a := a.setKids p (some rest)
    let a := if rest.isEmpty then a.modDev x (fun d => { d with part := none }) else a
    (a, k)
  | _ => (a.modDev x (fun d => { d with part := none }), p)

/-- the shell of the batch under construction (created on demand) -/
def shellV (a : SV) (x : Nat) : SV × Nat :=
  match (a.dev x).inprog with
  | some b => (a, b)
  | none =>
    (({ a with kids := a.kids ++ [some []] } : SV).modDev x (fun d => { d with inprog := some a.kids.length }),
      a.kids.length)

/-- `_add_part_to_output` on the slot view (`bs` = the batch size of the device). -/
def addV (a : SV) (x t : Nat) (bs : Option Nat) : SV :=
  match bs with
  | none => a.modDev x (fun d => { d with output := some t })
  | some n =>
    let a1 := (shellV a x).1
    let b := (shellV a x).2
    let a2 := a1.setKids b (some ((a1.kidsOf b).getD [] ++ [t]))
    if ((a2.kidsOf b).getD []).length ≥ n then
      a2.modDev x (fun d => { d with output := some b, inprog := none })
    else a2

/-! ### helper lemmas -/

namespace SV

theorem dev_of {a : SV} {x : Nat} {d : SDev} (hz : a.devs[x]? = some d) : a.dev x = d := by
  simp [dev, List.getD_eq_getElem?_getD, hz]

theorem modDev_of {a : SV} {x : Nat} {d : SDev} (hz : a.devs[x]? = some d) (f : SDev → SDev) :
    a.modDev x f = a.setDev x (f d) := by
  simp [modDev, dev_of hz]

theorem setDev_get {a : SV} {x : Nat} {d : SDev} (hz : a.devs[x]? = some d) (d' : SDev) :
    (a.setDev x d').devs[x]? = some d' := by
  simp [setDev, List.getElem?_set_self (lt_of_getElem?_some hz)]

theorem kidsOf_some {a : SV} {p : Nat} {l : List Nat} (h : a.kidsOf p = some l) :
    a.kids[p]? = some (some l) := by
  unfold SV.kidsOf at h
  rw [List.getD_eq_getElem?_getD] at h
  cases h' : a.kids[p]? with
  | none => simp [h'] at h
  | some v =>
    simp [h'] at h
    simp [h]

end SV

theorem addKid_getD_cons {K : List (Option (List Nat))} {b t p k : Nat} {l : List Nat}
    (h : K.getD p none = some (k :: l)) :
    ∃ k' l', (addKid K b t).getD p none = some (k' :: l') := by
  unfold addKid
  rw [List.getD_eq_getElem?_getD] at h ⊢
  rw [List.getElem?_set]
  split
  · next hbp =>
    subst hbp
    split
    · rw [List.getD_eq_getElem?_getD, h]
      exact ⟨k, l ++ [t], by simp⟩
    · next hlt =>
      rw [List.getElem?_eq_none (by omega)] at h
      simp at h
  · exact ⟨k, l, h⟩

theorem Move.shell' {z : Nat} {a a' : SV} (d : SDev) (hz : a.devs[z]? = some d) (hi : d.inprog = none)
    (e : a' = { a with devs := a.devs.set z { d with inprog := some a.kids.length }
                       kids := a.kids ++ [some []] }) : Move z a a' := by
  subst e
  exact Move.shell a d hz hi

theorem Move.kidOut' {z : Nat} {a a' : SV} (d : SDev) (p k : Nat) (rest : List Nat)
    (hz : a.devs[z]? = some d) (hk : d.kind ≠ .sink) (hp : d.part = some p) (ho : d.output = none)
    (hkid : a.kids[p]? = some (some (k :: rest)))
    (e : a' = { a with devs := a.devs.set z { d with part := if rest.isEmpty then none else some p
                                                     output := some k }
                       kids := a.kids.set p (some rest) }) : Move z a a' := by
  subst e
  exact Move.kidOut a d p k rest hz hk hp ho hkid

theorem Move.kidIn' {z : Nat} {a a' : SV} (d : SDev) (p k : Nat) (rest : List Nat) (b : Nat)
    (hz : a.devs[z]? = some d) (hk : d.kind ≠ .sink) (hp : d.part = some p) (hi : d.inprog = some b)
    (hkid : a.kids[p]? = some (some (k :: rest)))
    (e : a' = { a with devs := a.devs.set z { d with part := if rest.isEmpty then none else some p }
                       kids := addKid (a.kids.set p (some rest)) b k }) : Move z a a' := by
  subst e
  exact Move.kidIn a d p k rest b hz hk hp hi hkid

theorem Move.leafIn' {z : Nat} {a a' : SV} (d : SDev) (p b : Nat)
    (hz : a.devs[z]? = some d) (hk : d.kind ≠ .sink) (hp : d.part = some p) (hi : d.inprog = some b)
    (hkid : a.kids.getD p none = none)
    (e : a' = { a with devs := a.devs.set z { d with part := none }
                       kids := addKid a.kids b p }) : Move z a a' := by
  subst e
  exact Move.leafIn a d p b hz hk hp hi hkid

theorem Move.rearr' {z : Nat} {a a' : SV} (d d' : SDev) (r : List Nat) (hz : a.devs[z]? = some d)
    (hk : d'.kind = d.kind) (hp : d.held.Perm (r ++ d'.held))
    (hr : d.kind = .sink ∨ ∀ q ∈ r, a.leaves q = [])
    (hi : ∀ b, d'.inprog = some b → d.inprog = some b) (e : a' = a.setDev z d') : Move z a a' := by
  subst e
  exact Move.rearr a d d' r hz hk hp hr hi

/-! ### explicit forms of `getV` and `addV` -/

theorem getV_cons {a : SV} {x p k : Nat} {rest : List Nat} {d : SDev} (hz : a.devs[x]? = some d)
    (hp : d.part = some p) (h : a.kidsOf p = some (k :: rest)) :
    getV a x p = ({ a with devs := a.devs.set x { d with part := if rest.isEmpty then none else some p }
                           kids := a.kids.set p (some rest) }, k) := by
  have hz' : (a.setKids p (some rest)).devs[x]? = some d := hz
  unfold getV
  rw [h]
  dsimp only
  split
  · rw [SV.modDev_of hz']
    rfl
  · have e : ({ d with part := some p } : SDev) = d := by
      cases d; simp_all
    have e2 : a.devs.set x d = a.devs := by
      obtain ⟨hlt, he⟩ := List.getElem?_eq_some_iff.mp hz
      rw [← he]
      exact List.set_getElem_self hlt
    simp [SV.setKids, e, e2]

theorem getV_none {a : SV} {x p : Nat} {d : SDev} (hz : a.devs[x]? = some d)
    (h : a.kidsOf p = none) :
    getV a x p = ({ a with devs := a.devs.set x { d with part := none } }, p) := by
  unfold getV
  rw [h]
  dsimp only
  rw [SV.modDev_of hz]
  rfl

theorem addV_none {a : SV} {x t : Nat} {d : SDev} (hz : a.devs[x]? = some d) :
    addV a x t none = { a with devs := a.devs.set x { d with output := some t } } := by
  unfold addV
  dsimp only
  rw [SV.modDev_of hz]
  rfl

/-- the state of `addV` before the size test -/
def addV2 (a : SV) (x t : Nat) : SV :=
  (shellV a x).1.setKids (shellV a x).2 (some (((shellV a x).1.kidsOf (shellV a x).2).getD [] ++ [t]))

theorem addV_some (a : SV) (x t n : Nat) :
    addV a x t (some n) =
      if (((addV2 a x t).kidsOf (shellV a x).2).getD []).length ≥ n then
        (addV2 a x t).modDev x (fun d => { d with output := some (shellV a x).2, inprog := none })
      else addV2 a x t := rfl

theorem shellV_some {a : SV} {x b : Nat} {d : SDev} (hz : a.devs[x]? = some d) (hi : d.inprog = some b) :
    shellV a x = (a, b) := by
  unfold shellV
  rw [SV.dev_of hz, hi]

theorem shellV_none {a : SV} {x : Nat} {d : SDev} (hz : a.devs[x]? = some d) (hi : d.inprog = none) :
    shellV a x = ({ a with devs := a.devs.set x { d with inprog := some a.kids.length }
                           kids := a.kids ++ [some []] }, a.kids.length) := by
  have hz' : ({ a with kids := a.kids ++ [some []] } : SV).devs[x]? = some d := hz
  unfold shellV
  rw [SV.dev_of hz, hi]
  dsimp only
  rw [SV.modDev_of hz']
  rfl

theorem addV2_some {a : SV} {x t b : Nat} {d : SDev} (hz : a.devs[x]? = some d) (hi : d.inprog = some b) :
    addV2 a x t = { a with kids := addKid a.kids b t } := by
  unfold addV2
  rw [shellV_some hz hi]
  rfl

theorem addV2_none {a : SV} {x t : Nat} {d : SDev} (hz : a.devs[x]? = some d) (hi : d.inprog = none) :
    addV2 a x t = { a with devs := a.devs.set x { d with inprog := some a.kids.length }
                           kids := addKid (a.kids ++ [some []]) a.kids.length t } := by
  unfold addV2
  rw [shellV_none hz hi]
  rfl

/-! ### the conclusion, for a state given explicitly -/

/-- the conclusion of `steps_iterV'` for a result state `r` -/
def IterOK (a : SV) (x : Nat) (kd : Kind) (r : SV) : Prop :=
  Steps x a r ∧ (∀ p', (r.dev x).part = some p' → ∃ k l, r.kidsOf p' = some (k :: l)) ∧
    (r.dev x).kind = kd

theorem iterOK_direct {a r : SV} {x : Nat} {kd : Kind} {dr : SDev} (hs : Steps x a r)
    (hz : r.devs[x]? = some dr) (hk : dr.kind = kd)
    (hpart : ∀ p', dr.part = some p' → ∃ k l, r.kidsOf p' = some (k :: l)) : IterOK a x kd r := by
  refine ⟨hs, ?_, ?_⟩
  · rw [SV.dev_of hz]; exact hpart
  · rw [SV.dev_of hz]; exact hk

theorem iterOK_fin {a a2 : SV} {x b : Nat} {kd : Kind} {d2 : SDev} (c : Prop) [Decidable c]
    (hs : Steps x a a2)
    (hz : a2.devs[x]? = some d2) (hk : d2.kind = kd) (ho : d2.output = none) (hi : d2.inprog = some b)
    (hpart : ∀ p', d2.part = some p' → ∃ k l, a2.kidsOf p' = some (k :: l)) :
    IterOK a x kd
      (if c then a2.modDev x (fun d => { d with output := some b, inprog := none }) else a2) := by
  split
  · rw [SV.modDev_of hz]
    refine iterOK_direct (dr := { d2 with output := some b, inprog := none }) ?_
      (SV.setDev_get hz _) hk hpart
    refine Steps.tail _ _ _ hs (Move.rearr a2 d2 _ [] hz rfl ?_ (Or.inr (by simp)) (by simp))
    simp only [SDev.held, ho, hi, Option.toList_some, Option.toList_none, List.append_nil,
      List.nil_append, List.append_assoc]
    exact List.Perm.append_left _ (List.perm_append_comm)
  · exact iterOK_direct hs hz hk hpart

theorem getD_append_shell {K : List (Option (List Nat))} {p : Nat} (hpv : p < K.length) :
    (K ++ [some []]).getD p none = K.getD p none := by
  simp [List.getD_eq_getElem?_getD, List.getElem?_append_left hpv]

/-- One iteration of the batcher's loop is a sequence of moves of device `x`; afterwards the input
slot is empty or still holds a non-empty batch. (The hypothesis `hpv` is needed: if
`p = a.kids.length` were a single part and the device had no batch under construction, the new shell
would get the index `p`.) -/
theorem steps_iterV' (a : SV) (x p : Nat) (bs : Option Nat) (d : SDev)
    (hz : a.devs[x]? = some d) (hp : d.part = some p) (ho : d.output = none) (hk : d.kind ≠ .sink)
    (hne : a.kidsOf p ≠ some []) (hpv : p < a.kids.length) :
    Steps x a (addV (getV a x p).1 x (getV a x p).2 bs) ∧
    (∀ p', ((addV (getV a x p).1 x (getV a x p).2 bs).dev x).part = some p' →
      ∃ k l, (addV (getV a x p).1 x (getV a x p).2 bs).kidsOf p' = some (k :: l)) ∧
    ((addV (getV a x p).1 x (getV a x p).2 bs).dev x).kind = d.kind := by
  show IterOK a x d.kind _
  have hx : x < a.devs.length := lt_of_getElem?_some hz
  cases hkp : a.kidsOf p with
  | none =>
    rw [getV_none hz hkp]
    dsimp only
    have hz1 : ({ a with devs := a.devs.set x { d with part := none } } : SV).devs[x]? =
        some { d with part := none } := SV.setDev_get hz _
    cases bs with
    | none =>
      rw [addV_none hz1]
      refine iterOK_direct (dr := { d with part := none, output := some p })
        (Steps.single (Move.rearr' d { d with part := none, output := some p } [] hz rfl ?_
          (Or.inr (by simp)) (fun _ h => h) ?_)) ?_ rfl (by simp)
      · simp [SDev.held, hp, ho]
      · simp [SV.setDev, List.set_set]
      · simp [hx]
    | some n =>
      rw [addV_some]
      have hcase : d.inprog = none ∨ ∃ b, d.inprog = some b := by
        cases d.inprog <;> simp
      rcases hcase with hi | ⟨b, hi⟩
      case inr =>
        have hi1 : ({ d with part := none } : SDev).inprog = some b := hi
        rw [shellV_some hz1 hi1, addV2_some hz1 hi1]
        dsimp only
        refine iterOK_fin _ (Steps.single (Move.leafIn' d p b hz hk hp hi hkp ?_))
          (d2 := { d with part := none }) hz1 rfl ho hi (by simp)
        rfl
      case inl =>
        have hi1 : ({ d with part := none } : SDev).inprog = none := hi
        rw [shellV_none hz1 hi1, addV2_none hz1 hi1]
        dsimp only
        have hzs : ({ a with devs := a.devs.set x { d with inprog := some a.kids.length }
                             kids := a.kids ++ [some []] } : SV).devs[x]? =
            some { d with inprog := some a.kids.length } := SV.setDev_get hz _
        refine iterOK_fin _ (Steps.tail _ _ _ (Steps.single (Move.shell a d hz hi))
            (Move.leafIn' { d with inprog := some a.kids.length } p a.kids.length hzs hk hp rfl ?_ ?_))
          (d2 := { d with part := none, inprog := some a.kids.length }) ?_ rfl ho rfl (by simp)
        · show (a.kids ++ [some []]).getD p none = none
          rw [getD_append_shell hpv]
          exact hkp
        · simp [List.set_set]
        · simp [hx]
  | some l =>
    cases l with
    | nil => exact absurd hkp hne
    | cons k rest =>
      have hkid := SV.kidsOf_some hkp
      rw [getV_cons hz hp hkp]
      dsimp only
      have hz1 : ({ a with devs := a.devs.set x { d with part := if rest.isEmpty then none else some p }
                           kids := a.kids.set p (some rest) } : SV).devs[x]? =
          some { d with part := if rest.isEmpty then none else some p } := SV.setDev_get hz _
      have hrest : ∀ p', (if rest.isEmpty then none else some p) = some p' →
          ∃ k' l', (a.kids.set p (some rest)).getD p' none = some (k' :: l') := by
        intro p' h
        cases rest with
        | nil => simp at h
        | cons k' l' =>
          simp at h
          subst h
          exact ⟨k', l', by simp [List.getD_eq_getElem?_getD, hpv]⟩
      cases bs with
      | none =>
        rw [addV_none hz1]
        refine iterOK_direct
          (dr := { d with part := if rest.isEmpty then none else some p, output := some k })
          (Steps.single (Move.kidOut' d p k rest hz hk hp ho hkid ?_)) ?_ rfl hrest
        · simp [List.set_set]
        · simp [hx]
      | some n =>
        rw [addV_some]
        have hcase : d.inprog = none ∨ ∃ b, d.inprog = some b := by
          cases d.inprog <;> simp
        rcases hcase with hi | ⟨b, hi⟩
        case inr =>
          have hi1 : ({ d with part := if rest.isEmpty then none else some p } : SDev).inprog =
              some b := hi
          rw [shellV_some hz1 hi1, addV2_some hz1 hi1]
          dsimp only
          refine iterOK_fin _ (Steps.single (Move.kidIn' d p k rest b hz hk hp hi hkid ?_))
            (d2 := { d with part := if rest.isEmpty then none else some p }) hz1 rfl ho hi ?_
          · rfl
          · intro p' h
            obtain ⟨k', l', h'⟩ := hrest p' h
            exact addKid_getD_cons h'
        case inl =>
          have hi1 : ({ d with part := if rest.isEmpty then none else some p } : SDev).inprog =
              none := hi
          rw [shellV_none hz1 hi1, addV2_none hz1 hi1]
          dsimp only
          have hzs : ({ a with devs := a.devs.set x { d with inprog := some a.kids.length }
                               kids := a.kids ++ [some []] } : SV).devs[x]? =
              some { d with inprog := some a.kids.length } := SV.setDev_get hz _
          refine iterOK_fin _ (Steps.tail _ _ _ (Steps.single (Move.shell a d hz hi))
              (Move.kidIn' { d with inprog := some a.kids.length } p k rest a.kids.length hzs hk hp rfl
                ?_ ?_))
            (d2 := { d with part := if rest.isEmpty then none else some p,
                            inprog := some a.kids.length }) ?_ rfl ho (by simp) ?_
          · show (a.kids ++ [some []])[p]? = some (some (k :: rest))
            exact getElem?_append_some hkid
          · simp [List.set_set, List.set_append_left _ _ hpv]
          · simp [hx]
          · intro p' h
            obtain ⟨k', l', h'⟩ := hrest p' h
            refine addKid_getD_cons (k := k') (l := l') ?_
            have hp' : p' < (a.kids.set p (some rest)).length := by
              cases rest with
              | nil => simp at h
              | cons _ _ =>
                simp at h
                subst h
                simpa using hpv
            rw [getD_append_shell hp']
            exact h'

end C02V
end SimProc
