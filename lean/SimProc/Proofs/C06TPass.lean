/-
C06T (exact cycle times over whole runs), part 2: the hand-over of a part (`give`, `tryList`,
`passHandler`, `bufferLoop`, `passPart`) as a sequence of atomic moves.  Mirrors
`Proofs/C06WPass.lean`.
-/
import SimProc.Proofs.C06TMoves
namespace SimProc
namespace C06T
open World FloorCoreL C06W
open C02V (Reach st GiveOK)

variable {F : Nat → Prop}

/-- Any handler-like device accepts a part it can accept. -/
theorem gm_acceptPart {w : World} {x : Nat} (h : FI w) (p : Nat) (hx : x < w.devs.length)
    (hl : isHandlerLike (w.dev x).kind = true) (hc : w.canAcceptBasic x p = true) :
    GM F w (w.acceptPart x p) := by
  cases hT : isT (w.dev x).kind
  · exact .of_fr h (fr_acceptPart_nonT w x p hl hT)
  · exact .of_atom h (.accept x p hx hT hc)

theorem gm_tryList (g : World → Nat → Nat → World × Bool)
    (hg : ∀ w y p, FI w → (∀ z, Reach (st w) y z → z < w.devs.length) → GM F w (g w y p).1)
    (hst : ∀ w y p, st (g w y p).1 = st w) (l : List Nat) :
    ∀ (w : World) (p : Nat), FI w → (∀ y ∈ l, ∀ z, Reach (st w) y z → z < w.devs.length) →
      GM F w (tryList g w l p).1 := by
  induction l with
  | nil => intro w p h _; exact GM.refl h
  | cons y ys ih =>
    intro w p h hr
    unfold tryList
    have h1 := hg w y p h (hr y (List.mem_cons_self ..))
    have h2 := hst w y p
    cases hgy : g w y p with
    | mk w' b =>
      rw [hgy] at h1 h2
      cases b with
      | true => exact h1
      | false =>
        simp only [] at h1 h2 ⊢
        refine h1.trans (ih w' p h1.fi ?_)
        intro y' hy' z hz
        rw [h2] at hz
        rw [h1.keep.len]
        exact hr y' (List.mem_cons_of_mem _ hy') z hz

theorem canAccept_procAcquire {w : World} {y p : Nat} (hk : (w.dev y).kind = .processor)
    (hc : w.canAcceptBasic y p = true) : (w.procAcquire y).1.canAcceptBasic y p = true := by
  have key : ∀ {α} (g : Dev → α), (∀ d r wr, g { d with reserved := r, waitingRes := wr } = g d) →
      g ((w.procAcquire y).1.dev y) = g (w.dev y) := fun g hg => procAcquire_dev_field g hg w y y
  have hk1 : ((w.procAcquire y).1.dev y).kind = .processor :=
    (key Dev.kind (fun _ _ _ => rfl)).trans hk
  have h1 := key Dev.shutDown (fun _ _ _ => rfl)
  have h2 := key Dev.blockInput (fun _ _ _ => rfl)
  have h3 := key Dev.part (fun _ _ _ => rfl)
  have h4 := key Dev.output (fun _ _ _ => rfl)
  unfold World.canAcceptBasic World.operational at hc ⊢
  simp only [hk, hk1] at hc ⊢
  rw [h1, h2, h3, h4]
  exact hc

theorem gm_give (f : Nat) : ∀ (w : World) (y p : Nat), FI w →
    (∀ z, Reach (st w) y z → z < w.devs.length) → GM F w (give f w y p).1 := by
  induction f with
  | zero => intro w y p h _; exact .of_fr h (fr_setErr (X := None_) w "fuel" (by decide))
  | succ f ih =>
    intro w y p h hr
    have hl := gm_tryList (F := F) (give f) ih (C02V.st_give f)
    unfold give
    simp only []
    split
    iterate 5
      rename_i hk
      split
      · rename_i hc
        have hlk : isHandlerLike (w.dev y).kind = true := by rw [hk]; rfl
        dsimp only
        exact gm_acceptPart h p (hr y (reach_self hlk)) hlk hc
      · exact GM.refl h
    · -- processor
      rename_i hk
      have hlk : isHandlerLike (w.dev y).kind = true := by rw [hk]; rfl
      split
      · rename_i hc
        have fa := fr_procAcquire (X := None_) w y
        have hc1 := canAccept_procAcquire hk hc
        split
        · rename_i w1 hw1
          rw [hw1] at fa hc1
          dsimp only at fa hc1 ⊢
          have g1 : GM F w w1 := .of_fr h fa
          refine g1.trans (gm_acceptPart g1.fi p (fa.len ▸ hr y (reach_self hlk))
            (by rw [fa.kind]; exact hlk) hc1)
        · rename_i w1 hw1
          rw [hw1] at fa
          dsimp only at fa ⊢
          exact .of_fr h fa
      · exact GM.refl h
    · -- gate
      rename_i hk
      split
      · exact GM.refl h
      · split
        · exact GM.refl h
        · have f1 := fr_addHist (X := None_) w p y
          have g1 : GM F w (w.addHist p y) := .of_fr h f1
          have hs1 : st (w.addHist p y) = st w := C02V.st_addHist ..
          have := hl ((w.addHist p y).sortedDown y) (w.addHist p y) p g1.fi (by
            intro z hz u hu
            rw [hs1] at hu
            rw [f1.len]
            refine hr u (Reach.gate y z u (Or.inl ?_) ?_ hu)
            · rw [C02V.st_kind]; exact hk
            · rw [C02V.st_down]
              have := (C02V.mem_sortedDown ..).1 hz
              have e : ((w.addHist p y).dev y).down = (w.dev y).down := by rw [dev_addHist]
              rw [← e]; exact this)
          split
          · rename_i w2 hw2; rw [hw2] at this
            exact g1.trans this
          · rename_i w2 hw2; rw [hw2] at this
            exact (g1.trans this).fr (fr_dropHist _ _)
    · -- ginput
      rename_i hk
      split
      · exact GM.refl h
      · refine hl (w.sortedDown y) w p h ?_
        intro z hz u hu
        refine hr u (Reach.gate y z u (Or.inr ?_) ?_ hu)
        · rw [C02V.st_kind]; exact hk
        · rw [C02V.st_down]; exact (C02V.mem_sortedDown ..).1 hz
    · -- gpath
      rename_i hk
      split
      · exact GM.refl h
      · have f1 : Fr None_ w ((w.modPart p (fun r => { r with stack := r.stack ++ [y] })).addHist p y) :=
          (fr_modPart _ _ _).trans (fr_addHist _ _ _)
        have g1 : GM F w ((w.modPart p (fun r => { r with stack := r.stack ++ [y] })).addHist p y) :=
          .of_fr h f1
        have hs1 : st ((w.modPart p (fun r => { r with stack := r.stack ++ [y] })).addHist p y) = st w := by
          rw [C02V.st_addHist]; rfl
        have := ih ((w.modPart p (fun r => { r with stack := r.stack ++ [y] })).addHist p y)
          ((((w.modPart p (fun r => { r with stack := r.stack ++ [y] })).addHist p y).groups.getD
            (w.dev y).group default).input) p g1.fi (by
            intro u hu
            rw [hs1] at hu
            rw [f1.len]
            refine hr u (Reach.gpath y u ?_ ?_)
            · rw [C02V.st_kind]; exact hk
            · rw [C02V.st_gin, C02V.st_group]
              have e : ((w.modPart p (fun r => { r with stack := r.stack ++ [y] })).addHist p y).groups =
                  w.groups := by
                have := congrArg World.groups (addHist_noParts (w.modPart p (fun r => { r with stack := r.stack ++ [y] })) p y)
                exact this
              rw [e] at hu
              exact hu)
        split
        · rename_i w2 hw2
          rw [hw2] at this
          exact g1.trans this
        · rename_i w2 hw2
          rw [hw2] at this
          exact ((g1.trans this).fr (fr_modPart _ _ _)).fr (fr_dropHist _ _)
    · -- goutput
      rename_i hk
      split
      · exact .of_fr h (fr_setErr (X := None_) w "no-group-path" (by decide))
      · rename_i g hg
        have f1 : Fr None_ w (w.modPart p (fun r => { r with stack := r.stack.dropLast })) :=
          fr_modPart _ _ _
        have g1 : GM F w (w.modPart p (fun r => { r with stack := r.stack.dropLast })) := .of_fr h f1
        have := hl ((w.modPart p (fun r => { r with stack := r.stack.dropLast })).sortedDown g)
          (w.modPart p (fun r => { r with stack := r.stack.dropLast })) p g1.fi (by
            intro z hz u hu
            refine hr u (Reach.goutput y g z u ?_ ?_ hu)
            · rw [C02V.st_kind]; exact hk
            · rw [C02V.st_down]
              exact (C02V.mem_sortedDown (w.modPart p (fun r => { r with stack := r.stack.dropLast })) g z).1 hz)
        split
        · rename_i w2 hw2; rw [hw2] at this
          exact g1.trans this
        · rename_i w2 hw2; rw [hw2] at this
          dsimp only at this ⊢
          exact (g1.trans this).fr (fr_modPart _ _ _)

theorem gm_tryGive (w : World) (l : List Nat) (p : Nat) (h : FI w)
    (hr : ∀ y ∈ l, ∀ z, Reach (st w) y z → z < w.devs.length) :
    GM F w (tryList givePart w l p).1 :=
  gm_tryList givePart (fun w y p h hr => gm_give w.fuel w y p h hr) C02V.st_givePart l w p h hr

theorem gm_passHandler (w : World) (x : Nat) (h : FI w) (hg : GiveOK w x) :
    GM F w (w.passHandler x) := by
  unfold World.passHandler
  simp only []
  split
  · exact GM.refl h
  · split
    · exact GM.refl h
    · rename_i p _
      have h1 := gm_tryGive (F := F) w (w.sortedDown x) p h
        (fun y hy z hz => hg y ((C02V.mem_sortedDown ..).1 hy) z hz)
      split
      · rename_i w1 hw1
        rw [hw1] at h1
        exact (h1.trans (.of_atom h1.fi (.clear x))).fr (fr_notify _ _)
      · rename_i w1 hw1
        rw [hw1] at h1
        exact h1.fr (fr_modDev_same _ _ _ rfl)

theorem gm_bufferLoop (f : Nat) : ∀ (w : World) (x : Nat), FI w → GiveOK w x →
    GM F w (bufferLoop f w x) := by
  induction f with
  | zero => intro w x h _; exact GM.refl h
  | succ f ih =>
    intro w x h hg
    have key : ∀ w1 w2 : World, GM F w w1 → Fr None_ w1 w2 → st w2 = st w →
        GM F w (bufferLoop f w2 x) := by
      intro w1 w2 g1 f2 hs
      have h2 := g1.fr f2
      exact h2.trans (ih _ x h2.fi (hg.of_st hs h2.keep.len))
    unfold bufferLoop
    simp only []
    split
    · exact GM.refl h
    · rename_i t p rest _
      split
      · exact GM.refl h
      · have h1 := gm_tryGive (F := F) w (w.sortedDown x) p h
          (fun y hy z hz => hg y ((C02V.mem_sortedDown ..).1 hy) z hz)
        have hst : st (tryList givePart w (w.sortedDown x) p).1 = st w := C02V.st_tryGive ..
        split
        · rename_i w1 hw1
          rw [hw1] at h1 hst
          dsimp only at h1 hst
          refine key _ _ h1 ?_ (by rw [C02V.st_addRec, C02V.st_setBuf, hst])
          refine Fr.trans ?_ (fr_addRec _ _)
          exact fr_modDev_same _ _ _ rfl
        · rename_i w1 hw1
          rw [hw1] at h1
          exact h1

theorem gm_passPart (w : World) (x : Nat) (h : FI w) (hg : GiveOK w x) : GM F w (w.passPart x) := by
  have hph := gm_passHandler (F := F) w x h hg
  cases hk : (w.dev x).kind
  case source =>
    unfold World.passPart
    simp only [hk]
    repeat' split
    all_goals first
      | exact GM.refl h
      | exact hph
      | (refine ((hph.fr (fr_modDev_same _ _ _ rfl)).fr (fr_addRec _ _)).fr
          (fr_scheduleFinish_source _ x ?_)
         rw [dev_addRec, Fr.kind (fr_modDev_same (X := None_) _ _ _ rfl), hph.keep.ka x |>.1]
         exact hk)
  case buffer =>
    unfold World.passPart
    simp only [hk]
    have h1 := gm_bufferLoop (F := F) ((w.dev x).buf.length + 1) w x h hg
    refine GM.fr ?_ (fr_notify _ _)
    split
    · exact h1
    · split
      · exact h1.fr (fr_schedulePass _ _ _)
      · exact h1.fr (fr_setDev_same _ _ _ rfl)
  case batcher =>
    unfold World.passPart
    simp only [hk]
    split
    · exact hph.fr (fr_tryMove_batcher _ x (by rw [(hph.keep.ka x).1]; exact hk))
    · exact hph
  case sink =>
    unfold World.passPart
    simp only [hk]
    exact GM.refl h
  all_goals
    unfold World.passPart
    simp only [hk]
    exact hph

end C06T
end SimProc
