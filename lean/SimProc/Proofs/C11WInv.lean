/-
Machinery for `Props/C11W.lean`, part 3: the closed-world invariant and its preservation by benign
steps.

* `RInv`  — resource layer: the manager's invariant, ownership of reservations, the processors'
            local invariant, shape of the waiting list;
* `EInv`  — event layer: the paused RELEASE event of a shut-down idle holder, no `finishCycle` /
            `releaseIfIdle` event of a shut-down processor is queued, these events carry the
            processor's asset id, the queue invariant;
* `Pend`  — a feasible waiting request ⇒ a live check event at `now`;
* `Rel x` — an operational idle holder ⇒ a live RELEASE event at `now`.
-/
import SimProc.Proofs.C11WMono

namespace SimProc
namespace C11W
open World FloorCoreL

/-- Shape of the waiting list: only processors wait, each at most once, and a waiting processor
has its `waitingRes` flag set. -/
def Wait (w : World) : Prop :=
  (w.rm.waiting.map (·.2)).Nodup ∧
  ∀ e ∈ w.rm.waiting, ∃ x, e.2 = Cb.proc x ∧ (w.dev x).waitingRes = true

/-- The resource layer of the invariant. -/
structure RInv (w : World) : Prop where
  s : S w
  rmI : C09.Inv w.rm
  ini : w.rm.inited = true
  own : C11.OwnedBy w
  uniq : ∀ x y id, (w.dev x).reserved = some id → (w.dev y).reserved = some id → x = y
  proc : ∀ x, (w.dev x).kind = .processor → C11.ProcInv w x
  wait : Wait w

/-- The event layer of the invariant. -/
structure EInv (w : World) : Prop where
  relP : ∀ x, (w.dev x).kind = .processor → (w.dev x).shutDown = true →
    (w.dev x).reserved ≠ none → (w.dev x).part = none →
    ∃ e ∈ w.env.paused, e.act = (Action.releaseIfIdle x).toNat ∧ e.asset = (w.dev x).aid ∧
      e.prio = pRelease ∧ e.cancelled = false ∧ e.pausedAt = some e.time
  noRun : ∀ x, (w.dev x).kind = .processor → (w.dev x).shutDown = true →
    ∀ e ∈ w.env.events, e.cancelled = false →
      evAct e ≠ .finishCycle x ∧ evAct e ≠ .releaseIfIdle x
  evA : ∀ e ∈ w.env.events ++ w.env.paused, ∀ x, (w.dev x).kind = .processor →
    (evAct e = .finishCycle x ∨ evAct e = .releaseIfIdle x) → e.asset = (w.dev x).aid
  q : C01.Inv w.env

/-- A feasible waiting request has a live availability check queued for the current instant. -/
def Pend (w : World) : Prop :=
  C10.feasibleWaiting w.rm → QueuedL w .rmCheck w.now pOtherHigh (-1)

/-- An operational processor that holds a reservation and has no part in process has a live
RELEASE event queued for the current instant. -/
def Rel (w : World) (x : Nat) : Prop :=
  (w.dev x).kind = .processor → (w.dev x).shutDown = false → (w.dev x).reserved ≠ none →
    (w.dev x).part = none → QueuedL w (.releaseIfIdle x) w.now pRelease (w.dev x).aid

/-- **The closed-world invariant.** -/
structure Inv (w : World) : Prop where
  r : RInv w
  e : EInv w
  pend : Pend w
  rel : ∀ x, Rel w x

/-! ### the resource layer under benign steps -/

theorem Wait.congr {w w' : World} (h : Wait w) (hw : w'.rm.waiting = w.rm.waiting)
    (hd : ∀ y, (w'.dev y).waitingRes = (w.dev y).waitingRes) : Wait w' := by
  unfold Wait
  rw [hw]
  refine ⟨h.1, fun e he => ?_⟩
  obtain ⟨x, hx, hr⟩ := h.2 e he
  exact ⟨x, hx, by rw [hd]; exact hr⟩

theorem RInv.mono0 {w w' : World} (h : RInv w) (m : Mono0 w w') : RInv w' := by
  refine ⟨h.s.of_eq m.scr m.statD, by rw [m.rm]; exact h.rmI, by rw [m.rm]; exact h.ini,
    h.own.of_keepA m.keepA, ?_, ?_, h.wait.congr (by rw [m.rm]) m.waitingRes⟩
  · intro x y id hx hy
    rw [m.reserved] at hx hy
    exact h.uniq x y id hx hy
  · intro x hk
    rw [m.kind] at hk
    refine (h.proc x hk).congr (m.resReq x) (m.reserved x) ?_ (by rw [m.rm])
    intro hp
    rcases m.part x hk with h1 | ⟨_, h1⟩
    · rw [← h1]; exact hp
    · rw [h1] at hp; cases hp

/-! ### the event layer under steps that only add harmless events -/

/-- A step that keeps the device keys and only adds harmless events; a shut-down processor does not
become an idle holder. -/
structure EStep (w w' : World) : Prop where
  dk : ∀ y, dk (w'.dev y) = dk (w.dev y)
  env : EnvMono w w'
  idleP : ∀ y, (w.dev y).kind = .processor → (w.dev y).shutDown = true →
    (w'.dev y).reserved ≠ none → (w'.dev y).part = none →
    (w.dev y).reserved ≠ none ∧ (w.dev y).part = none

theorem dk_kind {w w' : World} {y : Nat} (h : dk (w'.dev y) = dk (w.dev y)) :
    (w'.dev y).kind = (w.dev y).kind := congrArg (·.1) h
theorem dk_aid {w w' : World} {y : Nat} (h : dk (w'.dev y) = dk (w.dev y)) :
    (w'.dev y).aid = (w.dev y).aid := congrArg (·.2.1) h
theorem dk_shutDown {w w' : World} {y : Nat} (h : dk (w'.dev y) = dk (w.dev y)) :
    (w'.dev y).shutDown = (w.dev y).shutDown := congrArg (·.2.2) h

theorem EInv.step {w w' : World} (h : EInv w) (s : EStep w w') : EInv w' := by
  refine ⟨?_, ?_, ?_, s.env.q h.q⟩
  · intro x hk hs hr hp
    rw [dk_kind (s.dk x)] at hk
    rw [dk_shutDown (s.dk x)] at hs
    obtain ⟨hr', hp'⟩ := s.idleP x hk hs hr hp
    obtain ⟨e, he, hrest⟩ := h.relP x hk hs hr' hp'
    rw [dk_aid (s.dk x), s.env.paused]
    exact ⟨e, he, hrest⟩
  · intro x hk hs e he hc
    rw [dk_kind (s.dk x)] at hk
    rw [dk_shutDown (s.dk x)] at hs
    rcases s.env.evNew e he with ho | hn
    · exact h.noRun x hk hs e ho hc
    · constructor
      · intro ha
        have := (hn x hk (Or.inl ha)).2
        rw [hs] at this; cases this
      · intro ha
        have := (hn x hk (Or.inr ha)).2
        rw [hs] at this; cases this
  · intro e he x hk ha
    rw [dk_kind (s.dk x)] at hk
    rw [dk_aid (s.dk x)]
    rw [s.env.paused] at he
    rcases List.mem_append.1 he with he | he
    · rcases s.env.evNew e he with ho | hn
      · exact h.evA e (List.mem_append_left _ ho) x hk ha
      · exact (hn x hk ha).1
    · exact h.evA e (List.mem_append_right _ he) x hk ha

theorem Rel.step {w w' : World} {y : Nat} (h : Rel w y) (hk : dk (w'.dev y) = dk (w.dev y))
    (env : EnvMono w w')
    (hidle : (w.dev y).kind = .processor → (w.dev y).shutDown = false →
      (w'.dev y).reserved ≠ none → (w'.dev y).part = none →
      ((w.dev y).reserved ≠ none ∧ (w.dev y).part = none) ∨
        QueuedL w' (.releaseIfIdle y) w.now pRelease (w.dev y).aid) : Rel w' y := by
  intro hkp hs hr hp
  rw [dk_kind hk] at hkp
  rw [dk_shutDown hk] at hs
  rw [dk_aid hk]
  have hn : w'.now = w.now := env.now
  rw [hn]
  rcases hidle hkp hs hr hp with ⟨hr', hp'⟩ | hq
  · exact (h hkp hs hr' hp').mono env
  · exact hq

theorem Pend.step {w w' : World} (h : Pend w) (env : EnvMono w w')
    (hf : C10.feasibleWaiting w'.rm → C10.feasibleWaiting w.rm) : Pend w' := by
  intro hfw
  have hn : w'.now = w.now := env.now
  rw [hn]
  exact (h (hf hfw)).mono env

theorem Mono0.estep {w w' : World} (m : Mono0 w w') : EStep w w' := by
  refine ⟨m.dk, m.env, ?_⟩
  intro y hk hs hr hp
  rw [m.reserved] at hr
  refine ⟨hr, ?_⟩
  rcases m.part y hk with h1 | ⟨h1, _⟩
  · rw [← h1]; exact hp
  · rw [hs] at h1; cases h1

theorem Rel.mono {w w' : World} {y : Nat} (h : Rel w y) (m : Mono w w') : Rel w' y := by
  refine h.step (m.m0.dk y) m.m0.env ?_
  intro hk hs hr hp
  rw [m.m0.reserved] at hr
  by_cases hpp : (w'.dev y).part = (w.dev y).part
  · left; exact ⟨hr, by rw [← hpp]; exact hp⟩
  · right; exact m.rel y hk hpp hr

theorem Pend.mono0 {w w' : World} (h : Pend w) (m : Mono0 w w') : Pend w' :=
  h.step m.env (by rw [m.rm]; exact id)

/-- **Benign steps preserve the invariant.** -/
theorem Inv.mono {w w' : World} (h : Inv w) (m : Mono w w') : Inv w' :=
  ⟨h.r.mono0 m.m0, h.e.step m.m0.estep, h.pend.mono0 m.m0, fun x => (h.rel x).mono m⟩

/-- The invariant without `Rel x` (the RELEASE event of `x` has just been taken from the queue, or
`x` has just acquired its resources and is about to get the part). -/
structure InvX (x : Nat) (w : World) : Prop where
  r : RInv w
  e : EInv w
  pend : Pend w
  rel : ∀ y, y ≠ x → Rel w y

theorem Inv.toX {w : World} (h : Inv w) (x : Nat) : InvX x w := ⟨h.r, h.e, h.pend, fun y _ => h.rel y⟩

theorem EnvMono.refl (w : World) : EnvMono w w := EnvMono.of_env_eq rfl

theorem EnvMono.congr_right {w w1 w2 : World} (h : EnvMono w w1) (he : w2.env = w1.env) :
    EnvMono w w2 := by
  refine ⟨by rw [he]; exact h.now, by rw [he]; exact h.paused, ?_, ?_, ?_⟩
  · intro e hm; rw [he]; exact h.evOld e hm
  · intro e hm; rw [he] at hm; exact h.evNew e hm
  · intro hq; rw [he]; exact h.q hq


/-- The event layer without the paused RELEASE event of `x`. -/
structure EInvX (x : Nat) (w : World) : Prop where
  relP : ∀ y, y ≠ x → (w.dev y).kind = .processor → (w.dev y).shutDown = true →
    (w.dev y).reserved ≠ none → (w.dev y).part = none →
    ∃ e ∈ w.env.paused, e.act = (Action.releaseIfIdle y).toNat ∧ e.asset = (w.dev y).aid ∧
      e.prio = pRelease ∧ e.cancelled = false ∧ e.pausedAt = some e.time
  noRun : ∀ x, (w.dev x).kind = .processor → (w.dev x).shutDown = true →
    ∀ e ∈ w.env.events, e.cancelled = false →
      evAct e ≠ .finishCycle x ∧ evAct e ≠ .releaseIfIdle x
  evA : ∀ e ∈ w.env.events ++ w.env.paused, ∀ x, (w.dev x).kind = .processor →
    (evAct e = .finishCycle x ∨ evAct e = .releaseIfIdle x) → e.asset = (w.dev x).aid
  q : C01.Inv w.env

theorem EInv.toX {w : World} (h : EInv w) (x : Nat) : EInvX x w :=
  ⟨fun y _ => h.relP y, h.noRun, h.evA, h.q⟩

theorem EInvX.toE {x : Nat} {w : World} (h : EInvX x w)
    (hx : (w.dev x).kind = .processor → (w.dev x).shutDown = true → (w.dev x).reserved ≠ none →
      (w.dev x).part = none → False) : EInv w := by
  refine ⟨fun y hk hs hr hp => ?_, h.noRun, h.evA, h.q⟩
  by_cases hy : y = x
  · subst hy; exact (hx hk hs hr hp).elim
  · exact h.relP y hy hk hs hr hp

/-- `EInv.step` when the paused RELEASE event of `x` is not known to exist before the step and not
needed after it. -/
theorem EInvX.step {x : Nat} {w w' : World} (h : EInvX x w) (s : EStep w w')
    (hx : (w'.dev x).kind = .processor → (w'.dev x).shutDown = true → (w'.dev x).reserved ≠ none →
      (w'.dev x).part = none → False) : EInv w' := by
  refine ⟨?_, ?_, ?_, s.env.q h.q⟩
  · intro y hk hs hr hp
    by_cases hy : y = x
    · subst hy; exact (hx hk hs hr hp).elim
    rw [dk_kind (s.dk y)] at hk
    rw [dk_shutDown (s.dk y)] at hs
    obtain ⟨hr', hp'⟩ := s.idleP y hk hs hr hp
    obtain ⟨e, he, hrest⟩ := h.relP y hy hk hs hr' hp'
    rw [dk_aid (s.dk y), s.env.paused]
    exact ⟨e, he, hrest⟩
  · intro y hk hs e he hc
    rw [dk_kind (s.dk y)] at hk
    rw [dk_shutDown (s.dk y)] at hs
    rcases s.env.evNew e he with ho | hn
    · exact h.noRun y hk hs e ho hc
    · constructor
      · intro ha
        have := (hn y hk (Or.inl ha)).2
        rw [hs] at this; cases this
      · intro ha
        have := (hn y hk (Or.inr ha)).2
        rw [hs] at this; cases this
  · intro e he y hk ha
    rw [dk_kind (s.dk y)] at hk
    rw [dk_aid (s.dk y)]
    rw [s.env.paused] at he
    rcases List.mem_append.1 he with he | he
    · rcases s.env.evNew e he with ho | hn
      · exact h.evA e (List.mem_append_left _ ho) y hk ha
      · exact (hn y hk ha).1
    · exact h.evA e (List.mem_append_right _ he) y hk ha

/-- The invariant without `Rel x` and without the paused RELEASE event of `x` (device `x` is about
to give its reservation back). -/
structure InvR (x : Nat) (w : World) : Prop where
  r : RInv w
  e : EInvX x w
  pend : Pend w
  rel : ∀ y, y ≠ x → Rel w y

theorem InvX.toR {x : Nat} {w : World} (h : InvX x w) : InvR x w := ⟨h.r, h.e.toX x, h.pend, h.rel⟩

end C11W
end SimProc
