/-
C03W — hand-overs: `give`, `tryList`, `passHandler`, `bufferLoop`, `passPart`.
-/
import SimProc.Proofs.C03WFloor
import SimProc.Props.C05
namespace SimProc
namespace C03W
open World FloorCoreL C03

theorem wouldAcceptN_core {w w' : World} (hc : w'.core = w.core) (f : Nat) (N : List Nat) (y p : Nat) :
    wouldAcceptN f w' N y p = wouldAcceptN f w N y p := by
  apply wouldAcceptN_congr
  · intro z
    exact ⟨core_eq_dev_kind hc z, core_eq_dev_pred hc z, core_eq_dev_down hc z⟩
  · intro pr; unfold gatePred partValue; simp only [core_eq_part hc]
  · intro z; exact core_eq_canAcceptBasic hc z p

theorem G.tryList {E N : List Nat} {p : Nat} (g : World → Nat → Nat → World × Bool)
    (hg : ∀ w y, G E N w → p < w.parts.length → G E N (g w y p).1)
    (hr : ∀ w y w', g w y p = (w', false) → w'.parts = w.parts) :
    ∀ (l : List Nat) (w : World), G E N w → p < w.parts.length → G E N (World.tryList g w l p).1 := by
  intro l
  induction l with
  | nil => intro w h _; exact h
  | cons y ys ih =>
    intro w h hp
    rw [World.tryList]
    have h1 := hg w y h hp
    rcases hgy : g w y p with ⟨w1, b⟩
    rw [hgy] at h1
    cases b
    · exact ih w1 h1 (by rw [hr w y w1 hgy]; exact hp)
    · exact h1

theorem give_plain (f : Nat) (w : World) (x p : Nat)
    (hk : (w.dev x).kind = .source ∨ (w.dev x).kind = .handler ∨ (w.dev x).kind = .buffer ∨
      (w.dev x).kind = .sink) :
    World.give (f + 1) w x p =
      if w.canAcceptBasic x p then (w.acceptPart x p, true) else (w, false) := by
  rw [World.give]
  rcases hk with hk | hk | hk | hk <;> simp only [hk]

theorem give_proc (f : Nat) (w : World) (x p : Nat) (hk : (w.dev x).kind = .processor)
    (hr : (w.dev x).resReq = none) :
    World.give (f + 1) w x p =
      if w.canAcceptBasic x p then (w.acceptPart x p, true) else (w, false) := by
  rw [World.give]
  simp only [hk, procAcquire_none w x hr]

theorem give_gate (f : Nat) (w : World) (x p : Nat) (hk : (w.dev x).kind = .gate) :
    World.give (f + 1) w x p =
      if !w.gatePred (w.dev x).pred p then (w, false)
      else if !w.canAcceptBasic x p then (w, false)
      else
        match World.tryList (World.give f) (w.addHist p x) ((w.addHist p x).sortedDown x) p with
        | (w1, true) => (w1, true)
        | (w1, false) => (w1.dropHist p, false) := by
  rw [World.give]
  simp only [hk]
  rfl

theorem kindOK_cases {k : Kind} (h : kindOK k = true) :
    (k = .source ∨ k = .handler ∨ k = .buffer ∨ k = .sink) ∨ k = .processor ∨ k = .gate := by
  cases k <;> simp_all [kindOK]

theorem G.give {E N : List Nat} (f : Nat) : ∀ (w : World) (y p : Nat), G E N w →
    p < w.parts.length → G E N (World.give f w y p).1 := by
  induction f with
  | zero => intro w y p h _; rw [World.give]; exact h.setErr _
  | succ f ih =>
    intro w y p h hp
    rcases kindOK_cases (h.s1.kindOK y) with hk | hk | hk
    · rw [give_plain f w y p hk]
      split
      · exact h.acceptPart y p hp
      · exact h
    · rw [give_proc f w y p hk (h.s1.resReq y)]
      split
      · exact h.acceptPart y p hp
      · exact h
    · rw [give_gate f w y p hk]
      split
      · exact h
      · split
        · exact h
        · have h1 := h.addHist p y
          have hp1 : p < (w.addHist p y).parts.length := by rw [addHist_parts_length]; exact hp
          have hT := G.tryList (World.give f) (fun w y hw hpw => ih w y p hw hpw)
            (fun w y w' hh => C08.no_leftovers f w y p w' hh) ((w.addHist p y).sortedDown y) _ h1 hp1
          generalize World.tryList (World.give f) (w.addHist p y) ((w.addHist p y).sortedDown y) p = r at hT
          obtain ⟨w1, b⟩ := r
          cases b
          · exact hT.dropHist p
          · exact hT

theorem G.tryGive {E N : List Nat} {w : World} (h : G E N w) (l : List Nat) (p : Nat)
    (hp : p < w.parts.length) : G E N (World.tryList givePart w l p).1 :=
  G.tryList givePart (fun w y hw hpw => G.give _ w y p hw hpw)
    (fun w y w' hh => C08.no_leftovers_givePart w y p w' hh) l w h hp

theorem holdsD_output_none (d : Dev) (hk : d.kind ≠ .buffer) :
    holdsD { d with output := none } = none := by
  unfold holdsD
  cases hkind : d.kind <;> simp_all

theorem holdsD_output {d : Dev} {q : Nat} (hk : d.kind ≠ .buffer) (h : holdsD d = some q) :
    d.output = some q := by
  rcases holdsD_cases h with h | h | h | h
  · exact h.2.2
  · exact h.2
  · exact h.2.2
  · exact absurd h.1 hk

/-- what a refusing offer round tells: nobody downstream would accept -/
theorem tryGive_refused {w w1 : World} (hs : S1 w) {x p : Nat}
    (ht : World.tryList givePart w (w.sortedDown x) p = (w1, false)) :
    C08L.Refused w w1 ∧ ∀ y ∈ (w.dev x).down, wouldAccept w.fuel w y p = false := by
  refine ⟨C08L.tryList_refused (fun w y w' h => C08L.give_refused _ w y p w' h) ht, ?_⟩
  have := tryList_givePart_answer w (w.sortedDown x) p hs.kok
  rw [ht] at this
  intro y hy
  have hy' := (C08.sortedDown_mem w x y).mpr hy
  cases hh : wouldAccept w.fuel w y p with
  | false => rfl
  | true =>
    have : (w.sortedDown x).any (fun y => wouldAccept w.fuel w y p) = true :=
      List.any_eq_true.mpr ⟨y, hy', hh⟩
    simp_all

theorem G.passHandler {E N : List Nat} {w : World} {x : Nat} (h : G (x :: E) N w)
    (hk : (w.dev x).kind ≠ .buffer) : G E N (w.passHandler x) := by
  have hun : ∀ {N' : List Nat} {w' : World}, G (x :: E) N' w' → (∀ q, holdsD (w'.dev x) ≠ some q) →
      G E N' w' :=
    fun hw hq => hw.unexempt x (fun y hy => (List.mem_cons.mp hy).imp id id)
      (fun q hh => absurd hh (hq q))
  unfold World.passHandler
  dsimp only
  split
  · next hop =>
    refine hun h (fun q hq => ?_)
    have := holdsD_opn hq
    rw [operational_eq, this] at hop
    simp at hop
  · split
    · next ho =>
      refine hun h (fun q hq => ?_)
      rw [holdsD_output hk hq] at ho; cases ho
    · next p hout =>
      have hp : p < w.parts.length :=
        h.valid.dev x p ((heldL_mem _ _).mpr (Or.inr (Or.inl hout)))
      have hT := h.tryGive (w.sortedDown x) p hp
      have hst := C02V.st_tryGive w (w.sortedDown x) p
      rcases ht : World.tryList givePart w (w.sortedDown x) p with ⟨w1, b⟩
      rw [ht] at hT hst
      dsimp only at hT hst
      have hk1 : (w1.dev x).kind ≠ .buffer := by rw [kind_of_st hst]; exact hk
      cases b
      · -- refused by all: flag
        dsimp only
        obtain ⟨href, hno⟩ := tryGive_refused h.s1 ht
        have h2 : G (x :: E) N (w1.modDev x (fun d => { d with waitingDS := true })) :=
          hT.modDev x _ rfl (fun q hq => hT.valid.dev x q hq) (fun _ h => h) (fun _ h => h)
            (Or.inr id) (Or.inl (List.mem_cons_self ..))
        refine h2.unexempt x (fun y hy => (List.mem_cons.mp hy).imp id id) (fun q hq => Or.inr ?_)
        have hx : x < w1.devs.length := by
          have := holdsD_lt hq; simpa using this
        have hc : (w1.modDev x (fun d => { d with waitingDS := true })).core = w1.core :=
          modDev_core_of_core_eq rfl
        have hd2 : (w1.modDev x (fun d => { d with waitingDS := true })).dev x =
            { w1.dev x with waitingDS := true } := dev_modDev_same hx
        have hnw : (w1.dev x).noWR = (w.dev x).noWR := refused_dev href x
        have hout1 : (w1.dev x).output = some p := by
          rw [noWR_field Dev.output (fun _ => rfl) hnw]; exact hout
        have hqp : q = p := by
          rw [hd2] at hq
          have := holdsD_output (d := { w1.dev x with waitingDS := true }) hk1 hq
          rw [show ({ w1.dev x with waitingDS := true } : Dev).output = (w1.dev x).output from rfl,
            hout1] at this
          cases this; rfl
        subst hqp
        refine ⟨by rw [hd2], fun y hy => ?_⟩
        rw [hd2] at hy
        have hy0 : y ∈ (w.dev x).down := by
          rw [← noWR_field Dev.down (fun _ => rfl) hnw]; exact hy
        apply wouldAcceptN_le_wouldAccept
        have hlen : (w1.modDev x (fun d => { d with waitingDS := true })).devs.length = w.devs.length := by
          rw [modDev_devs_length]; exact C08L.refFrame_devs_length href.2
        rw [fuel_of_len hlen, ← wouldAcceptN_nil, wouldAcceptN_core hc, wouldAcceptN_nil,
          wouldAccept_refused href]
        exact hno y hy0
      · -- handed over
        dsimp only
        have h2 : G (x :: E) (x :: N) (w1.modDev x (fun d => { d with output := none })) := by
          refine hT.modDev x _ rfl ?_ (fun _ h => h) (fun y hy => List.mem_cons_of_mem _ hy)
            (Or.inl (List.mem_cons_self ..)) (Or.inl (List.mem_cons_self ..))
          intro q hq
          refine hT.valid.dev x q ?_
          rw [heldL_mem] at hq ⊢
          rcases hq with hq | hq | hq
          · exact Or.inl hq
          · cases hq
          · exact Or.inr (Or.inr hq)
        have h3 : G E (x :: N) (w1.modDev x (fun d => { d with output := none })) := by
          refine hun h2 (fun q hq => ?_)
          by_cases hx : x < w1.devs.length
          · rw [dev_modDev_same hx, holdsD_output_none _ hk1] at hq; cases hq
          · rw [modDev_out_of_range (Nat.le_of_not_lt hx), dev_of_length_le (Nat.le_of_not_lt hx)] at hq
            cases hq
        exact h3.notify x (fun y hy => (List.mem_cons.mp hy).imp id id)
/-! ### a hand-over from `x` does not come back to `x` -/

theorem gReach_chain {w : World} {x : Nat} : ∀ f y, gReach f w y x = true → ∃ k, GChain w k y x ∧ k ≤ f := by
  intro f
  induction f with
  | zero =>
    intro y h
    simp only [gReach, beq_iff_eq] at h
    subst h; exact ⟨0, .here _, Nat.le_refl _⟩
  | succ f ih =>
    intro y h
    simp only [gReach, Bool.or_eq_true, beq_iff_eq, Bool.and_eq_true, List.any_eq_true] at h
    rcases h with h | ⟨hk, z, hz, hr⟩
    · subst h; exact ⟨0, .here _, Nat.zero_le _⟩
    · obtain ⟨k, hc, hkf⟩ := ih z hr
      exact ⟨k + 1, .step hk hz hc, Nat.succ_le_succ hkf⟩

theorem gReach_fuel {w : World} {x y : Nat} {n : Nat} (hd : gateDepthLe n w y = true)
    (h : gReach n w y x = false) (F : Nat) : gReach F w y x = false := by
  cases hh : gReach F w y x with
  | false => rfl
  | true =>
    obtain ⟨k, hc, _⟩ := gReach_chain F y hh
    have := hc.toGReach n (hc.depth n hd)
    rw [h] at this; cases this

theorem same_tryList_g (x p n F : Nat) (g : World → Nat → Nat → World × Bool)
    (hg : ∀ (w : World) (y : Nat), HK w → w.devs.length = n → (w.dev y).kind ≠ .source →
      gReach F w y x = false → Same x w (g w y p).1)
    (hr : ∀ w y w', g w y p = (w', false) → C08L.Refused w w') :
    ∀ (l : List Nat) (w : World), HK w → w.devs.length = n →
      (∀ y ∈ l, (w.dev y).kind ≠ .source ∧ gReach F w y x = false) →
      Same x w (World.tryList g w l p).1 := by
  intro l
  induction l with
  | nil => intro w _ _ _; exact .refl x w
  | cons y ys ihl =>
    intro w hw hn hl
    rw [World.tryList]
    have h1 := hg w y hw hn (hl y (List.mem_cons_self ..)).1 (hl y (List.mem_cons_self ..)).2
    rcases hgy : g w y p with ⟨w1, b⟩
    rw [hgy] at h1
    cases b
    · dsimp only
      have r := hr w y w1 hgy
      refine h1.trans (ihl w1 (hw.of_refused r) (h1.len.trans hn) (fun z hz => ?_))
      have := hl z (List.mem_cons_of_mem _ hz)
      rw [gReach_refused r, h1.kind z]
      exact this
    · exact h1

theorem same_tryGive {w : World} (hs : S1 w) {x : Nat} (hx : x < w.devs.length) (p : Nat) :
    Same x w (World.tryList givePart w (w.sortedDown x) p).1 := by
  refine same_tryList_g x p w.devs.length w.fuel givePart ?_
    (fun w y w' h => C08L.give_refused _ w y p w' h) _ w hs.hk rfl ?_
  · intro w' y hw' hn hsrc hr
    unfold World.givePart
    have : w'.fuel = w.fuel := fuel_of_len hn
    rw [this]
    exact same_give_gates x w.fuel w' y p hw' hsrc hr
  · intro y hy
    have hy' := (C08.sortedDown_mem w x y).mp hy
    obtain ⟨hylt, _⟩ := hs.down_sym hx hy'
    exact ⟨(hs.hk x).2 y hy', gReach_fuel (hs.depth hylt) (hs.noSelf hx hy') _⟩

/-! ### the buffer loop -/

/-- why the loop stopped: queue empty, head still held back, or head refused by everybody -/
def LoopPost (w : World) (x : Nat) : Prop :=
  match (w.dev x).buf with
  | [] => True
  | (t, q) :: _ =>
    (w.dev x).delay - (w.now - t) > 0 ∨ ∀ y ∈ (w.dev x).down, wouldAccept w.fuel w y q = false

theorem G.bufferLoopG {E : List Nat} (x : Nat) (f : Nat) : ∀ (N : List Nat) (w : World),
    G (x :: E) N w → (w.dev x).kind = .buffer → (w.dev x).buf.length < f →
    G (x :: E) (x :: N) (World.bufferLoop f w x) ∧ LoopPost (World.bufferLoop f w x) x := by
  induction f with
  | zero => intro N w _ _ hl; exact absurd hl (Nat.not_lt_zero _)
  | succ f ih =>
    intro N w h hk hl
    have hx : x < w.devs.length := kind_lt (by rw [hk]; decide)
    have hmono : ∀ {w' : World}, G (x :: E) N w' → G (x :: E) (x :: N) w' :=
      fun hw => hw.mono (fun _ h => h) (fun y hy => List.mem_cons_of_mem _ hy)
    rw [C05.bufferLoop_succ]
    cases hb : (w.dev x).buf with
    | nil =>
      dsimp only
      exact ⟨hmono h, by unfold LoopPost; rw [hb]; trivial⟩
    | cons a rest =>
      obtain ⟨t, p⟩ := a
      dsimp only
      split
      · next hheld =>
        exact ⟨hmono h, by unfold LoopPost; rw [hb]; exact Or.inl hheld⟩
      · have hp : p < w.parts.length :=
          h.valid.dev x p ((heldL_mem _ _).mpr (Or.inr (Or.inr ⟨t, by rw [hb]; exact List.mem_cons_self ..⟩)))
        have hT := h.tryGive (w.sortedDown x) p hp
        have hsame := same_tryGive h.s1 hx p
        rcases ht : World.tryList givePart w (w.sortedDown x) p with ⟨w1, b⟩
        rw [ht] at hT hsame
        dsimp only at hT hsame
        obtain ⟨hbuf1, _, _, _, _, hkind1⟩ := core_fields hsame.dev
        cases b
        · -- refused
          dsimp only
          refine ⟨hmono hT, ?_⟩
          obtain ⟨href, hno⟩ := tryGive_refused h.s1 ht
          unfold LoopPost
          rw [hbuf1, hb]
          right
          intro y hy
          have hd : (w1.dev x).down = (w.dev x).down := (core_fields hsame.dev).2.2.2.2.1
          rw [hd] at hy
          rw [fuel_of_len hsame.len, wouldAccept_refused href]
          exact hno y hy
        · -- released
          dsimp only
          unfold C05.popHead
          dsimp only
          have hx1 : x < w1.devs.length := by rw [hsame.len]; exact hx
          have h2 : G (x :: E) (x :: N)
              (w1.modDev x (fun d => { d with level := d.level - w.leafCount p, buf := d.buf.drop 1 })) := by
            refine hT.modDev x _ rfl ?_ (fun _ h => h) (fun y hy => List.mem_cons_of_mem _ hy)
              (Or.inl (List.mem_cons_self ..)) (Or.inl (List.mem_cons_self ..))
            intro q hq
            refine hT.valid.dev x q ?_
            rw [heldL_mem] at hq ⊢
            rcases hq with hq | hq | ⟨t', hq⟩
            · exact Or.inl hq
            · exact Or.inr (Or.inl hq)
            · exact Or.inr (Or.inr ⟨t', List.mem_of_mem_drop hq⟩)
          have h3 := h2.addRec (.level x
            (w1.modDev x (fun d => { d with level := d.level - w.leafCount p, buf := d.buf.drop 1 })).now
            ((w1.modDev x (fun d => { d with level := d.level - w.leafCount p, buf := d.buf.drop 1 })).dev x).level)
          have hd3 : ((w1.modDev x (fun d => { d with level := d.level - w.leafCount p, buf := d.buf.drop 1 })).addRec
              (.level x
                (w1.modDev x (fun d => { d with level := d.level - w.leafCount p, buf := d.buf.drop 1 })).now
                ((w1.modDev x (fun d => { d with level := d.level - w.leafCount p, buf := d.buf.drop 1 })).dev x).level)).dev x
              = { w1.dev x with level := (w1.dev x).level - w.leafCount p, buf := (w1.dev x).buf.drop 1 } := by
            rw [dev_addRec, dev_modDev_same hx1]
          have := ih (x :: N) _ h3 (by rw [hd3]; exact hkind1.trans hk)
            (by rw [hd3]; show ((w1.dev x).buf.drop 1).length < f
                rw [hbuf1, hb]; simp only [List.drop_succ_cons, List.drop_zero]
                rw [hb] at hl; simp only [List.length_cons] at hl; omega)
          exact ⟨this.1.mono (fun _ h => h) (fun y hy => by
            rcases List.mem_cons.mp hy with rfl | hy
            · exact List.mem_cons_self ..
            · exact hy), this.2⟩

theorem budget_cond (d : Dev) :
    (match d.maxParts.map (fun m => if m - d.produced < 0 then 0 else m - d.produced) with
      | some r => decide (r < 1)
      | none => false) = !budgetOK d := by
  unfold budgetOK
  cases hm : d.maxParts with
  | none => rfl
  | some m =>
    simp only [Option.map_some]
    by_cases h : 1 ≤ m - d.produced
    · simp only [h, decide_true, Bool.not_true, decide_eq_false_iff_not]
      split <;> omega
    · simp only [h, decide_false, Bool.not_false, decide_eq_true_eq]
      split <;> omega

theorem G.passPartG {E N : List Nat} {w : World} {x : Nat} (h : G (x :: E) N w) :
    G E N (w.passPart x) := by
  have hun : ∀ {N' : List Nat} {w' : World}, G (x :: E) N' w' → (∀ q, holdsD (w'.dev x) ≠ some q) →
      G E N' w' :=
    fun hw hq => hw.unexempt x (fun y hy => (List.mem_cons.mp hy).imp id id)
      (fun q hh => absurd hh (hq q))
  unfold World.passPart
  dsimp only
  split
  · -- source
    next hk =>
    cases hbud : budgetOK (w.dev x)
    · rw [if_pos]
      · refine hun h (fun q hq => ?_)
        unfold holdsD at hq
        simp only [hk, hbud] at hq
        cases hq
      · have := budget_cond (w.dev x)
        rw [hbud] at this
        exact this
    · rw [if_neg]
      rotate_left
      · have := budget_cond (w.dev x)
        rw [hbud] at this
        intro hc
        exact Bool.noConfusion (hc.symm.trans this)
      split
      · next ho =>
        refine hun h (fun q hq => ?_)
        rw [holdsD_output (by rw [hk]; decide) hq] at ho; cases ho
      · next p _ =>
        have h1 := h.passHandler (by rw [hk]; decide)
        have hk1 : ((w.passHandler x).dev x).kind = .source := by
          rw [kind_of_st (C02V.st_passHandler w x)]; exact hk
        generalize w.passHandler x = w1 at h1 hk1
        split
        · next ho1 =>
          apply G.scheduleFinish
          apply G.addRec
          refine h1.modDev x _ rfl (fun q hq => h1.valid.dev x q hq) (fun _ h => h) (fun _ h => h)
            (Or.inr id) (Or.inr ?_)
          intro q hq
          exfalso
          unfold holdsD at hq
          simp only [hk1] at hq
          have : (w1.dev x).output = none := by simpa using ho1
          rw [this] at hq
          split at hq <;> cases hq
        · exact h1
  · -- buffer
    next hk =>
    have hx : x < w.devs.length := kind_lt (by rw [hk]; decide)
    obtain ⟨h1, hpost⟩ := G.bufferLoopG x ((w.dev x).buf.length + 1) N w h hk (Nat.lt_succ_self _)
    have hk1 : ((World.bufferLoop ((w.dev x).buf.length + 1) w x).dev x).kind = .buffer := by
      rw [kind_of_st (C02V.st_bufferLoop _ w x)]; exact hk
    generalize World.bufferLoop ((w.dev x).buf.length + 1) w x = w1 at h1 hpost hk1
    have hx1 : x < w1.devs.length := kind_lt (by rw [hk1]; decide)
    have hnot : ∀ {w2 : World}, G E (x :: N) w2 → G E N (w2.notify x) :=
      fun hw => hw.notify x (fun y hy => (List.mem_cons.mp hy).imp id id)
    cases hb : (w1.dev x).buf with
    | nil =>
      dsimp only
      refine hnot (hun h1 (fun q hq => ?_))
      unfold holdsD at hq
      simp only [hk1, hb] at hq
      cases hq
    | cons a rest =>
      obtain ⟨t, q⟩ := a
      dsimp only
      split
      · next hrem =>
        refine hnot (h1.schedulePass x _ (by omega) (fun y hy => (List.mem_cons.mp hy).imp id id) ?_)
        intro _ _
        unfold dueD
        simp only [hk1, hb]
        split <;> omega
      · next hrem =>
        have h2 : G (x :: E) (x :: N) (w1.setDev x { w1.dev x with waitingDS := true }) :=
          h1.setDev x _ rfl (fun q hq => h1.valid.dev x q hq) (fun _ h => h) (fun _ h => h)
            (Or.inr id) (Or.inl (List.mem_cons_self ..))
        rw [← hb]
        suffices h3 : G E (x :: N) (w1.setDev x { w1.dev x with waitingDS := true }) from hnot h3
        refine h2.unexempt x (fun y hy => (List.mem_cons.mp hy).imp id id)
          (fun q' hq' => Or.inr ?_)
        have hd2 : (w1.setDev x { w1.dev x with waitingDS := true }).dev x =
            { w1.dev x with waitingDS := true } := dev_setDev_same hx1
        have hc : (w1.setDev x { w1.dev x with waitingDS := true }).core = w1.core :=
          setDev_core_of_core_eq rfl
        rw [hd2] at hq'
        have hqq : q' = q := by
          unfold holdsD at hq'
          simp only [hk1, hb] at hq'
          simpa using hq'.symm
        subst hqq
        refine ⟨by rw [hd2], fun y hy => ?_⟩
        rw [hd2] at hy
        apply wouldAcceptN_le_wouldAccept
        rw [fuel_of_len (core_eq_devs_length hc), ← wouldAcceptN_nil, wouldAcceptN_core hc,
          wouldAcceptN_nil]
        unfold LoopPost at hpost
        rw [hb] at hpost
        rcases hpost with hpost | hpost
        · exact absurd hpost hrem
        · exact hpost y hy
  · -- batcher
    next hk =>
    have := h.s1.kindOK x
    rw [hk] at this; cases this
  · -- sink
    next hk =>
    refine hun h (fun q hq => ?_)
    unfold holdsD at hq
    simp only [hk] at hq
    cases hq
  · next h1 h2 h3 h4 =>
    exact h.passHandler (fun hb => h2 hb)
end C03W
end SimProc
