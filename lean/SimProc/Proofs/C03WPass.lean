/-
C03W — hand-overs: `give`, `tryList`, `passHandler`, `bufferLoop`, `passPart`.
-/
import SimProc.Proofs.C03WFloor
import SimProc.Proofs.C03XCons
import SimProc.Proofs.C03XSwv
import SimProc.Props.C05
import SimProc.Proofs.C03ZWorld
namespace SimProc
namespace C03W
open World FloorCoreL C03

/-! ### what a hand-over of `p` needs: nobody else offers `p` or a batch under construction -/

/-- the conservation invariant of C02, required only if batchers or batches exist -/
def InvB (w : World) : Prop := ¬ NoBatch w → C02V.InvW w

/-- no holder outside `E` offers `p` or the batch under construction of any batcher (required only
if batchers or batches exist) -/
def PFree (E : List Nat) (w : World) (p : Nat) : Prop :=
  ¬ NoBatch w → ∀ d q, d ∉ E → holdsD (w.dev d) = some q → q ≠ p ∧ ∀ y, (w.dev y).inprog ≠ some q

theorem holdsD_noWR (d : Dev) : holdsD d.noWR = holdsD d := rfl

theorem noBatch_of_devs {w w' : World} (hl : w'.devs.length = w.devs.length)
    (hd : ∀ y, (w'.dev y).kind = (w.dev y).kind ∧ (w'.dev y).genBatch = (w.dev y).genBatch) :
    NoBatch w' ↔ NoBatch w := by
  have key : ∀ v : World, NoBatch v ↔ ∀ y, (v.dev y).kind ≠ .batcher ∧ (v.dev y).genBatch = 0 ∧
      (v.dev y).kind ≠ .gpath ∧ (v.dev y).kind ≠ .ginput ∧ (v.dev y).kind ≠ .goutput := by
    intro v
    constructor
    · intro h y
      rcases dev_mem_or_default v y with hm | hdf
      · exact h _ hm
      · rw [hdf]; exact ⟨by decide, rfl, by decide, by decide, by decide⟩
    · intro h d hdm
      obtain ⟨i, hi, rfl⟩ := List.getElem_of_mem hdm
      rw [← dev_getElem hi]; exact h i
  rw [key, key]
  constructor
  · intro h y; rw [← (hd y).1, ← (hd y).2]; exact h y
  · intro h y; rw [(hd y).1, (hd y).2]; exact h y

theorem noBatch_of_ref {w w' : World} (r : Ref w w') : NoBatch w' ↔ NoBatch w :=
  noBatch_of_devs (C08L.refFrame_devs_length r.ref.2) (fun y =>
    ⟨noWR_field Dev.kind (fun _ => rfl) (refused_dev r.ref y),
     noWR_field Dev.genBatch (fun _ => rfl) (refused_dev r.ref y)⟩)

theorem PFree.of_ref {E : List Nat} {w w' : World} {p : Nat} (h : PFree E w p) (r : Ref w w') :
    PFree E w' p := by
  intro hnb d q hd hq
  have e1 : holdsD (w'.dev d) = holdsD (w.dev d) := by
    rw [← holdsD_noWR, refused_dev r.ref d, holdsD_noWR]
  rw [e1] at hq
  obtain ⟨h1, h2⟩ := h (fun hn => hnb ((noBatch_of_ref r).mpr hn)) d q hd hq
  refine ⟨h1, fun y => ?_⟩
  rw [noWR_field Dev.inprog (fun _ => rfl) (refused_dev r.ref y)]
  exact h2 y

theorem PFree.of_devs {E : List Nat} {w w' : World} {p : Nat} (h : PFree E w p)
    (hd : w'.devs = w.devs) : PFree E w' p := by
  have hdv : ∀ y, w'.dev y = w.dev y := fun y => dev_congr hd y
  intro hnb d q hdE hq
  rw [hdv] at hq
  have hnb0 : ¬ NoBatch w := fun hn => hnb (by unfold NoBatch; rw [hd]; exact hn)
  obtain ⟨h1, h2⟩ := h hnb0 d q hdE hq
  exact ⟨h1, fun y => by rw [hdv]; exact h2 y⟩

/-- from the conservation invariant: when `x` is about to hand `p` over, nobody else offers it -/
theorem pfree_of_inv {E : List Nat} {w : World} {x p : Nat} (hI : InvB w)
    (hp : p ∈ heldL (w.dev x)) : PFree (x :: E) w p := by
  intro hnb d q hd hq
  have hdx : d ≠ x := fun hc => hd (hc ▸ List.mem_cons_self ..)
  exact ⟨inv_holds_ne (hI hnb) hdx hq hp, fun y => (inv_free (hI hnb) hq y).1⟩

theorem G.tryList {E N A : List Nat} {p : Nat} (g : World → Nat → Nat → World × Bool)
    (hg : ∀ w y, G E N A w → p < w.parts.length → PFree E w p → G E N A (g w y p).1)
    (hr : ∀ w y w', g w y p = (w', false) → Ref w w') :
    ∀ (l : List Nat) (w : World), G E N A w → p < w.parts.length → PFree E w p →
      G E N A (World.tryList g w l p).1 := by
  intro l
  induction l with
  | nil => intro w h _ _; exact h
  | cons y ys ih =>
    intro w h hp hF
    rw [World.tryList]
    have h1 := hg w y h hp hF
    rcases hgy : g w y p with ⟨w1, b⟩
    rw [hgy] at h1
    cases b
    · have r := hr w y w1 hgy
      exact ih w1 h1 (by rw [r.ref.1]; exact hp) (hF.of_ref r)
    · exact h1

theorem give_plain (f : Nat) (w : World) (x p : Nat)
    (hk : (w.dev x).kind = .source ∨ (w.dev x).kind = .handler ∨ (w.dev x).kind = .buffer ∨
      (w.dev x).kind = .sink ∨ (w.dev x).kind = .batcher) :
    World.give (f + 1) w x p =
      if w.canAcceptBasic x p then (w.acceptPart x p, true) else (w, false) := by
  rw [World.give]
  rcases hk with hk | hk | hk | hk | hk <;> simp only [hk]

/-- **Acquiring resources.**  A refusal (registration with the manager) keeps the invariant; after
a success the processor may be more willing than before (it holds a reservation now), so its
notification is pending until it has taken the part. -/
theorem G.procAcquire {E N A : List Nat} {w : World} (h : G E N A w) (x : Nat) :
    ((w.procAcquire x).2 = false → G E N A (w.procAcquire x).1) ∧
    ((w.procAcquire x).2 = true → G E (x :: N) A (w.procAcquire x).1) := by
  have hmono : G E (x :: N) A w :=
    h.mono (fun _ h => h) (fun y hy => List.mem_cons_of_mem _ hy) (fun _ h => h)
  cases hq : (w.dev x).resReq with
  | none =>
    rw [procAcquire_noop w x (Or.inl hq)]
    exact ⟨(fun hh => nomatch hh), fun _ => hmono⟩
  | some req =>
    cases hres : (w.dev x).reserved with
    | some id =>
      rw [procAcquire_noop w x (Or.inr (by rw [hres]; rfl))]
      exact ⟨(fun hh => nomatch hh), fun _ => hmono⟩
    | none =>
      have hnn : ∀ e ∈ req, 0 ≤ e.2 := h.sc.reqNN x hq
      have hx := valid_of_resReq hq
      by_cases hf : C09.fits w.rm req
      · rw [procAcquire_fits w x req hq hres hnn hf]
        refine ⟨(fun hh => nomatch hh), fun _ => ?_⟩
        have h1 := ((h.withRm (w.rm.reserve req).1 (C10.reserve_spec w.rm req).1).rmEffects
          (w.rm.reserve req).2.2.2 false)
        exact h1.modDev x (fun d => { d with reserved := some w.rm.resv.length }) rfl
          (fun q hq => h1.valid.dev x q hq) (fun _ hy => hy)
          (fun y hy => List.mem_cons_of_mem _ hy) (Or.inl (List.mem_cons_self ..))
          (Or.inr (fun q hq => ⟨hq, Int.le_refl _, id⟩))
      · rw [procAcquire_not_fits w x req hq hres hnn hf]
        split
        · exact ⟨fun _ => h, fun hh => nomatch hh⟩
        · next hfl =>
          refine ⟨fun _ => ?_, fun hh => nomatch hh⟩
          have h1 := ((h.withRmReg (w.rm.register req (.proc x)).1 req x rfl).rmEffects [] w.rm.inited)
          have hd1 : (({ w with rm := (w.rm.register req (.proc x)).1 } : World).rmEffects []
              w.rm.inited).dev x = w.dev x := by rw [dev_rmEffects]; rfl
          refine h1.modDev x (fun d => { d with waitingRes := true }) rfl
            (fun q hq => h1.valid.dev x q hq) (fun _ h => h) (fun _ h => h)
            (Or.inr (Or.inr (fun n => ?_))) (Or.inr (fun q hq => ⟨hq, Int.le_refl _, id⟩)) ?_
          · -- registering never makes the processor more willing
            rw [hd1]; exact accB_register n _
          · intro _
            right
            refine ⟨req, ?_, ?_⟩
            · rw [hd1]; exact hq
            · rw [rmEffects_rm]
              show (req, Cb.proc x) ∈ w.rm.waiting ++ [(req, Cb.proc x)]
              simp

theorem give_gate (f : Nat) (w : World) (x p : Nat) (hk : (w.dev x).kind = .gate) :
    World.give (f + 1) w x p =
      if !w.gatePred (w.dev x).pred p then (w, false)
      else if !w.canAcceptBasic x p then (w, false)
      else
        match World.tryList (World.give f) (w.addHist p x) ((w.addHist p x).sortedDown x) p with
        | (w1, true) => (w1, true)
        | (w1, false) => (w1.dropHist p, false) := by
  rw [World.give]
  simp only [hk]
  rfl

theorem kind_cases6 (k : Kind) :
    (k = .source ∨ k = .handler ∨ k = .buffer ∨ k = .sink ∨ k = .batcher) ∨ k = .processor ∨
      k = .gate ∨ k = .ginput ∨ k = .gpath ∨ k = .goutput := by
  cases k <;> simp

/-- the group-path stack of a part that nobody (outside `E`) offers may change -/
theorem G.modStack {E N A : List Nat} {w : World} (h : G E N A w) (p : Nat)
    (g : List Nat → List Nat) (hnb : ¬ NoBatch w) (hF : PFree E w p)
    (hs : (∀ z ∈ (w.part p).stack, (w.dev z).kind = .gpath) →
      ∀ z ∈ g (w.part p).stack, (w.dev z).kind = .gpath) :
    G E N A (w.modPart p (fun r => { r with stack := g r.stack })) :=
  h.modPartKids p _ (fun _ => rfl) (fun d hd hc => (hF hnb d p hd hc).1 rfl) hnb
    (fun l hl => h.kv.part p hl) hs

theorem G.give {E N A : List Nat} (f : Nat) : ∀ (w : World) (y p : Nat), G E N A w →
    p < w.parts.length → PFree E w p → G E N A (World.give f w y p).1 := by
  induction f with
  | zero => intro w y p h _ _; rw [World.give]; exact h.setErr _
  | succ f ih =>
    intro w y p h hp hF
    rcases kind_cases6 (w.dev y).kind with hk | hk | hk | hk | hk | hk
    · rw [give_plain f w y p hk]
      split
      · next hc =>
        by_cases hkb : (w.dev y).kind = .batcher
        · -- a batcher that accepts is counted as willing while it takes the part
          have hacc : ∀ n, accB n (w.dev y) = true := by
            intro n
            have h1 : accM w y p = true := by
              unfold accM procM; rw [hc, hkb]; rfl
            rw [accM_eq] at h1
            unfold accB accB0 at h1 ⊢
            simp only [hkb] at h1 ⊢
            exact h1
          have h1 := h.introA y hkb hacc
          refine (h1.acceptPart y p hp (fun _ => ⟨List.mem_cons_self .., fun d q hd hq => ?_⟩)).dropA
            (fun z hz => List.mem_cons_of_mem _ hz)
          have hnb : ¬ NoBatch w := fun hn => (noBatch_dev hn y).1 hkb
          obtain ⟨h2, h3⟩ := hF hnb d q (fun hc' => hd (List.mem_cons_of_mem _ hc')) hq
          exact ⟨h2, h3 y⟩
        · exact h.acceptPart y p hp (fun hb => absurd hb hkb)
      · exact h
    · rw [give_processor f w y p hk]
      split
      · have hpa := h.procAcquire y
        have hpp : (w.procAcquire y).1.parts.length = w.parts.length := by
          rw [procAcquire_fst_parts]
        have hkk : ((w.procAcquire y).1.dev y).kind = .processor := by
          rw [procAcquire_dev_field Dev.kind (fun _ _ _ => rfl) w y y]; exact hk
        rcases hacq : w.procAcquire y with ⟨w1, b⟩
        rw [hacq] at hpa hpp hkk
        cases b
        · exact hpa.1 rfl
        · dsimp only at hpp hkk ⊢
          exact (hpa.2 rfl).acceptPartD p (by rw [hpp]; exact hp) (by rw [hkk]; rfl)
            (kind_lt (by rw [hkk]; decide)) (by rw [hkk]; decide)
            (fun hyA => by
              have := h.aok y hyA
              rw [hk] at this; cases this)
      · exact h
    · rw [give_gate f w y p hk]
      split
      · exact h
      · split
        · exact h
        · have h1 := h.addHist p y
          have hp1 : p < (w.addHist p y).parts.length := by rw [addHist_parts_length]; exact hp
          have hF1 : PFree E (w.addHist p y) p := hF.of_devs (addHist_devs w p y)
          have hT := G.tryList (World.give f) (fun w y hw hpw hfw => ih w y p hw hpw hfw)
            (fun w y w' hh => give_ref f w y p w' hh) ((w.addHist p y).sortedDown y) _ h1 hp1 hF1
          generalize World.tryList (World.give f) (w.addHist p y) ((w.addHist p y).sortedDown y) p = r at hT
          obtain ⟨w1, b⟩ := r
          cases b
          · exact hT.dropHist p
          · exact hT
    · -- group input
      rw [World.give]
      simp only [hk]
      split
      · exact h
      · exact G.tryList (World.give f) (fun w y hw hpw hfw => ih w y p hw hpw hfw)
          (fun w y w' hh => give_ref f w y p w' hh) _ _ h hp hF
    · -- group path: the part enters the group
      have hnb : ¬ NoBatch w := fun hn => (noBatch_grp hn y).1 hk
      rw [World.give]
      simp only [hk]
      split
      · exact h
      · have h1 : G E N A (w.modPart p (fun r => { r with stack := r.stack ++ [y] })) :=
          h.modStack p (fun s => s ++ [y]) hnb hF (fun h0 z hz => by
            rcases List.mem_append.mp hz with hz | hz
            · exact h0 z hz
            · rw [List.mem_singleton] at hz; rw [hz]; exact hk)
        have h2 := h1.addHist p y
        have hp2 : p < ((w.modPart p (fun r => { r with stack := r.stack ++ [y] })).addHist p y).parts.length := by
          rw [addHist_parts_length]; simpa using hp
        have hF2 : PFree E ((w.modPart p (fun r => { r with stack := r.stack ++ [y] })).addHist p y) p :=
          hF.of_devs (by rw [addHist_devs]; rfl)
        have h3 := ih _ ((((w.modPart p (fun r => { r with stack := r.stack ++ [y] })).addHist p y).groups.getD
          (w.dev y).group default).input) p h2 hp2 hF2
        have hr3 := fun w' => give_ref f ((w.modPart p (fun r => { r with stack := r.stack ++ [y] })).addHist p y)
          ((((w.modPart p (fun r => { r with stack := r.stack ++ [y] })).addHist p y).groups.getD
          (w.dev y).group default).input) p w'
        generalize World.give f ((w.modPart p (fun r => { r with stack := r.stack ++ [y] })).addHist p y)
          ((((w.modPart p (fun r => { r with stack := r.stack ++ [y] })).addHist p y).groups.getD
          (w.dev y).group default).input) p = r at h3 hr3
        obtain ⟨w1, b⟩ := r
        cases b
        · have r := hr3 w1 rfl
          have hnb1 : ¬ NoBatch w1 := fun hn => hnb
            ((noBatch_of_devs (by rw [addHist_devs]; rfl) (fun z => by rw [dev_addHist]; exact ⟨rfl, rfl⟩)).mp
              ((noBatch_of_ref r).mp hn))
          dsimp only
          refine (h3.modStack p (fun s => s.dropLast) hnb1 (hF2.of_ref r) (fun h0 z hz => ?_)).dropHist p
          exact h0 z (List.dropLast_subset _ hz)
        · exact h3
    · -- group output: the part leaves the group
      have hnb : ¬ NoBatch w := fun hn => (noBatch_grp hn y).2.2 hk
      rw [World.give]
      simp only [hk]
      cases hl : (w.part p).stack.getLast? with
      | none => exact h.setErr _
      | some g =>
        simp only []
        have h1 : G E N A (w.modPart p (fun r => { r with stack := r.stack.dropLast })) :=
          h.modStack p (fun s => s.dropLast) hnb hF (fun h0 z hz =>
            h0 z (List.dropLast_subset _ hz))
        have hg : (w.dev g).kind = .gpath := h.stk.top hk p g (List.mem_of_getLast? hl)
        have hF1 : PFree E (w.modPart p (fun r => { r with stack := r.stack.dropLast })) p :=
          hF.of_devs rfl
        have hT := G.tryList (World.give f) (fun w y hw hpw hfw => ih w y p hw hpw hfw)
          (fun w y w' hh => give_ref f w y p w' hh)
          ((w.modPart p (fun r => { r with stack := r.stack.dropLast })).sortedDown g) _ h1
          (by simpa using hp) hF1
        have hR := fun w' => tryList_ref (g := World.give f) (p := p)
          (fun w y w' hh => give_ref f w y p w' hh)
          (w := w.modPart p (fun r => { r with stack := r.stack.dropLast })) (w' := w')
          (l := (w.modPart p (fun r => { r with stack := r.stack.dropLast })).sortedDown g)
        generalize World.tryList (World.give f) (w.modPart p (fun r => { r with stack := r.stack.dropLast }))
          ((w.modPart p (fun r => { r with stack := r.stack.dropLast })).sortedDown g) p = r at hT hR
        obtain ⟨w1, b⟩ := r
        cases b
        · have r := hR w1 rfl
          have hnb1 : ¬ NoBatch w1 := fun hn => hnb
            ((noBatch_of_devs (w := w) (w' := w.modPart p (fun r => { r with stack := r.stack.dropLast }))
              rfl (fun z => ⟨rfl, rfl⟩)).mp ((noBatch_of_ref r).mp hn))
          have hg1 : (w1.dev g).kind = .gpath := by
            rw [(topoEq_refused r.ref).kind]; exact hg
          refine hT.modStack p (fun s => s ++ [g]) hnb1 (hF1.of_ref r) (fun h0 z hz => ?_)
          rcases List.mem_append.mp hz with hz | hz
          · exact h0 z hz
          · rw [List.mem_singleton] at hz; rw [hz]; exact hg1
        · exact hT

theorem G.tryGive {E N A : List Nat} {w : World} (h : G E N A w) (l : List Nat) (p : Nat)
    (hp : p < w.parts.length) (hF : PFree E w p) : G E N A (World.tryList givePart w l p).1 :=
  G.tryList givePart (fun w y hw hpw hfw => G.give _ w y p hw hpw hfw)
    (fun w y w' hh => give_ref _ w y p w' hh) l w h hp hF

theorem holdsD_output_none (d : Dev) (hk : d.kind ≠ .buffer) :
    holdsD { d with output := none } = none := by
  unfold holdsD
  cases hkind : d.kind <;> simp_all

theorem holdsD_output {d : Dev} {q : Nat} (hk : d.kind ≠ .buffer) (h : holdsD d = some q) :
    d.output = some q := by
  rcases holdsD_cases h with h | h | h | h | h
  · exact h.2.2
  · exact h.2
  · exact h.2.2
  · exact absurd h.1 hk
  · exact h.2

/-- what a refusing offer round tells: afterwards nobody downstream would accept (in the
invariant's sense) -/
theorem tryGive_refused {w w1 : World} (hs : SC w) {x p : Nat} (hp : PV w p)
    (ht : World.tryList givePart w (w.sortedDown x) p = (w1, false)) :
    Ref w w1 ∧ ∀ y ∈ (w.dev x).down, wouldAcceptN w.fuel w1 [] [] y p = false := by
  have hr : Ref w w1 := tryList_ref (fun w y w' h => give_ref _ w y p w' h) ht
  refine ⟨hr, ?_⟩
  -- `givePart` uses the fuel of the world it is called in; the number of devices never changes
  have key : ∀ (l : List Nat) (w0 w' : World), w0.devs.length = w.devs.length → KOK w0 → PV w0 p →
      (w0.part p).stack = (w.part p).stack →
      World.tryList givePart w0 l p = (w', false) →
      ∀ y ∈ l, wouldAcceptS w.fuel w' [] [] y p (w.part p).stack = false := by
    intro l
    induction l with
    | nil => intro w0 w' _ _ _ _ _ y hy; cases hy
    | cons z zs ih =>
      intro w0 w' hl hk hv hst h y hy
      rcases hgz : givePart w0 z p with ⟨w2, b⟩
      cases b
      · rw [C08L.tryList_cons_false _ hgz] at h
        have r1 : Ref w0 w2 := give_ref _ w0 z p w2 hgz
        have hl2 : w2.devs.length = w.devs.length :=
          (C08L.refFrame_devs_length r1.ref.2).trans hl
        rcases List.mem_cons.mp hy with rfl | hy
        · have h1 := give_refusedR _ w0 y p w2 hk hv hgz
          rw [fuel_of_len hl, hst] at h1
          have r2 : Ref w2 w' := tryList_ref (fun w y w' h => give_ref _ w y p w' h) h
          cases hh : wouldAcceptS w.fuel w' [] [] y p (w.part p).stack with
          | false => rfl
          | true => rw [wouldAcceptS_ref r2 [] _ y p _ hh] at h1; cases h1
        · exact ih w2 w' hl2 (hk.of_refused r1.ref) (hv.of_refused r1.ref)
            (by rw [part_congr r1.ref.1]; exact hst) h y hy
      · rw [C08L.tryList_cons_true _ hgz] at h
        simp at h
  intro y hy
  unfold wouldAcceptN
  rw [part_congr hr.ref.1]
  exact key _ w w1 rfl hs.kok hp rfl ht y ((C08.sortedDown_mem w x y).mpr hy)

/-- every device a hand-over can reach exists -/
theorem SC.giveOK {w : World} (hs : SC w) (x : Nat) : C02V.GiveOK w x := by
  have key : ∀ y z, C02V.Reach (C02V.st w) y z → y < w.devs.length → z < w.devs.length := by
    intro y z hr
    induction hr with
    | self y _ => exact id
    | gate y z u hk hz _ ih =>
      intro hy
      rw [C02V.st_down] at hz
      exact ih (hs.down_sym hy hz).1
    | gpath y u hk _ ih =>
      intro hy
      rw [C02V.st_kind] at hk
      refine ih ?_
      rw [C02V.st_group, C02V.st_gin]
      exact ((hs.groupOK hy).1 hk).1
    | goutput y g z u hk hz _ ih =>
      intro _
      rw [C02V.st_down] at hz
      by_cases hg : g < w.devs.length
      · exact ih (hs.down_sym hg hz).1
      · rw [dev_of_length_le (Nat.le_of_not_lt hg)] at hz; cases hz
  intro y hy z hr
  by_cases hx : x < w.devs.length
  · exact key y z hr (hs.down_sym hx hy).1
  · rw [dev_of_length_le (Nat.le_of_not_lt hx)] at hy; cases hy

/-- The hand-over attempt of a handler-like device `x` (not a buffer).  If `x` is a batcher whose
output has been taken, it is counted as willing afterwards (it has just notified upstream): its
loop may free its input slot without a further notification. -/
theorem G.passHandler {E N : List Nat} {w : World} {x : Nat} (h : G (x :: E) N [] w)
    (hk : (w.dev x).kind ≠ .buffer) (hI : InvB w) :
    G E N [] (w.passHandler x) ∧
      ((w.dev x).kind = .batcher → (w.dev x).output ≠ none →
        ((w.passHandler x).dev x).output = none → G E N [x] (w.passHandler x)) := by
  have hun : ∀ {N' : List Nat} {w' : World}, G (x :: E) N' [] w' → (∀ q, holdsD (w'.dev x) ≠ some q) →
      G E N' [] w' :=
    fun hw hq => hw.unexempt x (fun y hy => (List.mem_cons.mp hy).imp id id)
      (fun q hh => absurd hh (hq q))
  unfold World.passHandler
  dsimp only
  split
  · next hop =>
    refine ⟨hun h (fun q hq => ?_), fun hb _ _ => ?_⟩
    · have := holdsD_opn hq
      rw [operational_eq, this] at hop
      simp at hop
    · exfalso
      rw [operational_eq] at hop
      unfold opn at hop
      rw [hb] at hop
      simp at hop
  · split
    · next ho =>
      refine ⟨hun h (fun q hq => ?_), fun _ hne _ => absurd ho hne⟩
      rw [holdsD_output hk hq] at ho; cases ho
    · next p hout =>
      have hpm : p ∈ heldL (w.dev x) := (heldL_mem _ _).mpr (Or.inr (Or.inl hout))
      have hp : p < w.parts.length := h.valid.dev x p hpm
      have hT := h.tryGive (w.sortedDown x) p hp (pfree_of_inv hI hpm)
      have hst := C02V.st_tryGive w (w.sortedDown x) p
      rcases ht : World.tryList givePart w (w.sortedDown x) p with ⟨w1, b⟩
      rw [ht] at hT hst
      dsimp only at hT hst
      have hk1 : (w1.dev x).kind ≠ .buffer := by rw [kind_of_st hst]; exact hk
      cases b
      · -- refused by all: flag
        dsimp only
        obtain ⟨href, hno⟩ := tryGive_refused h.sc (Or.inl hp) ht
        have hnw : (w1.dev x).noWR = (w.dev x).noWR := refused_dev href.ref x
        have hout1 : (w1.dev x).output = some p := by
          rw [noWR_field Dev.output (fun _ => rfl) hnw]; exact hout
        refine ⟨?_, fun _ _ hc => ?_⟩
        · have h2 : G (x :: E) N [] (w1.modDev x (fun d => { d with waitingDS := true })) :=
            hT.modDev x _ rfl (fun q hq => hT.valid.dev x q hq) (fun _ h => h) (fun _ h => h)
              (Or.inr (Or.inr (fun _ => id))) (Or.inl (List.mem_cons_self ..))
          refine h2.unexempt x (fun y hy => (List.mem_cons.mp hy).imp id id) (fun q hq => Or.inr ?_)
          have hx : x < w1.devs.length := by
            have := holdsD_lt hq; simpa using this
          have hc : (w1.modDev x (fun d => { d with waitingDS := true })).core = w1.core :=
            modDev_core_of_core_eq rfl
          have hd2 : (w1.modDev x (fun d => { d with waitingDS := true })).dev x =
              { w1.dev x with waitingDS := true } := dev_modDev_same hx
          have hqp : q = p := by
            rw [hd2] at hq
            have := holdsD_output (d := { w1.dev x with waitingDS := true }) hk1 hq
            rw [show ({ w1.dev x with waitingDS := true } : Dev).output = (w1.dev x).output from rfl,
              hout1] at this
            cases this; rfl
          subst hqp
          refine ⟨by rw [hd2], fun y hy => ?_⟩
          rw [hd2] at hy
          have hy0 : y ∈ (w.dev x).down := by
            rw [← noWR_field Dev.down (fun _ => rfl) hnw]; exact hy
          apply wouldAcceptN_of_nil
          have hlen : (w1.modDev x (fun d => { d with waitingDS := true })).devs.length = w.devs.length := by
            rw [modDev_devs_length]; exact C08L.refFrame_devs_length href.ref.2
          rw [fuel_of_len hlen, wouldAcceptN_core hc]
          exact hno y hy0
        · exfalso
          by_cases hx : x < w1.devs.length
          · rw [dev_modDev_same hx] at hc
            have : (w1.dev x).output = none := hc
            rw [hout1] at this; cases this
          · rw [dev_of_length_le (Nat.le_of_not_lt hx)] at hout1; cases hout1
      · -- handed over
        dsimp only
        have h2 : G (x :: E) (x :: N) [] (w1.modDev x (fun d => { d with output := none })) := by
          refine hT.modDev x _ rfl ?_ (fun _ h => h) (fun y hy => List.mem_cons_of_mem _ hy)
            (Or.inl (List.mem_cons_self ..)) (Or.inl (List.mem_cons_self ..))
          intro q hq
          refine hT.valid.dev x q ?_
          rw [heldL_mem] at hq ⊢
          rcases hq with hq | hq | hq
          · exact Or.inl hq
          · cases hq
          · exact Or.inr (Or.inr hq)
        have h3 : G E (x :: N) [] (w1.modDev x (fun d => { d with output := none })) := by
          refine hun h2 (fun q hq => ?_)
          by_cases hx : x < w1.devs.length
          · rw [dev_modDev_same hx, holdsD_output_none _ hk1] at hq; cases hq
          · rw [modDev_out_of_range (Nat.le_of_not_lt hx), dev_of_length_le (Nat.le_of_not_lt hx)] at hq
            cases hq
        refine ⟨h3.notify x (fun y hy => (List.mem_cons.mp hy).imp id id), fun hb _ _ => ?_⟩
        refine h3.notifyG x (fun y hy => (List.mem_cons.mp hy).imp id id) (fun y hy => ?_)
        rw [List.mem_singleton] at hy
        subst hy
        right
        refine ⟨rfl, ?_⟩
        rw [modDev_dev_field Dev.kind w1 y _ rfl y, kind_of_st hst]
        exact hb

/-! ### a hand-over from `x` does not come back to `x` -/

/-- fuel beyond the static bound on controller chains reaches nothing new -/
theorem cReach_fuel {w : World} {x : Nat} : ∀ (F n b y : Nat), costLe n w b y = true →
    cReach F w y x = true → cReach n w y x = true := by
  intro F
  induction F with
  | zero =>
    intro n b y _ h
    simp only [cReach, beq_iff_eq] at h
    subst h; exact cReach_self _ _ _
  | succ F ih =>
    intro n b y hc h
    simp only [cReach, Bool.or_eq_true, beq_iff_eq, Bool.and_eq_true, List.any_eq_true] at h
    rcases h with h | ⟨hk, z, hz, hr⟩
    · subst h; exact cReach_self _ _ _
    · cases n with
      | zero => simp [costLe, hk] at hc
      | succ n =>
        simp only [costLe, hk, Bool.not_true, Bool.false_or, Bool.and_eq_true, decide_eq_true_eq,
          List.all_eq_true] at hc
        have := ih n _ z (hc.2 z hz) hr
        simp only [cReach, hk, Bool.true_and, Bool.or_eq_true, List.any_eq_true]
        exact Or.inr ⟨z, hz, this⟩

theorem same_tryGive {w : World} (hs : SC w) (hst : StkOK w) {x : Nat} (hx : x < w.devs.length)
    (p : Nat) (hp : p < w.parts.length)
    (hcs : ∀ y ∈ (w.dev x).down, consS w.fuel w y (w.part p).stack = true) :
    SameD x w (World.tryList givePart w (w.sortedDown x) p).1 := by
  -- `givePart` uses the fuel of the world it is called in; the number of devices never changes
  have key : ∀ (l : List Nat) (w0 : World), HK w0 → StkOK w0 → w0.devs.length = w.devs.length →
      p < w0.parts.length →
      (∀ y ∈ l, (w0.dev y).kind ≠ .source ∧ cReach w.fuel w0 y x = false ∧
        consS w.fuel w0 y (w0.part p).stack = true) →
      SameD x w0 (World.tryList givePart w0 l p).1 := by
    intro l
    induction l with
    | nil => intro w0 _ _ _ _ _; exact .refl x w0
    | cons y ys ihl =>
      intro w0 hw hs0 hn hp0 hl
      rw [World.tryList]
      have h1 : SameD x w0 (givePart w0 y p).1 := by
        unfold World.givePart
        rw [fuel_of_len hn]
        exact same_give_ctrl x w.fuel w0 y p hw hs0 hp0 (hl y (List.mem_cons_self ..)).1
          (hl y (List.mem_cons_self ..)).2.1 (hl y (List.mem_cons_self ..)).2.2
      rcases hgy : givePart w0 y p with ⟨w1, b⟩
      rw [hgy] at h1
      cases b
      · dsimp only
        have r := C08L.give_refused _ w0 y p w1 hgy
        refine h1.trans (ihl w1 (hw.of_refused r) (stkOK_refused hs0 r) (h1.len.trans hn)
          (by rw [r.1]; exact hp0) (fun z hz => ?_))
        have := hl z (List.mem_cons_of_mem _ hz)
        rw [cReach_refused r, h1.kind z, consS_refused r, part_congr r.1]
        exact this
      · exact h1
  refine key _ w hs.hk hst rfl hp ?_
  intro y hy
  have hy' := (C08.sortedDown_mem w x y).mp hy
  obtain ⟨hylt, _⟩ := hs.down_sym hx hy'
  refine ⟨hs.hk.src' x y hy', ?_, hcs y hy'⟩
  cases hh : cReach w.fuel w y x with
  | false => rfl
  | true =>
    have := cReach_fuel _ _ _ _ (hs.cost hylt) hh
    rw [hs.noSelf hx hy'] at this; cases this

/-! ### the buffer loop -/

/-- why the loop stopped: queue empty, head still held back, or head refused by everybody -/
def LoopPost (w : World) (x : Nat) : Prop :=
  match (w.dev x).buf with
  | [] => True
  | (t, q) :: _ =>
    (w.dev x).delay - (w.now - t) > 0 ∨ ∀ y ∈ (w.dev x).down, wouldAcceptN w.fuel w [] [] y q = false

theorem G.bufferLoopG {E : List Nat} (x : Nat) (f : Nat) : ∀ (N : List Nat) (w : World),
    G (x :: E) N [] w → (w.dev x).kind = .buffer → (w.dev x).buf.length < f → InvB w → C03Z.GC w →
    G (x :: E) (x :: N) [] (World.bufferLoop f w x) ∧ LoopPost (World.bufferLoop f w x) x := by
  induction f with
  | zero => intro N w _ _ hl; exact absurd hl (Nat.not_lt_zero _)
  | succ f ih =>
    intro N w h hk hl hI hgc
    have hx : x < w.devs.length := kind_lt (by rw [hk]; decide)
    have hmono : ∀ {w' : World}, G (x :: E) N [] w' → G (x :: E) (x :: N) [] w' :=
      fun hw => hw.mono (fun _ h => h) (fun y hy => List.mem_cons_of_mem _ hy) (fun _ h => h)
    have hone : ¬ NoBatch w → C02V.InvW (World.bufferLoop 1 w x) :=
      fun hnb => C02V.inv_bufferLoop 1 w x (hI hnb) hk (h.sc.giveOK x)
    have hnbL : NoBatch (World.bufferLoop 1 w x) ↔ NoBatch w :=
      noBatch_of_swv (C02V.swv_bufferLoop w 1 x)
    have hgc1 : C03Z.GC (World.bufferLoop 1 w x) := by
      exact C03Z.gc_bufferLoop 1 hgc
        (fun h1 => hI (fun hnb => h1 (oneGrp_noGrp (fun y => noBatch_grp hnb y)))) hk (h.sc.giveOK x)
    rw [C05.bufferLoop_succ] at hone hnbL hgc1 ⊢
    cases hb : (w.dev x).buf with
    | nil =>
      dsimp only
      exact ⟨hmono h, by unfold LoopPost; rw [hb]; trivial⟩
    | cons a rest =>
      obtain ⟨t, p⟩ := a
      rw [hb] at hone hnbL hgc1
      dsimp only at hone hnbL hgc1 ⊢
      split
      · next hheld =>
        exact ⟨hmono h, by unfold LoopPost; rw [hb]; exact Or.inl hheld⟩
      · next hheld =>
        rw [if_neg hheld] at hone hnbL hgc1
        have hpm : p ∈ heldL (w.dev x) :=
          (heldL_mem _ _).mpr (Or.inr (Or.inr (Or.inl ⟨t, by rw [hb]; exact List.mem_cons_self ..⟩)))
        have hp : p < w.parts.length := h.valid.dev x p hpm
        have hT := h.tryGive (w.sortedDown x) p hp (pfree_of_inv hI hpm)
        have hsame := same_tryGive h.sc h.stk hx p hp
          (fun y hy => hgc.cs h.stk hx (by rw [hk]; decide) hpm hy _)
        rcases ht : World.tryList givePart w (w.sortedDown x) p with ⟨w1, b⟩
        rw [ht] at hT hsame hone hnbL hgc1
        dsimp only at hT hsame hone hnbL hgc1
        obtain ⟨hbuf1, _, _, _, _, hkind1⟩ := core_fields hsame.dev
        cases b
        · -- refused
          dsimp only
          refine ⟨hmono hT, ?_⟩
          obtain ⟨href, hno⟩ := tryGive_refused h.sc (Or.inl hp) ht
          unfold LoopPost
          rw [hbuf1, hb]
          right
          intro y hy
          have hd : (w1.dev x).down = (w.dev x).down := (core_fields hsame.dev).2.2.2.2.1
          rw [hd] at hy
          rw [fuel_of_len hsame.len]
          exact hno y hy
        · -- released
          dsimp only at hone hnbL hgc1 ⊢
          have hI1 : InvB (C05.popHead w1 x (w.leafCount p)) :=
            fun hnb' => hone (fun hn => hnb' (hnbL.mpr hn))
          have hgc2 : C03Z.GC (C05.popHead w1 x (w.leafCount p)) := hgc1
          unfold C05.popHead at hI1 hgc2 ⊢
          dsimp only at hI1 hgc2 ⊢
          have hx1 : x < w1.devs.length := by rw [hsame.len]; exact hx
          have h2 : G (x :: E) (x :: N) []
              (w1.modDev x (fun d => { d with level := d.level - w.leafCount p, buf := d.buf.drop 1 })) := by
            refine hT.modDev x _ rfl ?_ (fun _ h => h) (fun y hy => List.mem_cons_of_mem _ hy)
              (Or.inl (List.mem_cons_self ..)) (Or.inl (List.mem_cons_self ..))
            intro q hq
            refine hT.valid.dev x q ?_
            rw [heldL_mem] at hq ⊢
            rcases hq with hq | hq | ⟨t', hq⟩ | hq
            · exact Or.inl hq
            · exact Or.inr (Or.inl hq)
            · exact Or.inr (Or.inr (Or.inl ⟨t', List.mem_of_mem_drop hq⟩))
            · exact Or.inr (Or.inr (Or.inr hq))
          have h3 := h2.addRec (.level x
            (w1.modDev x (fun d => { d with level := d.level - w.leafCount p, buf := d.buf.drop 1 })).now
            ((w1.modDev x (fun d => { d with level := d.level - w.leafCount p, buf := d.buf.drop 1 })).dev x).level)
          have hd3 : ((w1.modDev x (fun d => { d with level := d.level - w.leafCount p, buf := d.buf.drop 1 })).addRec
              (.level x
                (w1.modDev x (fun d => { d with level := d.level - w.leafCount p, buf := d.buf.drop 1 })).now
                ((w1.modDev x (fun d => { d with level := d.level - w.leafCount p, buf := d.buf.drop 1 })).dev x).level)).dev x
              = { w1.dev x with level := (w1.dev x).level - w.leafCount p, buf := (w1.dev x).buf.drop 1 } := by
            rw [dev_addRec, dev_modDev_same hx1]
          have := ih (x :: N) _ h3 (by rw [hd3]; exact hkind1.trans hk)
            (by rw [hd3]; show ((w1.dev x).buf.drop 1).length < f
                rw [hbuf1, hb]; simp only [List.drop_succ_cons, List.drop_zero]
                rw [hb] at hl; simp only [List.length_cons] at hl; omega) hI1 hgc2
          exact ⟨this.1.mono (fun _ h => h) (fun y hy => by
            rcases List.mem_cons.mp hy with rfl | hy
            · exact List.mem_cons_self ..
            · exact hy) (fun _ h => h), this.2⟩

theorem budget_cond (d : Dev) :
    (match d.maxParts.map (fun m => if m - d.produced < 0 then 0 else m - d.produced) with
      | some r => decide (r < 1)
      | none => false) = !budgetOK d := by
  unfold budgetOK
  cases hm : d.maxParts with
  | none => rfl
  | some m =>
    simp only [Option.map_some]
    by_cases h : 1 ≤ m - d.produced
    · simp only [h, decide_true, Bool.not_true, decide_eq_false_iff_not]
      split <;> omega
    · simp only [h, decide_false, Bool.not_false, decide_eq_true_eq]
      split <;> omega

theorem tryMove_batcher_idle (w : World) (x : Nat) (hk : (w.dev x).kind = .batcher)
    (hp : (w.dev x).part = none) : w.tryMove x = w := by
  unfold World.tryMove
  simp only [hk, hp, Option.isNone_none, Bool.or_true, Bool.true_or, if_true]

/-- the batchers are settled: an output is waiting or the input is exhausted -/
def Settled (w : World) : Prop :=
  ∀ x, (w.dev x).kind = .batcher → (w.dev x).output = none → (w.dev x).part = none

theorem G.passPartG {E N : List Nat} {w : World} {x : Nat} (h : G (x :: E) N [] w)
    (hI : InvB w) (hset : Settled w) (hgc : C03Z.GC w) : G E N [] (w.passPart x) := by
  have hun : ∀ {N' : List Nat} {w' : World}, G (x :: E) N' [] w' → (∀ q, holdsD (w'.dev x) ≠ some q) →
      G E N' [] w' :=
    fun hw hq => hw.unexempt x (fun y hy => (List.mem_cons.mp hy).imp id id)
      (fun q hh => absurd hh (hq q))
  unfold World.passPart
  dsimp only
  split
  · -- source
    next hk =>
    cases hbud : budgetOK (w.dev x)
    · rw [if_pos]
      · refine hun h (fun q hq => ?_)
        unfold holdsD at hq
        simp only [hk, hbud] at hq
        cases hq
      · have := budget_cond (w.dev x)
        rw [hbud] at this
        exact this
    · rw [if_neg]
      rotate_left
      · have := budget_cond (w.dev x)
        rw [hbud] at this
        intro hc
        exact Bool.noConfusion (hc.symm.trans this)
      split
      · next ho =>
        refine hun h (fun q hq => ?_)
        rw [holdsD_output (by rw [hk]; decide) hq] at ho; cases ho
      · next p _ =>
        have h1 := (h.passHandler (by rw [hk]; decide) hI).1
        have hk1 : ((w.passHandler x).dev x).kind = .source := by
          rw [kind_of_st (C02V.st_passHandler w x)]; exact hk
        generalize w.passHandler x = w1 at h1 hk1
        split
        · next ho1 =>
          apply G.scheduleFinish
          apply G.addRec
          refine h1.modDev x _ rfl (fun q hq => h1.valid.dev x q hq) (fun _ h => h) (fun _ h => h)
            (Or.inr (Or.inr (fun _ => id))) (Or.inr ?_)
          intro q hq
          exfalso
          unfold holdsD at hq
          simp only [hk1] at hq
          have : (w1.dev x).output = none := by simpa using ho1
          rw [this] at hq
          split at hq <;> cases hq
        · exact h1
  · -- buffer
    next hk =>
    have hx : x < w.devs.length := kind_lt (by rw [hk]; decide)
    obtain ⟨h1, hpost⟩ := G.bufferLoopG x ((w.dev x).buf.length + 1) N w h hk (Nat.lt_succ_self _) hI hgc
    have hk1 : ((World.bufferLoop ((w.dev x).buf.length + 1) w x).dev x).kind = .buffer := by
      rw [kind_of_st (C02V.st_bufferLoop _ w x)]; exact hk
    generalize World.bufferLoop ((w.dev x).buf.length + 1) w x = w1 at h1 hpost hk1
    have hx1 : x < w1.devs.length := kind_lt (by rw [hk1]; decide)
    have hnot : ∀ {w2 : World}, G E (x :: N) [] w2 → G E N [] (w2.notify x) :=
      fun hw => hw.notify x (fun y hy => (List.mem_cons.mp hy).imp id id)
    cases hb : (w1.dev x).buf with
    | nil =>
      dsimp only
      refine hnot (hun h1 (fun q hq => ?_))
      unfold holdsD at hq
      simp only [hk1, hb] at hq
      cases hq
    | cons a rest =>
      obtain ⟨t, q⟩ := a
      dsimp only
      split
      · next hrem =>
        refine hnot (h1.schedulePass x _ (by omega) (fun y hy => (List.mem_cons.mp hy).imp id id) ?_)
        intro _ _
        unfold dueD
        simp only [hk1, hb]
        split <;> omega
      · next hrem =>
        have h2 : G (x :: E) (x :: N) [] (w1.setDev x { w1.dev x with waitingDS := true }) :=
          h1.setDev x _ rfl (fun q hq => h1.valid.dev x q hq) (fun _ h => h) (fun _ h => h)
            (Or.inr (Or.inr (fun _ => id))) (Or.inl (List.mem_cons_self ..))
        rw [← hb]
        suffices h3 : G E (x :: N) [] (w1.setDev x { w1.dev x with waitingDS := true }) from hnot h3
        refine h2.unexempt x (fun y hy => (List.mem_cons.mp hy).imp id id)
          (fun q' hq' => Or.inr ?_)
        have hd2 : (w1.setDev x { w1.dev x with waitingDS := true }).dev x =
            { w1.dev x with waitingDS := true } := dev_setDev_same hx1
        have hc : (w1.setDev x { w1.dev x with waitingDS := true }).core = w1.core :=
          setDev_core_of_core_eq rfl
        rw [hd2] at hq'
        have hqq : q' = q := by
          unfold holdsD at hq'
          simp only [hk1, hb] at hq'
          simpa using hq'.symm
        subst hqq
        refine ⟨by rw [hd2], fun y hy => ?_⟩
        rw [hd2] at hy
        apply wouldAcceptN_of_nil
        rw [fuel_of_len (core_eq_devs_length hc), wouldAcceptN_core hc]
        unfold LoopPost at hpost
        rw [hb] at hpost
        rcases hpost with hpost | hpost
        · exact absurd hpost hrem
        · exact hpost y hy
  · -- batcher
    next hk =>
    have hx : x < w.devs.length := kind_lt (by rw [hk]; decide)
    obtain ⟨h1, h1A⟩ := h.passHandler (by rw [hk]; decide) hI
    have hnb : ¬ NoBatch w := fun hn => (noBatch_dev hn x).1 hk
    have hI1 : C02V.InvW (w.passHandler x) :=
      C02V.inv_passHandler w x (hI hnb) (by rw [hk]; decide) (h.sc.giveOK x)
    have hk1 : ((w.passHandler x).dev x).kind = .batcher := by
      rw [kind_of_st (C02V.st_passHandler w x)]; exact hk
    split
    · next ho1 =>
      have ho1' : ((w.passHandler x).dev x).output = none := by simpa using ho1
      by_cases ho : (w.dev x).output = none
      · -- nothing to hand over: the input is exhausted, nothing happens
        have hpn := hset x hk ho
        have hsame : w.passHandler x = w := by
          unfold World.passHandler
          simp only [ho]
          split <;> rfl
        rw [hsame] at h1 ⊢
        rw [tryMove_batcher_idle w x hk hpn]
        exact h1
      · have h2 := h1A hk ho ho1'
        refine (h2.tryMove x (fun _ => ⟨List.mem_singleton.mpr rfl, fun d q hd hq => ?_⟩)).dropA
          (fun _ hy => by cases hy)
        have := inv_free hI1 hq x
        exact ⟨this.2, this.1⟩
    · exact h1
  · -- sink
    next hk =>
    refine hun h (fun q hq => ?_)
    unfold holdsD at hq
    simp only [hk] at hq
    cases hq
  · next h1 h2 h3 h4 =>
    exact (h.passHandler (fun hb => h2 hb) hI).1
end C03W
end SimProc
