/-
Every move of a device preserves the strengthened invariant.
-/
import SimProc.Proofs.SVBasic
import SimProc.Proofs.SVBatch
namespace SimProc
namespace C02V

theorem inv_gen {z : Nat} {a a' : SV} (h : Inv a) (hg : Gen z a a') : Inv a' :=
  ⟨consV_gen h.1 hg, extraV_gen h.1 h.2 hg⟩

theorem inv_move {z : Nat} {a a' : SV} (h : Inv a) (hm : Move z a a') : Inv a' := by
  cases hm with
  | rearr d d' r hz hk hp hr hi => exact ⟨consV_rearr h.1 d d' r hz hk hp hr, extraV_rearr h.2 d d' r hz hk hp hi⟩
  | gen _ hg => exact inv_gen h hg
  | shell d hz hi => exact ⟨consV_shell h.1 d hz hi, extraV_shell h.1 h.2 d hz hi⟩
  | kidOut d p k rest hz hs hp ho hk => exact inv_kidOut h d p k rest hz hs hp ho hk
  | kidIn d p k rest b hz hs hp hb hk => exact inv_kidIn h d p k rest b hz hs hp hb hk
  | leafIn d p b hz hs hp hb hk => exact inv_leafIn h d p b hz hs hp hb hk

theorem inv_steps {z : Nat} {a a' : SV} (h : Inv a) (hs : Steps z a a') : Inv a' := by
  induction hs with
  | refl => exact h
  | tail b c _ hm ih => exact inv_move ih hm

end C02V
end SimProc
