/-
C08W, part 4: what the functions local to one device (`finishCycle`, `scheduleFinish`, `tryMove`,
`onReceived`) do to the histories and stacks: the old parts keep them (`HS`), a part created by a
source starts with the history `[source]`, the shell created by a batcher with the empty one.
-/
import SimProc.Proofs.C08WGive
namespace SimProc
namespace C08W
open World C02V C08L FloorCoreL

/-- A part created by device `z` (`src` = "`z` is a source"). -/
def NewW (z : Nat) (src : Prop) (w' : World) (q : Nat) : Prop :=
  (w'.part q).stack = [] ∧
    (((w'.part q).hist = [z] ∧ src) ∨ ((w'.part q).hist = [] ∧ (w'.part q).kids.isSome = true))

/-- Old parts keep history, stack and being a batch; new parts are as `NewW` says. -/
structure HN (z : Nat) (src : Prop) (w w' : World) : Prop where
  hs : HS w w'
  ks : ∀ q, q < w.parts.length → (w.part q).kids.isSome = true → (w'.part q).kids.isSome = true
  nw : ∀ q, w.parts.length ≤ q → q < w'.parts.length → NewW z src w' q

namespace HN
variable {z : Nat} {src : Prop}

theorem refl (w : World) : HN z src w w :=
  ⟨HS.refl w, fun _ _ h => h, fun _ h1 h2 => absurd h2 (Nat.not_lt.2 h1)⟩

theorem trans {a b c : World} (h1 : HN z src a b) (h2 : HN z src b c) : HN z src a c := by
  refine ⟨h1.hs.trans h2.hs, fun q hq hk => h2.ks q (Nat.lt_of_lt_of_le hq h1.hs.1) (h1.ks q hq hk), ?_⟩
  intro q hq1 hq2
  by_cases hqb : q < b.parts.length
  · obtain ⟨n1, n2⟩ := h1.nw q hq1 hqb
    have e := h2.hs.2 q hqb
    refine ⟨by rw [e.2]; exact n1, ?_⟩
    rcases n2 with ⟨n2, n3⟩ | ⟨n2, n3⟩
    · exact Or.inl ⟨by rw [e.1]; exact n2, n3⟩
    · exact Or.inr ⟨by rw [e.1]; exact n2, h2.ks q hqb n3⟩
  · exact h2.nw q (Nat.le_of_not_lt hqb) hq2

theorem of_parts {w w' : World} (h : w'.parts = w.parts) : HN z src w w' :=
  ⟨HS.of_parts h, fun q _ hk => by rw [part_congr h]; exact hk,
    fun q h1 h2 => absurd (by rw [h] at h2; exact h2) (Nat.not_lt.2 h1)⟩

theorem parts_right {a b c : World} (h : c.parts = b.parts) (h1 : HN z src a b) : HN z src a c :=
  h1.trans (of_parts h)

theorem applyPartCb (w : World) (x p : Nat) (c : PartCb) : HN z src w (w.applyPartCb x p c) :=
  ⟨HS.applyPartCb w x p c, fun q _ hk => by rw [applyPartCb_part_kids]; exact hk,
    fun q h1 h2 => absurd (by rw [applyPartCb_parts_length] at h2; exact h2) (Nat.not_lt.2 h1)⟩

theorem modPartKids (w : World) (p : Nat) (k : PartRec → Option (List Nat))
    (hk : ∀ r, (k r).isSome = true) : HN z src w (w.modPart p (fun r => { r with kids := k r })) := by
  refine ⟨HS.modPart _ _ (fun _ => ⟨rfl, rfl⟩), ?_, ?_⟩
  · intro q _ hq
    rw [part_modPart]
    split
    · exact hk _
    · exact hq
  · intro q h1 h2
    rw [modPart_parts_length] at h2
    exact absurd h2 (Nat.not_lt.2 h1)

theorem newShell (w : World) (r : PartRec) (h1 : r.hist = []) (h2 : r.stack = [])
    (h3 : r.kids.isSome = true) : HN z src w (w.newPart r).1 := by
  refine ⟨HS.newPart w r, ?_, ?_⟩
  · intro q hq hk; rw [part_newPart_old hq]; exact hk
  · intro q hq1 hq2
    rw [newPart_parts_length] at hq2
    have : q = w.parts.length := by omega
    subst this
    rw [NewW, part_newPart_new]
    exact ⟨h2, Or.inr ⟨h1, h3⟩⟩

section right
variable {a b : World}
theorem modDev_right {x : Nat} {f : Dev → Dev} (h : HN z src a b) : HN z src a (b.modDev x f) :=
  parts_right (by simp) h
theorem setDev_right {x : Nat} {d : Dev} (h : HN z src a b) : HN z src a (b.setDev x d) :=
  parts_right (by simp) h
theorem addRec_right {r : Rec} (h : HN z src a b) : HN z src a (b.addRec r) :=
  parts_right (by simp) h
theorem setErr_right {m : String} (h : HN z src a b) : HN z src a (b.setErr m) :=
  parts_right (by simp) h
theorem schedLib_right {t as : Int} {act : Action} {pr : Int} (h : HN z src a b) :
    HN z src a (b.schedLib t as act pr) := parts_right (by simp) h
theorem schedulePass_right {x : Nat} {o : Int} (h : HN z src a b) : HN z src a (b.schedulePass x o) :=
  parts_right (by simp) h
theorem notify_right {x : Nat} (h : HN z src a b) : HN z src a (b.notify x) :=
  parts_right (by simp) h
theorem setWaiting_right {x : Nat} {c d : Bool} (h : HN z src a b) : HN z src a (b.setWaiting x c d) :=
  parts_right (by simp) h
theorem senseOutput_right {s p : Nat} (h : HN z src a b) : HN z src a (b.senseOutput s p) :=
  parts_right (senseOutput_parts _ _ _) h
theorem finishCycleHandler_right {x : Nat} (h : HN z src a b) : HN z src a (b.finishCycleHandler x) :=
  parts_right (finishCycleHandler_parts _ _) h
theorem applyPartCb_right {x p : Nat} {c : PartCb} (h : HN z src a b) :
    HN z src a (b.applyPartCb x p c) := h.trans (applyPartCb _ _ _ _)
theorem newShell_right (h : HN z src a b) :
    HN z src a (b.newPart { quality := 0, value := 0, kids := some [] }).1 :=
  h.trans (newShell _ _ rfl rfl rfl)
theorem modPartKidsSome_right {p : Nat} {k : PartRec → List Nat} (h : HN z src a b) :
    HN z src a (b.modPart p (fun r => { r with kids := some (k r) })) :=
  h.trans (modPartKids _ _ (fun r => some (k r)) (fun _ => rfl))
theorem foldl_right {α} {g : World → α → World} (hg : ∀ w c, HN z src w (g w c)) {l : List α}
    (h : HN z src a b) : HN z src a (l.foldl g b) := by
  induction l generalizing b with
  | nil => exact h
  | cons c l ih => exact ih (h.trans (hg b c))
end right

end HN

/-- One step of peeling an operation off the right. -/
syntax "hn_step" : tactic
macro_rules
  | `(tactic| hn_step) =>
    `(tactic| first
    | exact HN.refl _
    | with_reducible apply HN.finishCycleHandler_right
    | with_reducible apply HN.senseOutput_right
    | with_reducible apply HN.applyPartCb_right
    | with_reducible apply HN.notify_right
    | with_reducible apply HN.schedulePass_right
    | with_reducible apply HN.setWaiting_right
    | with_reducible apply HN.schedLib_right
    | with_reducible apply HN.setErr_right
    | with_reducible apply HN.addRec_right
    | with_reducible apply HN.newShell_right
    | with_reducible apply HN.modPartKidsSome_right
    | with_reducible apply HN.modDev_right
    | with_reducible apply HN.setDev_right)

variable {z : Nat} {src : Prop}

theorem HN.bGet (w : World) (x p : Nat) : HN z src w (bGet w x p).1 := by
  unfold C08L.bGet
  split
  · dsimp only
    split <;> repeat hn_step
  · repeat hn_step

theorem HN.bInprog (w : World) (x : Nat) : HN z src w (bInprog w x).1 := by
  unfold C08L.bInprog
  split <;> repeat hn_step

theorem HN.bAdd (w : World) (x t : Nat) : HN z src w (bAdd w x t) := by
  unfold C08L.bAdd
  split
  · repeat hn_step
  · dsimp only
    split
    · apply HN.modDev_right; apply HN.modPartKidsSome_right; exact HN.bInprog w x
    · apply HN.modPartKidsSome_right; exact HN.bInprog w x

theorem HN.batcherLoop (n : Nat) (w : World) (x : Nat) : HN z src w (batcherLoop n w x) := by
  induction n generalizing w with
  | zero => exact HN.refl _
  | succ n ih =>
    rw [C08L.batcherLoop_succ]
    split
    · exact ((HN.bGet w x _).trans (HN.bAdd _ x _)).trans (ih _)
    · exact HN.refl _

theorem HN.batcherLoop_right {a b : World} {n x : Nat} (h : HN z src a b) :
    HN z src a (World.batcherLoop n b x) := h.trans (HN.batcherLoop _ _ _)

macro_rules | `(tactic| hn_step) => `(tactic| with_reducible apply HN.batcherLoop_right)

/-! ### a source generates a part -/

/-- The parts a source has just generated: empty history and stack, and each of them occurs exactly
once among the new part and its kids. -/
theorem genPart_fresh (w : World) (x : Nat) : ∀ q, w.parts.length ≤ q →
    q < (w.genPart x).1.parts.length →
    ((w.genPart x).1.part q).hist = [] ∧ ((w.genPart x).1.part q).stack = [] ∧
      (histIdxs (w.genPart x).1.parts (w.genPart x).2).count q = 1 := by
  intro q hq1 hq2
  cases hb : ((w.dev x).genBatch == 0)
  · rw [genPart_batch w x hb] at hq2 ⊢
    simp only [List.length_append, List.length_replicate, List.length_cons, List.length_nil] at hq2
    have hmem : ∀ r ∈ List.replicate (w.dev x).genBatch.toNat
          ({ quality := (w.dev x).genQuality, value := (w.dev x).genValue } : PartRec) ++
          [({ quality := 0, value := 0,
              kids := some (List.range' w.parts.length (w.dev x).genBatch.toNat) } : PartRec)],
        r.hist = [] ∧ r.stack = [] := by
      intro r hr
      rcases List.mem_append.1 hr with hr | hr
      · rw [(List.mem_replicate.1 hr).2]; exact ⟨rfl, rfl⟩
      · have : r = _ := List.mem_singleton.1 hr
        rw [this]; exact ⟨rfl, rfl⟩
    have hget : ∃ r, (w.parts ++ List.replicate (w.dev x).genBatch.toNat
          ({ quality := (w.dev x).genQuality, value := (w.dev x).genValue } : PartRec) ++
          [({ quality := 0, value := 0,
              kids := some (List.range' w.parts.length (w.dev x).genBatch.toNat) } : PartRec)])[q]? = some r ∧
        r.hist = [] ∧ r.stack = [] := by
      rw [List.append_assoc, List.getElem?_append_right hq1]
      have hlt : q - w.parts.length < (List.replicate (w.dev x).genBatch.toNat
          ({ quality := (w.dev x).genQuality, value := (w.dev x).genValue } : PartRec) ++
          [({ quality := 0, value := 0,
              kids := some (List.range' w.parts.length (w.dev x).genBatch.toNat) } : PartRec)]).length := by
        simp; omega
      rw [List.getElem?_eq_getElem hlt]
      exact ⟨_, rfl, hmem _ (List.getElem_mem hlt)⟩
    obtain ⟨r, hr, hr1, hr2⟩ := hget
    refine ⟨?_, ?_, ?_⟩
    · simp only [World.part, List.getD_eq_getElem?_getD, hr]; exact hr1
    · simp only [World.part, List.getD_eq_getElem?_getD, hr]; exact hr2
    · have hidx : histIdxs (w.parts ++ List.replicate (w.dev x).genBatch.toNat
            ({ quality := (w.dev x).genQuality, value := (w.dev x).genValue } : PartRec) ++
            [({ quality := 0, value := 0,
                kids := some (List.range' w.parts.length (w.dev x).genBatch.toNat) } : PartRec)])
            (w.parts.length + (w.dev x).genBatch.toNat) =
          (w.parts.length + (w.dev x).genBatch.toNat) ::
            List.range' w.parts.length (w.dev x).genBatch.toNat := by
        unfold C08L.histIdxs
        simp [List.getD_eq_getElem?_getD]
      simp only [hidx]
      have hnd : ((w.parts.length + (w.dev x).genBatch.toNat) ::
          List.range' w.parts.length (w.dev x).genBatch.toNat).Nodup := by
        rw [List.nodup_cons]
        refine ⟨?_, List.nodup_range' (step := 1) (by omega)⟩
        rw [List.mem_range'_1]; omega
      have hmem' : q ∈ (w.parts.length + (w.dev x).genBatch.toNat) ::
          List.range' w.parts.length (w.dev x).genBatch.toNat := by
        rw [List.mem_cons, List.mem_range'_1]; omega
      rw [hnd.count, if_pos hmem']
  · rw [genPart_leaf w x hb] at hq2 ⊢
    simp only [List.length_append, List.length_cons, List.length_nil] at hq2
    have hq : q = w.parts.length := by omega
    subst hq
    refine ⟨?_, ?_, ?_⟩
    · simp [World.part, List.getD_eq_getElem?_getD]
    · simp [World.part, List.getD_eq_getElem?_getD]
    · unfold C08L.histIdxs
      simp [List.getD_eq_getElem?_getD]

theorem genPart_new (w : World) (x : Nat) :
    HN x True w (((w.genPart x).1.modDev x (fun d => { d with output := some (w.genPart x).2 })).addHist
      (w.genPart x).2 x) := by
  obtain ⟨news, h1, h2, h3⟩ := genPart_spec w x
  have hHS : HS w (((w.genPart x).1.modDev x (fun d => { d with output := some (w.genPart x).2 })).addHist
      (w.genPart x).2 x) :=
    HS.addHist_new (w0 := w) ⟨news, by simpa using h1⟩ h2 (by simpa using h3)
  refine ⟨hHS, ?_, ?_⟩
  · intro q hq hk
    rw [addHist_part_kids, part_modDev]
    have : (w.genPart x).1.part q = w.part q := by
      unfold World.part; rw [h1]; exact getD_append_left _ _ _ _ hq
    rw [this]; exact hk
  · intro q hq1 hq2
    rw [addHist_parts_length, modDev_parts] at hq2
    obtain ⟨f1, f2, f3⟩ := genPart_fresh w x q hq1 hq2
    refine ⟨?_, Or.inl ⟨?_, trivial⟩⟩
    · rw [addHist_part_stack, part_modDev]; exact f2
    · rw [addHist_part_hist _ _ _ _ (by rw [modDev_parts]; exact hq2), part_modDev, modDev_parts, f1, f3]
      rfl

theorem HN.weaken {src src' : Prop} (hi : src → src') {w w' : World} (h : HN z src w w') :
    HN z src' w w' :=
  ⟨h.hs, h.ks, fun q h1 h2 => by
    obtain ⟨n1, n2⟩ := h.nw q h1 h2
    refine ⟨n1, ?_⟩
    rcases n2 with ⟨n2, n3⟩ | n2
    · exact Or.inl ⟨n2, hi n3⟩
    · exact Or.inr n2⟩

/-! ### the functions local to a device -/

theorem HN.finishCycle (w : World) (x : Nat) :
    HN x ((w.dev x).kind = .source) w (w.finishCycle x) := by
  unfold World.finishCycle
  dsimp only
  split
  · -- source
    next hk =>
    apply HN.schedulePass_right
    split
    · exact (genPart_new w x).weaken (fun _ => hk)
    · exact HN.refl _
  · repeat hn_step
  · -- processor
    split
    · split <;> repeat hn_step
    · apply HN.addRec_right
      apply HN.foldl_right (fun w s => HN.senseOutput_right (HN.refl w))
      apply HN.foldl_right (fun w c => HN.applyPartCb_right (HN.refl w))
      split <;> repeat hn_step
  · repeat hn_step

theorem HN.scheduleFinish (w : World) (x : Nat) :
    HN x ((w.dev x).kind = .source) w (w.scheduleFinish x) := by
  have key : HN x ((w.dev x).kind = .source) w ((w.setDev x { w.dev x with offset := 0 }).finishCycle x) :=
    (HN.setDev_right (HN.refl w)).trans
      ((HN.finishCycle (w.setDev x { w.dev x with offset := 0 }) x).weaken
        (fun h => (kind_setOffset w x x).symm.trans h))
  unfold World.scheduleFinish
  dsimp only
  repeat' split
  all_goals first
    | exact key
    | (repeat hn_step)

theorem kind_setDev_same (w : World) (x : Nat) (d : Dev) (hk : d.kind = (w.dev x).kind) :
    ((w.setDev x d).dev x).kind = (w.dev x).kind := dev_setDev_kind w x d hk x

theorem HN.tryMove (w : World) (x : Nat) : HN x ((w.dev x).kind = .source) w (w.tryMove x) := by
  unfold World.tryMove
  dsimp only
  split
  · -- buffer
    repeat' split
    all_goals repeat hn_step
  · -- batcher
    repeat' split
    all_goals repeat hn_step
  · -- processor
    split
    · exact (HN.setDev_right (HN.refl w)).trans
        ((HN.scheduleFinish (w.setDev x { w.dev x with lastUseStart := some w.now }) x).weaken
          (fun h => (kind_setDev_same w x { w.dev x with lastUseStart := some w.now } rfl).symm.trans h))
    · exact HN.refl _
  · split
    · exact HN.scheduleFinish w x
    · exact HN.refl _

theorem HN.onReceived (w : World) (x p : Nat) :
    HN x ((w.dev x).kind = .source) w (w.onReceived x p) := by
  rw [C02V.onReceived_eq]
  have h0 : HN x ((w.dev x).kind = .source) w (recvBook w x p) := by
    unfold recvBook
    dsimp only
    apply HN.foldl_right (fun w c => HN.applyPartCb_right (HN.refl w))
    split <;> repeat hn_step
  have hk : ((recvBook w x p).dev x).kind = (w.dev x).kind := by
    have : st (recvBook w x p) = st w := by unfold recvBook; frame
    exact kind_of_st this x
  split
  · exact h0.trans ((HN.tryMove (recvBook w x p) x).weaken (fun h => hk.symm.trans h))
  · exact h0

end C08W
end SimProc
