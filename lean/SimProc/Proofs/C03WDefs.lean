/-
C03W — the closed-world "no lost wake-up" invariant: definitions.

* `S1 w`      : the (decidable) static scope of stage S1.
* `holdsD`, `dueD`, `expiredD`, `ready` : which device holds a part that wants to leave.
* `wouldAccept`, `wouldAcceptN` : the pure acceptance predicate (with a mask `N` of devices whose
  notification is still pending).
* `Att`, `Blocked`, `WakeG`, `G` : the invariant (generalised by a set `E` of exempt devices and a
  set `N` of devices with a pending notification).
-/
import SimProc.Props.C03
import SimProc.Props.C08
import SimProc.Proofs.StaticFloor

namespace SimProc
namespace C03W
open World FloorCoreL C03

/-! ### the static part of a device / of a world -/

/-- A device with every dynamic field reset: what remains is kind, asset id, wiring, callbacks,
resource requirement, generator parameters, delay, capacity, predicate. -/
def stat1 (d : Dev) : Dev :=
  { d with since := none, waitingDS := false, blockInput := false, inited := false, val := {},
           cycle := 0, offset := 0, part := none, output := none, shutDown := false,
           reserved := none, waitingRes := false, uptime := 0, lastRestore := some 0,
           timeInUse := 0, lastUseStart := none, finSensors := [], maxParts := none,
           produced := 0, costProduced := 0, collected := [], recvCount := 0, recvValue := 0,
           buf := [], level := 0, inprog := none }

@[simp] theorem stat1_default : stat1 default = default := rfl
@[simp] theorem stat1_stat1 (d : Dev) : stat1 (stat1 d) = stat1 d := rfl

/-- The static world: static devices, scripts, which device a maintenance target shuts down. -/
def sw (w : World) : World :=
  { devs := w.devs.map stat1, scripts := w.scripts,
    targets := w.targets.map (fun t => ({ dev := t.dev } : Target)) }

theorem sw_dev (w : World) (x : Nat) : (sw w).dev x = stat1 (w.dev x) := by
  unfold World.dev sw
  simp only []
  rw [← stat1_default, getD_map, stat1_default]

@[simp] theorem sw_devs_length (w : World) : (sw w).devs.length = w.devs.length := by simp [sw]

theorem sw_stat {w w' : World} (h : sw w' = sw w) (x : Nat) :
    stat1 (w'.dev x) = stat1 (w.dev x) := by
  rw [← sw_dev, ← sw_dev, h]

theorem sw_len {w w' : World} (h : sw w' = sw w) : w'.devs.length = w.devs.length := by
  rw [← sw_devs_length, ← sw_devs_length w, h]

section statfields
variable {w w' : World} (h : sw w' = sw w) (x : Nat)
include h
theorem sw_kind : (w'.dev x).kind = (w.dev x).kind := by
  have := congrArg Dev.kind (sw_stat h x); exact this
theorem sw_aid : (w'.dev x).aid = (w.dev x).aid := by
  have := congrArg Dev.aid (sw_stat h x); exact this
theorem sw_up : (w'.dev x).up = (w.dev x).up := by
  have := congrArg Dev.up (sw_stat h x); exact this
theorem sw_down : (w'.dev x).down = (w.dev x).down := by
  have := congrArg Dev.down (sw_stat h x); exact this
theorem sw_pred : (w'.dev x).pred = (w.dev x).pred := by
  have := congrArg Dev.pred (sw_stat h x); exact this
theorem sw_delay : (w'.dev x).delay = (w.dev x).delay := by
  have := congrArg Dev.delay (sw_stat h x); exact this
theorem sw_cap : (w'.dev x).cap = (w.dev x).cap := by
  have := congrArg Dev.cap (sw_stat h x); exact this
theorem sw_resReq : (w'.dev x).resReq = (w.dev x).resReq := by
  have := congrArg Dev.resReq (sw_stat h x); exact this
end statfields

/-! ### the scope S1 -/

def kindOK : Kind → Bool
  | .source | .handler | .processor | .buffer | .gate | .sink => true
  | _ => false

/-- A callback that leaves the part alone (it may change cycle time / offset of the device). -/
def cbPure (c : PartCb) : Bool := c.addValue == 0 && c.setQuality.isNone

def DevOK (d : Dev) : Prop :=
  kindOK d.kind = true ∧ d.resReq.isNone = true ∧ (∀ c ∈ d.recvCbs, cbPure c = true) ∧
    (∀ c ∈ d.finCbs, cbPure c = true) ∧ d.genBatch = 0 ∧ (d.kind = .buffer → 0 ≤ d.delay) ∧
    (d.kind = .source → d.up = [])

instance (d : Dev) : Decidable (DevOK d) := by unfold DevOK; infer_instance

/-- every chain of gates starting at `g` has at most `f` gates -/
def gateDepthLe : Nat → World → Nat → Bool
  | 0, w, g => (w.dev g).kind != .gate
  | f + 1, w, g => (w.dev g).kind != .gate || (w.dev g).down.all (fun y => gateDepthLe f w y)

/-- `x` is `y` or is reached from `y` through a chain of gates (following `down`). -/
def gReach : Nat → World → Nat → Nat → Bool
  | 0, _, y, x => y == x
  | f + 1, w, y, x => y == x || ((w.dev y).kind == .gate && (w.dev y).down.any (fun z => gReach f w z x))

/-- Scripted operations of S1: no rewiring, no creation, pause/unpause/cancel only for asset ids
that do not belong to a device. -/
def OpS1 (w : World) : Op → Prop
  | .rewire _ _ => False
  | .create _ => False
  | .pause a => ∀ d ∈ w.devs, d.aid ≠ a
  | .unpause a => ∀ d ∈ w.devs, d.aid ≠ a
  | .cancel a => ∀ d ∈ w.devs, d.aid ≠ a
  | _ => True

instance (w : World) (op : Op) : Decidable (OpS1 w op) := by
  cases op <;> (simp only [OpS1]; infer_instance)

/-- The static conditions (a function of `sw w` only). -/
structure S1s (w : World) : Prop where
  devOK : ∀ d ∈ w.devs, DevOK d
  wiring : ∀ x ∈ List.range w.devs.length,
    (∀ u ∈ (w.dev x).up, u < w.devs.length ∧ x ∈ (w.dev u).down) ∧
    (∀ y ∈ (w.dev x).down, y < w.devs.length ∧ x ∈ (w.dev y).up)
  aids : (w.devs.map (·.aid)).Nodup
  gates : ∀ x ∈ List.range w.devs.length, gateDepthLe w.devs.length w x = true ∧
    ∀ y ∈ (w.dev x).down, gReach w.devs.length w y x = false
  targets : ∀ t ∈ w.targets, ∀ d ∈ t.dev.toList, (w.dev d).kind = .processor
  scripts : ∀ l ∈ w.scripts, ∀ op ∈ l, OpS1 w op

instance (w : World) : Decidable (S1s w) :=
  decidable_of_iff
    ((∀ d ∈ w.devs, DevOK d) ∧
     (∀ x ∈ List.range w.devs.length,
        (∀ u ∈ (w.dev x).up, u < w.devs.length ∧ x ∈ (w.dev u).down) ∧
        (∀ y ∈ (w.dev x).down, y < w.devs.length ∧ x ∈ (w.dev y).up)) ∧
     (w.devs.map (·.aid)).Nodup ∧
     (∀ x ∈ List.range w.devs.length, gateDepthLe w.devs.length w x = true ∧
        ∀ y ∈ (w.dev x).down, gReach w.devs.length w y x = false) ∧
     (∀ t ∈ w.targets, ∀ d ∈ t.dev.toList, (w.dev d).kind = .processor) ∧
     (∀ l ∈ w.scripts, ∀ op ∈ l, OpS1 w op))
    ⟨fun ⟨a, b, c, d, e, f⟩ => ⟨a, b, c, d, e, f⟩, fun ⟨a, b, c, d, e, f⟩ => ⟨a, b, c, d, e, f⟩⟩

/-- all parts are single parts (no batches) -/
def PartsLeaf (w : World) : Prop := ∀ r ∈ w.parts, r.kids = none

instance (w : World) : Decidable (PartsLeaf w) := by unfold PartsLeaf; infer_instance

/-- **The scope of stage S1**: only sources, handlers, processors without resource requirement,
buffers (delay ≥ 0), gates and sinks; callbacks do not change parts; sources generate single parts;
wiring symmetric and in range; asset ids of devices pairwise distinct; no cycle through gates only
(every gate chain has at most `devs.length` gates, no device reaches itself through gates);
maintenance targets are processors; scripts do not rewire, create, or pause/cancel device events;
no batch exists. -/
def S1 (w : World) : Prop := S1s (sw w) ∧ PartsLeaf w

theorem gateDepthLe_sw (w : World) : ∀ f g, gateDepthLe f (sw w) g = gateDepthLe f w g := by
  intro f
  induction f with
  | zero => intro g; simp only [gateDepthLe, sw_dev]; rfl
  | succ f ih => intro g; simp only [gateDepthLe, sw_dev, ih]; rfl

theorem gReach_sw (w : World) : ∀ f y x, gReach f (sw w) y x = gReach f w y x := by
  intro f
  induction f with
  | zero => intro y x; rfl
  | succ f ih => intro y x; simp only [gReach, sw_dev, ih]; rfl

instance (w : World) : Decidable (S1 w) := by unfold S1; infer_instance

theorem S1.of_sw {w w' : World} (h : S1 w) (e : sw w' = sw w) (hp : PartsLeaf w') : S1 w' :=
  ⟨by rw [e]; exact h.1, hp⟩

/-! ### extraction of facts from `S1` -/

theorem PartsLeaf.kids {w : World} (h : PartsLeaf w) (p : Nat) : (w.part p).kids = none := by
  unfold World.part
  rw [List.getD_eq_getElem?_getD]
  cases hp : w.parts[p]? with
  | none => rfl
  | some r => exact h r (List.mem_of_getElem? hp)

theorem PartsLeaf.leafCount {w : World} (h : PartsLeaf w) (p : Nat) : w.leafCount p = 1 := by
  unfold World.leafCount; rw [h.kids]

theorem dev_mem_or_default (w : World) (x : Nat) : w.dev x ∈ w.devs ∨ w.dev x = default := by
  unfold World.dev
  rw [List.getD_eq_getElem?_getD]
  cases hp : w.devs[x]? with
  | none => right; rfl
  | some r => left; exact List.mem_of_getElem? hp

theorem dev_mem {w : World} {x : Nat} (h : x < w.devs.length) : w.dev x ∈ w.devs := by
  unfold World.dev
  rw [List.getD_eq_getElem?_getD, List.getElem?_eq_getElem h]
  exact List.getElem_mem h

theorem devOK_default : DevOK default := by decide

theorem devOK_stat1 {d : Dev} (h : DevOK (stat1 d)) : DevOK d := h

theorem S1.devOK {w : World} (h : S1 w) (x : Nat) : DevOK (w.dev x) := by
  apply devOK_stat1
  rw [← sw_dev]
  rcases dev_mem_or_default (sw w) x with hm | hd
  · exact h.1.devOK _ hm
  · rw [hd]; exact devOK_default

theorem S1.kindOK {w : World} (h : S1 w) (x : Nat) : kindOK (w.dev x).kind = true := (h.devOK x).1
theorem S1.resReq {w : World} (h : S1 w) (x : Nat) : (w.dev x).resReq = none := by
  have := (h.devOK x).2.1
  cases hr : (w.dev x).resReq with
  | none => rfl
  | some r => rw [hr] at this; cases this
theorem S1.recvPure {w : World} (h : S1 w) (x : Nat) : ∀ c ∈ (w.dev x).recvCbs, cbPure c = true :=
  (h.devOK x).2.2.1
theorem S1.finPure {w : World} (h : S1 w) (x : Nat) : ∀ c ∈ (w.dev x).finCbs, cbPure c = true :=
  (h.devOK x).2.2.2.1
theorem S1.genBatch {w : World} (h : S1 w) (x : Nat) : (w.dev x).genBatch = 0 := (h.devOK x).2.2.2.2.1
theorem S1.delay {w : World} (h : S1 w) (x : Nat) (hk : (w.dev x).kind = .buffer) :
    0 ≤ (w.dev x).delay := (h.devOK x).2.2.2.2.2.1 hk
theorem S1.source_up {w : World} (h : S1 w) (x : Nat) (hk : (w.dev x).kind = .source) :
    (w.dev x).up = [] := (h.devOK x).2.2.2.2.2.2 hk

theorem S1.up_sym {w : World} (h : S1 w) {x u : Nat} (hx : x < w.devs.length)
    (hu : u ∈ (w.dev x).up) : u < w.devs.length ∧ x ∈ (w.dev u).down := by
  have := (h.1.wiring x (by simpa using hx)).1 u (by rw [sw_dev]; exact hu)
  simp only [sw_dev, sw_devs_length] at this
  exact this

theorem S1.down_sym {w : World} (h : S1 w) {x y : Nat} (hx : x < w.devs.length)
    (hy : y ∈ (w.dev x).down) : y < w.devs.length ∧ x ∈ (w.dev y).up := by
  have := (h.1.wiring x (by simpa using hx)).2 y (by rw [sw_dev]; exact hy)
  simp only [sw_dev, sw_devs_length] at this
  exact this

theorem dev_getElem {w : World} {x : Nat} (h : x < w.devs.length) : w.dev x = w.devs[x] := by
  unfold World.dev
  rw [List.getD_eq_getElem?_getD, List.getElem?_eq_getElem h]; rfl

theorem S1.aid_inj {w : World} (h : S1 w) {x y : Nat} (hx : x < w.devs.length)
    (hy : y < w.devs.length) (e : (w.dev x).aid = (w.dev y).aid) : x = y := by
  have hn : (w.devs.map (·.aid)).Nodup := by
    have := h.1.aids
    simpa [sw, List.map_map, Function.comp_def, stat1] using this
  rw [dev_getElem hx, dev_getElem hy] at e
  have := (List.getElem_inj (h₀ := by simpa using hx) (h₁ := by simpa using hy) hn).mp
    (by simpa using e)
  exact this

theorem S1.depth {w : World} (h : S1 w) {x : Nat} (hx : x < w.devs.length) :
    gateDepthLe w.devs.length w x = true := by
  have := (h.1.gates x (by simpa using hx)).1
  rwa [gateDepthLe_sw, sw_devs_length] at this

theorem S1.noSelf {w : World} (h : S1 w) {x y : Nat} (hx : x < w.devs.length)
    (hy : y ∈ (w.dev x).down) : gReach w.devs.length w y x = false := by
  have := (h.1.gates x (by simpa using hx)).2 y (by rw [sw_dev]; exact hy)
  rwa [gReach_sw, sw_devs_length] at this

theorem S1.aid_mem {w : World} (h : S1 w) {x : Nat} (hx : x < w.devs.length) :
    w.dev x ∈ w.devs := dev_mem hx

theorem S1.target {w : World} (h : S1 w) {t : Target} (ht : t ∈ w.targets) {d : Nat}
    (hd : t.dev = some d) : (w.dev d).kind = .processor := by
  have := h.1.targets ({ dev := t.dev } : Target) (by simp only [sw, List.mem_map]; exact ⟨t, ht, rfl⟩) d
    (by simp [hd])
  rw [sw_dev] at this
  exact this

theorem opS1_sw {w w' : World} (e : sw w' = sw w) (op : Op) (h : OpS1 w op) : OpS1 w' op := by
  have key : ∀ a : Int, (∀ d ∈ w.devs, d.aid ≠ a) → ∀ d ∈ w'.devs, d.aid ≠ a := by
    intro a ha d hd hda
    have h1 : stat1 d ∈ (sw w').devs := by simp only [sw, List.mem_map]; exact ⟨d, hd, rfl⟩
    rw [e] at h1
    simp only [sw, List.mem_map] at h1
    obtain ⟨d0, hd0, hs⟩ := h1
    exact ha d0 hd0 (by have := congrArg Dev.aid hs; simp only [stat1] at this; rw [this]; exact hda)
  cases op <;> simp only [OpS1] at h ⊢ <;> first | exact h | exact key _ h

theorem opS1_of_sw (w : World) (op : Op) (h : OpS1 (sw w) op) : OpS1 w op := by
  have key : ∀ a : Int, (∀ d ∈ (sw w).devs, d.aid ≠ a) → ∀ d ∈ w.devs, d.aid ≠ a := by
    intro a ha d hd hda
    exact ha (stat1 d) (by simp only [sw, List.mem_map]; exact ⟨d, hd, rfl⟩) hda
  cases op <;> simp only [OpS1] at h ⊢ <;> first | exact h | exact key _ h

theorem S1.script {w : World} (h : S1 w) (k : Nat) : ∀ op ∈ w.scripts.getD k [], OpS1 w op := by
  intro op hop
  by_cases hk : k < w.scripts.length
  · have e : w.scripts.getD k [] = w.scripts[k] := by simp [List.getD_eq_getElem?_getD, hk]
    rw [e] at hop
    exact opS1_of_sw w op (h.1.scripts _ (List.getElem_mem hk) op hop)
  · have e : w.scripts.getD k [] = [] := by
      simp [List.getD_eq_getElem?_getD, Nat.le_of_not_lt hk]
    rw [e] at hop; cases hop

/-! ### who holds a part that wants to leave -/

/-- `is_operational()` as a function of the device. -/
def opn (d : Dev) : Bool :=
  match d.kind with
  | .processor => !d.shutDown
  | _ => true

theorem operational_eq (w : World) (x : Nat) : w.operational x = opn (w.dev x) := rfl

/-- the source may still supply a part -/
def budgetOK (d : Dev) : Bool :=
  match d.maxParts with
  | none => true
  | some m => decide (1 ≤ m - d.produced)

/-- The part the device holds and wants to hand over (finished part of an operational handler /
processor, of a source whose budget allows; head of a buffer). -/
def holdsD (d : Dev) : Option Nat :=
  match d.kind with
  | .source => if budgetOK d then d.output else none
  | .handler => d.output
  | .processor => if d.shutDown then none else d.output
  | .buffer => d.buf.head?.map (·.2)
  | _ => none

/-- the time at which the held part may leave at the earliest, never before `now` -/
def dueD (now : Int) (d : Dev) : Int :=
  match d.kind, d.buf with
  | .buffer, (t, _) :: _ => if t + d.delay < now then now else t + d.delay
  | _, _ => now

/-- the remaining wait of the held part is over -/
def expiredD (now : Int) (d : Dev) : Bool :=
  match d.kind, d.buf with
  | .buffer, (t, _) :: _ => decide (d.delay - (now - t) ≤ 0)
  | _, _ => true

theorem le_dueD (now : Int) (d : Dev) : now ≤ dueD now d := by
  unfold dueD; split
  · split <;> omega
  · exact Int.le_refl _

theorem dueD_mono {n1 n2 : Int} (h : n1 ≤ n2) (d : Dev) : dueD n1 d ≤ dueD n2 d := by
  unfold dueD; split
  · split <;> split <;> omega
  · exact h

theorem dueD_of_expired {now : Int} {d : Dev} (h : expiredD now d = true) : dueD now d = now := by
  unfold expiredD at h; unfold dueD
  cases hb : d.buf with
  | nil => cases d.kind <;> rfl
  | cons a l =>
    obtain ⟨t, q⟩ := a
    rw [hb] at h
    cases hk : d.kind <;> simp only [hk] at h ⊢
    simp only [decide_eq_true_eq] at h
    split <;> omega

/-- **ready**: device `d` holds part `p`, and `p` may leave now. -/
def ready (w : World) (d p : Nat) : Prop :=
  holdsD (w.dev d) = some p ∧ expiredD w.now (w.dev d) = true

instance (w : World) (d p : Nat) : Decidable (ready w d p) := by unfold ready; infer_instance

theorem holdsD_default : holdsD default = none := rfl

theorem holdsD_lt {w : World} {d p : Nat} (h : holdsD (w.dev d) = some p) : d < w.devs.length := by
  apply Nat.lt_of_not_le
  intro hc
  rw [dev_of_length_le hc] at h
  cases h

/-- what `holdsD` says about the kind and the slots -/
theorem holdsD_cases {d : Dev} {p : Nat} (h : holdsD d = some p) :
    (d.kind = .source ∧ budgetOK d = true ∧ d.output = some p) ∨
    (d.kind = .handler ∧ d.output = some p) ∨
    (d.kind = .processor ∧ d.shutDown = false ∧ d.output = some p) ∨
    (d.kind = .buffer ∧ ∃ t rest, d.buf = (t, p) :: rest) := by
  unfold holdsD at h
  cases hk : d.kind <;> simp only [hk] at h
  · left; split at h
    · next hb => exact ⟨rfl, hb, h⟩
    · cases h
  · right; left; exact ⟨rfl, h⟩
  · right; right; left
    split at h
    · cases h
    · next hs => exact ⟨rfl, by simpa using hs, h⟩
  · right; right; right
    refine ⟨rfl, ?_⟩
    cases hb : d.buf with
    | nil => rw [hb] at h; cases h
    | cons a l =>
      rw [hb] at h
      obtain ⟨t, q⟩ := a
      simp at h
      exact ⟨t, l, by rw [h]⟩
  all_goals cases h

theorem holdsD_opn {d : Dev} {p : Nat} (h : holdsD d = some p) : opn d = true := by
  rcases holdsD_cases h with h | h | h | h
  · unfold opn; rw [h.1]
  · unfold opn; rw [h.1]
  · unfold opn; rw [h.1, h.2.1]; rfl
  · unfold opn; rw [h.1]

theorem holdsD_hl {d : Dev} {p : Nat} (h : holdsD d = some p) :
    isHandlerLike d.kind = true ∧ d.kind ≠ .sink := by
  rcases holdsD_cases h with h | h | h | h <;> rw [h.1] <;> exact ⟨rfl, by decide⟩

/-- the parts a device holds (input slot, output slot, buffer) -/
def heldL (d : Dev) : List Nat := d.part.toList ++ d.output.toList ++ d.buf.map (·.2)

theorem holdsD_mem_heldL {d : Dev} {p : Nat} (h : holdsD d = some p) : p ∈ heldL d := by
  unfold heldL
  rcases holdsD_cases h with h | h | h | h
  · simp [h.2.2]
  · simp [h.2]
  · simp [h.2.2]
  · obtain ⟨t, rest, hb⟩ := h.2
    simp [hb]

/-- every held part exists -/
def HeldValid (w : World) : Prop := ∀ d ∈ w.devs, ∀ p ∈ heldL d, p < w.parts.length

instance (w : World) : Decidable (HeldValid w) := by unfold HeldValid; infer_instance

theorem HeldValid.dev {w : World} (h : HeldValid w) (x : Nat) : ∀ p ∈ heldL (w.dev x), p < w.parts.length := by
  rcases dev_mem_or_default w x with hm | hd
  · exact h _ hm
  · rw [hd]; intro p hp
    have : heldL (default : Dev) = [] := rfl
    rw [this] at hp; cases hp

/-! ### the acceptance predicate -/

/-- `_can_accept_part` (state part) as a function of the device, for single parts. -/
def accB (d : Dev) : Bool :=
  match d.kind with
  | .buffer =>
    (match d.cap with | none => true | some c => decide (d.level + 1 ≤ c)) &&
      opn d && !d.blockInput && d.part.isNone && d.output.isNone
  | .source | .handler | .processor | .batcher | .sink =>
    opn d && !d.blockInput && d.part.isNone && d.output.isNone
  | _ => opn d && !d.blockInput

theorem canAcceptBasic_eq {w : World} (h : PartsLeaf w) (x p : Nat) :
    w.canAcceptBasic x p = accB (w.dev x) := by
  unfold canAcceptBasic accB
  simp only [operational_eq, h.leafCount]
  cases (w.dev x).kind <;> try rfl
  cases (w.dev x).cap with
  | none => rfl
  | some c =>
    have : (decide ((w.dev x).level + 1 ≤ c) && decide ((w.dev x).level < c))
        = decide ((w.dev x).level + 1 ≤ c) := by
      by_cases hc : (w.dev x).level + 1 ≤ c
      · have : (w.dev x).level < c := by omega
        simp [hc, this]
      · simp [hc]
    simp only [this]

/-- **wouldAccept**: the Boolean answer `give` would return, computed without changing anything. -/
def wouldAccept : Nat → World → Nat → Nat → Bool
  | 0, _, _, _ => false
  | f + 1, w, x, p =>
    match (w.dev x).kind with
    | .source | .handler | .processor | .buffer | .batcher | .sink => w.canAcceptBasic x p
    | .gate =>
      w.gatePred (w.dev x).pred p && w.canAcceptBasic x p &&
        (w.dev x).down.any (fun y => wouldAccept f w y p)
    | _ => false

/-- `wouldAccept` with the devices of `N` counted as refusing. -/
def wouldAcceptN : Nat → World → List Nat → Nat → Nat → Bool
  | 0, _, _, _, _ => false
  | f + 1, w, N, x, p =>
    if N.contains x then false
    else match (w.dev x).kind with
    | .source | .handler | .processor | .buffer | .batcher | .sink => w.canAcceptBasic x p
    | .gate =>
      w.gatePred (w.dev x).pred p && w.canAcceptBasic x p &&
        (w.dev x).down.any (fun y => wouldAcceptN f w N y p)
    | _ => false

theorem wouldAcceptN_nil (f : Nat) (w : World) (x p : Nat) :
    wouldAcceptN f w [] x p = wouldAccept f w x p := by
  induction f generalizing x with
  | zero => rfl
  | succ f ih =>
    unfold wouldAcceptN wouldAccept
    simp only [List.contains_nil, Bool.false_eq_true, if_false]
    simp only [ih]

/-! ### the invariant -/

/-- A live PASS_PART event of device `d` (for its asset id) is queued for the due time of the held
part or earlier. -/
def Att (w : World) (d : Nat) : Prop :=
  ∃ e ∈ w.env.events, e.act = (Action.passPart d).toNat ∧ e.asset = (w.dev d).aid ∧
    e.cancelled = false ∧ e.time ≤ dueD w.now (w.dev d)

instance (w : World) (d : Nat) : Decidable (Att w d) := by unfold Att; infer_instance

/-- `d` is flagged and no downstream device (ignoring those of `N`) would accept `p`. -/
def Blocked (w : World) (N : List Nat) (d p : Nat) : Prop :=
  (w.dev d).waitingDS = true ∧ ∀ y ∈ (w.dev d).down, wouldAcceptN w.fuel w N y p = false

instance (w : World) (N : List Nat) (d p : Nat) : Decidable (Blocked w N d p) := by
  unfold Blocked; infer_instance

/-- The wake-up invariant, generalised: devices of `E` are exempt (their status is being
recomputed), devices of `N` have a notification pending. -/
def WakeG (E N : List Nat) (w : World) : Prop :=
  ∀ d p, holdsD (w.dev d) = some p → d ∉ E → Att w d ∨ Blocked w N d p

/-- no queued or paused failure targets a device that is not a processor -/
def EvOK (w : World) : Prop :=
  ∀ n ∈ C02V.acts w.env, ∀ d, Action.ofNat n = .fail d → (w.dev d).kind = .processor

/-- Everything the induction carries. -/
structure G (E N : List Nat) (w : World) : Prop where
  s1 : S1 w
  inv : C01.Inv w.env
  now0 : 0 ≤ w.now
  ev : EvOK w
  valid : HeldValid w
  wake : WakeG E N w

end C03W
end SimProc
