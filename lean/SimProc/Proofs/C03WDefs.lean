/-
C03W — the closed-world "no lost wake-up" invariant: definitions.

* `SC w`      : the (decidable) static scope of the machinery (stage A: processors may declare
                resource requirements; stage B: batchers, batches; stage C: group devices — any
                number of groups, `GroupOK`; "there is one group only" is the separate predicate
                `OneGrp`; scripts may RE-WIRE: `RewOK`, the envelope `envl`, `EnvOK`);
                `S1 w` : the scope of stage S1 (no requirement declared, no batch, no group, no
                re-wiring script: `NR`).
* `holdsD`, `dueD`, `expiredD`, `ready` : which device holds a part that wants to leave.
* `wouldAccept`, `wouldAcceptN` : the pure acceptance predicate (with a mask `N` of devices whose
  notification is still pending and a mask `A` of batchers that have just notified); both thread
  the group-path stack of the part (`wouldAcceptT`, `wouldAcceptS`).
* `Att`, `Blocked`, `WakeG`, `G` : the invariant (generalised by a set `E` of exempt devices and a
  set `N` of devices with a pending notification).
-/
import SimProc.Props.C03
import SimProc.Props.C08
import SimProc.Proofs.StaticFloor

namespace SimProc
namespace C03W
open World FloorCoreL C03

/-! ### the static part of a device / of a world -/

/-- A device with every dynamic field reset: what remains is kind, asset id, wiring, callbacks,
resource requirement, generator parameters, delay, capacity, predicate. -/
def stat1 (d : Dev) : Dev :=
  { d with since := none, waitingDS := false, blockInput := false, inited := false, val := {},
           cycle := 0, offset := 0, part := none, output := none, shutDown := false,
           reserved := none, waitingRes := false, uptime := 0, lastRestore := some 0,
           timeInUse := 0, lastUseStart := none, finSensors := [], maxParts := none,
           produced := 0, costProduced := 0, collected := [], recvCount := 0, recvValue := 0,
           buf := [], level := 0, inprog := none }

@[simp] theorem stat1_default : stat1 default = default := rfl
@[simp] theorem stat1_stat1 (d : Dev) : stat1 (stat1 d) = stat1 d := rfl

/-- The static world: static devices, scripts, which device a maintenance target shuts down, the
group table. -/
def sw (w : World) : World :=
  { devs := w.devs.map stat1, scripts := w.scripts,
    targets := w.targets.map (fun t => ({ dev := t.dev } : Target)), groups := w.groups }

theorem sw_groups {w w' : World} (h : sw w' = sw w) : w'.groups = w.groups := by
  have := congrArg World.groups h; exact this

theorem sw_dev (w : World) (x : Nat) : (sw w).dev x = stat1 (w.dev x) := by
  unfold World.dev sw
  simp only []
  rw [← stat1_default, getD_map, stat1_default]

@[simp] theorem sw_devs_length (w : World) : (sw w).devs.length = w.devs.length := by simp [sw]

theorem sw_stat {w w' : World} (h : sw w' = sw w) (x : Nat) :
    stat1 (w'.dev x) = stat1 (w.dev x) := by
  rw [← sw_dev, ← sw_dev, h]

theorem sw_len {w w' : World} (h : sw w' = sw w) : w'.devs.length = w.devs.length := by
  rw [← sw_devs_length, ← sw_devs_length w, h]

section statfields
variable {w w' : World} (h : sw w' = sw w) (x : Nat)
include h
theorem sw_kind : (w'.dev x).kind = (w.dev x).kind := by
  have := congrArg Dev.kind (sw_stat h x); exact this
theorem sw_aid : (w'.dev x).aid = (w.dev x).aid := by
  have := congrArg Dev.aid (sw_stat h x); exact this
theorem sw_up : (w'.dev x).up = (w.dev x).up := by
  have := congrArg Dev.up (sw_stat h x); exact this
theorem sw_down : (w'.dev x).down = (w.dev x).down := by
  have := congrArg Dev.down (sw_stat h x); exact this
theorem sw_pred : (w'.dev x).pred = (w.dev x).pred := by
  have := congrArg Dev.pred (sw_stat h x); exact this
theorem sw_delay : (w'.dev x).delay = (w.dev x).delay := by
  have := congrArg Dev.delay (sw_stat h x); exact this
theorem sw_cap : (w'.dev x).cap = (w.dev x).cap := by
  have := congrArg Dev.cap (sw_stat h x); exact this
theorem sw_resReq : (w'.dev x).resReq = (w.dev x).resReq := by
  have := congrArg Dev.resReq (sw_stat h x); exact this
theorem sw_group : (w'.dev x).group = (w.dev x).group := by
  have := congrArg Dev.group (sw_stat h x); exact this
end statfields

/-! ### the scope S1 -/

/-- the kinds of stage S1 -/
def kindOK1 : Kind → Bool
  | .source | .handler | .processor | .buffer | .gate | .sink => true
  | _ => false

/-- the kinds of the machinery's scope: all -/
def kindOK : Kind → Bool := fun _ => true

theorem kindOK_of_kindOK1 {k : Kind} (_ : kindOK1 k = true) : kindOK k = true := rfl

/-! ### groups and flow controllers -/

/-- the group input / output / paths of the group device `x` belongs to -/
def groupIn (w : World) (x : Nat) : Nat := (w.groups.getD (w.dev x).group default).input
def groupOut (w : World) (x : Nat) : Nat := (w.groups.getD (w.dev x).group default).output
def groupPaths (w : World) (x : Nat) : List Nat := (w.groups.getD (w.dev x).group default).paths

/-- pass-through flow controllers -/
def isCtrl : Kind → Bool
  | .gate | .gpath | .ginput | .goutput => true
  | _ => false

/-- where a controller may pass an offer on to (for a group output: the downstream devices of ALL
paths of its group — which one is used depends on the part) -/
def csucc (w : World) (x : Nat) : List Nat :=
  match (w.dev x).kind with
  | .gate | .ginput => (w.dev x).down
  | .gpath => [groupIn w x]
  | .goutput => (groupPaths w x).flatMap (fun g => (w.dev g).down)
  | _ => []

/-- recursion levels the notification dispatch spends on the way back through a controller -/
def ccost : Kind → Nat
  | .gate | .ginput => 2
  | .gpath => 1
  | .goutput => 3
  | _ => 0

/-- every chain of controllers starting at `x` ends within `n` controllers and costs the
notification dispatch at most `b` recursion levels -/
def costLe : Nat → World → Nat → Nat → Bool
  | 0, w, _, x => !isCtrl (w.dev x).kind
  | n + 1, w, b, x =>
    !isCtrl (w.dev x).kind ||
      (decide (ccost (w.dev x).kind ≤ b) && (csucc w x).all (fun z => costLe n w (b - ccost (w.dev x).kind) z))

/-- `x` is `y` or is reached from `y` through a chain of controllers. -/
def cReach : Nat → World → Nat → Nat → Bool
  | 0, _, y, x => y == x
  | f + 1, w, y, x => y == x || (isCtrl (w.dev y).kind && (csucc w y).any (fun z => cReach f w z x))

/-- the group records are consistent: the input / output of the group of a group path are a group
input / group output of that group, the path is registered; a group input has no upstream
neighbour (it is reached through group paths only).  (ANY number of groups: the restriction to one
group is the separate predicate `OneGrp`.) -/
def GroupOK (w : World) (x : Nat) : Prop :=
  ((w.dev x).kind = .gpath →
    groupIn w x < w.devs.length ∧ (w.dev (groupIn w x)).kind = .ginput ∧
    (w.dev (groupIn w x)).group = (w.dev x).group ∧
    groupOut w x < w.devs.length ∧ (w.dev (groupOut w x)).kind = .goutput ∧
    (w.dev (groupOut w x)).group = (w.dev x).group ∧ x ∈ groupPaths w x) ∧
  ((w.dev x).kind = .ginput → (w.dev x).up = [])

/-- all group paths lead out through the same group output: ONE group (shared by its paths) -/
def OneGrpAt (w : World) (x : Nat) : Prop :=
  (w.dev x).kind = .gpath → ∀ go ∈ List.range w.devs.length, (w.dev go).kind = .goutput →
    groupOut w x = go

instance (w : World) (x : Nat) : Decidable (OneGrpAt w x) := by unfold OneGrpAt; infer_instance

/-- **There is one group only**: every group path leads out through every (that is: the) group
output. -/
def OneGrp (w : World) : Prop := ∀ x ∈ List.range w.devs.length, OneGrpAt w x

instance (w : World) : Decidable (OneGrp w) := by unfold OneGrp; infer_instance

instance (w : World) (x : Nat) : Decidable (GroupOK w x) := by unfold GroupOK; infer_instance

/-- A callback that leaves the part alone (it may change cycle time / offset of the device). -/
def cbPure (c : PartCb) : Bool := c.addValue == 0 && c.setQuality.isNone

def DevOK (d : Dev) : Prop :=
  kindOK1 d.kind = true ∧ d.resReq.isNone = true ∧ (∀ c ∈ d.recvCbs, cbPure c = true) ∧
    (∀ c ∈ d.finCbs, cbPure c = true) ∧ d.genBatch = 0 ∧ (d.kind = .buffer → 0 ≤ d.delay) ∧
    (d.kind = .source → d.up = [])

instance (d : Dev) : Decidable (DevOK d) := by unfold DevOK; infer_instance

/-- every chain of gates starting at `g` has at most `f` gates -/
def gateDepthLe : Nat → World → Nat → Bool
  | 0, w, g => (w.dev g).kind != .gate
  | f + 1, w, g => (w.dev g).kind != .gate || (w.dev g).down.all (fun y => gateDepthLe f w y)

/-- `x` is `y` or is reached from `y` through a chain of gates (following `down`). -/
def gReach : Nat → World → Nat → Nat → Bool
  | 0, _, y, x => y == x
  | f + 1, w, y, x => y == x || ((w.dev y).kind == .gate && (w.dev y).down.any (fun z => gReach f w z x))

/-- Scripted operations of S1: no rewiring, no creation, pause/unpause/cancel only for asset ids
that do not belong to a device. -/
def OpS1 (w : World) : Op → Prop
  | .rewire _ _ => False
  | .create _ => False
  | .pause a => ∀ d ∈ w.devs, d.aid ≠ a
  | .unpause a => ∀ d ∈ w.devs, d.aid ≠ a
  | .cancel a => ∀ d ∈ w.devs, d.aid ≠ a
  | _ => True

instance (w : World) (op : Op) : Decidable (OpS1 w op) := by
  cases op <;> (simp only [OpS1]; infer_instance)

/-- The static conditions (a function of `sw w` only). -/
structure S1s (w : World) : Prop where
  devOK : ∀ d ∈ w.devs, DevOK d
  wiring : ∀ x ∈ List.range w.devs.length,
    ∀ y ∈ (w.dev x).down, y < w.devs.length ∧ x ∈ (w.dev y).up
  aids : (w.devs.map (·.aid)).Nodup
  gates : ∀ x ∈ List.range w.devs.length, gateDepthLe w.devs.length w x = true ∧
    ∀ y ∈ (w.dev x).down, gReach w.devs.length w y x = false
  targets : ∀ t ∈ w.targets, ∀ d ∈ t.dev.toList, (w.dev d).kind = .processor
  scripts : ∀ l ∈ w.scripts, ∀ op ∈ l, OpS1 w op

instance (w : World) : Decidable (S1s w) :=
  decidable_of_iff
    ((∀ d ∈ w.devs, DevOK d) ∧
     (∀ x ∈ List.range w.devs.length,
        ∀ y ∈ (w.dev x).down, y < w.devs.length ∧ x ∈ (w.dev y).up) ∧
     (w.devs.map (·.aid)).Nodup ∧
     (∀ x ∈ List.range w.devs.length, gateDepthLe w.devs.length w x = true ∧
        ∀ y ∈ (w.dev x).down, gReach w.devs.length w y x = false) ∧
     (∀ t ∈ w.targets, ∀ d ∈ t.dev.toList, (w.dev d).kind = .processor) ∧
     (∀ l ∈ w.scripts, ∀ op ∈ l, OpS1 w op))
    ⟨fun ⟨a, b, c, d, e, f⟩ => ⟨a, b, c, d, e, f⟩, fun ⟨a, b, c, d, e, f⟩ => ⟨a, b, c, d, e, f⟩⟩

/-- all parts are single parts (no batches) -/
def PartsLeaf (w : World) : Prop := ∀ r ∈ w.parts, r.kids = none

instance (w : World) : Decidable (PartsLeaf w) := by unfold PartsLeaf; infer_instance

/-- **The scope of stage S1**: only sources, handlers, processors without resource requirement,
buffers (delay ≥ 0), gates and sinks; callbacks do not change parts; sources generate single parts;
every downstream connection in range and with its upstream counterpart; asset ids of devices
pairwise distinct; no cycle through gates only
(every gate chain has at most `devs.length` gates, no device reaches itself through gates);
maintenance targets are processors; scripts do not rewire, create, or pause/cancel device events;
no batch exists. -/
def S1 (w : World) : Prop := S1s (sw w) ∧ PartsLeaf w

theorem gateDepthLe_sw (w : World) : ∀ f g, gateDepthLe f (sw w) g = gateDepthLe f w g := by
  intro f
  induction f with
  | zero => intro g; simp only [gateDepthLe, sw_dev]; rfl
  | succ f ih => intro g; simp only [gateDepthLe, sw_dev, ih]; rfl

theorem gReach_sw (w : World) : ∀ f y x, gReach f (sw w) y x = gReach f w y x := by
  intro f
  induction f with
  | zero => intro y x; rfl
  | succ f ih => intro y x; simp only [gReach, sw_dev, ih]; rfl

instance (w : World) : Decidable (S1 w) := by unfold S1; infer_instance

theorem S1.of_sw {w w' : World} (h : S1 w) (e : sw w' = sw w) (hp : PartsLeaf w') : S1 w' :=
  ⟨by rw [e]; exact h.1, hp⟩

/-! ### the scope of the machinery: S1 plus processors WITH resource requirements -/

/-- some device declares a resource requirement -/
def hasRes (w : World) : Bool := w.devs.any (fun d => d.resReq.isSome)

/-- a declared requirement has no negative amount -/
def reqNN (d : Dev) : Prop := ∀ r ∈ d.resReq.toList, ∀ e ∈ r, 0 ≤ e.2

instance (d : Dev) : Decidable (reqNN d) := by unfold reqNN; infer_instance

/-- `DevOK` for the machinery's scope: batchers are allowed, sources may generate batches, a
declared requirement has no negative amount. -/
def DevOKc (d : Dev) : Prop :=
  kindOK d.kind = true ∧ reqNN d ∧ (∀ c ∈ d.recvCbs, cbPure c = true) ∧
    (∀ c ∈ d.finCbs, cbPure c = true) ∧ (d.kind = .buffer → 0 ≤ d.delay) ∧
    (d.kind = .source → d.up = [])

instance (d : Dev) : Decidable (DevOKc d) := by unfold DevOKc; infer_instance

/-! ### re-wiring while the simulation runs -/

/-- the operation re-wires or creates -/
def isRw : Op → Bool
  | .rewire _ _ => true
  | .create _ => true
  | _ => false

/-- no script re-wires or creates -/
def NR (w : World) : Prop :=
  ∀ l ∈ w.scripts, ∀ op ∈ l, (∀ d ups, op ≠ .rewire d ups) ∧ (∀ sp, op ≠ .create sp)

theorem isRw_false_iff (op : Op) :
    isRw op = false ↔ (∀ d ups, op ≠ .rewire d ups) ∧ (∀ sp, op ≠ .create sp) := by
  cases op <;> simp [isRw]

instance (w : World) : Decidable (NR w) :=
  decidable_of_iff (∀ l ∈ w.scripts, ∀ op ∈ l, isRw op = false)
    ⟨fun h l hl op hop => (isRw_false_iff op).mp (h l hl op hop),
     fun h l hl op hop => (isRw_false_iff op).mpr (h l hl op hop)⟩

/-- the connections `u → x` the scripts may ever add: one for every `rewire x ups` and `u ∈ ups` -/
def rewEdges (s : List (List Op)) : List (Nat × Nat) :=
  s.flatMap (fun l => l.flatMap (fun op =>
    match op with
    | .rewire x ups => ups.map (fun u => (u, x))
    | _ => []))

/-- the downstream neighbours the scripts may ever give device `z` -/
def extraDown (s : List (List Op)) (z : Nat) : List Nat :=
  ((rewEdges s).filter (fun e => e.1 == z)).map (·.2)

/-- add to every device the downstream neighbours the scripts may give it -/
def addDown (s : List (List Op)) : Nat → List Dev → List Dev
  | _, [] => []
  | i, d :: ds => { d with down := d.down ++ extraDown s i } :: addDown s (i + 1) ds

/-- **The envelope** of a world: every connection that exists now or that a script may add. -/
def envl (w : World) : World := { w with devs := addDown w.scripts 0 w.devs }

/-- the controller conditions (bounded chains, no device reaches itself through controllers) hold
for the envelope: they hold whatever the order in which the scripts re-wire -/
def EnvOK (w : World) : Prop :=
  ∀ x ∈ List.range w.devs.length,
    costLe w.devs.length (envl w) (2 * w.devs.length + 1) x = true ∧
    ∀ y ∈ ((envl w).dev x).down, cReach w.devs.length (envl w) y x = false

instance (w : World) : Decidable (EnvOK w) := by unfold EnvOK; infer_instance

/-- **Admissible re-wiring** `rewire x ups` (a condition on the static world): `x` exists; a
source and a group input get no upstream neighbour; `x` is nobody's downstream neighbour twice
(`set_upstream` removes ONE entry per old upstream neighbour). -/
def RewOK (w : World) (x : Nat) (ups : List Nat) : Prop :=
  x < w.devs.length ∧
  (((w.dev x).kind = .source ∨ (w.dev x).kind = .ginput) → ups = []) ∧
  (∀ d ∈ w.devs, d.down.count x ≤ 1)

instance (w : World) (x : Nat) (ups : List Nat) : Decidable (RewOK w x ups) := by
  unfold RewOK; infer_instance

/-- Scripted operations of the machinery's scope: as `OpS1`, but `rewire x ups` is allowed if it is
admissible (`RewOK`); in a world with resource requirements no script registers a waiting request
of its own (`register`). -/
def OpSC (w : World) : Op → Prop
  | .rewire x ups => RewOK w x ups
  | .create _ => False
  | .pause a => ∀ d ∈ w.devs, d.aid ≠ a
  | .unpause a => ∀ d ∈ w.devs, d.aid ≠ a
  | .cancel a => ∀ d ∈ w.devs, d.aid ≠ a
  | .register _ _ => hasRes w = false
  | _ => True

instance (w : World) (op : Op) : Decidable (OpSC w op) := by
  cases op <;> (simp only [OpSC]; infer_instance)

/-- The static conditions of the machinery's scope (a function of `sw w` only). -/
structure SCs (w : World) : Prop where
  devOK : ∀ d ∈ w.devs, DevOKc d
  wiring : ∀ x ∈ List.range w.devs.length,
    ∀ y ∈ (w.dev x).down, y < w.devs.length ∧ x ∈ (w.dev y).up
  aids : (w.devs.map (·.aid)).Nodup
  gates : ∀ x ∈ List.range w.devs.length,
    costLe w.devs.length w (2 * w.devs.length + 1) x = true ∧
    (∀ y ∈ (w.dev x).down, cReach w.devs.length w y x = false) ∧ GroupOK w x
  targets : ∀ t ∈ w.targets, ∀ d ∈ t.dev.toList, (w.dev d).kind = .processor
  scripts : ∀ l ∈ w.scripts, ∀ op ∈ l, OpSC w op
  envl : EnvOK w

instance (w : World) : Decidable (SCs w) :=
  decidable_of_iff
    ((∀ d ∈ w.devs, DevOKc d) ∧
     (∀ x ∈ List.range w.devs.length,
        ∀ y ∈ (w.dev x).down, y < w.devs.length ∧ x ∈ (w.dev y).up) ∧
     (w.devs.map (·.aid)).Nodup ∧
     (∀ x ∈ List.range w.devs.length,
        costLe w.devs.length w (2 * w.devs.length + 1) x = true ∧
        (∀ y ∈ (w.dev x).down, cReach w.devs.length w y x = false) ∧ GroupOK w x) ∧
     (∀ t ∈ w.targets, ∀ d ∈ t.dev.toList, (w.dev d).kind = .processor) ∧
     (∀ l ∈ w.scripts, ∀ op ∈ l, OpSC w op) ∧ EnvOK w)
    ⟨fun ⟨a, b, c, d, e, f, g⟩ => ⟨a, b, c, d, e, f, g⟩,
     fun ⟨a, b, c, d, e, f, g⟩ => ⟨a, b, c, d, e, f, g⟩⟩

/-- **The scope of the machinery** (stages A, B, C, and re-wiring): as `S1`, but processors may
declare resource requirements (without negative amounts; in that case no script uses `register`),
batchers are allowed, sources may generate batches, parts may be batches, group devices are allowed
(group paths, inputs, outputs with consistent group records, `GroupOK`; the scopes of the stages add
`OneGrp` — one group — or the typing by group contexts of `Proofs/C03ZTyp.lean`),
and scripts may re-wire (`rewire x ups` with `RewOK`; the controller conditions hold for the
envelope of the wiring and the scripts: `EnvOK`). -/
def SC (w : World) : Prop := SCs (sw w)

instance (w : World) : Decidable (SC w) := by unfold SC; infer_instance

theorem SC.of_sw {w w' : World} (h : SC w) (e : sw w' = sw w) : SC w' := by
  unfold SC; rw [e]; exact h

/-- no batcher, no source that generates batches, no group device -/
def NoBatch (w : World) : Prop :=
  ∀ d ∈ w.devs, d.kind ≠ .batcher ∧ d.genBatch = 0 ∧ d.kind ≠ .gpath ∧ d.kind ≠ .ginput ∧
    d.kind ≠ .goutput

instance (w : World) : Decidable (NoBatch w) := by unfold NoBatch; infer_instance

theorem noBatch_sw (w : World) : NoBatch (sw w) ↔ NoBatch w := by
  unfold NoBatch sw
  simp only [List.mem_map]
  constructor
  · intro h d hd; exact h (stat1 d) ⟨d, hd, rfl⟩
  · rintro h d ⟨d0, hd0, rfl⟩; exact h d0 hd0

theorem noBatch_of_sw {w w' : World} (e : sw w' = sw w) : NoBatch w' ↔ NoBatch w := by
  rw [← noBatch_sw, ← noBatch_sw w, e]

theorem hasRes_sw (w : World) : hasRes (sw w) = hasRes w := by
  unfold hasRes sw
  simp only [List.any_map]
  rfl

theorem hasRes_of_sw {w w' : World} (e : sw w' = sw w) : hasRes w' = hasRes w := by
  rw [← hasRes_sw, ← hasRes_sw w, e]

theorem devOKc_of_devOK {d : Dev} (h : DevOK d) : DevOKc d := by
  refine ⟨kindOK_of_kindOK1 h.1, ?_, h.2.2.1, h.2.2.2.1, h.2.2.2.2.2⟩
  intro r hr
  have := h.2.1
  cases hq : d.resReq with
  | none => rw [hq] at hr; cases hr
  | some q => rw [hq] at this; cases this

theorem hasRes_false_iff (w : World) : hasRes w = false ↔ ∀ d ∈ w.devs, d.resReq.isNone = true := by
  unfold hasRes
  rw [List.any_eq_false]
  constructor
  · intro h d hd
    have := h d hd
    cases hr : d.resReq with
    | none => rfl
    | some r => rw [hr] at this; simp at this
  · intro h d hd
    have := h d hd
    cases hr : d.resReq with
    | none => simp
    | some r => rw [hr] at this; cases this

theorem opSC_of_opS1 {w : World} {op : Op} (h : OpS1 w op) (hn : hasRes w = false) : OpSC w op := by
  cases op <;> simp only [OpS1, OpSC] at h ⊢ <;> first | exact h | exact hn

theorem opS1_of_opSC {w : World} {op : Op} (h : OpSC w op) (hn : ∀ d ups, op ≠ .rewire d ups) :
    OpS1 w op := by
  cases op <;> simp only [OpS1, OpSC] at h ⊢ <;> first | exact h | trivial | exact hn _ _ rfl

theorem opS1_nr {w : World} {op : Op} (h : OpS1 w op) :
    (∀ d ups, op ≠ .rewire d ups) ∧ (∀ sp, op ≠ .create sp) := by
  cases op <;> first
    | exact absurd h id
    | exact ⟨fun _ _ hh => Op.noConfusion hh, fun _ hh => Op.noConfusion hh⟩

/-! ### the envelope of a world without re-wiring scripts is the world itself -/

theorem rewEdges_nil_of {s : List (List Op)}
    (h : ∀ l ∈ s, ∀ op ∈ l, ∀ d ups, op ≠ .rewire d ups) : rewEdges s = [] := by
  unfold rewEdges
  rw [List.flatMap_eq_nil_iff]
  intro l hl
  rw [List.flatMap_eq_nil_iff]
  intro op hop
  cases op <;> first | rfl | exact absurd rfl (h l hl _ hop _ _)

theorem addDown_nil_edges {s : List (List Op)} (h : rewEdges s = []) :
    ∀ (l : List Dev) (i : Nat), addDown s i l = l := by
  intro l
  induction l with
  | nil => intro i; rfl
  | cons d ds ih =>
    intro i
    simp only [addDown, ih, extraDown, h, List.filter_nil, List.map_nil, List.append_nil]

theorem envl_of_nr {w : World} (h : NR w) : envl w = w := by
  unfold envl
  rw [addDown_nil_edges (rewEdges_nil_of (fun l hl op hop => (h l hl op hop).1))]

theorem kindOK1_of {k : Kind} (hb : k ≠ .batcher) (h1 : k ≠ .gpath) (h2 : k ≠ .ginput)
    (h3 : k ≠ .goutput) : kindOK1 k = true := by
  cases k <;>
    first | rfl | exact absurd rfl hb | exact absurd rfl h1 | exact absurd rfl h2 | exact absurd rfl h3

/-! ### without group devices the controller conditions are the gate conditions of S1 -/

/-- no group device -/
def NoGrp (v : World) : Prop :=
  ∀ x, (v.dev x).kind ≠ .gpath ∧ (v.dev x).kind ≠ .ginput ∧ (v.dev x).kind ≠ .goutput

theorem isCtrl_noGrp {v : World} (hg : NoGrp v) (x : Nat) :
    isCtrl (v.dev x).kind = ((v.dev x).kind == .gate) := by
  have := hg x
  cases hk : (v.dev x).kind <;> simp_all [isCtrl]

theorem csucc_gate {v : World} {x : Nat} (hk : (v.dev x).kind = .gate) : csucc v x = (v.dev x).down := by
  unfold csucc; rw [hk]

theorem costLe_of_gateDepthLe {v : World} (hg : NoGrp v) : ∀ f b x, gateDepthLe f v x = true →
    2 * f ≤ b → costLe f v b x = true := by
  intro f
  induction f with
  | zero =>
    intro b x h _
    simp only [gateDepthLe, bne_iff_ne, ne_eq] at h
    simp only [costLe, isCtrl_noGrp hg, Bool.not_eq_true', beq_eq_false_iff_ne, ne_eq]
    exact h
  | succ f ih =>
    intro b x h hb
    simp only [gateDepthLe, Bool.or_eq_true, bne_iff_ne, ne_eq, List.all_eq_true] at h
    simp only [costLe, isCtrl_noGrp hg, Bool.or_eq_true, Bool.not_eq_true', beq_eq_false_iff_ne,
      ne_eq, Bool.and_eq_true, decide_eq_true_eq, List.all_eq_true]
    rcases h with h | h
    · exact Or.inl h
    · by_cases hk : (v.dev x).kind = .gate
      · right
        rw [hk, csucc_gate hk]
        refine ⟨by show 2 ≤ b; omega, fun z hz => ih _ z (h z hz) (by show 2 * f ≤ b - 2; omega)⟩
      · exact Or.inl hk

theorem gateDepthLe_of_costLe {v : World} (hg : NoGrp v) : ∀ f b x, costLe f v b x = true →
    gateDepthLe f v x = true := by
  intro f
  induction f with
  | zero =>
    intro b x h
    simp only [costLe, isCtrl_noGrp hg, Bool.not_eq_true', beq_eq_false_iff_ne, ne_eq] at h
    simp only [gateDepthLe, bne_iff_ne, ne_eq]
    exact h
  | succ f ih =>
    intro b x h
    simp only [costLe, isCtrl_noGrp hg, Bool.or_eq_true, Bool.not_eq_true', beq_eq_false_iff_ne,
      ne_eq, Bool.and_eq_true, decide_eq_true_eq, List.all_eq_true] at h
    simp only [gateDepthLe, Bool.or_eq_true, bne_iff_ne, ne_eq, List.all_eq_true]
    rcases h with h | h
    · exact Or.inl h
    · by_cases hk : (v.dev x).kind = .gate
      · right
        rw [csucc_gate hk] at h
        exact fun z hz => ih _ z (h.2 z hz)
      · exact Or.inl hk

theorem cReach_eq_gReach {v : World} (hg : NoGrp v) : ∀ f y x, cReach f v y x = gReach f v y x := by
  intro f
  induction f with
  | zero => intro y x; rfl
  | succ f ih =>
    intro y x
    simp only [cReach, gReach, isCtrl_noGrp hg]
    by_cases hk : (v.dev y).kind = .gate
    · rw [csucc_gate hk]; simp only [ih]
    · have : ((v.dev y).kind == Kind.gate) = false := by simpa using hk
      simp only [this, Bool.false_and]

theorem groupOK_noGrp {v : World} (hg : NoGrp v) (x : Nat) : GroupOK v x :=
  ⟨fun h => absurd h (hg x).1, fun h => absurd h (hg x).2.1⟩

theorem oneGrp_noGrp {v : World} (hg : NoGrp v) : OneGrp v :=
  fun x _ h => absurd h (hg x).1

theorem noGrp_of_devs {v : World}
    (h : ∀ d ∈ v.devs, d.kind ≠ .gpath ∧ d.kind ≠ .ginput ∧ d.kind ≠ .goutput) : NoGrp v := by
  intro x
  unfold World.dev
  rw [List.getD_eq_getElem?_getD]
  cases hp : v.devs[x]? with
  | none => exact ⟨by decide, by decide, by decide⟩
  | some r => exact h r (List.mem_of_getElem? hp)

/-- **S1 is the machinery's scope without resource requirements, batchers, batches, groups and
re-wiring scripts.** -/
theorem S1_iff (w : World) :
    S1 w ↔ SC w ∧ hasRes w = false ∧ NoBatch w ∧ PartsLeaf w ∧ NR w := by
  constructor
  · rintro ⟨h, hp⟩
    have hn : hasRes (sw w) = false :=
      (hasRes_false_iff _).mpr (fun d hd => (h.devOK d hd).2.1)
    have hk1 : ∀ d ∈ (sw w).devs, d.kind ≠ .batcher ∧ d.kind ≠ .gpath ∧ d.kind ≠ .ginput ∧
        d.kind ≠ .goutput := by
      intro d hd
      have h1 := (h.devOK d hd).1
      refine ⟨?_, ?_, ?_, ?_⟩ <;> (intro hk; rw [hk] at h1; cases h1)
    have hg : NoGrp (sw w) := noGrp_of_devs (fun d hd => (hk1 d hd).2)
    have hnr : NR (sw w) := fun l hl op hop => opS1_nr (h.scripts l hl op hop)
    have hgates : ∀ x ∈ List.range (sw w).devs.length,
        costLe (sw w).devs.length (sw w) (2 * (sw w).devs.length + 1) x = true ∧
        (∀ y ∈ ((sw w).dev x).down, cReach (sw w).devs.length (sw w) y x = false) ∧
        GroupOK (sw w) x := by
      intro x hx
      refine ⟨costLe_of_gateDepthLe hg _ _ x (h.gates x hx).1 (by omega), fun y hy => ?_,
        groupOK_noGrp hg x⟩
      rw [cReach_eq_gReach hg]; exact (h.gates x hx).2 y hy
    refine ⟨⟨fun d hd => devOKc_of_devOK (h.devOK d hd), h.wiring, h.aids, hgates, h.targets,
      fun l hl op hop => opSC_of_opS1 (h.scripts l hl op hop) hn, ?_⟩,
      by rw [← hasRes_sw]; exact hn,
      (noBatch_sw w).mp (fun d hd => ?_), hp, hnr⟩
    · unfold EnvOK
      rw [envl_of_nr hnr]
      exact fun x hx => ⟨(hgates x hx).1, (hgates x hx).2.1⟩
    · have := h.devOK d hd
      exact ⟨(hk1 d hd).1, this.2.2.2.2.1, (hk1 d hd).2⟩
  · rintro ⟨h, hn, hb, hp, hnr⟩
    have hn' : hasRes (sw w) = false := by rw [hasRes_sw]; exact hn
    have hb' := (noBatch_sw w).mpr hb
    have hg : NoGrp (sw w) := noGrp_of_devs (fun d hd => (hb' d hd).2.2)
    refine ⟨⟨fun d hd => ?_, h.wiring, h.aids, fun x hx => ?_, h.targets,
      fun l hl op hop => opS1_of_opSC (h.scripts l hl op hop) (hnr l hl op hop).1⟩, hp⟩
    · have hd' := h.devOK d hd
      exact ⟨kindOK1_of (hb' d hd).1 (hb' d hd).2.2.1 (hb' d hd).2.2.2.1 (hb' d hd).2.2.2.2,
        (hasRes_false_iff _).mp hn' d hd, hd'.2.2.1, hd'.2.2.2.1,
        (hb' d hd).2.1, hd'.2.2.2.2⟩
    · refine ⟨gateDepthLe_of_costLe hg _ _ x (h.gates x hx).1, fun y hy => ?_⟩
      rw [← cReach_eq_gReach hg]; exact (h.gates x hx).2.1 y hy

theorem S1.sc {w : World} (h : S1 w) : SC w := ((S1_iff w).mp h).1
theorem S1.noRes {w : World} (h : S1 w) : hasRes w = false := ((S1_iff w).mp h).2.1
theorem S1.noBatch {w : World} (h : S1 w) : NoBatch w := ((S1_iff w).mp h).2.2.1
theorem S1.nr {w : World} (h : S1 w) : NR w := ((S1_iff w).mp h).2.2.2.2

/-! ### extraction of facts from `SC` -/

theorem SC.s {w : World} (h : SC w) : SCs (sw w) := h


theorem PartsLeaf.kids {w : World} (h : PartsLeaf w) (p : Nat) : (w.part p).kids = none := by
  unfold World.part
  rw [List.getD_eq_getElem?_getD]
  cases hp : w.parts[p]? with
  | none => rfl
  | some r => exact h r (List.mem_of_getElem? hp)

theorem PartsLeaf.leafCount {w : World} (h : PartsLeaf w) (p : Nat) : w.leafCount p = 1 := by
  unfold World.leafCount; rw [h.kids]

theorem dev_mem_or_default (w : World) (x : Nat) : w.dev x ∈ w.devs ∨ w.dev x = default := by
  unfold World.dev
  rw [List.getD_eq_getElem?_getD]
  cases hp : w.devs[x]? with
  | none => right; rfl
  | some r => left; exact List.mem_of_getElem? hp

theorem dev_mem {w : World} {x : Nat} (h : x < w.devs.length) : w.dev x ∈ w.devs := by
  unfold World.dev
  rw [List.getD_eq_getElem?_getD, List.getElem?_eq_getElem h]
  exact List.getElem_mem h

theorem devOK_default : DevOKc default := by decide

theorem devOK_stat1 {d : Dev} (h : DevOKc (stat1 d)) : DevOKc d := h

theorem SC.devOK {w : World} (h : SC w) (x : Nat) : DevOKc (w.dev x) := by
  apply devOK_stat1
  rw [← sw_dev]
  rcases dev_mem_or_default (sw w) x with hm | hd
  · exact h.s.devOK _ hm
  · rw [hd]; exact devOK_default

theorem SC.kindOK {w : World} (h : SC w) (x : Nat) : kindOK (w.dev x).kind = true := (h.devOK x).1
theorem SC.reqNN {w : World} (h : SC w) (x : Nat) {req : Req} (hr : (w.dev x).resReq = some req) :
    ∀ e ∈ req, 0 ≤ e.2 := (h.devOK x).2.1 req (by rw [hr]; simp)
theorem SC.recvPure {w : World} (h : SC w) (x : Nat) : ∀ c ∈ (w.dev x).recvCbs, cbPure c = true :=
  (h.devOK x).2.2.1
theorem SC.finPure {w : World} (h : SC w) (x : Nat) : ∀ c ∈ (w.dev x).finCbs, cbPure c = true :=
  (h.devOK x).2.2.2.1
theorem SC.delay {w : World} (h : SC w) (x : Nat) (hk : (w.dev x).kind = .buffer) :
    0 ≤ (w.dev x).delay := (h.devOK x).2.2.2.2.1 hk
theorem SC.source_up {w : World} (h : SC w) (x : Nat) (hk : (w.dev x).kind = .source) :
    (w.dev x).up = [] := (h.devOK x).2.2.2.2.2 hk

theorem SC.down_sym {w : World} (h : SC w) {x y : Nat} (hx : x < w.devs.length)
    (hy : y ∈ (w.dev x).down) : y < w.devs.length ∧ x ∈ (w.dev y).up := by
  have := h.s.wiring x (by simpa using hx) y (by rw [sw_dev]; exact hy)
  simp only [sw_dev, sw_devs_length] at this
  exact this

theorem dev_getElem {w : World} {x : Nat} (h : x < w.devs.length) : w.dev x = w.devs[x] := by
  unfold World.dev
  rw [List.getD_eq_getElem?_getD, List.getElem?_eq_getElem h]; rfl

theorem SC.aid_inj {w : World} (h : SC w) {x y : Nat} (hx : x < w.devs.length)
    (hy : y < w.devs.length) (e : (w.dev x).aid = (w.dev y).aid) : x = y := by
  have hn : (w.devs.map (·.aid)).Nodup := by
    have := h.s.aids
    simpa [sw, List.map_map, Function.comp_def, stat1] using this
  rw [dev_getElem hx, dev_getElem hy] at e
  have := (List.getElem_inj (h₀ := by simpa using hx) (h₁ := by simpa using hy) hn).mp
    (by simpa using e)
  exact this

theorem csucc_sw (w : World) (x : Nat) : csucc (sw w) x = csucc w x := by
  unfold csucc groupIn groupPaths
  simp only [sw_dev]
  rfl

theorem costLe_sw (w : World) : ∀ f b g, costLe f (sw w) b g = costLe f w b g := by
  intro f
  induction f with
  | zero => intro b g; simp only [costLe, sw_dev]; rfl
  | succ f ih => intro b g; simp only [costLe, sw_dev, csucc_sw, ih]; rfl

theorem cReach_sw (w : World) : ∀ f y x, cReach f (sw w) y x = cReach f w y x := by
  intro f
  induction f with
  | zero => intro y x; rfl
  | succ f ih => intro y x; simp only [cReach, sw_dev, csucc_sw, ih]; rfl

theorem SC.cost {w : World} (h : SC w) {x : Nat} (hx : x < w.devs.length) :
    costLe w.devs.length w (2 * w.devs.length + 1) x = true := by
  have := (h.s.gates x (by simpa using hx)).1
  rwa [costLe_sw, sw_devs_length] at this

theorem SC.noSelf {w : World} (h : SC w) {x y : Nat} (hx : x < w.devs.length)
    (hy : y ∈ (w.dev x).down) : cReach w.devs.length w y x = false := by
  have := (h.s.gates x (by simpa using hx)).2.1 y (by rw [sw_dev]; exact hy)
  rwa [cReach_sw, sw_devs_length] at this

theorem SC.groupOK {w : World} (h : SC w) {x : Nat} (hx : x < w.devs.length) : GroupOK w x := by
  have := (h.s.gates x (by simpa using hx)).2.2
  unfold GroupOK groupIn groupOut groupPaths at this ⊢
  simp only [sw_dev, sw_devs_length] at this
  exact this

theorem oneGrp_sw (w : World) : OneGrp (sw w) ↔ OneGrp w := by
  unfold OneGrp OneGrpAt groupOut
  simp only [sw_dev, sw_devs_length]
  exact Iff.rfl

theorem OneGrp.of_sw {w w' : World} (h : OneGrp w) (e : sw w' = sw w) : OneGrp w' := by
  rw [← oneGrp_sw, e, oneGrp_sw]; exact h

/-- `OneGrp` reads the number of devices, kinds, group ids and the group table only -/
theorem OneGrp.congr {w w' : World} (h : OneGrp w) (hl : w'.devs.length = w.devs.length)
    (hk : ∀ x, (w'.dev x).kind = (w.dev x).kind) (hg : ∀ x, (w'.dev x).group = (w.dev x).group)
    (hgr : w'.groups = w.groups) : OneGrp w' := by
  unfold OneGrp OneGrpAt groupOut at h ⊢
  simp only [hl, hk, hg, hgr]
  exact h

/-- `OneGrp` without the bounds on the device indices -/
theorem OneGrp.out {w : World} (h : OneGrp w) {g y : Nat} (hg : (w.dev g).kind = .gpath)
    (hy : (w.dev y).kind = .goutput) : groupOut w g = y := by
  have hgl : g < w.devs.length := by
    apply Nat.lt_of_not_le; intro hc
    rw [dev_of_length_le hc] at hg; cases hg
  have hyl : y < w.devs.length := by
    apply Nat.lt_of_not_le; intro hc
    rw [dev_of_length_le hc] at hy; cases hy
  exact h g (List.mem_range.mpr hgl) hg y (List.mem_range.mpr hyl) hy

theorem SC.aid_mem {w : World} (h : SC w) {x : Nat} (hx : x < w.devs.length) :
    w.dev x ∈ w.devs := dev_mem hx

theorem SC.target {w : World} (h : SC w) {t : Target} (ht : t ∈ w.targets) {d : Nat}
    (hd : t.dev = some d) : (w.dev d).kind = .processor := by
  have := h.s.targets ({ dev := t.dev } : Target) (by simp only [sw, List.mem_map]; exact ⟨t, ht, rfl⟩) d
    (by simp [hd])
  rw [sw_dev] at this
  exact this

theorem rewOK_sw (w : World) (x : Nat) (ups : List Nat) : RewOK (sw w) x ups ↔ RewOK w x ups := by
  unfold RewOK
  simp only [sw_devs_length, sw_dev]
  have hk : ∀ z, (stat1 (w.dev z)).kind = (w.dev z).kind := fun _ => rfl
  simp only [hk]
  have hc : (∀ d ∈ (sw w).devs, d.down.count x ≤ 1) ↔ (∀ d ∈ w.devs, d.down.count x ≤ 1) := by
    simp only [sw, List.mem_map]
    constructor
    · intro h d hd; exact h (stat1 d) ⟨d, hd, rfl⟩
    · rintro h d ⟨d0, hd0, rfl⟩; exact h d0 hd0
  rw [hc]

theorem rewOK_of_sw {w w' : World} (e : sw w' = sw w) {x : Nat} {ups : List Nat}
    (h : RewOK w x ups) : RewOK w' x ups := by
  rw [← rewOK_sw, e, rewOK_sw]; exact h

theorem opSC_sw {w w' : World} (e : sw w' = sw w) (op : Op) (h : OpSC w op) : OpSC w' op := by
  have key : ∀ a : Int, (∀ d ∈ w.devs, d.aid ≠ a) → ∀ d ∈ w'.devs, d.aid ≠ a := by
    intro a ha d hd hda
    have h1 : stat1 d ∈ (sw w').devs := by simp only [sw, List.mem_map]; exact ⟨d, hd, rfl⟩
    rw [e] at h1
    simp only [sw, List.mem_map] at h1
    obtain ⟨d0, hd0, hs⟩ := h1
    exact ha d0 hd0 (by have := congrArg Dev.aid hs; simp only [stat1] at this; rw [this]; exact hda)
  cases op <;> simp only [OpSC] at h ⊢ <;>
    first | exact h | exact key _ h | (rw [hasRes_of_sw e]; exact h) | exact rewOK_of_sw e h

theorem opSC_of_sw (w : World) (op : Op) (h : OpSC (sw w) op) : OpSC w op := by
  have key : ∀ a : Int, (∀ d ∈ (sw w).devs, d.aid ≠ a) → ∀ d ∈ w.devs, d.aid ≠ a := by
    intro a ha d hd hda
    exact ha (stat1 d) (by simp only [sw, List.mem_map]; exact ⟨d, hd, rfl⟩) hda
  cases op <;> simp only [OpSC] at h ⊢ <;>
    first | exact h | exact key _ h | (rw [← hasRes_sw]; exact h) | exact (rewOK_sw w _ _).mp h

theorem SC.script {w : World} (h : SC w) (k : Nat) : ∀ op ∈ w.scripts.getD k [], OpSC w op := by
  intro op hop
  by_cases hk : k < w.scripts.length
  · have e : w.scripts.getD k [] = w.scripts[k] := by simp [List.getD_eq_getElem?_getD, hk]
    rw [e] at hop
    exact opSC_of_sw w op (h.s.scripts _ (List.getElem_mem hk) op hop)
  · have e : w.scripts.getD k [] = [] := by
      simp [List.getD_eq_getElem?_getD, Nat.le_of_not_lt hk]
    rw [e] at hop; cases hop

/-! ### who holds a part that wants to leave -/

/-- `is_operational()` as a function of the device. -/
def opn (d : Dev) : Bool :=
  match d.kind with
  | .processor => !d.shutDown
  | _ => true

theorem operational_eq (w : World) (x : Nat) : w.operational x = opn (w.dev x) := rfl

/-- the source may still supply a part -/
def budgetOK (d : Dev) : Bool :=
  match d.maxParts with
  | none => true
  | some m => decide (1 ≤ m - d.produced)

/-- The part the device holds and wants to hand over (finished part of an operational handler /
processor / batcher, of a source whose budget allows; head of a buffer). -/
def holdsD (d : Dev) : Option Nat :=
  match d.kind with
  | .source => if budgetOK d then d.output else none
  | .handler => d.output
  | .processor => if d.shutDown then none else d.output
  | .buffer => d.buf.head?.map (·.2)
  | .batcher => d.output
  | _ => none

/-- the time at which the held part may leave at the earliest, never before `now` -/
def dueD (now : Int) (d : Dev) : Int :=
  match d.kind, d.buf with
  | .buffer, (t, _) :: _ => if t + d.delay < now then now else t + d.delay
  | _, _ => now

/-- the remaining wait of the held part is over -/
def expiredD (now : Int) (d : Dev) : Bool :=
  match d.kind, d.buf with
  | .buffer, (t, _) :: _ => decide (d.delay - (now - t) ≤ 0)
  | _, _ => true

theorem le_dueD (now : Int) (d : Dev) : now ≤ dueD now d := by
  unfold dueD; split
  · split <;> omega
  · exact Int.le_refl _

theorem dueD_mono {n1 n2 : Int} (h : n1 ≤ n2) (d : Dev) : dueD n1 d ≤ dueD n2 d := by
  unfold dueD; split
  · split <;> split <;> omega
  · exact h

theorem dueD_of_expired {now : Int} {d : Dev} (h : expiredD now d = true) : dueD now d = now := by
  unfold expiredD at h; unfold dueD
  cases hb : d.buf with
  | nil => cases d.kind <;> rfl
  | cons a l =>
    obtain ⟨t, q⟩ := a
    rw [hb] at h
    cases hk : d.kind <;> simp only [hk] at h ⊢
    simp only [decide_eq_true_eq] at h
    split <;> omega

/-- **ready**: device `d` holds part `p`, and `p` may leave now. -/
def ready (w : World) (d p : Nat) : Prop :=
  holdsD (w.dev d) = some p ∧ expiredD w.now (w.dev d) = true

instance (w : World) (d p : Nat) : Decidable (ready w d p) := by unfold ready; infer_instance

theorem holdsD_default : holdsD default = none := rfl

theorem holdsD_lt {w : World} {d p : Nat} (h : holdsD (w.dev d) = some p) : d < w.devs.length := by
  apply Nat.lt_of_not_le
  intro hc
  rw [dev_of_length_le hc] at h
  cases h

/-- what `holdsD` says about the kind and the slots -/
theorem holdsD_cases {d : Dev} {p : Nat} (h : holdsD d = some p) :
    (d.kind = .source ∧ budgetOK d = true ∧ d.output = some p) ∨
    (d.kind = .handler ∧ d.output = some p) ∨
    (d.kind = .processor ∧ d.shutDown = false ∧ d.output = some p) ∨
    (d.kind = .buffer ∧ ∃ t rest, d.buf = (t, p) :: rest) ∨
    (d.kind = .batcher ∧ d.output = some p) := by
  unfold holdsD at h
  cases hk : d.kind <;> simp only [hk] at h
  · left; split at h
    · next hb => exact ⟨rfl, hb, h⟩
    · cases h
  · right; left; exact ⟨rfl, h⟩
  · right; right; left
    split at h
    · cases h
    · next hs => exact ⟨rfl, by simpa using hs, h⟩
  · right; right; right; left
    refine ⟨rfl, ?_⟩
    cases hb : d.buf with
    | nil => rw [hb] at h; cases h
    | cons a l =>
      rw [hb] at h
      obtain ⟨t, q⟩ := a
      simp at h
      exact ⟨t, l, by rw [h]⟩
  · cases h
  · right; right; right; right; exact ⟨rfl, h⟩
  all_goals cases h

theorem holdsD_opn {d : Dev} {p : Nat} (h : holdsD d = some p) : opn d = true := by
  rcases holdsD_cases h with h | h | h | h | h
  · unfold opn; rw [h.1]
  · unfold opn; rw [h.1]
  · unfold opn; rw [h.1, h.2.1]; rfl
  · unfold opn; rw [h.1]
  · unfold opn; rw [h.1]

theorem holdsD_hl {d : Dev} {p : Nat} (h : holdsD d = some p) :
    isHandlerLike d.kind = true ∧ d.kind ≠ .sink := by
  rcases holdsD_cases h with h | h | h | h | h <;> rw [h.1] <;> exact ⟨rfl, by decide⟩

/-- the parts a device holds (input slot, output slot, buffer, batch under construction) -/
def heldL (d : Dev) : List Nat :=
  d.part.toList ++ d.output.toList ++ d.buf.map (·.2) ++ d.inprog.toList

theorem holdsD_mem_heldL {d : Dev} {p : Nat} (h : holdsD d = some p) : p ∈ heldL d := by
  unfold heldL
  rcases holdsD_cases h with h | h | h | h | h
  · simp [h.2.2]
  · simp [h.2]
  · simp [h.2.2]
  · obtain ⟨t, rest, hb⟩ := h.2
    simp [hb]
  · simp [h.2]

theorem heldL_mem (d : Dev) (q : Nat) :
    q ∈ heldL d ↔ d.part = some q ∨ d.output = some q ∨ (∃ t, (t, q) ∈ d.buf) ∨ d.inprog = some q := by
  unfold heldL
  simp only [List.mem_append, Option.mem_toList, List.mem_map, Prod.exists, exists_eq_right]
  constructor
  · rintro (((h | h) | h) | h)
    · exact Or.inl h
    · exact Or.inr (Or.inl h)
    · exact Or.inr (Or.inr (Or.inl h))
    · exact Or.inr (Or.inr (Or.inr h))
  · rintro (h | h | h | h)
    · exact Or.inl (Or.inl (Or.inl h))
    · exact Or.inl (Or.inl (Or.inr h))
    · exact Or.inl (Or.inr h)
    · exact Or.inr h

/-- every held part exists -/
def HeldValid (w : World) : Prop := ∀ d ∈ w.devs, ∀ p ∈ heldL d, p < w.parts.length

instance (w : World) : Decidable (HeldValid w) := by unfold HeldValid; infer_instance

theorem HeldValid.dev {w : World} (h : HeldValid w) (x : Nat) : ∀ p ∈ heldL (w.dev x), p < w.parts.length := by
  rcases dev_mem_or_default w x with hm | hd
  · exact h _ hm
  · rw [hd]; intro p hp
    have : heldL (default : Dev) = [] := rfl
    rw [this] at hp; cases hp

/-- the parts of every batch exist -/
def KidsValid (w : World) : Prop :=
  ∀ r ∈ w.parts, ∀ l, r.kids = some l → ∀ k ∈ l, k < w.parts.length

instance (w : World) : Decidable (KidsValid w) := by unfold KidsValid; infer_instance

theorem KidsValid.part {w : World} (h : KidsValid w) (p : Nat) {l : List Nat}
    (hl : (w.part p).kids = some l) : ∀ k ∈ l, k < w.parts.length := by
  unfold World.part at hl
  rw [List.getD_eq_getElem?_getD] at hl
  cases hp : w.parts[p]? with
  | none => rw [hp] at hl; cases hl
  | some r => rw [hp] at hl; exact h r (List.mem_of_getElem? hp) l hl

theorem kidsValid_of_part {w : World}
    (h : ∀ p l, (w.part p).kids = some l → ∀ k ∈ l, k < w.parts.length) : KidsValid w := by
  intro r hr l hl
  obtain ⟨i, hi, rfl⟩ := List.getElem_of_mem hr
  refine h i l ?_
  unfold World.part
  rw [List.getD_eq_getElem?_getD, List.getElem?_eq_getElem hi]
  exact hl

/-- the entries of the parts' group-path stacks -/
def StkP (w : World) : Prop := ∀ r ∈ w.parts, ∀ g ∈ r.stack, (w.dev g).kind = .gpath

/-- every entry of a group-path stack is a group path — required only if there is a group output
(nobody else reads the stacks) -/
def StkOK (w : World) : Prop := (∀ x, (w.dev x).kind ≠ .goutput) ∨ StkP w

theorem StkP.part {w : World} (h : StkP w) (p : Nat) : ∀ g ∈ (w.part p).stack, (w.dev g).kind = .gpath := by
  unfold World.part
  rw [List.getD_eq_getElem?_getD]
  cases hp : w.parts[p]? with
  | none => intro g hg; cases hg
  | some r => exact h r (List.mem_of_getElem? hp)

theorem StkOK.part {w : World} (h : StkOK w) (p : Nat) :
    (∀ x, (w.dev x).kind ≠ .goutput) ∨ ∀ g ∈ (w.part p).stack, (w.dev g).kind = .gpath :=
  h.imp id (fun h2 => h2.part p)

theorem StkOK.top {w : World} (h : StkOK w) {y : Nat} (hy : (w.dev y).kind = .goutput) (p : Nat) :
    ∀ g ∈ (w.part p).stack, (w.dev g).kind = .gpath := by
  rcases h with h | h
  · exact absurd hy (h y)
  · exact h.part p

theorem stkP_of_part {w : World}
    (h : ∀ p, ∀ g ∈ (w.part p).stack, (w.dev g).kind = .gpath) : StkP w := by
  intro r hr g hg
  obtain ⟨i, hi, rfl⟩ := List.getElem_of_mem hr
  refine h i g ?_
  unfold World.part
  rw [List.getD_eq_getElem?_getD, List.getElem?_eq_getElem hi]
  exact hg

theorem stkOK_of_part {w : World}
    (h : ∀ p, ∀ g ∈ (w.part p).stack, (w.dev g).kind = .gpath) : StkOK w := Or.inr (stkP_of_part h)

/-- the general frame lemma: kinds unchanged, the stacks' entries still group paths -/
theorem StkOK.map {w w' : World} (h : StkOK w) (hk : ∀ d, (w'.dev d).kind = (w.dev d).kind)
    (hp : (∀ p, ∀ g ∈ (w.part p).stack, (w.dev g).kind = .gpath) →
      ∀ p, ∀ g ∈ (w'.part p).stack, (w.dev g).kind = .gpath) : StkOK w' := by
  rcases h with h | h
  · exact Or.inl (fun x => by rw [hk]; exact h x)
  · exact stkOK_of_part (fun q g hg => by rw [hk]; exact hp (fun q => h.part q) q g hg)

/-! ### the acceptance predicate -/

/-- `_can_accept_part` (state part) as a function of the device and of the number `n` of parts the
offered part consists of (`leafCount`: 1 for a single part, the number of parts of a batch). -/
def accB0 (n : Nat) (d : Dev) : Bool :=
  match d.kind with
  | .buffer =>
    (match d.cap with | none => true | some c => decide (d.level + n ≤ c) && decide (d.level < c)) &&
      opn d && !d.blockInput && d.part.isNone && d.output.isNone
  | .source | .handler | .processor | .batcher | .sink =>
    opn d && !d.blockInput && d.part.isNone && d.output.isNone
  | _ => opn d && !d.blockInput

/-- The resource side of a processor as the invariant sees it: a processor that declares a
requirement, holds no reservation and is REGISTERED with the resource manager (`waitingRes`) counts
as refusing — the manager owes it a call-back. -/
def procM (d : Dev) : Bool :=
  match d.kind, d.resReq with
  | .processor, some _ => d.reserved.isSome || !d.waitingRes
  | _, _ => true

/-- acceptance as the invariant sees it, as a function of the device -/
def accB (n : Nat) (d : Dev) : Bool := accB0 n d && procM d

/-- acceptance as the invariant sees it -/
def accM (w : World) (x p : Nat) : Bool := w.canAcceptBasic x p && procM (w.dev x)

theorem canAcceptBasic_eq (w : World) (x p : Nat) :
    w.canAcceptBasic x p = accB0 (w.leafCount p) (w.dev x) := by
  unfold canAcceptBasic accB0
  simp only [operational_eq]
  cases (w.dev x).kind <;> rfl

theorem accM_eq (w : World) (x p : Nat) : accM w x p = accB (w.leafCount p) (w.dev x) := by
  unfold accM accB; rw [canAcceptBasic_eq]

/-- what the acceptance predicates read of a part: quality, value, number of parts, group-path
stack -/
def attrs (w : World) (p : Nat) : Int × Int × Nat × List Nat :=
  ((w.part p).quality, w.partValue p, w.leafCount p, (w.part p).stack)

theorem gatePred_attrs {w w' : World} {p : Nat} (h : attrs w' p = attrs w p) (pr : Pred) :
    w'.gatePred pr p = w.gatePred pr p := by
  have h1 : (w'.part p).quality = (w.part p).quality := congrArg (·.1) h
  have h2 : w'.partValue p = w.partValue p := congrArg (·.2.1) h
  unfold gatePred
  simp only [h1, h2]

theorem leafCount_attrs {w w' : World} {p : Nat} (h : attrs w' p = attrs w p) :
    w'.leafCount p = w.leafCount p := congrArg (·.2.2.1) h

theorem stack_attrs {w w' : World} {p : Nat} (h : attrs w' p = attrs w p) :
    (w'.part p).stack = (w.part p).stack := congrArg (·.2.2.2) h

/-- The resource part of `PartProcessor._can_accept_part`, computed without changing anything: no
requirement, or a reservation is held already, or the request can be served now. -/
def procReal (w : World) (x : Nat) : Bool :=
  match (w.dev x).resReq with
  | none => true
  | some req =>
    (w.dev x).reserved.isSome ||
      (!(req.any (fun e => e.2 < 0)) && w.rm.canFulfill (req.filter (fun e => e.2 > 0)))

/-- The Boolean answer `give` would return for a part whose group-path stack is `stk`, computed
without changing anything (a processor with a resource requirement answers what its attempt to
acquire would answer; a group path pushes itself, a group output pops the innermost path and
offers the part to that path's downstream neighbours). -/
def wouldAcceptT : Nat → World → Nat → Nat → List Nat → Bool
  | 0, _, _, _, _ => false
  | f + 1, w, x, p, stk =>
    match (w.dev x).kind with
    | .source | .handler | .buffer | .batcher | .sink => w.canAcceptBasic x p
    | .processor => w.canAcceptBasic x p && procReal w x
    | .gate =>
      w.gatePred (w.dev x).pred p && w.canAcceptBasic x p &&
        (w.dev x).down.any (fun y => wouldAcceptT f w y p stk)
    | .ginput => w.canAcceptBasic x p && (w.dev x).down.any (fun y => wouldAcceptT f w y p stk)
    | .gpath => !(w.dev x).blockInput && wouldAcceptT f w (groupIn w x) p (stk ++ [x])
    | .goutput =>
      match stk.getLast? with
      | none => false
      | some g => (w.dev g).down.any (fun y => wouldAcceptT f w y p stk.dropLast)

/-- **wouldAccept**: the Boolean answer `give` would return, computed without changing anything. -/
def wouldAccept (f : Nat) (w : World) (x p : Nat) : Bool := wouldAcceptT f w x p (w.part p).stack

/-- Acceptance as the invariant sees it (registered processors refuse; a group output passes a part
on only if the innermost group path on its stack is a path of that output's group), with the
devices of `N` counted as refusing (their notification is pending; a group output has no acceptance
state of its own and is never masked) and the devices of `A` counted as willing (they have just
notified upstream, whatever their state). -/
def wouldAcceptS : Nat → World → List Nat → List Nat → Nat → Nat → List Nat → Bool
  | 0, _, _, _, _, _, _ => false
  | f + 1, w, N, A, x, p, stk =>
    if N.contains x && (w.dev x).kind != .goutput then false
    else match (w.dev x).kind with
    | .source | .handler | .processor | .buffer | .batcher | .sink => A.contains x || accM w x p
    | .gate =>
      w.gatePred (w.dev x).pred p && (A.contains x || accM w x p) &&
        (w.dev x).down.any (fun y => wouldAcceptS f w N A y p stk)
    | .ginput =>
      (A.contains x || accM w x p) && (w.dev x).down.any (fun y => wouldAcceptS f w N A y p stk)
    | .gpath => (A.contains x || accM w x p) && wouldAcceptS f w N A (groupIn w x) p (stk ++ [x])
    | .goutput =>
      match stk.getLast? with
      | none => false
      | some g =>
        ((w.dev g).kind == .gpath && groupOut w g == x) &&
          (w.dev g).down.any (fun y => wouldAcceptS f w N A y p stk.dropLast)

def wouldAcceptN (f : Nat) (w : World) (N A : List Nat) (x p : Nat) : Bool :=
  wouldAcceptS f w N A x p (w.part p).stack

/-- **wouldAcceptR**: as `wouldAccept`, but a processor that is registered with the resource
manager (waiting for its call-back) counts as refusing, and a group output whose group does not
own the innermost group path of the part counts as refusing. -/
def wouldAcceptR (f : Nat) (w : World) (x p : Nat) : Bool := wouldAcceptN f w [] [] x p

/-- every group output an offer to `x` (for a part with stack `stk`) can reach is the output of the
group of the innermost group path at that point -/
def consS : Nat → World → Nat → List Nat → Bool
  | 0, _, _, _ => true
  | f + 1, w, x, stk =>
    match (w.dev x).kind with
    | .gate | .ginput => (w.dev x).down.all (fun y => consS f w y stk)
    | .gpath => consS f w (groupIn w x) (stk ++ [x])
    | .goutput =>
      match stk.getLast? with
      | none => true
      | some g =>
        ((w.dev g).kind == .gpath && groupOut w g == x) &&
          (w.dev g).down.all (fun y => consS f w y stk.dropLast)
    | _ => true

theorem procM_of_noRes {w : World} (h : hasRes w = false) (x : Nat) : procM (w.dev x) = true := by
  have hr : (w.dev x).resReq = none := by
    rcases dev_mem_or_default w x with hm | hd
    · have := (hasRes_false_iff w).mp h _ hm
      cases hq : (w.dev x).resReq with
      | none => rfl
      | some r => rw [hq] at this; cases this
    · rw [hd]; rfl
  unfold procM; rw [hr]
  cases (w.dev x).kind <;> rfl

theorem procReal_of_noRes {w : World} (h : hasRes w = false) (x : Nat) : procReal w x = true := by
  have hr : (w.dev x).resReq = none := by
    rcases dev_mem_or_default w x with hm | hd
    · have := (hasRes_false_iff w).mp h _ hm
      cases hq : (w.dev x).resReq with
      | none => rfl
      | some r => rw [hq] at this; cases this
    · rw [hd]; rfl
  unfold procReal; rw [hr]

theorem canAcceptBasic_ctrl {w : World} {x p : Nat}
    (hk : isHandlerLike (w.dev x).kind = false) :
    w.canAcceptBasic x p = !(w.dev x).blockInput := by
  unfold canAcceptBasic operational
  cases hkk : (w.dev x).kind <;> simp_all [isHandlerLike]

theorem accM_ctrl {w : World} {x p : Nat} (hk : isHandlerLike (w.dev x).kind = false) :
    accM w x p = w.canAcceptBasic x p := by
  unfold accM procM
  cases hkk : (w.dev x).kind <;> simp_all [isHandlerLike]

/-- **Registered processors and foreign group paths aside, `wouldAcceptR` is `wouldAccept`**: if
every processor that the invariant counts as refusing for want of resources really cannot get them
now, and every group output the offer can reach owns the innermost group path, then whoever
refuses in the invariant's sense refuses. -/
theorem wouldAcceptT_of_S {w : World} {p : Nat}
    (hreg : ∀ y, (w.dev y).kind = .processor → procM (w.dev y) = false → procReal w y = false) :
    ∀ f x stk, consS f w x stk = true → wouldAcceptS f w [] [] x p stk = false →
      wouldAcceptT f w x p stk = false := by
  intro f
  induction f with
  | zero => intro x stk _ _; rfl
  | succ f ih =>
    intro x stk hc h
    unfold wouldAcceptS at h
    unfold consS at hc
    unfold wouldAcceptT
    simp only [List.contains_nil, Bool.false_and, Bool.false_eq_true, if_false, Bool.false_or] at h
    cases hk : (w.dev x).kind <;> simp only [hk] at h hc ⊢
    case processor =>
      unfold accM at h
      cases hcb : w.canAcceptBasic x p with
      | false => rfl
      | true =>
        rw [hcb, Bool.true_and] at h
        rw [hreg x hk h]; rfl
    case gate =>
      rw [accM_ctrl (by rw [hk]; rfl)] at h
      cases hg : w.gatePred (w.dev x).pred p with
      | false => rfl
      | true =>
        cases hcb : w.canAcceptBasic x p with
        | false => rfl
        | true =>
          rw [hg, hcb, Bool.true_and, Bool.true_and] at h
          simp only [Bool.true_and]
          rw [List.any_eq_false] at h ⊢
          rw [List.all_eq_true] at hc
          intro y hy
          have := h y hy
          simp only [Bool.not_eq_true] at this ⊢
          exact ih y stk (hc y hy) this
    case ginput =>
      rw [accM_ctrl (by rw [hk]; rfl)] at h
      cases hcb : w.canAcceptBasic x p with
      | false => rfl
      | true =>
        rw [hcb, Bool.true_and] at h
        simp only [Bool.true_and]
        rw [List.any_eq_false] at h ⊢
        rw [List.all_eq_true] at hc
        intro y hy
        have := h y hy
        simp only [Bool.not_eq_true] at this ⊢
        exact ih y stk (hc y hy) this
    case gpath =>
      rw [accM_ctrl (by rw [hk]; rfl), canAcceptBasic_ctrl (by rw [hk]; rfl)] at h
      cases hb : (w.dev x).blockInput with
      | true => rfl
      | false =>
        rw [hb] at h
        simp only [Bool.not_false, Bool.true_and] at h ⊢
        exact ih _ _ hc h
    case goutput =>
      cases hl : stk.getLast? with
      | none => rfl
      | some g =>
        simp only [hl, Bool.and_eq_true, List.all_eq_true] at h hc ⊢
        rw [hc.1.1, hc.1.2, Bool.true_and, Bool.true_and] at h
        rw [List.any_eq_false] at h ⊢
        intro y hy
        have := h y hy
        simp only [Bool.not_eq_true] at this ⊢
        exact ih y _ (hc.2 y hy) this
    all_goals first
      | rfl
      | (unfold accM at h
         have hp : procM (w.dev x) = true := by unfold procM; rw [hk]
         rw [hp, Bool.and_true] at h
         exact h)

/-- without resource requirements and group devices the two predicates coincide -/
theorem wouldAcceptS_nil {w : World} (h : hasRes w = false) (hg : NoGrp w) (f : Nat) (x p : Nat)
    (stk : List Nat) : wouldAcceptS f w [] [] x p stk = wouldAcceptT f w x p stk := by
  induction f generalizing x with
  | zero => rfl
  | succ f ih =>
    unfold wouldAcceptS wouldAcceptT
    simp only [List.contains_nil, Bool.false_and, Bool.false_eq_true, if_false, Bool.false_or]
    simp only [ih, accM, procM_of_noRes h, procReal_of_noRes h, Bool.and_true]
    have := hg x
    cases hk : (w.dev x).kind <;> simp_all

theorem wouldAcceptN_nil {w : World} (h : hasRes w = false) (hg : NoGrp w) (f : Nat) (x p : Nat) :
    wouldAcceptN f w [] [] x p = wouldAccept f w x p :=
  wouldAcceptS_nil h hg f x p _

/-! ### registration with the resource manager -/

/-- Every waiting request is a processor's, and every processor flagged `waitingRes` is registered
with the request it declares. -/
def Reg (w : World) : Prop :=
  (∀ e ∈ w.rm.waiting, ∃ x, e.2 = Cb.proc x) ∧
  ∀ x, (w.dev x).waitingRes = true →
    ∃ req, (w.dev x).resReq = some req ∧ (req, Cb.proc x) ∈ w.rm.waiting

/-- No device declares a requirement, or `Reg`. -/
def WR (w : World) : Prop := hasRes w = false ∨ Reg w

theorem WR.frame {w w' : World} (h : WR w) (hsw : sw w' = sw w)
    (hold : ∀ e ∈ w.rm.waiting, e ∈ w'.rm.waiting)
    (hnew : ∀ e ∈ w'.rm.waiting, e ∈ w.rm.waiting ∨ ∃ x, e.2 = Cb.proc x)
    (hfl : ∀ x, (w'.dev x).waitingRes = true → (w.dev x).waitingRes = true ∨
      ∃ req, (w'.dev x).resReq = some req ∧ (req, Cb.proc x) ∈ w'.rm.waiting) : WR w' := by
  rcases h with h | h
  · left; rw [hasRes_of_sw hsw]; exact h
  · right
    refine ⟨fun e he => ?_, fun x hx => ?_⟩
    · rcases hnew e he with h1 | h1
      · exact h.1 e h1
      · exact h1
    · rcases hfl x hx with h1 | h1
      · obtain ⟨req, hr, hm⟩ := h.2 x h1
        exact ⟨req, by rw [sw_resReq hsw]; exact hr, hold _ hm⟩
      · exact h1

/-- same waiting list, no new flag -/
theorem WR.same {w w' : World} (h : WR w) (hsw : sw w' = sw w)
    (hrm : w'.rm.waiting = w.rm.waiting)
    (hfl : ∀ x, (w'.dev x).waitingRes = true → (w.dev x).waitingRes = true) : WR w' :=
  h.frame hsw (by rw [hrm]; exact fun _ h => h) (by rw [hrm]; exact fun _ h => Or.inl h)
    (fun x hx => Or.inl (hfl x hx))

/-! ### the invariant -/

/-- A live PASS_PART event of device `d` (for its asset id) is queued for the due time of the held
part or earlier. -/
def Att (w : World) (d : Nat) : Prop :=
  ∃ e ∈ w.env.events, e.act = (Action.passPart d).toNat ∧ e.asset = (w.dev d).aid ∧
    e.cancelled = false ∧ e.time ≤ dueD w.now (w.dev d)

instance (w : World) (d : Nat) : Decidable (Att w d) := by unfold Att; infer_instance

/-- `d` is flagged and no downstream device would accept `p` (those of `N` counted as refusing,
those of `A` as willing). -/
def Blocked (w : World) (N A : List Nat) (d p : Nat) : Prop :=
  (w.dev d).waitingDS = true ∧ ∀ y ∈ (w.dev d).down, wouldAcceptN w.fuel w N A y p = false

instance (w : World) (N A : List Nat) (d p : Nat) : Decidable (Blocked w N A d p) := by
  unfold Blocked; infer_instance

/-- The wake-up invariant, generalised: devices of `E` are exempt (their status is being
recomputed), devices of `N` have a notification pending, devices of `A` have just notified
upstream. -/
def WakeG (E N A : List Nat) (w : World) : Prop :=
  ∀ d p, holdsD (w.dev d) = some p → d ∉ E → Att w d ∨ Blocked w N A d p

/-- no queued or paused failure targets a device that is not a processor -/
def EvOK (w : World) : Prop :=
  ∀ n ∈ C02V.acts w.env, ∀ d, Action.ofNat n = .fail d → (w.dev d).kind = .processor

/-- Everything the induction carries. -/
structure G (E N A : List Nat) (w : World) : Prop where
  sc : SC w
  pl : NoBatch w → PartsLeaf w
  inv : C01.Inv w.env
  now0 : 0 ≤ w.now
  ev : EvOK w
  valid : HeldValid w
  kv : KidsValid w
  stk : StkOK w
  wr : WR w
  aok : ∀ x ∈ A, (w.dev x).kind = .batcher
  wake : WakeG E N A w

end C03W
end SimProc
