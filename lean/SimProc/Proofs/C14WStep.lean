/-
C14W — one step of the event loop on two worlds that agree on everything but the queue.
-/
import SimProc.Proofs.C14WParExec

namespace SimProc
namespace C14W
open World C01W

/-- `w2` is `w` with another queue and another weight key. -/
def Same (w w2 : World) : Prop := w2 = { w with env := w2.env, seed := w2.seed, wmod := w2.wmod }

theorem Same.refl (w : World) : Same w w := rfl

theorem same_sw (w : World) (t : Twin) : Same w (sw w t) := rfl

theorem Same.eq_sw {w w2 : World} (h : Same w w2) (hn : w2.env.now = w.env.now) :
    w2 = sw w ⟨w2.env, w2.seed, w2.wmod⟩ := by
  have : se w w2.env = w2.env := by simp only [se, ← hn]
  rw [h]
  simp only [sw, this]

theorem Same.with_env {w w2 : World} (h : Same w w2) (x y : Env) :
    Same { w with env := x } { w2 with env := y } := by
  unfold Same at h ⊢
  rw [h]

theorem Same.symm {w w2 : World} (h : Same w w2) : Same w2 w := by
  unfold Same at h ⊢
  rw [h]

theorem Same.trans {a b c : World} (h1 : Same a b) (h2 : Same b c) : Same a c := by
  unfold Same at h1 h2 ⊢
  rw [h2, h1]

section
variable {Q : Env → Env → Prop} {s1 m1 s2 m2 : Nat}

/-- **One step on both sides.**  If the two queues pop events with the same time, action and
liveness, and the popped queues are `Q`-related, then the two steps end in worlds that agree on
everything but the queue, with `Q`-related queues. -/
theorem step_par (hQ : Cong Q s1 m1 s2 m2) {w w2 : World} (hsame : Same w w2) (g : Good w)
    (hs1 : w.seed = s1) (hm1 : w.wmod = m1) (hs2 : w2.seed = s2) (hm2 : w2.wmod = m2)
    {e e2 : Event} {x' y' : Env} (hx : w.env.step = some (e, x')) (hy : w2.env.step = some (e2, y'))
    (ht : e2.time = e.time) (ha : e2.act = e.act) (hl : e2.live = e.live) (hq : Q x' y') :
    ∃ w' w2', w.step = some (e, w') ∧ w2.step = some (e2, w2') ∧ Same w' w2' ∧ Good w' ∧
      w'.seed = s1 ∧ w'.wmod = m1 ∧ w2'.seed = s2 ∧ w2'.wmod = m2 ∧ Q w'.env w2'.env ∧
      w'.env.now = e.time ∧ w2'.env.now = e.time := by
  have hxn : x'.now = e.time := by
    obtain ⟨es, hev, rfl⟩ := Env.step_some.mp hx; rfl
  have hyn : y'.now = e.time := by
    obtain ⟨es, hev, rfl⟩ := Env.step_some.mp hy; exact ht
  have hw2 : ({ w2 with env := y' } : World) = sw { w with env := x' } ⟨y', w2.seed, w2.wmod⟩ := by
    have hsm := hsame.with_env x' y'
    exact hsm.eq_sw (hyn.trans hxn.symm)
  have h1 : PP Q s1 m1 s2 m2 { w with env := x' } ⟨y', w2.seed, w2.wmod⟩ := by
    refine ⟨g.with_env _, hs1, hm1, hs2, hm2, ?_⟩
    have : se { w with env := x' } y' = y' := by
      simp only [se]
      show ({ y' with now := x'.now } : Env) = y'
      rw [hxn, ← hyn]
    show Q x' (se { w with env := x' } y')
    rw [this]
    exact hq
  have hstep1 : w.step = some (e, if e.live then
      ({ w with env := x' } : World).exec (Action.ofNat e.act) else { w with env := x' }) := by
    unfold World.step; simp only [hx]
  have hstep2 : w2.step = some (e2, if e2.live then
      ({ w2 with env := y' } : World).exec (Action.ofNat e2.act) else { w2 with env := y' }) := by
    unfold World.step; simp only [hy]
  refine ⟨_, _, hstep1, hstep2, ?_⟩
  rw [hl, ha]
  cases hlive : e.live with
  | false =>
    simp only [Bool.false_eq_true, if_false]
    exact ⟨hsame.with_env _ _, g.with_env _, hs1, hm1, hs2, hm2, hq, hxn, hyn⟩
  | true =>
    have h2 := pp_exec hQ h1 (Action.ofNat e.act)
    have hb := bl_exec (Action.ofNat e.act) |>.eq { w with env := x' } ⟨y', w2.seed, w2.wmod⟩
    simp only [if_true]
    rw [hw2, hb]
    refine ⟨same_sw _ _, h2.good, h2.seed, h2.wmod, h2.tseed, h2.twmod, h2.q, ?_, ?_⟩
    · exact ((Via_exec _ _ (g.with_env x')).2.now).trans hxn
    · show (se _ _).now = _
      exact ((Via_exec _ _ (g.with_env x')).2.now).trans hxn

end
end C14W
end SimProc
