/-
C13Q, part 3: the invariant `QI x w` of a processor `x`, the relation `QP x w w'` ("kind, asset id of
`x` kept and the invariant preserved"), shutdown / failure / restore of `x` and of other devices, the
scripted operations and the control events under the closed-world invariant `C06W.WI`.
-/
import SimProc.Proofs.C13QFloor
namespace SimProc
namespace C13Q
open World FloorCoreL C06W

variable {x : Nat}

/-! ### the invariant, on the environment -/

/-- `a`: asset id of `x`, `sd`: its shutdown flag. -/
structure QE (x : Nat) (a : Int) (sd : Bool) (s : Env) : Prop where
  /-- every live pass / release event of `x`, pending or paused, carries the asset id of `x` -/
  qa : ∀ e ∈ s.events ++ s.paused, isQ x e = true → e.asset = a
  /-- while `x` is down none is pending -/
  dn : sd = true → ∀ e ∈ s.events, isQ x e = false
  /-- while `x` is operational none is paused -/
  up : sd = false → ∀ e ∈ s.paused, isQ x e = false

theorem isQ_pausedAt (e : Event) (t : Option Int) : isQ x { e with pausedAt := t } = isQ x e := rfl
theorem isQ_time (e : Event) (t : Int) : isQ x { e with time := t } = isQ x e := rfl

theorem isQ_cancelIf {b : Int} {e : Event} (h : isQ x (Event.cancelIf b e) = true) :
    Event.cancelIf b e = e ∧ isQ x e = true := by
  unfold Event.cancelIf at h ⊢
  split
  · rename_i hb
    rw [if_pos hb] at h
    simp [isQ, Event.live] at h
  · rename_i hb
    rw [if_neg hb] at h
    exact ⟨rfl, h⟩

theorem asset_cancelIf (b : Int) (e : Event) : (Event.cancelIf b e).asset = e.asset := by
  unfold Event.cancelIf; split <;> rfl

theorem mem_unpause_events {s : Env} {b : Int} {e : Event} (h : e ∈ (s.unpause Arith.exact b).events) :
    e ∈ s.events ∨ ∃ e0 ∈ s.paused, e0.asset = b ∧ isQ x e = isQ x e0 ∧ e.asset = e0.asset := by
  rw [unpause_events] at h
  rw [(insortAll_perm _ _).mem_iff, List.mem_append] at h
  rcases h with h | h
  · obtain ⟨e0, h0, rfl⟩ := List.mem_map.mp h
    obtain ⟨h1, h2⟩ := List.mem_filter.mp h0
    exact Or.inr ⟨e0, h1, by simpa using h2, rfl, rfl⟩
  · exact Or.inl h

theorem qe_false_iff {e : Event} : isQ x e = false ↔ ¬ isQ x e = true := by
  cases isQ x e <;> simp

variable {a : Int} {sd : Bool} {s : Env}

theorem qe_cancel (b : Int) (h : QE x a sd s) : QE x a sd (s.cancel b) := by
  have key : ∀ l : List Event, ∀ e ∈ l.map (Event.cancelIf b), isQ x e = true → e ∈ l := by
    intro l e he hq
    obtain ⟨e0, h0, rfl⟩ := List.mem_map.mp he
    rw [(isQ_cancelIf hq).1]; exact h0
  refine ⟨?_, ?_, ?_⟩
  · intro e he hq
    simp only [Env.cancel, ← List.map_append] at he
    exact h.qa e (key _ e he hq) hq
  · intro hs e he
    rw [qe_false_iff]; intro hq
    have := h.dn hs e (key _ e he hq)
    rw [hq] at this; cases this
  · intro hs e he
    rw [qe_false_iff]; intro hq
    have := h.up hs e (key _ e he hq)
    rw [hq] at this; cases this

/-- cancelling the asset id of `x`: no live pass / release event of `x` is left at all -/
theorem qe_cancel_self (sd' : Bool) (h : QE x a sd s) : QE x a sd' (s.cancel a) := by
  have key : ∀ l : List Event, (∀ e ∈ l, isQ x e = true → e.asset = a) →
      ∀ e ∈ l.map (Event.cancelIf a), isQ x e = false := by
    intro l hl e he
    rw [qe_false_iff]; intro hq
    obtain ⟨e0, h0, rfl⟩ := List.mem_map.mp he
    obtain ⟨h1, h2⟩ := isQ_cancelIf hq
    have ha := hl e0 h0 h2
    unfold Event.cancelIf at hq
    rw [if_pos (by simpa using ha)] at hq
    simp [isQ, Event.live] at hq
  have k1 := key s.events (fun e he => h.qa e (List.mem_append.mpr (Or.inl he)))
  have k2 := key s.paused (fun e he => h.qa e (List.mem_append.mpr (Or.inr he)))
  refine ⟨?_, fun _ => k1, fun _ => k2⟩
  intro e he hq
  rcases List.mem_append.mp he with he | he
  · have := k1 e he; rw [hq] at this; cases this
  · have := k2 e he; rw [hq] at this; cases this

theorem qe_pause (b : Int) (hb : b ≠ a) (h : QE x a sd s) : QE x a sd (s.pause b) := by
  have hev : ∀ e ∈ (s.pause b).events, e ∈ s.events := fun e he => (List.mem_filter.mp he).1
  have hpa : ∀ e ∈ (s.pause b).paused, e ∈ s.paused ∨
      ∃ e0 ∈ s.events, e0.asset = b ∧ isQ x e = isQ x e0 ∧ e.asset = e0.asset := by
    intro e he
    simp only [Env.pause] at he
    rcases List.mem_append.mp he with he | he
    · exact Or.inl he
    · obtain ⟨e0, h0, rfl⟩ := List.mem_map.mp he
      obtain ⟨h1, h2⟩ := List.mem_filter.mp h0
      exact Or.inr ⟨e0, h1, by simpa using h2, rfl, rfl⟩
  refine ⟨?_, ?_, ?_⟩
  · intro e he hq
    rcases List.mem_append.mp he with he | he
    · exact h.qa e (List.mem_append.mpr (Or.inl (hev e he))) hq
    · rcases hpa e he with h1 | ⟨e0, h0, _, hqq, haa⟩
      · exact h.qa e (List.mem_append.mpr (Or.inr h1)) hq
      · rw [haa]; exact h.qa e0 (List.mem_append.mpr (Or.inl h0)) (hqq ▸ hq)
  · intro hs e he; exact h.dn hs e (hev e he)
  · intro hs e he
    rcases hpa e he with h1 | ⟨e0, h0, hb0, hqq, _⟩
    · exact h.up hs e h1
    · rw [qe_false_iff]; intro hq
      have := h.qa e0 (List.mem_append.mpr (Or.inl h0)) (hqq ▸ hq)
      exact hb (hb0.symm.trans this)

theorem qe_pause_self (h : QE x a sd s) : QE x a true (s.pause a) := by
  refine ⟨?_, ?_, fun hs => Bool.noConfusion hs⟩
  · intro e he hq
    simp only [Env.pause] at he
    rcases List.mem_append.mp he with he | he
    · exact h.qa e (List.mem_append.mpr (Or.inl (List.mem_filter.mp he).1)) hq
    · rcases List.mem_append.mp he with he | he
      · exact h.qa e (List.mem_append.mpr (Or.inr he)) hq
      · obtain ⟨e0, h0, rfl⟩ := List.mem_map.mp he
        exact h.qa e0 (List.mem_append.mpr (Or.inl (List.mem_filter.mp h0).1)) hq
  · intro _ e he
    rw [qe_false_iff]; intro hq
    obtain ⟨h1, h2⟩ := List.mem_filter.mp he
    have := h.qa e (List.mem_append.mpr (Or.inl h1)) hq
    simp [this] at h2

theorem qe_unpause (b : Int) (hb : b ≠ a) (h : QE x a sd s) : QE x a sd (s.unpause Arith.exact b) := by
  have hpa : ∀ e ∈ (s.unpause Arith.exact b).paused, e ∈ s.paused := fun e he => (List.mem_filter.mp he).1
  refine ⟨?_, ?_, ?_⟩
  · intro e he hq
    rcases List.mem_append.mp he with he | he
    · rcases mem_unpause_events (x := x) he with h1 | ⟨e0, h0, _, hqq, haa⟩
      · exact h.qa e (List.mem_append.mpr (Or.inl h1)) hq
      · rw [haa]; exact h.qa e0 (List.mem_append.mpr (Or.inr h0)) (hqq ▸ hq)
    · exact h.qa e (List.mem_append.mpr (Or.inr (hpa e he))) hq
  · intro hs e he
    rcases mem_unpause_events (x := x) he with h1 | ⟨e0, h0, hb0, hqq, _⟩
    · exact h.dn hs e h1
    · rw [qe_false_iff]; intro hq
      have := h.qa e0 (List.mem_append.mpr (Or.inr h0)) (hqq ▸ hq)
      exact hb (hb0.symm.trans this)
  · intro hs e he; exact h.up hs e (hpa e he)

theorem qe_unpause_self (h : QE x a sd s) : QE x a false (s.unpause Arith.exact a) := by
  refine ⟨?_, fun hs => Bool.noConfusion hs, ?_⟩
  · intro e he hq
    rcases List.mem_append.mp he with he | he
    · rcases mem_unpause_events (x := x) he with h1 | ⟨e0, h0, _, hqq, haa⟩
      · exact h.qa e (List.mem_append.mpr (Or.inl h1)) hq
      · rw [haa]; exact h.qa e0 (List.mem_append.mpr (Or.inr h0)) (hqq ▸ hq)
    · exact h.qa e (List.mem_append.mpr (Or.inr (List.mem_filter.mp he).1)) hq
  · intro _ e he
    rw [qe_false_iff]; intro hq
    obtain ⟨h1, h2⟩ := List.mem_filter.mp he
    have := h.qa e (List.mem_append.mpr (Or.inr h1)) hq
    simp [this] at h2

/-! ### the invariant, on the world -/

/-- The queue invariant of processor `x`. -/
structure QI (x : Nat) (w : World) : Prop where
  qe : QE x (w.dev x).aid (w.dev x).shutDown w.env
  /-- `adjust_part_count` is a method of sources: a processor has no part budget -/
  mp : (w.dev x).maxParts = none

/-- kind and asset id of `x` are kept, and so is the invariant -/
structure QP (x : Nat) (w w' : World) : Prop where
  kind : (w'.dev x).kind = (w.dev x).kind
  aid : (w'.dev x).aid = (w.dev x).aid
  inv : (w.dev x).kind = .processor → QI x w → QI x w'

theorem QP.refl (w : World) : QP x w w := ⟨rfl, rfl, fun _ h => h⟩
theorem QP.trans {a b c : World} (h1 : QP x a b) (h2 : QP x b c) : QP x a c :=
  ⟨h2.kind.trans h1.kind, h2.aid.trans h1.aid, fun hk h => h2.inv (h1.kind.trans hk) (h1.inv hk h)⟩

theorem QK.qp {w w' : World} (h : QK x w w') : QP x w w' := by
  refine ⟨h.kind, h.aid, fun hk hi => ⟨⟨?_, ?_, ?_⟩, h.mp hi.mp⟩⟩
  · intro e he hq
    rw [h.aid]
    rcases List.mem_append.mp he with he | he
    · rcases h.new e he with h1 | h1
      · exact hi.qe.qa e (List.mem_append.mpr (Or.inl h1)) hq
      · exact (h1.2.2 hq).1
    · rw [h.paused] at he
      exact hi.qe.qa e (List.mem_append.mpr (Or.inr he)) hq
  · intro hs e he
    rw [h.sd] at hs
    rcases h.new e he with h1 | h1
    · exact hi.qe.dn hs e h1
    · rw [qe_false_iff]; intro hq
      have := (h1.2.2 hq).2
      simp [World.operational, hk, hs] at this
  · intro hs e he
    rw [h.sd] at hs
    rw [h.paused] at he
    exact hi.qe.up hs e he

/-- a change of the environment together with an update of the shutdown flag of `x` -/
theorem qp_of_env {w w' : World} {sd' : Bool} (hk : (w'.dev x).kind = (w.dev x).kind)
    (ha : (w'.dev x).aid = (w.dev x).aid) (hs : (w'.dev x).shutDown = sd')
    (hm : (w.dev x).maxParts = none → (w'.dev x).maxParts = none)
    (he : QE x (w.dev x).aid (w.dev x).shutDown w.env → QE x (w.dev x).aid sd' w'.env) :
    QP x w w' :=
  ⟨hk, ha, fun _ hi => ⟨by rw [ha, hs]; exact he hi.qe, hm hi.mp⟩⟩

/-! ### shutdown, restore, failure -/

theorem qk_shut_tail (w : World) (_y : Nat) (l : List Nat) (f : Nat → Res) :
    QK x w (l.foldl (fun w k => w.addRes (f k)) w) := QK.foldl _ _ _ (fun _ _ => qk_addRes _ _)

theorem qp_shutdownDev (w : World) (y : Nat) (f : Bool) (lost : Option Nat)
    (hk : (w.dev x).kind = .processor)
    (hne : y ≠ x → (w.dev y).aid ≠ (w.dev x).aid) : QP x w (w.shutdownDev y f lost) := by
  have hx : x < w.devs.length := lt_of_processor hk
  unfold World.shutdownDev
  dsimp only
  split
  · rename_i hsd
    split
    · refine QP.trans ?_ (qk_shut_tail _ y _ _).qp
      refine qp_of_env (sd' := (w.dev x).shutDown) rfl rfl rfl id ?_
      exact qe_cancel _
    · exact QP.refl _
  · rename_i hsd
    refine QP.trans ?_ (qk_shut_tail _ y _ _).qp
    refine QP.trans ?_ (qk_setWaiting _ _ _ _).qp
    refine QP.trans ?_ (QK.qp (qk_setDev _ _ _ (Or.inr ?_)))
    · by_cases hy : y = x
      · subst hy
        have hd : ∀ op, ((w.setDev y { w.dev y with shutDown := true }).envOp op).dev y =
            { w.dev y with shutDown := true } := fun op => by
          rw [C11W.dev_setDev_envOp, if_pos ⟨rfl, hx⟩]
        split
        · refine qp_of_env (sd' := true) (by rw [hd]) (by rw [hd]) (by rw [hd]) (by rw [hd]; exact id) ?_
          exact qe_cancel_self true
        · refine qp_of_env (sd' := true) (by rw [hd]) (by rw [hd]) (by rw [hd]) (by rw [hd]; exact id) ?_
          exact qe_pause_self
      · have hd : ∀ op, ((w.setDev y { w.dev y with shutDown := true }).envOp op).dev x = w.dev x :=
          fun op => by
            rw [C11W.dev_setDev_envOp, if_neg (fun h => hy h.1)]
        split
        · refine qp_of_env (sd' := (w.dev x).shutDown) (by rw [hd]) (by rw [hd]) (by rw [hd])
            (by rw [hd]; exact id) ?_
          exact qe_cancel _
        · refine qp_of_env (sd' := (w.dev x).shutDown) (by rw [hd]) (by rw [hd]) (by rw [hd])
            (by rw [hd]; exact id) ?_
          exact qe_pause _ (hne hy)
    · split <;> exact ⟨rfl, rfl, rfl, id⟩

theorem qp_restoreDev (w : World) (y : Nat) (hk : (w.dev x).kind = .processor)
    (hne : y ≠ x → (w.dev y).aid ≠ (w.dev x).aid) : QP x w (w.restoreDev y) := by
  have hx : x < w.devs.length := lt_of_processor hk
  unfold World.restoreDev
  dsimp only
  split
  · exact QP.refl _
  · have h1 : QP x w ((w.setDev y { w.dev y with shutDown := false, lastRestore := some w.now }).envOp
        (.unpause (w.dev y).aid)) := by
      by_cases hy : y = x
      · subst hy
        have hd : ((w.setDev y { w.dev y with shutDown := false, lastRestore := some w.now }).envOp
            (.unpause (w.dev y).aid)).dev y =
            { w.dev y with shutDown := false, lastRestore := some w.now } := by
          rw [C11W.dev_setDev_envOp, if_pos ⟨rfl, hx⟩]
        refine qp_of_env (sd' := false) (by rw [hd]) (by rw [hd]) (by rw [hd]) (by rw [hd]; exact id) ?_
        exact qe_unpause_self
      · have hd : ((w.setDev y { w.dev y with shutDown := false, lastRestore := some w.now }).envOp
            (.unpause (w.dev y).aid)).dev x = w.dev x := by
          rw [C11W.dev_setDev_envOp, if_neg (fun h => hy h.1)]
        refine qp_of_env (sd' := (w.dev x).shutDown) (by rw [hd]) (by rw [hd]) (by rw [hd])
          (by rw [hd]; exact id) ?_
        exact qe_unpause _ (hne hy)
    have hop : y = x → ((w.setDev y { w.dev y with shutDown := false, lastRestore := some w.now }).envOp
        (.unpause (w.dev y).aid)).operational x = true := by
      intro e; subst e
      unfold World.operational
      rw [C11W.dev_setDev_envOp, if_pos ⟨rfl, hx⟩]
      split <;> rfl
    refine QP.trans ?_ (qk_shut_tail _ y _ _).qp
    refine h1.trans (QK.qp ?_)
    repeat' split
    all_goals first
      | exact QK.refl _
      | exact qk_schedulePass _ _ _ hop
      | exact qk_notify _ _
      | (refine QK.trans ?_ (qk_modDev _ _ _ flg); exact qk_schedulePass _ _ _ hop)
      | (refine QK.trans ?_ (qk_modDev _ _ _ flg); exact qk_notify _ _)
      | exact qk_modDev _ _ _ flg

/-- `_fail()` before the shutdown -/
def failHead (w : World) (y : Nat) : World :=
  let lost := (w.dev y).part
  let w := match lost with
    | some p => { w with lost := w.lost ++ w.leavesOf p }
    | none => w
  let w := w.modDev y (fun d => { d with part := none })
  let w := w.releaseReserved y
  w.addRec (.failure y w.now lost)

theorem failDev_eq (w : World) (y : Nat) :
    w.failDev y = (failHead w y).shutdownDev y true (w.dev y).part := rfl

theorem qk_failHead (w : World) (y z : Nat) : QK z w (failHead w y) := by
  unfold failHead
  dsimp only
  refine QK.trans ?_ (qk_addRec _ _)
  refine QK.trans ?_ (qk_releaseReserved _ _)
  refine QK.trans ?_ (qk_modDev _ _ _ flg)
  split
  · exact qk_of_fields rfl rfl
  · exact QK.refl _

theorem qp_failDev (w : World) (y : Nat) (hk : (w.dev x).kind = .processor)
    (hne : y ≠ x → (w.dev y).aid ≠ (w.dev x).aid) : QP x w (w.failDev y) := by
  rw [failDev_eq]
  have h1 := qk_failHead w y x
  have h2 := qk_failHead w y y
  refine h1.qp.trans (qp_shutdownDev _ y true _ (h1.kind.trans hk) ?_)
  intro hy
  rw [h1.aid, h2.aid]
  exact hne hy

end C13Q
end SimProc
