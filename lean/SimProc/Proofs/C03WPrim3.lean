/-
C03W — primitive steps, part 3: pause / cancel / unpause of an asset's events; popping an event.
-/
import SimProc.Proofs.C03WPrim2
import SimProc.Props.C07

namespace SimProc
namespace C03W
open World FloorCoreL C03

/-- A step that only replaces the environment, keeping the clock and every attempt that matters. -/
theorem G.envOnly {E N A : List Nat} {w : World} (h : G E N A w) (env' : Env)
    (hinv : C01.Inv env') (hnow : env'.now = w.env.now)
    (ha : ∀ n ∈ C02V.acts env', n ∈ C02V.acts w.env)
    (hatt : ∀ d p, holdsD (w.dev d) = some p → d ∉ E → Att w d → Att { w with env := env' } d) :
    G E N A { w with env := env' } := by
  refine h.transfer rfl h.pl hinv hnow
    (evOK_of h.ev (fun d => rfl) (fun n hn => Or.inl (ha n hn))) h.valid h.kv h.stk
    (h.wr.same rfl rfl (fun _ hy => hy)) h.aok
    (fun n y hy hacc => ⟨hy, hacc⟩) ?_
  intro d p hdp hdE
  exact Or.inr ⟨hdp, hdE, rfl, hatt d p hdp hdE, fun hf => Or.inl hf⟩

theorem envOp_eq (w : World) (op : EnvOp) :
    w.envOp op = { w with env := (w.env.apply Arith.exact op).1 } := rfl

/-- Pausing the events of an asset id that no (non-exempt) holder has. -/
theorem G.pause {E N A : List Nat} {w : World} (h : G E N A w) (a : Int)
    (hno : ∀ d p, holdsD (w.dev d) = some p → d ∉ E → (w.dev d).aid ≠ a) :
    G E N A (w.envOp (.pause a)) := by
  rw [envOp_eq]
  refine h.envOnly _ (C01.inv_pause a h.inv) rfl (fun n hn => (C02V.acts_pause _ a n).mp hn) ?_
  intro d p hd hdE ⟨e, he, h1, h2, h3, h4⟩
  refine ⟨e, ?_, h1, h2, h3, h4⟩
  show e ∈ (w.env.pause a).events
  rw [C07.pause_withholds]
  exact ⟨he, by rw [h2]; exact hno d p hd hdE⟩

theorem G.cancel {E N A : List Nat} {w : World} (h : G E N A w) (a : Int)
    (hno : ∀ d p, holdsD (w.dev d) = some p → d ∉ E → (w.dev d).aid ≠ a) :
    G E N A (w.envOp (.cancel a)) := by
  rw [envOp_eq]
  refine h.envOnly _ (C01.inv_cancel a h.inv) rfl
    (fun n hn => by rw [show (w.env.apply Arith.exact (.cancel a)).1 = w.env.cancel a from rfl,
      C02V.acts_cancel] at hn; exact hn) ?_
  intro d p hd hdE ⟨e, he, h1, h2, h3, h4⟩
  refine ⟨e, ?_, h1, h2, h3, h4⟩
  show e ∈ (w.env.cancel a).events
  have hne : e.asset ≠ a := by rw [h2]; exact hno d p hd hdE
  have : Event.cancelIf a e = e := (C07.cancelIf_spec a e).2.1 hne
  simp only [Env.cancel, List.mem_map]
  exact ⟨e, he, this⟩

theorem G.unpause {E N A : List Nat} {w : World} (h : G E N A w) (a : Int) :
    G E N A (w.envOp (.unpause a)) := by
  rw [envOp_eq]
  refine h.envOnly _ (C01.inv_unpause Arith.exact a h.inv) rfl
    (fun n hn => (C02V.acts_unpause Arith.exact _ a n).mp hn) ?_
  intro d p hd hdE ⟨e, he, h1, h2, h3, h4⟩
  exact ⟨e, (C07.unpause_keeps_order Arith.exact w.env a).subset he, h1, h2, h3, h4⟩

/-! ### popping an event -/

/-- the device whose attempt a popped live event is -/
def exemptOf (e : Event) : List Nat :=
  if e.live then
    match Action.ofNat e.act with
    | .passPart d => [d]
    | _ => []
  else []

theorem wouldAcceptN_env (w : World) (env' : Env) (f : Nat) (N A : List Nat) (y p : Nat) :
    wouldAcceptN f { w with env := env' } N A y p = wouldAcceptN f w N A y p :=
  wouldAcceptN_congr (w := w) (w' := { w with env := env' })
    ⟨fun _ => rfl, fun _ => rfl, fun _ => rfl, fun _ => rfl, rfl⟩
    (fun _ => rfl) rfl (fun _ => rfl) f y

theorem G.pop {w : World} (h : G [] [] [] w) {e : Event} {env' : Env}
    (hst : w.env.step = some (e, env')) : G (exemptOf e) [] [] { w with env := env' } := by
  have hclk := C01.step_clock h.inv hst
  obtain ⟨es, heq, rfl⟩ := Env.step_some.mp hst
  refine ⟨h.sc, h.pl, C01.inv_step h.inv hst, ?_, ?_, h.valid, h.kv, h.stk, h.wr, h.aok, ?_⟩
  · show 0 ≤ e.time
    have := hclk.2
    have h0 := h.now0
    unfold World.now at h0
    exact Int.le_trans h0 this
  · intro n hn d hd
    refine h.ev n ?_ d hd
    rw [C02V.mem_acts] at hn ⊢
    obtain ⟨e0, he0, rfl⟩ := hn
    refine ⟨e0, ?_, rfl⟩
    rcases he0 with he0 | he0
    · left; rw [heq]; exact List.mem_cons_of_mem _ he0
    · right; exact he0
  · intro d p hd hdE
    rcases h.wake d p hd (by simp) with ha | hb
    · left
      obtain ⟨e0, he0, h1, h2, h3, h4⟩ := ha
      rw [heq] at he0
      rcases List.mem_cons.mp he0 with rfl | he0
      · exfalso
        apply hdE
        unfold exemptOf
        have hl : e0.live = true := by simp [Event.live, h3]
        rw [hl, h1, C03.ofNat_passPart]
        simp
      · refine ⟨e0, he0, h1, h2, h3, Int.le_trans h4 ?_⟩
        exact dueD_mono hclk.2 _
    · refine Or.inr ⟨hb.1, fun y hy => ?_⟩
      rw [← hb.2 y hy]
      exact wouldAcceptN_env w _ w.fuel [] [] y p

end C03W
end SimProc
