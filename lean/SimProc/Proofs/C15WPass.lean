/-
C15W / C16W — machinery, part 2: every function of the model is a `KStep` on keys.
-/
import SimProc.Proofs.C15WKey

namespace SimProc
namespace C15W
open World FloorCoreL C15 RM
open Lean Elab Tactic Meta

variable {ph : Phase}

/-! ### automation: peel the outermost function off a `KS` goal -/

/-- Peel a structure update `{ w with f := v, … }` that does not change the key. -/
elab "ks_struct" : tactic => do
  let g ← getMainGoal
  g.withContext do
    let t ← instantiateMVars (← g.getType)
    let_expr KS ph a b := t.consumeMData | throwError "ks_struct: not a KS goal"
    let b := b.consumeMData
    unless b.isAppOfArity ``World.mk 23 do throwError "ks_struct: not a structure instance"
    let r := b.getArg! 6
    let w0 ← match r with
      | .proj _ _ w0 => pure w0
      | _ =>
        if r.isAppOfArity ``World.recs 1 then pure (r.getArg! 0)
        else throwError "ks_struct: the log is changed"
    let newGoal ← mkFreshExprSyntheticOpaqueMVar (mkApp3 (mkConst ``KS) ph a w0)
    let eq ← mkEq (← mkAppM ``key #[b]) (← mkAppM ``key #[w0])
    let pf ← mkFreshExprMVar eq
    pf.mvarId!.refl
    g.assign (mkApp6 (mkConst ``KS.trans_key) ph a w0 b newGoal pf)
    replaceMainGoal [newGoal.mvarId!]

syntax "ks_step" : tactic
macro "ks_auto" : tactic => `(tactic| repeat' first | ks_step | split)

theorem KS_envOp_pause (w : World) (a : Int) : KS ph w (w.envOp (.pause a)) :=
  KS_envOp w _ (by intro h; cases h)
theorem KS_envOp_unpause (w : World) (a : Int) : KS ph w (w.envOp (.unpause a)) :=
  KS_envOp w _ (by intro h; cases h)
theorem KS_envOp_cancel (w : World) (a : Int) : KS ph w (w.envOp (.cancel a)) :=
  KS_envOp w _ (by intro h; cases h)

macro_rules | `(tactic| ks_step) => `(tactic| ks_struct)
macro_rules | `(tactic| ks_step) => `(tactic|
  ((with_reducible apply KS.trans (h2 := KS.foldl _ _ _ ?hs)); case hs => (intro _ _; ks_auto; done)))
macro_rules | `(tactic| ks_step) => `(tactic| with_reducible apply KS.trans (h2 := KS_envOp_cancel _ _))
macro_rules | `(tactic| ks_step) => `(tactic| with_reducible apply KS.trans (h2 := KS_envOp_unpause _ _))
macro_rules | `(tactic| ks_step) => `(tactic| with_reducible apply KS.trans (h2 := KS_envOp_pause _ _))
macro_rules | `(tactic| ks_step) => `(tactic| with_reducible apply KS.trans (h2 := KS_schedLib _ _ _ _ _))
macro_rules | `(tactic| ks_step) => `(tactic| with_reducible apply KS.trans (h2 := KS_sched _ _ _ _ _))
macro_rules | `(tactic| ks_step) => `(tactic| with_reducible apply KS.trans (h2 := KS_setErr _ _))
macro_rules | `(tactic| ks_step) => `(tactic| with_reducible apply KS.trans (h2 := KS_addRes _ _))
macro_rules | `(tactic| ks_step) => `(tactic|
  ((with_reducible apply KS.trans (h2 := KS_modPart _ _ _ ?hp)); case hp => exact rfl))
macro_rules | `(tactic| ks_step) => `(tactic|
  ((with_reducible apply KS.trans (h2 := KS_newPart _ _ ?hp)); case hp => exact rfl))
macro_rules | `(tactic| ks_step) => `(tactic|
  ((with_reducible apply KS.trans (h2 := KS_addRec _ _ ?hp ?ht)); (case hp => exact rfl); (case ht => exact rfl)))
macro_rules | `(tactic| ks_step) => `(tactic|
  ((with_reducible apply KS.trans (h2 := KS_modDev _ _ _ ?hp)); case hp => exact rfl))
macro_rules | `(tactic| ks_step) => `(tactic|
  ((with_reducible apply KS.trans (h2 := KS_setDev _ _ _ ?hp)); case hp => exact rfl))
macro_rules | `(tactic| ks_step) => `(tactic| with_reducible exact KS.refl _)

/-- After a `split` on a pair-valued call: use the fact `t` about the call. -/
macro "ks_heq " t:term : tactic =>
  `(tactic| (rename_i heq; with_reducible apply KS.trans (h2 := KS.of_fst_eq $t heq)))

/-! ### the floor: flow control -/

theorem KS_setWaiting (w : World) (x : Nat) (a b : Bool) : KS ph w (w.setWaiting x a b) := by
  unfold setWaiting
  dsimp only
  ks_auto

macro_rules | `(tactic| ks_step) => `(tactic| with_reducible apply KS.trans (h2 := KS_setWaiting _ _ _ _))

theorem KS_schedulePass (w : World) (x : Nat) (o : Int) : KS ph w (w.schedulePass x o) := by
  unfold schedulePass
  dsimp only
  ks_auto

macro_rules | `(tactic| ks_step) => `(tactic| with_reducible apply KS.trans (h2 := KS_schedulePass _ _ _))

theorem KS_notifyUp_spaceAvail (n : Nat) :
    ∀ w x, KS ph w (notifyUp n w x) ∧ KS ph w (spaceAvail n w x) := by
  induction n with
  | zero => intro w x; constructor <;> (simp only [notifyUp, spaceAvail]; exact KS_setErr _ _)
  | succ n ih =>
    intro w x
    have hN : ∀ w x, KS ph w (notifyUp n w x) := fun w x => (ih w x).1
    have hS : ∀ w x, KS ph w (spaceAvail n w x) := fun w x => (ih w x).2
    constructor
    · rw [notifyUp]
      try dsimp only
      repeat' split
      all_goals first
        | exact KS.refl _
        | exact (KS_setWaiting _ _ _ _).trans (KS.foldl _ _ _ hS)
        | exact KS.foldl _ _ _ hS
        | exact KS.foldl _ _ _ hN
    · rw [spaceAvail]
      try dsimp only
      repeat' split
      all_goals first
        | exact KS.refl _
        | exact hN _ _
        | exact hS _ _
        | exact KS_schedulePass _ _ _

theorem KS_notify (w : World) (x : Nat) : KS ph w (w.notify x) := (KS_notifyUp_spaceAvail _ _ _).1
theorem KS_spaceAvailable (w : World) (x : Nat) : KS ph w (w.spaceAvailable x) :=
  (KS_notifyUp_spaceAvail _ _ _).2

macro_rules | `(tactic| ks_step) => `(tactic| with_reducible apply KS.trans (h2 := KS_notify _ _))
macro_rules | `(tactic| ks_step) => `(tactic| with_reducible apply KS.trans (h2 := KS_spaceAvailable _ _))

/-! ### parts -/

theorem key_foldl_modPart (l : List Nat) (f : PartRec → PartRec)
    (hf : ∀ r, (f r).kids.isNone = r.kids.isNone) (w : World) :
    key (l.foldl (fun w k => w.modPart k f) w) = key w := by
  induction l generalizing w with
  | nil => rfl
  | cons a l ih => rw [List.foldl_cons, ih]; exact key_modPart _ _ _ (hf _)

theorem key_addHist (w : World) (p d : Nat) : key (w.addHist p d) = key w := by
  unfold addHist
  dsimp only
  have h1 : key (w.modPart p (fun r => { r with hist := r.hist ++ [d] })) = key w :=
    key_modPart _ _ _ rfl
  split
  · exact (key_foldl_modPart _ (fun r => { r with hist := r.hist ++ [d] }) (fun _ => rfl) _).trans h1
  · exact h1

theorem key_dropHist (w : World) (p : Nat) : key (w.dropHist p) = key w := by
  unfold dropHist
  dsimp only
  have h1 : key (w.modPart p (fun r => { r with hist := r.hist.dropLast })) = key w :=
    key_modPart _ _ _ rfl
  split
  · exact (key_foldl_modPart _ (fun r => { r with hist := r.hist.dropLast }) (fun _ => rfl) _).trans h1
  · exact h1

theorem KS_addHist (w : World) (p d : Nat) : KS ph w (w.addHist p d) := KS.of_key (key_addHist w p d)

theorem KS_dropHist (w : World) (p : Nat) : KS ph w (w.dropHist p) := KS.of_key (key_dropHist w p)

macro_rules | `(tactic| ks_step) => `(tactic| with_reducible apply KS.trans (h2 := KS_dropHist _ _))
macro_rules | `(tactic| ks_step) => `(tactic| with_reducible apply KS.trans (h2 := KS_addHist _ _ _))

theorem KS_applyPartCb (w : World) (x p : Nat) (c : PartCb) : KS ph w (w.applyPartCb x p c) := by
  unfold applyPartCb
  dsimp only
  ks_auto

theorem KS_senseOutput (w : World) (s p : Nat) : KS ph w (w.senseOutput s p) := by
  unfold senseOutput
  dsimp only
  ks_auto

theorem KS_finishCycleHandler (w : World) (x : Nat) : KS ph w (w.finishCycleHandler x) := by
  unfold finishCycleHandler
  dsimp only
  ks_auto

macro_rules | `(tactic| ks_step) => `(tactic| with_reducible apply KS.trans (h2 := KS_applyPartCb _ _ _ _))
macro_rules | `(tactic| ks_step) => `(tactic| with_reducible apply KS.trans (h2 := KS_senseOutput _ _ _))
macro_rules | `(tactic| ks_step) => `(tactic| with_reducible apply KS.trans (h2 := KS_finishCycleHandler _ _))

theorem keyNP_newPart (w : World) (r : PartRec) : keyNP (w.newPart r).1 = keyNP w := rfl

theorem keyNP_genPart (w : World) (x : Nat) : keyNP (w.genPart x).1 = keyNP w := by
  unfold genPart
  dsimp only
  split
  · rfl
  · have : ∀ (l : List Nat) (acc : World × List Nat),
        keyNP (l.foldl (fun (acc : World × List Nat) _ =>
          let (w', k) := acc.1.newPart { quality := (w.dev x).genQuality, value := (w.dev x).genValue }
          (w', acc.2 ++ [k])) acc).1 = keyNP acc.1 := by
      intro l
      induction l with
      | nil => intro acc; rfl
      | cons a l ih => intro acc; rw [List.foldl_cons, ih]; rfl
    exact this _ _

theorem KS_genPart (w : World) (x : Nat) : KS ph w (w.genPart x).1 := by
  apply KS_of_NP (keyNP_genPart w x)
  intro hb
  have h0 : (w.dev x).genBatch = 0 := by
    have := (hb x).1
    rw [key_dev] at this
    exact this
  unfold genPart
  simp only [h0, beq_self_eq_true, if_true]
  show (key (w.newPart _).1).pl = _
  rw [key_newPart _ _ rfl]

theorem keyNP_modDev (w : World) (x : Nat) (f : Dev → Dev) (h : dkey (f (w.dev x)) = dkey (w.dev x)) :
    keyNP (w.modDev x f) = keyNP w := keyNP_of_key (key_setDev w x _ h)

/-- Everything but `pl` is unchanged, and some device is set up to build batches. -/
theorem KS_anyPl {w w' : World} (h1 : keyNP w' = keyNP w) (hb : ∃ x n, (w.dev x).bsize = some n) :
    KS ph w w' := by
  apply KS_of_NP h1
  intro hn
  obtain ⟨x, n, hx⟩ := hb
  have := (hn x).2
  rw [key_dev] at this
  rw [show (dkey (w.dev x)).bsize = (w.dev x).bsize from rfl, hx] at this
  cases this

theorem KS_batcherLoop (n : Nat) (w : World) (x : Nat) : KS ph w (batcherLoop n w x) := by
  induction n generalizing w with
  | zero => exact KS.refl _
  | succ n ih =>
    rw [batcherLoop]
    split
    · split
      rename_i w1 t heq
      refine KS.trans ?_ (ih _)
      have h1 : KS ph w (w1, t).1 := by
        rw [← heq]
        split
        · rename_i k rest hk
          dsimp only
          have hm : KS ph w (w.modPart _ (fun r => { r with kids := some rest })) :=
            KS_modPart _ _ _ (by rw [hk]; rfl)
          split
          · exact hm.trans (KS_modDev _ _ _ rfl)
          · exact hm
        · exact KS_modDev _ _ _ rfl
      refine KS.trans h1 ?_
      split
      · ks_auto
      · rename_i nb hbs
        apply KS_anyPl _ ⟨x, nb, hbs⟩
        split
        rename_i w2 b heq2
        have h2 : keyNP (w2, b).1 = keyNP w1 := by
          rw [← heq2]
          split
          · rfl
          · dsimp only
            exact (keyNP_modDev _ _ _ rfl).trans rfl
        dsimp only
        split
        · exact (keyNP_modDev _ _ _ rfl).trans (Eq.trans rfl h2)
        · exact Eq.trans rfl h2
    · exact KS.refl _

macro_rules | `(tactic| ks_step) => `(tactic| with_reducible apply KS.trans (h2 := KS_genPart _ _))
macro_rules | `(tactic| ks_step) => `(tactic| with_reducible apply KS.trans (h2 := KS_batcherLoop _ _ _))

/-! ### resources of a processor -/

theorem KS_releaseReserved (w : World) (x : Nat) : KS ph w (w.releaseReserved x) := by
  unfold releaseReserved
  split
  · exact KS.refl _
  · rename_i id _
    dsimp only
    exact (KS_rmStep w _ _ _ (RMok.release w.rm id none)).trans (KS_modDev _ _ _ rfl)

theorem KS_procAcquire (w : World) (x : Nat) : KS ph w (w.procAcquire x).1 := by
  unfold procAcquire
  dsimp only
  split
  · exact KS.refl _
  · rename_i req _
    split
    · exact KS.refl _
    · have hr := RMok.reserve w.rm req
      split
      · rename_i rm' r id recs heq
        have e1 : rm' = (w.rm.reserve req).1 := by rw [heq]
        have e2 : recs = (w.rm.reserve req).2.2.2 := by rw [heq]
        subst e1 e2
        exact (KS_rmStep w _ _ false hr).trans (KS_modDev _ _ _ rfl)
      · exact KS_setErr _ _
      · split
        · exact KS.refl _
        · dsimp only
          exact (KS_rmStep w _ [] _ (RMok.register w.rm req (.proc x))).trans (KS_modDev _ _ _ rfl)

macro_rules | `(tactic| ks_step) => `(tactic| with_reducible apply KS.trans (h2 := KS_releaseReserved _ _))

/-! ### cycles -/

theorem KS_procPre (w : World) (x : Nat) : KS ph w (procPre w x) := by
  unfold procPre
  dsimp only
  ks_auto

theorem KS_procCbs (w : World) (cbs : List PartCb) (sens : List Nat) (x p : Nat) :
    KS ph w (procCbs w cbs sens x p) := by
  unfold procCbs
  ks_auto

theorem KS_finishCycle (w : World) (x : Nat) : KS ph w (w.finishCycle x) := by
  by_cases h : (w.dev x).kind = .processor
  · rw [finishCycle_processor_eq w x h]
    split
    · exact KS_procPre w x
    · exact ((KS_procPre w x).trans (KS_procCbs _ _ _ _ _)).trans (KS_addRec _ _ rfl rfl)
  · unfold finishCycle
    dsimp only
    split
    · ks_step
      split
      · ks_step
        ks_step
        have := KS_genPart (ph := ph) w x
        revert this
        generalize w.genPart x = q
        intro this
        exact this
      · exact KS.refl _
    · ks_auto
    · contradiction
    · ks_auto

macro_rules | `(tactic| ks_step) => `(tactic| with_reducible apply KS.trans (h2 := KS_finishCycle _ _))

theorem KS_scheduleFinish (w : World) (x : Nat) : KS ph w (w.scheduleFinish x) := by
  unfold scheduleFinish
  dsimp only
  ks_auto

macro_rules | `(tactic| ks_step) => `(tactic| with_reducible apply KS.trans (h2 := KS_scheduleFinish _ _))

theorem KS_tryMove (w : World) (x : Nat) : KS ph w (w.tryMove x) := by
  unfold tryMove
  dsimp only
  ks_auto

macro_rules | `(tactic| ks_step) => `(tactic| with_reducible apply KS.trans (h2 := KS_tryMove _ _))

theorem KS_recvTail (w : World) (x p : Nat) : KS ph w (recvTail w x p) := by
  unfold recvTail
  dsimp only
  ks_auto

/-! ### the site: a device accepts a part -/

theorem key_setDev_eq (w : World) (x : Nat) (d : Dev) :
    key (w.setDev x d) = (key w).setDev x (dkey d) := by
  simp [key, World.setDev, WKey.setDev, List.map_set]

theorem key_setWaiting (w : World) (x : Nat) (a b : Bool) : key (w.setWaiting x a b) = key w := by
  unfold setWaiting
  dsimp only
  repeat' split
  all_goals first | rfl | exact key_setDev _ _ _ rfl

theorem key_modDev (w : World) (x : Nat) (f : Dev → Dev) (h : dkey (f (w.dev x)) = dkey (w.dev x)) :
    key (w.modDev x f) = key w := key_setDev w x _ h

theorem key_acceptHead (w : World) (x p : Nat) :
    key (acceptHead w x p) =
      if (w.dev x).kind = .sink then { key w with delivered := w.delivered ++ w.leavesOf p }
      else key w := by
  unfold acceptHead
  dsimp only
  rw [key_setWaiting, key_addHist]
  by_cases h : (w.dev x).kind = .sink
  · simp only [h, beq_self_eq_true, if_true]
    rw [key_modDev _ _ _ rfl]; rfl
  · have : ((w.dev x).kind == Kind.sink) = false := by simpa using h
    simp only [this, h, if_false, Bool.false_eq_true]
    rw [key_modDev _ _ _ rfl]

theorem part_kids_of_pl (w : World) (p : Nat) (h : (key w).pl = true) : (w.part p).kids = none := by
  have h' : w.parts.all (fun r => r.kids.isNone) = true := h
  rw [List.all_eq_true] at h'
  unfold World.part
  by_cases hp : p < w.parts.length
  · have : w.parts.getD p default = w.parts[p] := by simp [List.getD_eq_getElem?_getD, hp]
    rw [this]
    have := h' _ (List.getElem_mem hp)
    simpa using this
  · simp [List.getD_eq_getElem?_getD, Nat.le_of_not_lt hp]
    rfl

theorem leavesOf_length_of_pl (w : World) (p : Nat) (h : (key w).pl = true) :
    (w.leavesOf p).length = 1 := by
  unfold leavesOf
  rw [part_kids_of_pl w p h]
  rfl

theorem leavesOf_length (w : World) (p : Nat) : (w.leavesOf p).length = w.leafCount p := by
  unfold leavesOf leafCount
  split <;> rfl

theorem KS_acceptSite (hph : ph.moves) (w : World) (x p : Nat) :
    KS ph w ((recvHead (acceptHead w x p) x p).addRec
      (.received x (acceptHead w x p).now p ((acceptHead w x p).part p).quality
        ((acceptHead w x p).partValue p))) := by
  have hk := key_acceptHead w x p
  have hd : dkey ((acceptHead w x p).dev x) = dkey (w.dev x) := by
    rw [← key_dev, ← key_dev, hk]; split <;> rfl
  have hnow : (acceptHead w x p).now = w.now := RN_now (RN_acceptHead w x p)
  have hlc := acceptHead_leafCount w x p p
  generalize acceptHead w x p = w1 at *
  unfold KS
  by_cases hs : (w.dev x).kind = .sink
  · have hx := kind_sink_lt hs
    have hs1 : (w1.dev x).kind = .sink := (congrArg DKey.kind hd).trans hs
    rw [if_pos hs] at hk
    have hks : ((key w).dev x).kind = .sink := by rw [key_dev]; exact hs
    refine (KStep.recvSink (key w) x p (w1.part p).quality (w1.partValue p) (w.leavesOf p) hph
      (by simpa using hx) hks (leavesOf_length_of_pl w p)).cast ?_
    unfold recvHead
    simp only [hs1]
    show _ = ((key (w1.setDev x _)).addRecs _)
    rw [key_setDev_eq, hk]
    simp only [WKey.setDev, WKey.addRecs, key_now, hnow, leavesOf_length, ← hlc]
    congr 2
    · rw [key_dev, ← hd]; simp [dkey, hs1]
  · rw [if_neg hs] at hk
    have hs1 : (w1.dev x).kind ≠ .sink := fun h => hs ((congrArg DKey.kind hd).symm.trans h)
    by_cases hb : (w.dev x).kind = .buffer
    · have hx := kind_buffer_lt hb
      have hb1 : (w1.dev x).kind = .buffer := (congrArg DKey.kind hd).trans hb
      have hkb : ((key w).dev x).kind = .buffer := by rw [key_dev]; exact hb
      refine (KStep.recvBuf (key w) x p (w1.leafCount p) (w1.part p).quality (w1.partValue p) hph
        (by simpa using hx) hkb).cast ?_
      unfold recvHead
      simp only [hb1]
      have hx1 : x < w1.devs.length := kind_buffer_lt hb1
      show _ = ((key ((w1.setDev x _))).addRecs [_]).addRecs [_]
      rw [key_setDev_eq, hk, dev_setDev_same hx1]
      simp only [WKey.setDev, WKey.addRecs, key_now, hnow, List.append_assoc, List.cons_append, List.nil_append]
      have e : dkey (w1.dev x) = (key w).dev x := by rw [key_dev, hd]
      congr 2
      · have : ((key w).dev x).level = (w1.dev x).level := by rw [← e]; rfl
        rw [this, ← hnow]; rfl
      · rw [← e]; simp [dkey, hb1]
    · have hb1 : (w1.dev x).kind ≠ .buffer := fun h => hb ((congrArg DKey.kind hd).symm.trans h)
      refine (KStep.recvOther (key w) x p (w1.part p).quality (w1.partValue p) hph
        (by rw [key_dev]; exact hs) (by rw [key_dev]; exact hb)).cast ?_
      unfold recvHead
      dsimp only
      split
      · rename_i h; exact absurd h hs1
      · rename_i h; exact absurd h hb1
      · show _ = (key w1).addRecs [_]
        rw [hk, hnow]; rfl


theorem KS.devs_length {w w' : World} (h : KS ph w w') : w'.devs.length = w.devs.length := by
  have := (KStep.static h).1
  simpa using this

theorem KS.kind {w w' : World} (h : KS ph w w') (x : Nat) : (w'.dev x).kind = (w.dev x).kind := by
  have := ((KStep.static h).2.2.1 x).1
  rw [key_dev, key_dev] at this
  exact this

theorem KS_acceptPart (hph : ph.moves) (w : World) (x p : Nat) : KS ph w (w.acceptPart x p) := by
  rw [acceptPart_eq, onReceived_eq']
  have e1 := recvHead_now (acceptHead w x p) x p
  have e2 := recvHead_parts (acceptHead w x p) x p
  rw [e1, partValue_congr e2, part_congr e2]
  exact (KS_acceptSite hph w x p).trans (KS_recvTail _ _ _)

theorem KS_tryList (g : World → Nat → Nat → World × Bool)
    (hg : ∀ w y p, KS ph w (g w y p).1) (w : World) (l : List Nat) (p : Nat) :
    KS ph w (tryList g w l p).1 := by
  induction l generalizing w with
  | nil => exact KS.refl w
  | cons y ys ih =>
    rw [tryList]
    have h := hg w y p
    split
    · rename_i heq; rw [heq] at h; exact h
    · rename_i heq; rw [heq] at h; exact h.trans (ih _)

theorem KS_give (hph : ph.moves) (n : Nat) : ∀ (w : World) (x p : Nat), KS ph w (give n w x p).1 := by
  induction n with
  | zero => intro w x p; exact KS_setErr _ _
  | succ n ih =>
    intro w x p
    have hT : ∀ w l p, KS ph w (tryList (give n) w l p).1 := KS_tryList _ ih
    rw [give]
    dsimp only
    repeat' first
      | ks_step
      | with_reducible apply KS.trans (h2 := KS_acceptPart hph _ _ _)
      | exact hT _ _ _
      | exact ih _ _ _
      | ks_heq (hT _ _ _)
      | ks_heq (ih _ _ _)
      | ks_heq (KS_procAcquire _ _)
      | split

theorem KS_givePart (hph : ph.moves) (w : World) (x p : Nat) : KS ph w (w.givePart x p).1 :=
  KS_give hph _ _ _ _

theorem KS_tryList_givePart (hph : ph.moves) (w : World) (l : List Nat) (p : Nat) :
    KS ph w (tryList givePart w l p).1 := KS_tryList _ (KS_givePart hph) _ _ _

theorem KS_passHandler (hph : ph.moves) (w : World) (x : Nat) : KS ph w (w.passHandler x) := by
  unfold passHandler
  dsimp only
  repeat' first
    | ks_step
    | ks_heq (KS_tryList_givePart hph _ _ _)
    | split

theorem KS_releaseStep (hph : ph.moves) (w : World) (x n : Nat) (hk : (w.dev x).kind = .buffer) :
    KS ph w (releaseStep w x n) := by
  have hx := kind_buffer_lt hk
  unfold KS
  refine (KStep.release (key w) x n hph (by simpa using hx) (by rw [key_dev]; exact hk)).cast ?_
  unfold releaseStep
  dsimp only
  show _ = (key (w.setDev x _)).addRecs [_]
  rw [key_setDev_eq, dev_modDev_same hx]
  simp only [WKey.setDev, WKey.addRecs, key_dev]
  rfl

theorem KS_bufferLoop (hph : ph.moves) (n : Nat) (w : World) (x : Nat) (hk : (w.dev x).kind = .buffer) :
    KS ph w (bufferLoop n w x) := by
  induction n generalizing w with
  | zero => exact KS.refl _
  | succ n ih =>
    rw [bufferLoop_succ]
    split
    · exact KS.refl _
    · rename_i t p rest hbuf
      split
      · exact KS.refl _
      · have hT := KS_tryList_givePart hph w (w.sortedDown x) p
        split
        · rename_i w1 heq
          rw [heq] at hT
          have hk1 : (w1.dev x).kind = .buffer := (hT.kind x).trans hk
          have h2 := KS_releaseStep hph w1 x (w.leafCount p) hk1
          exact (hT.trans h2).trans (ih _ ((h2.kind x).trans hk1))
        · rename_i w1 heq
          rw [heq] at hT
          exact hT

theorem KS_supplySite (hph : ph.sup = true) (w : World) (x p : Nat) (v : Int)
    (hk : (w.dev x).kind = .source) :
    KS ph w ((bump w x v).addRec (.supplied x w.now p)) := by
  have hx := kind_source_lt hk
  unfold KS
  refine (KStep.supply (key w) x p v hph (by simpa using hx) (by rw [key_dev]; exact hk)).cast ?_
  unfold bump
  show _ = (key (w.setDev x _)).addRecs [_]
  rw [key_setDev_eq]
  simp only [WKey.setDev, WKey.addRecs, key_dev]
  rfl

theorem KS_passPart (hm : ph.moves) (w : World) (x : Nat)
    (hs : (w.dev x).kind = .source → ph.sup = true) : KS ph w (w.passPart x) := by
  by_cases hk : (w.dev x).kind = .source
  · have hph := hs hk
    rw [passPart_source_eq w x hk]
    split
    · exact KS.refl _
    · split
      · exact KS.refl _
      · rename_i p _
        have h1 := KS_passHandler hm w x
        split
        · have hk1 : ((w.passHandler x).dev x).kind = .source := (h1.kind x).trans hk
          exact (h1.trans (KS_supplySite hph _ x p _ hk1)).trans (KS_scheduleFinish _ _)
        · exact h1
  · unfold passPart
    dsimp only
    split
    · contradiction
    · rename_i hb
      have hB := fun n => KS_bufferLoop hm n w x hb
      repeat' first
        | ks_step
        | with_reducible apply KS.trans (h2 := hB _)
        | split
    all_goals
      repeat' first
        | ks_step
        | with_reducible apply KS.trans (h2 := KS_passHandler hm _ _)
        | split

theorem KS_shutdownDev (w : World) (x : Nat) (f : Bool) (lost : Option Nat) :
    KS ph w (w.shutdownDev x f lost) := by
  unfold shutdownDev
  dsimp only
  ks_auto

theorem KS_restoreDev (w : World) (x : Nat) : KS ph w (w.restoreDev x) := by
  unfold restoreDev
  dsimp only
  ks_auto

macro_rules | `(tactic| ks_step) => `(tactic| with_reducible apply KS.trans (h2 := KS_shutdownDev _ _ _ _))
macro_rules | `(tactic| ks_step) => `(tactic| with_reducible apply KS.trans (h2 := KS_restoreDev _ _))

theorem KS_failDev (w : World) (x : Nat) : KS ph w (w.failDev x) := by
  unfold failDev
  dsimp only
  ks_auto

theorem KS_releaseIfIdle (w : World) (x : Nat) : KS ph w (w.releaseIfIdle x) := by
  unfold releaseIfIdle
  ks_auto

theorem KS_procResourceCb (w : World) (x : Nat) : KS ph w (w.procResourceCb x) := by
  unfold procResourceCb
  dsimp only
  ks_auto

theorem KS_setBlock (w : World) (x : Nat) (b : Bool) : KS ph w (w.setBlock x b) := by
  unfold setBlock
  dsimp only
  ks_auto

theorem KS_adjustParts (w : World) (x : Nat) (v : Int) : KS ph w (w.adjustParts x v) := by
  unfold adjustParts
  dsimp only
  ks_auto

theorem KS_rewire (w : World) (x : Nat) (ups : List Nat) : KS ph w (w.rewire x ups) := by
  unfold rewire
  dsimp only
  ks_auto


end C15W
end SimProc
