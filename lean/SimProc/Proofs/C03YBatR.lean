/-
C03W with re-wiring — stages B, C (batchers, batches, the shared group) with re-wiring IN SCRIPTS.

As for the resource invariant (`Proofs/C03YResR.lean`): the invariant `C17W.CI` of the batcher /
conservation theorems contains a static class that excludes `rewire` in scripts
(`C02V.ScriptsStatic`), but nothing else in it reads the scripts.  It is carried for the world
without its scripts, `C17W.CI (es w [])`; an event that runs no script is handled by the theorems of
C17W on that world; a script run is handled operation by operation: an operation `o` of the class is
the script run of the world `es v [[o]]`, a re-wiring is a frame step (`ci_rewire`).
-/
import SimProc.Proofs.C03YResR

namespace SimProc
namespace C03W
open World FloorCoreL C03 C02V

/-! ### views of the world without / with other scripts -/

theorem sv_es (w : World) (s : List (List Op)) : sv (es w s) = sv w := rfl
theorem st_es (w : World) (s : List (List Op)) : st (es w s) = st w := rfl
theorem bv_es (w : World) (s : List (List Op)) : C05W.bv (es w s) = C05W.bv w := rfl

/-- a step that changes none of the views the invariant of C17W reads -/
theorem ci_frame {v v' : World} (h : C17W.CI v) (hsv : sv v' = sv v) (hst : st v' = st v)
    (hbv : C05W.bv v' = C05W.bv v) (hscr : v'.scripts = v.scripts)
    (hhb : HasBad (badAct (fun d => (v.dev d).kind = .sink)) v' =
      HasBad (badAct (fun d => (v.dev d).kind = .sink)) v) : C17W.CI v' :=
  ⟨h.inv.of_sv hsv, h.stat.of_sr (SR.of_st hst hscr hhb),
    C17W.batAll_of_frame (kind_of_st hst) hsv hbv h.bat⟩

/-- other scripts: only the static class of the scripts has to be checked again -/
theorem ci_es_scripts {v : World} {s s' : List (List Op)} (h : C17W.CI (es v s))
    (hs' : ScriptsStatic (es v s')) : C17W.CI (es v s') :=
  ⟨h.inv.of_sv (w := es v s) (w' := es v s') rfl,
    ⟨hs', h.stat.2.1.of_tv (w := es v s) (w' := es v s') rfl rfl, h.stat.2.2⟩,
    C17W.batAll_of_frame (w := es v s) (w' := es v s') (fun _ => rfl) rfl rfl h.bat⟩

/-- the invariant of C17W through the action of an event -/
theorem ci_exec (v : World) (a : Action) (h : C17W.CI v) (ha : ActOK v a) : C17W.CI (v.exec a) :=
  ⟨(good_exec v a ⟨h.inv, scriptsOK_of_static h.stat.1⟩ ha).1,
    h.stat.of_sr (sr_exec _ v a ⟨fun _ => Iff.rfl, h.stat.1⟩),
    C17W.batAll_exec v a h.inv h.stat h.bat ha⟩

/-! ### the scope of the world without its scripts, and after a scripted re-wiring -/

theorem SC.es_nil {v : World} (hs : SC v) : SC (es v []) := by
  have hsub : TopoSub v (es v []) := ⟨fun _ => rfl, fun _ => rfl, rfl, fun _ _ h => h⟩
  have hnr : NR (es v []) := fun l hl => nomatch hl
  have hgate : ∀ x, x < (es v []).devs.length →
      costLe (es v []).devs.length (es v []) (2 * (es v []).devs.length + 1) x = true ∧
      (∀ y ∈ ((es v []).dev x).down, cReach (es v []).devs.length (es v []) y x = false) ∧
      GroupOK (es v []) x := by
    intro x hx
    exact ⟨hsub.costLe _ _ x (hs.cost hx), fun y hy => hsub.cReach_false (hs.noSelf hx hy), hs.groupOK hx⟩
  refine SC.intro (fun x _ => hs.devOK x) (fun x hx y hy => hs.down_sym hx hy) hs.aids hgate
    (fun t ht d hd => hs.target ht hd) (fun l hl => nomatch hl) ?_
  unfold EnvOK
  rw [envl_of_nr hnr]
  exact fun x hx => ⟨(hgate x (List.mem_range.mp hx)).1, (hgate x (List.mem_range.mp hx)).2.1⟩

/-- **A scripted re-wiring leaves the world in the scope** (the static part of `G.rewireG`). -/
theorem SC.rewire_script {v : World} (hs : SC v) (x : Nat) (ups : List Nat) (hok : RewOK v x ups)
    (hscr : ∃ l ∈ v.scripts, Op.rewire x ups ∈ l) : SC (v.rewire x ups) := by
  rw [rewire_eq_fold]
  have hca := rewireClock_core v x
  have hsa : SC (rewireClock v x) := hs.of_sw (sw_of_core hca)
  have hoka : RewOK (rewireClock v x) x ups := rewOK_of_sw (sw_of_core hca) hok
  have hw := rewireWire_wire (rewireClock v x) x ups
  obtain ⟨l, hl, hop⟩ := hscr
  have hr := statRel_fold (x := x) (ups := ups) ups (fun _ hu => hu) _
    (StatRel.refl x ups (rewireWire (rewireClock v x) x ups))
  refine hr.sc (sc_rewireWire hsa x ups hoka) (by rw [hw.len]; exact hoka.1)
    (by rw [rewireWire_up _ x ups hoka.1, if_pos rfl]) (fun u hu => ?_)
  rw [hw.scripts, core_eq_scripts hca]
  exact mem_rewEdges.mpr ⟨l, hl, ups, hop, hu⟩

/-! ### a re-wiring -/

theorem hb_rewireStep (sk : Nat → Prop) (x : Nat) (w : World) (u : Nat) :
    HasBad (badAct sk) (rewireStep x w u) = HasBad (badAct sk) w := by
  unfold rewireStep
  split
  · rfl
  · dsimp only
    split
    · exact (hb_spaceAvailable sk _ u).trans rfl
    · rfl

theorem hb_rewire (sk : Nat → Prop) (w : World) (x : Nat) (ups : List Nat) :
    HasBad (badAct sk) (w.rewire x ups) = HasBad (badAct sk) w := by
  rw [rewire_eq_fold, foldl_proj (HasBad (badAct sk)) _ _ _ (fun w u => hb_rewireStep sk x w u)]
  have h1 : HasBad (badAct sk) (rewireWire (rewireClock w x) x ups) =
      HasBad (badAct sk) (rewireClock w x) := by
    unfold rewireWire eraseFold
    exact (hb_modDev ..).trans (foldl_proj (HasBad (badAct sk)) _ _ _ (fun w u => hb_modDev ..))
  rw [h1]
  unfold rewireClock
  split
  · exact hb_setWaiting sk w x true true
  · rfl

/-- the invariant of C17W (world without scripts) through a re-wiring after which the world is in
the scope -/
theorem ci_es_rewire {v : World} (h : C17W.CI (es v [])) (x : Nat) (ups : List Nat)
    (hsc : SC (v.rewire x ups)) : C17W.CI (es (v.rewire x ups) []) := by
  have hk : ∀ y, ((es (v.rewire x ups) []).dev y).kind = ((es v []).dev y).kind :=
    fun y => kind_rewire v x ups y
  have hss : ScriptsStatic (es (v.rewire x ups) []) := fun l hl => nomatch hl
  have htop : TopoOK (es (v.rewire x ups) []) := fun y => hsc.es_nil.giveOK y
  have hbad : ¬ HasBad (badAct fun d => ((es (v.rewire x ups) []).dev d).kind = Kind.sink)
      (es (v.rewire x ups) []) := by
    have e : (fun d => ((es (v.rewire x ups) []).dev d).kind = Kind.sink) =
        (fun d => ((es v []).dev d).kind = Kind.sink) := by
      funext d; rw [hk]
    rw [e]
    have h0 := h.stat.2.2
    have e2 : HasBad (badAct fun d => ((es v []).dev d).kind = Kind.sink) (es (v.rewire x ups) []) =
        HasBad (badAct fun d => ((es v []).dev d).kind = Kind.sink) (es v []) :=
      hb_rewire _ v x ups
    rw [e2]
    exact h0
  exact ⟨h.inv.of_sv (sv_rewire v x ups), ⟨hss, htop, hbad⟩,
    C17W.batAll_of_frame hk (sv_rewire v x ups) (bv_rewire v x ups) h.bat⟩

/-! ### an operation of the class -/

theorem opStatic_of {v : World} {op : Op} (hsc : OpSC v op) (hb : OpB v op)
    (hr : isRewire op = false) : OpStatic v op := by
  cases op <;> simp only [OpStatic, OpSC, OpB, isRewire] at hsc hb hr ⊢ <;>
    first | exact hb | exact hsc | trivial | (cases hr)

theorem ci_es_applyOp {v : World} (h : C17W.CI (es v [])) (op : Op) (hst : OpStatic v op) :
    C17W.CI (es ((v.applyOp op).1.addRes (v.applyOp op).2) []) := by
  have hnc : ∀ sp, op ≠ .create sp := by
    intro sp he; subst he; exact hst
  have hu : C17W.CI (es v [[op]]) := by
    refine ci_es_scripts h ?_
    intro l hl o ho
    have hl' : l = [op] := by simpa [es_scripts, sc] using hl
    subst hl'
    have ho' : o = op := by simpa using ho
    subst ho'
    exact hst
  have h1 := ci_exec (es v [[op]]) (.script 0) hu trivial
  have e : (es v [[op]]).exec (.script 0) =
      es ((v.applyOp op).1.addRes (v.applyOp op).2) [[op]] := by
    show (es v [[op]]).applyOps ((es v [[op]]).scripts.getD 0 []) = _
    have : (es v [[op]]).scripts.getD 0 [] = [op] := rfl
    rw [this]
    show ((es v [[op]]).applyOp op).1.addRes ((es v [[op]]).applyOp op).2 = _
    rw [es_applyOp v [[op]] op hnc]
    rfl
  rw [e] at h1
  exact ci_es_scripts h1 (fun l hl => nomatch hl)

/-! ### a script run -/

/-- the static data a script run needs, preserved by every operation of the scripts -/
structure CSt (v : World) : Prop where
  sc : SC v
  scrB : ScrB v

theorem CSt.applyOp {v : World} (h : CSt v) {l : List Op} (hl : l ∈ v.scripts) {op : Op} (hop : op ∈ l) :
    CSt ((v.applyOp op).1.addRes (v.applyOp op).2) := by
  have hsc := h.sc.scriptOp hl hop
  have hnc := opSC_not_create hsc
  have hscr : ((v.applyOp op).1.addRes (v.applyOp op).2).scripts = v.scripts := scr_applyOp v op
  have hswr : swr ((v.applyOp op).1.addRes (v.applyOp op).2) = swr v := swr_applyOp v op hnc
  refine ⟨?_, scrB_of_kind hscr (fun y => stat0_kind (stat0_of_swr hswr y)) h.scrB⟩
  cases hr : isRewire op with
  | true =>
    obtain ⟨x, ups, rfl⟩ : ∃ x ups, op = .rewire x ups := by
      cases op <;> simp only [isRewire] at hr <;> first | (cases hr; done) | exact ⟨_, _, rfl⟩
    have := h.sc.rewire_script x ups hsc ⟨l, hl, hop⟩
    exact this.of_sw rfl
  | false =>
    have hn : ∀ d ups, op ≠ .rewire d ups := by
      intro d ups he; subst he; cases hr
    have hsw : swv ((v.applyOp op).1.addRes (v.applyOp op).2) = swv v := swv_applyOp v op hn hnc
    exact h.sc.of_sw (SW.sw_eq ⟨hsw, hscr⟩)

theorem ci_es_applyOps : ∀ (ops : List Op) (v : World), C17W.CI (es v []) → CSt v →
    (∀ op ∈ ops, ∃ l ∈ v.scripts, op ∈ l) →
    C17W.CI (es (v.applyOps ops) []) ∧ CSt (v.applyOps ops) := by
  intro ops
  induction ops with
  | nil => intro v h hs _; exact ⟨h, hs⟩
  | cons op ops ih =>
    intro v h hs hsub
    unfold World.applyOps
    simp only [List.foldl_cons]
    obtain ⟨l, hl, hop⟩ := hsub op (List.mem_cons_self ..)
    have hs1 := hs.applyOp hl hop
    have hscr : ((v.applyOp op).1.addRes (v.applyOp op).2).scripts = v.scripts := scr_applyOp v op
    have h1 : C17W.CI (es ((v.applyOp op).1.addRes (v.applyOp op).2) []) := by
      cases hr : isRewire op with
      | true =>
        obtain ⟨x, ups, rfl⟩ : ∃ x ups, op = .rewire x ups := by
          cases op <;> simp only [isRewire] at hr <;> first | (cases hr; done) | exact ⟨_, _, rfl⟩
        have h2 := ci_es_rewire h x ups (hs1.sc.of_sw rfl)
        exact ci_frame h2 rfl rfl rfl rfl rfl
      | false =>
        exact ci_es_applyOp h op (opStatic_of (hs.sc.scriptOp hl hop) (hs.scrB l hl op hop) hr)
    have := ih _ h1 hs1 (fun o ho => by rw [hscr]; exact hsub o (List.mem_cons_of_mem _ ho))
    unfold World.applyOps at this
    exact this

theorem ci_es_runScript {v : World} (h : C17W.CI (es v [])) (hs : CSt v) (k : Nat) :
    C17W.CI (es (v.runScript k) []) ∧ CSt (v.runScript k) := by
  unfold World.runScript
  refine ci_es_applyOps _ v h hs (fun op hop => ?_)
  by_cases hk : k < v.scripts.length
  · have e : v.scripts.getD k [] = v.scripts[k] := by simp [List.getD_eq_getElem?_getD, hk]
    rw [e] at hop
    exact ⟨_, List.getElem_mem hk, hop⟩
  · have e : v.scripts.getD k [] = [] := by
      simp [List.getD_eq_getElem?_getD, Nat.le_of_not_lt hk]
    rw [e] at hop; cases hop

/-! ### frames -/

theorem CSt.frame {v v' : World} (h : CSt v) (hsw : swv v' = swv v) (hscr : v'.scripts = v.scripts) :
    CSt v' :=
  ⟨h.sc.of_sw (SW.sw_eq ⟨hsw, hscr⟩),
    scrB_of_kind hscr (fun y => sw_kind (SW.sw_eq ⟨hsw, hscr⟩) y) h.scrB⟩

/-- `GCI v` : what is carried through the pieces of an event action -/
def GCI (v : World) : Prop := C17W.CI (es v []) ∧ CSt v

theorem GCI.addRes {v : World} (h : GCI v) (r : Res) : GCI (v.addRes r) :=
  ⟨ci_frame (v := es v []) (v' := es (v.addRes r) []) h.1 rfl rfl rfl rfl rfl, h.2.frame rfl rfl⟩

theorem GCI.addRec {v : World} (h : GCI v) (r : Rec) : GCI (v.addRec r) :=
  ⟨ci_frame (v := es v []) (v' := es (v.addRec r) []) h.1 rfl rfl rfl rfl rfl, h.2.frame rfl rfl⟩

theorem GCI.modMaint {v : World} (h : GCI v) (m : Nat) (f : Maint → Maint) : GCI (v.modMaint m f) :=
  ⟨ci_frame (v := es v []) (v' := es (v.modMaint m f) []) h.1 rfl rfl rfl rfl rfl, h.2.frame rfl rfl⟩

theorem GCI.setErr {v : World} (h : GCI v) (m : String) : GCI (v.setErr m) := by
  refine ⟨?_, h.2.frame (swv_setErr v m) (scr_setErr v m)⟩
  rw [← es_setErr]
  exact ci_frame h.1 (sv_setErr ..) (st_setErr ..) (C05W.bv_setErr ..) (scr_setErr ..) (hb_setErr ..)

theorem not_bad_of {sk : Nat → Prop} {a : Action} (h : ∀ d, a ≠ .fail d) : ¬ badAct sk a.toNat := by
  rintro ⟨d, hd, _⟩
  exact h d (ofNat_toNat_fail a d hd)

theorem GCI.schedLib {v : World} (h : GCI v) (t a : Int) (act : Action) (p : Int)
    (hp : ∀ d, act ≠ .fail d) : GCI (v.schedLib t a act p) := by
  refine ⟨?_, h.2.frame (swv_schedLib v t a act p) (scr_schedLib v t a act p)⟩
  rw [← es_schedLib]
  exact ci_frame h.1 (sv_schedLib ..) (st_schedLib ..) (C05W.bv_schedLib ..) (scr_schedLib ..)
    (hb_schedLib _ _ _ _ _ _ (not_bad_of hp))

theorem GCI.startOrders {v : World} (h : GCI v) (m : Nat) (l : List Order) : GCI (v.startOrders m l) := by
  refine ⟨?_, h.2.frame (swv_startOrders v m l) (scr_startOrders v m l)⟩
  rw [← es_startOrders]
  exact ci_frame h.1 (sv_startOrders ..) (st_startOrders ..) (C05W.bv_startOrders ..)
    (scr_startOrders ..) (hb_startOrders ..)

theorem GCI.procResourceCb {v : World} (h : GCI v) (x : Nat) : GCI (v.procResourceCb x) := by
  refine ⟨?_, h.2.frame (swv_procResourceCb v x) (scr_procResourceCb v x)⟩
  rw [← es_procResourceCb]
  exact ci_frame h.1 (sv_procResourceCb ..) (st_procResourceCb ..) (C05W.bv_procResourceCb ..)
    (scr_procResourceCb ..) (hb_procResourceCb ..)

theorem GCI.runScript {v : World} (h : GCI v) (k : Nat) : GCI (v.runScript k) :=
  ci_es_runScript h.1 h.2 k

/-- an action that runs no script (given as the commutation with `es`) -/
theorem GCI.exec_of {v : World} (h : GCI v) (a : Action) (ha : ActOK (es v []) a)
    (e : (es v []).exec a = es (v.exec a) [])
    (hsw : swv (v.exec a) = swv v) : GCI (v.exec a) := by
  refine ⟨?_, h.2.frame hsw (scr_exec v a)⟩
  rw [← e]
  exact ci_exec _ a h.1 ha

/-! ### maintenance hooks -/

/-- the script a hook of target `tgt` runs (none if the target is a device) -/
def hookScr (start : Bool) (v : World) (tgt : Nat) : Option Nat :=
  match (v.targets.getD tgt default).dev with
  | some _ => none
  | none => if start then (v.targets.getD tgt default).startScript
            else (v.targets.getD tgt default).endScript

theorem hookStart_scr {v : World} {tgt k : Nat} (h : hookScr true v tgt = some k) (tag : Int) :
    v.hookStart tgt tag = (v.addRes (.hook true tgt tag)).runScript k := by
  unfold hookScr at h
  unfold World.hookStart
  dsimp only
  cases hd : (v.targets.getD tgt default).dev with
  | some d => rw [hd] at h; cases h
  | none =>
    rw [hd] at h
    simp only [if_true] at h
    simp only [h]

theorem hookEnd_scr {v : World} {tgt k : Nat} (h : hookScr false v tgt = some k) (tag : Int) :
    v.hookEnd tgt tag = (v.addRes (.hook false tgt tag)).runScript k := by
  unfold hookScr at h
  unfold World.hookEnd
  dsimp only
  cases hd : (v.targets.getD tgt default).dev with
  | some d => rw [hd] at h; cases h
  | none =>
    rw [hd] at h
    simp only [Bool.false_eq_true, if_false] at h
    simp only [h]

theorem es_hookStart_of (v : World) (s : List (List Op)) (tgt : Nat) (tag : Int)
    (h : hookScr true v tgt = none) : (es v s).hookStart tgt tag = es (v.hookStart tgt tag) s := by
  unfold hookScr at h
  unfold World.hookStart
  simp only [es_targets, es_addRes]
  cases hd : (v.targets.getD tgt default).dev with
  | some d => simp only []; exact es_shutdownDev ..
  | none =>
    rw [hd] at h
    simp only [if_true] at h
    simp only [h]

theorem es_hookEnd_of (v : World) (s : List (List Op)) (tgt : Nat) (tag : Int)
    (h : hookScr false v tgt = none) : (es v s).hookEnd tgt tag = es (v.hookEnd tgt tag) s := by
  unfold hookScr at h
  unfold World.hookEnd
  simp only [es_targets, es_addRes]
  cases hd : (v.targets.getD tgt default).dev with
  | some d => simp only []; exact es_restoreDev ..
  | none =>
    rw [hd] at h
    simp only [Bool.false_eq_true, if_false] at h
    simp only [h]

theorem swv_hookStart_of (v : World) (tgt : Nat) (tag : Int) (h : hookScr true v tgt = none) :
    swv (v.hookStart tgt tag) = swv v := by
  unfold hookScr at h
  unfold World.hookStart
  dsimp only
  cases hd : (v.targets.getD tgt default).dev with
  | some d => simp only []; exact swv_shutdownDev ..
  | none =>
    rw [hd] at h
    simp only [if_true] at h
    simp only [h]; rfl

theorem swv_hookEnd_of (v : World) (tgt : Nat) (tag : Int) (h : hookScr false v tgt = none) :
    swv (v.hookEnd tgt tag) = swv v := by
  unfold hookScr at h
  unfold World.hookEnd
  dsimp only
  cases hd : (v.targets.getD tgt default).dev with
  | some d => simp only []; exact swv_restoreDev ..
  | none =>
    rw [hd] at h
    simp only [Bool.false_eq_true, if_false] at h
    simp only [h]; rfl

/-- the pieces of `startWork` -/
def swA (v : World) (m : Nat) (o : Order) : World :=
  (v.addRec (.workOrder 1 m v.now o.target o.tag o.info)).modMaint m
    (fun mm => mm.startCost (v.addRec (.workOrder 1 m v.now o.target o.tag o.info)).now
      ((v.addRec (.workOrder 1 m v.now o.target o.tag o.info)).targetParams o.target o.tag).2.2)

def swB (v0 u : World) (m seq : Nat) (o : Order) : World :=
  u.schedLib (u.now + (v0.targetParams o.target o.tag).1) (u.maints.getD m default).aid
    (.finishWork m seq) pFinishWork

theorem startWork_some {v : World} {m seq : Nat} {o : Order} (ho : (v.maint m).findActive seq = some o) :
    v.startWork m seq = swB v ((swA v m o).hookStart o.target o.tag) m seq o := by
  unfold World.startWork
  rw [ho]
  rfl

theorem GCI.startWork {v : World} (h : GCI v) (m seq : Nat) (ha : ActOK (es v []) (.startWork m seq)) :
    GCI (v.startWork m seq) := by
  cases ho : (v.maint m).findActive seq with
  | none =>
    have e : v.startWork m seq = v.setErr "start-unknown-order" := by
      unfold World.startWork; rw [ho]
    rw [e]; exact h.setErr _
  | some o =>
    have hA : GCI (swA v m o) := (h.addRec _).modMaint m _
    cases hk : hookScr true v o.target with
    | none =>
      -- no script runs: the action commutes with `es`
      have hk' : hookScr true (swA v m o) o.target = none := hk
      have ecomm : (es v []).startWork m seq = es (v.startWork m seq) [] := by
        have ho' : ((es v []).maint m).findActive seq = some o := ho
        rw [startWork_some ho, startWork_some ho']
        show swB v ((es (swA v m o) []).hookStart o.target o.tag) m seq o = _
        rw [es_hookStart_of _ _ _ _ hk']
        unfold swB
        rw [← es_schedLib]
        rfl
      refine ⟨?_, ?_⟩
      · rw [← ecomm]
        exact ci_exec _ (.startWork m seq) h.1 ha
      · rw [startWork_some ho]
        unfold swB
        refine (hA.2.frame (swv_hookStart_of _ _ _ hk') ?_).frame (swv_schedLib ..) (scr_schedLib ..)
        exact scr_hookStart ..
    | some k =>
      rw [startWork_some ho]
      have hk' : hookScr true (swA v m o) o.target = some k := hk
      rw [hookStart_scr hk']
      unfold swB
      exact ((hA.addRes _).runScript k).schedLib _ _ _ _ (fun _ hh => nomatch hh)

/-- the pieces of `finishWork` -/
def fwC (u : World) (m : Nat) (o : Order) : World :=
  let mm := u.maint m
  let mm := { mm with util := mm.util - o.needed, active := mm.active.erase o }
  let u := u.modMaint m (fun _ => mm)
  let u := u.addRec (.workOrder 2 m u.now o.target o.tag o.info)
  let (m', st) := (u.maint m).tryWork
  let u := u.modMaint m (fun _ => m')
  u.startOrders m st

theorem finishWork_some {v : World} {m seq : Nat} {o : Order}
    (ho : (v.maint m).findActive seq = some o) :
    v.finishWork m seq = fwC (v.hookEnd o.target o.tag) m o := by
  unfold World.finishWork
  rw [ho]
  rfl

theorem GCI.fwC {u : World} (h : GCI u) (m : Nat) (o : Order) : GCI (fwC u m o) := by
  unfold C03W.fwC
  dsimp only
  generalize (((u.modMaint m _).addRec _).maint m).tryWork = q
  obtain ⟨m', st⟩ := q
  exact ((((h.modMaint m _).addRec _).modMaint m _).startOrders m st)

theorem es_fwC (u : World) (s : List (List Op)) (m : Nat) (o : Order) :
    fwC (es u s) m o = es (fwC u m o) s := by
  unfold C03W.fwC
  simp only [es_maint, es_modMaint, es_addRec, es_now]
  generalize (((u.modMaint m _).addRec _).maint m).tryWork = q
  obtain ⟨m', st⟩ := q
  simp only [es_modMaint, es_startOrders]

theorem swv_fwC (u : World) (m : Nat) (o : Order) : swv (fwC u m o) = swv u := by
  unfold C03W.fwC
  dsimp only
  generalize (((u.modMaint m _).addRec _).maint m).tryWork = q
  obtain ⟨m', st⟩ := q
  exact swv_startOrders ..

theorem scr_fwC (u : World) (m : Nat) (o : Order) : (fwC u m o).scripts = u.scripts := by
  unfold C03W.fwC
  dsimp only
  generalize (((u.modMaint m _).addRec _).maint m).tryWork = q
  obtain ⟨m', st⟩ := q
  exact scr_startOrders ..

theorem GCI.finishWork {v : World} (h : GCI v) (m seq : Nat)
    (ha : ActOK (es v []) (.finishWork m seq)) : GCI (v.finishWork m seq) := by
  cases ho : (v.maint m).findActive seq with
  | none =>
    have e : v.finishWork m seq = v.setErr "finish-unknown-order" := by
      unfold World.finishWork; rw [ho]
    rw [e]; exact h.setErr _
  | some o =>
    cases hk : hookScr false v o.target with
    | none =>
      have ecomm : (es v []).finishWork m seq = es (v.finishWork m seq) [] := by
        have ho' : ((es v []).maint m).findActive seq = some o := ho
        rw [finishWork_some ho, finishWork_some ho', es_hookEnd_of _ _ _ _ hk, es_fwC]
      refine ⟨?_, ?_⟩
      · rw [← ecomm]
        exact ci_exec _ (.finishWork m seq) h.1 ha
      · rw [finishWork_some ho]
        exact (h.2.frame (swv_hookEnd_of _ _ _ hk) (scr_hookEnd ..)).frame (swv_fwC ..) (scr_fwC ..)
    | some k =>
      rw [finishWork_some ho, hookEnd_scr hk]
      exact ((h.addRes _).runScript k).fwC m o

/-! ### the availability check -/

theorem GCI.scan (n : Nat) : ∀ (v : World) (i : Nat), GCI v → GCI (scanWaiting scanOps n v i) := by
  induction n with
  | zero => intro v i h; exact h
  | succ n ih =>
    intro v i h
    rw [scanWaiting]
    show GCI (match v.rm.waiting[i]? with
      | none => v
      | some (req, cb) =>
        if v.rm.canFulfill req then scanWaiting scanOps n (scanOps.erase (scanOps.call v cb req) i) i
        else scanWaiting scanOps n v (i + 1))
    cases hi : v.rm.waiting[i]? with
    | none => exact h
    | some e =>
      obtain ⟨req, cb⟩ := e
      dsimp only
      split
      · refine ih _ i ?_
        have hcall : GCI (scanOps.call v cb req) := by
          cases cb with
          | script k => exact (h.addRes (.cb k)).runScript k
          | proc d => exact h.procResourceCb d
        exact ⟨ci_frame (v := es (scanOps.call v cb req) [])
            (v' := es (scanOps.erase (scanOps.call v cb req) i) []) hcall.1 rfl rfl rfl rfl rfl,
          hcall.2.frame rfl rfl⟩
      · exact ih v (i + 1) h

theorem GCI.rmCheck {v : World} (h : GCI v) : GCI v.rmCheck := GCI.scan _ v 0 h

/-! ### one event -/

theorem swv_exec_plain (v : World) (a : Action) (h1 : ∀ k, a ≠ .script k) (h2 : a ≠ .rmCheck)
    (h3 : ∀ m o, a ≠ .startWork m o) (h4 : ∀ m o, a ≠ .finishWork m o) :
    swv (v.exec a) = swv v := by
  cases a with
  | terminate => rfl
  | script k => exact absurd rfl (h1 k)
  | finishCycle d => exact swv_finishCycle v d
  | passPart d => exact swv_passPart v d
  | fail d => exact swv_failDev v d
  | releaseIfIdle d => exact swv_releaseIfIdle v d
  | rmCheck => exact absurd rfl h2
  | startWork m o => exact absurd rfl (h3 m o)
  | finishWork m o => exact absurd rfl (h4 m o)
  | schedUpdate sd => exact swv_schedUpdate v sd true
  | periodicSense sn => exact swv_periodicSense v sn
  | unknown n => exact swv_setErr ..

/-- **Every event preserves the invariant of C17W of the world without its scripts** (and the static
data a script run needs). -/
theorem GCI.step {w w' : World} {e : Event} (h : GCI w) (hst : w.step = some (e, w')) : GCI w' := by
  unfold World.step at hst
  split at hst
  · cases hst
  · rename_i e' env' henv
    simp only [Option.some.injEq, Prod.mk.injEq] at hst
    obtain ⟨rfl, rfl⟩ := hst
    have henv0 : (es w []).env.step = some (e', env') := henv
    -- the popped world
    have hpop : GCI ({ w with env := env' } : World) := by
      refine ⟨⟨h.1.inv.of_sv (w := es w []) (w' := es ({ w with env := env' } : World) []) rfl,
        static_pop (es w []) e' env' h.1.stat henv0, fun y hy =>
          C17W.batOK_transport (w := es w []) rfl rfl (fun _ _ => rfl) (h.1.bat y hy)⟩,
        h.2.frame rfl rfl⟩
    have hact : ActOK (es ({ w with env := env' } : World) []) (Action.ofNat e'.act) :=
      static_actOK (es w []) e' env' h.1.stat henv0
    generalize ({ w with env := env' } : World) = w1 at hpop hact
    split
    · cases ha : Action.ofNat e'.act with
      | script k => exact hpop.runScript k
      | startWork m o => rw [ha] at hact; exact hpop.startWork m o hact
      | finishWork m o => rw [ha] at hact; exact hpop.finishWork m o hact
      | rmCheck => exact hpop.rmCheck
      | terminate => exact hpop
      | finishCycle d =>
        rw [ha] at hact
        exact hpop.exec_of _ hact (es_exec w1 [] _ (fun _ hh => nomatch hh) (fun hh => nomatch hh)
          (fun _ _ hh => nomatch hh) (fun _ _ hh => nomatch hh)) (swv_exec_plain w1 _
          (fun _ hh => nomatch hh) (fun hh => nomatch hh) (fun _ _ hh => nomatch hh)
          (fun _ _ hh => nomatch hh))
      | passPart d =>
        rw [ha] at hact
        exact hpop.exec_of _ hact (es_exec w1 [] _ (fun _ hh => nomatch hh) (fun hh => nomatch hh)
          (fun _ _ hh => nomatch hh) (fun _ _ hh => nomatch hh)) (swv_exec_plain w1 _
          (fun _ hh => nomatch hh) (fun hh => nomatch hh) (fun _ _ hh => nomatch hh)
          (fun _ _ hh => nomatch hh))
      | fail d =>
        rw [ha] at hact
        exact hpop.exec_of _ hact (es_exec w1 [] _ (fun _ hh => nomatch hh) (fun hh => nomatch hh)
          (fun _ _ hh => nomatch hh) (fun _ _ hh => nomatch hh)) (swv_exec_plain w1 _
          (fun _ hh => nomatch hh) (fun hh => nomatch hh) (fun _ _ hh => nomatch hh)
          (fun _ _ hh => nomatch hh))
      | releaseIfIdle d =>
        rw [ha] at hact
        exact hpop.exec_of _ hact (es_exec w1 [] _ (fun _ hh => nomatch hh) (fun hh => nomatch hh)
          (fun _ _ hh => nomatch hh) (fun _ _ hh => nomatch hh)) (swv_exec_plain w1 _
          (fun _ hh => nomatch hh) (fun hh => nomatch hh) (fun _ _ hh => nomatch hh)
          (fun _ _ hh => nomatch hh))
      | schedUpdate sd =>
        rw [ha] at hact
        exact hpop.exec_of _ hact (es_exec w1 [] _ (fun _ hh => nomatch hh) (fun hh => nomatch hh)
          (fun _ _ hh => nomatch hh) (fun _ _ hh => nomatch hh)) (swv_exec_plain w1 _
          (fun _ hh => nomatch hh) (fun hh => nomatch hh) (fun _ _ hh => nomatch hh)
          (fun _ _ hh => nomatch hh))
      | periodicSense sn =>
        rw [ha] at hact
        exact hpop.exec_of _ hact (es_exec w1 [] _ (fun _ hh => nomatch hh) (fun hh => nomatch hh)
          (fun _ _ hh => nomatch hh) (fun _ _ hh => nomatch hh)) (swv_exec_plain w1 _
          (fun _ hh => nomatch hh) (fun hh => nomatch hh) (fun _ _ hh => nomatch hh)
          (fun _ _ hh => nomatch hh))
      | unknown n =>
        rw [ha] at hact
        exact hpop.exec_of _ hact (es_exec w1 [] _ (fun _ hh => nomatch hh) (fun hh => nomatch hh)
          (fun _ _ hh => nomatch hh) (fun _ _ hh => nomatch hh)) (swv_exec_plain w1 _
          (fun _ hh => nomatch hh) (fun hh => nomatch hh) (fun _ _ hh => nomatch hh)
          (fun _ _ hh => nomatch hh))
    · exact hpop

end C03W
end SimProc
