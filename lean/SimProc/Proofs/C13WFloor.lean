/-
C13W, part 2: the floor functions that act on ONE device `y` leave the machine view of every other
device `x` alone.
-/
import SimProc.Proofs.C13WView
import SimProc.Proofs.C06WFrame
namespace SimProc
namespace C13W
open World FloorCoreL

section floor
variable (x : Nat) (w : World)

theorem pv_releaseReserved (y : Nat) (hy : y ≠ x) : pvw x (w.releaseReserved y) = pvw x w := by
  unfold World.releaseReserved; pv_auto

theorem pv_procAcquire (y : Nat) (hy : y ≠ x) : pvw x (w.procAcquire y).1 = pvw x w := by
  unfold World.procAcquire; pv_auto

theorem pv_finishCycleHandler (y : Nat) (hy : y ≠ x) : pvw x (w.finishCycleHandler y) = pvw x w := by
  unfold World.finishCycleHandler; pv_auto

theorem pv_finishCycle (y : Nat) (hy : y ≠ x) : pvw x (w.finishCycle y) = pvw x w := by
  cases hk : (w.dev y).kind
  case source =>
    rw [C06W.finishCycle_source_eq w y hk, pv_schedulePass]
    split
    · rw [pv_addHist, pv_modDev _ _ _ _ (Or.inl hy), pv_genPart]
    · rfl
  case sink =>
    unfold World.finishCycle
    simp only [hk]
    rw [pv_notify, pv_modDev _ _ _ _ (Or.inl hy), pv_finishCycleHandler _ _ _ hy]
  case processor =>
    rw [finishCycle_proc w hk]
    unfold World.finishCbs World.finishBook
    dsimp only
    have h0 := pv_finishCycleHandler x w y hy
    split
    · split
      · rw [pv_schedLib, pv_setDev _ _ _ _ (Or.inl hy)]; exact h0
      · rw [pv_setDev _ _ _ _ (Or.inl hy)]; exact h0
    · rw [pv_addRec _ _ _ rfl, pv_foldl_senseOutput, pv_foldl_applyPartCb]
      split
      · rw [pv_schedLib, pv_setDev _ _ _ _ (Or.inl hy)]; exact h0
      · rw [pv_setDev _ _ _ _ (Or.inl hy)]; exact h0
  all_goals
    unfold World.finishCycle
    simp only [hk]
    exact pv_finishCycleHandler x w y hy

theorem pv_scheduleFinish (y : Nat) (hy : y ≠ x) : pvw x (w.scheduleFinish y) = pvw x w := by
  by_cases hc : 0 < w.finishDelay y
  · rw [scheduleFinish_pos w y hc, pv_schedLib, pv_setDev _ _ _ _ (Or.inl hy)]
  · rw [scheduleFinish_nonpos w y (Int.not_lt.1 hc), pv_finishCycle _ _ _ hy,
      pv_setDev _ _ _ _ (Or.inl hy)]

theorem pv_batchGet (y p : Nat) (hy : y ≠ x) : pvw x (C02V.batchGet w y p).1 = pvw x w := by
  unfold C02V.batchGet; pv_auto

theorem pv_batchShell (y : Nat) (hy : y ≠ x) : pvw x (C02V.batchShell w y).1 = pvw x w := by
  unfold C02V.batchShell
  split
  · rfl
  · dsimp only [World.newPart]
    rw [pv_modDev _ _ _ _ (Or.inl hy)]; rfl

theorem pv_batchAdd (y t : Nat) (hy : y ≠ x) : pvw x (C02V.batchAdd w y t) = pvw x w := by
  unfold C02V.batchAdd
  split
  · rw [pv_modDev _ _ _ _ (Or.inl hy)]
  · dsimp only
    split
    · rw [pv_modDev _ _ _ _ (Or.inl hy), pv_modPart, pv_batchShell _ _ _ hy]
    · rw [pv_modPart, pv_batchShell _ _ _ hy]

theorem pv_batcherLoop (f : Nat) : ∀ (w : World) (y : Nat), y ≠ x →
    pvw x (batcherLoop f w y) = pvw x w := by
  induction f with
  | zero => intro w y _; rfl
  | succ f ih =>
    intro w y hy
    rw [C02V.batcherLoop_succ]
    split
    · rw [ih _ _ hy, pv_batchAdd _ _ _ _ hy, pv_batchGet _ _ _ _ hy]
    · rfl

theorem pv_tryMove (y : Nat) (hy : y ≠ x) : pvw x (w.tryMove y) = pvw x w := by
  unfold World.tryMove
  dsimp only
  repeat' split
  all_goals first
    | rfl
    | (rw [pv_schedulePass, pv_notify, pv_setDev _ _ _ _ (Or.inl hy)])
    | (rw [pv_notify, pv_setDev _ _ _ _ (Or.inl hy)])
    | (rw [pv_setDev _ _ _ _ (Or.inl hy)])
    | (rw [pv_schedulePass, pv_batcherLoop _ _ _ _ hy])
    | (rw [pv_batcherLoop _ _ _ _ hy])
    | (rw [pv_scheduleFinish _ _ _ hy, pv_setDev _ _ _ _ (Or.inl hy)])
    | (rw [pv_scheduleFinish _ _ _ hy])

/-- the second half of `_on_received_new_part` -/
def recvTail (w1 : World) (y p : Nat) : World :=
  let w := w1.addRec (.received y w1.now p (w1.part p).quality (w1.partValue p))
  let w := (w.dev y).recvCbs.foldl (fun w c => w.applyPartCb y p c) w
  if (w.dev y).output.isNone then w.tryMove y else w

/-- the first half -/
def recvHead (w : World) (y p : Nat) : World :=
  match (w.dev y).kind with
  | .sink =>
    w.setDev y { w.dev y with
      recvCount := (w.dev y).recvCount + w.leafCount p
      recvValue := (w.dev y).recvValue + w.partValue p
      val := (w.dev y).val.addValue lblCollected w.now (w.partValue p)
      collected := if (w.dev y).collect then (w.dev y).collected ++ [p] else (w.dev y).collected }
  | .buffer =>
    (w.setDev y { w.dev y with level := (w.dev y).level + w.leafCount p }).addRec
      (.level y (w.setDev y { w.dev y with level := (w.dev y).level + w.leafCount p }).now
        ((w.setDev y { w.dev y with level := (w.dev y).level + w.leafCount p }).dev y).level)
  | _ => w

theorem onReceived_eq (y p : Nat) : w.onReceived y p = recvTail (recvHead w y p) y p := rfl

theorem pv_recvTail (y p : Nat) (hy : y ≠ x) : pvw x (recvTail w y p) = pvw x w := by
  unfold recvTail
  dsimp only
  split
  · rw [pv_tryMove _ _ _ hy, pv_foldl_applyPartCb, pv_addRec _ _ _ rfl]
  · rw [pv_foldl_applyPartCb, pv_addRec _ _ _ rfl]

theorem pv_recvHead (y p : Nat) (hy : y ≠ x) : pvw x (recvHead w y p) = pvw x w := by
  unfold recvHead
  split
  · rw [pv_setDev _ _ _ _ (Or.inl hy)]
  · rw [pv_addRec _ _ _ rfl, pv_setDev _ _ _ _ (Or.inl hy)]
  · rfl

theorem pv_onReceived (y p : Nat) (hy : y ≠ x) : pvw x (w.onReceived y p) = pvw x w := by
  rw [onReceived_eq, pv_recvTail _ _ _ _ hy, pv_recvHead _ _ _ _ hy]

theorem pv_acceptPart (y p : Nat) (hy : y ≠ x) : pvw x (w.acceptPart y p) = pvw x w := by
  unfold World.acceptPart
  dsimp only
  rw [pv_onReceived _ _ _ _ hy, pv_setWaiting, pv_addHist, pv_modDev _ _ _ _ (Or.inl hy)]
  split <;> rfl

theorem pv_shutdownDev (y : Nat) (f : Bool) (l : Option Nat) (hy : y ≠ x) :
    pvw x (w.shutdownDev y f l) = pvw x w := by
  unfold World.shutdownDev
  dsimp only
  split
  · split
    · rw [pv_foldl x _ _ _ (fun w k => pv_addRes x w _)]; rfl
    · rfl
  · rw [pv_foldl x _ _ _ (fun w k => pv_addRes x w _), pv_setWaiting, pv_setDev _ _ _ _ (Or.inl hy)]
    split
    · rw [pv_cancel, pv_setDev _ _ _ _ (Or.inl hy)]
    · rw [pv_pause, pv_setDev _ _ _ _ (Or.inl hy)]

theorem pv_restoreDev (y : Nat) (hy : y ≠ x) : pvw x (w.restoreDev y) = pvw x w := by
  unfold World.restoreDev
  dsimp only
  split
  · rfl
  · rw [pv_foldl x _ _ _ (fun w k => pv_addRes x w _)]
    have h1 : pvw x ((w.setDev y { w.dev y with shutDown := false, lastRestore := some w.now }).envOp
        (.unpause (w.dev y).aid)) = pvw x w := by
      rw [pv_unpause, pv_setDev _ _ _ _ (Or.inl hy)]
    repeat' split
    all_goals first
      | (rw [pv_modDev _ _ _ _ (Or.inl hy), pv_schedulePass]; exact h1)
      | (rw [pv_modDev _ _ _ _ (Or.inl hy), pv_notify]; exact h1)
      | (rw [pv_modDev _ _ _ _ (Or.inl hy)]; exact h1)
      | (rw [pv_schedulePass]; exact h1)
      | (rw [pv_notify]; exact h1)
      | exact h1

theorem pv_releaseIfIdle (y : Nat) (hy : y ≠ x) : pvw x (w.releaseIfIdle y) = pvw x w := by
  unfold World.releaseIfIdle
  split
  · exact pv_releaseReserved x w y hy
  · rfl

end floor

end C13W
end SimProc
