/-
C08W (closed-world routing invariant), part 1: the configured graph as a `Topo`, the hand-over
chains `GChain` a single `give` can write into a routing history, and walks (`Walk`: with the
group-path stack threaded through, `WalkU`: without).
-/
import SimProc.Proofs.StaticWorld
namespace SimProc
namespace C08W
open World C02V

/-- What routing depends on: kinds, configured downstream lists, group of a device, input device of
a group. -/
structure Topo where
  kind : Nat → Kind
  down : Nat → List Nat
  group : Nat → Nat
  gin : Nat → Nat

def topo (w : World) : Topo :=
  ⟨fun x => (w.dev x).kind, fun x => (w.dev x).down, fun x => (w.dev x).group,
   fun g => (w.groups.getD g default).input⟩

def topoOfST (t : ST) : Topo := ⟨t.kind, t.down, t.group, fun g => t.gin.getD g 0⟩

theorem topo_eq_st (w : World) : topo w = topoOfST (st w) := by
  unfold topo topoOfST
  congr 1
  · funext x; exact (st_kind w x).symm
  · funext x; exact (st_down w x).symm
  · funext x; exact (st_group w x).symm
  · funext g; exact (st_gin w g).symm

theorem topoOfST_topo (t : ST) : topoOfST t.topo = topoOfST t := by
  unfold topoOfST
  congr 1
  · funext x; exact topo_kind t x
  · funext x; exact topo_down t x
  · funext x; exact topo_group t x

theorem topo_eq_tv (w : World) : topo w = topoOfST (tv w) := by
  rw [topo_eq_st]; unfold tv; rw [topoOfST_topo]

theorem topo_of_st {w w' : World} (h : st w' = st w) : topo w' = topo w := by
  rw [topo_eq_st, topo_eq_st, h]

theorem topo_of_tv {w w' : World} (h : tv w' = tv w) : topo w' = topo w := by
  rw [topo_eq_tv, topo_eq_tv, h]

/-! ### hand-over chains -/

/-- `GChain t y s c s'`: offering a part whose group-path stack is `s` to device `y` can end in an
acceptance that appends exactly `c` to the routing history and leaves the stack `s'`.  The last
element of `c` is the accepting device (it has a slot of its own); before it come the decision
gates and group paths passed on the way (group inputs and outputs do not sign the history).  A
group path pushes itself; a group output pops the innermost path `g` and continues with the
configured downstream devices of exactly that `g`. -/
inductive GChain (t : Topo) : Nat → List Nat → List Nat → List Nat → Prop
  | slot (y : Nat) (s : List Nat) : isHandlerLike (t.kind y) = true → GChain t y s [y] s
  | gate (y : Nat) (s : List Nat) (y' : Nat) (c s' : List Nat) : t.kind y = .gate → y' ∈ t.down y →
      GChain t y' s c s' → GChain t y s (y :: c) s'
  | ginput (y : Nat) (s : List Nat) (y' : Nat) (c s' : List Nat) : t.kind y = .ginput →
      y' ∈ t.down y → GChain t y' s c s' → GChain t y s c s'
  | gpath (y : Nat) (s c s' : List Nat) : t.kind y = .gpath →
      GChain t (t.gin (t.group y)) (s ++ [y]) c s' → GChain t y s (y :: c) s'
  | goutput (y : Nat) (s : List Nat) (g y' : Nat) (c s' : List Nat) : t.kind y = .goutput →
      y' ∈ t.down g → GChain t y' s c s' → GChain t y (s ++ [g]) c s'

/-- A chain ends with the accepting device, which has a slot of its own. -/
theorem GChain.last {t : Topo} {y : Nat} {s c s' : List Nat} (h : GChain t y s c s') :
    ∃ c0 z, c = c0 ++ [z] ∧ isHandlerLike (t.kind z) = true := by
  induction h with
  | slot y s hk => exact ⟨[], y, rfl, hk⟩
  | gate y s y' c s' _ _ _ ih =>
    obtain ⟨c0, z, rfl, hz⟩ := ih; exact ⟨y :: c0, z, rfl, hz⟩
  | ginput y s y' c s' _ _ _ ih => exact ih
  | gpath y s c s' _ _ ih =>
    obtain ⟨c0, z, rfl, hz⟩ := ih; exact ⟨y :: c0, z, rfl, hz⟩
  | goutput y s g y' c s' _ _ _ ih => exact ih

/-- Everything before the last element of a chain is a decision gate or a group path. -/
theorem GChain.inner {t : Topo} {y : Nat} {s c s' : List Nat} (h : GChain t y s c s') :
    ∀ d ∈ c.dropLast, t.kind d = .gate ∨ t.kind d = .gpath := by
  induction h with
  | slot y s hk => intro d hd; simp at hd
  | gate y s y' c s' hk _ hc ih =>
    obtain ⟨c0, z, rfl, _⟩ := hc.last
    intro d hd
    have : (y :: (c0 ++ [z])).dropLast = y :: c0 := by
      rw [← List.cons_append, List.dropLast_concat]
    rw [this] at hd
    rcases List.mem_cons.1 hd with rfl | hd
    · exact Or.inl hk
    · exact ih d (by rw [List.dropLast_concat]; exact hd)
  | ginput y s y' c s' _ _ _ ih => exact ih
  | gpath y s c s' hk hc ih =>
    obtain ⟨c0, z, rfl, _⟩ := hc.last
    intro d hd
    have : (y :: (c0 ++ [z])).dropLast = y :: c0 := by
      rw [← List.cons_append, List.dropLast_concat]
    rw [this] at hd
    rcases List.mem_cons.1 hd with rfl | hd
    · exact Or.inr hk
    · exact ih d (by rw [List.dropLast_concat]; exact hd)
  | goutput y s g y' c s' _ _ _ ih => exact ih

/-! ### walks -/

/-- The last element of `o :: h`. -/
def lastOf (o : Nat) (h : List Nat) : Nat := h.getLast?.getD o

@[simp] theorem lastOf_nil (o : Nat) : lastOf o [] = o := rfl
@[simp] theorem lastOf_concat (o : Nat) (h : List Nat) (z : Nat) : lastOf o (h ++ [z]) = z := by
  simp [lastOf]
theorem lastOf_append_concat (o : Nat) (h c : List Nat) (z : Nat) :
    lastOf o (h ++ (c ++ [z])) = z := by
  rw [← List.append_assoc]; exact lastOf_concat _ _ _
theorem lastOf_cons (o a : Nat) (h : List Nat) : lastOf o (a :: h) = lastOf a h := by
  cases h with
  | nil => simp [lastOf]
  | cons b h =>
    unfold lastOf
    rw [List.getLast?_cons_cons]
    cases hh : (b :: h).getLast? with
    | none => simp at hh
    | some v => rfl

/-- `Walk t o s h s'`: a part that sits in (the slot of) device `o` with group-path stack `s` can
get the history continuation `h` — a sequence of hand-over chains, each starting at a configured
downstream device of the device holding the part — and then has the stack `s'`. -/
inductive Walk (t : Topo) (o : Nat) (s : List Nat) : List Nat → List Nat → Prop
  | nil : Walk t o s [] s
  | snoc (h s1 : List Nat) (y : Nat) (c s2 : List Nat) : Walk t o s h s1 → y ∈ t.down (lastOf o h) →
      GChain t y s1 c s2 → Walk t o s (h ++ c) s2

/-- The same without threading the stacks: every chain is a possible chain for SOME stack of group
paths. -/
inductive WalkU (t : Topo) (o : Nat) : List Nat → Prop
  | nil : WalkU t o []
  | snoc (h : List Nat) (y : Nat) (s1 c s2 : List Nat) : WalkU t o h → y ∈ t.down (lastOf o h) →
      (∀ g ∈ s1, t.kind g = .gpath) → GChain t y s1 c s2 → WalkU t o (h ++ c)

/-- The stack of a walk that starts with the empty stack consists of group paths of the history. -/
theorem GChain.stack_mem {t : Topo} {y : Nat} {s c s' : List Nat} (h : GChain t y s c s') :
    ∀ g ∈ s', g ∈ s ∨ (g ∈ c ∧ t.kind g = .gpath) := by
  induction h with
  | slot y s hk => intro g hg; exact Or.inl hg
  | gate y s y' c s' _ _ _ ih =>
    intro g hg
    rcases ih g hg with h | h
    · exact Or.inl h
    · exact Or.inr ⟨List.mem_cons_of_mem _ h.1, h.2⟩
  | ginput y s y' c s' _ _ _ ih => exact ih
  | gpath y s c s' hk _ ih =>
    intro g hg
    rcases ih g hg with h | h
    · rcases List.mem_append.1 h with h | h
      · exact Or.inl h
      · have : g = y := by simpa using h
        subst this
        exact Or.inr ⟨List.mem_cons_self .., hk⟩
    · exact Or.inr ⟨List.mem_cons_of_mem _ h.1, h.2⟩
  | goutput y s g' y' c s' _ _ _ ih =>
    intro g hg
    rcases ih g hg with h | h
    · exact Or.inl (List.mem_append_left _ h)
    · exact Or.inr h

theorem Walk.stack_mem {t : Topo} {o : Nat} {h s' : List Nat} (w : Walk t o [] h s') :
    ∀ g ∈ s', g ∈ h ∧ t.kind g = .gpath := by
  induction w with
  | nil => intro g hg; cases hg
  | snoc h s1 y c s2 _ _ hc ih =>
    intro g hg
    rcases hc.stack_mem g hg with h1 | h1
    · have := ih g h1
      exact ⟨List.mem_append_left _ this.1, this.2⟩
    · exact ⟨List.mem_append_right _ h1.1, h1.2⟩

theorem Walk.toU {t : Topo} {o : Nat} {h s' : List Nat} (w : Walk t o [] h s') : WalkU t o h := by
  induction w with
  | nil => exact WalkU.nil
  | snoc h s1 y c s2 hw hy hc ih =>
    exact WalkU.snoc h y s1 c s2 ih hy (fun g hg => (hw.stack_mem g hg).2) hc

end C08W
end SimProc
