/-
`Model/Floor.lean` never schedules the failure of a device: the set of pending bad actions
(failures of sinks) is unchanged by every floor function.
-/
import SimProc.Proofs.StaticEnv
import SimProc.Proofs.FloorSt
namespace SimProc
namespace C02V
open World

/-- the action code `n` is the failure of a device in `sink` -/
def badAct (sink : Nat → Prop) (n : Nat) : Prop := ∃ d, Action.ofNat n = .fail d ∧ sink d

theorem ofNat_toNat_fail (a : Action) (d : Nat) (h : Action.ofNat a.toNat = .fail d) : a = .fail d := by
  cases a with
  | terminate => simp [Action.toNat, Action.ofNat] at h
  | script k =>
    have : (1 + 16 * k) % 16 = 1 := by omega
    simp [Action.toNat, Action.ofNat, this] at h
  | finishCycle k =>
    have : (2 + 16 * k) % 16 = 2 := by omega
    simp [Action.toNat, Action.ofNat, this] at h
  | passPart k =>
    have : (3 + 16 * k) % 16 = 3 := by omega
    simp [Action.toNat, Action.ofNat, this] at h
  | fail k =>
    have h1 : (4 + 16 * k) % 16 = 4 := by omega
    have h2 : (4 + 16 * k) / 16 = k := by omega
    simp [Action.toNat, Action.ofNat, h1, h2] at h
    rw [h]
  | releaseIfIdle k =>
    have : (5 + 16 * k) % 16 = 5 := by omega
    simp [Action.toNat, Action.ofNat, this] at h
  | rmCheck => simp [Action.toNat, Action.ofNat] at h
  | startWork m o =>
    have : (7 + 16 * (m + 256 * o)) % 16 = 7 := by omega
    simp [Action.toNat, Action.ofNat, this] at h
  | finishWork m o =>
    have : (8 + 16 * (m + 256 * o)) % 16 = 8 := by omega
    simp [Action.toNat, Action.ofNat, this] at h
  | schedUpdate k =>
    have : (9 + 16 * k) % 16 = 9 := by omega
    simp [Action.toNat, Action.ofNat, this] at h
  | periodicSense k =>
    have : (10 + 16 * k) % 16 = 10 := by omega
    simp [Action.toNat, Action.ofNat, this] at h
  | unknown k =>
    have : (15 + 16 * k) % 16 = 15 := by omega
    simp [Action.toNat, Action.ofNat, this] at h

theorem not_bad_of_not_fail (sink : Nat → Prop) (a : Action) (h : ∀ d, a ≠ .fail d) : ¬ badAct sink a.toNat := by
  rintro ⟨d, hd, _⟩
  exact h d (ofNat_toNat_fail a d hd)

theorem not_bad_fail (sink : Nat → Prop) (d : Nat) (h : ¬ sink d) : ¬ badAct sink (Action.fail d).toNat := by
  rintro ⟨d', hd, hs⟩
  have := ofNat_toNat_fail _ _ hd
  cases this; exact h hs

/-- declare a frame lemma as a rewrite step of `frame` -/
macro "frame_lemma1" a:ident : command =>
  `(macro_rules | `(tactic| fr_step) => `(tactic| rw [$a:ident]))

macro_rules | `(tactic| fr_step) => `(tactic| first
  | rw [hb_setErr] | rw [hb_addRec] | rw [hb_addRes] | rw [hb_setDev] | rw [hb_modDev] | rw [hb_modPart]
  | rw [hb_pause] | rw [hb_unpause] | rw [hb_cancel]
  | rw [hb_schedLib]
  | (apply not_bad_of_not_fail; intro _ h; cases h)
  | rw [foldl_proj (HasBad _)])

section
variable (sink : Nat → Prop) (w : World)

theorem hb_rmEffects (recs : List ResRec) (c : Bool) :
    HasBad (badAct sink) (w.rmEffects recs c) = HasBad (badAct sink) w := by
  unfold World.rmEffects; frame
frame_lemma1 hb_rmEffects

theorem hb_setWaiting (x : Nat) (a b : Bool) :
    HasBad (badAct sink) (w.setWaiting x a b) = HasBad (badAct sink) w := by
  unfold World.setWaiting; frame
frame_lemma1 hb_setWaiting

theorem hb_schedulePass (x : Nat) (o : Int) :
    HasBad (badAct sink) (w.schedulePass x o) = HasBad (badAct sink) w := by
  unfold World.schedulePass; frame
frame_lemma1 hb_schedulePass

end

theorem notify_proj {γ : Type} (π : World → γ)
    (hSW : ∀ w x a b, π (setWaiting w x a b) = π w) (hSP : ∀ w x o, π (schedulePass w x o) = π w)
    (hE : ∀ w m, π (setErr w m) = π w) (f : Nat) :
    ∀ (w : World) (x : Nat), π (notifyUp f w x) = π w ∧ π (spaceAvail f w x) = π w := by
  induction f with
  | zero => intro w x; exact ⟨by unfold notifyUp; exact hE .., by unfold spaceAvail; exact hE ..⟩
  | succ f ih =>
    intro w x
    have hup : ∀ (w : World) (l : List Nat), π (l.foldl (fun w u => spaceAvail f w u) w) = π w :=
      fun w l => foldl_proj π _ l w (fun w a => (ih w a).2)
    have hnu : ∀ (w : World) (l : List Nat), π (l.foldl (fun w u => notifyUp f w u) w) = π w :=
      fun w l => foldl_proj π _ l w (fun w a => (ih w a).1)
    have h1 : π (notifyUp (f + 1) w x) = π w := by
      unfold notifyUp
      simp only []
      repeat' split
      all_goals first | rfl | (rw [hup, hSW]) | exact hnu .. | exact hup ..
    refine ⟨h1, ?_⟩
    unfold spaceAvail
    simp only []
    repeat' split
    all_goals first | rfl | exact (ih w x).1 | exact (ih _ _).2 | exact hSP ..

section
variable (sink : Nat → Prop) (w : World)

theorem hb_notify (x : Nat) : HasBad (badAct sink) (w.notify x) = HasBad (badAct sink) w :=
  (notify_proj _ (hb_setWaiting sink) (hb_schedulePass sink) (hb_setErr _) _ w x).1
theorem hb_spaceAvailable (x : Nat) : HasBad (badAct sink) (w.spaceAvailable x) = HasBad (badAct sink) w :=
  (notify_proj _ (hb_setWaiting sink) (hb_schedulePass sink) (hb_setErr _) _ w x).2
frame_lemma1 hb_notify
frame_lemma1 hb_spaceAvailable

theorem hb_releaseReserved (x : Nat) :
    HasBad (badAct sink) (w.releaseReserved x) = HasBad (badAct sink) w := by
  unfold World.releaseReserved; frame
frame_lemma1 hb_releaseReserved
theorem hb_procAcquire (x : Nat) :
    HasBad (badAct sink) (w.procAcquire x).1 = HasBad (badAct sink) w := by
  unfold World.procAcquire; frame
frame_lemma1 hb_procAcquire
theorem hb_applyPartCb (x p : Nat) (c : PartCb) :
    HasBad (badAct sink) (w.applyPartCb x p c) = HasBad (badAct sink) w := by
  unfold World.applyPartCb; frame
frame_lemma1 hb_applyPartCb
theorem hb_senseOutput (s p : Nat) :
    HasBad (badAct sink) (w.senseOutput s p) = HasBad (badAct sink) w := by
  unfold World.senseOutput; frame
frame_lemma1 hb_senseOutput
theorem hb_addHist (p d : Nat) : HasBad (badAct sink) (w.addHist p d) = HasBad (badAct sink) w := by
  unfold World.addHist; frame
frame_lemma1 hb_addHist
theorem hb_dropHist (p : Nat) : HasBad (badAct sink) (w.dropHist p) = HasBad (badAct sink) w := by
  unfold World.dropHist; frame
frame_lemma1 hb_dropHist
theorem hb_shutdownDev (x : Nat) (f : Bool) (l : Option Nat) :
    HasBad (badAct sink) (w.shutdownDev x f l) = HasBad (badAct sink) w := by
  unfold World.shutdownDev; frame
frame_lemma1 hb_shutdownDev
theorem hb_restoreDev (x : Nat) : HasBad (badAct sink) (w.restoreDev x) = HasBad (badAct sink) w := by
  unfold World.restoreDev; frame
frame_lemma1 hb_restoreDev
theorem hb_releaseIfIdle (x : Nat) : HasBad (badAct sink) (w.releaseIfIdle x) = HasBad (badAct sink) w := by
  unfold World.releaseIfIdle; frame
frame_lemma1 hb_releaseIfIdle
theorem hb_procResourceCb (x : Nat) : HasBad (badAct sink) (w.procResourceCb x) = HasBad (badAct sink) w := by
  unfold World.procResourceCb; frame
frame_lemma1 hb_procResourceCb
theorem hb_setBlock (x : Nat) (b : Bool) : HasBad (badAct sink) (w.setBlock x b) = HasBad (badAct sink) w := by
  unfold World.setBlock; frame
frame_lemma1 hb_setBlock
theorem hb_adjustParts (x : Nat) (v : Int) :
    HasBad (badAct sink) (w.adjustParts x v) = HasBad (badAct sink) w := by
  unfold World.adjustParts; frame
frame_lemma1 hb_adjustParts

theorem hb_finishCycleHandler (x : Nat) :
    HasBad (badAct sink) (w.finishCycleHandler x) = HasBad (badAct sink) w := by
  unfold World.finishCycleHandler; frame
frame_lemma1 hb_finishCycleHandler
theorem hb_genPart (x : Nat) : HasBad (badAct sink) (w.genPart x).1 = HasBad (badAct sink) w := by
  cases h : ((w.dev x).genBatch == 0)
  · rw [genPart_batch w x h]; rfl
  · rw [genPart_leaf w x h]; rfl
frame_lemma1 hb_genPart
theorem hb_finishCycle (x : Nat) : HasBad (badAct sink) (w.finishCycle x) = HasBad (badAct sink) w := by
  unfold World.finishCycle; frame
frame_lemma1 hb_finishCycle
theorem hb_scheduleFinish (x : Nat) : HasBad (badAct sink) (w.scheduleFinish x) = HasBad (badAct sink) w := by
  unfold World.scheduleFinish; frame
frame_lemma1 hb_scheduleFinish
theorem hb_newPart (r : PartRec) : HasBad (badAct sink) (w.newPart r).1 = HasBad (badAct sink) w := rfl
frame_lemma1 hb_newPart
theorem hb_batchGet (x p : Nat) : HasBad (badAct sink) (batchGet w x p).1 = HasBad (badAct sink) w := by
  unfold batchGet; frame
frame_lemma1 hb_batchGet
theorem hb_batchShell (x : Nat) : HasBad (badAct sink) (batchShell w x).1 = HasBad (badAct sink) w := by
  unfold batchShell; frame
frame_lemma1 hb_batchShell
theorem hb_batchAdd (x t : Nat) : HasBad (badAct sink) (batchAdd w x t) = HasBad (badAct sink) w := by
  unfold batchAdd; frame
frame_lemma1 hb_batchAdd

end

theorem hb_batcherLoop (sink : Nat → Prop) (f : Nat) : ∀ (w : World) (x : Nat),
    HasBad (badAct sink) (batcherLoop f w x) = HasBad (badAct sink) w := by
  induction f with
  | zero => intro w x; rfl
  | succ f ih =>
    intro w x; rw [batcherLoop_succ]
    split
    · rw [ih]; frame
    · rfl
frame_lemma1 hb_batcherLoop

section
variable (sink : Nat → Prop) (w : World)

theorem hb_tryMove (x : Nat) : HasBad (badAct sink) (w.tryMove x) = HasBad (badAct sink) w := by
  unfold World.tryMove; frame
frame_lemma1 hb_tryMove
theorem hb_onReceived (x p : Nat) : HasBad (badAct sink) (w.onReceived x p) = HasBad (badAct sink) w := by
  unfold World.onReceived; frame
frame_lemma1 hb_onReceived
theorem hb_acceptPart (x p : Nat) : HasBad (badAct sink) (w.acceptPart x p) = HasBad (badAct sink) w := by
  unfold World.acceptPart; frame
frame_lemma1 hb_acceptPart

theorem hb_give (f : Nat) (x p : Nat) : HasBad (badAct sink) (give f w x p).1 = HasBad (badAct sink) w :=
  give_proj _ (hb_acceptPart sink) (hb_procAcquire sink) (hb_setErr _) (hb_addHist sink) (hb_dropHist sink)
    (fun _ _ _ => rfl) f w x p
theorem hb_tryGive (l : List Nat) (p : Nat) :
    HasBad (badAct sink) (tryList givePart w l p).1 = HasBad (badAct sink) w :=
  tryList_proj _ _ (fun w y p => hb_give sink w _ y p) l w p
theorem hb_passHandler (x : Nat) : HasBad (badAct sink) (w.passHandler x) = HasBad (badAct sink) w :=
  passHandler_proj _ (hb_tryGive sink) (fun _ _ => rfl) (fun _ _ => rfl) (hb_notify sink) w x
theorem hb_bufferLoop (f : Nat) (x : Nat) : HasBad (badAct sink) (bufferLoop f w x) = HasBad (badAct sink) w :=
  bufferLoop_proj _ (hb_tryGive sink) (fun _ _ _ => rfl) (fun _ _ => rfl) f w x
frame_lemma1 hb_passHandler
frame_lemma1 hb_bufferLoop

theorem hb_passPart (x : Nat) : HasBad (badAct sink) (w.passPart x) = HasBad (badAct sink) w := by
  unfold World.passPart; frame
theorem hb_failDev (x : Nat) : HasBad (badAct sink) (w.failDev x) = HasBad (badAct sink) w := by
  unfold World.failDev; frame
theorem hb_initDev (x : Nat) : HasBad (badAct sink) (w.initDev x) = HasBad (badAct sink) w := by
  unfold World.initDev; frame

end
end C02V
end SimProc
