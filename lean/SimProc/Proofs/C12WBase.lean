/-
C12W, part 2: the static class `S`, the frame key `FK` (maintainers, targets, scripts, device asset
ids, hook results, work-order records), the frame relation `Fr w w'` ("`w'` has the frame key of
`w` and its queue is the queue of `w` after quiet operations") and the peeling tactic
(`fr_step` / `fr_auto`, in the style of `C01WBase`).
-/
import SimProc.Proofs.C12WEnv
import Lean

namespace SimProc
namespace C12W
open World FloorCoreL
open Lean Elab Tactic Meta

/-! ### the static class -/

def isHook : Res → Bool
  | .hook .. => true
  | _ => false

def isWO : Rec → Bool
  | .workOrder .. => true
  | _ => false

/-- The asset ids of the maintainers. -/
def aids (w : World) : List Int := w.maints.map (·.aid)

/-- The asset id of maintainer `m`. -/
def aidOf (w : World) (m : Nat) : Int := (w.maints.getD m default).aid

/-- Scripted operations of the class: no `create`; `pause` / `unpause` / `cancel` only of asset
ids that are not a maintainer's; work orders only for existing maintainers; durations and needed
capacities reported by targets are never negative. -/
def opOK (A : List Int) (nM : Nat) : Op → Bool
  | .create _ => false
  | .pause a => !A.contains a
  | .unpause a => !A.contains a
  | .cancel a => !A.contains a
  | .workOrder m _ _ _ => decide (m < nM)
  | .setParams _ _ dur need _ => decide (0 ≤ dur) && decide (0 ≤ need)
  | _ => true

def paramsOK (t : Target) : Bool :=
  t.params.all (fun p => decide (0 ≤ p.2.1) && decide (0 ≤ p.2.2.1))

abbrev FKey := List MaintW × List Target × List (List Op) × List Int × List Res × List Rec

/-- What the frame relation keeps exactly. -/
def FK (w : World) : FKey :=
  (w.maints, w.targets, w.scripts, w.devs.map (·.aid), w.results.filter isHook, w.recs.filter isWO)

def SK (k : FKey) : Bool :=
  k.2.2.1.all (fun l => l.all (opOK (k.1.map (·.aid)) k.1.length)) &&
  (k.1.map (·.aid)).all (fun a => a != 0 && !k.2.2.2.1.contains a) &&
  decide (k.1.length ≤ 256) &&
  k.2.1.all paramsOK

/-- **The static class.**  Scripts as in `opOK`; the asset ids of the maintainers are not asset
ids of devices (nor 0, the id of the default device a dangling target refers to); at most 256
maintainers (the action code of the model keeps the maintainer index modulo 256); targets report
non-negative durations and capacities. -/
def S (w : World) : Prop := SK (FK w) = true

instance : DecidablePred S := fun _ => inferInstanceAs (Decidable (_ = true))

theorem S.of_FK {w w' : World} (h : FK w' = FK w) (hs : S w) : S w' := by
  unfold S; rw [h]; exact hs

theorem FK_maints {w w' : World} (h : FK w' = FK w) : w'.maints = w.maints := congrArg Prod.fst h
theorem FK_targets {w w' : World} (h : FK w' = FK w) : w'.targets = w.targets :=
  congrArg (fun q => q.2.1) h
theorem FK_scripts {w w' : World} (h : FK w' = FK w) : w'.scripts = w.scripts :=
  congrArg (fun q => q.2.2.1) h
theorem FK_daids {w w' : World} (h : FK w' = FK w) :
    w'.devs.map (·.aid) = w.devs.map (·.aid) := congrArg (fun q => q.2.2.2.1) h
theorem FK_hooks {w w' : World} (h : FK w' = FK w) :
    w'.results.filter isHook = w.results.filter isHook := congrArg (fun q => q.2.2.2.2.1) h
theorem FK_wos {w w' : World} (h : FK w' = FK w) :
    w'.recs.filter isWO = w.recs.filter isWO := congrArg (fun q => q.2.2.2.2.2) h
theorem FK_aids {w w' : World} (h : FK w' = FK w) : aids w' = aids w := by
  unfold aids; rw [FK_maints h]

theorem S.scripts {w : World} (h : S w) :
    ∀ l ∈ w.scripts, ∀ op ∈ l, opOK (aids w) w.maints.length op = true := by
  unfold S SK at h
  simp only [Bool.and_eq_true, List.all_eq_true] at h
  exact h.1.1.1

theorem S.aid_ne {w : World} (h : S w) : ∀ a ∈ aids w, a ≠ 0 ∧ a ∉ w.devs.map (·.aid) := by
  unfold S SK at h
  simp only [Bool.and_eq_true, List.all_eq_true] at h
  intro a ha
  have := h.1.1.2 a ha
  simp only [bne_iff_ne, ne_eq, Bool.not_eq_true', List.contains_eq_mem, decide_eq_false_iff_not]
    at this
  exact this

theorem S.len {w : World} (h : S w) : w.maints.length ≤ 256 := by
  unfold S SK at h
  simp only [Bool.and_eq_true, List.all_eq_true, decide_eq_true_eq] at h
  exact h.1.2

theorem S.targets {w : World} (h : S w) : ∀ t ∈ w.targets, paramsOK t = true := by
  unfold S SK at h
  simp only [Bool.and_eq_true, List.all_eq_true] at h
  exact h.2

/-- No device (existing or not) carries the asset id of a maintainer. -/
theorem S.dev_aid {w : World} (h : S w) (x : Nat) : (w.dev x).aid ∉ aids w := by
  intro hm
  have := h.aid_ne _ hm
  unfold World.dev at this hm
  rw [List.getD_eq_getElem?_getD] at this hm
  cases hx : w.devs[x]? with
  | none => rw [hx] at this; exact this.1 rfl
  | some d =>
    rw [hx] at this
    exact this.2 (List.mem_map.2 ⟨d, List.mem_of_getElem? hx, rfl⟩)

/-- Targets report non-negative durations and needed capacities. -/
theorem S.params {w : World} (h : S w) (tgt : Nat) (tag : Int) :
    0 ≤ (w.targetParams tgt tag).1 ∧ 0 ≤ (w.targetParams tgt tag).2.1 := by
  unfold World.targetParams
  split
  · rename_i d n c hf
    have hm := List.mem_of_find?_eq_some hf
    rw [List.getD_eq_getElem?_getD] at hm
    cases ht : w.targets[tgt]? with
    | none =>
      rw [ht] at hm
      have hd : (default : Target).params = [] := rfl
      simp only [Option.getD_none, hd] at hm
      cases hm
    | some t =>
      rw [ht] at hm
      have := h.targets t (List.mem_of_getElem? ht)
      unfold paramsOK at this
      rw [List.all_eq_true] at this
      have := this _ hm
      simpa using this
  · simp

/-! ### the frame relation -/

/-- **The relation.**  In the class: `w'` has the frame key of `w`, and its queue is the queue of
`w` after a list of quiet operations. -/
def Fr (w w' : World) : Prop := S w → FK w' = FK w ∧ QRef (aids w) w.env w'.env

theorem Fr.refl (w : World) : Fr w w := fun _ => ⟨rfl, QRef.refl _ _⟩

theorem Fr.trans {a b c : World} (h1 : Fr a b) (h2 : Fr b c) : Fr a c := fun s =>
  have g1 := h1 s
  have g2 := h2 (s.of_FK g1.1)
  ⟨g2.1.trans g1.1, g1.2.trans (FK_aids g1.1 ▸ g2.2)⟩

theorem Fr.of_FK {w w' : World} (h : FK w' = FK w) (he : w'.env = w.env) : Fr w w' := fun _ =>
  ⟨h, QRef.of_eq he⟩

theorem Fr.trans_FK {a b c : World} (h1 : Fr a b) (h : FK c = FK b) (he : c.env = b.env) :
    Fr a c := h1.trans (Fr.of_FK h he)

theorem Fr.of_FK_trans {a b c : World} (h : FK b = FK a) (he : b.env = a.env) (h2 : Fr b c) :
    Fr a c := (Fr.of_FK h he).trans h2

/-- Use the static class of the start state while proving `Fr`. -/
theorem Fr.with_S {w w' : World} (h : S w → Fr w w') : Fr w w' := fun s => h s s

theorem Fr.foldl {α} (g : World → α → World) (l : List α) (w : World)
    (h : ∀ w a, Fr w (g w a)) : Fr w (l.foldl g w) := by
  induction l generalizing w with
  | nil => exact Fr.refl w
  | cons a l ih => exact (h w a).trans (ih _)

theorem Fr.of_fst_eq {α} {w w' : World} {e : World × α} {b : α} (he : Fr w e.1)
    (h : e = (w', b)) : Fr w w' := by
  subst h; exact he

/-! ### primitives of `WorldDef` -/

theorem FK_setErr (w : World) (m : String) : FK (w.setErr m) = FK w := by
  unfold setErr; split <;> rfl
theorem env_setErr (w : World) (m : String) : (w.setErr m).env = w.env := by
  unfold setErr; split <;> rfl

theorem Fr_setErr (w : World) (m : String) : Fr w (w.setErr m) :=
  Fr.of_FK (FK_setErr w m) (env_setErr w m)

theorem FK_addRes (w : World) (r : Res) (h : isHook r = false) : FK (w.addRes r) = FK w := by
  unfold FK World.addRes
  simp [List.filter_append, h]

theorem FK_addRec (w : World) (r : Rec) (h : isWO r = false) : FK (w.addRec r) = FK w := by
  unfold FK World.addRec
  simp [List.filter_append, h]

theorem Fr_addRes (w : World) (r : Res) (h : isHook r = false) : Fr w (w.addRes r) :=
  Fr.of_FK (FK_addRes w r h) rfl
theorem Fr_addRec (w : World) (r : Rec) (h : isWO r = false) : Fr w (w.addRec r) :=
  Fr.of_FK (FK_addRec w r h) rfl
theorem Fr_modPart (w : World) (p : Nat) (f : PartRec → PartRec) : Fr w (w.modPart p f) :=
  Fr.of_FK rfl rfl
theorem Fr_newPart (w : World) (r : PartRec) : Fr w (w.newPart r).1 := Fr.of_FK rfl rfl

theorem FK_setDev (w : World) (x : Nat) (d : Dev) (h : d.aid = (w.dev x).aid) :
    FK (w.setDev x d) = FK w := by
  unfold FK World.setDev
  simp only
  rw [map_set_of_eq Dev.aid w.devs x d default h]

theorem Fr_setDev (w : World) (x : Nat) (d : Dev) (h : d.aid = (w.dev x).aid) :
    Fr w (w.setDev x d) := Fr.of_FK (FK_setDev w x d h) rfl

theorem Fr_modDev (w : World) (x : Nat) (f : Dev → Dev)
    (h : (f (w.dev x)).aid = (w.dev x).aid) : Fr w (w.modDev x f) := Fr_setDev w x _ h

theorem sched_FK (w : World) (t a : Int) (act : Action) (p : Int) :
    FK (w.sched t a act p).1 = FK w := by
  unfold World.sched
  simp only [Env.apply]
  cases w.env.schedule t a act.toNat p (weightOf w.seed w.wmod t a act.toNat p) <;> rfl

theorem Fr_sched (w : World) (t a : Int) (act : Action) (p : Int) (ha : actKey act = none) :
    Fr w (w.sched t a act p).1 := by
  intro _
  refine ⟨sched_FK w t a act p, ?_⟩
  rw [C01W.sched_env]
  exact QRef.one _ (actKey_toNat_none act ha)

theorem schedLib_FK (w : World) (t a : Int) (act : Action) (p : Int) :
    FK (w.schedLib t a act p) = FK w := by
  have h := sched_FK w t a act p
  unfold schedLib
  generalize w.sched t a act p = s at h
  obtain ⟨w', r⟩ := s
  cases r <;> simp only [FK_setErr] <;> exact h

theorem Fr_schedLib (w : World) (t a : Int) (act : Action) (p : Int) (ha : actKey act = none) :
    Fr w (w.schedLib t a act p) := by
  intro _
  refine ⟨schedLib_FK w t a act p, ?_⟩
  rw [C01W.schedLib_env]
  exact QRef.one _ (actKey_toNat_none act ha)

theorem Fr_envOp (w : World) (op : EnvOp) (h : QOp (aids w) op) : Fr w (w.envOp op) := fun _ =>
  ⟨rfl, QRef.one _ h⟩

theorem Fr_rmEffects (w : World) (recs : List ResRec) (chk : Bool) :
    Fr w (w.rmEffects recs chk) := by
  unfold rmEffects
  dsimp only
  have h : Fr w (recs.foldl (fun w r => w.addRec (.resUpdate r.res w.now r.inUse r.cap)) w) :=
    Fr.foldl _ _ _ (fun w r => Fr_addRec w _ rfl)
  split
  · exact h.trans (Fr_schedLib _ _ _ _ _ rfl)
  · exact h

/-! ### the peeling tactic -/

/-- Peel a structure update `{ w with f := v, … }` that leaves the environment and the frame key
alone. -/
elab "fr_struct" : tactic => do
  let g ← getMainGoal
  g.withContext do
    let t ← instantiateMVars (← g.getType)
    let_expr Fr a b := t.consumeMData | throwError "fr_struct: not a Fr goal"
    let b := b.consumeMData
    unless b.isAppOfArity ``World.mk 23 do throwError "fr_struct: not a structure instance"
    let r := b.getArg! 0
    let w0 ← match r with
      | .proj _ _ w0 => pure w0
      | _ =>
        if r.isAppOfArity ``World.env 1 then pure (r.getArg! 0)
        else throwError "fr_struct: the environment is changed"
    let newGoal ← mkFreshExprSyntheticOpaqueMVar (← mkAppM ``Fr #[a, w0])
    let eq ← mkEq (← mkAppM ``FK #[b]) (← mkAppM ``FK #[w0])
    let pf ← mkFreshExprMVar eq
    pf.mvarId!.refl
    let eq2 ← mkEq (← mkAppM ``World.env #[b]) (← mkAppM ``World.env #[w0])
    let pf2 ← mkFreshExprMVar eq2
    pf2.mvarId!.refl
    g.assign (mkAppN (mkConst ``Fr.trans_FK) #[a, w0, b, newGoal, pf, pf2])
    replaceMainGoal [newGoal.mvarId!]

/-- One step: close the goal, or peel the outermost function application. -/
syntax "fr_step" : tactic

/-- Peel / split until nothing is left. -/
macro "fr_auto" : tactic => `(tactic| repeat' first | fr_step | split)

/-- Side goals of the peeling steps. -/
macro "fr_side" : tactic =>
  `(tactic| first
    | exact rfl
    | assumption
    | decide
    | (intro h; cases h))

macro_rules | `(tactic| fr_step) => `(tactic| fr_struct)
macro_rules | `(tactic| fr_step) => `(tactic|
  ((with_reducible apply Fr.trans (h2 := Fr.foldl _ _ _ ?hs)); case hs => (intro _ _; fr_auto; done)))
macro_rules | `(tactic| fr_step) => `(tactic| with_reducible apply Fr.trans (h2 := Fr_rmEffects _ _ _))
macro_rules | `(tactic| fr_step) => `(tactic|
  ((with_reducible apply Fr.trans (h2 := Fr_envOp _ _ ?hop)); case hop => fr_side))
macro_rules | `(tactic| fr_step) => `(tactic|
  ((with_reducible apply Fr.trans (h2 := Fr_schedLib _ _ _ _ _ ?ha)); case ha => exact rfl))
macro_rules | `(tactic| fr_step) => `(tactic| with_reducible apply Fr.trans (h2 := Fr_setErr _ _))
macro_rules | `(tactic| fr_step) => `(tactic|
  ((with_reducible apply Fr.trans (h2 := Fr_addRes _ _ ?hr)); case hr => exact rfl))
macro_rules | `(tactic| fr_step) => `(tactic|
  ((with_reducible apply Fr.trans (h2 := Fr_addRec _ _ ?hr)); case hr => exact rfl))
macro_rules | `(tactic| fr_step) => `(tactic| with_reducible apply Fr.trans (h2 := Fr_modPart _ _ _))
macro_rules | `(tactic| fr_step) => `(tactic| with_reducible apply Fr.trans (h2 := Fr_newPart _ _))
macro_rules | `(tactic| fr_step) => `(tactic|
  ((with_reducible apply Fr.trans (h2 := Fr_modDev _ _ _ ?hp)); case hp => exact rfl))
macro_rules | `(tactic| fr_step) => `(tactic|
  ((with_reducible apply Fr.trans (h2 := Fr_setDev _ _ _ ?hp)); case hp => exact rfl))
macro_rules | `(tactic| fr_step) => `(tactic| with_reducible exact Fr.refl _)

/-- After a `split` on a pair-valued call: use the fact `t` about the call. -/
macro "fr_heq " t:term : tactic =>
  `(tactic| (rename_i heq; with_reducible apply Fr.trans (h2 := Fr.of_fst_eq $t heq)))

end C12W
end SimProc
