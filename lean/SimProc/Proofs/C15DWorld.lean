/-
C15D / C16D — machinery, part 2: the functions of `Model/World.lean` — constructor calls included —
are `DStep`s / `DRun`s on keys.

Generic in the condition on created devices: `Ctx P R S` says that a constructor call `S spec`
issued in a world whose key satisfies `R` creates devices that satisfy `P`, and that `R` survives
everything that hands no part over (`Phase.still`).  (`R = True` for the general theorems; `R` =
"no `received_part` record of a device that does not exist" for the per-sink theorems.)
-/
import SimProc.Proofs.C15DKey
import SimProc.Proofs.C15DStarted

namespace SimProc
namespace C15D
open World FloorCoreL C15 C15W RM

variable {P : WKey → DKey → Prop} {ph : Phase}

/-- `w'` is a `DStep` away from `w`. -/
def DS (P : WKey → DKey → Prop) (ph : Phase) (w w' : World) : Prop := DStep P ph (key w) (key w')

theorem DS.refl (w : World) : DS P ph w w := DStep.refl _
theorem DS.trans {a b c : World} (h1 : DS P ph a b) (h2 : DS P ph b c) : DS P ph a c := DStep.trans h1 h2
theorem DS.of_KS {w w' : World} (h : KS ph w w') : DS P ph w w' := DStep.ks h
theorem DS.of_key {w w' : World} (h : key w' = key w) : DS P ph w w' := DS.of_KS (KS.of_key h)
theorem DS.trans_KS {a b c : World} (h1 : DS P ph a b) (h2 : KS ph b c) : DS P ph a c :=
  h1.trans (DS.of_KS h2)

/-- everything but hand-overs -/
def _root_.SimProc.C15W.Phase.still : Phase := ⟨false, true, true, true⟩

/-- The operations whose constructor payloads satisfy `S`. -/
def OpS (S : AssetSpec → Prop) (op : Op) : Prop := ∀ s, op = .create s → S s

/-- All constructor payloads of the scripts satisfy `S`. -/
def ScriptsS (S : AssetSpec → Prop) (w : World) : Prop := ∀ l ∈ w.scripts, ∀ op ∈ l, OpS S op

theorem ScriptsS.of_scripts {S : AssetSpec → Prop} {w w' : World} (h : ScriptsS S w)
    (e : w'.scripts = w.scripts) : ScriptsS S w' := by
  unfold ScriptsS; rw [e]; exact h

/-- The context of the generic lemmas. -/
structure Ctx (P : WKey → DKey → Prop) (R : WKey → Prop) (S : AssetSpec → Prop) (U : Prop) : Prop where
  /-- an admissible device constructor call on a started system creates an admissible device (the
  value bookkeeping is reset by the initialisation that follows at once) -/
  dev : ∀ k (d : Dev), R k → S (.dev d) → P k { dkey d with val := d.val.reset }
  /-- the same on a system that has not started, if such systems are considered at all (`U`) -/
  dev0 : U → ∀ k (d : Dev), R k → S (.dev d) → P k (dkey d)
  /-- the controllers of a group are admissible -/
  ctl : ∀ k (kd : Kind) (g : Nat), R k → P k (dkey ({ kind := kd, group := g } : Dev))
  /-- `R` survives everything that hands no part over -/
  still : ∀ {k k'}, DStep P Phase.still k k' → R k → R k'
  /-- `R` does not look at the event queue -/
  env : ∀ k (e : Env), R k → R { k with env := e }

variable {R : WKey → Prop} {S : AssetSpec → Prop} {U : Prop}

theorem Ctx.keep (ctx : Ctx P R S U) {w w' : World} (h : DS P Phase.still w w') (hR : R (key w)) :
    R (key w') := ctx.still h hR

/-! ### a device constructor (on a started system)

`System.add_asset` initialises the new device at once; `initialize` resets its value bookkeeping, so
whatever `val` the constructor payload carries, the device that appears is `{ d with val := reset }`
(`KStep.resetAt`: the wiring in between does not look at it). -/

theorem KS_initDev_rest (w : World) (x : Nat) : KS ph (C02V.initFlag w x) (w.initDev x) := by
  rw [C02V.initDev_eq]
  split <;> ks_auto

theorem key_addDev1 (w : World) (d : Dev) :
    key (C02V.addDev1 w d) = { key w with devs := (key w).devs ++ [dkey d] } := by
  simp [key, C02V.addDev1, dkey]

theorem key_regPath (w : World) (d : Dev) (i : Nat) : key (C02V.regPath w d i) = key w := by
  unfold C02V.regPath; split <;> rfl

theorem key_initFlag (w : World) (x : Nat) : key (C02V.initFlag w x) = resetAt x (key w) := by
  unfold C02V.initFlag World.modDev
  rw [key_setDev_eq]
  unfold resetAt WKey.setDev
  rw [key_dev]
  rfl

/-- What a device constructor call does to the key, as a chain of sites. -/
theorem addDev_chain (w : World) (d : Dev) (hst : w.started = true) :
    KStep ph { key w with devs := (key w).devs ++ [{ dkey d with val := d.val.reset }] } (key (w.addDev d)) := by
  rw [C02V.addDev_eq]
  have s2 : KS Phase.quiet (C02V.addDev1 w d)
      (C02V.regPath ((C02V.addDev1 w d).rewire w.devs.length d.up) d w.devs.length) :=
    (KS_rewire _ _ _).trans (KS.of_key (key_regPath _ _ _))
  have hst3 : (C02V.regPath ((C02V.addDev1 w d).rewire w.devs.length d.up) d w.devs.length).started = true := by
    rw [(C20W.Same_regPath _ _ _).started, (C20W.Same_rewire _ _ _).started]
    exact hst
  rw [if_pos hst3]
  have s2' := ((KStep.resetAt w.devs.length s2 rfl rfl rfl).mono (Phase.quiet_le ph))
  rw [key_addDev1, ← key_initFlag] at s2'
  have e1 : resetAt w.devs.length { key w with devs := (key w).devs ++ [dkey d] } =
      { key w with devs := (key w).devs ++ [{ dkey d with val := d.val.reset }] } := by
    have := resetAt_newDev (key w) (dkey d)
    rw [key_devs_length] at this
    exact this
  rw [e1] at s2'
  exact s2'.trans (KS_initDev_rest _ _)

/-- The same on a system that has not started: the device is registered and wired up only. -/
theorem addDev_chain0 (w : World) (d : Dev) (hst : w.started = false) :
    KStep ph { key w with devs := (key w).devs ++ [dkey d] } (key (w.addDev d)) := by
  rw [C02V.addDev_eq]
  have s2 : KS ph (C02V.addDev1 w d)
      (C02V.regPath ((C02V.addDev1 w d).rewire w.devs.length d.up) d w.devs.length) :=
    (KS_rewire _ _ _).trans (KS.of_key (key_regPath _ _ _))
  have hst3 : (C02V.regPath ((C02V.addDev1 w d).rewire w.devs.length d.up) d w.devs.length).started = false := by
    rw [(C20W.Same_regPath _ _ _).started, (C20W.Same_rewire _ _ _).started]
    exact hst
  rw [if_neg (by simp [hst3])]
  unfold KS at s2
  rw [key_addDev1] at s2
  exact s2

theorem DS_addDev (w : World) (d : Dev) (hP : P (key w) { dkey d with val := d.val.reset })
    (hP0 : w.started = false → P (key w) (dkey d)) : DS P ph w (w.addDev d) := by
  cases hst : w.started with
  | true => exact (DStep.newDev (key w) _ hP).trans (DStep.ks (addDev_chain w d hst))
  | false => exact (DStep.newDev (key w) _ (hP0 hst)).trans (DStep.ks (addDev_chain0 w d hst))

theorem started_of_or {w : World} (hst : w.started = true ∨ U) (h0 : w.started = false) : U :=
  hst.resolve_left (by simp [h0])

/-- The key after a device constructor call: one device key appended (its value bookkeeping reset
by the initialisation), nothing else changed in the list. -/
theorem key_devs_addDev (w : World) (d : Dev) (hst : w.started = true) :
    (key (w.addDev d)).devs = (key w).devs ++ [{ dkey d with val := d.val.reset }] :=
  (KStep.frame_quiet (addDev_chain (ph := .quiet) w d hst) rfl rfl rfl).1

/-! ### the other constructors -/

theorem key_initMaint_fresh (w : World) (m : Nat) (h : VFresh (w.maint m).val) :
    key (w.initAsset (.maint m)) = key w := by
  unfold key initAsset
  simp only
  rw [map_set_of_eq (fun mw : MaintW => mw.m.val) w.maints m _ default]
  show (w.maint m).val.reset = (w.maint m).val
  exact h.reset

theorem KS_initSensor (w : World) (s : Nat) : KS ph w (w.initAsset (.sensor s)) := by
  unfold initAsset
  dsimp only
  ks_auto

theorem started_foldl_rewire (l : List Nat) (n : Nat) (w : World) :
    (l.foldl (fun v d => v.rewire d [n]) w).started = w.started := by
  induction l generalizing w with
  | nil => rfl
  | cons a l ih => rw [List.foldl_cons, ih]; exact (C20W.Same_rewire _ _ _).started

theorem DS_groupShape (ctx : Ctx P R S U) (w w0 : World) (gid n m : Nat) (l1 l2 : List Nat)
    (hR : R (key w)) (hk : key w0 = key w) :
    DS P ph w (((l1.foldl (fun v d => v.rewire d [n]) (w0.addDev { kind := .ginput, group := gid })).addDev
      { kind := .goutput, group := gid }).rewire m l2) := by
  have hc : ∀ (v : World) (kd : Kind), R (key v) →
      ∀ ph', DS P ph' v (v.addDev { kind := kd, group := gid }) :=
    fun v kd hv ph' => DS_addDev v _ (ctx.ctl _ kd gid hv) (fun _ => ctx.ctl _ kd gid hv)
  have d2 : ∀ ph', DS P ph' w0
      (l1.foldl (fun v d => v.rewire d [n]) (w0.addDev { kind := .ginput, group := gid })) :=
    fun ph' => (hc w0 .ginput (by rw [hk]; exact hR) ph').trans_KS (KS.foldl _ _ _ (fun v d => KS_rewire v d [n]))
  have hR0 : R (key w0) := by rw [hk]; exact hR
  have hR2 := ctx.keep (d2 _) hR0
  exact (DS.of_key hk).trans (((d2 ph).trans (hc _ .goutput hR2 ph)).trans_KS (KS_rewire _ _ _))

theorem key_addMaint (w : World) (mw : MaintW) (as : List AssetRef) :
    key ({ w with maints := w.maints ++ [mw], assets := as } : World) =
      { key w with mvals := (key w).mvals ++ [mw.m.val] } := by
  simp [key]

theorem maint_append (w : World) (mw : MaintW) (as : List AssetRef) :
    ({ w with maints := w.maints ++ [mw], assets := as } : World).maint w.maints.length = mw.m := by
  unfold World.maint
  show ((w.maints ++ [mw]).getD w.maints.length default).m = mw.m
  rw [getD_append_singleton]

theorem DS_addAsset (ctx : Ctx P R S U) (w : World) (spec : AssetSpec) (hS : S spec) (hR : R (key w))
    (hst : w.started = true ∨ U) : DS P ph w (w.addAsset spec) := by
  cases spec with
  | dev d => exact DS_addDev w d (ctx.dev _ d hR hS) (fun h0 => ctx.dev0 (started_of_or hst h0) _ d hR hS)
  | group gid devs ins outs =>
    unfold addAsset
    dsimp only
    exact DS_groupShape ctx w _ gid _ _ _ _ hR (by exact rfl)
  | maint cap v =>
    unfold addAsset
    dsimp only
    have s1 : DS P ph w ({ w with
        maints := w.maints ++ [({ m := { cap := cap, val := { init := v, value := v } }, aid := w.assets.length + 1 } : MaintW)],
        assets := w.assets ++ [AssetRef.maint w.maints.length] } : World) := by
      unfold DS
      rw [key_addMaint]
      exact DStep.newMaint (key w) _ ⟨rfl, rfl⟩
    split
    · refine s1.trans (DS.of_key (key_initMaint_fresh _ _ ?_))
      rw [maint_append]
      exact ⟨rfl, rfl⟩
    · exact s1
  | sched tt cyc =>
    unfold addAsset
    dsimp only
    split
    · exact DS.of_KS ((KS.of_key (by exact rfl)).trans (KS_schedUpdate _ _ false))
    · exact DS.of_key rfl
  | sensor sw =>
    unfold addAsset
    dsimp only
    split
    · exact DS.of_KS ((KS.of_key (by exact rfl)).trans (KS_initSensor _ _))
    · exact DS.of_key rfl
  | cms => exact DS.of_key rfl

/-! ### scripted operations -/

theorem DS_applyOp (ctx : Ctx P R S U) (w : World) (op : Op) (hop : OpS S op) (hR : R (key w))
    (hst : w.started = true ∨ U) : DS P ph w (w.applyOp op).1 := by
  by_cases hc : Op.isCreate op = true
  · cases op with
    | create s => exact DS_addAsset ctx w s (hop s rfl) hR hst
    | _ => cases hc
  · exact DS.of_KS (KS_applyOp w op (by simpa using hc))

theorem DS_applyOps (ctx : Ctx P R S U) (ops : List Op) (w : World) (h : ∀ op ∈ ops, OpS S op)
    (hR : R (key w)) (hst : w.started = true ∨ U) : DS P ph w (w.applyOps ops) := by
  induction ops generalizing w with
  | nil => exact DS.refl _
  | cons op ops ih =>
    unfold applyOps
    rw [List.foldl_cons]
    have h1 : ∀ ph', DS P ph' w ((w.applyOp op).1.addRes (w.applyOp op).2) := fun ph' =>
      (DS_applyOp ctx w op (h op (List.mem_cons_self ..)) hR hst).trans_KS (KS_addRes _ _)
    exact (h1 ph).trans (ih _ (fun o ho => h o (List.mem_cons_of_mem _ ho)) (ctx.keep (h1 _) hR)
      (hst.imp (fun h => (started_applyOp w op).trans h) id))

theorem ScriptsS.getD {w : World} (h : ScriptsS S w) (k : Nat) : ∀ op ∈ w.scripts.getD k [], OpS S op := by
  intro op hop
  by_cases hk : k < w.scripts.length
  · have : w.scripts.getD k [] = w.scripts[k] := by simp [List.getD_eq_getElem?_getD, hk]
    rw [this] at hop
    exact h _ (List.getElem_mem hk) op hop
  · have : w.scripts.getD k [] = [] := by simp [List.getD_eq_getElem?_getD, Nat.le_of_not_lt hk]
    rw [this] at hop; cases hop

theorem DS_runScript (ctx : Ctx P R S U) (w : World) (k : Nat) (h : ScriptsS S w) (hR : R (key w))
    (hst : w.started = true ∨ U) : DS P ph w (w.runScript k) := DS_applyOps ctx _ w (h.getD k) hR hst

/-! ### the availability check, the maintainer's events -/

theorem DS_scanWaiting (ctx : Ctx P R S U) (n : Nat) (w : World) (i : Nat) (h : ScriptsS S w)
    (hR : R (key w)) (hst : w.started = true ∨ U) : DS P ph w (scanWaiting scanOps n w i) := by
  induction n generalizing w i with
  | zero => exact DS.refl _
  | succ n ih =>
    rw [scanWaiting]
    split
    · exact DS.refl _
    · split
      · rename_i req cb _ _
        have h1 : (∀ ph', DS P ph' w (scanOps.call w cb req)) ∧ (scanOps.call w cb req).scripts = w.scripts ∧
            ((scanOps.call w cb req).started = true ∨ U) := by
          cases cb with
          | script k =>
            exact ⟨fun ph' => (DS.of_KS (KS_addRes w _)).trans (DS_runScript ctx _ k (h.of_scripts rfl) hR hst),
              (C02V.scr_runScript _ k).trans rfl, hst.imp (fun h => (started_runScript _ k).trans h) id⟩
          | proc d => exact ⟨fun ph' => DS.of_KS (KS_procResourceCb w d), C02V.scr_procResourceCb w d,
              hst.imp (fun h => (C20W.Same_procResourceCb w d).started.trans h) id⟩
        have h2 : ∀ ph', DS P ph' w (scanOps.erase (scanOps.call w cb req) i) := fun ph' =>
          (h1.1 ph').trans_KS (KS_rmStep _ _ [] false (RMok.of_pools rfl rfl))
        exact (h2 ph).trans (ih _ _ (h.of_scripts h1.2.1) (ctx.keep (h2 _) hR) h1.2.2)
      · exact ih _ _ h hR hst

theorem DS_rmCheck (ctx : Ctx P R S U) (w : World) (h : ScriptsS S w) (hR : R (key w))
    (hst : w.started = true ∨ U) : DS P ph w w.rmCheck := DS_scanWaiting ctx _ _ _ h hR hst

theorem DS_hookStart (ctx : Ctx P R S U) (w : World) (tgt : Nat) (tag : Int) (h : ScriptsS S w)
    (hR : R (key w)) (hst : w.started = true ∨ U) : DS P ph w (w.hookStart tgt tag) := by
  unfold hookStart
  dsimp only
  split
  · exact DS.of_KS ((KS_addRes w _).trans (KS_shutdownDev _ _ _ _))
  · split
    · exact (DS.of_KS (KS_addRes w _)).trans (DS_runScript ctx _ _ (h.of_scripts rfl) hR hst)
    · exact DS.of_KS (KS_addRes w _)

theorem DS_hookEnd (ctx : Ctx P R S U) (w : World) (tgt : Nat) (tag : Int) (h : ScriptsS S w)
    (hR : R (key w)) (hst : w.started = true ∨ U) : DS P ph w (w.hookEnd tgt tag) := by
  unfold hookEnd
  dsimp only
  split
  · exact DS.of_KS ((KS_addRes w _).trans (KS_restoreDev _ _))
  · split
    · exact (DS.of_KS (KS_addRes w _)).trans (DS_runScript ctx _ _ (h.of_scripts rfl) hR hst)
    · exact DS.of_KS (KS_addRes w _)

theorem DS_startWork (ctx : Ctx P R S U) (hph : ph.cst = true) (w : World) (m seq : Nat)
    (h : ScriptsS S w) (hR : R (key w)) (hst : w.started = true ∨ U) : DS P ph w (w.startWork m seq) := by
  unfold startWork
  split
  · exact DS.of_KS (KS_setErr _ _)
  · rename_i o _
    dsimp only
    refine DS.trans_KS ?_ (KS_schedLib _ _ _ _ _)
    have h1 : ∀ ph', ph'.cst = true → KS ph' w ((w.addRec (.workOrder 1 m w.now o.target o.tag o.info)).modMaint m
        (fun mm => mm.startCost (w.addRec (.workOrder 1 m w.now o.target o.tag o.info)).now
          ((w.addRec (.workOrder 1 m w.now o.target o.tag o.info)).targetParams o.target o.tag).2.2)) :=
      fun ph' hp => (KS_addRec w _ rfl rfl).trans (KS_startCostSite hp _ m _)
    refine (DS.of_KS (h1 ph hph)).trans (DS_hookStart ctx _ _ _ (h.of_scripts rfl) ?_ hst)
    exact ctx.keep (DS.of_KS (h1 Phase.still rfl)) hR

theorem DS_finishWork (ctx : Ctx P R S U) (w : World) (m seq : Nat) (h : ScriptsS S w) (hR : R (key w))
    (hst : w.started = true ∨ U) : DS P ph w (w.finishWork m seq) := by
  unfold finishWork
  split
  · exact DS.of_KS (KS_setErr _ _)
  · rename_i o _
    dsimp only
    refine DS.trans_KS ?_ (KS_startOrders _ _ _)
    refine DS.trans_KS ?_ (KS_modMaint _ _ _ ?_)
    · refine DS.trans_KS ?_ (KS_addRec _ _ rfl rfl)
      exact (DS_hookEnd ctx w _ _ h hR hst).trans_KS (KS_modMaint _ _ _ rfl)
    · exact tryWork_val _

/-! ### events -/

theorem DS_exec (ctx : Ctx P R S U) (w : World) (a : Action) (h : ScriptsS S w) (hR : R (key w))
    (hst : w.started = true ∨ U)
    (hp : ∀ d, a = .passPart d → ph.moves ∧ ((w.dev d).kind = .source → ph.sup = true))
    (hc : ∀ m o, a = .startWork m o → ph.cst = true) : DS P ph w (w.exec a) := by
  cases a with
  | terminate => exact DS.refl _
  | script k => exact DS_runScript ctx w k h hR hst
  | finishCycle d => exact DS.of_KS (KS_finishCycle w d)
  | passPart d => exact DS.of_KS (KS_passPart (hp d rfl).1 w d (hp d rfl).2)
  | fail d => exact DS.of_KS (KS_failDev w d)
  | releaseIfIdle d => exact DS.of_KS (KS_releaseIfIdle w d)
  | rmCheck => exact DS_rmCheck ctx w h hR hst
  | startWork m o => exact DS_startWork ctx (hc m o rfl) w m o h hR hst
  | finishWork m o => exact DS_finishWork ctx w m o h hR hst
  | schedUpdate s => exact DS.of_KS (KS_schedUpdate w s true)
  | periodicSense s => exact DS.of_KS (KS_periodicSense w s)
  | unknown n => exact DS.of_KS (KS_setErr _ _)

/-- `R` survives every event that is not a `pass_part` event. -/
theorem R_exec (ctx : Ctx P R S U) (w : World) (a : Action) (h : ScriptsS S w) (hR : R (key w))
    (hst : w.started = true ∨ U) (ha : ∀ d, a ≠ .passPart d) : R (key (w.exec a)) :=
  ctx.keep (DS_exec ctx w a h hR hst (fun d e => absurd e (ha d)) (fun _ _ _ => rfl)) hR

/-! ### the event loop -/

theorem DRun_pop_world (w : World) (e : Event) (env' : Env) (h : w.env.step = some (e, env')) :
    DRun P (key w) (key ({ w with env := env' } : World)) := by
  have := DRun.pop (P := P) (key w)
  have e1 : ((key w).env.apply Arith.exact .step).1 = env' := by
    show (w.env.apply Arith.exact .step).1 = env'
    simp only [Env.apply, h]
  rw [e1] at this
  exact this

/-- One step of the event loop.  `hpass`: `R` survives the `pass_part` events of this world (trivial
for `R = True`; for the per-sink theorems this is where closed wiring is used). -/
theorem DRun_step (ctx : Ctx P R S U) {w w' : World} {e : Event} (hn : ScriptsS S w) (hR : R (key w))
    (hst : w.started = true ∨ U)
    (hpass : ∀ env' d, R (key ({ w with env := env' } : World)) →
      R (key (({ w with env := env' } : World).passPart d)))
    (h : w.step = some (e, w')) :
    DRun P (key w) (key w') ∧ ScriptsS S w' ∧ R (key w') := by
  obtain ⟨env', henv, rfl⟩ := step_cases h
  have h1 := DRun_pop_world (P := P) w e env' henv
  have hn1 : ScriptsS S ({ w with env := env' } : World) := hn.of_scripts rfl
  have hR1 : R (key ({ w with env := env' } : World)) := ctx.env _ env' hR
  split
  · refine ⟨h1.trans (DRun.act (DS_exec (ph := .run) ctx _ _ hn1 hR1 hst (fun _ _ => ⟨rfl, fun _ => rfl⟩)
      (fun _ _ _ => rfl))), hn1.of_scripts (C02V.scr_exec _ _), ?_⟩
    by_cases ha : ∃ d, Action.ofNat e.act = .passPart d
    · obtain ⟨d, hd⟩ := ha
      rw [hd]
      exact hpass env' d hR1
    · exact R_exec ctx _ _ hn1 hR1 hst (fun d hd => ha ⟨d, hd⟩)
  · exact ⟨h1, hn1, hR1⟩

/-- Whole runs; `C` is a class of worlds preserved by steps in which `R` survives `pass_part`. -/
theorem DRun_runLoop (ctx : Ctx P R S U) (C : World → Prop)
    (hC : ∀ {w w' : World} {e : Event}, C w → w.step = some (e, w') → C w')
    (hCe : ∀ (w : World) (m : String), C w → C (w.setErr m))
    (hpass : ∀ (w : World), C w → ∀ env' d, R (key ({ w with env := env' } : World)) →
      R (key (({ w with env := env' } : World).passPart d)))
    (n : Nat) (w : World) (hn : ScriptsS S w) (hR : R (key w)) (hst : w.started = true ∨ U) (hc : C w) :
    DRun P (key w) (key (runLoop n w)) ∧ ScriptsS S (runLoop n w) ∧ R (key (runLoop n w)) ∧
      C (runLoop n w) := by
  induction n generalizing w with
  | zero =>
    unfold runLoop
    refine ⟨DRun.act (DS.of_KS (KS_setErr (ph := .run) w _)), hn.of_scripts (C02V.scr_setErr ..), ?_, hCe _ _ hc⟩
    rw [key_setErr]; exact hR
  | succ n ih =>
    unfold runLoop
    split
    · split
      · exact ⟨DRun.refl _, hn, hR, hc⟩
      · rename_i e w' hstep
        have h1 := DRun_step ctx hn hR hst (hpass w hc) hstep
        have h2 := ih w' h1.2.1 h1.2.2 (hst.imp (fun h => (started_step hstep).trans h) id) (hC hc hstep)
        exact ⟨h1.1.trans h2.1, h2.2⟩
    · exact ⟨DRun.refl _, hn, hR, hc⟩

end C15D
end SimProc
