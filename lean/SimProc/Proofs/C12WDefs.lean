/-
C12W, part 4: the closed-world invariant of the maintainers.

`G0 X R w`: bookkeeping invariant of every maintainer (`C12.Inv`, `C12.CapOK`), queue invariant
(`C01.Inv`), no maintainer event is paused, every maintainer event in the queue is live, carries
the maintainer's asset id, the right priority and (a START event) the current time; per maintainer
the orders with an event in the queue, plus the orders "in flight" (`X`: started by a scan, event
not scheduled yet or just popped; `R`: in progress, FINISH event not scheduled yet or just popped)
are exactly the active orders; and the log of every maintainer is well bracketed, its open START
records being exactly the orders in progress.  `G X R w` adds: no queued order is startable.
Between events `X = R = []`.
-/
import SimProc.Proofs.C12WFloor
import SimProc.Props.C12

namespace SimProc
namespace C12W
open World FloorCoreL

/-! ### in-flight orders -/

/-- The orders of maintainer `m` in a list of (maintainer, order) pairs. -/
def proj (m : Nat) (X : List (Nat × Nat)) : List Nat :=
  X.filterMap (fun p => if p.1 = m then some p.2 else none)

@[simp] theorem proj_nil (m : Nat) : proj m [] = [] := rfl

theorem proj_cons_same (m s : Nat) (X : List (Nat × Nat)) : proj m ((m, s) :: X) = s :: proj m X := by
  simp [proj]

theorem proj_cons_ne {m m' : Nat} (s : Nat) (X : List (Nat × Nat)) (h : m ≠ m') :
    proj m' ((m, s) :: X) = proj m' X := by
  simp [proj, h]

theorem proj_append (m : Nat) (X Y : List (Nat × Nat)) : proj m (X ++ Y) = proj m X ++ proj m Y := by
  simp [proj]

theorem proj_map_same (m : Nat) (l : List Order) :
    proj m (l.map (fun o => (m, o.seq))) = l.map (·.seq) := by
  induction l with
  | nil => rfl
  | cons o l ih => rw [List.map_cons, proj_cons_same, ih, List.map_cons]

theorem proj_map_ne {m m' : Nat} (l : List Order) (h : m ≠ m') :
    proj m' (l.map (fun o => (m, o.seq))) = [] := by
  induction l with
  | nil => rfl
  | cons o l ih => rw [List.map_cons, proj_cons_ne _ _ h, ih]

/-! ### the log of a maintainer -/

/-- Start / finish records. -/
def isSF : Rec → Bool
  | .workOrder k _ _ _ _ _ => k == 1 || k == 2
  | _ => false

abbrev OKey := Nat × Int × Int

/-- How an order appears in the log. -/
def okey (o : Order) : OKey := (o.target, o.tag, o.info)

/-- One record: a START record of maintainer `m` opens an entry, a FINISH record closes one (`none`
if there is none to close). -/
def openStep (m : Nat) (acc : Option (List OKey)) (r : Rec) : Option (List OKey) :=
  match r with
  | .workOrder k m' _ tgt tag info =>
    if m' = m then
      if k = 1 then acc.map (· ++ [(tgt, tag, info)])
      else if k = 2 then
        acc.bind (fun L => if (tgt, tag, info) ∈ L then some (L.erase (tgt, tag, info)) else none)
      else acc
    else acc
  | _ => acc

/-- The open START records of maintainer `m`, if its log is well bracketed. -/
def openOf (m : Nat) (l : List Rec) : Option (List OKey) := l.foldl (openStep m) (some [])

theorem openOf_append_one (m : Nat) (l : List Rec) (r : Rec) :
    openOf m (l ++ [r]) = openStep m (openOf m l) r := by
  simp [openOf, List.foldl_append]

theorem openStep_of_not_SF (m : Nat) (acc : Option (List OKey)) (r : Rec) (h : isSF r = false) :
    openStep m acc r = acc := by
  cases r <;> try rfl
  rename_i k m' t tgt tag info
  have h1 : ¬ k = 1 := by intro e; subst e; simp [isSF] at h
  have h2 : ¬ k = 2 := by intro e; subst e; simp [isSF] at h
  simp [openStep, h1, h2]

theorem foldl_filter_of_id {α β} (f : β → α → β) (p : α → Bool) (l : List α) (b : β)
    (h : ∀ b a, p a = false → f b a = b) : (l.filter p).foldl f b = l.foldl f b := by
  induction l generalizing b with
  | nil => rfl
  | cons a l ih =>
    by_cases hp : p a = true
    · simp only [List.filter_cons, hp, if_true, List.foldl_cons, ih]
    · have hp' : p a = false := by simpa using hp
      simp only [List.filter_cons, hp', Bool.false_eq_true, if_false, List.foldl_cons,
        h b a hp', ih]

theorem openOf_filter (m : Nat) (l : List Rec) : openOf m (l.filter isSF) = openOf m l :=
  foldl_filter_of_id _ _ _ _ (fun b a h => openStep_of_not_SF m b a h)

theorem isWO_of_isSF {r : Rec} (h : isSF r = true) : isWO r = true := by
  cases r <;> first | rfl | cases h

theorem filter_SF_of_WO {l l' : List Rec} (h : l'.filter isWO = l.filter isWO) :
    l'.filter isSF = l.filter isSF := by
  rw [← filter_filter_of_imp isSF isWO l' (fun _ _ => isWO_of_isSF),
    ← filter_filter_of_imp isSF isWO l (fun _ _ => isWO_of_isSF), h]

theorem openOf_of_filter_eq {l l' : List Rec} (h : l'.filter isSF = l.filter isSF) (m : Nat) :
    openOf m l' = openOf m l := by
  rw [← openOf_filter m l', h, openOf_filter]

/-! ### maintainers of a world -/

theorem maint_of_ge {w : World} {m : Nat} (h : w.maints.length ≤ m) : w.maint m = default := by
  unfold World.maint
  rw [List.getD_eq_getElem?_getD, List.getElem?_eq_none h]
  rfl

theorem maint_default_active : (default : Maint).active = [] := rfl
theorem maint_default_queue : (default : Maint).queue = [] := rfl

theorem lt_of_active_ne {w : World} {m : Nat} {o : Order} (h : o ∈ (w.maint m).active) :
    m < w.maints.length := by
  rcases Nat.lt_or_ge m w.maints.length with h1 | h1
  · exact h1
  · rw [maint_of_ge h1, maint_default_active] at h; cases h

theorem lt_of_queue_ne {w : World} {m : Nat} {o : Order} (h : o ∈ (w.maint m).queue) :
    m < w.maints.length := by
  rcases Nat.lt_or_ge m w.maints.length with h1 | h1
  · exact h1
  · rw [maint_of_ge h1, maint_default_queue] at h; cases h

theorem maint_modMaint_same (w : World) (m : Nat) (f : Maint → Maint) (hm : m < w.maints.length) :
    (w.modMaint m f).maint m = f (w.maint m) := by
  unfold World.maint World.modMaint
  simp [List.getD_eq_getElem?_getD, hm]

theorem maint_modMaint_ne (w : World) (m m' : Nat) (f : Maint → Maint) (h : m ≠ m') :
    (w.modMaint m f).maint m' = w.maint m' := by
  unfold World.maint World.modMaint
  simp only
  rw [getD_set_ne _ _ _ _ _ h]

theorem aidOf_modMaint (w : World) (m m' : Nat) (f : Maint → Maint) :
    aidOf (w.modMaint m f) m' = aidOf w m' := by
  unfold aidOf World.modMaint
  simp only
  by_cases h : m = m'
  · subst h
    by_cases hm : m < w.maints.length
    · rw [getD_set_same _ _ _ _ hm]
    · rw [set_of_length_le _ _ _ (Nat.le_of_not_lt hm)]
  · rw [getD_set_ne _ _ _ _ _ h]

theorem aids_modMaint (w : World) (m : Nat) (f : Maint → Maint) :
    aids (w.modMaint m f) = aids w := by
  unfold aids World.modMaint
  simp only
  exact map_set_of_eq MaintW.aid w.maints m _ default rfl

theorem length_modMaint (w : World) (m : Nat) (f : Maint → Maint) :
    (w.modMaint m f).maints.length = w.maints.length := by
  simp [World.modMaint]

theorem aidOf_mem_aids {w : World} {m : Nat} (h : m < w.maints.length) : aidOf w m ∈ aids w := by
  unfold aidOf aids
  rw [List.getD_eq_getElem?_getD, List.getElem?_eq_getElem h]
  exact List.mem_map.2 ⟨_, List.getElem_mem h, rfl⟩

theorem aidOf_of_aids_eq {w w' : World} (h : aids w' = aids w) (m : Nat) : aidOf w' m = aidOf w m := by
  unfold aidOf
  have h0 : (default : MaintW).aid = 0 := rfl
  have e1 := getD_map MaintW.aid w'.maints m default
  have e2 := getD_map MaintW.aid w.maints m default
  unfold aids at h
  rw [← e1, ← e2, h]

theorem length_of_aids_eq {w w' : World} (h : aids w' = aids w) :
    w'.maints.length = w.maints.length := by
  have := congrArg List.length h
  simpa [aids] using this

/-! ### scheduling in the library never fails for a time that is not in the past -/

theorem schedLib_ok (w : World) (t a : Int) (act : Action) (p : Int) (h : w.now ≤ t) :
    w.schedLib t a act p = { w with env := { w.env with
      events := insort (w.env.newEvent t a act.toNat p (weightOf w.seed w.wmod t a act.toNat p))
        w.env.events
      nextUid := w.env.nextUid + 1 } } := by
  have h' : ¬ t < w.env.now := Int.not_lt.2 h
  unfold schedLib World.sched
  simp [Env.apply, Env.schedule, h']

/-! ### the invariant -/

/-- The orders of maintainer `m` that are in progress: active, with a FINISH event in the queue or
in flight (`R`). -/
def running (w : World) (R : List (Nat × Nat)) (m : Nat) : List Order :=
  (w.maint m).active.filter (fun o => (fkeys m w.env.events ++ proj m R).contains o.seq)

structure G0 (X R : List (Nat × Nat)) (w : World) : Prop where
  inv : ∀ m, C12.Inv (w.maint m)
  cap : ∀ m, C12.CapOK (w.maint m)
  env : C01.Inv w.env
  paused : ∀ e ∈ w.env.paused, isM e = false
  ev : ∀ e ∈ w.env.events, ∀ f m s, ekey e = some (f, m, s) →
    e.cancelled = false ∧ e.asset = aidOf w m ∧
    (f = false → e.time = w.now ∧ e.prio = pStartWork) ∧ (f = true → e.prio = pFinishWork)
  perm : ∀ m, (skeys m w.env.events ++ proj m X ++ proj m R).Perm ((w.maint m).active.map (·.seq))
  log : ∀ m, ∃ L, openOf m w.recs = some L ∧ L.Perm ((running w R m).map okey)

/-- No queued order of any maintainer is startable. -/
def NoStart (w : World) : Prop := ∀ m, ∀ o ∈ (w.maint m).queue, (w.maint m).startable o = false

/-- Every queue is in request order (sequence numbers increase). -/
def QSorted (w : World) : Prop := ∀ m, ((w.maint m).queue.map (·.seq)).Pairwise (· < ·)

structure G (X R : List (Nat × Nat)) (w : World) : Prop where
  g0 : G0 X R w
  ns : NoStart w
  qs : QSorted w

/-- An order with an event has an existing maintainer. -/
theorem G0.lt_of_key {X R : List (Nat × Nat)} {w : World} (g : G0 X R w) {e : Event}
    (he : e ∈ w.env.events) {f : Bool} {m s : Nat} (hk : ekey e = some (f, m, s)) :
    m < w.maints.length ∧ ∃ o ∈ (w.maint m).active, o.seq = s := by
  have h1 : s ∈ skeys m w.env.events := mem_skeys.2 ⟨e, he, f, hk⟩
  have h2 : s ∈ (w.maint m).active.map (·.seq) :=
    (g.perm m).subset (List.mem_append_left _ (List.mem_append_left _ h1))
  obtain ⟨o, ho, hs⟩ := List.mem_map.1 h2
  exact ⟨lt_of_active_ne ho, o, ho, hs⟩

/-- The queue of a world satisfying the invariant satisfies the guard of the quiet operations. -/
theorem G0.mg {X R : List (Nat × Nat)} {w : World} (g : G0 X R w) : MG (aids w) w.env := by
  refine ⟨?_, g.paused⟩
  intro e he hm
  obtain ⟨⟨f, m, s⟩, hk⟩ := (isM_true_iff e).1 hm
  rw [(g.ev e he f m s hk).2.1]
  exact aidOf_mem_aids (g.lt_of_key he hk).1

/-- The active orders of a maintainer have pairwise distinct sequence numbers. -/
theorem G0.nodup {X R : List (Nat × Nat)} {w : World} (g : G0 X R w) (m : Nat) :
    ((w.maint m).active.map (·.seq)).Nodup := by
  have := (g.inv m).seqs
  rw [List.map_append] at this
  exact (List.nodup_append.1 this).2.1

theorem G0.nodup_lhs {X R : List (Nat × Nat)} {w : World} (g : G0 X R w) (m : Nat) :
    (skeys m w.env.events ++ proj m X ++ proj m R).Nodup :=
  (g.perm m).nodup_iff.2 (g.nodup m)

end C12W
end SimProc
