/-
C20W — machinery, part 2: the registration invariant on keys is kept by the key-level effect of
the constructors (`push…`), of `initAsset` on a started system, and of the initialisation sweep of
`simulateInit`.
-/
import SimProc.Proofs.C20WKey

namespace SimProc
namespace C20W
open RKey

theorem mem_valid_ne {k : RKey} (h : RegK k) {a : AssetRef} (hv : k.valid a = false) : a ∉ k.assets :=
  fun hm => by rw [h.valid a hm] at hv; cases hv

/-! ### constructors -/

/-- One registration: the generic argument. -/
theorem regK_push {k k' : RKey} (h : RegK k) (r : AssetRef)
    (hass : k'.assets = k.assets ++ [r]) (hst : k'.started = k.started) (hscr : k'.scripts = k.scripts)
    (hr : k.valid r = false) (hr' : k'.valid r = true)
    (hold : ∀ a, k.valid a = true →
      k'.valid a = true ∧ k'.aidOf a = k.aidOf a ∧ k'.flagOf a = k.flagOf a)
    (hcomp : ∀ a, k'.valid a = true → a.isCms = false → k.valid a = true ∨ a = r)
    (haid : ∀ x, k'.aidOf r = some x → x = (k.assets.length : Int) + 1)
    (hflag : ∀ b, k'.flagOf r = some b → b = k.started) : RegK k' := by
  have hnew : r ∉ k.assets := mem_valid_ne h hr
  refine ⟨?_, ?_, ?_, ?_, ?_, ?_⟩
  · rw [hass]
    simp only [List.nodup_append, List.nodup_cons, List.not_mem_nil, not_false_eq_true,
      List.nodup_nil, and_self, List.mem_singleton, true_and]
    exact ⟨h.nodup, fun a ha b hb => by subst hb; exact fun e => hnew (e ▸ ha)⟩
  · intro a ha
    rw [hass] at ha
    simp only [List.mem_append, List.mem_singleton] at ha
    rcases ha with ha | rfl
    · exact (hold a (h.valid a ha)).1
    · exact hr'
  · intro a ha hc
    rw [hass]
    rcases hcomp a ha hc with h1 | rfl
    · exact List.mem_append_left _ (h.complete a h1 hc)
    · simp
  · intro i hi x hx
    have hlen : k'.assets.length = k.assets.length + 1 := by rw [hass]; simp
    by_cases hlt : i < k.assets.length
    · have e : k'.assets[i] = k.assets[i] := by
        simp only [hass, List.getElem_append_left hlt]
      rw [e, (hold _ (h.valid _ (List.getElem_mem hlt))).2.1] at hx
      exact h.aid i hlt x hx
    · have hi' : i = k.assets.length := by omega
      subst hi'
      have e : k'.assets[k.assets.length] = r := by simp [hass]
      rw [e] at hx
      exact haid x hx
  · intro a ha b hb
    rw [hass] at ha
    simp only [List.mem_append, List.mem_singleton] at ha
    rw [hst]
    rcases ha with ha | rfl
    · rw [(hold a (h.valid a ha)).2.2] at hb
      exact h.flag a ha b hb
    · exact hflag b hb
  · rw [hscr]; exact h.scripts

theorem regK_pushDev {k : RKey} (h : RegK k) (kd : Kind) : RegK (k.pushDev kd k.started) := by
  refine regK_push h (.dev k.devs.length) rfl rfl rfl (by simp [valid]) (by simp [valid, pushDev])
    ?_ ?_ ?_ ?_
  · intro a ha
    cases a <;> simp_all [valid, aidOf, flagOf, pushDev, List.getElem?_append_left] <;> omega
  · intro a ha hc
    cases a <;> simp_all [valid, pushDev, AssetRef.isCms] <;> omega
  · intro x hx; simp [aidOf, pushDev] at hx; omega
  · intro b hb; simp [flagOf, pushDev] at hb; exact hb.symm

theorem regK_pushMaint {k : RKey} (h : RegK k) : RegK (k.pushMaint k.started) := by
  refine regK_push h (.maint k.maints.length) rfl rfl rfl (by simp [valid]) (by simp [valid, pushMaint])
    ?_ ?_ ?_ ?_
  · intro a ha
    cases a <;> simp_all [valid, aidOf, flagOf, pushMaint, List.getElem?_append_left] <;> omega
  · intro a ha hc
    cases a <;> simp_all [valid, pushMaint, AssetRef.isCms] <;> omega
  · intro x hx; simp [aidOf, pushMaint] at hx; omega
  · intro b hb; simp [flagOf, pushMaint] at hb; exact hb.symm

theorem regK_pushSched {k : RKey} (h : RegK k) : RegK k.pushSched := by
  refine regK_push h (.sched k.scheds.length) rfl rfl rfl (by simp [valid]) (by simp [valid, pushSched])
    ?_ ?_ ?_ ?_
  · intro a ha
    cases a <;> simp_all [valid, aidOf, flagOf, pushSched, List.getElem?_append_left] <;> omega
  · intro a ha hc
    cases a <;> simp_all [valid, pushSched, AssetRef.isCms] <;> omega
  · intro x hx; simp [aidOf, pushSched] at hx; omega
  · intro b hb; simp [flagOf] at hb

theorem regK_pushSensor {k : RKey} (h : RegK k) : RegK (k.pushSensor k.started) := by
  refine regK_push h (.sensor k.sensors.length) rfl rfl rfl (by simp [valid]) (by simp [valid, pushSensor])
    ?_ ?_ ?_ ?_
  · intro a ha
    cases a <;> simp_all [valid, aidOf, flagOf, pushSensor, List.getElem?_append_left] <;> omega
  · intro a ha hc
    cases a <;> simp_all [valid, pushSensor, AssetRef.isCms] <;> omega
  · intro x hx; simp [aidOf, pushSensor] at hx; omega
  · intro b hb; simp [flagOf, pushSensor] at hb; exact hb.symm

theorem regK_pushCms {k : RKey} (h : RegK k) : RegK k.pushCms := by
  refine regK_push h (.cms k.ncms) rfl rfl rfl (by simp [valid]) (by simp [valid, pushCms])
    ?_ ?_ ?_ ?_
  · intro a ha
    cases a <;> simp_all [valid, aidOf, flagOf, pushCms] <;> omega
  · intro a ha hc
    cases a <;> simp_all [valid, pushCms, AssetRef.isCms] <;> omega
  · intro x hx; simp [aidOf] at hx
  · intro b hb; simp [flagOf] at hb

/-- More cms slots (opened by `add_sensor`) do no harm. -/
theorem regK_ncms {k : RKey} (h : RegK k) (n : Nat) (hn : k.ncms ≤ n) : RegK { k with ncms := n } := by
  refine ⟨h.nodup, ?_, ?_, ?_, ?_, h.scripts⟩
  · intro a ha
    have := h.valid a ha
    cases a <;> simp_all [valid] <;> omega
  · intro a ha hc
    refine h.complete a ?_ hc
    cases a <;> simp_all [valid, AssetRef.isCms] <;> omega
  · intro i hi x hx
    exact h.aid i hi x (by cases hk : k.assets[i] <;> simp_all [aidOf])
  · intro a ha b hb
    exact h.flag a ha b (by cases a <;> simp_all [flagOf])

/-! ### initialisation -/

theorem modify_append_last {α} (l : List α) (a : α) (f : α → α) :
    (l ++ [a]).modify l.length f = l ++ [f a] := by
  apply List.ext_getElem?
  intro j
  rw [List.getElem?_modify]
  by_cases hj : j < l.length
  · have : l.length ≠ j := by omega
    simp [List.getElem?_append_left hj, this]
  · by_cases hj' : j = l.length
    · subst hj'; simp
    · have : l.length ≠ j := by omega
      simp only [this, if_false]
      rw [List.getElem?_eq_none (by simp; omega), List.getElem?_eq_none (by simp; omega)]
      rfl

theorem init_pushDev (k : RKey) (kd : Kind) :
    (k.pushDev kd false).init (.dev k.devs.length) = k.pushDev kd true := by
  simp [pushDev, RKey.init, modify_append_last]

theorem init_pushMaint (k : RKey) :
    (k.pushMaint false).init (.maint k.maints.length) = k.pushMaint true := by
  simp [pushMaint, RKey.init, modify_append_last]

theorem init_pushSensor (k : RKey) :
    (k.pushSensor false).init (.sensor k.sensors.length) = k.pushSensor true := by
  simp [pushSensor, RKey.init, modify_append_last]

namespace RKey

@[simp] theorem init_assets (k : RKey) (a : AssetRef) : (k.init a).assets = k.assets := by
  cases a <;> rfl
@[simp] theorem init_started (k : RKey) (a : AssetRef) : (k.init a).started = k.started := by
  cases a <;> rfl
@[simp] theorem init_scripts (k : RKey) (a : AssetRef) : (k.init a).scripts = k.scripts := by
  cases a <;> rfl
@[simp] theorem init_ncms (k : RKey) (a : AssetRef) : (k.init a).ncms = k.ncms := by
  cases a <;> rfl

theorem init_valid (k : RKey) (a b : AssetRef) : (k.init a).valid b = k.valid b := by
  cases a <;> cases b <;> simp [init, valid]

theorem init_aidOf (k : RKey) (a b : AssetRef) : (k.init a).aidOf b = k.aidOf b := by
  cases a <;> cases b <;> simp only [init, aidOf, List.getElem?_modify] <;>
    (rename_i x y; cases k.devs[y]? <;> cases k.maints[y]? <;> cases k.sensors[y]? <;>
      simp <;> split <;> rfl)

theorem init_flagOf (k : RKey) (a b : AssetRef) :
    (k.init a).flagOf b = if a = b then (k.flagOf b).map (fun _ => true) else k.flagOf b := by
  cases a <;> cases b <;> simp only [init, flagOf, List.getElem?_modify, reduceCtorEq, if_false,
    AssetRef.dev.injEq, AssetRef.maint.injEq, AssetRef.sensor.injEq, AssetRef.sched.injEq,
    AssetRef.cms.injEq, Option.map_none, ite_self] <;>
    (rename_i x y
     first
      | (cases k.devs[y]? <;> simp <;> split <;> simp)
      | (cases k.maints[y]? <;> simp <;> split <;> simp)
      | (cases k.sensors[y]? <;> simp <;> split <;> simp))

/-- The initialisation sweep. -/
def sweep (k : RKey) (l : List AssetRef) : RKey := l.foldl init k

@[simp] theorem sweep_nil (k : RKey) : k.sweep [] = k := rfl
@[simp] theorem sweep_cons (k : RKey) (a : AssetRef) (l : List AssetRef) :
    k.sweep (a :: l) = (k.init a).sweep l := rfl

@[simp] theorem sweep_assets (k : RKey) (l : List AssetRef) : (k.sweep l).assets = k.assets := by
  induction l generalizing k with
  | nil => rfl
  | cons a l ih => rw [sweep_cons, ih, init_assets]
@[simp] theorem sweep_started (k : RKey) (l : List AssetRef) : (k.sweep l).started = k.started := by
  induction l generalizing k with
  | nil => rfl
  | cons a l ih => rw [sweep_cons, ih, init_started]
@[simp] theorem sweep_scripts (k : RKey) (l : List AssetRef) : (k.sweep l).scripts = k.scripts := by
  induction l generalizing k with
  | nil => rfl
  | cons a l ih => rw [sweep_cons, ih, init_scripts]
@[simp] theorem sweep_ncms (k : RKey) (l : List AssetRef) : (k.sweep l).ncms = k.ncms := by
  induction l generalizing k with
  | nil => rfl
  | cons a l ih => rw [sweep_cons, ih, init_ncms]
theorem sweep_valid (k : RKey) (l : List AssetRef) (b : AssetRef) : (k.sweep l).valid b = k.valid b := by
  induction l generalizing k with
  | nil => rfl
  | cons a l ih => rw [sweep_cons, ih, init_valid]
theorem sweep_aidOf (k : RKey) (l : List AssetRef) (b : AssetRef) : (k.sweep l).aidOf b = k.aidOf b := by
  induction l generalizing k with
  | nil => rfl
  | cons a l ih => rw [sweep_cons, ih, init_aidOf]
theorem sweep_flagOf (k : RKey) (l : List AssetRef) (b : AssetRef) :
    (k.sweep l).flagOf b = if b ∈ l then (k.flagOf b).map (fun _ => true) else k.flagOf b := by
  induction l generalizing k with
  | nil => simp
  | cons a l ih =>
    rw [sweep_cons, ih, init_flagOf]
    by_cases hab : a = b
    · subst hab; simp
    · have hba : ¬ b = a := fun e => hab e.symm
      simp [hab, hba]

end RKey

theorem RKey.valid_started (k : RKey) (s : Bool) (b : AssetRef) :
    ({ k with started := s } : RKey).valid b = k.valid b := by cases b <;> rfl
theorem RKey.aidOf_started (k : RKey) (s : Bool) (b : AssetRef) :
    ({ k with started := s } : RKey).aidOf b = k.aidOf b := by cases b <;> rfl
theorem RKey.flagOf_started (k : RKey) (s : Bool) (b : AssetRef) :
    ({ k with started := s } : RKey).flagOf b = k.flagOf b := by cases b <;> rfl

/-- The sweep of `simulateInit` establishes the invariant of a started system. -/
theorem regK_start {k : RKey} (h : RegK k) :
    RegK { k.sweep k.assets with started := true } := by
  have hass : ({ k.sweep k.assets with started := true } : RKey).assets = k.assets := by simp
  refine ⟨by rw [hass]; exact h.nodup, ?_, ?_, ?_, ?_, by simpa using h.scripts⟩
  · intro a ha
    rw [hass] at ha
    rw [valid_started, sweep_valid]
    exact h.valid a ha
  · intro a ha hc
    rw [hass]
    rw [valid_started, sweep_valid] at ha
    exact h.complete a ha hc
  · intro i hi x hx
    have hi' : i < k.assets.length := by simpa using hi
    have e : ({ k.sweep k.assets with started := true } : RKey).assets[i] = k.assets[i] := by
      simp
    rw [e, aidOf_started, sweep_aidOf] at hx
    exact h.aid i hi' x hx
  · intro a ha b hb
    rw [hass] at ha
    rw [flagOf_started, sweep_flagOf, if_pos ha] at hb
    cases hf : k.flagOf a <;> simp [hf] at hb
    show b = true
    exact hb

/-- A system without assets. -/
theorem regK_empty {k : RKey} (hd : k.devs = []) (hm : k.maints = []) (hs : k.scheds = [])
    (hn : k.sensors = []) (ha : k.assets = []) (hscr : ∀ l ∈ k.scripts, ∀ op ∈ l, opFresh op = true) :
    RegK k := by
  refine ⟨by simp [ha], by simp [ha], ?_, by simp [ha], by simp [ha], hscr⟩
  intro a hv hc
  cases a <;> simp_all [valid, AssetRef.isCms]

end C20W
end SimProc
