/-
C15D / C16D — machinery, part 3: the decidable condition on constructor payloads, reachable states of
worlds that create assets while running, and the lifting of the key invariants.
-/
import SimProc.Proofs.C15DWorld

namespace SimProc
namespace C15D
open World FloorCoreL C15 C15W RM

/-! ### the condition on created devices -/

/-- A device record as the library's constructors make it, as far as records and values are
concerned: the counters and the level are 0.  Everything else — kind, wiring, cycle time,
callbacks, slots, flags, `inited`, … and even the value bookkeeping `val` — is arbitrary: a device
created on a started system is initialised at once, and `initialize` resets `val` (value := starting
value, history cleared), so a stale `val` in the payload never becomes visible. -/
def devNew (d : Dev) : Bool :=
  d.produced == 0 && d.costProduced == 0 && d.recvCount == 0 && d.recvValue == 0 && d.level == 0

/-- Constructor payloads: a device record must be `devNew`; groups (their two controllers are made
by the model), maintainers (`value = init = v`), schedulers, sensors and cms are always fine. -/
def specNew : AssetSpec → Bool
  | .dev d => devNew d
  | _ => true

def opNew : Op → Bool
  | .create s => specNew s
  | _ => true

/-- Every `create` of every script has a constructor-fresh payload. -/
def ScriptsNew (w : World) : Prop := ∀ l ∈ w.scripts, ∀ op ∈ l, opNew op = true

instance (w : World) : Decidable (ScriptsNew w) := by unfold ScriptsNew; infer_instance

theorem devNew_iff (d : Dev) : devNew d = true ↔
    d.produced = 0 ∧ d.costProduced = 0 ∧ d.recvCount = 0 ∧ d.recvValue = 0 ∧ d.level = 0 := by
  unfold devNew
  simp only [Bool.and_eq_true, beq_iff_eq]
  constructor
  · rintro ⟨⟨⟨⟨h1, h2⟩, h3⟩, h4⟩, h5⟩
    exact ⟨h1, h2, h3, h4, h5⟩
  · rintro ⟨h1, h2, h3, h4, h5⟩
    exact ⟨⟨⟨⟨h1, h2⟩, h3⟩, h4⟩, h5⟩

/-- The key of a `devNew` device after its initialisation is constructor-fresh. -/
theorem dfresh_of_devNew {d : Dev} (h : devNew d = true) : DFresh { dkey d with val := d.val.reset } := by
  obtain ⟨h1, h2, h3, h4, h5⟩ := (devNew_iff d).1 h
  exact ⟨h1, h2, h3, h4, h5, rfl, rfl⟩

/-- No batches: the created device is not set up to create them. -/
def devNB (d : Dev) : Bool := d.genBatch == 0 && d.bsize.isNone

def specNB : AssetSpec → Bool
  | .dev d => devNB d
  | _ => true

def opNB : Op → Bool
  | .create s => specNB s
  | _ => true

/-- No `create` of a script makes a device that generates or builds batches. -/
def ScriptsNB (w : World) : Prop := ∀ l ∈ w.scripts, ∀ op ∈ l, opNB op = true

instance (w : World) : Decidable (ScriptsNB w) := by unfold ScriptsNB; infer_instance

theorem devNB_iff (d : Dev) : devNB d = true ↔ (dkey d).genBatch = 0 ∧ (dkey d).bsize = none := by
  unfold devNB dkey
  simp [Option.isNone_iff_eq_none]

/-- The spec predicates of the two general contexts. -/
def SNew (s : AssetSpec) : Prop := specNew s = true
def SNB (s : AssetSpec) : Prop := specNew s = true ∧ specNB s = true

theorem scriptsS_new {w : World} (h : ScriptsNew w) : ScriptsS SNew w := by
  intro l hl op hop s e
  have := h l hl op hop
  rw [e] at this
  exact this

theorem scriptsS_nb {w : World} (h : ScriptsNew w) (hb : ScriptsNB w) : ScriptsS SNB w := by
  intro l hl op hop s e
  have a := h l hl op hop
  have b := hb l hl op hop
  rw [e] at a b
  exact ⟨a, b⟩

theorem opS_new {l : List Op} (h : ∀ op ∈ l, opNew op = true) : ∀ op ∈ l, OpS SNew op := by
  intro op hop s e
  have := h op hop
  rw [e] at this
  exact this

theorem opS_nb {l : List Op} (h : ∀ op ∈ l, opNew op = true ∧ opNB op = true) : ∀ op ∈ l, OpS SNB op := by
  intro op hop s e
  have := h op hop
  rw [e] at this
  exact this

/-- created devices: constructor-fresh -/
def PNew : WKey → DKey → Prop := fun _ d => DFresh d
/-- created devices: constructor-fresh and not set up for batches -/
def PNB : WKey → DKey → Prop := fun _ d => DFresh d ∧ d.genBatch = 0 ∧ d.bsize = none

def RTrue : WKey → Prop := fun _ => True

/-- no condition at all on created devices (for statements about time stamps) -/
def PAny : WKey → DKey → Prop := fun _ _ => True
def SAny (_ : AssetSpec) : Prop := True

theorem ctxAny : Ctx PAny RTrue SAny True where
  dev := fun _ _ _ _ => trivial
  dev0 := fun _ _ _ _ _ => trivial
  ctl := fun _ _ _ _ => trivial
  still := fun _ _ => trivial
  env := fun _ _ _ => trivial

theorem scriptsS_any (w : World) : ScriptsS SAny w := fun _ _ _ _ _ _ => trivial

/-- created devices (on a started system): the value bookkeeping is reset, nothing else is known -/
def PVal : WKey → DKey → Prop := fun _ d => VFresh d.val

theorem ctxVal : Ctx PVal RTrue SAny False where
  dev := fun _ _ _ _ => ⟨rfl, rfl⟩
  dev0 := fun h => h.elim
  ctl := fun _ _ _ _ => ⟨rfl, rfl⟩
  still := fun _ _ => trivial
  env := fun _ _ _ => trivial

theorem ctxNew : Ctx PNew RTrue SNew False where
  dev := fun _ _ _ h => dfresh_of_devNew h
  dev0 := fun h => h.elim
  ctl := fun _ _ _ _ => ⟨rfl, rfl, rfl, rfl, rfl, rfl, rfl⟩
  still := fun _ _ => trivial
  env := fun _ _ _ => trivial

theorem ctxNB : Ctx PNB RTrue SNB False where
  dev := fun _ d _ h => ⟨dfresh_of_devNew h.1, (devNB_iff d).1 h.2⟩
  dev0 := fun h => h.elim
  ctl := fun _ _ _ _ => ⟨⟨rfl, rfl, rfl, rfl, rfl, rfl, rfl⟩, rfl, rfl⟩
  still := fun _ _ => trivial
  env := fun _ _ _ => trivial

/-! ### reachable states -/

/-- The states reachable from `w0`: initialise (`System.simulate`, first part), then any sequence
of steps of the event loop, whole runs (`Environment.run`: `runBegin`, `runLoop`) and lists of
scripted operations issued from outside that are admissible (`A`) in the world they are applied to.
Event actions and outside operations may create assets of every kind. -/
inductive Reach (A : World → List Op → Prop) (w0 : World) : World → Prop where
  | init : Reach A w0 w0.simulateInit
  | step {w w' : World} {e : Event} : Reach A w0 w → w.step = some (e, w') → Reach A w0 w'
  | run {w : World} (n : Nat) : Reach A w0 w → Reach A w0 (runLoop n w)
  | runBegin {w : World} (d : Int) : Reach A w0 w → Reach A w0 (w.runBegin d).1
  | ops {w : World} (ops : List Op) : Reach A w0 w → A w ops → Reach A w0 (w.applyOps ops)

theorem Reach.mono {A A' : World → List Op → Prop} (h : ∀ w l, A w l → A' w l) {w0 w : World}
    (hr : Reach A w0 w) : Reach A' w0 w := by
  induction hr with
  | init => exact .init
  | step _ hs ih => exact .step ih hs
  | run n _ ih => exact .run n ih
  | runBegin d _ ih => exact .runBegin d ih
  | ops l _ ha ih => exact .ops l ih (h _ _ ha)

/-- A class of worlds that every move preserves, and in which `R` survives `pass_part` events. -/
structure Cls (C : World → Prop) (A : World → List Op → Prop) (R : WKey → Prop) : Prop where
  step : ∀ {w w' : World} {e : Event}, C w → w.step = some (e, w') → C w'
  setErr : ∀ (w : World) (m : String), C w → C (w.setErr m)
  init : ∀ (w : World), C w → C w.simulateInit
  runBegin : ∀ (w : World) (d : Int), C w → C (w.runBegin d).1
  ops : ∀ (w : World) (l : List Op), C w → A w l → C (w.applyOps l)
  pass : ∀ (w : World), C w → ∀ env' d, R (key ({ w with env := env' } : World)) →
      R (key (({ w with env := env' } : World).passPart d))

theorem clsTrue (A : World → List Op → Prop) : Cls (fun _ => True) A RTrue :=
  ⟨fun _ _ => trivial, fun _ _ _ => trivial, fun _ _ => trivial, fun _ _ _ => trivial,
   fun _ _ _ _ => trivial, fun _ _ _ _ _ => trivial⟩


variable {P : WKey → DKey → Prop} {R : WKey → Prop} {S : AssetSpec → Prop} {U : Prop}
  {C : World → Prop} {A : World → List Op → Prop}

/-- `w'` is reached from `w` by steps, runs and admissible outside operations. -/
inductive Later (A : World → List Op → Prop) (w : World) : World → Prop where
  | refl : Later A w w
  | step {a b : World} {e : Event} : Later A w a → a.step = some (e, b) → Later A w b
  | run {a : World} (n : Nat) : Later A w a → Later A w (runLoop n a)
  | runBegin {a : World} (d : Int) : Later A w a → Later A w (a.runBegin d).1
  | ops {a : World} (ops : List Op) : Later A w a → A a ops → Later A w (a.applyOps ops)

theorem Reach.later_init {w0 w : World} (h : Reach A w0 w) : Later A w0.simulateInit w := by
  induction h with
  | init => exact .refl
  | step _ hs ih => exact .step ih hs
  | run n _ ih => exact .run n ih
  | runBegin d _ ih => exact .runBegin d ih
  | ops l _ ha ih => exact .ops l ih ha

theorem Reach.later {w0 w w' : World} (h : Reach A w0 w) (hl : Later A w w') : Reach A w0 w' := by
  induction hl with
  | refl => exact h
  | step _ hs ih => exact .step ih hs
  | run n _ ih => exact .run n ih
  | runBegin d _ ih => exact .runBegin d ih
  | ops l _ ha ih => exact .ops l ih ha

/-- From a started world to any later state: a run in which assets may be created. -/
theorem later_key (ctx : Ctx P R S U) (cls : Cls C A R) (hA : ∀ w l, A w l → ∀ op ∈ l, OpS S op)
    {w w' : World} (hn : ScriptsS S w) (hR : R (key w)) (hc : C w) (hst : w.started = true)
    (hl : Later A w w') :
    DRun P (key w) (key w') ∧ ScriptsS S w' ∧ R (key w') ∧ C w' ∧ w'.started = true := by
  induction hl with
  | refl => exact ⟨DRun.refl _, hn, hR, hc, hst⟩
  | step _ hs ih =>
    have := DRun_step ctx ih.2.1 ih.2.2.1 (Or.inl ih.2.2.2.2) (cls.pass _ ih.2.2.2.1) hs
    exact ⟨ih.1.trans this.1, this.2.1, this.2.2, cls.step ih.2.2.2.1 hs,
      (started_step hs).trans ih.2.2.2.2⟩
  | run n _ ih =>
    have := DRun_runLoop ctx C cls.step cls.setErr cls.pass n _ ih.2.1 ih.2.2.1 (Or.inl ih.2.2.2.2) ih.2.2.2.1
    exact ⟨ih.1.trans this.1, this.2.1, this.2.2.1, this.2.2.2, (started_runLoop n _).trans ih.2.2.2.2⟩
  | runBegin d _ ih =>
    exact ⟨ih.1.trans (DRun.act (DS.of_KS (KS_runBegin _ d))), ih.2.1.of_scripts (scr_runBegin _ d),
      ctx.keep (DS.of_KS (KS_runBegin _ d)) ih.2.2.1, cls.runBegin _ d ih.2.2.2.1,
      (started_runBegin _ d).trans ih.2.2.2.2⟩
  | ops ops _ hops ih =>
    exact ⟨ih.1.trans (DRun.act (DS_applyOps ctx ops _ (hA _ _ hops) ih.2.2.1 (Or.inl ih.2.2.2.2))),
      ih.2.1.of_scripts (C02V.scr_applyOps ops _),
      ctx.keep (DS_applyOps ctx ops _ (hA _ _ hops) ih.2.2.1 (Or.inl ih.2.2.2.2)) ih.2.2.1,
      cls.ops _ _ ih.2.2.2.1 hops, (started_applyOps ops _).trans ih.2.2.2.2⟩

/-- From the fresh world to any reachable state: the initialisation phase (which creates nothing),
then a run in which assets may be created. -/
theorem reach_key (ctx : Ctx P R S U) (cls : Cls C A R) (hA : ∀ w l, A w l → ∀ op ∈ l, OpS S op)
    {w0 w : World} (hn : ScriptsS S w0) (hi : w0.rm.inited = false) (hR0 : R (key w0)) (hc0 : C w0)
    (hr : Reach A w0 w) :
    KStep .init (key w0) (key w0.simulateInit) ∧ DRun P (key w0.simulateInit) (key w) ∧
      ScriptsS S w ∧ R (key w) ∧ C w ∧ w.started = true := by
  have h0 : ∀ ph, ph.ini = true → KStep ph (key w0) (key w0.simulateInit) :=
    fun ph hp => KS_simulateInit hp w0 hi
  exact ⟨h0 _ rfl, later_key ctx cls hA (hn.of_scripts (C02V.scr_simulateInit w0))
    (ctx.still (DStep.ks (h0 Phase.still rfl)) hR0) (cls.init _ hc0) (started_simulateInit w0)
    hr.later_init⟩

/-- Lifting: an invariant `I0` of the initialisation phase that implies an invariant `I` of the
run phase gives `I` in every reachable state. -/
theorem reach_inv (ctx : Ctx P R S U) (cls : Cls C A R) (hA : ∀ w l, A w l → ∀ op ∈ l, OpS S op)
    {I0 I : WKey → Prop} {w0 w : World}
    (hinit : ∀ {k k'}, KStep .init k k' → I0 k → I0 k') (hconv : ∀ k, I0 k → I k)
    (hstep : ∀ {k k'}, DStep P .run k k' → I k → I k')
    (henv : ∀ (k : WKey) (e : Env), I k → I { k with env := e })
    (h0 : I0 (key w0)) (hn : ScriptsS S w0) (hi : w0.rm.inited = false) (hR0 : R (key w0)) (hc0 : C w0)
    (hr : Reach A w0 w) : I (key w) := by
  obtain ⟨h1, h2, _⟩ := reach_key ctx cls hA hn hi hR0 hc0 hr
  exact DRun.preserve hstep henv h2 (hconv _ (hinit h1 h0))

/-- What a reachable state has kept of the fresh world: all devices and maintainers, with their
kinds and starting values. -/
theorem reach_grows (ctx : Ctx P R S U) (cls : Cls C A R) (hA : ∀ w l, A w l → ∀ op ∈ l, OpS S op)
    {w0 w : World} (hn : ScriptsS S w0) (hi : w0.rm.inited = false) (hR0 : R (key w0)) (hc0 : C w0)
    (hr : Reach A w0 w) : Grows (key w0) (key w) := by
  obtain ⟨h1, h2, _⟩ := reach_key ctx cls hA hn hi hR0 hc0 hr
  exact (Grows.of_static (KStep.static h1)).trans h2.grows

end C15D
end SimProc
