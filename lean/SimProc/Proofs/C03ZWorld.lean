/-
C03Z, part 4: the typed-stacks invariant along the event loop (`tinv_exec`, `tinv_step`,
`tinv_simulateInit`), and the condition `GC w` under which the machinery of C03W works with
SEVERAL groups: there is one group only (`OneGrp`, the old scope), or the world is typed by group
contexts (`Typed cl w`, scripts do not re-wire) and the typed-stacks invariant holds.
`GC.cs`: either way every group output an offer of a held part can reach owns the innermost group
path of the part (`consS`) — which is all the machinery needs (`Proofs/C03WAcc.lean`:
`same_give_ctrl`; `Proofs/C03XRes.lean`: `real_of_R_of`).
-/
import SimProc.Proofs.C03ZFloor
import SimProc.Proofs.C03XSwv
import SimProc.Proofs.FloorSt

namespace SimProc
namespace C03Z
open World C02V C08L C08W C03W C02V.SVBatchAux FloorCoreL

variable {cl : List (List Nat)}

/-! ### the static side conditions -/

/-- what the preservation of `TInv` needs of the typing: the wiring respects the contexts; every
batcher stands at nesting depth ≤ 1 -/
structure TSt (cl : List (List Nat)) (w : World) : Prop where
  typ : TypT (topo w) (cx cl)
  nb : BatS cl w

theorem TSt.of_tv {w w' : World} (h : TSt cl w) (e : tv w' = tv w) : TSt cl w' :=
  ⟨h.typ.of_topo (topo_of_tv e), h.nb.of_tv e⟩

theorem TSt.of_st {w w' : World} (h : TSt cl w) (e : st w' = st w) : TSt cl w' :=
  h.of_tv (tv_of_st e)

theorem Typed.tst {w : World} (h : Typed cl w) : TSt cl w :=
  ⟨h.typT, fun x hk => h.2.at x hk⟩

/-! ### events -/

/-- Every admissible event action preserves the typed-stacks invariant (in a world whose scripts
neither rewire nor create devices). -/
theorem tinv_exec (w : World) (a : Action) (hI : InvW w) (hR : TInv cl w) (hS : TSt cl w)
    (hs : ScriptsStatic w) (ha : ActOK w a) : TInv cl (w.exec a) := by
  cases a with
  | terminate => exact hR
  | script k => exact hR.of_rf (rf_runScript w k hs)
  | finishCycle d => exact tinv_finishCycle w d hI hR hS.nb
  | passPart d => exact tinv_passPart w d hI hR hS.typ hS.nb ha
  | fail d => exact tinv_failDev w d hR
  | releaseIfIdle d =>
    exact hR.of_rf (RF.of_st (sv_releaseIfIdle w d) (st_releaseIfIdle w d) (parts_releaseIfIdle w d)
      (scr_releaseIfIdle w d) (pcv_releaseIfIdle w d))
  | rmCheck => exact hR.of_rf (rf_rmCheck w hs)
  | startWork m o => exact hR.of_rf (rf_startWork w m o hs)
  | finishWork m o => exact hR.of_rf (rf_finishWork w m o hs)
  | schedUpdate s =>
    exact hR.of_rf (RF.of_st (sv_schedUpdate w s true) (st_schedUpdate w s true) (parts_schedUpdate w s true)
      (scr_schedUpdate w s true) (pcv_schedUpdate w s true))
  | periodicSense s =>
    exact hR.of_rf (RF.of_st (sv_periodicSense w s) (st_periodicSense w s) (parts_periodicSense w s)
      (scr_periodicSense w s) (pcv_periodicSense w s))
  | unknown n =>
    exact hR.of_rf (RF.of_st (sv_setErr ..) (st_setErr ..) (setErr_parts ..) (scr_setErr ..) (pcv_setErr ..))

/-- **One step of the event loop of a statically well-formed world preserves the typed-stacks
invariant.** -/
theorem tinv_step (w w' : World) (e : Event) (hI : InvW w) (hR : TInv cl w) (hS : TSt cl w)
    (hs : Static w) (hst : w.step = some (e, w')) :
    InvW w' ∧ TInv cl w' ∧ Static w' ∧ TSt cl w' := by
  have h0 := static_step w w' e hI hs hst
  have htv := tv_step w w' e hs hst
  refine ⟨h0.1, ?_, h0.2, hS.of_tv htv.1⟩
  unfold World.step at hst
  split at hst
  · cases hst
  · rename_i e' env' henv
    simp only [Option.some.injEq, Prod.mk.injEq] at hst
    obtain ⟨rfl, rfl⟩ := hst
    have h1 := static_pop w e' env' hs henv
    have hR1 : TInv cl ({ w with env := env' } : World) := hR.of_frame rfl rfl rfl
    have hI1 : InvW ({ w with env := env' } : World) := hI.of_sv rfl
    have hS1 : TSt cl ({ w with env := env' } : World) := hS.of_tv rfl
    split
    · exact tinv_exec _ _ hI1 hR1 hS1 h1.1 (static_actOK w e' env' hs henv)
    · exact hR1

/-! ### initialisation -/

theorem tinv_initDev (w : World) (x : Nat) (hI : InvW w) (hR : TInv cl w) (hD : BatS cl w) :
    TInv cl (w.initDev x) := by
  have hR0 : TInv cl (initFlag w x) := hR.of_frame_st (sv_initFlag w x) (st_initFlag w x) rfl
  have hI0 : InvW (initFlag w x) := hI.of_sv (sv_initFlag w x)
  rw [initDev_eq]
  split
  · exact hR0
  · exact hR0
  · exact hR0
  · exact hR0
  · refine hR0.of_frame_st ?_ ?_ ?_
    · rw [sv_modDev_same, sv_setWaiting]; intro _; rfl
    · rw [st_modDev_same, st_setWaiting]; intro _; rfl
    · rw [modDev_parts, setWaiting_parts]
  · refine tinv_scheduleFinish _ x (hI0.of_sv (sv_setWaiting ..)) ?_ ?_
    · exact hR0.of_frame_st (sv_setWaiting ..) (st_setWaiting ..) (setWaiting_parts ..)
    · exact hD.of_st (by rw [st_setWaiting, st_initFlag])
  · exact hR0.of_frame_st (sv_setWaiting ..) (st_setWaiting ..) (setWaiting_parts ..)

theorem tinv_initAsset (w : World) (a : AssetRef) (hI : InvW w) (hR : TInv cl w) (hD : BatS cl w) :
    TInv cl (w.initAsset a) := by
  by_cases h : ∃ d, a = .dev d
  · obtain ⟨d, rfl⟩ := h
    exact tinv_initDev w d hI hR hD
  · have h' : ∀ d, a ≠ .dev d := fun d e => h ⟨d, e⟩
    exact hR.of_frame_st (sv_initAsset_nondev w a h') (st_initAsset w a) (parts_initAsset_nondev w a h')

theorem tinv_simulateInit (w : World) (hI : InvW w) (hR : TInv cl w) (hD : BatS cl w) :
    TInv cl w.simulateInit := by
  unfold World.simulateInit
  split
  · exact hR
  · simp only []
    have key : ∀ (l : List AssetRef) (w0 : World), InvW w0 → TInv cl w0 → BatS cl w0 →
        InvW (l.foldl (fun w a => w.initAsset a) w0) ∧ TInv cl (l.foldl (fun w a => w.initAsset a) w0) := by
      intro l
      induction l with
      | nil => intro w0 h1 h2 _; exact ⟨h1, h2⟩
      | cons a l ih =>
        intro w0 h1 h2 h3
        exact ih _ (pres_initAsset closed_inv w0 a h1) (tinv_initAsset w0 a h1 h2 h3)
          (h3.of_st (st_initAsset w0 a))
    refine TInv.of_frame (w := List.foldl _ _ _) ?_ rfl rfl rfl
    refine (key _ _ ?_ ?_ ?_).2
    · apply InvW.of_sv _ (sv_rmEffects ..)
      exact hI.of_sv rfl
    · apply TInv.of_frame_st _ (sv_rmEffects ..) (st_rmEffects ..) (rmEffects_parts ..)
      exact hR.of_frame rfl rfl rfl
    · exact hD.of_st (by rw [st_rmEffects]; rfl)

/-- A world in which no device holds anything satisfies the invariant. -/
theorem tinv_of_empty (w : World) (h : ∀ d ∈ w.devs, (sdev d).held = []) : TInv cl w := by
  have key : ∀ (z : Nat) (d : SDev) (q : Nat), (sv w).devs[z]? = some d → q ∈ d.held → False := by
    intro z d q hz hq
    have hm := List.mem_of_getElem? hz
    simp only [sv, List.mem_map] at hm
    obtain ⟨d', hd', rfl⟩ := hm
    rw [h d' hd'] at hq; cases hq
  exact ⟨fun z d q hz _ hq => (key z d q hz hq).elim, fun z d q l k hz _ hq _ _ => (key z d q hz hq).elim,
    fun z d b hz _ hb => (key z d b hz (mem_held_inprog hb)).elim⟩

theorem tinv_runBegin (w : World) (d : Int) (hR : TInv cl w) : TInv cl (w.runBegin d).1 :=
  hR.of_rf (rf_runBegin w d)

/-! ### one group, or typed stacks -/

/-- **The condition under which the machinery of C03W works**: there is ONE group (the scope of
stage C), or the world is typed by group contexts, its scripts do not re-wire, and the typed-stacks
invariant holds (several groups: in sequence, re-entrant, nested). -/
def GC (w : World) : Prop := OneGrp w ∨ ∃ cl, NR w ∧ Typed cl w ∧ TInv cl w

/-- With one group every group output an offer can reach owns the innermost group path of the
part. -/
theorem consS_of_one {w : World} (h1 : OneGrp w) : ∀ f x stk,
    ((∀ x, (w.dev x).kind ≠ .goutput) ∨ ∀ g ∈ stk, (w.dev g).kind = .gpath) →
    consS f w x stk = true := by
  intro f
  induction f with
  | zero => intro x stk _; rfl
  | succ f ih =>
    intro x stk hstk
    unfold consS
    cases hk : (w.dev x).kind <;> simp only []
    case gate => exact List.all_eq_true.mpr (fun y _ => ih y stk hstk)
    case ginput => exact List.all_eq_true.mpr (fun y _ => ih y stk hstk)
    case gpath =>
      refine ih _ _ (hstk.imp id (fun hstk g hg => ?_))
      rcases List.mem_append.mp hg with hg | hg
      · exact hstk g hg
      · rw [List.mem_singleton] at hg; rw [hg]; exact hk
    case goutput =>
      cases hl : stk.getLast? with
      | none => rfl
      | some g =>
        simp only []
        have hstk : ∀ g ∈ stk, (w.dev g).kind = .gpath := hstk.resolve_left (fun h0 => h0 x hk)
        have hg : (w.dev g).kind = .gpath := hstk g (List.mem_of_getLast? hl)
        rw [hg, h1.out hg hk]
        simp only [beq_self_eq_true, Bool.true_and]
        exact List.all_eq_true.mpr (fun y _ => ih y _ (Or.inr (fun g' hg' =>
          hstk g' (List.dropLast_subset _ hg'))))

/-- **Consistent stacks**: for every part a device (not a sink) holds, every group output an offer
to a downstream neighbour can reach owns the innermost group path of the part at that point. -/
theorem GC.cs {w : World} (h : GC w) (hst : StkOK w) {d p : Nat} (hd : d < w.devs.length)
    (hk : (w.dev d).kind ≠ .sink) (hp : p ∈ heldL (w.dev d)) {y : Nat} (hy : y ∈ (w.dev d).down)
    (f : Nat) : consS f w y (w.part p).stack = true := by
  rcases h with h1 | ⟨cl, _, ht, hi⟩
  · exact consS_of_one h1 f y _ (hst.part p)
  · have h0 : TS (topo w) (cx cl) (cx cl d) (skOf w p) :=
      hi.top d (sdev (w.dev d)) p (sv_get w d hd) hk hp
    rw [← (ht.at d).1 y hy] at h0
    exact consS_of_ts ht f y _ h0

/-- the static world from the projection `swv` and the scripts -/
theorem sw_of_swv {w w' : World} (h : swv w' = swv w) (hs : w'.scripts = w.scripts) : sw w' = sw w := by
  have h1 : w'.devs.map stat1 = w.devs.map stat1 := congrArg Prod.fst h
  have h2 : w'.targets.map (·.dev) = w.targets.map (·.dev) := congrArg (fun t => t.2.1) h
  have h3 : w'.groups = w.groups := congrArg (fun t => t.2.2) h
  unfold sw
  rw [h1, hs, h3]
  have : ∀ l : List Target, l.map (fun t => ({ dev := t.dev } : Target)) =
      (l.map (·.dev)).map (fun d => ({ dev := d } : Target)) := by
    intro l; rw [List.map_map]; rfl
  rw [this, this w.targets, h2]

theorem Typed.of_sw {w w' : World} (h : Typed cl w) (e : sw w' = sw w) : Typed cl w' :=
  h.congr (sw_len e) (sw_kind e) (sw_down e) (sw_group e) (sw_groups e)

theorem nr_of_sw {w w' : World} (h : NR w) (e : sw w' = sw w) : NR w' := by
  have hs : w'.scripts = w.scripts := by
    have := congrArg World.scripts e; exact this
  intro l hl op hop
  rw [hs] at hl
  exact h l hl op hop

/-- `GC` along a transition that keeps the static world, given the preservation of the typed-stacks
invariant -/
theorem GC.of_sw {w w' : World} (h : GC w) (e : sw w' = sw w)
    (ht : ∀ cl, Typed cl w → TInv cl w → TInv cl w') : GC w' := by
  rcases h with h1 | ⟨cl, hn, hty, hi⟩
  · exact Or.inl (h1.of_sw e)
  · exact Or.inr ⟨cl, nr_of_sw hn e, hty.of_sw e, ht cl hty hi⟩

/-- a frame: static world, slots and parts table unchanged -/
theorem GC.frame {w w' : World} (h : GC w) (e : sw w' = sw w) (h1 : sv w' = sv w)
    (h3 : w'.parts = w.parts) : GC w' :=
  h.of_sw e (fun _ _ hi => hi.of_frame h1 (by
    unfold topo
    have hg := sw_groups e
    congr 1
    · funext x; exact sw_kind e x
    · funext x; exact sw_down e x
    · funext x; exact sw_group e x
    · funext g; rw [hg]) h3)

/-- the general transition lemma -/
theorem GC.trans {w w' : World} (h : GC w) (ho : OneGrp w → OneGrp w')
    (ht : ¬ OneGrp w → ∀ cl, NR w → Typed cl w → TInv cl w → NR w' ∧ Typed cl w' ∧ TInv cl w') :
    GC w' := by
  by_cases h1 : OneGrp w
  · exact Or.inl (ho h1)
  · rcases h with h0 | ⟨cl, hn, hty, hi⟩
    · exact absurd h0 h1
    · exact Or.inr ⟨cl, ht h1 cl hn hty hi⟩

/-- the invariant reads kinds and group ids of the devices, the slots and the parts table only (not
the wiring) -/
theorem TInv.of_kinds {w w' : World} (h : TInv cl w) (h1 : sv w' = sv w)
    (hk : ∀ x, (w'.dev x).kind = (w.dev x).kind) (hg : ∀ x, (w'.dev x).group = (w.dev x).group)
    (h3 : w'.parts = w.parts) : TInv cl w' := by
  unfold TInv at *
  have e2 : skOf w' = skOf w := by funext q; unfold skOf; rw [part_congr h3]
  rw [h1, e2]
  have key : ∀ cz s, TS (topo w') (cx cl) cz s ↔ TS (topo w) (cx cl) cz s :=
    ts_congr (t := topo w) (t' := topo w') hk hg
  exact ⟨fun z d q hz hks hq => (key _ _).mpr (h.top z d q hz hks hq),
    fun z d q l k hz hks hq hl hkl => (key _ _).mpr (h.kid z d q l k hz hks hq hl hkl), h.prog⟩

/-- `GC` along a transition that keeps kinds, group ids, group table, slots and parts (a
re-wiring), given that the new wiring is typed again -/
theorem GC.of_kinds {w w' : World} (h : GC w) (hl : w'.devs.length = w.devs.length)
    (hk : ∀ x, (w'.dev x).kind = (w.dev x).kind) (hg : ∀ x, (w'.dev x).group = (w.dev x).group)
    (hgr : w'.groups = w.groups) (h1 : sv w' = sv w) (h3 : w'.parts = w.parts)
    (hs : w'.scripts = w.scripts)
    (hty : ¬ OneGrp w → ∀ cl, Typed cl w → Typed cl w') : GC w' :=
  h.trans (fun ho => ho.congr hl hk hg hgr) (fun ho cl hn hT hi =>
    ⟨fun l hl' op hop => hn l (by rw [← hs]; exact hl') op hop, hty ho cl hT,
      hi.of_kinds h1 hk hg h3⟩)

/-- without group devices there is (at most) one group -/
theorem gc_noGrp {w : World} (h : NoGrp w) : GC w := Or.inl (oneGrp_noGrp h)

/-- **One iteration of the buffer loop.** -/
theorem gc_bufferLoop (f : Nat) {w : World} {x : Nat} (h : GC w) (hI : ¬ OneGrp w → InvW w)
    (hk : (w.dev x).kind = .buffer) (hg : GiveOK w x) : GC (bufferLoop f w x) := by
  have e : sw (bufferLoop f w x) = sw w := sw_of_swv (swv_bufferLoop w f x) (scr_bufferLoop f w x)
  exact h.trans (fun h1 => h1.of_sw e) (fun h1 cl hn hty hi =>
    ⟨nr_of_sw hn e, hty.of_sw e, tinv_bufferLoop f w x (hI h1) hi hty.tst.typ hty.tst.nb hk hg⟩)

/-- **One step of the event loop.** -/
theorem gc_step {w w' : World} {e : Event} (h : GC w) (ho : OneGrp w → OneGrp w')
    (hI : ¬ OneGrp w → InvW w ∧ Static w) (esw : NR w → sw w' = sw w)
    (hst : w.step = some (e, w')) : GC w' :=
  h.trans ho (fun h1 cl hn hty hi =>
    ⟨nr_of_sw hn (esw hn), hty.of_sw (esw hn),
      (tinv_step w w' e (hI h1).1 hi hty.tst (hI h1).2 hst).2.1⟩)

theorem gc_simulateInit {w : World} (h : GC w) (hI : ¬ OneGrp w → InvW w)
    (esw : sw w.simulateInit = sw w) : GC w.simulateInit :=
  h.trans (fun h1 => h1.of_sw esw) (fun h1 cl hn hty hi =>
    ⟨nr_of_sw hn esw, hty.of_sw esw, tinv_simulateInit w (hI h1) hi hty.tst.nb⟩)

theorem gc_runBegin {w : World} (h : GC w) (d : Int) (esw : sw (w.runBegin d).1 = sw w) :
    GC (w.runBegin d).1 :=
  h.of_sw esw (fun cl _ hi => tinv_runBegin w d hi)

/-- a typed world in which nobody holds anything -/
theorem gc_fresh {w : World} (hn : NR w) (hty : Typed cl w)
    (h : ∀ d ∈ w.devs, (sdev d).held = []) : GC w :=
  Or.inr ⟨cl, hn, hty, tinv_of_empty w h⟩

end C03Z
end SimProc
