/-
C06W (closed-world timer invariant), part 7: the remaining work of a timer decreases at rate 1 while
the device is operational and at rate 0 while it is shut down; the finish event fires when it is 0.
-/
import SimProc.Proofs.C06WWorld
namespace SimProc
namespace C06W
open World FloorCoreL

theorem mem_rem {s : Env} {x u : Nat} {r : Int} :
    (u, r) ∈ rem s x ↔
      (∃ e ∈ finE s x, u = e.uid ∧ r = e.time - s.now) ∨
      (∃ e ∈ finP s x, u = e.uid ∧ r = e.time - e.pausedAt.getD s.now) := by
  unfold rem
  simp only [List.mem_append, List.mem_map, Prod.mk.injEq]
  constructor
  · rintro (⟨e, he, h1, h2⟩ | ⟨e, he, h1, h2⟩)
    · exact Or.inl ⟨e, he, h1.symm, h2.symm⟩
    · exact Or.inr ⟨e, he, h1.symm, h2.symm⟩
  · rintro (⟨e, he, h1, h2⟩ | ⟨e, he, h1, h2⟩)
    · exact Or.inl ⟨e, he, h1.symm, h2.symm⟩
    · exact Or.inr ⟨e, he, h1.symm, h2.symm⟩

/-- the uid of a timer is below the uid counter -/
theorem rem_uid_lt {s : Env} (h : EI s) {x u : Nat} {r : Int} (hm : (u, r) ∈ rem s x) : u < s.nextUid := by
  rcases mem_rem.mp hm with ⟨e, he, rfl, _⟩ | ⟨e, he, rfl, _⟩
  · exact h.1.fresh e (List.mem_append.mpr (Or.inl (mem_finE.mp he).1))
  · exact h.1.fresh e (List.mem_append.mpr (Or.inr (mem_finP.mp he).1))

/-- What the first half of a step (pop the next event, advance the clock) does to the timers: a
pending timer loses the elapsed time, a paused timer is unchanged. -/
theorem rem_pop {s s' : Env} {e : Event} (hs : s.step = some (e, s')) (hP : C07.PInv s) (y : Nat)
    {u : Nat} {r' : Int} (hm : (u, r') ∈ rem s' y) :
    (∃ e' ∈ finE s y, u = e'.uid ∧ (u, e'.time - s.now) ∈ rem s y ∧
      r' = (e'.time - s.now) - (e.time - s.now)) ∨
    (∃ e' ∈ finP s y, u = e'.uid ∧ (u, r') ∈ rem s y) := by
  obtain ⟨hE, hPq, hn, _⟩ := fin_step hs y
  rcases mem_rem.mp hm with ⟨e', he', hu, hr⟩ | ⟨e', he', hu, hr⟩
  · left
    have he'' : e' ∈ finE s y := by
      rw [hE]; split
      · exact List.mem_cons_of_mem _ he'
      · exact he'
    refine ⟨e', he'', hu, mem_rem.mpr (Or.inl ⟨e', he'', hu, rfl⟩), ?_⟩
    rw [hr, hn]; omega
  · right
    rw [hPq] at he'
    refine ⟨e', he', hu, mem_rem.mpr (Or.inr ⟨e', he', hu, ?_⟩)⟩
    obtain ⟨p, hp, _, _⟩ := hP e' (mem_finP.mp he').1
    rw [hr, hp]; rfl

/-- A device with a pending live finish event is operational; with a paused one it is not. -/
theorem op_of_pending {s : Env} {x : Nat} {t : TD} (h : TimerAt s x t) {e : Event} (he : e ∈ finE s x) :
    opT t = true := by
  cases hp : t.part with
  | none => have := (h.idle hp).1; rw [this] at he; cases he
  | some p =>
    have hb := (h.busy p hp).2
    cases hop : opT t with
    | true => rfl
    | false =>
      rw [hop] at hb
      have := hb.1
      rw [this] at he; cases he

theorem not_op_of_paused {s : Env} {x : Nat} {t : TD} (h : TimerAt s x t) {e : Event}
    (he : e ∈ finP s x) : opT t = false := by
  cases hp : t.part with
  | none => have := (h.idle hp).2; rw [this] at he; cases he
  | some p =>
    have hb := (h.busy p hp).2
    cases hop : opT t with
    | false => rfl
    | true =>
      rw [hop] at hb
      have := hb.2
      rw [this] at he; cases he

/-- **Rates.** One step of the event loop takes from every timer that exists before and after the
step (same uid) exactly the elapsed time if its device was operational, and nothing if it was shut
down — whatever the action of the popped event does (shutdowns, restorations, hand-overs, scripts). -/
theorem rem_step {w w' : World} {e : Event} (h : WI w) (hst : w.step = some (e, w')) (y : Nat)
    (hk : (w.dev y).kind ≠ .source) {u : Nat} {r' : Int} (hm : (u, r') ∈ rem w'.env y)
    (hu : u < w.env.nextUid) :
    ∃ r, (u, r) ∈ rem w.env y ∧ r' = r - (if w.operational y then e.time - w.now else 0) := by
  obtain ⟨env', henv, _, hkeep⟩ := step_spec h hst
  have huid : env'.nextUid = w.env.nextUid := (fin_step henv y).2.2.2
  have ht := h.fi.timer y hk
  rcases hkeep.rem y hk with he | he | ⟨u0, r0, he, hu0⟩
  · rw [he] at hm
    rcases rem_pop henv h.fi.ei.2 y hm with ⟨e', he', _, hmem, hr⟩ | ⟨e', he', _, hmem⟩
    · refine ⟨_, hmem, ?_⟩
      rw [operational_eq, op_of_pending ht he']
      simpa [World.now] using hr
    · refine ⟨_, hmem, ?_⟩
      rw [operational_eq, not_op_of_paused ht he']
      simp
  · rw [he] at hm; cases hm
  · rw [he] at hm
    simp only [List.mem_singleton, Prod.mk.injEq] at hm
    have : w.env.nextUid ≤ u := by
      rw [hm.1]
      have := hu0
      show w.env.nextUid ≤ u0
      exact huid ▸ this
    omega

/-- The finish event of a timing device fires exactly when the remaining work is used up: when it
is popped, it is THE timer of the device, the device is operational, and the time that passes until
the clock reaches it is the remaining work. -/
theorem finish_fires_at_zero {w : World} (h : WI w) {e : Event} {env' : Env}
    (henv : w.env.step = some (e, env')) {x : Nat} (hl : e.live = true) (ha : e.act = finAct x)
    (hk : (w.dev x).kind ≠ .source) :
    rem w.env x = [(e.uid, e.time - w.now)] ∧ w.operational x = true ∧
    (w.dev x).part.isSome = true ∧ (w.dev x).output = none ∧ isT (w.dev x).kind = true := by
  have ht := h.fi.timer x hk
  have hmem : e ∈ finE w.env x :=
    mem_finE.mpr ⟨mem_events_of_step henv, by simpa [Event.live] using hl, ha⟩
  have hop := op_of_pending ht hmem
  cases hp : (tdm (w.dev x)).part with
  | none => have := (ht.idle hp).1; rw [this] at hmem; cases hmem
  | some p =>
    obtain ⟨ho, hb⟩ := ht.busy p hp
    rw [hop] at hb
    simp only [if_true] at hb
    obtain ⟨e', he'⟩ := length_le_one_cases _ hb.1
    rw [he'] at hmem
    have : e = e' := List.mem_singleton.mp hmem
    subst this
    have hT : isT (w.dev x).kind = true := by
      cases hT : isT (w.dev x).kind with
      | true => rfl
      | false => simp [tdm, hT] at hp
    refine ⟨?_, by rw [operational_eq]; exact hop, ?_, by rw [← tdm_output hT]; exact ho, hT⟩
    · unfold rem; rw [he', hb.2]; rfl
    · rw [← tdm_part hT, hp]; rfl

end C06W
end SimProc
