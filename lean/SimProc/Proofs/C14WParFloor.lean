/-
C14W, pass 2 — `PP w t → PP (f w) (NX f w t)` for every function of `Model/Floor.lean`.
-/
import SimProc.Proofs.C14WPar

namespace SimProc
namespace C14W
open World C01W

section
variable {Q : Env → Env → Prop} {s1 m1 s2 m2 : Nat}
local notation "PP'" => PP Q s1 m1 s2 m2

theorem sw_self (w : World) : sw w ⟨w.env, w.seed, w.wmod⟩ = w := rfl

/-- Functions that do not touch the queue. -/
theorem pp_same (G : World → World) (hE : ∀ w t, G (sw w t) = sw (G w) t)
    (hV : ∀ w, Via w (G w)) {w : World} {t : Twin} (h : PP' w t) : PP' (G w) t := by
  have h0 := hE w ⟨w.env, w.seed, w.wmod⟩
  rw [sw_self] at h0
  have hnow : (G w).env.now = w.env.now := (hV w h.good).2.now
  have henv : (G w).env = w.env := by
    have := congrArg World.env h0
    rw [this]
    show se (G w) w.env = w.env
    simp only [se, hnow]
  refine ⟨(hV w h.good).1, ?_, ?_, h.tseed, h.twmod, ?_⟩
  · rw [h0]; exact h.seed
  · rw [h0]; exact h.wmod
  · have : se (G w) t.env = se w t.env := by simp only [se, hnow]
    rw [henv, this]; exact h.q

theorem pp_setWaiting {w : World} {t : Twin} (h : PP' w t) (x : Nat) (a b : Bool) :
    PP' (w.setWaiting x a b) t :=
  pp_same (fun v => v.setWaiting x a b) (fun w t => sw_setWaiting w t x a b)
    (fun w => Via_setWaiting w x a b) h

theorem pp_addHist {w : World} {t : Twin} (h : PP' w t) (p d : Nat) : PP' (w.addHist p d) t :=
  pp_same (fun v => v.addHist p d) (fun w t => sw_addHist w t p d) (fun w => Via_addHist w p d) h

theorem pp_dropHist {w : World} {t : Twin} (h : PP' w t) (p : Nat) : PP' (w.dropHist p) t :=
  pp_same (fun v => v.dropHist p) (fun w t => sw_dropHist w t p) (fun w => Via_dropHist w p) h

theorem pp_applyPartCb {w : World} {t : Twin} (h : PP' w t) (x p : Nat) (c : PartCb) :
    PP' (w.applyPartCb x p c) t :=
  pp_same (fun v => v.applyPartCb x p c) (fun w t => sw_applyPartCb w t x p c)
    (fun w => Via_applyPartCb w x p c) h

theorem pp_senseOutput {w : World} {t : Twin} (h : PP' w t) (s p : Nat) :
    PP' (w.senseOutput s p) t :=
  pp_same (fun v => v.senseOutput s p) (fun w t => sw_senseOutput w t s p)
    (fun w => Via_senseOutput w s p) h

theorem pp_genPart {w : World} {t : Twin} (h : PP' w t) (x : Nat) : PP' (w.genPart x).1 t :=
  pp_same (fun v => (v.genPart x).1) (fun w t => by rw [sw_genPart]) (fun w => Via_genPart w x) h

theorem pp_batcherLoop {w : World} {t : Twin} (h : PP' w t) (n x : Nat) :
    PP' (batcherLoop n w x) t :=
  pp_same (fun v => batcherLoop n v x) (fun w t => sw_batcherLoop n w t x)
    (fun w => Via_batcherLoop n w x) h

end

macro_rules | `(tactic| pp_step) => `(tactic| with_reducible apply pp_setWaiting)
macro_rules | `(tactic| pp_step) => `(tactic| with_reducible apply pp_addHist)
macro_rules | `(tactic| pp_step) => `(tactic| with_reducible apply pp_dropHist)
macro_rules | `(tactic| pp_step) => `(tactic| with_reducible apply pp_applyPartCb)
macro_rules | `(tactic| pp_step) => `(tactic| with_reducible apply pp_senseOutput)
macro_rules | `(tactic| pp_step) => `(tactic| with_reducible apply pp_batcherLoop)
macro_rules | `(tactic| pp_step) => `(tactic| with_reducible apply pp_rmEffects ‹Cong _ _ _ _ _›)

/-- After `destruct_pair`: the first component of a pair-valued call. -/
macro "pp_pair " t:term : tactic =>
  `(tactic| (refine PP.of_fst_eq $t (by assumption)))

section
variable {Q : Env → Env → Prop} {s1 m1 s2 m2 : Nat}
local notation "PP'" => PP Q s1 m1 s2 m2

theorem pp_schedulePass (hQ : Cong Q s1 m1 s2 m2) {w : World} {t : Twin} (h : PP' w t) (x : Nat)
    (o : Int) : PP' (w.schedulePass x o) (NX (fun v => v.schedulePass x o) w t) := by
  pp_go h [schedulePass]

end

macro_rules | `(tactic| pp_step) => `(tactic| with_reducible apply pp_schedulePass ‹Cong _ _ _ _ _›)

section
variable {Q : Env → Env → Prop} {s1 m1 s2 m2 : Nat}
local notation "PP'" => PP Q s1 m1 s2 m2

theorem pp_notifyUp_spaceAvail (hQ : Cong Q s1 m1 s2 m2) (n : Nat) :
    (∀ {w : World} {t : Twin}, PP' w t → ∀ x, PP' (notifyUp n w x) (NX (fun v => notifyUp n v x) w t)) ∧
    (∀ {w : World} {t : Twin}, PP' w t → ∀ x, PP' (spaceAvail n w x) (NX (fun v => spaceAvail n v x) w t)) := by
  induction n with
  | zero =>
    constructor <;> intro w t h x
    · pp_go h [notifyUp]
    · pp_go h [spaceAvail]
  | succ n ih =>
    obtain ⟨ihN, ihS⟩ := ih
    constructor <;> intro w t h x
    · pp_go h [notifyUp]
    · pp_go h [spaceAvail]

theorem pp_notifyUp (hQ : Cong Q s1 m1 s2 m2) {w : World} {t : Twin} (h : PP' w t) (n x : Nat) :
    PP' (notifyUp n w x) (NX (fun v => notifyUp n v x) w t) := (pp_notifyUp_spaceAvail hQ n).1 h x
theorem pp_spaceAvail (hQ : Cong Q s1 m1 s2 m2) {w : World} {t : Twin} (h : PP' w t) (n x : Nat) :
    PP' (spaceAvail n w x) (NX (fun v => spaceAvail n v x) w t) := (pp_notifyUp_spaceAvail hQ n).2 h x

theorem pp_notify (hQ : Cong Q s1 m1 s2 m2) {w : World} {t : Twin} (h : PP' w t) (x : Nat) :
    PP' (w.notify x) (NX (fun v => v.notify x) w t) := by
  pp_nx h
  bl_norm [notify]
  exact PPn.mk (pp_notifyUp hQ h _ _)

theorem pp_spaceAvailable (hQ : Cong Q s1 m1 s2 m2) {w : World} {t : Twin} (h : PP' w t) (x : Nat) :
    PP' (w.spaceAvailable x) (NX (fun v => v.spaceAvailable x) w t) := by
  pp_nx h
  bl_norm [spaceAvailable]
  exact PPn.mk (pp_spaceAvail hQ h _ _)

end

macro_rules | `(tactic| pp_step) => `(tactic| with_reducible apply pp_notify ‹Cong _ _ _ _ _›)
macro_rules | `(tactic| pp_step) => `(tactic| with_reducible apply pp_spaceAvailable ‹Cong _ _ _ _ _›)
/-- a world that is the first component of a destructured pair-valued call -/
macro_rules | `(tactic| pp_step) => `(tactic| refine PP.of_fst_eq ?_ (by assumption))

section
variable {Q : Env → Env → Prop} {s1 m1 s2 m2 : Nat}
local notation "PP'" => PP Q s1 m1 s2 m2

theorem pp_releaseReserved (hQ : Cong Q s1 m1 s2 m2) {w : World} {t : Twin} (h : PP' w t)
    (x : Nat) : PP' (w.releaseReserved x) (NX (fun v => v.releaseReserved x) w t) := by
  pp_go h [releaseReserved]

theorem pp_procAcquire (hQ : Cong Q s1 m1 s2 m2) {w : World} {t : Twin} (h : PP' w t)
    (x : Nat) : PP' (w.procAcquire x).1 (NX (fun v => (v.procAcquire x).1) w t) := by
  pp_go h [procAcquire]

theorem pp_finishCycleHandler (hQ : Cong Q s1 m1 s2 m2) {w : World} {t : Twin} (h : PP' w t)
    (x : Nat) : PP' (w.finishCycleHandler x) (NX (fun v => v.finishCycleHandler x) w t) := by
  pp_go h [finishCycleHandler]

end

macro_rules | `(tactic| pp_step) => `(tactic| with_reducible apply pp_releaseReserved ‹Cong _ _ _ _ _›)
macro_rules | `(tactic| pp_step) => `(tactic| with_reducible apply pp_procAcquire ‹Cong _ _ _ _ _›)
macro_rules | `(tactic| pp_step) => `(tactic| with_reducible apply pp_finishCycleHandler ‹Cong _ _ _ _ _›)
macro_rules | `(tactic| pp_step) => `(tactic| with_reducible apply pp_genPart)

section
variable {Q : Env → Env → Prop} {s1 m1 s2 m2 : Nat}
local notation "PP'" => PP Q s1 m1 s2 m2

theorem pp_finishCycle (hQ : Cong Q s1 m1 s2 m2) {w : World} {t : Twin} (h : PP' w t)
    (x : Nat) : PP' (w.finishCycle x) (NX (fun v => v.finishCycle x) w t) := by
  pp_go h [finishCycle]

end

macro_rules | `(tactic| pp_step) => `(tactic| with_reducible apply pp_finishCycle ‹Cong _ _ _ _ _›)

section
variable {Q : Env → Env → Prop} {s1 m1 s2 m2 : Nat}
local notation "PP'" => PP Q s1 m1 s2 m2

theorem pp_scheduleFinish (hQ : Cong Q s1 m1 s2 m2) {w : World} {t : Twin} (h : PP' w t)
    (x : Nat) : PP' (w.scheduleFinish x) (NX (fun v => v.scheduleFinish x) w t) := by
  pp_go h [scheduleFinish]

end

macro_rules | `(tactic| pp_step) => `(tactic| with_reducible apply pp_scheduleFinish ‹Cong _ _ _ _ _›)

section
variable {Q : Env → Env → Prop} {s1 m1 s2 m2 : Nat}
local notation "PP'" => PP Q s1 m1 s2 m2

theorem pp_tryMove (hQ : Cong Q s1 m1 s2 m2) {w : World} {t : Twin} (h : PP' w t)
    (x : Nat) : PP' (w.tryMove x) (NX (fun v => v.tryMove x) w t) := by
  pp_go h [tryMove]

end

macro_rules | `(tactic| pp_step) => `(tactic| with_reducible apply pp_tryMove ‹Cong _ _ _ _ _›)

section
variable {Q : Env → Env → Prop} {s1 m1 s2 m2 : Nat}
local notation "PP'" => PP Q s1 m1 s2 m2

theorem pp_onReceived (hQ : Cong Q s1 m1 s2 m2) {w : World} {t : Twin} (h : PP' w t)
    (x p : Nat) : PP' (w.onReceived x p) (NX (fun v => v.onReceived x p) w t) := by
  pp_go h [onReceived]

end

macro_rules | `(tactic| pp_step) => `(tactic| with_reducible apply pp_onReceived ‹Cong _ _ _ _ _›)

section
variable {Q : Env → Env → Prop} {s1 m1 s2 m2 : Nat}
local notation "PP'" => PP Q s1 m1 s2 m2

theorem pp_acceptPart (hQ : Cong Q s1 m1 s2 m2) {w : World} {t : Twin} (h : PP' w t)
    (x p : Nat) : PP' (w.acceptPart x p) (NX (fun v => v.acceptPart x p) w t) := by
  pp_go h [acceptPart]

/-! ### handing parts over -/

theorem pp_tryList (g : World → Nat → Nat → World × Bool)
    (hb : ∀ w t y p, g (sw w t) y p = (sw (g w y p).1 (NX (fun v => (g v y p).1) w t), (g w y p).2))
    (hp : ∀ {w : World} {t : Twin}, PP' w t → ∀ y p, PP' (g w y p).1 (NX (fun v => (g v y p).1) w t))
    (l : List Nat) (p : Nat) {w : World} {t : Twin} (h : PP' w t) :
    PP' (tryList g w l p).1 (NX (fun v => (tryList g v l p).1) w t) := by
  induction l generalizing w t with
  | nil => exact PP.nx (G := fun v => v) h (PPn.mk h)
  | cons y ys ih =>
    have h1 := hp h y p
    have h2 := ih h1
    refine PP.nx (G := fun v => (tryList g v (y :: ys) p).1) h ?_
    simp only [tryList, hb]
    cases hb' : (g w y p).2 with
    | true =>
      rw [show g w y p = ((g w y p).1, true) from Prod.ext rfl hb']
      exact PPn.mk h1
    | false =>
      rw [show g w y p = ((g w y p).1, false) from Prod.ext rfl hb']
      simp only [sw_tryList g hb]
      exact PPn.mk h2

end

macro_rules | `(tactic| pp_step) => `(tactic| with_reducible apply pp_acceptPart ‹Cong _ _ _ _ _›)
macro_rules | `(tactic| pp_step) => `(tactic|
  ((with_reducible apply pp_tryList (hb := ?hb) (hp := ?hp));
   case hb => (intro _ _ _ _; bl_norm []; done)
   case hp => (intro _ _ hfold _ _; pp_peel; done)))

section
variable {Q : Env → Env → Prop} {s1 m1 s2 m2 : Nat}
local notation "PP'" => PP Q s1 m1 s2 m2

theorem pp_give (hQ : Cong Q s1 m1 s2 m2) (n : Nat) :
    ∀ {w : World} {t : Twin}, PP' w t → ∀ x p,
      PP' (give n w x p).1 (NX (fun v => (give n v x p).1) w t) := by
  induction n with
  | zero =>
    intro w t h x p
    pp_go h [give]
  | succ n ih =>
    intro w t h x p
    pp_nx h
    simp only [give, sw_dev]
    split_match <;> (bl_go [] <;> pp_leaf)

theorem pp_givePart (hQ : Cong Q s1 m1 s2 m2) {w : World} {t : Twin} (h : PP' w t)
    (x p : Nat) : PP' (w.givePart x p).1 (NX (fun v => (v.givePart x p).1) w t) := by
  pp_nx h
  bl_norm [givePart]
  exact PPn.mk (pp_give hQ _ h _ _)

end

macro_rules | `(tactic| pp_step) => `(tactic| with_reducible apply pp_givePart ‹Cong _ _ _ _ _›)

section
variable {Q : Env → Env → Prop} {s1 m1 s2 m2 : Nat}
local notation "PP'" => PP Q s1 m1 s2 m2

theorem pp_passHandler (hQ : Cong Q s1 m1 s2 m2) {w : World} {t : Twin} (h : PP' w t)
    (x : Nat) : PP' (w.passHandler x) (NX (fun v => v.passHandler x) w t) := by
  pp_go h [passHandler]

theorem pp_bufferLoop (hQ : Cong Q s1 m1 s2 m2) (n : Nat) (x : Nat) :
    ∀ {w : World} {t : Twin}, PP' w t → PP' (bufferLoop n w x) (NX (fun v => bufferLoop n v x) w t) := by
  induction n with
  | zero => intro w t h; exact PP.nx (G := fun v => v) h (PPn.mk h)
  | succ n ih =>
    intro w t h
    pp_go h [bufferLoop]

end

macro_rules | `(tactic| pp_step) => `(tactic| with_reducible apply pp_passHandler ‹Cong _ _ _ _ _›)
macro_rules | `(tactic| pp_step) => `(tactic| with_reducible apply pp_bufferLoop ‹Cong _ _ _ _ _›)

section
variable {Q : Env → Env → Prop} {s1 m1 s2 m2 : Nat}
local notation "PP'" => PP Q s1 m1 s2 m2

theorem pp_passPart (hQ : Cong Q s1 m1 s2 m2) {w : World} {t : Twin} (h : PP' w t)
    (x : Nat) : PP' (w.passPart x) (NX (fun v => v.passPart x) w t) := by
  pp_go h [passPart]

end
end C14W
end SimProc
