/-
C13W, part 6: one step of the event loop from a state satisfying the closed-world invariant
`C06W.WI`, as far as a fixed processor `x` is concerned: accounting (the action of an event never
lets `uptime` / `utilization_time` jump), the state of a machine that is down, the output slot, the
ghost log of lost parts.
-/
import SimProc.Proofs.C13WStep
namespace SimProc
namespace C13W
open World FloorCoreL C06W C06T

variable {x : Nat}

theorem scriptsPlain_of_wi {w : World} (h : WI w) : ScriptsPlain w := scriptsPlain_of_static h.st.1

/-- `_release_resources_if_idle` changes the reservation only. -/
theorem releaseIfIdle_pvd (w : World) (y : Nat) :
    pvd ((w.releaseIfIdle y).dev y) =
      { pvd (w.dev y) with reserved := ((w.releaseIfIdle y).dev y).reserved } := by
  unfold World.releaseIfIdle
  split
  · have key : ∀ {α} (g : Dev → α), (∀ d r, g { d with reserved := r } = g d) →
        g ((w.releaseReserved y).dev y) = g (w.dev y) := fun g hg => releaseReserved_dev_field g hg w y y
    unfold pvd
    rw [key Dev.kind (fun _ _ => rfl), key Dev.aid (fun _ _ => rfl), key Dev.part (fun _ _ => rfl),
      key Dev.output (fun _ _ => rfl), key Dev.shutDown (fun _ _ => rfl),
      key Dev.uptime (fun _ _ => rfl), key Dev.lastRestore (fun _ _ => rfl),
      key Dev.timeInUse (fun _ _ => rfl), key Dev.lastUseStart (fun _ _ => rfl),
      key Dev.nShutCbs (fun _ _ => rfl), key Dev.nRestCbs (fun _ _ => rfl)]
  · rfl

theorem acc_of_pvd_reserved {w w' : World} (hn : w'.now = w.now) {r : Option Nat}
    (hd : pvd (w'.dev x) = { pvd (w.dev x) with reserved := r }) : Acc x w w' := by
  have h0 : (w'.dev x).kind = (w.dev x).kind := congrArg PV.kind hd
  have h1 : (w'.dev x).lastRestore = (w.dev x).lastRestore := congrArg PV.lastRestore hd
  have h2 : (w'.dev x).shutDown = (w.dev x).shutDown := congrArg PV.shutDown hd
  have h3 : (w'.dev x).lastUseStart = (w.dev x).lastUseStart := congrArg PV.lastUseStart hd
  have h4 : (w'.dev x).part = (w.dev x).part := congrArg PV.part hd
  have h5 : (w'.dev x).uptime = (w.dev x).uptime := congrArg PV.uptime hd
  have h6 : (w'.dev x).timeInUse = (w.dev x).timeInUse := congrArg PV.timeInUse hd
  refine ⟨hn, h0, fun u => ⟨by rw [h1, h2]; exact u.restore, by rw [h3, h4, h2]; exact u.use⟩,
    fun _ => ?_, fun _ => ?_⟩
  · unfold C13.uptimeAt Dev.uptimeAt; rw [hn, h1, h5]
  · unfold C13.utilAt Dev.utilAt; rw [hn, h3, h6]

theorem ofNat_fin {e : Event} {y : Nat} (ha : Action.ofNat e.act = .finishCycle y) : e.act = finAct y :=
  ofNat_finish ha

/-- the popped world has the devices of the world before -/
theorem pop_dev (w : World) (env' : Env) (y : Nat) : (({ w with env := env' } : World).dev y) = w.dev y := rfl

/-! ### the action of every event is continuous for the accounting -/

theorem acc_step {w w' : World} {e : Event} (h : WI w) (hk : (w.dev x).kind = .processor)
    (hst : w.step = some (e, w')) :
    ∃ env', w.env.step = some (e, env') ∧ StepK x w e env' w' ∧
      Acc x ({ w with env := env' } : World) w' := by
  obtain ⟨env', henv, sk⟩ := stepK (scriptsPlain_of_wi h) hk hst
  refine ⟨env', henv, sk, ?_⟩
  have hx : x < w.devs.length := lt_of_processor hk
  have hk1 : (({ w with env := env' } : World).dev x).kind = .processor := hk
  have hx1 : x < ({ w with env := env' } : World).devs.length := hx
  cases sk with
  | skipped hl hw => subst hw; exact Acc.refl _
  | fail y hl ha hw =>
    subst hw
    have hky := (failed_of_step h hst hl ha).kind
    have hy : y < ({ w with env := env' } : World).devs.length := lt_of_processor hky
    have hn := (failDev_frame ({ w with env := env' } : World) hy).2.2.2.1
    by_cases hyx : y = x
    · subst hyx
      refine ⟨hn, ?_, fun u => C13.upInv_fail _ hy u, fun _ => (C13.fail_continuous _ hy).1,
        fun _ => (C13.fail_continuous _ hy).2⟩
      rw [failDev_dev_same _ hy]; split <;> rfl
    · exact acc_of_pvd hn (by rw [failDev_dev_ne_c13 _ hy (Ne.symm hyx)])
  | finish y hl ha hw =>
    subst hw
    by_cases hyx : y = x
    · subst hyx
      have hT : isT (w.dev y).kind = true := by rw [hk]; rfl
      have hout : (({ w with env := env' } : World).dev y).part.isSome = true →
          (({ w with env := env' } : World).dev y).output = none := by
        intro hp
        obtain ⟨p, hp⟩ := Option.isSome_iff_exists.mp hp
        exact ((timer_spec h y hT).1 p hp).1
      refine ⟨now_finishCycle .., ?_, fun u => C13.upInv_finishCycle _ hk1 u hout,
        fun _ => (C13.finishCycle_continuous _ hk1).1, fun _ => (C13.finishCycle_continuous _ hk1).2⟩
      rw [finishCycle_proc_field Dev.kind (fun _ => rfl) (fun _ _ _ => rfl) _ hk1]
      unfold finDev finH; dsimp only; repeat' split
      all_goals rfl
    · exact acc_of_pv (pv_finishCycle x _ y hyx)
  | release y hl ha hw =>
    subst hw
    by_cases hyx : y = x
    · subst hyx
      exact acc_of_pvd_reserved (now_releaseIfIdle ..) (releaseIfIdle_pvd _ y)
    · exact acc_of_pv (pv_releaseIfIdle x _ y hyx)
  | pass y hl ha hw mv => exact mv.acc hk1
  | ctl hl ha hw mv => exact mv.acc hk1
  | other hl ha hpv => exact acc_of_pv hpv

/-- **One step, uptime**: over a whole step of the event loop (pop, clock, action) `uptime` of a
processor grows by the time that passes iff the processor was operational. -/
theorem uptime_step {w w' : World} {e : Event} (h : WI w) (hk : (w.dev x).kind = .processor)
    (hst : w.step = some (e, w')) :
    C13.uptimeAt w' x =
      C13.uptimeAt w x + (if (w.dev x).shutDown = false then e.time - w.now else 0) := by
  obtain ⟨env', henv, _, acc⟩ := acc_step h hk hst
  have hu := upInv_of_wi h x hk
  have hu1 : C13.UpInv ({ w with env := env' } : World) x := hu
  rw [acc.up hu1]
  exact uptime_integrates h henv x hk

/-- **One step, utilisation**: … and `utilization_time` iff it was operational with a part in
process. -/
theorem util_step {w w' : World} {e : Event} (h : WI w) (hk : (w.dev x).kind = .processor)
    (hst : w.step = some (e, w')) :
    C13.utilAt w' x =
      C13.utilAt w x +
        (if (w.dev x).part.isSome = true ∧ (w.dev x).shutDown = false then e.time - w.now else 0) := by
  obtain ⟨env', henv, _, acc⟩ := acc_step h hk hst
  have hu := upInv_of_wi h x hk
  have hu1 : C13.UpInv ({ w with env := env' } : World) x := hu
  rw [acc.ut hu1]
  exact utilization_integrates h henv x hk

/-! ### the ghost log of lost parts and the failure records change in failure steps only -/

theorem logs_step {w w' : World} {e : Event} (h : WI w) (hk : (w.dev x).kind = .processor)
    (hst : w.step = some (e, w'))
    (hnf : ¬ (e.live = true ∧ ∃ y, Action.ofNat e.act = .fail y)) :
    w'.lost = w.lost ∧ w'.recs.filter isFailRec = w.recs.filter isFailRec := by
  obtain ⟨env', henv, sk⟩ := stepK (scriptsPlain_of_wi h) hk hst
  have hk1 : (({ w with env := env' } : World).dev x).kind = .processor := hk
  cases sk with
  | skipped hl hw => subst hw; exact ⟨rfl, rfl⟩
  | fail y hl ha hw => exact absurd ⟨hl, y, ha⟩ hnf
  | finish y hl ha hw => subst hw; exact ⟨lost_finishCycle .., frecs_finishCycle ..⟩
  | release y hl ha hw => subst hw; exact ⟨lost_releaseIfIdle .., frecs_releaseIfIdle ..⟩
  | pass y hl ha hw mv => exact mv.flow_logs
  | ctl hl ha hw mv => exact ⟨(mv.slots hk1).lost, (mv.slots hk1).frecs⟩
  | other hl ha hpv => exact ⟨by have := pv_lost hpv; exact this, by have := pv_frecs hpv; exact this⟩

/-! ### a machine that is down before and after a step -/

/-- What a step can do to a processor `x` that is shut down before and after it. -/
structure Inert (x : Nat) (w : World) (e : Event) (w' : World) : Prop where
  output : (w'.dev x).output = (w.dev x).output
  uptime : (w'.dev x).uptime = (w.dev x).uptime
  lastRestore : (w'.dev x).lastRestore = none ∧ (w.dev x).lastRestore = none
  timeInUse : (w'.dev x).timeInUse = (w.dev x).timeInUse
  lastUseStart : (w'.dev x).lastUseStart = none ∧ (w.dev x).lastUseStart = none
  part : (w'.dev x).part = (w.dev x).part ∨
    (e.live = true ∧ Action.ofNat e.act = .fail x ∧ (w'.dev x).part = none)
  reserved : (w'.dev x).reserved = (w.dev x).reserved ∨
    (e.live = true ∧ (Action.ofNat e.act = .fail x ∨ Action.ofNat e.act = .releaseIfIdle x) ∧
      (w'.dev x).reserved = none)

theorem inert_of_pvd {w w' : World} {e : Event} (hu : C13.UpInv w x)
    (hd : (w.dev x).shutDown = true) (h : pvd (w'.dev x) = pvd (w.dev x)) : Inert x w e w' := by
  have hlr : (w.dev x).lastRestore = none := by
    cases hl : (w.dev x).lastRestore with
    | none => rfl
    | some t => have := hu.restore.mp (by simp [hl]); simp [hd] at this
  have hlu : (w.dev x).lastUseStart = none := by
    cases hl : (w.dev x).lastUseStart with
    | none => rfl
    | some t => have := (hu.use.mp (by simp [hl])).2; simp [hd] at this
  have h1 : (w'.dev x).lastRestore = (w.dev x).lastRestore := congrArg PV.lastRestore h
  have h3 : (w'.dev x).lastUseStart = (w.dev x).lastUseStart := congrArg PV.lastUseStart h
  exact ⟨congrArg PV.output h, congrArg PV.uptime h, ⟨h1.trans hlr, hlr⟩, congrArg PV.timeInUse h,
    ⟨h3.trans hlu, hlu⟩, Or.inl (congrArg PV.part h), Or.inl (congrArg PV.reserved h)⟩

theorem down_fields {w : World} (hu : C13.UpInv w x) (hd : (w.dev x).shutDown = true) :
    (w.dev x).lastRestore = none ∧ (w.dev x).lastUseStart = none := by
  constructor
  · cases hl : (w.dev x).lastRestore with
    | none => rfl
    | some t => have := hu.restore.mp (by simp [hl]); simp [hd] at this
  · cases hl : (w.dev x).lastUseStart with
    | none => rfl
    | some t => have := (hu.use.mp (by simp [hl])).2; simp [hd] at this

theorem inert_step {w w' : World} {e : Event} (h : WI w) (hk : (w.dev x).kind = .processor)
    (hst : w.step = some (e, w')) (hd : (w.dev x).shutDown = true)
    (hd' : (w'.dev x).shutDown = true) : Inert x w e w' := by
  obtain ⟨env', henv, sk, acc⟩ := acc_step h hk hst
  have hx : x < w.devs.length := lt_of_processor hk
  have hk1 : (({ w with env := env' } : World).dev x).kind = .processor := hk
  have hu := upInv_of_wi h x hk
  have hu1 : C13.UpInv ({ w with env := env' } : World) x := hu
  have hd1 : (({ w with env := env' } : World).dev x).shutDown = true := hd
  cases sk with
  | skipped hl hw => subst hw; exact inert_of_pvd hu hd rfl
  | fail y hl ha hw =>
    subst hw
    have hky := (failed_of_step h hst hl ha).kind
    have hy : y < ({ w with env := env' } : World).devs.length := lt_of_processor hky
    by_cases hyx : y = x
    · subst hyx
      have hds := failDev_dev_same ({ w with env := env' } : World) hy
      rw [if_pos hd1] at hds
      obtain ⟨hlr, hlu⟩ := down_fields hu hd
      refine ⟨by rw [hds]; rfl, by rw [hds]; rfl, ⟨by rw [hds]; exact hlr, hlr⟩, by rw [hds]; rfl,
        ⟨by rw [hds]; exact hlu, hlu⟩, Or.inr ⟨hl, ha, by rw [hds]⟩,
        Or.inr ⟨hl, Or.inl ha, by rw [hds]⟩⟩
    · exact inert_of_pvd hu hd (by rw [failDev_dev_ne_c13 _ hy (Ne.symm hyx)]; rfl)
  | finish y hl ha hw =>
    subst hw
    by_cases hyx : y = x
    · subst hyx
      have := (finish_at_zero h henv hl (ofNat_fin ha) (by rw [hk]; decide)).2.1
      simp [World.operational, hk, hd] at this
    · exact inert_of_pvd hu hd (by have := pv_dev (pv_finishCycle x ({ w with env := env' } : World) y hyx); exact this)
  | release y hl ha hw =>
    subst hw
    by_cases hyx : y = x
    · subst hyx
      have hp := releaseIfIdle_pvd ({ w with env := env' } : World) y
      obtain ⟨hlr, hlu⟩ := down_fields hu hd
      have h1 : ((({ w with env := env' } : World).releaseIfIdle y).dev y).lastRestore =
          (w.dev y).lastRestore := congrArg PV.lastRestore hp
      have h3 : ((({ w with env := env' } : World).releaseIfIdle y).dev y).lastUseStart =
          (w.dev y).lastUseStart := congrArg PV.lastUseStart hp
      refine ⟨congrArg PV.output hp, congrArg PV.uptime hp, ⟨h1.trans hlr, hlr⟩,
        congrArg PV.timeInUse hp, ⟨h3.trans hlu, hlu⟩, Or.inl (congrArg PV.part hp),
        Or.inr ⟨hl, Or.inr ha, ?_⟩⟩
      unfold World.releaseIfIdle
      have hop : ({ w with env := env' } : World).operational y = false := by
        simp [World.operational, hk1, hd1]
      simp only [hop, Bool.not_false, Bool.true_or, if_true]
      exact releaseReserved_reserved _ y
    · exact inert_of_pvd hu hd (by have := pv_dev (pv_releaseIfIdle x ({ w with env := env' } : World) y hyx); exact this)
  | pass y hl ha hw mv => exact inert_of_pvd hu hd (by have := pv_dev (mv.down_frame hk1 hd1); exact this)
  | ctl hl ha hw mv =>
    have sl := mv.slots hk1
    have hu' := acc.inv hu1
    have h1 := acc.up hu1
    have h2 := acc.ut hu1
    obtain ⟨a1, a2⟩ := down_fields hu hd
    obtain ⟨b1, b2⟩ := down_fields hu' hd'
    have hn : w'.now = ({ w with env := env' } : World).now := acc.now
    unfold C13.uptimeAt Dev.uptimeAt at h1
    unfold C13.utilAt Dev.utilAt at h2
    rw [b1] at h1
    rw [b2] at h2
    have a1' : (({ w with env := env' } : World).dev x).lastRestore = none := a1
    have a2' : (({ w with env := env' } : World).dev x).lastUseStart = none := a2
    rw [a1'] at h1
    rw [a2'] at h2
    simp only [Int.add_zero] at h1 h2
    exact ⟨sl.output, h1, ⟨b1, a1⟩, h2, ⟨b2, a2⟩, Or.inl sl.part, Or.inl sl.reserved⟩
  | other hl ha hpv => exact inert_of_pvd hu hd (by have := pv_dev hpv; exact this)

/-! ### the output slot: only the finish step fills it, only a hand-over empties it -/

theorem PMoves.output_flow {fl cl : Prop} {w w' : World} (m : PMoves x fl cl False w w')
    (hk : (w.dev x).kind = .processor) {q : Nat} (ho : (w.dev x).output = some q) :
    (w'.dev x).output = some q ∨ (cl ∧ w.operational x = true) := by
  induction m with
  | refl => exact Or.inl ho
  | @cons w0 w1 w2 a _ ih =>
    have hfl := a.flags hk
    have hop1 : w1.operational x = w0.operational x := by
      unfold World.operational; rw [hfl.1, hk, hfl.2]
    have hcan : ∀ p, w0.canAcceptBasic x p = true → False := by
      intro p hc
      unfold World.canAcceptBasic at hc
      simp [hk, ho] at hc
    have hstep : (w1.dev x).output = some q ∨ (cl ∧ w0.operational x = true) := by
      cases a with
      | frame h => exact Or.inl ((pv_output h).trans ho)
      | accept _ p hc => exact (hcan p hc).elim
      | acquire _ p hc => exact (hcan p hc).elim
      | clear hc h => exact Or.inr ⟨hc, h⟩
      | shutdown hc => exact hc.elim
      | restore hc => exact hc.elim
    rcases hstep with h1 | h1
    · rcases ih hfl.1 h1 with h2 | h2
      · exact Or.inl h2
      · exact Or.inr ⟨h2.1, hop1 ▸ h2.2⟩
    · exact Or.inr h1

/-- **A finished part stays in the output slot** of a processor across any step — maintenance
shutdown, failure, restoration, scripts, other machines' events — except a hand-over: a live
pass-part event of `x` itself, executed while `x` is operational. -/
theorem output_step {w w' : World} {e : Event} (h : WI w) (hk : (w.dev x).kind = .processor)
    (hst : w.step = some (e, w')) {q : Nat} (ho : (w.dev x).output = some q) :
    (w'.dev x).output = some q ∨
      (e.live = true ∧ Action.ofNat e.act = .passPart x ∧ w.operational x = true) := by
  obtain ⟨env', henv, sk⟩ := stepK (scriptsPlain_of_wi h) hk hst
  have hx : x < w.devs.length := lt_of_processor hk
  have hk1 : (({ w with env := env' } : World).dev x).kind = .processor := hk
  have ho1 : (({ w with env := env' } : World).dev x).output = some q := ho
  cases sk with
  | skipped hl hw => subst hw; exact Or.inl ho
  | fail y hl ha hw =>
    subst hw
    have hky := (failed_of_step h hst hl ha).kind
    have hy : y < ({ w with env := env' } : World).devs.length := lt_of_processor hky
    by_cases hyx : y = x
    · subst hyx
      exact Or.inl ((C13.fail_drops_input_only _ hy).2.1.trans ho)
    · left; rw [failDev_dev_ne_c13 _ hy (Ne.symm hyx)]; exact ho
  | finish y hl ha hw =>
    subst hw
    by_cases hyx : y = x
    · subst hyx
      have := (finish_at_zero h henv hl (ofNat_fin ha) (by rw [hk]; decide)).2.2.2
      rw [ho] at this; cases this
    · left; exact (pv_output (pv_finishCycle x ({ w with env := env' } : World) y hyx)).trans ho
  | release y hl ha hw =>
    subst hw
    by_cases hyx : y = x
    · subst hyx
      left
      have hp := releaseIfIdle_pvd ({ w with env := env' } : World) y
      exact (congrArg PV.output hp).trans ho
    · left; exact (pv_output (pv_releaseIfIdle x ({ w with env := env' } : World) y hyx)).trans ho
  | pass y hl ha hw mv =>
    rcases mv.output_flow hk1 ho1 with h1 | ⟨h1, h2⟩
    · exact Or.inl h1
    · subst h1; exact Or.inr ⟨hl, ha, h2⟩
  | ctl hl ha hw mv => exact Or.inl ((mv.slots hk1).output.trans ho)
  | other hl ha hpv => exact Or.inl ((pv_output hpv).trans ho1)

end C13W
end SimProc
