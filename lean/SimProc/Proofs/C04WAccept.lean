/-
C04 (general serial line) — layer 2: what accepting a part does to the invariant of the accepting
station (handler / processor, sink, buffer).
-/
import SimProc.Proofs.C04WSpec

set_option linter.unusedSimpArgs false
set_option linter.unusedVariables false

namespace SimProc
namespace C04W
open World C04
open SS (Key key cls)


/-! ### end of a cycle (handler, processor) -/

theorem rtj_produced (i : Nat) (recs : List Rec) (d : Nat) (t : Int) (p : Nat) (q v : Int) :
    rtj i (recs ++ [.produced d t p q v]) = rtj i recs := by
  rw [rtj_append]; simp [rtj]

theorem rtj_level (i : Nat) (recs : List Rec) (d : Nat) (t : Int) (n : Nat) :
    rtj i (recs ++ [.level d t n]) = rtj i recs := by
  rw [rtj_append]; simp [rtj]

theorem rtj_supplied (i : Nat) (recs : List Rec) (d : Nat) (t : Int) (p : Nat) :
    rtj i (recs ++ [.supplied d t p]) = rtj i recs := by
  rw [rtj_append]; simp [rtj]

theorem rtj_received (i : Nat) (recs : List Rec) (d : Nat) (t : Int) (p : Nat) (q v : Int) :
    rtj i (recs ++ [.received d t p q v]) = rtj i recs ++ (if d = i then [t] else []) := by
  rw [rtj_append]
  by_cases h : d = i <;> simp [rtj, h]

theorem finishHP_spec {P : Par} {s : S} (hG : Good P s) {j : Nat} (hj : j ≤ P.L.n)
    (hk : kindOf P.L j = .handler ∨ kindOf P.L j = .processor) (p : Nat)
    (hkeys : cls ((j : Int) + 1) s.evs = []) :
    dyn (dv (finishS P s j p) j) = { dyn (dv s j) with output := some p, part := none, wds := false } ∧
    cls ((j : Int) + 1) (finishS P s j p).evs = [(s.now, 28, (j : Int) + 1, 3 + 16 * j, false)] ∧
    (∀ i, rtj i (finishS P s j p).recs = rtj i s.recs) ∧
    Foot P.L [j] s (finishS P s j p) := by
  have hlt := hG.stat.lt hj
  have hkind := (hG.stat.facts hj).kind
  have hG1 : Good P (setD s j { dv s j with output := some p, part := none }) := hG.setD (by rfl)
  have hlt1 : j < (setD s j { dv s j with output := some p, part := none }).ds.length := by simpa using hlt
  have hk1 : cls ((j : Int) + 1) (setD s j { dv s j with output := some p, part := none }).evs = [] := hkeys
  have e1 : dyn (dv (finishHS P s j p) j) =
      { dyn (dv s j) with output := some p, part := none, wds := false } := by
    unfold finishHS
    rw [dyn_passS_same _ _ _ _ hlt1, dv_setD_same _ _ _ hlt]
    rfl
  have e2 : cls ((j : Int) + 1) (finishHS P s j p).evs = [(s.now, 28, (j : Int) + 1, 3 + 16 * j, false)] := by
    unfold finishHS
    rw [cls_passS_same hG1 hj 0 hk1]
    simp
  unfold finishS
  rcases hk with hk | hk <;> rw [hkind, hk] <;> simp only []
  · exact ⟨e1, e2, fun i => rfl, Foot.finishHS hG hj p⟩
  · have hlt2 : j < (finishHS P s j p).ds.length := by simpa [finishHS] using hlt
    refine ⟨?_, e2, fun i => ?_, Foot.finishPS hG hj p⟩
    · unfold finishPS
      simp only [dv_addR]
      rw [dv_setD_same _ _ _ hlt2]
      exact e1
    · unfold finishPS
      simp only [addR_recs, setD_recs]
      rw [rtj_produced]
      rfl

theorem Good.cycle_eq {P : Par} {s : S} (h : Good P s) {j : Nat} (hj : j ≤ P.L.n)
    (hb : isBuf P.L j = false) : (dv s j).cycle = (stn P.L j).c := by
  rw [(h.stat.facts hj).cycle, hb]; rfl

theorem Good.delay_eq {P : Par} {s : S} (h : Good P s) {j : Nat} (hj : j ≤ P.L.n)
    (hb : isBuf P.L j = true) : (dv s j).delay = (stn P.L j).c := by
  rw [(h.stat.facts hj).delay, hb]; rfl

theorem isBuf_hp {L : Line} {j : Nat} (hk : kindOf L j = .handler ∨ kindOf L j = .processor) :
    isBuf L j = false := by
  unfold isBuf; rcases hk with hk | hk <;> rw [hk] <;> rfl

/-- `_schedule_finish_cycle` of a handler / processor. -/
theorem schedFinHP_spec {P : Par} {s : S} (hG : Good P s) (hL : P.L.WF) {i : Nat} (hi : i ≤ P.L.n)
    (hk : kindOf P.L i = .handler ∨ kindOf P.L i = .processor) (p : Nat)
    (hkeys : cls ((i : Int) + 1) s.evs = []) :
    dyn (dv (schedFinS P s i p) i) =
      (if 0 < (stn P.L i).c then dyn (dv s i)
       else { dyn (dv s i) with output := some p, part := none, wds := false }) ∧
    cls ((i : Int) + 1) (schedFinS P s i p).evs =
      (if 0 < (stn P.L i).c then [(s.now + (stn P.L i).c, 32, (i : Int) + 1, 2 + 16 * i, false)]
       else [(s.now, 28, (i : Int) + 1, 3 + 16 * i, false)]) ∧
    (∀ i', rtj i' (schedFinS P s i p).recs = rtj i' s.recs) ∧
    Foot P.L [i] s (schedFinS P s i p) := by
  have hc := hG.cycle_eq hi (isBuf_hp hk)
  unfold schedFinS
  rw [hc]
  by_cases hpos : 0 < (stn P.L i).c
  · rw [if_neg (by omega), if_pos hpos, if_pos hpos, hG.aid hi]
    refine ⟨rfl, ?_, fun _ => rfl, Foot.push P s i _ _ _ hi (by omega)⟩
    exact SS.cls_insort_eq _ _ _ rfl hkeys
  · rw [if_pos (by omega), if_neg hpos, if_neg hpos]
    exact finishHP_spec hG hi hk p hkeys

/-- A handler / processor accepts a part. -/
theorem acceptHP_spec {P : Par} {s : S} (hG : Good P s) (hL : P.L.WF) {i : Nat} (h1 : 1 ≤ i)
    (hi : i < P.L.n) (hk : kindOf P.L i = .handler ∨ kindOf P.L i = .processor) (p : Nat)
    {xp xi xn : Nat} (hkeys : cls ((i : Int) + 1) s.evs = [])
    (hpd : PD P.L s.now i (dyn (dv s i)) xp xi xn .idle)
    (hent : rtj i s.recs = (List.range xp).map (fun k => dI P.L (i - 1) (k + 1)))
    (hE : dI P.L (i - 1) (xp + 1) = s.now) :
    cls ((i : Int) + 1) (acceptS P s i p).evs =
      keysOf P.L i xi (if 0 < (stn P.L i).c then .proc else .ready s.now) ∧
    PD P.L s.now i (dyn (dv (acceptS P s i p) i)) (xp + 1) xi xn
      (if 0 < (stn P.L i).c then .proc else .ready s.now) ∧
    rtj i (acceptS P s i p).recs = (List.range (xp + 1)).map (fun k => dI P.L (i - 1) (k + 1)) ∧
    Foot P.L [i] s (acceptS P s i p) := by
  have hle := Nat.le_of_lt hi
  have hlt := hG.stat.lt hle
  have hkind := (hG.stat.facts hle).kind
  obtain ⟨_, hxx⟩ := hpd.idle rfl
  have hsl := (Slots_hp hk _ _ _ _).1 hpd.slots
  have hw : (dv s i).waitingDS = false := by
    have := hpd.wds; simp [dyn] at this; exact this
  have hpart : (dv s i).part = none := by
    have := hsl.1; simp [dyn] at this; exact this
  have hout : (dv s i).output = none := by
    have := hsl.2; simp [dyn] at this; exact this
  have heI : eI P.L i (xi + 1) = s.now := by
    obtain ⟨i', rfl⟩ : ∃ i', i = i' + 1 := ⟨i - 1, by omega⟩
    rw [eI_succ, ← hxx]; exact hE
  -- the state after the part has been taken and logged
  let r : Rec := .received i s.now p (qual s p i) 0
  have hd1 : ∀ s1 : S, dv s1 i = dv (takeS s i p) i → dyn (dv s1 i) = { dyn (dv s i) with part := some p } := by
    intro s1 h; rw [h, dv_takeS_same _ _ _ hlt]; rfl
  -- common conclusion from the scheduling step
  have fin : ∀ s2 : S, Good P s2 → cls ((i : Int) + 1) s2.evs = [] →
      dyn (dv s2 i) = { dyn (dv s i) with part := some p } → s2.now = s.now →
      rtj i s2.recs = rtj i s.recs ++ [s.now] → Foot P.L [i] s s2 →
      cls ((i : Int) + 1) (schedFinS P s2 i p).evs =
        keysOf P.L i xi (if 0 < (stn P.L i).c then .proc else .ready s.now) ∧
      PD P.L s.now i (dyn (dv (schedFinS P s2 i p) i)) (xp + 1) xi xn
        (if 0 < (stn P.L i).c then .proc else .ready s.now) ∧
      rtj i (schedFinS P s2 i p).recs = (List.range (xp + 1)).map (fun k => dI P.L (i - 1) (k + 1)) ∧
      Foot P.L [i] s (schedFinS P s2 i p) := by
    intro s2 hG2 hk2 hd2 hn2 hr2 F2
    obtain ⟨e1, e2, e3, F3⟩ := schedFinHP_spec hG2 hL hle hk p hk2
    refine ⟨?_, ?_, ?_, F2.trans F3⟩
    · rw [e2, hn2]
      by_cases hpos : 0 < (stn P.L i).c
      · simp only [hpos, if_true, keysOf, heI]
      · simp only [hpos, if_false, keysOf]
    · rw [e1, hd2]
      have hcap1 := effCap_nonbuf P.L hle (isBuf_hp hk)
      by_cases hpos : 0 < (stn P.L i).c
      · simp only [hpos, if_true]
        exact { past := hpd.past, le := fun _ => by omega,
                cap := (by intro _ K hK; rw [hcap1] at hK; cases hK; omega),
                idle := (by intro h; cases h), nonidle := fun _ _ => by omega,
                procm := fun _ => ⟨isBuf_hp hk, hpos⟩, readym := (by intro t h; cases h),
                blockedm := (by intro h; cases h), exhm := (by intro h; cases h),
                wds := (by simp [dyn, hw]),
                slots := (Slots_hp hk _ _ _ _).2 (by simp [dyn, hout]) }
      · simp only [hpos, if_false]
        have hc0 : (stn P.L i).c = 0 := by have := c_nonneg hL hle; omega
        exact { past := hpd.past, le := fun _ => by omega,
                cap := (by intro _ K hK; rw [hcap1] at hK; cases hK; omega),
                idle := (by intro h; cases h), nonidle := fun _ _ => by omega,
                procm := (by intro h; cases h),
                readym := (by
                  intro t h; cases h
                  refine ⟨hi, by omega, ?_⟩
                  have := dI_ge_ec P.L hL hle xi
                  omega),
                blockedm := (by intro h; cases h), exhm := (by intro h; cases h),
                wds := (by simp),
                slots := (Slots_hp hk _ _ _ _).2 (by simp) }
    · rw [e3, hr2, hent, List.range_succ, List.map_append]
      simp [hE]
  unfold acceptS
  rw [hkind]
  rcases hk with hk' | hk' <;> rw [hk'] <;> simp only []
  · unfold acceptHS
    refine fin _ ((hG.takeS i p).addR _) hkeys (hd1 _ rfl) rfl ?_
      (((Foot.takeS P.L s i p)).trans (Foot.addR _ _ _ _ (by simp [RecIn])))
    simp only [addR_recs, takeS_recs, rtj_received, if_true]
  · unfold acceptPS
    simp only []
    have hlt1 : i < (addR (takeS s i p) (.received i s.now p (qual s p i) 0)).ds.length := by simpa using hlt
    refine fin _ (((hG.takeS i p).addR _).setD (by rfl)) hkeys ?_ rfl ?_
      ((((Foot.takeS P.L s i p)).trans (Foot.addR _ _ _ _ (by simp [RecIn]))).trans (Foot.setD _ _ _ _))
    · rw [dv_setD_same _ _ _ hlt1, dv_addR, dv_takeS_same _ _ _ hlt]; rfl
    · simp only [setD_recs, addR_recs, takeS_recs, rtj_received, if_true]

/-! ### the sink -/

theorem wakeS_quiet (P : Par) (s : S) (u : Nat) (h : (dv s u).waitingDS = false) : wakeS P s u = s := by
  unfold wakeS; rw [h]; rfl

theorem n_pos (L : Line) : 0 < L.n := by unfold Line.n; omega

theorem finishKS_eq {P : Par} {s : S} (hG : Good P s) :
    finishKS P s P.L.n =
      wakeS P (waitS (setD s P.L.n { dv s P.L.n with output := none, part := none }) P.L.n) (P.L.n - 1) := by
  have hlt := hG.stat.lt (Nat.le_refl _)
  have hkind := (hG.stat.facts (Nat.le_refl _)).kind
  unfold finishKS
  refine notifyS_wake P _ (by have := n_pos P.L; omega) ?_
  rw [dv_setD_same _ _ _ hlt]
  intro h
  have : (dv s P.L.n).kind = .buffer := h.1
  rw [hkind, kindOf_n] at this
  cases this

/-- The state of the sink after its cycle: the slot is free. -/
theorem finishKS_self {P : Par} {s : S} (hG : Good P s) :
    dyn (dv (finishKS P s P.L.n) P.L.n) = { dyn (dv s P.L.n) with output := none, part := none } ∧
    cls ((P.L.n : Int) + 1) (finishKS P s P.L.n).evs = cls ((P.L.n : Int) + 1) s.evs ∧
    (finishKS P s P.L.n).recs = s.recs := by
  have hlt := hG.stat.lt (Nat.le_refl _)
  have h := notifyS_self (hG.setD (j := P.L.n) (d := { dv s P.L.n with output := none, part := none }) (by rfl))
    (Nat.le_refl _)
  unfold finishKS
  refine ⟨?_, h.2.1, h.2.2.1⟩
  rw [h.1, dv_setD_same _ _ _ hlt]
  rfl

theorem dI_sink {L : Line} (hL : L.WF) (k : Nat) : dI L L.n (k + 1) = dI L (L.n - 1) (k + 1) + (stn L L.n).c := by
  have hn := n_pos L
  obtain ⟨n', hn'⟩ : ∃ n', L.n = n' + 1 := ⟨L.n - 1, by omega⟩
  have h1 := dI_rec L hL L.n k _ (stations_get L (Nat.le_refl _))
  rw [blockI_beyond L (by omega)] at h1
  have he : eI L L.n (k + 1) = dI L (L.n - 1) (k + 1) := by
    rw [hn']; rfl
  rw [he] at h1
  have hb : (stn L L.n).isBuffer = false := by rw [stn_n]; rfl
  rw [hb] at h1
  have h2 := dI_nonneg L hL (L.n - 1) (k + 1)
  have h3 := c_nonneg hL (Nat.le_refl L.n)
  rw [h1]
  simp only [Bool.false_eq_true, if_false]
  omega

/-- The sink accepts a part. -/
theorem acceptK_spec {P : Par} {s : S} (hG : Good P s) (hL : P.L.WF) (p : Nat)
    {xp xi xn : Nat} (hkeys : cls ((P.L.n : Int) + 1) s.evs = [])
    (hpd : PD P.L s.now P.L.n (dyn (dv s P.L.n)) xp xi xn .idle)
    (hent : rtj P.L.n s.recs = (List.range xp).map (fun k => dI P.L (P.L.n - 1) (k + 1)))
    (hE : dI P.L (P.L.n - 1) (xp + 1) = s.now) (hq : (dv s (P.L.n - 1)).waitingDS = false) :
    cls ((P.L.n : Int) + 1) (acceptS P s P.L.n p).evs =
      keysOf P.L P.L.n (if 0 < (stn P.L P.L.n).c then xi else xi + 1)
        (if 0 < (stn P.L P.L.n).c then .proc else .idle) ∧
    PD P.L s.now P.L.n (dyn (dv (acceptS P s P.L.n p) P.L.n)) (xp + 1)
      (if 0 < (stn P.L P.L.n).c then xi else xi + 1) xn
      (if 0 < (stn P.L P.L.n).c then .proc else .idle) ∧
    rtj P.L.n (acceptS P s P.L.n p).recs =
      (List.range (xp + 1)).map (fun k => dI P.L (P.L.n - 1) (k + 1)) ∧
    Foot P.L [P.L.n] s (acceptS P s P.L.n p) := by
  have hn := n_pos P.L
  have hle := Nat.le_refl P.L.n
  have hlt := hG.stat.lt hle
  have hkind := (hG.stat.facts hle).kind
  have hks := kindOf_n P.L
  obtain ⟨_, hxx⟩ := hpd.idle rfl
  have hsl := (Slots_sink hks _ _ _ _).1 hpd.slots
  have hpart : (dv s P.L.n).part = none := by
    have := hsl.1; simp [dyn] at this; exact this
  have hout : (dv s P.L.n).output = none := hsl.2.1
  have hrc : (dv s P.L.n).recvCount = (xp : Int) := hsl.2.2
  have hw : (dv s P.L.n).waitingDS = false := by
    have := hpd.wds; simp [dyn] at this; exact this
  have hbuf : isBuf P.L P.L.n = false := by unfold isBuf; rw [hks]; rfl
  have hcap1 := effCap_nonbuf P.L hle hbuf
  have hdn := dI_sink hL xi
  -- the state before the cycle is scheduled
  let d0 := dv (takeS (addDel s p) P.L.n p) P.L.n
  let s3 := addR (setD (takeS (addDel s p) P.L.n p) P.L.n
      { d0 with recvCount := d0.recvCount + ((1 : Nat) : Int), recvValue := d0.recvValue + 0,
                val := d0.val.addValue lblCollected s.now 0,
                collected := if d0.collect then d0.collected ++ [p] else d0.collected })
      (.received P.L.n s.now p (qual s p P.L.n) 0)
  have hG3 : Good P s3 := (((hG.addDel p).takeS _ p).setD (by rfl)).addR _
  have hlt0 : P.L.n < (takeS (addDel s p) P.L.n p).ds.length := by simpa using hlt
  have hd3 : dyn (dv s3 P.L.n) = { dyn (dv s P.L.n) with part := some p, recvCount := (xp : Int) + 1 } := by
    show dyn (dv (setD _ _ _) _) = _
    rw [dv_setD_same _ _ _ hlt0]
    show dyn { d0 with recvCount := _, recvValue := _, val := _, collected := _ } = _
    have : d0 = { dv s P.L.n with part := some p, since := none } := dv_takeS_same (addDel s p) _ p hlt
    rw [this]
    simp [dyn, hrc]
  have F3 : Foot P.L [P.L.n] s s3 :=
    (((Foot.addDel P.L _ s p).trans (Foot.takeS P.L _ _ p)).trans (Foot.setD P.L _ _ _)).trans
      (Foot.addR _ _ _ _ (by simp [RecIn]))
  have hk3 : cls ((P.L.n : Int) + 1) s3.evs = [] := hkeys
  have hr3 : rtj P.L.n s3.recs = rtj P.L.n s.recs ++ [s.now] := by
    show rtj P.L.n (s.recs ++ [_]) = _
    rw [rtj_received, if_pos rfl]
  have hent' : rtj P.L.n s3.recs = (List.range (xp + 1)).map (fun k => dI P.L (P.L.n - 1) (k + 1)) := by
    rw [hr3, hent, List.range_succ, List.map_append]; simp [hE]
  have hacc : acceptS P s P.L.n p = schedFinS P s3 P.L.n p := by
    unfold acceptS
    rw [hkind, hks]
    rfl
  rw [hacc]
  have hc := hG3.cycle_eq hle hbuf
  unfold schedFinS
  rw [hc]
  by_cases hpos : 0 < (stn P.L P.L.n).c
  · simp only [hpos, if_true, if_neg (by omega : ¬ (stn P.L P.L.n).c ≤ 0)]
    rw [hG3.aid hle]
    refine ⟨?_, ?_, hent', F3.trans (Foot.push P s3 _ _ _ _ hle (by show s.now ≤ s.now + _; omega))⟩
    · have heI : eI P.L P.L.n (xi + 1) = s.now := by
        obtain ⟨n', hn'⟩ : ∃ n', P.L.n = n' + 1 := ⟨P.L.n - 1, by omega⟩
        rw [hn', eI_succ, ← hxx]
        have : n' = P.L.n - 1 := by omega
        rw [this]; exact hE
      rw [push_evs]
      refine (SS.cls_insort_eq ((P.L.n : Int) + 1) _ _ rfl hk3).trans ?_
      simp only [keysOf, heI, key_mkEv]
      rfl
    · rw [dv_push, hd3]
      exact { past := hpd.past, le := fun _ => by omega,
              cap := (by intro _ K hK; rw [hcap1] at hK; cases hK; omega),
              idle := (by intro h; cases h), nonidle := fun _ _ => by omega,
              procm := fun _ => ⟨hbuf, hpos⟩, readym := (by intro t h; cases h),
              blockedm := (by intro h; cases h), exhm := (by intro h; cases h),
              wds := (by simp [dyn, hw]),
              slots := (Slots_sink hks _ _ _ _).2 (by simp [dyn, hout]) }
  · have hc0 : (stn P.L P.L.n).c = 0 := by have := c_nonneg hL hle; omega
    simp only [hpos, if_false, if_pos (by omega : (stn P.L P.L.n).c ≤ 0)]
    have hfin : finishS P s3 P.L.n p = finishKS P s3 P.L.n := by
      unfold finishS
      rw [(hG3.stat.facts hle).kind, hks]
    rw [hfin]
    obtain ⟨e1, e2, e3⟩ := finishKS_self hG3
    have hlt3 : P.L.n < s3.ds.length := hG3.stat.lt hle
    have Fk : Foot P.L [P.L.n] s3 (finishKS P s3 P.L.n) := by
      rw [finishKS_eq hG3, wakeS_quiet]
      · exact (Foot.setD P.L _ _ _).trans (Foot.waitS P.L _ _)
      · rw [dv_waitS_ne _ _ _ (by omega), dv_setD_ne _ _ _ _ (by omega), F3.dvj _ (by simp; omega)]
        exact hq
    refine ⟨?_, ?_, by rw [e3]; exact hent', F3.trans Fk⟩
    · rw [e2, hk3]; rfl
    · rw [e1, hd3]
      exact { past := (by rw [hdn, ← hxx, hE, hc0]; omega), le := fun _ => by omega,
              cap := (by intro _ K hK; rw [hcap1] at hK; cases hK; omega),
              idle := fun _ => ⟨by omega, by omega⟩, nonidle := fun _ h => absurd rfl h,
              procm := (by intro h; cases h), readym := (by intro t h; cases h),
              blockedm := (by intro h; cases h), exhm := (by intro h; cases h),
              wds := (by simp [dyn, hw]),
              slots := (Slots_sink hks _ _ _ _).2 (by simp [dyn]) }

/-! ### buffers -/

/-- A notification whose upstream station is not waiting touches only the notifying station. -/
theorem notifyS_quiet {P : Par} {s : S} (hG : Good P s) {i : Nat} (hi : i ≤ P.L.n) (h1 : 1 ≤ i)
    (hq : (dv s (i - 1)).waitingDS = false) : Foot P.L [i] s (notifyS P s i) := by
  unfold notifyS
  split
  · exact Foot.refl _ _ _
  · rw [if_neg (by omega), wakeS_quiet]
    · exact Foot.waitS P.L s i
    · rw [dv_waitS_ne _ _ _ (by omega)]; exact hq

def bufMode (now c : Int) (m : Mode) : Mode := if m = .idle then .ready (now + c) else m

theorem acceptB_spec {P : Par} {s : S} (hG : Good P s) (hL : P.L.WF) {i : Nat} (h1 : 1 ≤ i)
    (hi : i < P.L.n) (hk : kindOf P.L i = .buffer) (p : Nat)
    {xp xi xn : Nat} {m : Mode} (hkeys : cls ((i : Int) + 1) s.evs = keysOf P.L i xi m)
    (hpd : PD P.L s.now i (dyn (dv s i)) xp xi xn m)
    (hent : rtj i s.recs = (List.range xp).map (fun k => dI P.L (i - 1) (k + 1)))
    (hE : dI P.L (i - 1) (xp + 1) = s.now) (hq : (dv s (i - 1)).waitingDS = false)
    (hroom : ∀ K, (stn P.L i).effCap = some K → xp < xi + K) :
    cls ((i : Int) + 1) (acceptS P s i p).evs = keysOf P.L i xi (bufMode s.now (stn P.L i).c m) ∧
    PD P.L s.now i (dyn (dv (acceptS P s i p) i)) (xp + 1) xi xn (bufMode s.now (stn P.L i).c m) ∧
    rtj i (acceptS P s i p).recs = (List.range (xp + 1)).map (fun k => dI P.L (i - 1) (k + 1)) ∧
    Foot P.L [i] s (acceptS P s i p) := by
  have hle := Nat.le_of_lt hi
  have hlt := hG.stat.lt hle
  have hkind := (hG.stat.facts hle).kind
  have hbuf : isBuf P.L i = true := by unfold isBuf; rw [hk]; rfl
  have hsl := (Slots_buffer hk _ _ _ _).1 hpd.slots
  simp only [dyn] at hsl
  obtain ⟨hpart, hout, hlev, hbt⟩ := hsl
  have hxle := hpd.le h1
  have heIp : eI P.L i (xp + 1) = s.now := by
    obtain ⟨i', rfl⟩ : ∃ i', i = i' + 1 := ⟨i - 1, by omega⟩
    rw [eI_succ]; exact hE
  -- the state before the part joins the queue
  obtain ⟨d0, hd0'⟩ : ∃ d, d = dv (takeS s i p) i := ⟨_, rfl⟩
  obtain ⟨s3, hs3⟩ : ∃ s3, s3 = addR (addR (setD (takeS s i p) i { d0 with level := d0.level + 1 })
      (.level i s.now (d0.level + 1))) (.received i s.now p (qual s p i) 0) := ⟨_, rfl⟩
  have hG3 : Good P s3 := by rw [hs3]; exact (((hG.takeS i p).setD (by rw [hd0']; rfl)).addR _).addR _
  have hlt0 : i < (takeS s i p).ds.length := by simpa using hlt
  have hd0 : d0 = { dv s i with part := some p, since := none } := by
    rw [hd0']; exact dv_takeS_same s i p hlt
  have hdv3 : dv s3 i = { d0 with level := d0.level + 1 } := by
    rw [hs3, dv_addR, dv_addR, dv_setD_same _ _ _ hlt0]
  have F3 : Foot P.L [i] s s3 := by
    rw [hs3]
    exact (((Foot.takeS P.L s i p).trans (Foot.setD P.L _ _ _)).trans
      (Foot.addR _ _ _ (.level i s.now (d0.level + 1)) trivial)).trans
      (Foot.addR _ _ _ _ (by simp [RecIn]))
  have hn3 : s3.now = s.now := F3.now
  have hr3 : rtj i s3.recs = rtj i s.recs ++ [s.now] := by
    rw [hs3]
    show rtj i ((s.recs ++ [_]) ++ [_]) = _
    rw [rtj_received, if_pos rfl, rtj_level]
  have hent' : rtj i s3.recs = (List.range (xp + 1)).map (fun k => dI P.L (i - 1) (k + 1)) := by
    rw [hr3, hent, List.range_succ, List.map_append]; simp [hE]
  have hk3 : cls ((i : Int) + 1) s3.evs = keysOf P.L i xi m := by rw [hs3]; exact hkeys
  have hacc : acceptS P s i p = moveBS P s3 i p := by
    unfold acceptS
    rw [hkind, hk, hs3, hd0']
    rfl
  rw [hacc]
  clear hs3 hacc
  -- the queue is extended
  obtain ⟨s4, hs4⟩ : ∃ s4, s4 = setD s3 i { dv s3 i with buf := (dv s3 i).buf ++ [(s3.now, p)], part := none } :=
    ⟨_, rfl⟩
  have hG4 : Good P s4 := by rw [hs4]; exact hG3.setD (by rfl)
  have hlt3 : i < s3.ds.length := hG3.stat.lt hle
  have hdv4 : dv s4 i = { dv s i with since := none, level := (dv s i).level + 1,
                                      buf := (dv s i).buf ++ [(s.now, p)], part := none } := by
    rw [hs4, dv_setD_same _ _ _ hlt3, hdv3, hd0, hn3]
  have F4 : Foot P.L [i] s3 s4 := by rw [hs4]; exact Foot.setD P.L _ _ _
  have hq4 : (dv s4 (i - 1)).waitingDS = false := by
    rw [F4.dvj _ (by simp; omega), F3.dvj _ (by simp; omega)]; exact hq
  have hk4 : cls ((i : Int) + 1) s4.evs = keysOf P.L i xi m := by rw [hs4]; exact hk3
  have hr4 : s4.recs = s3.recs := by rw [hs4]; rfl
  have hn4 : s4.now = s.now := by rw [F4.now, hn3]
  have F5 : Foot P.L [i] s4 (notifyS P s4 i) := notifyS_quiet hG4 hle h1 hq4
  obtain ⟨e1, e2, e3, _⟩ := notifyS_self hG4 hle
  have hG5 := hG4.notifyS i
  have hlt5 : i < (notifyS P s4 i).ds.length := hG5.stat.lt hle
  have hk5 : cls ((i : Int) + 1) (notifyS P s4 i).evs = keysOf P.L i xi m := by rw [e2]; exact hk4
  have hlen : (dv (notifyS P s4 i) i).buf.length = xp - xi + 1 := by
    have : (dyn (dv (notifyS P s4 i) i)).buf = (dyn (dv s4 i)).buf := by rw [e1]
    simp only [dyn] at this
    rw [this, hdv4]
    have hl : ((dv s i).buf.map (·.1)).length = xp - xi := by rw [hbt]; simp
    simp at hl
    simp [hl]
  have hdelay : (dv s3 i).delay = (stn P.L i).c := hG3.delay_eq hle hbuf
  have hcapK : ∀ K, (stn P.L i).effCap = some K → xp + 1 ≤ xi + K := fun K hK => by
    have := hroom K hK; omega
  have hslots' : ∀ w, Slots P.L i { dyn (dv s4 i) with wds := w } (xp + 1) xi (bufMode s.now (stn P.L i).c m) := by
    intro w
    refine (Slots_buffer hk _ _ _ _).2 ?_
    rw [hdv4]
    refine ⟨rfl, hout, ?_, ?_⟩
    · show (dv s i).level + 1 = xp + 1 - xi
      rw [hlev]; omega
    · show ((dv s i).buf ++ [(s.now, p)]).map (·.1) = _
      have : xp + 1 - xi = (xp - xi) + 1 := by omega
      rw [List.map_append, hbt, this, List.range_succ, List.map_append]
      simp only [List.map_cons, List.map_nil]
      have : xi + 1 + (xp - xi) = xp + 1 := by omega
      rw [this, heIp]
  have hnow4 : (notifyS P s4 i).now = s.now := by rw [notifyS_now, hn4]
  have hmv : moveBS P s3 i p =
      if ((dv (notifyS P s4 i) i).buf.length == 1) = true then passS P (notifyS P s4 i) i (dv s3 i).delay
      else notifyS P s4 i := by
    unfold moveBS; rw [hs4]
  rw [hmv]
  clear hmv hs4
  by_cases hm : m = .idle
  · -- the queue was empty: a hand-over is scheduled
    have hxx := (hpd.idle hm).2
    have hb1 : ((dv (notifyS P s4 i) i).buf.length == 1) = true := by rw [hlen]; simp; omega
    rw [if_pos hb1]
    have hbm : bufMode s.now (stn P.L i).c m = .ready (s.now + (stn P.L i).c) := by
      unfold bufMode; rw [if_pos hm]
    subst hm
    refine ⟨?_, ?_, ?_, ((F3.trans F4).trans F5).trans
      (Foot.passS hG5 hle _ (by rw [hdelay]; exact c_nonneg hL hle))⟩
    · rw [cls_passS_same hG5 hle _ (by rw [hk5]; rfl), hnow4, hdelay, hbm]
      rfl
    · rw [dyn_passS_same _ _ _ _ hlt5, e1, hbm]
      have := hslots' false
      rw [hbm] at this
      exact { past := hpd.past, le := fun _ => by omega, cap := fun _ K hK => hcapK K hK,
              idle := (by intro h; cases h), nonidle := fun _ _ => by omega,
              procm := (by intro h; cases h),
              readym := (by
                intro t h; cases h
                refine ⟨hi, ?_, ?_⟩
                · rw [← hxx, heIp]; omega
                · have := dI_ge_ec P.L hL hle xi
                  rw [← hxx, heIp] at this
                  rw [← hxx]; exact this),
              blockedm := (by intro h; cases h), exhm := (by intro h; cases h),
              wds := (by simp), slots := this }
    · rw [passS_recs, e3, hr4]; exact hent'
  · have hlt' := hpd.nonidle h1 hm
    have hb1 : ¬ ((dv (notifyS P s4 i) i).buf.length == 1) = true := by rw [hlen]; simp; omega
    rw [if_neg hb1]
    have hbm : bufMode s.now (stn P.L i).c m = m := by unfold bufMode; rw [if_neg hm]
    refine ⟨by rw [hbm]; exact hk5, ?_, by rw [e3, hr4]; exact hent', (F3.trans F4).trans F5⟩
    rw [e1]
    have hw : (dyn (dv s4 i)).wds = (dyn (dv s i)).wds := by rw [hdv4]; rfl
    have := (hslots' false).congr (d' := dyn (dv s4 i)) rfl rfl rfl rfl rfl rfl Iff.rfl Iff.rfl
    rw [hbm] at this ⊢
    exact { past := hpd.past, le := fun _ => by omega, cap := fun _ K hK => hcapK K hK,
            idle := fun h => absurd h hm, nonidle := fun _ _ => by omega,
            procm := hpd.procm, readym := hpd.readym, blockedm := hpd.blockedm, exhm := hpd.exhm,
            wds := (by rw [hw]; exact hpd.wds), slots := this }


/-! ### accepting a part, uniformly -/

/-- Number of parts that have left station `i` after it accepted a part (a sink with cycle time 0
frees its slot at once). -/
def accX (L : Line) (i xi : Nat) : Nat :=
  if i = L.n ∧ ¬ 0 < (stn L i).c then xi + 1 else xi

/-- Mode of station `i` after it accepted a part at time `now`. -/
def accM (L : Line) (i : Nat) (now : Int) (m : Mode) : Mode :=
  if isBuf L i then bufMode now (stn L i).c m
  else if 0 < (stn L i).c then .proc
  else if i = L.n then .idle else .ready now

theorem accept_spec {P : Par} {s : S} (hG : Good P s) (hL : P.L.WF) {i : Nat} (h1 : 1 ≤ i)
    (hi : i ≤ P.L.n) (p : Nat) {xp xi xn : Nat} {m : Mode}
    (hkeys : cls ((i : Int) + 1) s.evs = keysOf P.L i xi m)
    (hpd : PD P.L s.now i (dyn (dv s i)) xp xi xn m)
    (hent : rtj i s.recs = (List.range xp).map (fun k => dI P.L (i - 1) (k + 1)))
    (hE : dI P.L (i - 1) (xp + 1) = s.now) (hq : (dv s (i - 1)).waitingDS = false)
    (hc : canAcc (dv s i) = true) :
    cls ((i : Int) + 1) (acceptS P s i p).evs = keysOf P.L i (accX P.L i xi) (accM P.L i s.now m) ∧
    PD P.L s.now i (dyn (dv (acceptS P s i p) i)) (xp + 1) (accX P.L i xi) xn (accM P.L i s.now m) ∧
    rtj i (acceptS P s i p).recs = (List.range (xp + 1)).map (fun k => dI P.L (i - 1) (k + 1)) ∧
    Foot P.L [i] s (acceptS P s i p) := by
  have hroom := (room_iff hG.stat h1 hi hpd).1 hc
  cases hb : isBuf P.L i
  · have hm : m = .idle := (canAcc_nonbuf hG.stat h1 hi hb hpd).1 hc
    subst hm
    have hk0 : cls ((i : Int) + 1) s.evs = [] := hkeys
    by_cases hin : i = P.L.n
    · subst hin
      have := acceptK_spec hG hL p hk0 hpd hent hE hq
      unfold accX accM
      rw [hb]
      by_cases hpos : 0 < (stn P.L P.L.n).c
      · simpa [hpos] using this
      · simpa [hpos] using this
    · have hlt : i < P.L.n := by omega
      have hk : kindOf P.L i = .handler ∨ kindOf P.L i = .processor := by
        rcases kindOf_mid P.L i (by omega) hlt with h | h | h
        · exact Or.inl h
        · exact Or.inr h
        · unfold isBuf at hb; rw [h] at hb; simp at hb
      have := acceptHP_spec hG hL h1 hlt hk p hk0 hpd hent hE
      unfold accX accM
      rw [hb]
      by_cases hpos : 0 < (stn P.L i).c
      · simpa [hpos, hin] using this
      · simpa [hpos, hin] using this
  · have hk := kind_buffer_of_isBuf hb
    have hlt : i < P.L.n := by
      by_cases hin : i = P.L.n
      · subst hin; rw [kindOf_n] at hk; cases hk
      · omega
    have := acceptB_spec hG hL h1 hlt hk p hkeys hpd hent hE hq hroom
    unfold accX accM
    rw [hb]
    have hne : ¬ (i = P.L.n ∧ ¬ 0 < (stn P.L i).c) := fun h => by omega
    rw [if_neg hne]
    simpa using this

/-- The hand-over of the part at the head of station `j` to station `j+1`, which has room: the
part leaves `j` exactly at the reference's time. -/
theorem handover_time {P : Par} {s : S} (hG : Good P s) (hL : P.L.WF) {j : Nat} (hj : j < P.L.n)
    {xj x1 x2 : Nat} {m1 : Mode}
    (hpd1 : PD P.L s.now (j + 1) (dyn (dv s (j + 1))) xj x1 x2 m1)
    (hc : canAcc (dv s (j + 1)) = true)
    (hlo : eI P.L j (xj + 1) + (stn P.L j).c ≤ s.now) (hpast : dI P.L j xj ≤ s.now)
    (hup : s.now ≤ dI P.L j (xj + 1)) :
    dI P.L j (xj + 1) = s.now := by
  have hroom := (room_iff hG.stat (by omega) (by omega : j + 1 ≤ P.L.n) hpd1).1 hc
  have hle : dI P.L j (xj + 1) ≤ s.now := by
    refine dI_le_of P.L hL (Nat.le_of_lt hj) xj s.now hlo hpast ?_
    refine blockI_le_of_room P.L hL (j + 1) xj x1 s.now ?_ hpd1.past hG.now0
    intro K _ hK
    have := hroom K hK
    omega
  omega

end C04W
end SimProc
