/-
C15W / C16W — machinery, part 4: reachable states, fresh worlds, and the lifting of the key
invariants to every reachable state.
-/
import SimProc.Proofs.C15WInv

namespace SimProc
namespace C15W
open World FloorCoreL C15 RM

/-- The states reachable from `w0`: initialise (`System.simulate`, first part), then any sequence
of steps of the event loop, whole runs (`Environment.run`: `runBegin`, `runLoop`) and scripted
operations issued from outside that create no assets. -/
inductive Reachable (w0 : World) : World → Prop where
  | init : Reachable w0 w0.simulateInit
  | step {w w' : World} {e : Event} : Reachable w0 w → w.step = some (e, w') → Reachable w0 w'
  | run {w : World} (n : Nat) : Reachable w0 w → Reachable w0 (runLoop n w)
  | runBegin {w : World} (d : Int) : Reachable w0 w → Reachable w0 (w.runBegin d).1
  | ops {w : World} (ops : List Op) : Reachable w0 w → (∀ op ∈ ops, Op.isCreate op = false) →
      Reachable w0 (w.applyOps ops)

/-- A world before its first `simulate`: empty log, all counters at zero, all values at their
start, the resource manager not yet initialised (its pools have distinct names). -/
def Fresh (w : World) : Prop :=
  w.recs = [] ∧ w.delivered = [] ∧ w.rm.inited = false ∧ (w.rm.pools.map (·.1)).Nodup ∧
  (∀ d ∈ w.devs, d.produced = 0 ∧ d.costProduced = 0 ∧ d.recvCount = 0 ∧ d.recvValue = 0 ∧
    d.level = 0 ∧ d.val.value = d.val.init ∧ d.val.hist = []) ∧
  (∀ m ∈ w.maints, m.m.val.value = m.m.val.init ∧ m.m.val.hist = [])

instance (w : World) : Decidable (Fresh w) := by unfold Fresh; infer_instance

theorem scr_runBegin (w : World) (d : Int) : (w.runBegin d).1.scripts = w.scripts := by
  unfold World.runBegin
  dsimp only
  split <;> rfl

/-- From the fresh world to any reachable state: the initialisation phase, then a run. -/
theorem reach_key {w0 w : World} (hn : NoCreate w0) (hi : w0.rm.inited = false)
    (hr : Reachable w0 w) :
    KStep .init (key w0) (key w0.simulateInit) ∧ KRun (key w0.simulateInit) (key w) ∧ NoCreate w := by
  have h0 : KStep .init (key w0) (key w0.simulateInit) := KS_simulateInit rfl w0 hi
  induction hr with
  | init => exact ⟨h0, KRun.refl _, hn.of_scripts (C02V.scr_simulateInit w0)⟩
  | step _ hst ih =>
    have := KRun_step ih.2.2 hst
    exact ⟨h0, ih.2.1.trans this.1, this.2⟩
  | run n _ ih =>
    have := KRun_runLoop n _ ih.2.2
    exact ⟨h0, ih.2.1.trans this.1, this.2⟩
  | runBegin d _ ih =>
    exact ⟨h0, ih.2.1.trans (KRun.act (KS_runBegin _ d)), ih.2.2.of_scripts (scr_runBegin _ d)⟩
  | ops ops _ hops ih =>
    exact ⟨h0, ih.2.1.trans (KRun.act (KS_applyOps ops _ hops)),
      ih.2.2.of_scripts (C02V.scr_applyOps ops _)⟩

/-- Lifting: an invariant `I0` of the initialisation phase that implies an invariant `I` of the
run phase gives `I` in every reachable state. -/
theorem reach_inv {I0 I : WKey → Prop} {w0 w : World}
    (hinit : ∀ {k k'}, KStep .init k k' → I0 k → I0 k') (hconv : ∀ k, I0 k → I k)
    (hstep : ∀ {k k'}, KStep .run k k' → I k → I k')
    (henv : ∀ (k : WKey) (e : Env), I k → I { k with env := e })
    (h0 : I0 (key w0)) (hn : NoCreate w0) (hi : w0.rm.inited = false) (hr : Reachable w0 w) :
    I (key w) := by
  obtain ⟨h1, h2, _⟩ := reach_key hn hi hr
  exact KRun.preserve hstep henv h2 (hconv _ (hinit h1 h0))

/-! ### the invariants in a fresh world -/

theorem dev_mem_or_default (w : World) (y : Nat) : w.dev y ∈ w.devs ∨ w.dev y = default := by
  unfold World.dev
  by_cases h : y < w.devs.length
  · left
    have : w.devs.getD y default = w.devs[y] := by simp [List.getD_eq_getElem?_getD, h]
    rw [this]; exact List.getElem_mem h
  · right
    simp [List.getD_eq_getElem?_getD, Nat.le_of_not_lt h]

theorem maint_mem_or_default (w : World) (m : Nat) :
    (∃ mw ∈ w.maints, w.maint m = mw.m) ∨ w.maint m = default := by
  unfold World.maint
  by_cases h : m < w.maints.length
  · left
    have : w.maints.getD m default = w.maints[m] := by simp [List.getD_eq_getElem?_getD, h]
    rw [this]; exact ⟨_, List.getElem_mem h, rfl⟩
  · right
    simp [List.getD_eq_getElem?_getD, Nat.le_of_not_lt h]
    rfl

theorem Fresh.dev {w : World} (h : Fresh w) (y : Nat) :
    (w.dev y).produced = 0 ∧ (w.dev y).costProduced = 0 ∧ (w.dev y).recvCount = 0 ∧
    (w.dev y).recvValue = 0 ∧ (w.dev y).level = 0 ∧ (w.dev y).val.value = (w.dev y).val.init ∧
    (w.dev y).val.hist = [] := by
  rcases dev_mem_or_default w y with hm | hd
  · exact h.2.2.2.2.1 _ hm
  · rw [hd]; exact ⟨rfl, rfl, rfl, rfl, rfl, rfl, rfl⟩

theorem Fresh.maint {w : World} (h : Fresh w) (m : Nat) :
    (w.maint m).val.value = (w.maint m).val.init ∧ (w.maint m).val.hist = [] := by
  rcases maint_mem_or_default w m with ⟨mw, hm, e⟩ | hd
  · rw [e]; exact h.2.2.2.2.2 _ hm
  · rw [hd]; exact ⟨rfl, rfl⟩

theorem vinv_fresh (a : AssetVal) (h1 : a.value = a.init) (h2 : a.hist = []) : C16.VInv a := by
  obtain ⟨i, v, hs⟩ := a
  simp only at h1 h2
  subst h1 h2
  exact C16.vinv_new _

theorem Fresh.supInv {w : World} (h : Fresh w) : SupInv (key w) := by
  intro y
  rw [key_dev]
  show (w.dev y).produced = countSup w.recs y
  rw [(h.dev y).1, h.1]; rfl

theorem Fresh.levelInv {w : World} (h : Fresh w) : LevelInvK (key w) := by
  intro y
  rw [key_dev]
  show (lastLevel w.recs y).getD 0 = (w.dev y).level
  rw [(h.dev y).2.2.2.2.1, h.1]; rfl

theorem Fresh.valInv {w : World} (h : Fresh w) : ValInv (key w) := by
  refine ⟨fun y => ?_, fun m => ?_⟩
  · rw [key_dev]
    exact vinv_fresh _ (h.dev y).2.2.2.2.2.1 (h.dev y).2.2.2.2.2.2
  · rw [key_mval]
    exact vinv_fresh _ (h.maint m).1 (h.maint m).2

theorem Fresh.zeroInv {w : World} (h : Fresh w) : ZeroInv (key w) := by
  intro y
  rw [key_dev]
  exact ⟨(h.dev y).2.1, (h.dev y).2.2.2.1, (h.dev y).2.2.2.2.2.1⟩

theorem Fresh.labelInv {w : World} (h : Fresh w) : LabelInv (key w) := by
  refine ⟨fun y e he => ?_, fun m e he => ?_⟩
  · rw [key_dev] at he
    have : (w.dev y).val.hist = [] := (h.dev y).2.2.2.2.2.2
    rw [show (dkey (w.dev y)).val.hist = (w.dev y).val.hist from rfl, this] at he
    cases he
  · rw [key_mval, (h.maint m).2] at he
    cases he

theorem sum_map_zero {α} (f : α → Int) (l : List α) (h : ∀ a ∈ l, f a = 0) : (l.map f).sum = 0 := by
  induction l with
  | nil => rfl
  | cons a l ih =>
    simp only [List.map_cons, List.sum_cons, h a (List.mem_cons_self ..),
      ih (fun b hb => h b (List.mem_cons_of_mem _ hb))]
    rfl

theorem Fresh.delivInv {w : World} (h : Fresh w) : DelivInv (key w) := by
  refine ⟨?_, fun y _ => ?_⟩
  · show ((w.devs.map dkey).map (·.recvCount)).sum = ((w.delivered.length : Nat) : Int)
    rw [h.2.1, List.map_map]
    exact sum_map_zero _ _ (fun d hd => (h.2.2.2.2.1 d hd).2.2.1)
  · rw [key_dev]; exact (h.dev y).2.2.1

theorem Fresh.recvValInv {w : World} (h : Fresh w) : RecvValInv (key w) := by
  intro y _
  rw [key_dev]
  show (w.dev y).recvValue = recvSum w.recs y
  rw [(h.dev y).2.2.2.1, h.1]; rfl

theorem Fresh.resInv {w : World} (h : Fresh w) : ResInv (key w) := by
  refine ⟨h.2.2.2.1, fun hin => ?_, fun _ r => ?_⟩
  · rw [show (key w).rmInited = w.rm.inited from rfl, h.2.2.1] at hin; cases hin
  · show lastResUpdate w.recs r = none
    rw [h.1]; rfl

theorem Fresh.hasRecInv {w : World} (h : Fresh w) : HasRecInv (key w) := by
  refine ⟨h.2.2.2.1, fun hin => ?_⟩
  rw [show (key w).rmInited = w.rm.inited from rfl, h.2.2.1] at hin; cases hin

theorem Fresh.timeInv {w : World} (h : Fresh w) (he : C01.Inv w.env) : TimeInv (key w) := by
  refine ⟨he, ?_, ?_⟩
  · intro r hr
    rw [show (key w).recs = w.recs from rfl, h.1] at hr; cases hr
  · show Sorted w.recs
    rw [h.1]; exact List.Pairwise.nil

end C15W
end SimProc
