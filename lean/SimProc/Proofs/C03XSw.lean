/-
C03W — the static world `sw w` (static part of every device, scripts, which device a maintenance
target shuts down) is never changed by a world whose scripts contain no `rewire` / `create`.
-/
import SimProc.Proofs.C03XStatic
import SimProc.Proofs.C03XSwv

namespace SimProc
namespace C03W
open World C02V

/-- static devices / targets and scripts are unchanged -/
def SW (w w' : World) : Prop := swv w' = swv w ∧ w'.scripts = w.scripts

theorem SW.refl (w : World) : SW w w := ⟨rfl, rfl⟩
theorem SW.trans {a b c : World} (h1 : SW a b) (h2 : SW b c) : SW a c :=
  ⟨h2.1.trans h1.1, h2.2.trans h1.2⟩

theorem SW.sw_eq {w w' : World} (h : SW w w') : sw w' = sw w := by
  have h1 : w'.devs.map stat1 = w.devs.map stat1 := congrArg Prod.fst h.1
  have h2 : w'.targets.map (·.dev) = w.targets.map (·.dev) := congrArg (fun t => t.2.1) h.1
  have h3 : w'.groups = w.groups := congrArg (fun t => t.2.2) h.1
  unfold sw
  rw [h1, h.2, h3]
  have : ∀ l : List Target, l.map (fun t => ({ dev := t.dev } : Target)) =
      (l.map (·.dev)).map (fun d => ({ dev := d } : Target)) := by
    intro l; rw [List.map_map]; rfl
  rw [this, this w.targets, h2]

theorem NR.of_sw {w w' : World} (h : NR w) (r : SW w w') : NR w' := by
  intro l hl op hop
  rw [r.2] at hl
  exact h l hl op hop

theorem sw_applyOps (ops : List Op) : ∀ (w : World), NR w →
    (∀ op ∈ ops, ∃ l ∈ w.scripts, op ∈ l) → SW w (w.applyOps ops) := by
  induction ops with
  | nil => intro w _ _; exact SW.refl w
  | cons op ops ih =>
    intro w h hsub
    unfold World.applyOps
    simp only [List.foldl_cons]
    obtain ⟨l, hl, hop⟩ := hsub op (List.mem_cons_self ..)
    have hn := h l hl op hop
    have r1 : SW w ((w.applyOp op).1.addRes (w.applyOp op).2) :=
      ⟨swv_applyOp w op hn.1 hn.2, scr_applyOp w op⟩
    have := ih _ (h.of_sw r1) (fun o ho => by
      rw [r1.2]; exact hsub o (List.mem_cons_of_mem _ ho))
    unfold World.applyOps at this
    exact r1.trans this

theorem sw_runScript (w : World) (k : Nat) (h : NR w) : SW w (w.runScript k) := by
  unfold World.runScript
  apply sw_applyOps _ w h
  intro op hop
  by_cases hk : k < w.scripts.length
  · have : w.scripts.getD k [] = w.scripts[k] := by simp [List.getD_eq_getElem?_getD, hk]
    rw [this] at hop
    exact ⟨_, List.getElem_mem hk, hop⟩
  · have : w.scripts.getD k [] = [] := by simp [List.getD_eq_getElem?_getD, Nat.le_of_not_lt hk]
    rw [this] at hop; cases hop

theorem sw_scan (n : Nat) : ∀ (w : World) (i : Nat), NR w → SW w (scanWaiting scanOps n w i) := by
  induction n with
  | zero => intro w i _; exact SW.refl w
  | succ n ih =>
    intro w i h
    unfold scanWaiting
    split
    · exact SW.refl w
    · split
      · rename_i req cb _ _
        have r1 : SW w (scanOps.erase (scanOps.call w cb req) i) := by
          cases cb with
          | script k =>
            have r0 : SW w (w.addRes (.cb k)) := ⟨rfl, rfl⟩
            exact (r0.trans (sw_runScript _ k (h.of_sw r0))).trans ⟨rfl, rfl⟩
          | proc d => exact ⟨swv_procResourceCb w d, scr_procResourceCb w d⟩
        exact r1.trans (ih _ _ (h.of_sw r1))
      · exact ih _ _ h

theorem sw_hookStart (w : World) (tgt : Nat) (tag : Int) (h : NR w) : SW w (w.hookStart tgt tag) := by
  have r0 : SW w (w.addRes (.hook true tgt tag)) := ⟨rfl, rfl⟩
  unfold World.hookStart
  simp only []
  split
  · exact r0.trans ⟨swv_shutdownDev .., scr_shutdownDev ..⟩
  · split
    · exact r0.trans (sw_runScript _ _ (h.of_sw r0))
    · exact r0

theorem sw_hookEnd (w : World) (tgt : Nat) (tag : Int) (h : NR w) : SW w (w.hookEnd tgt tag) := by
  have r0 : SW w (w.addRes (.hook false tgt tag)) := ⟨rfl, rfl⟩
  unfold World.hookEnd
  simp only []
  split
  · exact r0.trans ⟨swv_restoreDev .., scr_restoreDev ..⟩
  · split
    · exact r0.trans (sw_runScript _ _ (h.of_sw r0))
    · exact r0

theorem sw_startWork (w : World) (m seq : Nat) (h : NR w) : SW w (w.startWork m seq) := by
  have key : ∀ w' : World, SW w w' → ∀ t g a b c d,
      SW w ((w'.hookStart t g).schedLib a b c d) := fun w' r t g a b c d =>
    (r.trans (sw_hookStart w' t g (h.of_sw r))).trans ⟨swv_schedLib .., scr_schedLib ..⟩
  unfold World.startWork
  split
  · exact ⟨swv_setErr .., scr_setErr ..⟩
  · simp only []
    refine key _ ?_ _ _ _ _ _ _
    exact ⟨rfl, rfl⟩

theorem sw_finishWork (w : World) (m seq : Nat) (h : NR w) : SW w (w.finishWork m seq) := by
  have key : ∀ w' : World, SW w w' → ∀ w'' : World, SW w' w'' → ∀ m l,
      SW w (w''.startOrders m l) := fun w' r w'' r' m l =>
    (r.trans r').trans ⟨swv_startOrders .., scr_startOrders ..⟩
  unfold World.finishWork
  split
  · exact ⟨swv_setErr .., scr_setErr ..⟩
  · simp only []
    rename_i o _
    refine key _ (sw_hookEnd w o.target o.tag h) _ ?_ _ _
    exact ⟨rfl, rfl⟩

theorem sw_exec (w : World) (a : Action) (h : NR w) : SW w (w.exec a) := by
  cases a with
  | terminate => exact SW.refl w
  | script k => exact sw_runScript w k h
  | finishCycle d => exact ⟨swv_finishCycle w d, scr_finishCycle w d⟩
  | passPart d => exact ⟨swv_passPart w d, scr_passPart w d⟩
  | fail d => exact ⟨swv_failDev w d, scr_failDev w d⟩
  | releaseIfIdle d => exact ⟨swv_releaseIfIdle w d, scr_releaseIfIdle w d⟩
  | rmCheck => exact sw_scan _ _ _ h
  | startWork m o => exact sw_startWork w m o h
  | finishWork m o => exact sw_finishWork w m o h
  | schedUpdate s => exact ⟨swv_schedUpdate w s true, scr_schedUpdate w s true⟩
  | periodicSense s => exact ⟨swv_periodicSense w s, scr_periodicSense w s⟩
  | unknown n => exact ⟨swv_setErr .., scr_setErr ..⟩

theorem sw_step (w w' : World) (e : Event) (h : NR w) (hst : w.step = some (e, w')) : SW w w' := by
  unfold World.step at hst
  split at hst
  · cases hst
  · rename_i e' env' henv
    simp only [Option.some.injEq, Prod.mk.injEq] at hst
    obtain ⟨rfl, rfl⟩ := hst
    split
    · exact (show SW w { w with env := env' } from ⟨rfl, rfl⟩).trans (sw_exec _ _ h)
    · exact ⟨rfl, rfl⟩

theorem sw_runLoop (n : Nat) : ∀ (w : World), NR w → SW w (runLoop n w) := by
  induction n with
  | zero => intro w _; exact ⟨swv_setErr .., scr_setErr ..⟩
  | succ n ih =>
    intro w h
    unfold runLoop
    split
    · split
      · exact SW.refl w
      · rename_i e w' hst
        have r := sw_step w w' e h hst
        exact r.trans (ih w' (h.of_sw r))
    · exact SW.refl w

theorem sw_runBegin (w : World) (d : Int) : SW w (w.runBegin d).1 := by
  unfold World.runBegin
  dsimp only
  split <;> exact ⟨rfl, rfl⟩

theorem sw_simulateInit (w : World) : SW w w.simulateInit := by
  unfold World.simulateInit
  split
  · exact SW.refl w
  · simp only []
    constructor
    · show swv (List.foldl _ _ _) = _
      rw [foldl_proj swv _ _ _ (fun _ _ => swv_initAsset ..), swv_rmEffects]; rfl
    · show World.scripts (List.foldl _ _ _) = _
      rw [foldl_proj World.scripts _ _ _ (fun _ _ => scr_initAsset ..), scr_rmEffects]

end C03W
end SimProc
