/-
General list / queue lemmas used by `SimProc/Props/C07.lean`.
-/
import SimProc.Proofs.EnvLemmas

namespace SimProc

/-! ### `insort` keeps the order of what is already there -/

theorem sublist_insort (x : Event) (l : List Event) : l.Sublist (insort x l) := by
  induction l with
  | nil => simp [insort]
  | cons e es ih =>
    simp only [insort]; split
    · exact List.sublist_cons_self _ _
    · exact List.Sublist.cons_cons e ih

theorem sublist_insortAll (q l : List Event) : q.Sublist (insortAll q l) := by
  induction l generalizing q with
  | nil => exact List.Sublist.refl _
  | cons e es ih =>
    simp only [insortAll, List.foldl_cons]
    exact (sublist_insort e q).trans (ih (insort e q))

/-! ### filtering twice -/

theorem filter_not_filter {α : Type} (p : α → Bool) (l : List α) :
    (l.filter (fun e => !p e)).filter p = [] := by
  induction l with
  | nil => rfl
  | cons e es ih =>
    cases hp : p e <;> simp [hp, ih]

theorem filter_not_idem {α : Type} (p : α → Bool) (l : List α) :
    (l.filter (fun e => !p e)).filter (fun e => !p e) = l.filter (fun e => !p e) := by
  induction l with
  | nil => rfl
  | cons e es ih =>
    cases hp : p e <;> simp [hp, ih]

theorem filter_eq_nil_of_forall {α : Type} (p : α → Bool) (l : List α)
    (h : ∀ e ∈ l, p e = false) : l.filter p = [] := by
  induction l with
  | nil => rfl
  | cons e es ih =>
    have he := h e (by simp)
    simp only [List.filter_cons, he, Bool.false_eq_true, if_false]
    exact ih (fun x hx => h x (by simp [hx]))

theorem filter_eq_self_of_forall {α : Type} (p : α → Bool) (l : List α)
    (h : ∀ e ∈ l, p e = true) : l.filter p = l := by
  induction l with
  | nil => rfl
  | cons e es ih =>
    have he := h e (by simp)
    simp only [List.filter_cons, he, if_true]
    rw [ih (fun x hx => h x (by simp [hx]))]

/-! ### a key that is duplicate-free identifies the element -/

theorem eq_of_nodup_map {α β : Type} (f : α → β) {l : List α} (h : (l.map f).Nodup)
    {x y : α} (hx : x ∈ l) (hy : y ∈ l) (hxy : f x = f y) : x = y := by
  induction l with
  | nil => cases hx
  | cons e es ih =>
    simp only [List.map_cons, List.nodup_cons, List.mem_map, not_exists, not_and] at h
    rcases List.mem_cons.mp hx with hx1 | hx1
    · rcases List.mem_cons.mp hy with hy1 | hy1
      · rw [hx1, hy1]
      · subst hx1; exact absurd hxy.symm (h.1 y hy1)
    · rcases List.mem_cons.mp hy with hy1 | hy1
      · subst hy1; exact absurd hxy (h.1 x hx1)
      · exact ih h.2 hx1 hy1

end SimProc
