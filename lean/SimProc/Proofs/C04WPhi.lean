/-
C04 (general serial line) — a termination measure for runs with a finite budget: every event
strictly decreases `phi` (four units per part still to leave a station, plus the pending events).
-/
import SimProc.Proofs.C04WAccept

set_option linter.unusedSimpArgs false
set_option linter.unusedVariables false

namespace SimProc
namespace C04W
open World C04

/-- Number of events a station's mode still owes. -/
def rank : Mode → Nat
  | .proc => 2
  | .ready _ => 1
  | _ => 0

theorem rank_le (m : Mode) : rank m ≤ 2 := by cases m <;> simp [rank]

/-- Weight of station `j`: four units per part of the budget `B` that has not left it yet, plus its
pending events. -/
def wt (B : Nat) (x : Nat → Nat) (m : Nat → Mode) (j : Nat) : Nat := 4 * (B - x j) + rank (m j)

def sumTo (n : Nat) (f : Nat → Nat) : Nat := ((List.range (n + 1)).map f).sum

/-- The termination measure. -/
def phi (P : Par) (B : Nat) (x : Nat → Nat) (m : Nat → Mode) : Nat := sumTo P.L.n (wt B x m)

theorem sumTo_succ (n : Nat) (f : Nat → Nat) : sumTo (n + 1) f = sumTo n f + f (n + 1) := by
  unfold sumTo
  rw [List.range_succ, List.map_append, List.sum_append]
  simp

theorem sumTo_zero (f : Nat → Nat) : sumTo 0 f = f 0 := by simp [sumTo]

theorem sumTo_congr {n : Nat} {f g : Nat → Nat} (h : ∀ i, i ≤ n → f i = g i) : sumTo n f = sumTo n g := by
  induction n with
  | zero => rw [sumTo_zero, sumTo_zero, h 0 (Nat.le_refl _)]
  | succ n ih => rw [sumTo_succ, sumTo_succ, ih (fun i hi => h i (by omega)), h (n + 1) (Nat.le_refl _)]

/-- Changing a function at one point. -/
theorem sumTo_local1 {n : Nat} {f g : Nat → Nat} {a : Nat} (ha : a ≤ n)
    (h : ∀ i, i ≤ n → i ≠ a → g i = f i) : sumTo n g + f a = sumTo n f + g a := by
  induction n with
  | zero =>
    have : a = 0 := by omega
    subst this
    rw [sumTo_zero, sumTo_zero]; omega
  | succ n ih =>
    rw [sumTo_succ, sumTo_succ]
    by_cases hn : a = n + 1
    · subst hn
      have := sumTo_congr (n := n) (f := g) (g := f) (fun i hi => h i (by omega) (by omega))
      omega
    · have := ih (by omega) (fun i hi hne => h i (by omega) hne)
      have := h (n + 1) (Nat.le_refl _) (by omega)
      omega

/-- Changing a function at two points. -/
theorem sumTo_local2 {n : Nat} {f g : Nat → Nat} {a b : Nat} (ha : a ≤ n) (hb : b ≤ n) (hab : a ≠ b)
    (h : ∀ i, i ≤ n → i ≠ a → i ≠ b → g i = f i) :
    sumTo n g + f a + f b = sumTo n f + g a + g b := by
  -- go through the function that agrees with `g` except at `b`, where it is `f`
  let k : Nat → Nat := fun i => if i = b then f b else g i
  have h1 : sumTo n g + k b = sumTo n k + g b :=
    sumTo_local1 hb (fun i _ hne => by simp [k, hne])
  have h2 : sumTo n k + f a = sumTo n f + k a :=
    sumTo_local1 ha (fun i hi hne => by
      by_cases hib : i = b
      · subst hib; simp [k]
      · simp [k, hib]; exact h i hi hne hib)
  have hkb : k b = f b := by simp [k]
  have hka : k a = g a := by simp [k, hab]
  omega

/-- Changing a function at three points. -/
theorem sumTo_local3 {n : Nat} {f g : Nat → Nat} {a b c : Nat} (ha : a ≤ n) (hb : b ≤ n) (hc : c ≤ n)
    (hab : a ≠ b) (hac : a ≠ c) (hbc : b ≠ c)
    (h : ∀ i, i ≤ n → i ≠ a → i ≠ b → i ≠ c → g i = f i) :
    sumTo n g + f a + f b + f c = sumTo n f + g a + g b + g c := by
  let k : Nat → Nat := fun i => if i = c then f c else g i
  have h1 : sumTo n g + k c = sumTo n k + g c :=
    sumTo_local1 hc (fun i _ hne => by simp [k, hne])
  have h2 : sumTo n k + f a + f b = sumTo n f + k a + k b :=
    sumTo_local2 ha hb hab (fun i hi hna hnb => by
      by_cases hic : i = c
      · subst hic; simp [k]
      · simp [k, hic]; exact h i hi hna hnb hic)
  have hkc : k c = f c := by simp [k]
  have hka : k a = g a := by simp [k, hac]
  have hkb : k b = g b := by simp [k, hbc]
  omega

/-- The weights outside the touched stations are unchanged. -/
theorem wt_eq_of {B : Nat} {x x' : Nat → Nat} {m m' : Nat → Mode} {i : Nat}
    (h : x' i = x i ∧ m' i = m i) : wt B x' m' i = wt B x m i := by
  unfold wt; rw [h.1, h.2]

theorem rank_wakeMode (now : Int) (m : Mode) : rank (wakeMode now m) ≤ rank m + 1 := by
  unfold wakeMode
  split
  · next h => subst h; simp [rank]
  · omega

theorem rank_wakeMode_of_ne (now : Int) {m : Mode} (h : m ≠ .blocked) : wakeMode now m = m := by
  unfold wakeMode; rw [if_neg h]

theorem accX_ge (L : Line) (i xi : Nat) : xi ≤ accX L i xi := by
  unfold accX; split <;> omega

/-- Every event strictly decreases the measure (for every budget). -/
def Decr (P : Par) (x : Nat → Nat) (m : Nat → Mode) (x' : Nat → Nat) (m' : Nat → Mode) : Prop :=
  ∀ B, P.L.budget = some B → phi P B x' m' < phi P B x m

theorem decr1 {P : Par} {x x' : Nat → Nat} {m m' : Nat → Mode} {a : Nat} (ha : a ≤ P.L.n)
    (hout : ∀ i, i ≤ P.L.n → i ≠ a → x' i = x i ∧ m' i = m i)
    (h : ∀ B, P.L.budget = some B → wt B x' m' a < wt B x m a) : Decr P x m x' m' := by
  intro B hB
  have := sumTo_local1 (f := wt B x m) (g := wt B x' m') ha (fun i hi hne => wt_eq_of (hout i hi hne))
  have := h B hB
  unfold phi
  omega

theorem decr2 {P : Par} {x x' : Nat → Nat} {m m' : Nat → Mode} {a b : Nat} (ha : a ≤ P.L.n)
    (hb : b ≤ P.L.n) (hab : a ≠ b)
    (hout : ∀ i, i ≤ P.L.n → i ≠ a → i ≠ b → x' i = x i ∧ m' i = m i)
    (h : ∀ B, P.L.budget = some B → wt B x' m' a + wt B x' m' b < wt B x m a + wt B x m b) :
    Decr P x m x' m' := by
  intro B hB
  have := sumTo_local2 (f := wt B x m) (g := wt B x' m') ha hb hab
    (fun i hi h1 h2 => wt_eq_of (hout i hi h1 h2))
  have := h B hB
  unfold phi
  omega

theorem decr3 {P : Par} {x x' : Nat → Nat} {m m' : Nat → Mode} {a b c : Nat} (ha : a ≤ P.L.n)
    (hb : b ≤ P.L.n) (hc : c ≤ P.L.n) (hab : a ≠ b) (hac : a ≠ c) (hbc : b ≠ c)
    (hout : ∀ i, i ≤ P.L.n → i ≠ a → i ≠ b → i ≠ c → x' i = x i ∧ m' i = m i)
    (h : ∀ B, P.L.budget = some B →
      wt B x' m' a + wt B x' m' b + wt B x' m' c < wt B x m a + wt B x m b + wt B x m c) :
    Decr P x m x' m' := by
  intro B hB
  have := sumTo_local3 (f := wt B x m) (g := wt B x' m') ha hb hc hab hac hbc
    (fun i hi h1 h2 h3 => wt_eq_of (hout i hi h1 h2 h3))
  have := h B hB
  unfold phi
  omega

end C04W
end SimProc
