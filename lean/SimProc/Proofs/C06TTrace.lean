/-
C06T (exact cycle times over whole runs), part 5: the trace of a run (`wAt`, `trace`), operational
and down time of a device over a stretch of the trace (`upTime`, `downTime`), and the life of a
timer along the trace: from the step that creates it to the step that pops it, it is THE timer of
its device, with remaining work `D − upTime`.
-/
import SimProc.Proofs.C06TStep
import SimProc.Props.C06W
namespace SimProc
namespace C06T
open World FloorCoreL C06W

/-! ### sums over a stretch of steps -/

/-- `Σ_{k = a}^{b − 1} f k` -/
def sumFrom (f : Nat → Int) (a : Nat) : Nat → Int
  | 0 => 0
  | b + 1 => if a ≤ b then sumFrom f a b + f b else 0

theorem sumFrom_of_le (f : Nat → Int) {a b : Nat} (h : b ≤ a) : sumFrom f a b = 0 := by
  cases b with
  | zero => rfl
  | succ b => simp only [sumFrom]; rw [if_neg (by omega)]

theorem sumFrom_self (f : Nat → Int) (a : Nat) : sumFrom f a a = 0 := sumFrom_of_le f (Nat.le_refl a)

theorem sumFrom_succ (f : Nat → Int) {a b : Nat} (h : a ≤ b) :
    sumFrom f a (b + 1) = sumFrom f a b + f b := by
  simp only [sumFrom]; rw [if_pos h]

theorem sumFrom_nonneg (f : Nat → Int) (a b : Nat) (h : ∀ k, a ≤ k → k < b → 0 ≤ f k) :
    0 ≤ sumFrom f a b := by
  induction b with
  | zero => exact Int.le_refl 0
  | succ b ih =>
    by_cases hab : a ≤ b
    · rw [sumFrom_succ f hab]
      have h1 := ih (fun k h1 h2 => h k h1 (by omega))
      have h2 := h b hab (by omega)
      omega
    · rw [sumFrom_of_le f (by omega)]; exact Int.le_refl 0

theorem sumFrom_zero (f : Nat → Int) (a b : Nat) (h : ∀ k, a ≤ k → k < b → f k = 0) :
    sumFrom f a b = 0 := by
  induction b with
  | zero => rfl
  | succ b ih =>
    by_cases hab : a ≤ b
    · rw [sumFrom_succ f hab, ih (fun k h1 h2 => h k h1 (by omega)), h b hab (by omega)]; rfl
    · exact sumFrom_of_le f (by omega)

theorem sumFrom_congr (f g : Nat → Int) (a b : Nat) (h : ∀ k, a ≤ k → k < b → f k = g k) :
    sumFrom f a b = sumFrom g a b := by
  induction b with
  | zero => rfl
  | succ b ih =>
    by_cases hab : a ≤ b
    · rw [sumFrom_succ f hab, sumFrom_succ g hab, ih (fun k h1 h2 => h k h1 (by omega)),
        h b hab (by omega)]
    · rw [sumFrom_of_le f (by omega), sumFrom_of_le g (by omega)]

theorem sumFrom_add (f g : Nat → Int) (a b : Nat) :
    sumFrom (fun k => f k + g k) a b = sumFrom f a b + sumFrom g a b := by
  induction b with
  | zero => rfl
  | succ b ih =>
    by_cases hab : a ≤ b
    · rw [sumFrom_succ _ hab, sumFrom_succ f hab, sumFrom_succ g hab, ih]; omega
    · rw [sumFrom_of_le _ (by omega), sumFrom_of_le f (by omega), sumFrom_of_le g (by omega)]; rfl

theorem sumFrom_telescope (g : Nat → Int) {a b : Nat} (h : a ≤ b) :
    sumFrom (fun k => g (k + 1) - g k) a b = g b - g a := by
  induction b with
  | zero =>
    have : a = 0 := by omega
    subst this; simp [sumFrom]
  | succ b ih =>
    by_cases hab : a ≤ b
    · rw [sumFrom_succ _ hab, ih hab]; omega
    · have : a = b + 1 := by omega
      subst this
      rw [sumFrom_self]; omega

/-! ### the trace of a run -/

/-- The `k`-th world of the run of the event loop from `w` (`World.step` iterated; the run stays
where it is once the event queue is empty). -/
def wAt (w : World) : Nat → World
  | 0 => w
  | k + 1 =>
    match (wAt w k).step with
    | some (_, w') => w'
    | none => wAt w k

/-- The trace of the first `n` steps of the run from `w`: the worlds `w_0 = w, w_1, …, w_n`. -/
def trace (n : Nat) (w : World) : List World := (List.range (n + 1)).map (wAt w)

/-- the event popped by step `k → k + 1` of the run, if there is one -/
def evAt (w : World) (k : Nat) : Option Event := (wAt w k).step.map (·.1)

theorem wAt_zero (w : World) : wAt w 0 = w := rfl

theorem wAt_succ_some {w : World} {k : Nat} {e : Event} {w' : World}
    (h : (wAt w k).step = some (e, w')) : wAt w (k + 1) = w' := by
  simp only [wAt, h]

theorem wAt_succ_none {w : World} {k : Nat} (h : (wAt w k).step = none) :
    wAt w (k + 1) = wAt w k := by
  simp only [wAt, h]

theorem step_wAt {w : World} {k : Nat} {e : Event} {w' : World}
    (h : (wAt w k).step = some (e, w')) : (wAt w k).step = some (e, wAt w (k + 1)) := by
  rw [wAt_succ_some h]; exact h

theorem wAt_stuck {w : World} {k : Nat} (h : (wAt w k).step = none) (m : Nat) :
    wAt w (k + m) = wAt w k := by
  induction m with
  | zero => rfl
  | succ m ih =>
    have : (wAt w (k + m)).step = none := by rw [ih]; exact h
    rw [← Nat.add_assoc, wAt_succ_none this, ih]

/-- if step `j` of the run exists, so does every earlier step -/
theorem step_earlier {w : World} {j k : Nat} {p : Event × World} (h : (wAt w j).step = some p)
    (hk : k ≤ j) : ∃ e, (wAt w k).step = some (e, wAt w (k + 1)) := by
  cases hs : (wAt w k).step with
  | none =>
    have := wAt_stuck hs (j - k)
    rw [show k + (j - k) = j by omega] at this
    rw [this, hs] at h; cases h
  | some q => exact ⟨q.1, hs.symm.trans (step_wAt (e := q.1) (w' := q.2) hs)⟩

theorem wAt_add (w : World) (a b : Nat) : wAt w (a + b) = wAt (wAt w a) b := by
  induction b with
  | zero => rfl
  | succ b ih =>
    show wAt w (a + b + 1) = _
    simp only [wAt, ih]

theorem trace_length (n : Nat) (w : World) : (trace n w).length = n + 1 := by simp [trace]

theorem trace_getElem (n : Nat) (w : World) (k : Nat) (hk : k < (trace n w).length) :
    (trace n w)[k] = wAt w k := by
  simp [trace]

/-- The run loop with fuel `n` follows the trace: it ends in some `w_k`, `k ≤ n`, every step before
was taken while the run was not terminated; if the fuel ran out, the error flag is set on top. -/
theorem runLoop_trace (n : Nat) (w : World) :
    ∃ k, k ≤ n ∧ (runLoop n w = wAt w k ∨ runLoop n w = (wAt w k).setErr "fuel") ∧
      ∀ m, m < k → (wAt w m).env.running = true ∧ ∃ e, (wAt w m).step = some (e, wAt w (m + 1)) := by
  induction n generalizing w with
  | zero => exact ⟨0, Nat.le_refl _, Or.inr rfl, fun m hm => absurd hm (Nat.not_lt_zero m)⟩
  | succ n ih =>
    unfold runLoop
    split
    · rename_i hrun
      split
      · exact ⟨0, Nat.zero_le _, Or.inl rfl, fun m hm => absurd hm (Nat.not_lt_zero m)⟩
      · rename_i e w' hst
        obtain ⟨k, hk, he, hall⟩ := ih w'
        have h1 : wAt w 1 = w' := wAt_succ_some (k := 0) hst
        have hadd : ∀ m, wAt w' m = wAt w (m + 1) := by
          intro m; rw [Nat.add_comm, wAt_add, h1]
        refine ⟨k + 1, by omega, ?_, ?_⟩
        · rw [← hadd]; exact he
        · intro m hm
          cases m with
          | zero => exact ⟨hrun, e, by rw [h1]; exact hst⟩
          | succ m =>
            obtain ⟨g1, e', g2⟩ := hall m (by omega)
            rw [hadd, hadd] at g2
            rw [hadd] at g1
            exact ⟨g1, e', g2⟩
    · exact ⟨0, Nat.zero_le _, Or.inl rfl, fun m hm => absurd hm (Nat.not_lt_zero m)⟩

/-! ### the invariant, the clock, the uid counter and the kinds along the trace -/

theorem wi_wAt {w : World} (h : WI w) (k : Nat) : WI (wAt w k) := by
  induction k with
  | zero => exact h
  | succ k ih =>
    cases hs : (wAt w k).step with
    | none => rw [wAt_succ_none hs]; exact ih
    | some p => rw [wAt_succ_some (e := p.1) (w' := p.2) hs]; exact wi_step ih hs

theorem kind_wAt {w : World} (h : WI w) (k x : Nat) : ((wAt w k).dev x).kind = (w.dev x).kind := by
  induction k with
  | zero => rfl
  | succ k ih =>
    cases hs : (wAt w k).step with
    | none => rw [wAt_succ_none hs]; exact ih
    | some p =>
      rw [wAt_succ_some (e := p.1) (w' := p.2) hs]
      obtain ⟨_, _, _, hkeep⟩ := step_spec (wi_wAt h k) hs
      exact ((hkeep.ka x).1).trans ih

theorem now_wAt_succ {w : World} (h : WI w) (k : Nat) : (wAt w k).now ≤ (wAt w (k + 1)).now := by
  cases hs : (wAt w k).step with
  | none => rw [wAt_succ_none hs]; exact Int.le_refl _
  | some p =>
    rw [wAt_succ_some (e := p.1) (w' := p.2) hs]
    obtain ⟨h1, h2, _⟩ := step_now (wi_wAt h k) hs
    rw [h1]; exact h2

theorem now_wAt_mono {w : World} (h : WI w) {k m : Nat} (hkm : k ≤ m) :
    (wAt w k).now ≤ (wAt w m).now := by
  induction m with
  | zero =>
    have : k = 0 := by omega
    subst this; exact Int.le_refl _
  | succ m ih =>
    by_cases hk : k ≤ m
    · exact Int.le_trans (ih hk) (now_wAt_succ h m)
    · have : k = m + 1 := by omega
      subst this; exact Int.le_refl _

theorem uid_wAt_succ {w : World} (h : WI w) (k : Nat) :
    (wAt w k).env.nextUid ≤ (wAt w (k + 1)).env.nextUid := by
  cases hs : (wAt w k).step with
  | none => rw [wAt_succ_none hs]; exact Nat.le_refl _
  | some p =>
    rw [wAt_succ_some (e := p.1) (w' := p.2) hs]
    exact (step_now (wi_wAt h k) hs).2.2

theorem uid_wAt_mono {w : World} (h : WI w) {k m : Nat} (hkm : k ≤ m) :
    (wAt w k).env.nextUid ≤ (wAt w m).env.nextUid := by
  induction m with
  | zero =>
    have : k = 0 := by omega
    subst this; exact Nat.le_refl _
  | succ m ih =>
    by_cases hk : k ≤ m
    · exact Nat.le_trans (ih hk) (uid_wAt_succ h m)
    · have : k = m + 1 := by omega
      subst this; exact Nat.le_refl _

/-! ### operational time and down time -/

/-- the time that passes in step `k → k + 1` of the run -/
def dt (w : World) (k : Nat) : Int := (wAt w (k + 1)).now - (wAt w k).now

/-- The time device `x` is OPERATIONAL during the steps `a, …, b − 1` of the run from `w`:
`Σ_{k=a}^{b−1} (if x is operational in w_k then now w_{k+1} − now w_k else 0)`. -/
def upTime (w : World) (x a b : Nat) : Int :=
  sumFrom (fun k => if (wAt w k).operational x then dt w k else 0) a b

/-- The time device `x` is SHUT DOWN during the steps `a, …, b − 1` of the run from `w`. -/
def downTime (w : World) (x a b : Nat) : Int :=
  sumFrom (fun k => if (wAt w k).operational x then 0 else dt w k) a b

theorem dt_nonneg {w : World} (h : WI w) (k : Nat) : 0 ≤ dt w k := by
  have := now_wAt_succ h k
  unfold dt; omega

theorem upTime_nonneg {w : World} (h : WI w) (x a b : Nat) : 0 ≤ upTime w x a b := by
  apply sumFrom_nonneg
  intro k _ _
  split
  · exact dt_nonneg h k
  · exact Int.le_refl 0

theorem downTime_nonneg {w : World} (h : WI w) (x a b : Nat) : 0 ≤ downTime w x a b := by
  apply sumFrom_nonneg
  intro k _ _
  split
  · exact Int.le_refl 0
  · exact dt_nonneg h k

/-- operational time + down time = elapsed time -/
theorem upTime_add_downTime (w : World) (x : Nat) {a b : Nat} (hab : a ≤ b) :
    upTime w x a b + downTime w x a b = (wAt w b).now - (wAt w a).now := by
  unfold upTime downTime
  rw [← sumFrom_add, ← sumFrom_telescope (fun k => (wAt w k).now) hab]
  apply sumFrom_congr
  intro k _ _
  dsimp only [dt]
  split <;> omega

theorem upTime_succ (w : World) (x : Nat) {a b : Nat} (hab : a ≤ b) :
    upTime w x a (b + 1) = upTime w x a b + (if (wAt w b).operational x then dt w b else 0) :=
  sumFrom_succ _ hab

theorem downTime_succ (w : World) (x : Nat) {a b : Nat} (hab : a ≤ b) :
    downTime w x a (b + 1) = downTime w x a b + (if (wAt w b).operational x then 0 else dt w b) :=
  sumFrom_succ _ hab

theorem upTime_self (w : World) (x a : Nat) : upTime w x a a = 0 := sumFrom_self _ a

theorem downTime_zero_of_up (w : World) (x a b : Nat)
    (h : ∀ k, a ≤ k → k < b → (wAt w k).operational x = true) : downTime w x a b = 0 := by
  apply sumFrom_zero
  intro k h1 h2
  rw [h k h1 h2]; rfl

/-! ### the life of a timer -/

/-- Step `i → i + 1` of the run from `w` creates timer `u` of device `x` with remaining work `D`: the
uid is not yet allocated in `w_i`, and in `w_{i+1}` the timers of `x` are exactly `[(u, D)]` (what
accepting a part does, `C06W.accept_starts_timer`). -/
def Starts (w : World) (x i u : Nat) (D : Int) : Prop :=
  (wAt w i).env.nextUid ≤ u ∧ rem (wAt w (i + 1)).env x = [(u, D)]

/-- Step `j → j + 1` of the run from `w` pops the live finish event `u` of device `x`. -/
def Pops (w : World) (x j u : Nat) : Prop :=
  ∃ e w', (wAt w j).step = some (e, w') ∧ e.live = true ∧ e.act = finAct x ∧ e.uid = u

theorem Pops.step {w : World} {x j u : Nat} (h : Pops w x j u) :
    ∃ e, (wAt w j).step = some (e, wAt w (j + 1)) ∧ e.live = true ∧ e.act = finAct x ∧ e.uid = u := by
  obtain ⟨e, w', h1, h2, h3, h4⟩ := h
  exact ⟨e, step_wAt h1, h2, h3, h4⟩

theorem singleton_of_mem {w : World} (h : WI w) {x : Nat} (hk : (w.dev x).kind ≠ .source) {u : Nat}
    {r : Int} (hm : (u, r) ∈ rem w.env x) : rem w.env x = [(u, r)] := by
  have hl := rem_length_le_one h x hk
  match hr : rem w.env x, hl, hm with
  | [a], _, hm =>
    rw [List.mem_singleton.mp hm]

/-- A timer that is alive in `w_K` was alive in every earlier world in which its uid was allocated. -/
theorem alive_back {w : World} (h : WI w) {x : Nat} (hk : (w.dev x).kind ≠ .source)
    {a K u : Nat} (hu0 : u < (wAt w a).env.nextUid) (hal : ∃ r, (u, r) ∈ rem (wAt w K).env x) :
    ∀ k, a ≤ k → k ≤ K → ∃ r, (u, r) ∈ rem (wAt w k).env x := by
  have hkk : ∀ k, ((wAt w k).dev x).kind ≠ .source := fun k => by rw [kind_wAt h]; exact hk
  -- downward induction from `K`
  have key : ∀ d k, k + d = K → a ≤ k → ∃ r, (u, r) ∈ rem (wAt w k).env x := by
    intro d
    induction d with
    | zero =>
      intro k hkj _
      have : k = K := by omega
      subst this; exact hal
    | succ d ih =>
      intro k hkj hik
      obtain ⟨r', hm'⟩ := ih (k + 1) (by omega) (by omega)
      cases hs : (wAt w k).step with
      | none => rw [wAt_succ_none hs] at hm'; exact ⟨r', hm'⟩
      | some q =>
        have hstk := step_wAt (e := q.1) (w' := q.2) hs
        have huk : u < (wAt w k).env.nextUid := Nat.lt_of_lt_of_le hu0 (uid_wAt_mono h hik)
        obtain ⟨r, hm, _⟩ := rem_step (wi_wAt h k) hstk x (hkk k) hm' huk
        exact ⟨r, hm⟩
  intro k h1 h2
  exact key (K - k) k (by omega) h1

/-- **The remaining work along the run, as long as the timer is alive**: if `u` is the timer of `x`
in `w_a` with remaining work `D` and is still alive in `w_K`, then in every world in between it is
THE timer of `x`, its remaining work is `D` minus the time `x` was operational since `w_a`, and the
part in process is the same. -/
theorem remaining_from {w : World} (h : WI w) {x : Nat} (hk : (w.dev x).kind ≠ .source)
    {a K u : Nat} {D : Int} (ha : rem (wAt w a).env x = [(u, D)])
    (hal : ∃ r, (u, r) ∈ rem (wAt w K).env x) :
    ∀ k, a ≤ k → k ≤ K →
      rem (wAt w k).env x = [(u, D - upTime w x a k)] ∧
      ((wAt w k).dev x).part = ((wAt w a).dev x).part := by
  have hkk : ∀ k, ((wAt w k).dev x).kind ≠ .source := fun k => by rw [kind_wAt h]; exact hk
  have hu0 : u < (wAt w a).env.nextUid :=
    rem_uid_lt (wi_wAt h a).fi.ei (x := x) (r := D) (by rw [ha]; exact List.mem_singleton.mpr rfl)
  have hal' := alive_back h hk hu0 hal
  intro k
  induction k with
  | zero =>
    intro h1 _
    have : a = 0 := by omega
    subst this
    rw [ha, upTime_self]; simp
  | succ k ih =>
    intro h1 h2
    by_cases hik : a ≤ k
    · obtain ⟨hprev, hpart⟩ := ih hik (by omega)
      obtain ⟨r', hm'⟩ := hal' (k + 1) h1 h2
      cases hs : (wAt w k).step with
      | none =>
        have e := wAt_succ_none hs
        rw [upTime_succ w x hik]
        have hdt : dt w k = 0 := by unfold dt; rw [e]; omega
        rw [hdt, e]
        refine ⟨?_, hpart⟩
        rw [hprev]; congr 2; split <;> omega
      | some q =>
        have hstk := step_wAt (e := q.1) (w' := q.2) hs
        have hrate := remaining_rate (wi_wAt h k) hstk x (hkk k) hprev hm'
        have hnow : (wAt w (k + 1)).now = q.1.time := (step_now (wi_wAt h k) hstk).1
        refine ⟨?_, ?_⟩
        · rw [singleton_of_mem (wi_wAt h (k + 1)) (hkk (k + 1)) hm', upTime_succ w x hik, hrate]
          congr 2
          unfold dt
          rw [hnow]
          split <;> omega
        · rw [← hpart]
          exact timer_keeps_part (wi_wAt h k) hstk (hkk k)
            (by rw [hprev]; exact List.mem_singleton.mpr rfl) hm'
    · have : a = k + 1 := by omega
      subst this
      rw [ha, upTime_self]; simp

/-- Between the step that creates it and the step that pops it, the timer is alive. -/
theorem alive_at_pop {w : World} (h : WI w) {x : Nat} (hk : (w.dev x).kind ≠ .source)
    {j u : Nat} (hp : Pops w x j u) : ∃ r, (u, r) ∈ rem (wAt w j).env x := by
  obtain ⟨e, hst, hl, ha, hu⟩ := hp.step
  obtain ⟨p, hr, _⟩ := finish_step (wi_wAt h j) hst (by rw [kind_wAt h]; exact hk) hl ha
  exact ⟨_, by rw [hr, hu]; exact List.mem_singleton.mpr rfl⟩

/-- **The remaining work along the run**: from the step that creates timer `u` of `x` with
remaining work `D` to the step that pops it, `u` is THE timer of `x`, and its remaining work in
`w_k` is `D` minus the time `x` was operational since. -/
theorem remaining_along {w : World} (h : WI w) {x : Nat} (hk : (w.dev x).kind ≠ .source)
    {i j u : Nat} {D : Int} (hs : Starts w x i u D) (hp : Pops w x j u) (_hij : i < j) :
    ∀ k, i + 1 ≤ k → k ≤ j → rem (wAt w k).env x = [(u, D - upTime w x (i + 1) k)] :=
  fun k h1 h2 => (remaining_from h hk hs.2 (alive_at_pop h hk hp) k h1 h2).1

end C06T
end SimProc
