/-
Machinery for `Props/C11W.lean`, part 7: scripted operations, maintainer / scheduler / sensor events,
`exec`, `step`, `runLoop` and `simulateInit` preserve the closed-world invariant.
-/
import SimProc.Proofs.C11WRun
import SimProc.Proofs.WorldExec

namespace SimProc
namespace C11W
open World FloorCoreL

/-! ### more benign steps of `Model/World.lean` -/

theorem monoS_sched_plain (w : World) (t a : Int) (act : Action) (p : Int) (hp : Plain act) :
    MonoS w (w.sched t a act p).1 :=
  monoS_sched w t a act p (fun x _ h => by
    rcases h with h | h
    · exact absurd h (hp x).1
    · exact absurd h (hp x).2)

theorem monoS_modMaint (w : World) (m : Nat) (f : Maint → Maint) : MonoS w (w.modMaint m f) :=
  MonoS.of_eq rfl rfl rfl rfl

theorem monoS_setVar (w : World) (h : Nat) (v : Option Nat) : MonoS w (w.setVar h v) :=
  MonoS.of_eq rfl rfl rfl rfl

theorem monoS_startOrders (w : World) (m : Nat) (st : List Order) : MonoS w (w.startOrders m st) := by
  unfold startOrders
  exact monoS_foldl _ _ _ (fun w o => monoS_schedLib_plain _ _ _ _ _
    (fun _ => ⟨(by intro h; cases h), (by intro h; cases h)⟩))

macro_rules | `(tactic| monoS_peel) => `(tactic| first
  | refine MonoS.trans ?_ (monoS_modMaint _ _ _)
  | refine MonoS.trans ?_ (monoS_setVar _ _ _)
  | refine MonoS.trans ?_ (monoS_startOrders _ _ _)
  | refine MonoS.trans ?_ (monoS_setBlock _ _ _)
  | refine MonoS.trans ?_ (monoS_adjustParts _ _ _)
  | refine MonoS.trans ?_ (monoS_sched_plain _ _ _ _ _ (by intro _; constructor <;> (intro h; cases h)))
  | refine MonoS.trans ?_ (monoS_foldl _ _ _ (fun w _ => monoS_addRes w _)))

theorem monoS_schedUpdate (w : World) (s : Nat) (b : Bool) : MonoS w (w.schedUpdate s b) := by
  unfold schedUpdate
  dsimp only
  repeat' split
  all_goals first
    | exact MonoS.of_eq rfl rfl rfl rfl
    | (refine MonoS.trans ?_ (monoS_schedLib_plain _ _ _ _ _
        (fun _ => ⟨(by intro h; cases h), (by intro h; cases h)⟩))
       refine MonoS.trans ?_ (monoS_foldl _ _ _ (fun w _ => monoS_addRes w _))
       refine MonoS.trans ?_ (monoS_addRec _ _)
       exact MonoS.of_eq rfl rfl rfl rfl)

theorem monoS_periodicSense (w : World) (s : Nat) : MonoS w (w.periodicSense s) := by
  unfold periodicSense
  dsimp only
  refine MonoS.trans ?_ (monoS_schedLib_plain _ _ _ _ _
    (fun _ => ⟨(by intro h; cases h), (by intro h; cases h)⟩))
  refine MonoS.trans ?_ (monoS_foldl _ _ _ (fun w _ => monoS_addRes w _))
  exact MonoS.of_eq rfl rfl rfl rfl

theorem mono_initAsset (w : World) (a : AssetRef) : Mono w (w.initAsset a) := by
  cases a with
  | dev d => exact mono_initDev w d
  | maint m =>
    refine MonoS.toMono ?_
    exact MonoS.of_eq rfl rfl rfl rfl
  | sched s => exact (monoS_schedUpdate w s false).toMono
  | sensor s =>
    unfold initAsset
    dsimp only
    refine MonoS.toMono ?_
    repeat' split
    all_goals first
      | exact MonoS.of_eq rfl rfl rfl rfl
      | (refine MonoS.trans ?_ (monoS_schedLib_plain _ _ _ _ _
          (fun _ => ⟨(by intro h; cases h), (by intro h; cases h)⟩))
         exact MonoS.of_eq rfl rfl rfl rfl)
      | (refine MonoS.trans ?_ (monoS_modDev _ _ _ rfl (fun _ => rfl))
         exact MonoS.of_eq rfl rfl rfl rfl)
  | cms c => exact Mono.refl w

/-! ### scripted operations -/

theorem not_mem_aids {w : World} {a : Int} (h : (w.devs.map (·.aid)).contains a = false) (y : Nat)
    (hy : y < w.devs.length) : (w.dev y).aid ≠ a := by
  intro e
  have : a ∈ w.devs.map (·.aid) := e ▸ S.aid_mem y hy
  rw [← List.contains_iff_mem] at this
  rw [h] at this; cases this

theorem inv_envPause (w : World) (a : Int) (h : Inv w) (h1 : a ≠ -1)
    (h2 : (w.devs.map (·.aid)).contains a = false) : Inv (w.envOp (.pause a)) :=
  inv_pause w _ a h (h.r.congr rfl rfl rfl (fun _ => rfl)) rfl rfl (fun _ => rfl)
    (fun y hk ha => absurd ha (not_mem_aids h2 y (lt_of_processor hk))) (fun _ => Or.inl rfl) h1

theorem inv_envCancel (w : World) (a : Int) (h : Inv w) (h1 : a ≠ -1)
    (h2 : (w.devs.map (·.aid)).contains a = false) : Inv (w.envOp (.cancel a)) :=
  inv_cancel w _ a h (h.r.congr rfl rfl rfl (fun _ => rfl)) rfl rfl (fun _ => rfl)
    (fun y hk ha => absurd ha (not_mem_aids h2 y (lt_of_processor hk))) (fun _ => Or.inl rfl) h1

theorem inv_envUnpause (w : World) (a : Int) (h : Inv w)
    (h2 : (w.devs.map (·.aid)).contains a = false) : Inv (w.envOp (.unpause a)) :=
  inv_unpause w _ a h (h.r.congr rfl rfl rfl (fun _ => rfl)) rfl rfl (fun _ => rfl)
    (fun y hk ha => absurd ha (not_mem_aids h2 y (lt_of_processor hk))) (fun _ => Or.inl rfl)

/-- Every operation of the class preserves the invariant. -/
theorem inv_applyOp (w : World) (op : Op) (h : Inv w)
    (hok : opOK (w.devs.map (·.aid)) op = true) : Inv (w.applyOp op).1 := by
  cases op with
  | rewire d ups => simp [opOK] at hok
  | create spec => simp [opOK] at hok
  | reserve hd req => simp [opOK] at hok
  | release hd part => simp [opOK] at hok
  | merge h1 h2 => simp [opOK] at hok
  | register k req => simp [opOK] at hok
  | pause a =>
    simp only [opOK, Bool.and_eq_true, decide_eq_true_eq, Bool.not_eq_true'] at hok
    exact inv_envPause w a h hok.1 hok.2
  | unpause a =>
    simp only [opOK, Bool.and_eq_true, decide_eq_true_eq, Bool.not_eq_true'] at hok
    exact inv_envUnpause w a h hok.2
  | cancel a =>
    simp only [opOK, Bool.and_eq_true, decide_eq_true_eq, Bool.not_eq_true'] at hok
    exact inv_envCancel w a h hok.1 hok.2
  | addRes r amt =>
    have := inv_addRes w r amt h
    simp only [applyOp]
    rcases hR : w.rm.add r amt with ⟨rm', res, recs, chk⟩
    rw [hR] at this
    exact this
  | shutdown d =>
    simp only [applyOp]
    split
    · exact h
    · exact inv_shutdownDev w d false none h (fun hf => by cases hf)
  | restore d =>
    simp only [applyOp]
    split
    · exact h
    · exact inv_restoreDev w d h
  | sched t a k p =>
    simp only [applyOp]
    exact h.mono (monoS_sched_plain w t a _ p
      (fun _ => ⟨(by intro h; cases h), (by intro h; cases h)⟩)).toMono
  | schedRel t a k p =>
    simp only [applyOp]
    exact h.mono (monoS_sched_plain w _ a _ p
      (fun _ => ⟨(by intro h; cases h), (by intro h; cases h)⟩)).toMono
  | schedFail d t =>
    simp only [applyOp]
    split
    · exact h
    · exact h.mono (monoS_sched_plain w t _ _ _
        (fun _ => ⟨(by intro h; cases h), (by intro h; cases h)⟩)).toMono
  | schedFailRel d t =>
    simp only [applyOp]
    split
    · exact h
    · exact h.mono (monoS_sched_plain w _ _ _ _
        (fun _ => ⟨(by intro h; cases h), (by intro h; cases h)⟩)).toMono
  | block d b => exact h.mono (monoS_setBlock w d b).toMono
  | adjust d n => exact h.mono (monoS_adjustParts w d n).toMono
  | setCycle d c =>
    simp only [applyOp]
    split
    · exact h
    · refine h.mono (MonoS.toMono ?_)
      dsimp only
      exact monoS_modDev w d _ rfl (fun _ => rfl)
  | offsetNext d o =>
    refine h.mono (MonoS.toMono ?_)
    simp only [applyOp]
    exact monoS_modDev w d _ rfl (fun _ => rfl)
  | workOrder m tgt tag info =>
    rcases h1 : w.targetParams tgt tag with ⟨a, need, c⟩
    rcases h2 : (w.maint m).create tgt tag need info with ⟨m', ret, o, st⟩
    simp only [applyOp, h1, h2]
    refine h.mono (MonoS.toMono ?_)
    cases o with
    | none =>
      dsimp only
      refine MonoS.trans ?_ (monoS_startOrders _ _ _)
      exact monoS_modMaint _ _ _
    | some o =>
      dsimp only
      refine MonoS.trans ?_ (monoS_startOrders _ _ _)
      refine MonoS.trans ?_ (monoS_addRec _ _)
      exact monoS_modMaint _ _ _
  | setParams tgt tag dur need cost =>
    refine h.mono (MonoS.toMono ?_)
    exact MonoS.of_eq rfl rfl rfl rfl
  | regObj s obj ovr =>
    refine h.mono (MonoS.toMono ?_)
    exact MonoS.of_eq rfl rfl rfl rfl
  | unregObj s obj =>
    refine h.mono (MonoS.toMono ?_)
    exact MonoS.of_eq rfl rfl rfl rfl
  | setVar k v =>
    refine h.mono (MonoS.toMono ?_)
    exact MonoS.of_eq rfl rfl rfl rfl
  | addSensor c s =>
    simp only [applyOp]
    split
    · exact h
    · refine h.mono (MonoS.toMono ?_)
      exact MonoS.of_eq rfl rfl rfl rfl

theorem inv_applyOps (ops : List Op) : ∀ (w : World), Inv w →
    (∀ op ∈ ops, ∃ l ∈ w.scripts, op ∈ l) → Inv (w.applyOps ops) := by
  induction ops with
  | nil => intro w h _; exact h
  | cons op ops ih =>
    intro w h hsub
    unfold applyOps
    simp only [List.foldl_cons]
    obtain ⟨l, hl, hop⟩ := hsub op (List.mem_cons_self ..)
    have h1 : Inv ((w.applyOp op).1.addRes (w.applyOp op).2) :=
      (inv_applyOp w op h (h.r.s.scripts l hl op hop)).mono (monoS_addRes _ _).toMono
    have := ih _ h1 (fun o ho => by
      have hs : ((w.applyOp op).1.addRes (w.applyOp op).2).scripts = w.scripts :=
        C02V.scr_applyOp w op
      rw [hs]
      exact hsub o (List.mem_cons_of_mem _ ho))
    unfold applyOps at this
    exact this

theorem inv_runScript (w : World) (k : Nat) (h : Inv w) : Inv (w.runScript k) := by
  unfold runScript
  apply inv_applyOps _ w h
  intro op hop
  by_cases hk : k < w.scripts.length
  · have : w.scripts.getD k [] = w.scripts[k] := by simp [List.getD_eq_getElem?_getD, hk]
    rw [this] at hop
    exact ⟨_, List.getElem_mem hk, hop⟩
  · have : w.scripts.getD k [] = [] := by simp [List.getD_eq_getElem?_getD, Nat.le_of_not_lt hk]
    rw [this] at hop; cases hop

/-! ### maintainer events -/

theorem inv_hookStart (w : World) (tgt : Nat) (tag : Int) (h : Inv w) : Inv (w.hookStart tgt tag) := by
  unfold hookStart
  dsimp only
  have h1 : Inv (w.addRes (.hook true tgt tag)) := h.mono (monoS_addRes _ _).toMono
  repeat' split
  · exact inv_shutdownDev _ _ false none h1 (fun hf => by cases hf)
  · exact inv_runScript _ _ h1
  · exact h1

theorem inv_hookEnd (w : World) (tgt : Nat) (tag : Int) (h : Inv w) : Inv (w.hookEnd tgt tag) := by
  unfold hookEnd
  dsimp only
  have h1 : Inv (w.addRes (.hook false tgt tag)) := h.mono (monoS_addRes _ _).toMono
  repeat' split
  · exact inv_restoreDev _ _ h1
  · exact inv_runScript _ _ h1
  · exact h1

theorem inv_startWork (w : World) (m seq : Nat) (h : Inv w) : Inv (w.startWork m seq) := by
  unfold startWork
  split
  · exact h.mono (monoS_setErr _ _).toMono
  · dsimp only
    refine Inv.mono (w := _) ?_ (MonoS.toMono (monoS_schedLib_plain _ _ _ _ _
      (fun _ => ⟨(by intro h; cases h), (by intro h; cases h)⟩)))
    refine inv_hookStart _ _ _ ?_
    refine h.mono (MonoS.toMono ?_)
    refine MonoS.trans ?_ (monoS_modMaint _ _ _)
    exact monoS_addRec _ _

theorem inv_finishWork (w : World) (m seq : Nat) (h : Inv w) : Inv (w.finishWork m seq) := by
  unfold finishWork
  split
  · exact h.mono (monoS_setErr _ _).toMono
  · dsimp only
    rename_i o _
    have h1 := inv_hookEnd w o.target o.tag h
    generalize w.hookEnd o.target o.tag = w1 at h1
    refine h1.mono (MonoS.toMono ?_)
    refine MonoS.trans ?_ (monoS_startOrders _ _ _)
    refine MonoS.trans ?_ (monoS_modMaint _ _ _)
    refine MonoS.trans ?_ (monoS_addRec _ _)
    exact monoS_modMaint _ _ _


/-! ### events -/

/-- Running the action of an event that has just been taken from the queue: `Pend` may be missing
if the action is the availability check, `Rel x` if it is the RELEASE event of `x`; a
`finishCycle` / `releaseIfIdle` action only runs for a processor that is not shut down. -/
theorem inv_exec (w : World) (a : Action) (hr : RInv w) (he : EInv w)
    (hp : a = .rmCheck ∨ Pend w) (hrel : ∀ x, a = .releaseIfIdle x ∨ Rel w x)
    (hlive : ∀ x, (a = .finishCycle x ∨ a = .releaseIfIdle x) → (w.dev x).kind = .processor →
      (w.dev x).shutDown = false) : Inv (w.exec a) := by
  by_cases hc : a = .rmCheck
  · subst hc
    exact inv_rmCheck w hr he (fun x => (hrel x).resolve_left (by intro h; cases h))
  have hp' : Pend w := hp.resolve_left hc
  by_cases hx : ∃ d, a = .releaseIfIdle d
  · obtain ⟨d, rfl⟩ := hx
    exact invX_releaseIfIdle w d ⟨hr, he, hp', fun y hy => (hrel y).resolve_left
      (fun h => hy (by cases h; rfl))⟩ (hlive d (Or.inr rfl))
  have h : Inv w := ⟨hr, he, hp', fun x => (hrel x).resolve_left (fun e => hx ⟨x, e⟩)⟩
  cases a with
  | terminate => exact h
  | script k => exact inv_runScript w k h
  | finishCycle d => exact h.mono (mono_finishCycle w d (hlive d (Or.inl rfl)))
  | passPart d => exact inv_passPart w d h
  | fail d => exact inv_failDev w d h
  | releaseIfIdle d => exact absurd ⟨d, rfl⟩ hx
  | rmCheck => exact absurd rfl hc
  | startWork m o => exact inv_startWork w m o h
  | finishWork m o => exact inv_finishWork w m o h
  | schedUpdate s => exact h.mono (monoS_schedUpdate w s true).toMono
  | periodicSense s => exact h.mono (monoS_periodicSense w s).toMono
  | unknown n => exact h.mono (monoS_setErr w _).toMono

/-- Taking the next event from the queue. -/
theorem inv_pop (w : World) (h : Inv w) (e : Event) (env' : Env)
    (hst : w.env.step = some (e, env')) :
    RInv ({ w with env := env' } : World) ∧ EInv ({ w with env := env' } : World) ∧
    ((e.cancelled = false ∧ evAct e = .rmCheck) ∨ Pend ({ w with env := env' } : World)) ∧
    (∀ x, (e.cancelled = false ∧ evAct e = .releaseIfIdle x) ∨
      Rel ({ w with env := env' } : World) x) ∧
    (e.cancelled = false → ∀ x, (evAct e = .finishCycle x ∨ evAct e = .releaseIfIdle x) →
      (w.dev x).kind = .processor → (w.dev x).shutDown = false) := by
  obtain ⟨es, hes, henv'⟩ := Env.step_some.1 hst
  have hev' : env'.events = es := by rw [henv']
  have hnow' : env'.now = e.time := by rw [henv']
  have hpa' : env'.paused = w.env.paused := by rw [henv']
  have hmem : ∀ e', e' ∈ es → e' ∈ w.env.events := fun e' he' => by
    rw [hes]; exact List.mem_cons_of_mem _ he'
  have hehd : e ∈ w.env.events := by rw [hes]; exact List.mem_cons_self ..
  have hq' := C01.inv_step h.e.q hst
  -- a witness at the current instant: the clock does not move, and it is the event taken or stays
  have key : ∀ (W' : World), W'.env.events = es → ∀ (act : Action) (prio asset : Int),
      QueuedL w act w.now prio asset →
      (e.cancelled = false ∧ e.act = act.toNat) ∨ QueuedL W' act e.time prio asset := by
    intro W' hW' act prio asset ⟨ew, hew, h1, h2, h3, h4, h5⟩
    have ht : e.time = w.now := by
      have hle := C01.step_min_time h.e.q hst ew hew
      have hge := h.e.q.future e hehd
      unfold World.now at h2 ⊢
      omega
    rw [hes] at hew
    rcases List.mem_cons.1 hew with rfl | hew
    · exact Or.inl ⟨h5, h1⟩
    · exact Or.inr ⟨ew, by rw [hW']; exact hew, h1, h2.trans ht.symm, h3, h4, h5⟩
  refine ⟨h.r.congr rfl rfl rfl (fun _ => rfl), ⟨?_, ?_, ?_, hq'⟩, ?_, ?_, ?_⟩
  · intro x hk hs hr hp
    show ∃ e ∈ env'.paused, _
    rw [hpa']
    exact h.e.relP x hk hs hr hp
  · intro x hk hs e' he' hc
    have he'' : e' ∈ env'.events := he'
    rw [hev'] at he''
    exact h.e.noRun x hk hs e' (hmem e' he'') hc
  · intro e' he' x hk ha
    refine h.e.evA e' ?_ x hk ha
    have he'' : e' ∈ env'.events ++ env'.paused := he'
    rw [hev', hpa'] at he''
    rcases List.mem_append.1 he'' with he'' | he''
    · exact List.mem_append_left _ (hmem e' he'')
    · exact List.mem_append_right _ he''
  · by_cases hf : C10.feasibleWaiting w.rm
    · rcases key ({ w with env := env' }) hev' _ _ _ (h.pend hf) with ⟨h1, h2⟩ | hq
      · left
        refine ⟨h1, ?_⟩
        unfold evAct; rw [h2]; exact ofNat_rmCheck
      · refine Or.inr (fun _ => ?_)
        show QueuedL _ _ env'.now _ _
        rw [hnow']; exact hq
    · exact Or.inr (fun hf' => absurd hf' hf)
  · intro x
    by_cases hpre : (w.dev x).kind = .processor ∧ (w.dev x).shutDown = false ∧
        (w.dev x).reserved ≠ none ∧ (w.dev x).part = none
    · rcases key ({ w with env := env' }) hev' _ _ _
        (h.rel x hpre.1 hpre.2.1 hpre.2.2.1 hpre.2.2.2) with ⟨h1, h2⟩ | hq
      · left
        refine ⟨h1, ?_⟩
        unfold evAct; rw [h2]; exact ofNat_releaseIfIdle x
      · refine Or.inr (fun _ _ _ _ => ?_)
        show QueuedL _ _ env'.now _ _
        rw [hnow']; exact hq
    · exact Or.inr (fun h1 h2 h3 h4 => absurd ⟨h1, h2, h3, h4⟩ hpre)
  · intro hc x ha hk
    cases hs : (w.dev x).shutDown with
    | false => rfl
    | true =>
      have := h.e.noRun x hk hs e hehd hc
      rcases ha with ha | ha
      · exact absurd ha this.1
      · exact absurd ha this.2

/-- **Every event preserves the invariant.** -/
theorem inv_step (w w' : World) (e : Event) (h : Inv w) (hst : w.step = some (e, w')) : Inv w' := by
  unfold World.step at hst
  split at hst
  · cases hst
  · rename_i e' env' henv
    simp only [Option.some.injEq, Prod.mk.injEq] at hst
    obtain ⟨rfl, rfl⟩ := hst
    obtain ⟨hr, he, hp, hrel, hlive⟩ := inv_pop w h e' env' henv
    split
    · next hl =>
      have hc : e'.cancelled = false := by
        unfold Event.live at hl; simpa using hl
      refine inv_exec _ _ hr he ?_ ?_ ?_
      · rcases hp with ⟨_, h2⟩ | h2
        · exact Or.inl h2
        · exact Or.inr h2
      · intro x
        rcases hrel x with ⟨_, h2⟩ | h2
        · exact Or.inl h2
        · exact Or.inr h2
      · intro x ha
        exact hlive hc x ha
    · next hl =>
      have hc : e'.cancelled = true := by
        unfold Event.live at hl; simpa using hl
      refine ⟨hr, he, ?_, fun x => ?_⟩
      · rcases hp with ⟨h1, _⟩ | h2
        · rw [hc] at h1; cases h1
        · exact h2
      · rcases hrel x with ⟨h1, _⟩ | h2
        · rw [hc] at h1; cases h1
        · exact h2

theorem inv_runLoop (n : Nat) : ∀ (w : World), Inv w → Inv (runLoop n w) := by
  induction n with
  | zero => intro w h; exact h.mono (monoS_setErr w _).toMono
  | succ n ih =>
    intro w h
    unfold runLoop
    split
    · split
      · exact h
      · rename_i e w' hst
        exact ih w' (inv_step w w' e h hst)
    · exact h

/-! ### fresh worlds and initialisation -/

/-- the event is not a `finishCycle` / `releaseIfIdle` event -/
def libFree (e : Event) : Bool :=
  match evAct e with
  | .finishCycle _ => false
  | .releaseIfIdle _ => false
  | _ => true

instance (l : List Event) : Decidable (SortedEv l) := by unfold SortedEv; infer_instance

instance (s : Env) : Decidable (C01.Inv s) :=
  decidable_of_iff (SortedEv s.events ∧ (∀ e ∈ s.events, s.now ≤ e.time) ∧
      ((s.events ++ s.paused).map Event.uid).Nodup ∧ ∀ e ∈ s.events ++ s.paused, e.uid < s.nextUid)
    ⟨fun ⟨a, b, c, d⟩ => ⟨a, b, c, d⟩, fun h => ⟨h.sorted, h.future, h.uids, h.fresh⟩⟩

/-- **Fresh worlds** (as far as resources are concerned): not yet started; the manager has pools
(distinct names, nothing in use, capacities ≥ 0) but no reservations, no waiting requests and is not
initialised; no device holds a reservation and no processor has a part in process; the event queue
satisfies the queue invariant and contains no `finishCycle` / `releaseIfIdle` events (scenario
scripts, failures, anything else may be queued). -/
def FreshR (w : World) : Prop :=
  w.started = false ∧ w.rm.resv = [] ∧ w.rm.waiting = [] ∧ w.rm.inited = false ∧
  (w.rm.pools.map (·.1)).Nodup ∧ (∀ p ∈ w.rm.pools, p.2.1 = 0 ∧ 0 ≤ p.2.2) ∧
  (∀ d ∈ w.devs, d.reserved = none ∧ (d.kind = .processor → d.part = none)) ∧
  C01.Inv w.env ∧ (∀ e ∈ w.env.events ++ w.env.paused, libFree e = true)

instance : DecidablePred FreshR := fun w => by unfold FreshR; infer_instance

theorem fresh_reserved {w : World} (hF : FreshR w) (x : Nat) : (w.dev x).reserved = none := by
  by_cases hx : x < w.devs.length
  · exact (hF.2.2.2.2.2.2.1 _ (mem_devs_of_lt hx)).1
  · rw [dev_of_length_le (Nat.not_lt.1 hx)]; rfl

theorem libFree_spec {e : Event} (h : libFree e = true) (x : Nat) :
    evAct e ≠ .finishCycle x ∧ evAct e ≠ .releaseIfIdle x := by
  unfold libFree at h
  constructor
  · intro ha; rw [ha] at h; cases h
  · intro ha; rw [ha] at h; cases h

/-- The invariant holds right after the manager has been initialised. -/
theorem inv_fresh (w : World) (hS : S w) (hF : FreshR w) :
    Inv ({ w with rm := { w.rm with inited := true } } : World) := by
  obtain ⟨_, hresv, hwait, _, hkeys, hpools, hdevs, hq, hlib⟩ := hF
  have hres : ∀ x, (w.dev x).reserved = none := fresh_reserved ⟨‹_›, hresv, hwait, ‹_›, hkeys, hpools, hdevs, hq, hlib⟩
  refine ⟨⟨hS.of_eq rfl rfl, ?_, rfl, ?_, ?_, ?_, ?_⟩, ⟨?_, ?_, ?_, hq⟩, ?_, ?_⟩
  · refine ⟨hkeys, ?_, ?_, ?_, ?_, ?_, fun p hp => (hpools p hp).2⟩
    · intro i hi
      have : ({ w.rm with inited := true } : RM).resv = [] := hresv
      rw [this] at hi; cases hi
    · intro p hp
      have : ({ w.rm with inited := true } : RM).resv = [] := hresv
      rw [this] at hp; cases hp
    · intro p hp
      have : ({ w.rm with inited := true } : RM).resv = [] := hresv
      rw [this] at hp; cases hp
    · intro p hp
      have : ({ w.rm with inited := true } : RM).resv = [] := hresv
      rw [this] at hp; cases hp
    · intro r
      have h1 : C09.heldSum ({ w.rm with inited := true } : RM) r = 0 := by
        unfold C09.heldSum
        have : ({ w.rm with inited := true } : RM).resv = [] := hresv
        rw [this]; rfl
      rw [h1]
      show w.rm.usage r = 0
      unfold RM.usage RM.lookup
      cases hf : w.rm.pools.find? (fun p => p.1 == r) with
      | none => rfl
      | some p =>
        have := (hpools p (List.mem_of_find?_eq_some hf)).1
        simp [this]
  · constructor
    · intro id hm
      obtain ⟨d, hd, hdr⟩ := List.mem_map.1 hm
      have := (hdevs d hd).1
      rw [this] at hdr; cases hdr
    · intro p hp
      have : ({ w.rm with inited := true } : RM).resv = [] := hresv
      have hp' : p ∈ ({ w.rm with inited := true } : RM).resv := hp
      rw [this] at hp'; cases hp'
  · intro x y id hx _
    have hx' : (w.dev x).reserved = some id := hx
    rw [hres x] at hx'; cases hx'
  · intro x hk req _
    refine ⟨fun id hid => ?_, fun hp => ?_⟩
    · have hid' : (w.dev x).reserved = some id := hid
      rw [hres x] at hid'; cases hid'
    · have hk' : (w.dev x).kind = .processor := hk
      have := (hdevs _ (mem_devs_of_lt (lt_of_processor hk'))).2 hk'
      have hp' : (w.dev x).part.isSome = true := hp
      rw [this] at hp'; cases hp'
  · constructor
    · show (w.rm.waiting.map (·.2)).Nodup
      rw [hwait]; exact List.nodup_nil
    · intro e he
      have he' : e ∈ w.rm.waiting := he
      rw [hwait] at he'; cases he'
  · intro x _ _ hr _
    exact absurd (hres x) hr
  · intro x _ _ e he _
    exact libFree_spec (hlib e (List.mem_append_left _ he)) x
  · intro e he x _ ha
    have := libFree_spec (hlib e he) x
    rcases ha with ha | ha
    · exact absurd ha this.1
    · exact absurd ha this.2
  · intro ⟨e, he, _⟩
    have he' : e ∈ w.rm.waiting := he
    rw [hwait] at he'; cases he'
  · intro x _ _ hr _
    exact absurd (hres x) hr

theorem inv_foldl_initAsset (l : List AssetRef) : ∀ (w : World), Inv w →
    Inv (l.foldl (fun w a => w.initAsset a) w) := by
  induction l with
  | nil => intro w h; exact h
  | cons a l ih => intro w h; rw [List.foldl_cons]; exact ih _ (h.mono (mono_initAsset w a))

/-- **`System.simulate`'s initialisation establishes the invariant.** -/
theorem inv_simulateInit (w : World) (hS : S w) (hF : FreshR w) : Inv w.simulateInit := by
  have h0 := inv_fresh w hS hF
  unfold simulateInit
  rw [if_neg (by rw [hF.1]; decide)]
  simp only [RM.init]
  have h1 : Inv ((({ w with rm := { w.rm with inited := true } } : World).rmEffects
      (w.rm.pools.map (fun p => (⟨p.1, p.2.1, p.2.2⟩ : ResRec))) (!w.rm.waiting.isEmpty))) :=
    h0.mono (monoS_rmEffects _ _ _).toMono
  generalize (({ w with rm := { w.rm with inited := true } } : World).rmEffects
      (w.rm.pools.map (fun p => (⟨p.1, p.2.1, p.2.2⟩ : ResRec))) (!w.rm.waiting.isEmpty)) = W1 at h1 ⊢
  have h2 := inv_foldl_initAsset W1.assets _ h1
  refine h2.mono (MonoS.toMono ?_)
  exact MonoS.of_eq rfl rfl rfl rfl


/-! ### `Environment.run(d)` -/

theorem ofNat_terminate_plain : Plain (Action.ofNat terminateAct) := by
  intro x
  constructor <;> (intro h; cases h)

/-- Beginning of `Environment.run`: the terminate event is scheduled. -/
theorem inv_runBegin (w : World) (d : Int) (h : Inv w) : Inv (w.runBegin d).1 := by
  unfold World.runBegin
  dsimp only
  split
  · exact h
  · next env' he =>
    refine h.mono (MonoS.toMono ?_)
    unfold Env.runBegin at he
    obtain ⟨hle, rfl⟩ := Env.schedule_some.1 he
    refine ⟨⟨rfl, rfl, ⟨rfl, rfl, ?_, ?_, ?_⟩, fun _ _ => Or.inl rfl⟩, fun _ _ => rfl⟩
    · intro e hm; exact insort_mem.2 (Or.inr hm)
    · intro e hm
      rcases insort_mem.1 hm with rfl | hm
      · exact Or.inr (NewOK.of_plain w ofNat_terminate_plain)
      · exact Or.inl hm
    · intro hq
      exact C01.inv_schedule (s := { w.env with terminated := false })
        ⟨hq.sorted, hq.future, hq.uids, hq.fresh⟩ (Env.schedule_some.2 ⟨hle, rfl⟩)

end C11W
end SimProc
