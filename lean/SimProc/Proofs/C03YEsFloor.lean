/-
C03W with re-wiring — blindness to the scripts: the functions of `Model/Floor.lean`
(`f (es w s) … = es (f w …) s`), after `Proofs/C14WBlind.lean`.
-/
import SimProc.Proofs.C03YEs
import SimProc.Proofs.C03Lemmas

namespace SimProc
namespace C03W
open World

theorem be_setWaiting (x : Nat) (a b : Bool) : EBlind (fun w => w.setWaiting x a b) := by
  intro w s
  eb_close [setWaiting]
@[c03es] theorem es_setWaiting (w : World) (s : List (List Op)) (x : Nat) (a b : Bool) :
    (es w s).setWaiting x a b = es (w.setWaiting x a b) s :=
  (be_setWaiting x a b).eq w s

theorem be_addHist (p d : Nat) : EBlind (fun w => w.addHist p d) := by
  intro w s
  eb_close [addHist]
@[c03es] theorem es_addHist (w : World) (s : List (List Op)) (p d : Nat) :
    (es w s).addHist p d = es (w.addHist p d) s :=
  (be_addHist p d).eq w s

theorem be_dropHist (p : Nat) : EBlind (fun w => w.dropHist p) := by
  intro w s
  eb_close [dropHist]
@[c03es] theorem es_dropHist (w : World) (s : List (List Op)) (p : Nat) :
    (es w s).dropHist p = es (w.dropHist p) s :=
  (be_dropHist p).eq w s

theorem be_applyPartCb (x p : Nat) (c : PartCb) : EBlind (fun w => w.applyPartCb x p c) := by
  intro w s
  eb_close [applyPartCb]
@[c03es] theorem es_applyPartCb (w : World) (s : List (List Op)) (x p : Nat) (c : PartCb) :
    (es w s).applyPartCb x p c = es (w.applyPartCb x p c) s :=
  (be_applyPartCb x p c).eq w s

theorem be_senseOutput (sn p : Nat) : EBlind (fun w => w.senseOutput sn p) := by
  intro w s
  eb_close [senseOutput]
@[c03es] theorem es_senseOutput (w : World) (s : List (List Op)) (sn p : Nat) :
    (es w s).senseOutput sn p = es (w.senseOutput sn p) s :=
  (be_senseOutput sn p).eq w s

theorem be_schedulePass (x : Nat) (o : Int) : EBlind (fun w => w.schedulePass x o) := by
  intro w s
  eb_close [schedulePass]
@[c03es] theorem es_schedulePass (w : World) (s : List (List Op)) (x : Nat) (o : Int) :
    (es w s).schedulePass x o = es (w.schedulePass x o) s :=
  (be_schedulePass x o).eq w s

theorem be_notifyUp_spaceAvail (n : Nat) :
    (∀ x, EBlind (fun w => notifyUp n w x)) ∧ (∀ x, EBlind (fun w => spaceAvail n w x)) := by
  induction n with
  | zero =>
    constructor <;> intro x w s
    · eb_norm [notifyUp]
    · eb_norm [spaceAvail]
  | succ n ih =>
    have hN : ∀ w s x, notifyUp n (es w s) x = es (notifyUp n w x) s :=
      fun w s x => (ih.1 x).eq w s
    have hS : ∀ w s x, spaceAvail n (es w s) x = es (spaceAvail n w x) s :=
      fun w s x => (ih.2 x).eq w s
    constructor <;> intro x w s
    · eb_close [notifyUp, hN, hS]
    · eb_close [spaceAvail, hN, hS]

@[c03es] theorem es_notifyUp (n : Nat) (w : World) (s : List (List Op)) (x : Nat) :
    notifyUp n (es w s) x = es (notifyUp n w x) s :=
  ((be_notifyUp_spaceAvail n).1 x).eq w s
@[c03es] theorem es_spaceAvail (n : Nat) (w : World) (s : List (List Op)) (x : Nat) :
    spaceAvail n (es w s) x = es (spaceAvail n w x) s :=
  ((be_notifyUp_spaceAvail n).2 x).eq w s

theorem be_notify (x : Nat) : EBlind (fun w => w.notify x) := by
  intro w s
  eb_norm [notify]
@[c03es] theorem es_notify (w : World) (s : List (List Op)) (x : Nat) :
    (es w s).notify x = es (w.notify x) s :=
  (be_notify x).eq w s

theorem be_spaceAvailable (x : Nat) : EBlind (fun w => w.spaceAvailable x) := by
  intro w s
  eb_norm [spaceAvailable]
@[c03es] theorem es_spaceAvailable (w : World) (s : List (List Op)) (x : Nat) :
    (es w s).spaceAvailable x = es (w.spaceAvailable x) s :=
  (be_spaceAvailable x).eq w s

theorem be_releaseReserved (x : Nat) : EBlind (fun w => w.releaseReserved x) := by
  intro w s
  eb_close [releaseReserved]
@[c03es] theorem es_releaseReserved (w : World) (s : List (List Op)) (x : Nat) :
    (es w s).releaseReserved x = es (w.releaseReserved x) s :=
  (be_releaseReserved x).eq w s

theorem be_procAcquire (x : Nat) : EBlind2 (fun w => w.procAcquire x) := by
  intro w s
  eb_close [procAcquire]
@[c03es] theorem es_procAcquire (w : World) (s : List (List Op)) (x : Nat) :
    (es w s).procAcquire x = (es (w.procAcquire x).1 s, (w.procAcquire x).2) :=
  (be_procAcquire x).eq w s

theorem be_finishCycleHandler (x : Nat) : EBlind (fun w => w.finishCycleHandler x) := by
  intro w s
  eb_close [finishCycleHandler]
@[c03es] theorem es_finishCycleHandler (w : World) (s : List (List Op)) (x : Nat) :
    (es w s).finishCycleHandler x = es (w.finishCycleHandler x) s :=
  (be_finishCycleHandler x).eq w s

theorem es_genPart_fold (d : Dev) (l : List Nat) (w : World) (s : List (List Op)) (acc : List Nat) :
    l.foldl (fun (acc : World × List Nat) _ =>
      let (w', k) := acc.1.newPart { quality := d.genQuality, value := d.genValue }
      (w', acc.2 ++ [k])) (es w s, acc) =
    (es (l.foldl (fun (acc : World × List Nat) _ =>
      let (w', k) := acc.1.newPart { quality := d.genQuality, value := d.genValue }
      (w', acc.2 ++ [k])) (w, acc)).1 s,
     (l.foldl (fun (acc : World × List Nat) _ =>
      let (w', k) := acc.1.newPart { quality := d.genQuality, value := d.genValue }
      (w', acc.2 ++ [k])) (w, acc)).2) := by
  induction l generalizing w acc with
  | nil => rfl
  | cons a l ih =>
    rw [List.foldl_cons, List.foldl_cons]
    exact ih (w.newPart { quality := d.genQuality, value := d.genValue }).1 _

@[c03es] theorem es_genPart (w : World) (s : List (List Op)) (x : Nat) :
    (es w s).genPart x = (es (w.genPart x).1 s, (w.genPart x).2) := by
  eb_close [genPart, es_genPart_fold]

theorem be_finishCycle (x : Nat) : EBlind (fun w => w.finishCycle x) := by
  intro w s
  eb_close [finishCycle]
@[c03es] theorem es_finishCycle (w : World) (s : List (List Op)) (x : Nat) :
    (es w s).finishCycle x = es (w.finishCycle x) s :=
  (be_finishCycle x).eq w s

theorem be_scheduleFinish (x : Nat) : EBlind (fun w => w.scheduleFinish x) := by
  intro w s
  eb_close [scheduleFinish]
@[c03es] theorem es_scheduleFinish (w : World) (s : List (List Op)) (x : Nat) :
    (es w s).scheduleFinish x = es (w.scheduleFinish x) s :=
  (be_scheduleFinish x).eq w s

@[c03es] theorem es_batcherLoop (n : Nat) (w : World) (s : List (List Op)) (x : Nat) :
    batcherLoop n (es w s) x = es (batcherLoop n w x) s := by
  induction n generalizing w with
  | zero => rfl
  | succ n ih =>
    rw [batcherLoop, batcherLoop]
    eb_close [ih]

theorem be_tryMove (x : Nat) : EBlind (fun w => w.tryMove x) := by
  intro w s
  eb_close [tryMove]
@[c03es] theorem es_tryMove (w : World) (s : List (List Op)) (x : Nat) :
    (es w s).tryMove x = es (w.tryMove x) s :=
  (be_tryMove x).eq w s

theorem be_onReceived (x p : Nat) : EBlind (fun w => w.onReceived x p) := by
  intro w s
  eb_close [onReceived]
@[c03es] theorem es_onReceived (w : World) (s : List (List Op)) (x p : Nat) :
    (es w s).onReceived x p = es (w.onReceived x p) s :=
  (be_onReceived x p).eq w s

theorem be_acceptPart (x p : Nat) : EBlind (fun w => w.acceptPart x p) := by
  intro w s
  eb_close [acceptPart]
@[c03es] theorem es_acceptPart (w : World) (s : List (List Op)) (x p : Nat) :
    (es w s).acceptPart x p = es (w.acceptPart x p) s :=
  (be_acceptPart x p).eq w s

theorem be_tryList (g : World → Nat → Nat → World × Bool)
    (hg : ∀ w s y p, g (es w s) y p = (es (g w y p).1 s, (g w y p).2))
    (l : List Nat) (p : Nat) : EBlind2 (fun w => tryList g w l p) := by
  intro w s
  induction l generalizing w with
  | nil => exact ⟨rfl, rfl⟩
  | cons y ys ih =>
    simp only [tryList, hg]
    cases hb : (g w y p).2 with
    | true =>
      rw [show g w y p = ((g w y p).1, true) from Prod.ext rfl hb]
      exact ⟨rfl, rfl⟩
    | false =>
      rw [show g w y p = ((g w y p).1, false) from Prod.ext rfl hb]
      exact ih _

@[c03es] theorem es_tryList (g : World → Nat → Nat → World × Bool)
    (hg : ∀ w s y p, g (es w s) y p = (es (g w y p).1 s, (g w y p).2))
    (w : World) (s : List (List Op)) (l : List Nat) (p : Nat) :
    tryList g (es w s) l p = (es (tryList g w l p).1 s, (tryList g w l p).2) :=
  (be_tryList g hg l p).eq w s

theorem be_give (n : Nat) : ∀ x p, EBlind2 (fun w => give n w x p) := by
  induction n with
  | zero =>
    intro x p w s
    eb_norm [give]
    bl_fin
  | succ n ih =>
    have hG : ∀ w s x p, give n (es w s) x p = (es (give n w x p).1 s, (give n w x p).2) :=
      fun w s x p => (ih x p).eq w s
    intro x p w s
    simp only [give, es_dev]
    split_match <;> eb_close [hG]

@[c03es] theorem es_give (n : Nat) (w : World) (s : List (List Op)) (x p : Nat) :
    give n (es w s) x p = (es (give n w x p).1 s, (give n w x p).2) :=
  (be_give n x p).eq w s

theorem be_givePart (x p : Nat) : EBlind2 (fun w => w.givePart x p) := by
  intro w s
  eb_norm [givePart]
  bl_fin
@[c03es] theorem es_givePart (w : World) (s : List (List Op)) (x p : Nat) :
    (es w s).givePart x p = (es (w.givePart x p).1 s, (w.givePart x p).2) :=
  (be_givePart x p).eq w s

theorem be_passHandler (x : Nat) : EBlind (fun w => w.passHandler x) := by
  intro w s
  eb_close [passHandler]
@[c03es] theorem es_passHandler (w : World) (s : List (List Op)) (x : Nat) :
    (es w s).passHandler x = es (w.passHandler x) s :=
  (be_passHandler x).eq w s

theorem be_bufferLoop (n : Nat) (x : Nat) : EBlind (fun w => bufferLoop n w x) := by
  induction n with
  | zero => intro w s; rfl
  | succ n ih =>
    have hB : ∀ w s, bufferLoop n (es w s) x = es (bufferLoop n w x) s :=
      fun w s => ih.eq w s
    intro w s
    eb_close [bufferLoop, hB]
@[c03es] theorem es_bufferLoop (n : Nat) (w : World) (s : List (List Op)) (x : Nat) :
    bufferLoop n (es w s) x = es (bufferLoop n w x) s :=
  (be_bufferLoop n x).eq w s

theorem be_passPart (x : Nat) : EBlind (fun w => w.passPart x) := by
  intro w s
  eb_close [passPart]
@[c03es] theorem es_passPart (w : World) (s : List (List Op)) (x : Nat) :
    (es w s).passPart x = es (w.passPart x) s :=
  (be_passPart x).eq w s

theorem be_shutdownDev (x : Nat) (f : Bool) (lost : Option Nat) : EBlind (fun w => w.shutdownDev x f lost) := by
  intro w s
  eb_close [shutdownDev]
@[c03es] theorem es_shutdownDev (w : World) (s : List (List Op)) (x : Nat) (f : Bool) (lost : Option Nat) :
    (es w s).shutdownDev x f lost = es (w.shutdownDev x f lost) s :=
  (be_shutdownDev x f lost).eq w s

theorem be_failDev (x : Nat) : EBlind (fun w => w.failDev x) := by
  intro w s
  eb_close [failDev]
@[c03es] theorem es_failDev (w : World) (s : List (List Op)) (x : Nat) :
    (es w s).failDev x = es (w.failDev x) s :=
  (be_failDev x).eq w s

theorem be_restoreDev (x : Nat) : EBlind (fun w => w.restoreDev x) := by
  intro w s
  eb_close [restoreDev]
@[c03es] theorem es_restoreDev (w : World) (s : List (List Op)) (x : Nat) :
    (es w s).restoreDev x = es (w.restoreDev x) s :=
  (be_restoreDev x).eq w s

theorem be_releaseIfIdle (x : Nat) : EBlind (fun w => w.releaseIfIdle x) := by
  intro w s
  eb_close [releaseIfIdle]
@[c03es] theorem es_releaseIfIdle (w : World) (s : List (List Op)) (x : Nat) :
    (es w s).releaseIfIdle x = es (w.releaseIfIdle x) s :=
  (be_releaseIfIdle x).eq w s

theorem be_procResourceCb (x : Nat) : EBlind (fun w => w.procResourceCb x) := by
  intro w s
  eb_norm [procResourceCb]
@[c03es] theorem es_procResourceCb (w : World) (s : List (List Op)) (x : Nat) :
    (es w s).procResourceCb x = es (w.procResourceCb x) s :=
  (be_procResourceCb x).eq w s

theorem be_setBlock (x : Nat) (b : Bool) : EBlind (fun w => w.setBlock x b) := by
  intro w s
  eb_close [setBlock]
@[c03es] theorem es_setBlock (w : World) (s : List (List Op)) (x : Nat) (b : Bool) :
    (es w s).setBlock x b = es (w.setBlock x b) s :=
  (be_setBlock x b).eq w s

theorem be_adjustParts (x : Nat) (v : Int) : EBlind (fun w => w.adjustParts x v) := by
  intro w s
  eb_close [adjustParts]
@[c03es] theorem es_adjustParts (w : World) (s : List (List Op)) (x : Nat) (v : Int) :
    (es w s).adjustParts x v = es (w.adjustParts x v) s :=
  (be_adjustParts x v).eq w s

@[c03es] theorem es_rewireStep (x : Nat) (w : World) (s : List (List Op)) (u : Nat) :
    C03.rewireStep x (es w s) u = es (C03.rewireStep x w u) s := by
  unfold C03.rewireStep
  eb_go <;> bl_fin

@[c03es] theorem es_rewirePre (w : World) (s : List (List Op)) (x : Nat) (ups : List Nat) :
    C03.rewirePre (es w s) x ups = es (C03.rewirePre w x ups) s := by
  unfold C03.rewirePre
  eb_go <;> bl_fin

@[c03es] theorem es_rewire (w : World) (s : List (List Op)) (x : Nat) (ups : List Nat) :
    (es w s).rewire x ups = es (w.rewire x ups) s := by
  rw [C03.rewire_eq, C03.rewire_eq, es_rewirePre]
  exact es_foldl _ (fun w s u => es_rewireStep x w s u) ups _ s

theorem be_initDev (x : Nat) : EBlind (fun w => w.initDev x) := by
  intro w s
  eb_close [initDev]
@[c03es] theorem es_initDev (w : World) (s : List (List Op)) (x : Nat) :
    (es w s).initDev x = es (w.initDev x) s :=
  (be_initDev x).eq w s

end C03W
end SimProc
