/-
C17W machinery, part 2: one hand-over as seen by the batchers (the acceptor appends the leaves of the
accepted part at the end of its sequence, the giver drops the leaves of its output at the front,
everybody else is untouched), `passHandler`, the release loop of a buffer, `passPart`.
-/
import SimProc.Proofs.C17WBat
namespace SimProc
namespace C17W
open World C02V C05W

/-! ### one successful hand-over -/

/-- The slots of the devices other than the acceptor are unchanged. -/
theorem handed_sdev_other {w w1 w0 : World} {z p : Nat} (hH : Handed w p w1 z w0)
    (hp : p < w.parts.length) {y : Nat} (hy : y < w.devs.length) (hyz : y ≠ z) :
    sdev (w1.dev y) = sdev (w.dev y) := by
  have hz0 : z < w0.devs.length := by rw [devs_len_of_sv hH.fr.sv]; exact hH.lt
  have hst := steps_acceptPart w0 z p hz0 (by rw [parts_len_of_sv hH.fr.sv]; exact hp)
  rw [← hH.eq] at hst
  have h1 := hst.devs_ne hyz
  have hl : w1.devs.length = w.devs.length := hH.bo.len
  simp only [accept] at h1
  rw [List.getElem?_set_ne (Ne.symm hyz), hH.fr.sv, sv_get w y hy, sv_get w1 y (by rw [hl]; exact hy)] at h1
  exact Option.some.inj h1

/-- A batcher other than the acceptor that does not hold the part handed over. -/
theorem handed_bat_other {w w1 w0 : World} {z p : Nat} (hI : InvW w) (hH : Handed w p w1 z w0)
    (hp : p < w.parts.length) {y : Nat} (hy : y < w.devs.length) (hyz : y ≠ z)
    (hne : ∀ q ∈ (sdev (w.dev y)).held, q ≠ p) (h : BatOK w y) :
    BatOK w1 y ∧ C17.seqOf w1 y = C17.seqOf w y := by
  have hs := handed_sdev_other hH hp hy hyz
  have hk : ∀ q ∈ (sdev (w.dev y)).held, (w1.part q).kids = (w.part q).kids := by
    intro q hq
    rw [hH.eq]
    exact acc_kids_others z p hI hH.fr hH.lt hy hq (hne q hq) hyz
  exact ⟨batOK_transport hs (bdev_fields (hH.bo.bdev_eq hyz)).2.2.2.2.1 hk h, seqOf_transport hs hk⟩

/-- The acceptor, if it is a batcher: the leaves of the accepted part are appended at the end. -/
theorem handed_bat_self {w w1 w0 : World} {z p x : Nat} (hI : InvW w) (hH : Handed w p w1 z w0)
    (hkz : (w.dev z).kind = .batcher) (hx : x < w.devs.length) (hpx : p ∈ (sdev (w.dev x)).held)
    (hxz : x ≠ z) (h : BatOK w z) :
    BatOK w1 z ∧ C17.seqOf w1 z = C17.seqOf w z ++ w.leavesOf p := by
  have hpv : p < w.parts.length := held_valid hI hx hpx
  have hI0 : InvW w0 := hI.of_sv hH.fr.sv
  have hs0 : sdev (w0.dev z) = sdev (w.dev z) := sdev_of_sv hH.fr.sv z
  have hb0 : (w0.dev z).bsize = (w.dev z).bsize := (bdev_fields (bdev_of_fr3 hH.fr z)).2.2.2.2.1
  have hk0 : ∀ q, (w0.part q).kids = (w.part q).kids := kids_of_sv hH.fr.sv
  have h0 : BatOK w0 z := batOK_transport hs0 hb0 (fun q _ => hk0 q) h
  have hkz0 : (w0.dev z).kind = .batcher := by rw [kind_of_fr3 hH.fr]; exact hkz
  have hz0 : z < w0.devs.length := lt_of_kind_batcher hkz0
  have hp0 : (w0.dev z).part = none := by rw [part_of_sv hH.fr.sv]; exact hH.part
  have ho0 : (w0.dev z).output = none := by rw [output_of_sv hH.fr.sv]; exact hH.output
  have hwf0 : C17.Wf w0 z := h0.toBatPre.wf hI0
  have hpb : ∀ b ∈ (w0.dev z).inprog, b ≠ p := by
    intro b hb hbp
    simp only [Option.mem_def] at hb
    subst hbp
    have : b ∈ (sdev (w.dev z)).held := by rw [← hs0]; exact held_inprog hb
    exact hxz (SVBatchAux.held_unique hI.1 (sv_get w x hx) (sv_get w z hH.lt) hpx this)
  have hleaves : (w0.dev z).bsize = none → ∀ l ∈ (w0.part p).kids, ∀ k ∈ l, (w0.part k).kids = none := by
    intro _ l hl k hk
    simp only [Option.mem_def] at hl
    rw [hk0] at hl ⊢
    have := hI.1.kidsLeaf p l ((C02.kids_getElem w p _).2 ⟨hpv, hl⟩) k hk
    exact ((C02.kids_getElem w k _).1 this).2
  obtain ⟨a1, a2, a3, a4, _⟩ := C17.acceptPart_batcher (w := w0) (x := z) (p := p) hkz0 hwf0 hp0 ho0 hpb hleaves
  rw [← hH.eq] at a1 a2 a3 a4
  have hseq0 : C17.seqOf w0 z = C17.seqOf w z := seqOf_transport hs0 (fun q _ => hk0 q)
  refine ⟨?_, by rw [a2, hseq0, leavesOf_of_kids (hk0 p)]⟩
  -- sizes, through the view of `acceptPart` as a `tryMove`
  obtain ⟨w5, hv, he⟩ := acceptPart_batcher_view (p := p) hkz0 ho0
  rw [← hH.eq] at he
  have hd1 : (w0.modDev z (fun d => { d with part := some p })).dev z = { w0.dev z with part := some p } :=
    dev_modDev_same hz0
  have hk5 : (w5.dev z).kind = .batcher := by rw [hv.kind, hd1]; exact hkz0
  have ho5 : (w5.dev z).output = none := by rw [hv.output, hd1]; exact ho0
  have hb5 : (w5.dev z).bsize = (w0.dev z).bsize := by rw [hv.bsize, hd1]
  have hi5 : (w5.dev z).inprog = (w0.dev z).inprog := by rw [hv.inprog, hd1]
  have hkids5 : ∀ q, (w5.part q).kids = (w0.part q).kids := fun q => by rw [hv.kids, part_modDev]
  have hwf1 : C17.Wf (w0.modDev z (fun d => { d with part := some p })) z := by
    refine ⟨?_, ?_, ?_, ?_⟩
    · rw [hd1]; exact hwf0.prog_valid
    · rw [hd1]; intro b hb q hq
      obtain rfl : p = q := by simpa using hq
      exact hpb b hb
    · rw [hd1]; exact hwf0.single_noprog
    · rw [hd1]; intro hbs q hq
      obtain rfl : p = q := by simpa using hq
      exact hleaves hbs
  have hwf5 : C17.Wf w5 z := hv.wf hwf1
  refine ⟨⟨?_, fun hb => a1.single_noprog hb, ?_, ?_, ?_⟩, a4⟩
  · rw [a3]; exact h0.pos
  · intro n hn b hb
    rw [a3] at hn
    have hlt : ∀ b ∈ (w5.dev z).inprog, ((w5.part b).kids.getD []).length < n := by
      intro b hb
      rw [hi5] at hb; rw [hkids5]
      exact h0.prog_lt n hn b (by simpa using hb)
    have := (C17.tryMove_batch_sizes hk5 (hb5.trans hn) (h0.pos n hn) hwf5 hlt).1
    rw [← he] at this
    exact this b (by simpa using hb)
  · intro n hn o ho'
    rw [a3] at hn
    have hlt : ∀ b ∈ (w5.dev z).inprog, ((w5.part b).kids.getD []).length < n := by
      intro b hb
      rw [hi5] at hb; rw [hkids5]
      exact h0.prog_lt n hn b (by simpa using hb)
    have := (C17.tryMove_batch_sizes hk5 (hb5.trans hn) (h0.pos n hn) hwf5 hlt).2 ho5
    rw [← he] at this
    exact this o (by simpa using ho')
  · intro hn o ho'
    rw [a3] at hn
    have := (C17.tryMove_single hk5 (hb5.trans hn) hwf5).2 ho5
    rw [← he] at this
    exact this o (by simpa using ho')

/-- The end of a successful `passHandler`: the output slot of the giver is cleared. -/
def clearOut (w : World) (x : Nat) : World := (w.modDev x (fun d => { d with output := none })).notify x

theorem clearOut_sv (w : World) (x : Nat) :
    sv (clearOut w x) = sv (w.modDev x (fun d => { d with output := none })) := sv_notify ..

theorem clearOut_bv (w : World) (x : Nat) : bv (clearOut w x) = bv w := by
  unfold clearOut; rw [bv_notify]; exact bv_modDev_same _ _ _ (fun _ => rfl)

theorem clearOut_st (w : World) (x : Nat) : st (clearOut w x) = st w := by
  unfold clearOut; rw [st_notify]; exact st_modDev_same _ _ _ (fun _ => rfl)

theorem clearOut_kids (w : World) (x q : Nat) : ((clearOut w x).part q).kids = (w.part q).kids := by
  unfold clearOut; rw [part_notify, part_modDev]

theorem clearOut_sdev_ne (w : World) {x y : Nat} (h : y ≠ x) : sdev ((clearOut w x).dev y) = sdev (w.dev y) := by
  rw [sdev_of_sv (clearOut_sv w x) y, dev_modDev_ne (Ne.symm h)]

theorem clearOut_sdev_self (w : World) {x : Nat} (hx : x < w.devs.length) :
    sdev ((clearOut w x).dev x) = { sdev (w.dev x) with output := none } := by
  rw [sdev_of_sv (clearOut_sv w x) x, dev_modDev_same hx]; rfl

theorem batOK_clearOut_ne {w : World} {x y : Nat} (h : y ≠ x) (hb : BatOK w y) : BatOK (clearOut w x) y :=
  batOK_transport (clearOut_sdev_ne w h) (bdev_fields (bdev_of_bv (clearOut_bv w x) y)).2.2.2.2.1
    (fun q _ => clearOut_kids w x q) hb

theorem seqOf_clearOut_ne {w : World} {x y : Nat} (h : y ≠ x) :
    C17.seqOf (clearOut w x) y = C17.seqOf w y :=
  seqOf_transport (clearOut_sdev_ne w h) (fun q _ => clearOut_kids w x q)

/-- The giver, if it is a batcher, after its output has been handed over and cleared: the leaves
of the output have left at the front. -/
theorem handed_giver {w w1 w0 : World} {z p x : Nat} (hI : InvW w) (hH : Handed w p w1 z w0)
    (hx : x < w.devs.length) (hpo : (w.dev x).output = some p) (hxz : x ≠ z) (h : BatPre w x) :
    BatPre (clearOut w1 x) x ∧ ((clearOut w1 x).dev x).output = none ∧
      C17.seqOf w x = w.leavesOf p ++ C17.seqOf (clearOut w1 x) x := by
  have hpx : p ∈ (sdev (w.dev x)).held := held_output hpo
  have hpv : p < w.parts.length := held_valid hI hx hpx
  have hs1 : sdev (w1.dev x) = sdev (w.dev x) := handed_sdev_other hH hpv hx hxz
  have hx1 : x < w1.devs.length := by rw [hH.bo.len]; exact hx
  have hs2 : sdev ((clearOut w1 x).dev x) = { sdev (w.dev x) with output := none } := by
    rw [clearOut_sdev_self w1 hx1, hs1]
  have hb2 : ((clearOut w1 x).dev x).bsize = (w.dev x).bsize :=
    ((bdev_fields (bdev_of_bv (clearOut_bv w1 x) x)).2.2.2.2.1).trans
      (bdev_fields (hH.bo.bdev_eq hxz)).2.2.2.2.1
  have hnd := SVBatchAux.held_nodup hI.1 (List.mem_of_getElem? (sv_get w x hx))
  have hk : ∀ q ∈ (sdev (w.dev x)).held, q ≠ p → ((clearOut w1 x).part q).kids = (w.part q).kids := by
    intro q hq hqp
    rw [clearOut_kids, hH.eq]
    exact acc_kids_others z p hI hH.fr hH.lt hx hq hqp hxz
  have hpart : ((clearOut w1 x).dev x).part = (w.dev x).part := congrArg SDev.part hs2
  have hout : ((clearOut w1 x).dev x).output = none := congrArg SDev.output hs2
  have hinp : ((clearOut w1 x).dev x).inprog = (w.dev x).inprog := congrArg SDev.inprog hs2
  have hne_part : ∀ q, (w.dev x).part = some q → q ≠ p := by
    intro q hq hqp
    subst hqp
    simp only [SDev.held, sdev, hq, hpo, Option.toList_some] at hnd
    have := List.nodup_append.1 (List.nodup_append.1 (List.nodup_append.1 hnd).1).1
    exact this.2.2 q (by simp) q (by simp) rfl
  have hne_prog : ∀ q, (w.dev x).inprog = some q → q ≠ p := by
    intro q hq hqp
    subst hqp
    simp only [SDev.held, sdev, hq, hpo, Option.toList_some] at hnd
    have := List.nodup_append.1 hnd
    exact this.2.2 q (by simp) q (by simp) rfl
  refine ⟨⟨by rw [hb2]; exact h.pos, by rw [hb2, hinp]; exact h.noprog, ?_, ?_, ?_⟩, hout, ?_⟩
  · intro n hn b hb
    rw [hb2] at hn; rw [hinp] at hb
    rw [hk b (held_inprog hb) (hne_prog b hb)]
    exact h.prog_lt n hn b hb
  · intro n _ o ho; rw [hout] at ho; cases ho
  · intro _ o ho; rw [hout] at ho; cases ho
  · unfold C17.seqOf
    rw [hpart, hout, hinp, hpo]
    simp only [List.nil_append, List.append_assoc]
    congr 1
    congr 1
    · cases hb : (w.dev x).inprog with
      | none => rfl
      | some b => simp only []; rw [hk b (held_inprog hb) (hne_prog b hb)]
    · cases hp : (w.dev x).part with
      | none => rfl
      | some q => exact (leavesOf_of_kids (hk q (held_part hp) (hne_part q hp))).symm

/-! ### `passHandler` -/

/-- What `passHandler x` does to the batchers. -/
structure PH (w : World) (x : Nat) (w' : World) : Prop where
  /-- the batchers other than the giver keep their invariant; at most one of them accepted the
  giver's output and appended its leaves -/
  others : ∀ y, (w.dev y).kind = .batcher → y ≠ x →
    BatOK w' y ∧ ∃ ps : List Nat, C17.seqOf w' y = C17.seqOf w y ++ ps.flatMap w.leavesOf ∧
      ∀ q ∈ ps, (w.dev x).output = some q
  /-- the giver, if it is a batcher: unchanged, or its output has left -/
  giver : (w.dev x).kind = .batcher →
    BatPre w' x ∧
    ((BatOK w' x ∧ C17.seqOf w' x = C17.seqOf w x) ∨
     (∃ o, (w.dev x).output = some o ∧ (w'.dev x).output = none ∧
        C17.seqOf w x = w.leavesOf o ++ C17.seqOf w' x))

theorem ph_of_frame {w w' : World} (x : Nat) (hsv : sv w' = sv w) (hbv : bv w' = bv w) (hB : BatAll w) :
    PH w x w' := by
  have key : ∀ y, (w.dev y).kind = .batcher → BatOK w' y ∧ C17.seqOf w' y = C17.seqOf w y := fun y hy =>
    ⟨batOK_transport (sdev_of_sv hsv y) (bdev_fields (bdev_of_bv hbv y)).2.2.2.2.1
      (fun q _ => kids_of_sv hsv q) (hB y hy), seqOf_transport (sdev_of_sv hsv y) (fun q _ => kids_of_sv hsv q)⟩
  exact ⟨fun y hy _ => ⟨(key y hy).1, [], by simp [(key y hy).2], by simp⟩,
    fun hx => ⟨(key x hx).1.toBatPre, Or.inl (key x hx)⟩⟩

theorem held_ne_of_other {w : World} (hI : InvW w) {x y p : Nat} (hx : x < w.devs.length)
    (hy : y < w.devs.length) (hp : p ∈ (sdev (w.dev x)).held) (hxy : y ≠ x) :
    ∀ q ∈ (sdev (w.dev y)).held, q ≠ p := by
  intro q hq heq
  exact hxy (SVBatchAux.held_unique hI.1 (sv_get w y hy) (sv_get w x hx) hq (heq ▸ hp))

theorem bat_passHandler (w : World) (x : Nat) (hI : InvW w) (hB : BatAll w) (hg : GiveOK w x) :
    PH w x (w.passHandler x) := by
  unfold World.passHandler
  simp only []
  split
  · exact ph_of_frame x rfl rfl hB
  · split
    · exact ph_of_frame x rfl rfl hB
    · rename_i p hp
      have hx : x < w.devs.length := lt_of_output hp
      have hpx : p ∈ (sdev (w.dev x)).held := held_output hp
      have hpv : p < w.parts.length := held_valid hI hx hpx
      cases hb : (tryList givePart w (w.sortedDown x) p).2 with
      | false =>
        have hf := (tryGive_gd w (w.sortedDown x) p).1 hb
        have : tryList givePart w (w.sortedDown x) p = ((tryList givePart w (w.sortedDown x) p).1, false) := by
          rw [← hb]
        rw [this]
        simp only []
        refine ph_of_frame x ?_ ?_ hB
        · refine Eq.trans ?_ hf.sv; exact sv_modDev_same _ _ _ (fun _ => rfl)
        · refine Eq.trans ?_ hf.bv; exact bv_modDev_same _ _ _ (fun _ => rfl)
      | true =>
        obtain ⟨z, w0, hH⟩ := tryGive_handed w x p hg hb
        have : tryList givePart w (w.sortedDown x) p = ((tryList givePart w (w.sortedDown x) p).1, true) := by
          rw [← hb]
        rw [this]
        simp only []
        generalize (tryList givePart w (w.sortedDown x) p).1 = w1 at hH
        show PH w x (clearOut w1 x)
        have hxz : x ≠ z := by
          rintro rfl; rw [hH.output] at hp; cases hp
        refine ⟨?_, ?_⟩
        · intro y hyk hyx
          have hy := lt_of_kind_batcher hyk
          by_cases hyz : y = z
          · subst hyz
            obtain ⟨b1, b2⟩ := handed_bat_self hI hH hyk hx hpx hxz (hB y hyk)
            refine ⟨batOK_clearOut_ne hyx b1, [p], ?_, ?_⟩
            · rw [seqOf_clearOut_ne hyx, b2]; simp
            · intro q hq; simp only [List.mem_singleton] at hq; subst hq; exact hp
          · obtain ⟨b1, b2⟩ := handed_bat_other hI hH hpv hy hyz (held_ne_of_other hI hx hy hpx hyx) (hB y hyk)
            refine ⟨batOK_clearOut_ne hyx b1, [], ?_, by simp⟩
            rw [seqOf_clearOut_ne hyx, b2]; simp
        · intro hxk
          obtain ⟨c1, c2, c3⟩ := handed_giver hI hH hx hp hxz (hB x hxk).toBatPre
          exact ⟨c1, Or.inr ⟨p, hp, c2, c3⟩⟩

end C17W
end SimProc
