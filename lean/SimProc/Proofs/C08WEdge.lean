/-
C08W, part 7: the walk relations in terms of single connections (`Edge`): consecutive entries of
a routing history are connected — directly, through group inputs, or through a group output and the
downstream list of a group path.
-/
import SimProc.Proofs.C08WTopo
namespace SimProc
namespace C08W
open World

/-- `Thru t y b`: when a part is offered to `y`, the first device that signs its history can be `b`:
`y` itself (a device with a slot, a decision gate, a group path), or — `y` being a group input —
what is reached through one of its configured downstream devices, or — `y` being a group output —
what is reached through a configured downstream device of some group path `g`. -/
inductive Thru (t : Topo) : Nat → Nat → Prop
  | self (y : Nat) : (isHandlerLike (t.kind y) = true ∨ t.kind y = .gate ∨ t.kind y = .gpath) → Thru t y y
  | ginput (y y' b : Nat) : t.kind y = .ginput → y' ∈ t.down y → Thru t y' b → Thru t y b
  | goutput (y g y' b : Nat) : t.kind y = .goutput → t.kind g = .gpath → y' ∈ t.down g →
      Thru t y' b → Thru t y b

/-- `a` and `b` can be consecutive entries of a routing history: `b` is reached through a configured
downstream device of `a`, or `a` is a group path and `b` is reached through the input device of its
group. -/
def Edge (t : Topo) (a b : Nat) : Prop :=
  (∃ y ∈ t.down a, Thru t y b) ∨ (t.kind a = .gpath ∧ Thru t (t.gin (t.group a)) b)

/-- Consecutive elements are related. -/
def Linked (R : Nat → Nat → Prop) : List Nat → Prop
  | [] => True
  | [_] => True
  | a :: b :: l => R a b ∧ Linked R (b :: l)

theorem linked_glue {R : Nat → Nat → Prop} : ∀ (l : List Nat) (a b : Nat) (m : List Nat),
    Linked R (l ++ [a]) → Linked R (b :: m) → R a b → Linked R (l ++ a :: b :: m)
  | [], _, _, _, _, h2, h3 => ⟨h3, h2⟩
  | [_], _, _, _, h1, h2, h3 => ⟨h1.1, h3, h2⟩
  | _ :: y :: l, a, b, m, h1, h2, h3 => ⟨h1.1, linked_glue (y :: l) a b m h1.2 h2 h3⟩

/-- A chain starts with a device reached from `y` and its consecutive entries are connected. -/
theorem GChain.linked {t : Topo} {y : Nat} {s c s' : List Nat} (h : GChain t y s c s')
    (hs : ∀ g ∈ s, t.kind g = .gpath) :
    ∃ b rest, c = b :: rest ∧ Thru t y b ∧ Linked (Edge t) c := by
  induction h with
  | slot y s hk => exact ⟨y, [], rfl, Thru.self y (Or.inl hk), trivial⟩
  | gate y s y' c s' hk hy _ ih =>
    obtain ⟨b, rest, rfl, hb, hl⟩ := ih hs
    exact ⟨y, b :: rest, rfl, Thru.self y (Or.inr (Or.inl hk)), Or.inl ⟨y', hy, hb⟩, hl⟩
  | ginput y s y' c s' hk hy _ ih =>
    obtain ⟨b, rest, rfl, hb, hl⟩ := ih hs
    exact ⟨b, rest, rfl, Thru.ginput y y' b hk hy hb, hl⟩
  | gpath y s c s' hk _ ih =>
    obtain ⟨b, rest, rfl, hb, hl⟩ := ih (by
      intro g hg
      rcases List.mem_append.1 hg with hg | hg
      · exact hs g hg
      · have : g = y := by simpa using hg
        rw [this]; exact hk)
    exact ⟨y, b :: rest, rfl, Thru.self y (Or.inr (Or.inr hk)), Or.inr ⟨hk, hb⟩, hl⟩
  | goutput y s g y' c s' hk hy _ ih =>
    obtain ⟨b, rest, rfl, hb, hl⟩ := ih (fun g' hg' => hs g' (List.mem_append_left _ hg'))
    exact ⟨b, rest, rfl, Thru.goutput y g y' b hk (hs g (by simp)) hy hb, hl⟩

theorem cons_eq_dropLast_lastOf (o : Nat) (h : List Nat) :
    o :: h = (o :: h).dropLast ++ [lastOf o h] := by
  induction h generalizing o with
  | nil => rfl
  | cons a h ih =>
    rw [lastOf_cons, List.dropLast_cons_cons, List.cons_append, ← ih a]

/-- **A walk is a path in the configured graph**: consecutive entries are connected by `Edge`. -/
theorem WalkU.linked {t : Topo} {o : Nat} {h : List Nat} (w : WalkU t o h) :
    Linked (Edge t) (o :: h) := by
  induction w with
  | nil => trivial
  | snoc h y s1 c s2 _ hy hs1 hc ih =>
    obtain ⟨b, rest, rfl, hb, hl⟩ := hc.linked hs1
    rw [cons_eq_dropLast_lastOf o h] at ih
    have := linked_glue _ _ b rest ih hl (Or.inl ⟨y, hy, hb⟩)
    rw [← List.cons_append, cons_eq_dropLast_lastOf o h, List.append_assoc]
    exact this

end C08W
end SimProc
