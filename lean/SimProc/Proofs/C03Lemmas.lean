/-
Helper definitions and lemmas for `SimProc/Props/C03.lean` (the notification mechanism of the
factory floor: `schedulePass`, `notifyUp`, `spaceAvail`).

* Part 1: the event queue under `sched` / `schedLib` (nothing is removed, the clock is untouched).
* Part 2: the relations `Mono` (queue and flags only grow / shrink in the harmless direction) and
  `Step` (additionally: the flow-free `core` is unchanged and a flagged device stays "pending").
* Part 3: `schedulePass` — the hand-over attempt.
* Part 4: `notifyUp` / `spaceAvail` are `Step`s (joint induction on the fuel).
* Part 5: the reachability relation `Reach` of the notification dispatch and the wake-up theorem.
* Part 6: `devs.length` through `give` / `tryList` / `bufferLoop` (needed for `passHandler`).
-/
import SimProc.Proofs.FloorCore2
import SimProc.Proofs.EnvLemmas

namespace SimProc
namespace C03
open World FloorCoreL

/-! ## Part 1: the queue under `sched` -/

theorem insort_sublist (x : Event) (l : List Event) : l.Sublist (insort x l) := by
  induction l with
  | nil => simp [insort]
  | cons e es ih =>
    unfold insort
    split
    · exact List.Sublist.cons _ (List.Sublist.refl _)
    · exact ih.cons_cons _

theorem mem_insort_self (x : Event) (l : List Event) : x ∈ insort x l :=
  insort_mem.mpr (Or.inl rfl)

/-- The environment after an accepted scheduling request. -/
def envWith (w : World) (t asset : Int) (a : Action) (prio : Int) : Env :=
  { w.env with
    events := insort (w.env.newEvent t asset a.toNat prio
      (weightOf w.seed w.wmod t asset a.toNat prio)) w.env.events
    nextUid := w.env.nextUid + 1 }

/-- A request that is not in the past is accepted: the event is inserted, nothing else changes. -/
theorem sched_of_le (w : World) (t asset : Int) (a : Action) (prio : Int) (h : w.now ≤ t) :
    w.sched t asset a prio = ({ w with env := envWith w t asset a prio }, .ok) := by
  have h' : ¬ t < w.env.now := Int.not_lt.mpr h
  simp [World.sched, Env.apply, Env.schedule, h', envWith]

/-- A request in the past is rejected: the world is unchanged. -/
theorem sched_of_lt (w : World) (t asset : Int) (a : Action) (prio : Int) (h : t < w.now) :
    w.sched t asset a prio = (w, .err .value) := by
  have h' : t < w.env.now := h
  simp [World.sched, Env.apply, Env.schedule, h']

theorem schedLib_of_le (w : World) (t asset : Int) (a : Action) (prio : Int) (h : w.now ≤ t) :
    w.schedLib t asset a prio = { w with env := envWith w t asset a prio } := by
  simp [World.schedLib, sched_of_le w t asset a prio h]

theorem schedLib_of_lt (w : World) (t asset : Int) (a : Action) (prio : Int) (h : t < w.now) :
    w.schedLib t asset a prio = w.setErr "sched-past" := by
  simp [World.schedLib, sched_of_lt w t asset a prio h]

@[simp] theorem setErr_env (w : World) (m : String) : (w.setErr m).env = w.env := by
  unfold setErr; split <;> rfl

/-- `schedLib` never removes (or cancels) a queued event, never moves the clock and never touches
the paused events. -/
theorem schedLib_env (w : World) (t asset : Int) (a : Action) (prio : Int) :
    (w.schedLib t asset a prio).env.now = w.env.now ∧
    (w.schedLib t asset a prio).env.paused = w.env.paused ∧
    w.env.events.Sublist (w.schedLib t asset a prio).env.events := by
  by_cases h : w.now ≤ t
  · rw [schedLib_of_le w t asset a prio h]
    exact ⟨rfl, rfl, insort_sublist _ _⟩
  · rw [schedLib_of_lt w t asset a prio (Int.not_le.mp h), setErr_env]
    exact ⟨rfl, rfl, List.Sublist.refl _⟩

/-! ## Part 2: `Mono` and `Step` -/

/-- `w'` is reached from `w` without moving the clock, without touching the paused events, without
removing or cancelling (or reordering) a queued event and without setting a `waitingDS` flag. -/
structure Mono (w w' : World) : Prop where
  now : w'.now = w.now
  paused : w'.env.paused = w.env.paused
  events : w.env.events.Sublist w'.env.events
  flags : ∀ y, (w'.dev y).waitingDS = true → (w.dev y).waitingDS = true

theorem Mono.refl (w : World) : Mono w w :=
  ⟨rfl, rfl, List.Sublist.refl _, fun _ h => h⟩

theorem Mono.trans {w w' w'' : World} (h : Mono w w') (h' : Mono w' w'') : Mono w w'' :=
  ⟨h'.now.trans h.now, h'.paused.trans h.paused, h.events.trans h'.events,
    fun y hy => h.flags y (h'.flags y hy)⟩

theorem Mono.mem {w w' : World} (h : Mono w w') {e : Event} (he : e ∈ w.env.events) :
    e ∈ w'.env.events := h.events.subset he

theorem Mono.foldl {α} (g : World → α → World) (hg : ∀ w a, Mono w (g w a)) (l : List α)
    (w : World) : Mono w (l.foldl g w) := by
  induction l generalizing w with
  | nil => exact Mono.refl w
  | cons a l ih => exact (hg w a).trans (ih (g w a))

theorem mono_of_env_dev {w w' : World} (he : w'.env = w.env) (hd : ∀ y, w'.dev y = w.dev y) :
    Mono w w' :=
  ⟨by unfold World.now; rw [he], by rw [he], by rw [he]; exact List.Sublist.refl _,
    fun y h => by rw [← hd y]; exact h⟩

theorem mono_setErr (w : World) (m : String) : Mono w (w.setErr m) :=
  mono_of_env_dev (setErr_env w m) (dev_setErr w m)

theorem mono_addRes (w : World) (r : Res) : Mono w (w.addRes r) :=
  mono_of_env_dev rfl (fun _ => rfl)

theorem mono_addRec (w : World) (r : Rec) : Mono w (w.addRec r) :=
  mono_of_env_dev rfl (fun _ => rfl)

theorem mono_schedLib (w : World) (t asset : Int) (a : Action) (prio : Int) :
    Mono w (w.schedLib t asset a prio) := by
  obtain ⟨h1, h2, h3⟩ := schedLib_env w t asset a prio
  exact ⟨h1, h2, h3, fun y h => by rw [← dev_schedLib w t asset a prio y]; exact h⟩

/-- Overwriting a device without setting its flag. -/
theorem mono_setDev (w : World) (x : Nat) (d : Dev)
    (h : d.waitingDS = true → (w.dev x).waitingDS = true) : Mono w (w.setDev x d) := by
  refine ⟨rfl, rfl, List.Sublist.refl _, ?_⟩
  intro y hy
  rw [dev_setDev] at hy
  split at hy
  · next hc => rw [← hc.1]; exact h hy
  · exact hy

theorem mono_modDev (w : World) (x : Nat) (f : Dev → Dev)
    (h : (f (w.dev x)).waitingDS = true → (w.dev x).waitingDS = true) : Mono w (w.modDev x f) :=
  mono_setDev w x _ h

theorem mono_setWaiting (w : World) (x : Nat) (a b : Bool) : Mono w (w.setWaiting x a b) := by
  unfold setWaiting
  dsimp only
  repeat' split
  all_goals first | exact Mono.refl _ | exact mono_setDev _ _ _ (fun h => h)

theorem mono_schedulePass (w : World) (x : Nat) (o : Int) : Mono w (w.schedulePass x o) := by
  unfold schedulePass
  dsimp only
  split
  · exact Mono.refl _
  · exact (mono_setDev w x _ (fun h => by simp at h)).trans (mono_schedLib _ _ _ _ _)

/-! ### attempts -/

/-- `e` is a live PASS_PART event of device `u` at time `t` on behalf of asset `a`. -/
def IsAttempt (u : Nat) (t a : Int) (e : Event) : Prop :=
  e.act = (Action.passPart u).toNat ∧ e.time = t ∧ e.prio = pPassPart ∧ e.asset = a ∧
    e.cancelled = false

/-- The time `schedulePass · 0` asks for: `max 0 now` (`= now` in every reachable state). -/
def passTime (w : World) : Int := if w.now < 0 then 0 else w.now

theorem passTime_of_nonneg {w : World} (h : 0 ≤ w.now) : passTime w = w.now := by
  unfold passTime; split <;> omega

theorem now_le_passTime (w : World) : w.now ≤ passTime w := by
  unfold passTime; split <;> omega

/-- A live PASS_PART event for `u` at the present instant is in the queue. -/
def Attempt (w : World) (u : Nat) : Prop :=
  ∃ e ∈ w.env.events, IsAttempt u (passTime w) (w.dev u).aid e

/-- `u` is flagged as waiting for space downstream, or a hand-over attempt is already queued. -/
def Pending (w : World) (u : Nat) : Prop := (w.dev u).waitingDS = true ∨ Attempt w u

/-- `u` has been woken: the flag is cleared and the hand-over attempt is queued. -/
def Woken (w : World) (u : Nat) : Prop := (w.dev u).waitingDS = false ∧ Attempt w u

theorem passTime_congr {w w' : World} (h : w'.now = w.now) : passTime w' = passTime w := by
  unfold passTime; rw [h]

theorem Attempt.mono {w w' : World} {u : Nat} (h : Attempt w u) (hm : Mono w w')
    (ha : (w'.dev u).aid = (w.dev u).aid) : Attempt w' u := by
  obtain ⟨e, he, hat⟩ := h
  refine ⟨e, hm.mem he, ?_⟩
  rw [passTime_congr hm.now, ha]; exact hat

/-- One (compound) notification step: the flow-free core is unchanged, nothing is removed from the
queue, no flag is set, and a pending device stays pending. -/
structure Step (w w' : World) : Prop where
  core : w'.core = w.core
  mono : Mono w w'
  pend : ∀ u, Pending w u → Pending w' u

theorem Step.refl (w : World) : Step w w := ⟨rfl, Mono.refl w, fun _ h => h⟩

theorem Step.trans {w w' w'' : World} (h : Step w w') (h' : Step w' w'') : Step w w'' :=
  ⟨h'.core.trans h.core, h.mono.trans h'.mono, fun u hu => h'.pend u (h.pend u hu)⟩

theorem Step.foldl {α} (g : World → α → World) (hg : ∀ w a, Step w (g w a)) (l : List α)
    (w : World) : Step w (l.foldl g w) := by
  induction l generalizing w with
  | nil => exact Step.refl w
  | cons a l ih => exact (hg w a).trans (ih (g w a))

/-- If the flags are not touched at all, pending devices stay pending. -/
theorem step_of_flags_eq {w w' : World} (hc : w'.core = w.core) (hm : Mono w w')
    (hf : ∀ y, (w'.dev y).waitingDS = (w.dev y).waitingDS) : Step w w' := by
  refine ⟨hc, hm, ?_⟩
  intro u hu
  rcases hu with hu | hu
  · exact Or.inl (by rw [hf]; exact hu)
  · exact Or.inr (hu.mono hm (core_eq_dev_aid hc u))

theorem step_setErr (w : World) (m : String) : Step w (w.setErr m) :=
  step_of_flags_eq (setErr_core w m) (mono_setErr w m) (fun y => by rw [dev_setErr])

theorem step_setWaiting (w : World) (x : Nat) (a b : Bool) : Step w (w.setWaiting x a b) := by
  refine step_of_flags_eq (setWaiting_core w x a b) (mono_setWaiting w x a b) ?_
  intro y
  unfold setWaiting
  dsimp only
  repeat' split
  all_goals first
    | rfl
    | (rw [dev_setDev]; split
       · next hc => rw [← hc.1]
       · rfl)

theorem Woken.step {w w' : World} {u : Nat} (h : Woken w u) (hs : Step w w') : Woken w' u := by
  have hf : (w'.dev u).waitingDS = false := by
    cases hfl : (w'.dev u).waitingDS with
    | false => rfl
    | true => have := hs.mono.flags u hfl; rw [h.1] at this; cases this
  exact ⟨hf, h.2.mono hs.mono (core_eq_dev_aid hs.core u)⟩

/-! ## Part 3: `schedulePass` -/

/-- `schedulePass x 0` on a non-sink device, written out: the flag is cleared and the PASS_PART
event is inserted (the request is never rejected: `max 0 now ≥ now`). -/
theorem schedulePass_zero_eq (w : World) (x : Nat) (hk : (w.dev x).kind ≠ .sink) :
    w.schedulePass x 0 =
      { w.setDev x { w.dev x with waitingDS := false } with
        env := envWith w (passTime w) (w.dev x).aid (.passPart x) pPassPart } := by
  unfold schedulePass
  dsimp only
  split
  · next h => exact absurd h hk
  · have ht : (if (w.setDev x { w.dev x with waitingDS := false }).now + 0 < 0 then (0 : Int)
        else (w.setDev x { w.dev x with waitingDS := false }).now + 0) = passTime w := by
      unfold passTime
      have : (w.setDev x { w.dev x with waitingDS := false }).now = w.now := rfl
      rw [this]; simp
    rw [ht]
    exact schedLib_of_le (w.setDev x { w.dev x with waitingDS := false }) _ _ _ _
      (now_le_passTime w)

theorem schedulePass_sink (w : World) (x : Nat) (o : Int) (hk : (w.dev x).kind = .sink) :
    w.schedulePass x o = w := by
  unfold schedulePass
  dsimp only
  split
  · rfl
  · next h => exact absurd hk h

/-- The event `schedulePass x 0` creates. -/
def passEvent (w : World) (x : Nat) : Event :=
  w.env.newEvent (passTime w) (w.dev x).aid (Action.passPart x).toNat pPassPart
    (weightOf w.seed w.wmod (passTime w) (w.dev x).aid (Action.passPart x).toNat pPassPart)

theorem passEvent_isAttempt (w : World) (x : Nat) :
    IsAttempt x (passTime w) (w.dev x).aid (passEvent w x) :=
  ⟨rfl, rfl, rfl, rfl, rfl⟩

theorem schedulePass_zero_events (w : World) (x : Nat) (hk : (w.dev x).kind ≠ .sink) :
    (w.schedulePass x 0).env.events = insort (passEvent w x) w.env.events := by
  rw [schedulePass_zero_eq w x hk]; rfl

theorem schedulePass_zero_dev (w : World) (x y : Nat) (hk : (w.dev x).kind ≠ .sink) :
    (w.schedulePass x 0).dev y =
      if x = y ∧ x < w.devs.length then { w.dev x with waitingDS := false } else w.dev y := by
  rw [schedulePass_zero_eq w x hk]
  exact dev_setDev w x y _

theorem schedulePass_zero_error (w : World) (x : Nat) (hk : (w.dev x).kind ≠ .sink) :
    (w.schedulePass x 0).error = w.error := by
  rw [schedulePass_zero_eq w x hk]; rfl

/-- The hand-over attempt: after `schedulePass u 0` on a valid non-sink device, `u` is woken. -/
theorem schedulePass_woken (w : World) (u : Nat) (hu : u < w.devs.length)
    (hk : (w.dev u).kind ≠ .sink) : Woken (w.schedulePass u 0) u := by
  have hd : (w.schedulePass u 0).dev u = { w.dev u with waitingDS := false } := by
    rw [schedulePass_zero_dev w u u hk]; simp [hu]
  refine ⟨by rw [hd], passEvent w u, ?_, ?_⟩
  · rw [schedulePass_zero_events w u hk]; exact mem_insort_self _ _
  · have hn : passTime (w.schedulePass u 0) = passTime w :=
      passTime_congr (mono_schedulePass w u 0).now
    rw [hn, hd]
    exact passEvent_isAttempt w u

theorem step_schedulePass_zero (w : World) (x : Nat) : Step w (w.schedulePass x 0) := by
  refine ⟨schedulePass_core w x 0, mono_schedulePass w x 0, ?_⟩
  intro u hu
  by_cases hk : (w.dev x).kind = .sink
  · rw [schedulePass_sink w x 0 hk]; exact hu
  · rcases hu with hfl | hat
    · by_cases hux : x = u
      · subst hux
        by_cases hlt : x < w.devs.length
        · exact Or.inr (schedulePass_woken w x hlt hk).2
        · rw [dev_of_length_le (Nat.not_lt.mp hlt)] at hfl
          cases hfl
      · refine Or.inl ?_
        rw [schedulePass_zero_dev w x u hk]
        simp [hux, hfl]
    · exact Or.inr (hat.mono (mono_schedulePass w x 0)
        (core_eq_dev_aid (schedulePass_core w x 0) u))

/-! ## Part 4: the notification functions are `Step`s -/

theorem step_notify_aux (n : Nat) :
    ∀ w x, Step w (notifyUp n w x) ∧ Step w (spaceAvail n w x) := by
  induction n with
  | zero =>
    intro w x
    constructor
    · rw [notifyUp]; exact step_setErr _ _
    · rw [spaceAvail]; exact step_setErr _ _
  | succ n ih =>
    intro w x
    have hN : ∀ w x, Step w (notifyUp n w x) := fun w x => (ih w x).1
    have hS : ∀ w x, Step w (spaceAvail n w x) := fun w x => (ih w x).2
    constructor
    · rw [notifyUp]
      repeat' split
      all_goals first
        | exact Step.refl _
        | exact (step_setWaiting _ _ _ _).trans (Step.foldl _ hS _ _)
        | exact Step.foldl _ hS _ _
        | exact Step.foldl _ hN _ _
    · rw [spaceAvail]
      repeat' split
      all_goals first
        | exact Step.refl _
        | exact hN _ _
        | exact hS _ _
        | exact step_schedulePass_zero _ _

theorem step_notifyUp (n : Nat) (w : World) (x : Nat) : Step w (notifyUp n w x) :=
  (step_notify_aux n w x).1

theorem step_spaceAvail (n : Nat) (w : World) (x : Nat) : Step w (spaceAvail n w x) :=
  (step_notify_aux n w x).2

theorem step_notify (w : World) (x : Nat) : Step w (w.notify x) := step_notifyUp _ _ _

theorem step_spaceAvailable (w : World) (x : Nat) : Step w (w.spaceAvailable x) :=
  step_spaceAvail _ _ _

/-! ## Part 5: whom a notification reaches -/

/-- A buffer has room (`level < capacity`). -/
def hasRoom (d : Dev) : Bool :=
  match d.cap with
  | none => true
  | some c => decide (d.level < c)

/-- `notifyUp · w x` hands the notification to the devices of `(w.dev x).up`: every kind except a
full buffer and a group input (which hands it to the paths of its group instead). -/
def forwardsUp (w : World) (x : Nat) : Bool :=
  match (w.dev x).kind with
  | .buffer => hasRoom (w.dev x)
  | .ginput => false
  | _ => true

theorem forwardsUp_congr {w w' : World} (h : w'.core = w.core) (x : Nat) :
    forwardsUp w' x = forwardsUp w x := by
  unfold forwardsUp hasRoom
  rw [core_eq_dev_kind h, core_eq_dev_cap h, core_eq_dev_level h]

/-- `notifyUp` at a forwarding device: a fold of `spaceAvail` over ALL upstream devices, started
in a world that differs from `w` by a `Step` (the device's own `since` stamp). -/
theorem notifyUp_forwards (n : Nat) (w : World) (x : Nat) (h : forwardsUp w x = true) :
    ∃ w1, Step w w1 ∧
      notifyUp (n + 1) w x = (w.dev x).up.foldl (fun w u => spaceAvail n w u) w1 := by
  have hup : ((w.setWaiting x true false).dev x).up = (w.dev x).up :=
    core_eq_dev_up (setWaiting_core w x true false) x
  unfold forwardsUp hasRoom at h
  rw [notifyUp]
  cases hk : (w.dev x).kind <;> simp only [hk] at h ⊢
  case buffer =>
    refine ⟨_, step_setWaiting w x true false, ?_⟩
    rw [hup]
    cases hcap : (w.dev x).cap <;> simp only [hcap] at h ⊢
    · simp
    · rw [if_pos h]
  case ginput => cases h
  all_goals first
    | exact ⟨w, Step.refl w, rfl⟩
    | (by_cases hfree : ((w.dev x).part.isNone && (w.dev x).output.isNone) = true
       · simp only [hfree, if_true]
         rw [hup]; exact ⟨_, step_setWaiting w x true false, rfl⟩
       · simp only [hfree]
         exact ⟨w, Step.refl w, rfl⟩)

theorem notifyUp_ginput (n : Nat) (w : World) (x : Nat) (hk : (w.dev x).kind = .ginput) :
    notifyUp (n + 1) w x =
      (w.groups.getD (w.dev x).group default).paths.foldl (fun w gp => notifyUp n w gp) w := by
  rw [notifyUp]; simp only [hk]

theorem spaceAvail_handlerLike (n : Nat) (w : World) (u : Nat)
    (h : isHandlerLike (w.dev u).kind = true) :
    spaceAvail (n + 1) w u =
      if w.operational u && (w.dev u).waitingDS then w.schedulePass u 0 else w := by
  rw [spaceAvail]
  cases hk : (w.dev u).kind <;> simp only [hk, isHandlerLike] at h ⊢ <;> cases h

theorem spaceAvail_forward (n : Nat) (w : World) (g : Nat)
    (h : (w.dev g).kind = .gate ∨ (w.dev g).kind = .ginput ∨ (w.dev g).kind = .goutput) :
    spaceAvail (n + 1) w g = notifyUp n w g := by
  rw [spaceAvail]
  rcases h with h | h | h <;> simp only [h]

theorem spaceAvail_gpath (n : Nat) (w : World) (p : Nat) (h : (w.dev p).kind = .gpath) :
    spaceAvail (n + 1) w p = spaceAvail n w (w.groups.getD (w.dev p).group default).output := by
  rw [spaceAvail]; simp only [h]

/-- `Reach w true n x u`: the dispatch of `notifyUp n · x` arrives at the handler-like device `u`;
`Reach w false n y u`: the dispatch of `spaceAvail n · y` arrives at `u`.  Only the wiring (the
flow-free core of `w`) is consulted. -/
inductive Reach (w : World) : Bool → Nat → Nat → Nat → Prop
  | self {n u : Nat} : isHandlerLike (w.dev u).kind = true → Reach w false (n + 1) u u
  | fwd {n g u : Nat} :
      ((w.dev g).kind = .gate ∨ (w.dev g).kind = .ginput ∨ (w.dev g).kind = .goutput) →
      Reach w true n g u → Reach w false (n + 1) g u
  | gpath {n p u : Nat} : (w.dev p).kind = .gpath →
      Reach w false n (w.groups.getD (w.dev p).group default).output u →
      Reach w false (n + 1) p u
  | up {n x y u : Nat} : forwardsUp w x = true → y ∈ (w.dev x).up →
      Reach w false n y u → Reach w true (n + 1) x u
  | paths {n x gp u : Nat} : (w.dev x).kind = .ginput →
      gp ∈ (w.groups.getD (w.dev x).group default).paths →
      Reach w true n gp u → Reach w true (n + 1) x u

/-- More fuel never hurts. -/
theorem Reach.succ {w : World} {b : Bool} {n x u : Nat} (h : Reach w b n x u) :
    Reach w b (n + 1) x u := by
  induction h with
  | self h => exact .self h
  | fwd hk _ ih => exact .fwd hk ih
  | gpath hk _ ih => exact .gpath hk ih
  | up hf hy _ ih => exact .up hf hy ih
  | paths hk hg _ ih => exact .paths hk hg ih

theorem Reach.le {w : World} {b : Bool} {n m x u : Nat} (h : Reach w b n x u) (hnm : n ≤ m) :
    Reach w b m x u := by
  induction hnm with
  | refl => exact h
  | step _ ih => exact ih.succ

/-- `notifyUp` (`b = true`) or `spaceAvail` (`b = false`). -/
def run (b : Bool) (n : Nat) (w : World) (x : Nat) : World :=
  bif b then notifyUp n w x else spaceAvail n w x

theorem step_run (b : Bool) (n : Nat) (w : World) (x : Nat) : Step w (run b n w x) := by
  cases b
  · exact step_spaceAvail n w x
  · exact step_notifyUp n w x

/-- A fold of `Step`s wakes `u` if one of its elements does (whatever state it is run in): the
elements before it keep `u` pending, the elements after it keep `u` woken. -/
theorem foldl_wakes {α} (g : World → α → World) (hg : ∀ w a, Step w (g w a)) (w0 : World)
    (u : Nat) (y : α) (hy : ∀ w, w.core = w0.core → Pending w u → Woken (g w y) u) (l : List α)
    (hl : y ∈ l) : ∀ w, w.core = w0.core → Pending w u → Woken (l.foldl g w) u := by
  induction l with
  | nil => cases hl
  | cons a l ih =>
    intro w hc hp
    rw [List.foldl_cons]
    rcases List.mem_cons.mp hl with rfl | hl
    · exact (hy w hc hp).step (Step.foldl g hg l _)
    · exact ih hl (g w a) ((hg w a).core.trans hc) ((hg w a).pend u hp)

/-- **The wake-up theorem.**  If the dispatch reaches `u` (in the wiring of `w0`), then running the
notification in ANY state `w` with that wiring in which `u` (valid index, not a sink, operational)
is pending ends with `u` woken: flag cleared, live PASS_PART event at the present instant queued. -/
theorem reach_wakes {w0 : World} {u : Nat} (hu : u < w0.devs.length)
    (hk : (w0.dev u).kind ≠ .sink) (hop : w0.operational u = true) {b : Bool} {n x : Nat}
    (h : Reach w0 b n x u) :
    ∀ w, w.core = w0.core → Pending w u → Woken (run b n w x) u := by
  induction h with
  | @self n u hhl =>
    intro w hc hp
    show Woken (spaceAvail (n + 1) w u) u
    rw [spaceAvail_handlerLike n w u (by rw [core_eq_dev_kind hc]; exact hhl),
      core_eq_operational hc, hop, Bool.true_and]
    cases hfl : (w.dev u).waitingDS with
    | false =>
      rw [if_neg (by simp)]
      exact ⟨hfl, hp.resolve_left (by simp [hfl])⟩
    | true =>
      rw [if_pos rfl]
      exact schedulePass_woken w u (by rw [core_eq_devs_length hc]; exact hu)
        (by rw [core_eq_dev_kind hc]; exact hk)
  | @fwd n g u hkg _ ih =>
    intro w hc hp
    show Woken (spaceAvail (n + 1) w g) u
    rw [spaceAvail_forward n w g (by rw [core_eq_dev_kind hc]; exact hkg)]
    exact ih hu hk hop w hc hp
  | @gpath n p u hkp _ ih =>
    intro w hc hp
    show Woken (spaceAvail (n + 1) w p) u
    rw [spaceAvail_gpath n w p (by rw [core_eq_dev_kind hc]; exact hkp), core_eq_groups hc,
      core_eq_dev_group hc]
    exact ih hu hk hop w hc hp
  | @up n x y u hf hy _ ih =>
    intro w hc hp
    show Woken (notifyUp (n + 1) w x) u
    obtain ⟨w1, hs, heq⟩ := notifyUp_forwards n w x (by rw [forwardsUp_congr hc]; exact hf)
    rw [heq, core_eq_dev_up hc]
    exact foldl_wakes (fun w u => spaceAvail n w u) (fun w a => step_spaceAvail n w a) w0 u y
      (ih hu hk hop) _ hy w1 (hs.core.trans hc) (hs.pend u hp)
  | @paths n x gp u hkx hg _ ih =>
    intro w hc hp
    show Woken (notifyUp (n + 1) w x) u
    rw [notifyUp_ginput n w x (by rw [core_eq_dev_kind hc]; exact hkx), core_eq_groups hc,
      core_eq_dev_group hc]
    exact foldl_wakes (fun w gp => notifyUp n w gp) (fun w a => step_notifyUp n w a) w0 u gp
      (ih hu hk hop) _ hg w hc hp

/-- `ReachesUp w k x u`: `u` is a handler-like device upstream of `x` behind a chain of exactly `k`
decision gates (`x → g₁ → … → g_k → u` along `up`). -/
inductive ReachesUp (w : World) : Nat → Nat → Nat → Prop
  | direct {x u : Nat} : u ∈ (w.dev x).up → isHandlerLike (w.dev u).kind = true →
      ReachesUp w 0 x u
  | gate {k x g u : Nat} : g ∈ (w.dev x).up → (w.dev g).kind = .gate → ReachesUp w k g u →
      ReachesUp w (k + 1) x u

theorem forwardsUp_gate {w : World} {g : Nat} (h : (w.dev g).kind = .gate) :
    forwardsUp w g = true := by
  unfold forwardsUp; rw [h]

/-- Every gate of the chain costs two units of fuel. -/
theorem ReachesUp.reach {w : World} {k x u : Nat} (h : ReachesUp w k x u)
    (hf : forwardsUp w x = true) : Reach w true (2 * k + 2) x u := by
  induction h with
  | direct hy hhl => exact .up hf hy (.self hhl)
  | @gate k x g u hg hkg _ ih =>
    have h1 : Reach w false (2 * k + 2 + 1) g u := .fwd (Or.inl hkg) (ih (forwardsUp_gate hkg))
    exact .up hf hg h1


/-! ## Part 6: the number of devices never changes on the floor -/

theorem foldl_len {α} (g : World → α → World) (l : List α) (w : World)
    (h : ∀ w a, (g w a).devs.length = w.devs.length) :
    (l.foldl g w).devs.length = w.devs.length :=
  foldl_preserve (fun w => w.devs.length) g l w h

@[simp] theorem senseOutput_len (w : World) (s p : Nat) :
    (w.senseOutput s p).devs.length = w.devs.length := by
  unfold senseOutput
  dsimp only
  split
  · rw [foldl_len]
    intro w c; rfl
  · rfl

@[simp] theorem finishCycleHandler_len (w : World) (x : Nat) :
    (w.finishCycleHandler x).devs.length = w.devs.length := by
  unfold finishCycleHandler
  dsimp only
  repeat' split
  all_goals simp

@[simp] theorem genPart_len (w : World) (x : Nat) :
    (w.genPart x).1.devs.length = w.devs.length := by
  unfold genPart
  dsimp only
  split
  · rfl
  · show (List.foldl _ (w, ([] : List Nat)) _).1.devs.length = _
    exact foldl_preserve (fun (acc : World × List Nat) => acc.1.devs.length) _ _ _
      (fun acc _ => rfl)

@[simp] theorem finishCycle_len (w : World) (x : Nat) :
    (w.finishCycle x).devs.length = w.devs.length := by
  unfold finishCycle
  dsimp only
  split
  · split <;> simp
  · simp
  · split
    all_goals (try split)
    all_goals simp [foldl_len]
  · simp

@[simp] theorem scheduleFinish_len (w : World) (x : Nat) :
    (w.scheduleFinish x).devs.length = w.devs.length := by
  unfold scheduleFinish
  dsimp only
  repeat' split
  all_goals simp

theorem batcherLoop_len (f : Nat) : ∀ (w : World) (x : Nat),
    (batcherLoop f w x).devs.length = w.devs.length := by
  induction f with
  | zero => intro w x; rfl
  | succ f ih =>
    intro w x
    rw [batcherLoop]
    dsimp only
    split
    · rw [ih]
      repeat' split
      all_goals simp
    · rfl

@[simp] theorem tryMove_len (w : World) (x : Nat) :
    (w.tryMove x).devs.length = w.devs.length := by
  unfold tryMove
  dsimp only
  repeat' split
  all_goals simp [batcherLoop_len]

@[simp] theorem onReceived_len (w : World) (x p : Nat) :
    (w.onReceived x p).devs.length = w.devs.length := by
  unfold onReceived
  dsimp only
  repeat' split
  all_goals simp [foldl_len]

@[simp] theorem acceptPart_len (w : World) (x p : Nat) :
    (w.acceptPart x p).devs.length = w.devs.length := by
  unfold acceptPart
  dsimp only
  split <;> simp

theorem len_of_eq {r : World × Bool} {w w' : World} {b : Bool} (heq : r = (w', b))
    (h : r.1.devs.length = w.devs.length) : w'.devs.length = w.devs.length := by
  subst heq; exact h

theorem tryList_len (g : World → Nat → Nat → World × Bool)
    (hg : ∀ w y p, (g w y p).1.devs.length = w.devs.length) (l : List Nat) :
    ∀ (w : World) (p : Nat), (tryList g w l p).1.devs.length = w.devs.length := by
  induction l with
  | nil => intro w p; rfl
  | cons y ys ih =>
    intro w p
    rw [tryList]
    split
    · next w' heq => exact len_of_eq heq (hg w y p)
    · next w' heq => rw [ih]; exact len_of_eq heq (hg w y p)

theorem give_len (f : Nat) : ∀ (w : World) (x p : Nat),
    (give f w x p).1.devs.length = w.devs.length := by
  induction f with
  | zero => intro w x p; simp [give]
  | succ f ih =>
    intro w x p
    have hT := tryList_len (give f) ih
    rw [give]
    dsimp only
    cases hk : (w.dev x).kind <;> simp only []
    case processor =>
      split
      · split
        · next w1 heq =>
          have := len_of_eq heq (procAcquire_devs_length w x)
          simp [this]
        · next w1 heq => exact len_of_eq heq (procAcquire_devs_length w x)
      · rfl
    case gate =>
      split
      · rfl
      · split
        · rfl
        · split
          · next w1 heq => exact (len_of_eq heq (hT _ _ _)).trans (by simp)
          · next w1 heq =>
            have := len_of_eq heq (hT _ _ _)
            simp at this ⊢
            exact this
    case ginput =>
      split
      · rfl
      · exact hT _ _ _
    case gpath =>
      split
      · rfl
      · split
        · next w1 heq => exact (len_of_eq heq (ih _ _ _)).trans (by simp)
        · next w1 heq =>
          have := (len_of_eq heq (ih _ _ _))
          simp at this ⊢
          exact this
    case goutput =>
      split
      · simp
      · split
        · next w1 heq => exact (len_of_eq heq (hT _ _ _)).trans (by simp)
        · next w1 heq =>
          have := (len_of_eq heq (hT _ _ _))
          simp at this ⊢
          exact this
    all_goals (split <;> simp)

@[simp] theorem givePart_len (w : World) (x p : Nat) :
    (w.givePart x p).1.devs.length = w.devs.length := give_len _ w x p

@[simp] theorem tryList_givePart_len (w : World) (l : List Nat) (p : Nat) :
    (tryList givePart w l p).1.devs.length = w.devs.length :=
  tryList_len givePart givePart_len l w p

theorem bufferLoop_len (f : Nat) : ∀ (w : World) (x : Nat),
    (bufferLoop f w x).devs.length = w.devs.length := by
  induction f with
  | zero => intro w x; rfl
  | succ f ih =>
    intro w x
    rw [bufferLoop]
    dsimp only
    split
    · rfl
    · split
      · rfl
      · split
        · next w1 heq =>
          have := len_of_eq heq (tryList_givePart_len _ _ _)
          rw [ih]; simpa using this
        · next w1 heq => exact len_of_eq heq (tryList_givePart_len _ _ _)

@[simp] theorem passHandler_len (w : World) (x : Nat) :
    (w.passHandler x).devs.length = w.devs.length := by
  unfold passHandler
  dsimp only
  split
  · rfl
  · split
    · rfl
    · split
      · next w1 heq =>
        have := len_of_eq heq (tryList_givePart_len _ _ _)
        simpa using this
      · next w1 heq =>
        have := len_of_eq heq (tryList_givePart_len _ _ _)
        simpa using this

/-! ## Part 7: rewiring (`set_upstream` at run time) -/

/-- The fields of a device that neither the flow functions nor a rewiring change. -/
def stat (d : Dev) : Dev := { d with since := none, waitingDS := false, up := [], down := [] }

theorem stat_eq_core (d : Dev) : stat d = { d.core with up := [], down := [] } := rfl

/-- `w'` is reached from `w` by steps that, as far as device `u` is concerned, only touch flow
state and wiring, keep the queue, and keep `u` pending. -/
structure Keeps (u : Nat) (w w' : World) : Prop where
  mono : Mono w w'
  len : w'.devs.length = w.devs.length
  stat : stat (w'.dev u) = stat (w.dev u)
  pend : Pending w u → Pending w' u

theorem Keeps.aid {u : Nat} {w w' : World} (h : Keeps u w w') : (w'.dev u).aid = (w.dev u).aid :=
  by
  have h2 := congrArg Dev.aid h.stat
  exact h2

theorem Keeps.kind {u : Nat} {w w' : World} (h : Keeps u w w') :
    (w'.dev u).kind = (w.dev u).kind := by
  have h2 := congrArg Dev.kind h.stat
  exact h2

theorem Keeps.shutDown {u : Nat} {w w' : World} (h : Keeps u w w') :
    (w'.dev u).shutDown = (w.dev u).shutDown := by
  have h2 := congrArg Dev.shutDown h.stat
  exact h2

theorem Keeps.inited {u : Nat} {w w' : World} (h : Keeps u w w') :
    (w'.dev u).inited = (w.dev u).inited := by
  have h2 := congrArg Dev.inited h.stat
  exact h2

theorem Keeps.refl (u : Nat) (w : World) : Keeps u w w := ⟨Mono.refl w, rfl, rfl, fun h => h⟩

theorem Keeps.trans {u : Nat} {w w' w'' : World} (h : Keeps u w w') (h' : Keeps u w' w'') :
    Keeps u w w'' :=
  ⟨h.mono.trans h'.mono, h'.len.trans h.len, h'.stat.trans h.stat, fun hp => h'.pend (h.pend hp)⟩

theorem Keeps.foldl {α} (u : Nat) (g : World → α → World) (hg : ∀ w a, Keeps u w (g w a))
    (l : List α) (w : World) : Keeps u w (l.foldl g w) := by
  induction l generalizing w with
  | nil => exact Keeps.refl u w
  | cons a l ih => exact (hg w a).trans (ih (g w a))

theorem Step.keeps {w w' : World} (h : Step w w') (u : Nat) : Keeps u w w' :=
  ⟨h.mono, core_eq_devs_length h.core,
    by rw [stat_eq_core, stat_eq_core, core_eq_dev h.core], h.pend u⟩

theorem keeps_modDev (u : Nat) (w : World) (y : Nat) (f : Dev → Dev)
    (hs : stat (f (w.dev y)) = stat (w.dev y))
    (hf : (f (w.dev y)).waitingDS = (w.dev y).waitingDS) : Keeps u w (w.modDev y f) := by
  have hm : Mono w (w.modDev y f) := mono_modDev w y f (by rw [hf]; exact id)
  refine ⟨hm, by simp, modDev_dev_field stat w y f hs u, ?_⟩
  intro hp
  rcases hp with hp | hp
  · exact Or.inl (by rw [modDev_dev_field Dev.waitingDS w y f hf u]; exact hp)
  · exact Or.inr (hp.mono hm (modDev_dev_field Dev.aid w y f (by have h2 := congrArg Dev.aid hs; exact h2) u))

theorem Woken.keeps {u : Nat} {w w' : World} (h : Woken w u) (hk : Keeps u w w') : Woken w' u := by
  have hf : (w'.dev u).waitingDS = false := by
    cases hfl : (w'.dev u).waitingDS with
    | false => rfl
    | true => have := hk.mono.flags u hfl; rw [h.1] at this; cases this
  exact ⟨hf, h.2.mono hk.mono hk.aid⟩

/-- Everything the hand-over attempt needs to know about `u`. -/
structure Ready (u : Nat) (w : World) : Prop where
  lt : u < w.devs.length
  hl : isHandlerLike (w.dev u).kind = true
  ns : (w.dev u).kind ≠ .sink
  op : w.operational u = true
  inited : (w.dev u).inited = true

theorem Keeps.ready {u : Nat} {w w' : World} (h : Keeps u w w') (r : Ready u w) : Ready u w' := by
  refine ⟨by rw [h.len]; exact r.lt, by rw [h.kind]; exact r.hl, by rw [h.kind]; exact r.ns, ?_,
    by rw [h.inited]; exact r.inited⟩
  have := r.op
  unfold operational at this ⊢
  rw [h.kind, h.shutDown]; exact this

/-- One step of the final loop of `rewire x ups`: connect `u → x` unless already connected; a NEW
upstream neighbour that is initialised is told at once that there is space downstream. -/
def rewireStep (x : Nat) (w : World) (u : Nat) : World :=
  if (w.dev u).down.contains x then w
  else
    let w := w.modDev u (fun du => { du with down := du.down ++ [x] })
    if (w.dev u).inited then w.spaceAvailable u else w

/-- The state in which the final loop of `rewire x ups` starts: `x` is disconnected from its old
upstream neighbours and its `up` list is replaced. -/
def rewirePre (w : World) (x : Nat) (ups : List Nat) : World :=
  let d := w.dev x
  let w := if isHandlerLike d.kind && d.since.isSome && d.inited then w.setWaiting x true true else w
  let w := (w.dev x).up.foldl (fun w u => w.modDev u (fun du => { du with down := du.down.erase x })) w
  w.modDev x (fun d => { d with up := ups })

theorem rewire_eq (w : World) (x : Nat) (ups : List Nat) :
    w.rewire x ups = ups.foldl (rewireStep x) (rewirePre w x ups) := rfl

theorem keeps_rewireStep (u x : Nat) (w : World) (y : Nat) : Keeps u w (rewireStep x w y) := by
  unfold rewireStep
  split
  · exact Keeps.refl u w
  · dsimp only
    have h1 : Keeps u w (w.modDev y fun du => { du with down := du.down ++ [x] }) :=
      keeps_modDev u w y _ rfl rfl
    split
    · exact h1.trans ((step_spaceAvailable _ y).keeps u)
    · exact h1

/-- What a step does to the `down` list of a device: nothing, or (for the step's own device)
append `x`. -/
theorem rewireStep_down (x : Nat) (w : World) (y u : Nat) :
    ((rewireStep x w y).dev u).down = (w.dev u).down ∨
      (y = u ∧ ((rewireStep x w y).dev u).down = (w.dev u).down ++ [x]) := by
  unfold rewireStep
  split
  · exact Or.inl rfl
  · dsimp only
    have h1 : ((w.modDev y fun du => { du with down := du.down ++ [x] }).dev u).down =
        (w.dev u).down ∨ (y = u ∧
        ((w.modDev y fun du => { du with down := du.down ++ [x] }).dev u).down =
          (w.dev u).down ++ [x]) := by
      rw [dev_modDev]
      split
      · next h => exact Or.inr ⟨h.1, by rw [h.1]⟩
      · exact Or.inl rfl
    split
    · rw [core_eq_dev_down (spaceAvailable_core _ y) u]; exact h1
    · exact h1

theorem rewireStep_down_mem (x : Nat) (w : World) (y u : Nat) (h : x ∈ (w.dev u).down) :
    x ∈ ((rewireStep x w y).dev u).down := by
  rcases rewireStep_down x w y u with h1 | ⟨_, h1⟩ <;> rw [h1]
  · exact h
  · exact List.mem_append_left _ h

/-- The step at a new, initialised upstream neighbour. -/
theorem rewireStep_new (x : Nat) (w : World) (u : Nat) (hu : u < w.devs.length)
    (hnew : x ∉ (w.dev u).down) (hin : (w.dev u).inited = true) :
    rewireStep x w u =
      (w.modDev u (fun du => { du with down := du.down ++ [x] })).spaceAvailable u := by
  unfold rewireStep
  rw [if_neg (by simpa using hnew)]
  dsimp only
  rw [if_pos (by rw [dev_modDev_same hu]; exact hin)]

/-- … wakes it, and the connection is there. -/
theorem rewireStep_wakes (x : Nat) (w : World) (u : Nat) (r : Ready u w) (hp : Pending w u)
    (hnew : x ∉ (w.dev u).down) :
    Woken (rewireStep x w u) u ∧ x ∈ ((rewireStep x w u).dev u).down := by
  rw [rewireStep_new x w u r.lt hnew r.inited]
  have h1 : Keeps u w (w.modDev u fun du => { du with down := du.down ++ [x] }) :=
    keeps_modDev u w u _ rfl rfl
  have r1 := h1.ready r
  constructor
  · exact reach_wakes r1.lt r1.ns r1.op (Reach.self (n := _ + 2) r1.hl) _ rfl (h1.pend hp)
  · rw [core_eq_dev_down (spaceAvailable_core _ u) u, dev_modDev_same r.lt]
    simp

/-- The final loop of `rewire`: if `u` is in the list, is ready, pending and not yet connected,
then afterwards it is connected and woken. -/
theorem rewire_fold_wakes (x u : Nat) (l : List Nat) (hl : u ∈ l) :
    ∀ w, Ready u w → Pending w u → x ∉ (w.dev u).down →
      Woken (l.foldl (rewireStep x) w) u ∧ x ∈ ((l.foldl (rewireStep x) w).dev u).down := by
  have hdone : ∀ (l : List Nat) (w : World), Woken w u → x ∈ (w.dev u).down →
      Woken (l.foldl (rewireStep x) w) u ∧ x ∈ ((l.foldl (rewireStep x) w).dev u).down := by
    intro l
    induction l with
    | nil => intro w h1 h2; exact ⟨h1, h2⟩
    | cons a l ih =>
      intro w h1 h2
      exact ih _ (h1.keeps (keeps_rewireStep u x w a)) (rewireStep_down_mem x w a u h2)
  induction l with
  | nil => cases hl
  | cons a l ih =>
    intro w r hp hnew
    rw [List.foldl_cons]
    by_cases hau : a = u
    · subst hau
      obtain ⟨h1, h2⟩ := rewireStep_wakes x w a r hp hnew
      exact hdone l _ h1 h2
    · have hl' : u ∈ l := by
        rcases List.mem_cons.mp hl with h | h
        · exact absurd h.symm hau
        · exact h
      have hk := keeps_rewireStep u x w a
      refine ih hl' _ (hk.ready r) (hk.pend hp) ?_
      rcases rewireStep_down x w a u with h1 | ⟨h1, _⟩
      · rw [h1]; exact hnew
      · exact absurd h1 hau

/-- The preparation phase of `rewire` keeps everything about `u` and creates no connection to
`x`. -/
theorem rewirePre_keeps (w : World) (x : Nat) (ups : List Nat) (u : Nat) :
    Keeps u w (rewirePre w x ups) ∧
      (x ∉ (w.dev u).down → x ∉ ((rewirePre w x ups).dev u).down) := by
  unfold rewirePre
  dsimp only
  generalize hwa : (if (isHandlerLike (w.dev x).kind && (w.dev x).since.isSome &&
    (w.dev x).inited) = true then w.setWaiting x true true else w) = wa
  have ka : Keeps u w wa ∧ (wa.dev u).down = (w.dev u).down := by
    rw [← hwa]
    split
    · exact ⟨(step_setWaiting w x true true).keeps u,
        core_eq_dev_down (setWaiting_core w x true true) u⟩
    · exact ⟨Keeps.refl u w, rfl⟩
  have kb : ∀ (l : List Nat) (w : World),
      Keeps u w (l.foldl (fun w u => w.modDev u (fun du => { du with down := du.down.erase x })) w)
      ∧ (x ∉ (w.dev u).down → x ∉ ((l.foldl
        (fun w u => w.modDev u (fun du => { du with down := du.down.erase x })) w).dev u).down) := by
    intro l
    induction l with
    | nil => intro w; exact ⟨Keeps.refl u w, id⟩
    | cons a l ih =>
      intro w
      rw [List.foldl_cons]
      obtain ⟨k2, d2⟩ := ih (w.modDev a fun du => { du with down := du.down.erase x })
      refine ⟨(keeps_modDev u w a _ rfl rfl).trans k2, fun h => d2 ?_⟩
      rw [dev_modDev]
      split
      · next hc => rw [hc.1]; exact fun hm => h (List.mem_of_mem_erase hm)
      · exact h
  obtain ⟨k2, d2⟩ := kb (wa.dev x).up wa
  refine ⟨(ka.1.trans k2).trans (keeps_modDev u _ x _ rfl rfl), fun h => ?_⟩
  rw [modDev_dev_field Dev.down _ x _ rfl u]
  exact d2 (by rw [ka.2]; exact h)

end C03
end SimProc
