/-
C03W with re-wiring — frame lemmas for the projection `swr` (static part of every device WITHOUT
its wiring, which device a maintenance target shuts down, the group table), generated like those of
`Proofs/C03XSwv.lean`: no function of the floor changes it, and `rewire` does not either.
-/
import SimProc.Proofs.C03YTopo
import SimProc.Proofs.C11WStatic

namespace SimProc
namespace C02V
open World C11W

/-- the static part of the devices and of the maintenance targets -/
def swr (w : World) : List Dev × List (Option Nat) × List Group :=
  (w.devs.map C03W.stat0, w.targets.map (·.dev), w.groups)

section prim
variable (w : World)

theorem swr_setErr (m : String) : swr (w.setErr m) = swr w := by
  unfold World.setErr; split <;> rfl
theorem swr_addRec (r : Rec) : swr (w.addRec r) = swr w := rfl
theorem swr_addRes (r : Res) : swr (w.addRes r) = swr w := rfl
theorem swr_sched (t a : Int) (act : Action) (p : Int) : swr (w.sched t a act p).1 = swr w := by
  unfold World.sched; simp only []; split <;> rfl
theorem swr_schedLib (t a : Int) (act : Action) (p : Int) : swr (w.schedLib t a act p) = swr w := by
  have := swr_sched w t a act p
  unfold World.schedLib; split <;> simp_all [swr_setErr]
theorem swr_envOp (op : EnvOp) : swr (w.envOp op) = swr w := rfl
theorem swr_rmEffects (recs : List ResRec) (c : Bool) : swr (w.rmEffects recs c) = swr w := by
  unfold World.rmEffects
  have h : swr (recs.foldl (fun w r => w.addRec (.resUpdate r.res w.now r.inUse r.cap)) w) = swr w :=
    foldl_proj swr _ _ _ (fun _ _ => rfl)
  simp only []; split <;> simp [h, swr_schedLib]
theorem swr_setDev_same (x : Nat) (d : Dev) (h : C03W.stat0 d = C03W.stat0 (w.dev x)) : swr (w.setDev x d) = swr w := by
  simp only [swr, World.setDev]
  rw [map_set_getD_self C03W.stat0 w.devs x default d h]
theorem swr_modDev_same (x : Nat) (f : Dev → Dev) (h : ∀ d, C03W.stat0 (f d) = C03W.stat0 d) :
    swr (w.modDev x f) = swr w := swr_setDev_same w x _ (h _)
theorem swr_modPart (p : Nat) (f : PartRec → PartRec) : swr (w.modPart p f) = swr w := rfl
theorem swr_newPart (r : PartRec) : swr (w.newPart r).1 = swr w := rfl

end prim

macro_rules | `(tactic| fr_step) => `(tactic| first
  | rw [swr_setErr] | rw [swr_addRec] | rw [swr_addRes] | rw [swr_schedLib] | rw [swr_sched]
  | rw [swr_envOp] | rw [swr_rmEffects] | rw [swr_setDev_same] | rw [swr_modDev_same] | rw [swr_modPart]
  | rw [swr_newPart] | rw [foldl_proj swr])

section
variable (w : World)

theorem swr_setWaiting (x : Nat) (a b : Bool) : swr (w.setWaiting x a b) = swr w := by
  unfold World.setWaiting; frame
frame_lemma1 swr_setWaiting
theorem swr_schedulePass (x : Nat) (o : Int) : swr (w.schedulePass x o) = swr w := by
  unfold World.schedulePass; frame
frame_lemma1 swr_schedulePass
theorem swr_notify (x : Nat) : swr (w.notify x) = swr w :=
  (notify_proj _ swr_setWaiting swr_schedulePass swr_setErr _ w x).1
theorem swr_spaceAvailable (x : Nat) : swr (w.spaceAvailable x) = swr w :=
  (notify_proj _ swr_setWaiting swr_schedulePass swr_setErr _ w x).2
frame_lemma1 swr_notify
frame_lemma1 swr_spaceAvailable
theorem swr_releaseReserved (x : Nat) : swr (w.releaseReserved x) = swr w := by
  unfold World.releaseReserved; frame
frame_lemma1 swr_releaseReserved
theorem swr_procAcquire (x : Nat) : swr (w.procAcquire x).1 = swr w := by
  unfold World.procAcquire; frame
frame_lemma1 swr_procAcquire
theorem swr_applyPartCb (x p : Nat) (c : PartCb) : swr (w.applyPartCb x p c) = swr w := by
  unfold World.applyPartCb; frame
frame_lemma1 swr_applyPartCb
theorem swr_senseOutput (s p : Nat) : swr (w.senseOutput s p) = swr w := by
  unfold World.senseOutput; frame
frame_lemma1 swr_senseOutput
theorem swr_addHist (p d : Nat) : swr (w.addHist p d) = swr w := by
  unfold World.addHist; frame
frame_lemma1 swr_addHist
theorem swr_dropHist (p : Nat) : swr (w.dropHist p) = swr w := by
  unfold World.dropHist; frame
frame_lemma1 swr_dropHist
theorem swr_shutdownDev (x : Nat) (f : Bool) (l : Option Nat) : swr (w.shutdownDev x f l) = swr w := by
  unfold World.shutdownDev; frame
frame_lemma1 swr_shutdownDev
theorem swr_restoreDev (x : Nat) : swr (w.restoreDev x) = swr w := by
  unfold World.restoreDev; frame
frame_lemma1 swr_restoreDev
theorem swr_releaseIfIdle (x : Nat) : swr (w.releaseIfIdle x) = swr w := by
  unfold World.releaseIfIdle; frame
frame_lemma1 swr_releaseIfIdle
theorem swr_procResourceCb (x : Nat) : swr (w.procResourceCb x) = swr w := by
  unfold World.procResourceCb; frame
frame_lemma1 swr_procResourceCb
theorem swr_setBlock (x : Nat) (b : Bool) : swr (w.setBlock x b) = swr w := by
  unfold World.setBlock; frame
frame_lemma1 swr_setBlock
theorem swr_adjustParts (x : Nat) (v : Int) : swr (w.adjustParts x v) = swr w := by
  unfold World.adjustParts; frame
frame_lemma1 swr_adjustParts
theorem swr_finishCycleHandler (x : Nat) : swr (w.finishCycleHandler x) = swr w := by
  unfold World.finishCycleHandler; frame
frame_lemma1 swr_finishCycleHandler
theorem swr_genPart (x : Nat) : swr (w.genPart x).1 = swr w := by
  cases h : ((w.dev x).genBatch == 0)
  · rw [genPart_batch w x h]; rfl
  · rw [genPart_leaf w x h]; rfl
frame_lemma1 swr_genPart
theorem swr_finishCycle (x : Nat) : swr (w.finishCycle x) = swr w := by
  unfold World.finishCycle; frame
frame_lemma1 swr_finishCycle
theorem swr_scheduleFinish (x : Nat) : swr (w.scheduleFinish x) = swr w := by
  unfold World.scheduleFinish; frame
frame_lemma1 swr_scheduleFinish
theorem swr_batchGet (x p : Nat) : swr (batchGet w x p).1 = swr w := by
  unfold batchGet; frame
frame_lemma1 swr_batchGet
theorem swr_batchShell (x : Nat) : swr (batchShell w x).1 = swr w := by
  unfold batchShell; frame
frame_lemma1 swr_batchShell
theorem swr_batchAdd (x t : Nat) : swr (batchAdd w x t) = swr w := by
  unfold batchAdd; frame
frame_lemma1 swr_batchAdd

end

theorem swr_batcherLoop (f : Nat) : ∀ (w : World) (x : Nat), swr (batcherLoop f w x) = swr w := by
  induction f with
  | zero => intro w x; rfl
  | succ f ih =>
    intro w x; rw [batcherLoop_succ]
    split
    · rw [ih]; frame
    · rfl
frame_lemma1 swr_batcherLoop

section
variable (w : World)

theorem swr_tryMove (x : Nat) : swr (w.tryMove x) = swr w := by
  unfold World.tryMove; frame
frame_lemma1 swr_tryMove
theorem swr_onReceived (x p : Nat) : swr (w.onReceived x p) = swr w := by
  unfold World.onReceived; frame
frame_lemma1 swr_onReceived
theorem swr_acceptPart (x p : Nat) : swr (w.acceptPart x p) = swr w := by
  unfold World.acceptPart; frame
frame_lemma1 swr_acceptPart

theorem swr_give (f : Nat) (x p : Nat) : swr (give f w x p).1 = swr w :=
  give_proj _ swr_acceptPart swr_procAcquire swr_setErr swr_addHist swr_dropHist (fun _ _ _ => rfl) f w x p
theorem swr_tryGive (l : List Nat) (p : Nat) : swr (tryList givePart w l p).1 = swr w :=
  tryList_proj _ _ (fun w y p => swr_give w _ y p) l w p
theorem swr_passHandler (x : Nat) : swr (w.passHandler x) = swr w :=
  passHandler_proj _ swr_tryGive (fun w x => swr_modDev_same w x _ (fun _ => rfl))
    (fun w x => swr_modDev_same w x _ (fun _ => rfl)) swr_notify w x
theorem swr_bufferLoop (f : Nat) (x : Nat) : swr (bufferLoop f w x) = swr w :=
  bufferLoop_proj _ swr_tryGive (fun w x _ => swr_modDev_same w x _ (fun _ => rfl)) (fun _ _ => rfl) f w x
frame_lemma1 swr_passHandler
frame_lemma1 swr_bufferLoop

theorem swr_passPart (x : Nat) : swr (w.passPart x) = swr w := by
  unfold World.passPart; frame
theorem swr_failDev (x : Nat) : swr (w.failDev x) = swr w := by
  unfold World.failDev; frame
theorem swr_initDev (x : Nat) : swr (w.initDev x) = swr w := by
  unfold World.initDev; frame
frame_lemma1 swr_initDev

theorem swr_startOrders (m : Nat) (l : List Order) : swr (w.startOrders m l) = swr w := by
  unfold World.startOrders; frame
frame_lemma1 swr_startOrders
theorem swr_schedUpdate (s : Nat) (b : Bool) : swr (w.schedUpdate s b) = swr w := by
  unfold World.schedUpdate; frame
frame_lemma1 swr_schedUpdate
theorem swr_periodicSense (s : Nat) : swr (w.periodicSense s) = swr w := by
  unfold World.periodicSense; frame
theorem swr_modMaint (m : Nat) (f : Maint → Maint) : swr (w.modMaint m f) = swr w := rfl
frame_lemma1 swr_modMaint
theorem swr_setVar (h : Nat) (v : Option Nat) : swr (w.setVar h v) = swr w := rfl
frame_lemma1 swr_setVar
theorem swr_initAsset (a : AssetRef) : swr (w.initAsset a) = swr w := by
  unfold World.initAsset; frame

end

theorem swr_rewireStep (x : Nat) (w : World) (u : Nat) : swr (C03.rewireStep x w u) = swr w := by
  unfold C03.rewireStep
  split
  · rfl
  · dsimp only
    split
    · exact (swr_spaceAvailable _ _).trans (swr_modDev_same _ _ _ (fun _ => rfl))
    · exact swr_modDev_same _ _ _ (fun _ => rfl)

theorem swr_downErase (w : World) (u x : Nat) :
    swr (w.modDev u (fun du => { du with down := du.down.erase x })) = swr w :=
  swr_modDev_same _ _ _ (fun _ => rfl)

theorem swr_setUp (w : World) (x : Nat) (ups : List Nat) :
    swr (w.modDev x (fun d => { d with up := ups })) = swr w :=
  swr_modDev_same _ _ _ (fun _ => rfl)

theorem swr_rewirePre (w : World) (x : Nat) (ups : List Nat) : swr (C03.rewirePre w x ups) = swr w := by
  unfold C03.rewirePre
  dsimp only
  rw [swr_setUp, foldl_proj swr _ _ _ (fun w u => swr_downErase w u x)]
  split
  · exact swr_setWaiting w x true true
  · rfl

theorem swr_rewire (w : World) (x : Nat) (ups : List Nat) : swr (w.rewire x ups) = swr w := by
  rw [C03.rewire_eq, foldl_proj swr _ _ _ (fun w u => swr_rewireStep x w u), swr_rewirePre]
frame_lemma1 swr_rewire

/-- Operations other than `create` keep the static data (the wiring aside). -/
theorem swr_applyOp (w : World) (op : Op) (h2 : ∀ s, op ≠ .create s) :
    swr (w.applyOp op).1 = swr w := by
  cases op
  case create s => exact absurd rfl (h2 s)
  case setParams tgt tag dur need cost =>
    unfold World.applyOp
    simp only [swr]
    congr 2
    exact map_set_getD_self (fun t : Target => t.dev) w.targets tgt default _ rfl
  all_goals (unfold World.applyOp; frame')


end C02V
end SimProc

namespace SimProc
namespace C03W
open World C02V

theorem noBatch_of_swr {w w' : World} (h : swr w' = swr w) : NoBatch w' ↔ NoBatch w := by
  have h1 : w'.devs.map stat0 = w.devs.map stat0 := congrArg Prod.fst h
  have key : ∀ v : World, NoBatch v ↔ ∀ d ∈ v.devs.map stat0, d.kind ≠ .batcher ∧ d.genBatch = 0 ∧
      d.kind ≠ .gpath ∧ d.kind ≠ .ginput ∧ d.kind ≠ .goutput := by
    intro v
    unfold NoBatch
    simp only [List.mem_map]
    constructor
    · rintro hv d ⟨d0, hd0, rfl⟩; exact hv d0 hd0
    · intro hv d hd; exact hv (stat0 d) ⟨d, hd, rfl⟩
  rw [key, key, h1]

theorem hasRes_of_swr {w w' : World} (h : swr w' = swr w) : hasRes w' = hasRes w := by
  have h1 : w'.devs.map stat0 = w.devs.map stat0 := congrArg Prod.fst h
  have key : ∀ v : World, hasRes v = (v.devs.map stat0).any (fun d => d.resReq.isSome) := by
    intro v; unfold hasRes; rw [List.any_map]; rfl
  rw [key, key, h1]

end C03W
end SimProc
