/-
C03Z, part 2b: the functions local to one device that is not a batcher unpack and pack nothing
(`TLK`): what the device holds afterwards it held before or has just been generated, the kids of the
existing batches are untouched, no batch under construction appears, and the parts of a newly
generated batch are newly generated parts.  (The analogue of Proofs/C08WTop.lean.)
-/
import SimProc.Proofs.C03ZView

namespace SimProc
namespace C03Z
open World C02V C08L C08W C03W C02V.SVBatchAux

theorem tlk_of_sv {z : Nat} {w w' : World} (h : sv w' = sv w) : TLK z (sv w) (sv w') := by
  rw [h]; exact TLK.refl _ _

theorem tlk_setDev (w : World) (x : Nat) (d' : Dev)
    (h : ∀ q ∈ (sdev d').held, q ∈ (sdev (w.dev x)).held)
    (hp : ∀ b, d'.inprog = some b → (w.dev x).inprog = some b) :
    TLK x (sv w) (sv (w.setDev x d')) := by
  refine ⟨tlv_setDev w x d' h, ?_, ?_⟩
  · by_cases hx : x < w.devs.length
    · rw [sv_setDev]
      have hxg := sv_get w x hx
      have hxl : x < (sv w).devs.length := (List.getElem?_eq_some_iff.1 hxg).1
      intro d0 hd0
      simp only [SV.setDev] at hd0
      rw [List.getElem?_set_self hxl] at hd0
      cases hd0
      exact ⟨_, hxg, hp⟩
    · rw [setDev_of_ge w x d' (Nat.le_of_not_lt hx)]
      exact fun d0 hd0 => ⟨d0, hd0, fun _ hb => hb⟩
  · intro q l k hq hl _
    have hk : (sv (w.setDev x d')).kids = (sv w).kids := by
      by_cases hx : x < w.devs.length
      · rw [sv_setDev]; rfl
      · rw [setDev_of_ge w x d' (Nat.le_of_not_lt hx)]
    rw [hk] at hl
    have := kids_lt hl
    omega

theorem tlk_gen {z : Nat} {a a' : SV} (h : Gen z a a') : TLK z a a' := by
  refine ⟨tlv_gen h, ?_, ?_⟩
  · cases h with
    | leaf d hz hk ho =>
      have hzl : z < a.devs.length := (List.getElem?_eq_some_iff.1 hz).1
      intro d0 hd0
      change (a.devs.set z _)[z]? = some d0 at hd0
      rw [List.getElem?_set_self hzl] at hd0
      cases hd0
      exact ⟨d, hz, fun _ hb => hb⟩
    | batch d n hz hk ho =>
      have hzl : z < a.devs.length := (List.getElem?_eq_some_iff.1 hz).1
      intro d0 hd0
      change (a.devs.set z _)[z]? = some d0 at hd0
      rw [List.getElem?_set_self hzl] at hd0
      cases hd0
      exact ⟨d, hz, fun _ hb => hb⟩
  · cases h with
    | leaf d hz hk ho =>
      intro q l k hq hl _
      exfalso
      change (a.kids ++ [none])[q]? = some (some l) at hl
      rw [List.getElem?_append_right hq] at hl
      rcases Nat.eq_zero_or_pos (q - a.kids.length) with h3 | h3
      · simp [h3] at hl
      · have : ([none] : List (Option (List Nat)))[q - a.kids.length]? = none := by
          rw [List.getElem?_eq_none_iff]; simp; omega
        rw [this] at hl; simp at hl
    | batch d n hz hk ho =>
      intro q l k hq hl hk'
      change (a.kids ++ List.replicate n none ++ [some (List.range' a.kids.length n)])[q]? =
        some (some l) at hl
      rw [List.append_assoc] at hl
      have := getElem?_batch_some _ _ _ _ _ hq hl
      subst this
      rw [List.mem_range'_1] at hk'
      exact hk'.1

theorem tlk_genS {z : Nat} {a a' : SV} (h : GenS z a a') : TLK z a a' := by
  cases h with
  | refl => exact TLK.refl _ _
  | gen _ h => exact tlk_gen h

theorem tlk_finishCycleHandler (w : World) (x : Nat) :
    TLK x (sv w) (sv (w.finishCycleHandler x)) := by
  unfold World.finishCycleHandler
  simp only []
  split
  · exact tlk_of_sv (sv_setErr ..)
  · split
    · exact tlk_of_sv (sv_setErr ..)
    · rename_i p hp
      split
      · exact tlk_of_sv (sv_setErr ..)
      · rw [sv_schedulePass]
        refine tlk_setDev w x _ ?_ (fun _ hb => hb)
        intro q hq
        simp only [SDev.held, sdev, hp, Option.toList_some, Option.toList_none, List.nil_append,
          List.mem_append, List.mem_singleton, List.mem_map] at hq ⊢
        rcases hq with (hq | hq) | hq
        · exact Or.inl (Or.inl (Or.inl hq))
        · exact Or.inl (Or.inr hq)
        · exact Or.inr hq

theorem tlk_clearOutput (w : World) (x : Nat) :
    TLK x (sv w) (sv (w.modDev x (fun d => { d with output := none }))) := by
  refine tlk_setDev w x _ ?_ (fun _ hb => hb)
  intro q hq
  simp only [SDev.held, sdev, Option.toList_none, List.append_nil, List.mem_append, List.mem_map] at hq ⊢
  rcases hq with (hq | hq) | hq
  · exact Or.inl (Or.inl (Or.inl hq))
  · exact Or.inl (Or.inr hq)
  · exact Or.inr hq

theorem tlk_finishCycle (w : World) (x : Nat) : TLK x (sv w) (sv (w.finishCycle x)) := by
  by_cases hsrc : (w.dev x).kind = .source
  · exact tlk_genS (genS_finishCycle_source w x hsrc)
  unfold World.finishCycle
  simp only []
  split
  · rename_i h; exact absurd h hsrc
  · rw [sv_notify]
    exact (tlk_finishCycleHandler w x).trans (tlk_clearOutput _ x)
  · refine (tlk_finishCycleHandler w x).trans (tlk_of_sv ?_)
    frame'
  · exact tlk_finishCycleHandler w x

theorem tlk_scheduleFinish (w : World) (x : Nat) : TLK x (sv w) (sv (w.scheduleFinish x)) := by
  rcases scheduleFinish_cases w x with h | h
  · rw [h]
    have := tlk_finishCycle (w.setDev x { w.dev x with offset := 0 }) x
    rw [sv_setOffset] at this; exact this
  · exact tlk_of_sv h

theorem tlk_tryMove (w : World) (x : Nat) (hk : (w.dev x).kind ≠ .batcher) :
    TLK x (sv w) (sv (w.tryMove x)) := by
  by_cases h1 : (w.dev x).kind = .buffer
  · cases hp : (w.dev x).part with
    | none =>
      have : w.tryMove x = w := by simp only [World.tryMove, h1, hp]
      rw [this]; exact TLK.refl _ _
    | some p =>
      rw [sv_tryMove_buffer w x p h1 hp]
      refine tlk_setDev w x _ ?_ (fun _ hb => hb)
      intro q hq
      simp only [SDev.held, sdev, hp, Option.toList_some, Option.toList_none, List.nil_append,
        List.mem_append, List.mem_singleton, List.mem_map, List.map_append, List.map_cons,
        List.map_nil] at hq ⊢
      rcases hq with (hq | (hq | hq)) | hq
      · exact Or.inl (Or.inl (Or.inr hq))
      · exact Or.inl (Or.inr hq)
      · exact Or.inl (Or.inl (Or.inl hq))
      · exact Or.inr hq
  · by_cases hc : (w.operational x && (w.dev x).part.isSome && (w.dev x).output.isNone) = true
    · by_cases hp : (w.dev x).kind = .processor
      · have e : w.tryMove x = (w.setDev x { w.dev x with lastUseStart := some w.now }).scheduleFinish x := by
          simp only [World.tryMove, hp, hc, if_true]
        rw [e]
        have := tlk_scheduleFinish (w.setDev x { w.dev x with lastUseStart := some w.now }) x
        rw [sv_setDev_same _ _ _ (by rfl)] at this
        exact this
      · have e : w.tryMove x = w.scheduleFinish x := by
          unfold World.tryMove
          simp only []
          split <;> simp_all
        rw [e]; exact tlk_scheduleFinish w x
    · have e : w.tryMove x = w := by
        unfold World.tryMove
        simp only []
        split <;> simp_all
      rw [e]; exact TLK.refl _ _

theorem tlk_onReceived (w : World) (x p : Nat) (hk : (w.dev x).kind ≠ .batcher) :
    TLK x (sv w) (sv (w.onReceived x p)) := by
  rw [C02V.onReceived_eq]
  have hs := sv_recvBook w x p
  have hk' : ((recvBook w x p).dev x).kind ≠ .batcher := by
    have : st (recvBook w x p) = st w := by unfold recvBook; frame
    rw [kind_of_st this]; exact hk
  split
  · have := tlk_tryMove (recvBook w x p) x hk'
    rw [hs] at this; exact this
  · exact tlk_of_sv hs

theorem tlk_acceptPart (w : World) (x p : Nat) (hk : (w.dev x).kind ≠ .batcher) :
    TLK x (accept (sv w) x p (sdev (w.dev x))) (sv (w.acceptPart x p)) := by
  rw [C02V.acceptPart_eq, ← sv_acceptPre]
  apply tlk_onReceived
  have : st (C02V.acceptPre w x p) = st w := by unfold C02V.acceptPre; frame
  rw [kind_of_st this]; exact hk

end C03Z
end SimProc
