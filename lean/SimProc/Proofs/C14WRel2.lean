/-
C14W — two more relations between event queues that the library operations preserve:
* `WtRel` — the same events up to their tie-break weights (hence up to the order of ties);
* `Renum ρ` — the queue of `y` is the queue of `x` with every uid `u` replaced by `ρ u`.
-/
import SimProc.Proofs.C14WRel

namespace SimProc
namespace C14W
open World C01W Split

/-! ### the same events up to weights -/

/-- An event without its tie-break weight. -/
def nw (e : Event) : Event := { e with weight := 0 }

/-- Same clock, flag and uid counter; the same pending and paused events up to their weights and
up to the order in which they are stored. -/
def WtRel (x y : Env) : Prop :=
  x.now = y.now ∧ x.terminated = y.terminated ∧ x.nextUid = y.nextUid ∧
    (x.events.map nw).Perm (y.events.map nw) ∧ (x.paused.map nw).Perm (y.paused.map nw)

theorem map_nw_filter (q : Event → Bool) (hq : ∀ e, q (nw e) = q e) (l : List Event) :
    (l.filter q).map nw = (l.map nw).filter q := by
  induction l with
  | nil => rfl
  | cons e es ih => by_cases h1 : q e = true <;> simp_all

theorem nw_cancelIf (a : Int) (e : Event) : nw (e.cancelIf a) = (nw e).cancelIf a := by
  unfold Event.cancelIf
  by_cases h : (e.asset == a) = true
  · simp only [h, if_true]; show _ = if ((nw e).asset == a) = true then _ else _
    simp only [show (nw e).asset = e.asset from rfl, h, if_true]; rfl
  · simp only [h]; show _ = if ((nw e).asset == a) = true then _ else _
    simp only [show (nw e).asset = e.asset from rfl, h]; rfl

theorem nw_sh (ar : Arith) (now : Int) (e : Event) : nw (sh ar now e) = sh ar now (nw e) := rfl

theorem wtRel_sched {x y : Env} (h : WtRel x y) (τ a : Int) (act : Nat) (p : Int) (wt1 wt2 : Nat) :
    WtRel (x.apply Arith.exact (.sched τ a act p wt1)).1
      (y.apply Arith.exact (.sched τ a act p wt2)).1 := by
  obtain ⟨hn, ht, hu, he, hp⟩ := h
  by_cases hlt : τ < x.now
  · have hlt' : τ < y.now := hn ▸ hlt
    simp only [Env.apply, Env.schedule, hlt, hlt', if_true]; exact ⟨hn, ht, hu, he, hp⟩
  · have hlt' : ¬ τ < y.now := hn ▸ hlt
    simp only [Env.apply, Env.schedule, hlt, hlt', if_false]
    refine ⟨hn, ht, by show x.nextUid + 1 = y.nextUid + 1; rw [hu], ?_, hp⟩
    show ((insort _ x.events).map nw).Perm ((insort _ y.events).map nw)
    refine ((insort_perm _ _).map nw).trans (List.Perm.trans ?_ ((insort_perm _ _).map nw).symm)
    simp only [List.map_cons]
    have : nw (x.newEvent τ a act p wt1) = nw (y.newEvent τ a act p wt2) := by
      simp only [nw, Env.newEvent, hu]
    rw [this]
    exact he.cons _

theorem wtRel_pause {x y : Env} (h : WtRel x y) (a : Int) : WtRel (x.pause a) (y.pause a) := by
  obtain ⟨hn, ht, hu, he, hp⟩ := h
  refine ⟨hn, ht, hu, ?_, ?_⟩
  · show ((x.events.filter _).map nw).Perm ((y.events.filter _).map nw)
    rw [map_nw_filter _ (fun e => rfl), map_nw_filter _ (fun e => rfl)]
    exact he.filter _
  · show ((x.paused ++ _).map nw).Perm ((y.paused ++ _).map nw)
    rw [List.map_append, List.map_append]
    refine hp.append ?_
    have : ∀ (now : Int) (l : List Event),
        ((l.filter fun e => e.asset == a).map fun e => { e with pausedAt := some now }).map nw =
        ((l.map nw).filter fun e => e.asset == a).map fun e => { e with pausedAt := some now } := by
      intro now l
      rw [← map_nw_filter _ (fun e => rfl), List.map_map, List.map_map]
      rfl
    rw [this, this, hn]
    exact (he.filter _).map _

theorem wtRel_unpause {x y : Env} (h : WtRel x y) (a : Int) :
    WtRel (x.unpause Arith.exact a) (y.unpause Arith.exact a) := by
  obtain ⟨hn, ht, hu, he, hp⟩ := h
  refine ⟨hn, ht, hu, ?_, ?_⟩
  · show ((List.foldl _ x.events _).map nw).Perm ((List.foldl _ y.events _).map nw)
    have key : ∀ (now : Int) (pf ev : List Event),
        ((pf.foldl (fun q e => insort (sh Arith.exact now e) q) ev).map nw).Perm
          (((pf.map nw).map (sh Arith.exact now)) ++ ev.map nw) := by
      intro now pf ev
      rw [foldl_insort_map]
      refine ((insortAll_perm _ _).map nw).trans ?_
      rw [List.map_append, List.map_map, List.map_map]
      exact List.Perm.of_eq (by congr 1)
    have h1 := key x.now (x.paused.filter fun e => e.asset == a) x.events
    have h2 := key y.now (y.paused.filter fun e => e.asset == a) y.events
    simp only [sh] at h1 h2
    refine h1.trans (List.Perm.trans ?_ h2.symm)
    rw [map_nw_filter _ (fun e => rfl), map_nw_filter _ (fun e => rfl), hn]
    exact ((hp.filter _).map _).append he
  · show ((x.paused.filter _).map nw).Perm ((y.paused.filter _).map nw)
    rw [map_nw_filter _ (fun e => rfl), map_nw_filter _ (fun e => rfl)]
    exact hp.filter _

theorem wtRel_cancel {x y : Env} (h : WtRel x y) (a : Int) : WtRel (x.cancel a) (y.cancel a) := by
  obtain ⟨hn, ht, hu, he, hp⟩ := h
  have : ∀ l : List Event, (l.map (Event.cancelIf a)).map nw = (l.map nw).map (Event.cancelIf a) := by
    intro l; simp [List.map_map, Function.comp_def, nw_cancelIf]
  refine ⟨hn, ht, hu, ?_, ?_⟩
  · show ((x.events.map _).map nw).Perm ((y.events.map _).map nw)
    rw [this, this]; exact he.map _
  · show ((x.paused.map _).map nw).Perm ((y.paused.map _).map nw)
    rw [this, this]; exact hp.map _

/-- `WtRel` is preserved by every queue operation, whatever the two weight keys are. -/
theorem cong_wtRel (s1 m1 s2 m2 : Nat) : Cong WtRel s1 m1 s2 m2 where
  sched := fun τ a act p h _ _ => wtRel_sched h τ a act p _ _
  pause := fun a h _ => wtRel_pause h a
  unpause := fun a h _ => wtRel_unpause h a
  cancel := fun a h _ => wtRel_cancel h a

theorem lt_of_before {a b : Event}
    (h : a.time < b.time ∨ (a.time = b.time ∧ b.prio < a.prio)) : a.lt b = true := by
  grind [Event.lt]

/-- **The head of the queue does not depend on the weights when it is alone in its
(time, priority) class.** -/
theorem wt_head {x y : Env} (h : WtRel x y) (hiy : SortedEv y.events) {e : Event}
    {es : List Event} (hev : x.events = e :: es)
    (hu : ∀ e' ∈ es, e.time < e'.time ∨ (e.time = e'.time ∧ e'.prio < e.prio)) :
    ∃ e2 es2, y.events = e2 :: es2 ∧ nw e2 = nw e ∧ (es.map nw).Perm (es2.map nw) := by
  obtain ⟨_, _, _, he, _⟩ := h
  rw [hev] at he
  simp only [List.map_cons] at he
  have hmem : nw e ∈ y.events.map nw := he.mem_iff.mp (by simp)
  obtain ⟨e2', he2', hnw2'⟩ := List.mem_map.mp hmem
  cases hyev : y.events with
  | nil => rw [hyev] at he2'; cases he2'
  | cons h2 es2 =>
    rw [hyev] at he he2' hiy
    simp only [List.map_cons] at he
    have hh2 : nw h2 ∈ nw e :: es.map nw := he.mem_iff.mpr (by simp)
    have hhead : nw h2 = nw e := by
      rcases List.mem_cons.mp hh2 with h | h
      · exact h
      · exfalso
        obtain ⟨h1, hh1, hnw1⟩ := List.mem_map.mp h
        have hb := hu h1 hh1
        have t1 : h1.time = h2.time := by have := congrArg Event.time hnw1; exact this
        have p1 : h1.prio = h2.prio := by have := congrArg Event.prio hnw1; exact this
        have t2 : e2'.time = e.time := by have := congrArg Event.time hnw2'; exact this
        have p2 : e2'.prio = e.prio := by have := congrArg Event.prio hnw2'; exact this
        have hlt : e2'.lt h2 = true := lt_of_before (by rw [t2, p2, ← t1, ← p1]; exact hb)
        rcases List.mem_cons.mp he2' with rfl | hin
        · rw [Event.lt_irrefl] at hlt; cases hlt
        · rw [hiy.head_min e2' hin] at hlt; cases hlt
    refine ⟨h2, es2, rfl, hhead, ?_⟩
    rw [hhead] at he
    exact he.cons_inv

/-! ### renumbering uids -/

/-- Replace the uid `u` of an event by `ρ u`. -/
def reuid (ρ : Nat → Nat) (e : Event) : Event := { e with uid := ρ e.uid }

/-- The queue of `y` is the queue of `x` renumbered by `ρ`; on fresh uids `ρ` is the translation
that maps the uid counter of `x` to that of `y`. -/
def Renum (ρ : Nat → Nat) (x y : Env) : Prop :=
  x.now = y.now ∧ x.terminated = y.terminated ∧ y.events = x.events.map (reuid ρ) ∧
    y.paused = x.paused.map (reuid ρ) ∧ ∀ k, ρ (x.nextUid + k) = y.nextUid + k

theorem reuid_lt (ρ : Nat → Nat) (a b : Event) : (reuid ρ a).lt (reuid ρ b) = a.lt b :=
  Event.lt_congr ⟨rfl, rfl, rfl, rfl⟩ ⟨rfl, rfl, rfl, rfl⟩

theorem insort_map_reuid (ρ : Nat → Nat) (x : Event) (l : List Event) :
    (insort x l).map (reuid ρ) = insort (reuid ρ x) (l.map (reuid ρ)) := by
  induction l with
  | nil => rfl
  | cons e es ih =>
    simp only [insort, List.map_cons, reuid_lt]
    split
    · rfl
    · simp [ih]

theorem map_reuid_filter (ρ : Nat → Nat) (q : Event → Bool) (hq : ∀ e, q (reuid ρ e) = q e)
    (l : List Event) : (l.filter q).map (reuid ρ) = (l.map (reuid ρ)).filter q := by
  induction l with
  | nil => rfl
  | cons e es ih => by_cases h1 : q e = true <;> simp_all

theorem reuid_cancelIf (ρ : Nat → Nat) (a : Int) (e : Event) :
    reuid ρ (e.cancelIf a) = (reuid ρ e).cancelIf a := by
  unfold Event.cancelIf
  by_cases h : (e.asset == a) = true
  · simp only [h, if_true]; show _ = if ((reuid ρ e).asset == a) = true then _ else _
    simp only [show (reuid ρ e).asset = e.asset from rfl, h, if_true]; rfl
  · simp only [h]; show _ = if ((reuid ρ e).asset == a) = true then _ else _
    simp only [show (reuid ρ e).asset = e.asset from rfl, h]; rfl

theorem map_reuid_foldl_insort (ρ : Nat → Nat) (ar : Arith) (now : Int) (px qx : List Event) :
    (px.foldl (fun q e => insort (sh ar now e) q) qx).map (reuid ρ) =
      (px.map (reuid ρ)).foldl (fun q e => insort (sh ar now e) q) (qx.map (reuid ρ)) := by
  induction px generalizing qx with
  | nil => rfl
  | cons e es ih =>
    simp only [List.foldl_cons, List.map_cons]
    rw [ih, insort_map_reuid]
    rfl

theorem renum_sched {ρ : Nat → Nat} {x y : Env} (h : Renum ρ x y) (τ a : Int) (act : Nat) (p : Int)
    (wt : Nat) : Renum ρ (x.apply Arith.exact (.sched τ a act p wt)).1
      (y.apply Arith.exact (.sched τ a act p wt)).1 := by
  obtain ⟨hn, ht, he, hp, hk⟩ := h
  by_cases hlt : τ < x.now
  · have hlt' : τ < y.now := hn ▸ hlt
    simp only [Env.apply, Env.schedule, hlt, hlt', if_true]; exact ⟨hn, ht, he, hp, hk⟩
  · have hlt' : ¬ τ < y.now := hn ▸ hlt
    simp only [Env.apply, Env.schedule, hlt, hlt', if_false]
    refine ⟨hn, ht, ?_, hp, ?_⟩
    · show insort _ y.events = (insort _ x.events).map (reuid ρ)
      rw [insort_map_reuid, he]
      congr 1
      have := hk 0
      simp only [Nat.add_zero] at this
      simp only [reuid, Env.newEvent, this]
    · intro k
      show ρ (x.nextUid + 1 + k) = y.nextUid + 1 + k
      have := hk (1 + k)
      rw [show x.nextUid + 1 + k = x.nextUid + (1 + k) by omega, this]
      omega

theorem renum_pause {ρ : Nat → Nat} {x y : Env} (h : Renum ρ x y) (a : Int) :
    Renum ρ (x.pause a) (y.pause a) := by
  obtain ⟨hn, ht, he, hp, hk⟩ := h
  refine ⟨hn, ht, ?_, ?_, hk⟩
  · show y.events.filter _ = (x.events.filter _).map (reuid ρ)
    rw [map_reuid_filter ρ _ (fun e => rfl), he]
  · show y.paused ++ _ = (x.paused ++ _).map (reuid ρ)
    rw [List.map_append, hp, he, hn]
    congr 1
    rw [← map_reuid_filter ρ _ (fun e => rfl), List.map_map, List.map_map]
    rfl

theorem renum_unpause {ρ : Nat → Nat} {x y : Env} (h : Renum ρ x y) (a : Int) :
    Renum ρ (x.unpause Arith.exact a) (y.unpause Arith.exact a) := by
  obtain ⟨hn, ht, he, hp, hk⟩ := h
  refine ⟨hn, ht, ?_, ?_, hk⟩
  · show List.foldl _ y.events _ = (List.foldl _ x.events _).map (reuid ρ)
    have := map_reuid_foldl_insort ρ Arith.exact x.now (x.paused.filter fun e => e.asset == a) x.events
    simp only [sh] at this
    rw [this, map_reuid_filter ρ _ (fun e => rfl), he, hp, hn]
  · show y.paused.filter _ = (x.paused.filter _).map (reuid ρ)
    rw [map_reuid_filter ρ _ (fun e => rfl), hp]

theorem renum_cancel {ρ : Nat → Nat} {x y : Env} (h : Renum ρ x y) (a : Int) :
    Renum ρ (x.cancel a) (y.cancel a) := by
  obtain ⟨hn, ht, he, hp, hk⟩ := h
  have : ∀ l : List Event,
      (l.map (reuid ρ)).map (Event.cancelIf a) = (l.map (Event.cancelIf a)).map (reuid ρ) := by
    intro l; simp [List.map_map, Function.comp_def, reuid_cancelIf]
  refine ⟨hn, ht, ?_, ?_, hk⟩
  · show y.events.map _ = (x.events.map _).map (reuid ρ)
    rw [he, this]
  · show y.paused.map _ = (x.paused.map _).map (reuid ρ)
    rw [hp, this]

theorem cong_renum (ρ : Nat → Nat) (s m : Nat) : Cong (Renum ρ) s m s m where
  sched := fun τ a act p h _ _ => renum_sched h τ a act p _
  pause := fun a h _ => renum_pause h a
  unpause := fun a h _ => renum_unpause h a
  cancel := fun a h _ => renum_cancel h a

end C14W
end SimProc
