/-
C03W with re-wiring — the simp set `c03es` (pushing the scripts-replacing constructor `es` outwards).
-/
import Lean

/-- Rewriting rules `f (es w s) … = es (f w …) s` and the reads of `es w s`. -/
register_simp_attr c03es
