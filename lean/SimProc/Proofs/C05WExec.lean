/-
C05W / C17W machinery, part 10: the closed-world executions — initialise once, then any
interleaving of `run(d)` calls (`runBegin`, steps of the event loop, running out of fuel) and
scripted operations issued from outside (without `rewire`/`create`).  The closed-world invariants
of C05W and C17W hold in every state of every execution.
-/
import SimProc.Proofs.C05WFifo
import SimProc.Proofs.C17WFail
namespace SimProc
namespace C05W
open World C02V

/-- The states of a closed-world execution that starts in `w0`. -/
inductive Exec (w0 : World) : World → Prop
  /-- `System.simulate` initialises the assets (once) -/
  | init : Exec w0 w0.simulateInit
  /-- `Environment.run(d)` schedules its terminate event … -/
  | runBegin {w : World} (d : Int) : Exec w0 w → Exec w0 (w.runBegin d).1
  /-- … and steps through the event queue -/
  | step {w w' : World} {e : Event} : Exec w0 w → w.step = some (e, w') → Exec w0 w'
  /-- (the model's loop has a fuel bound) -/
  | fuel {w : World} : Exec w0 w → Exec w0 (w.setErr "fuel")
  /-- a scripted operation issued from outside, between two steps -/
  | op {w : World} (o : Op) : Exec w0 w → OpStatic w o → Exec w0 ((w.applyOp o).1.addRes (w.applyOp o).2)

theorem Exec.runLoop {w0 : World} (n : Nat) : ∀ {w : World}, Exec w0 w → Exec w0 (runLoop n w) := by
  induction n with
  | zero => intro w h; exact h.fuel
  | succ n ih =>
    intro w h
    unfold World.runLoop
    split
    · split
      · exact h
      · rename_i e w' hst
        exact ih (h.step hst)
    · exact h

/-- the states of `bufOK_reachable` are states of an execution -/
theorem exec_reachable (n : Nat) (w0 : World) : Exec w0 (runLoop n w0.simulateInit) := Exec.init.runLoop n

/-! ### `runBegin` -/

theorem runBegin_cases (w : World) (d : Int) :
    (w.runBegin d).1 = w ∨
    ∃ e, (w.runBegin d).1 = { w with env := e } ∧
      w.env.runBegin Arith.exact d (weightOf w.seed w.wmod (w.env.now + d) (-1) terminateAct pTerminate) = some e := by
  unfold World.runBegin
  simp only []
  split
  · exact Or.inl rfl
  · rename_i e he; exact Or.inr ⟨e, rfl, he⟩

theorem runBegin_now {s e : Env} {d : Int} {wt : Nat} (h : s.runBegin Arith.exact d wt = some e) : e.now = s.now := by
  unfold Env.runBegin at h
  obtain ⟨_, rfl⟩ := Env.schedule_some.mp h
  rfl

theorem hb_runBegin (sk : Nat → Prop) (w : World) (d : Int) :
    HasBad (badAct sk) (w.runBegin d).1 = HasBad (badAct sk) w := by
  rcases runBegin_cases w d with h | ⟨e, h, he⟩
  · rw [h]
  · rw [h]
    unfold Env.runBegin at he
    apply propext
    unfold HasBad
    simp only [acts_schedule he]
    constructor
    · rintro ⟨n, rfl | hn, hb⟩
      · exact absurd hb (not_bad_of_not_fail sk .terminate (by intro d h; cases h))
      · exact ⟨n, hn, hb⟩
    · rintro ⟨n, hn, hb⟩; exact ⟨n, Or.inr hn, hb⟩

theorem sr_runBegin (sk : Nat → Prop) (w : World) (d : Int) : SR sk w (w.runBegin d).1 := by
  refine ⟨?_, ?_, hb_runBegin sk w d⟩
  · rcases runBegin_cases w d with h | ⟨e, h, _⟩ <;> rw [h] <;> rfl
  · rcases runBegin_cases w d with h | ⟨e, h, _⟩ <;> rw [h]

theorem sv_runBegin (w : World) (d : Int) : sv (w.runBegin d).1 = sv w := by
  rcases runBegin_cases w d with h | ⟨e, h, _⟩ <;> rw [h] <;> rfl

theorem bv_runBegin (w : World) (d : Int) : bv (w.runBegin d).1 = bv w := by
  rcases runBegin_cases w d with h | ⟨e, h, he⟩
  · rw [h]
  · rw [h]; simp only [bv]; rw [runBegin_now he]

theorem ei_runBegin (w : World) (d : Int) (h : EI w) : EI (w.runBegin d).1 := by
  rcases runBegin_cases w d with h' | ⟨e, h', he⟩
  · rw [h']; exact h
  · rw [h']; exact C01.inv_runBegin Arith.exact h he

theorem bi_runBegin (w : World) (d : Int) (h : BI w) : BI (w.runBegin d).1 :=
  ⟨h.inv.of_sv (sv_runBegin w d), h.stat.of_sr (sr_runBegin _ w d), ei_runBegin w d h.ei,
    bufAll_of_frame (hst := by
      rcases runBegin_cases w d with h' | ⟨e, h', _⟩ <;> rw [h'] <;> rfl) (bv_runBegin w d)
      (kids_of_sv (sv_runBegin w d)) h.buf⟩

/-! ### scripted operations from outside -/

theorem bi_op (w : World) (o : Op) (h : BI w) (ho : OpStatic w o) :
    BI ((w.applyOp o).1.addRes (w.applyOp o).2) := by
  have hn := noRC_of_static ho
  have hsb := sb_applyOp w o hn
  have hsr := sr_applyOp (fun d => (w.dev d).kind = .sink) w o (fun _ => Iff.rfl) ho
  refine ⟨(h.inv.of_sv (sv_of_sb hsb)).of_sv rfl, (h.stat.of_sr hsr).of_sr ⟨rfl, rfl, rfl⟩,
    ei_addRes _ (ei_applyOp w o hn h.ei), ?_⟩
  intro x hx
  have hk : (w.dev x).kind = .buffer := by rw [← kind_of_tv hsr.1 x]; exact hx
  exact bufOK_transport (w := w) (bdev_of_bv (bv_of_sb hsb) x)
    (by rw [show ((w.applyOp o).1.addRes (w.applyOp o).2).now = (w.applyOp o).1.now from rfl,
          now_of_bv (bv_of_sb hsb)]; exact Int.le_refl _)
    (fun e _ => leafCount_of_kids (kids_of_sv (sv_of_sb hsb) e.2)) (h.buf x hk)

theorem bi_exec {w0 w : World} (h0 : BI w0.simulateInit) (h : Exec w0 w) : BI w := by
  induction h with
  | init => exact h0
  | runBegin d _ ih => exact bi_runBegin _ d ih
  | step _ hst ih => exact bi_step _ _ _ ih hst
  | fuel _ ih => exact bi_runLoop 0 _ ih
  | op o _ ho ih => exact bi_op _ o ih ho

end C05W

namespace C17W
open World C02V C05W

theorem ci_runBegin (w : World) (d : Int) (h : CI w) : CI (w.runBegin d).1 :=
  ⟨h.inv.of_sv (sv_runBegin w d), h.stat.of_sr (sr_runBegin _ w d),
    batAll_of_frame (kind_of_tv (sr_runBegin (fun _ => True) w d).1) (sv_runBegin w d) (bv_runBegin w d) h.bat⟩

theorem ci_op (w : World) (o : Op) (h : CI w) (ho : OpStatic w o) :
    CI ((w.applyOp o).1.addRes (w.applyOp o).2) := by
  have hn := noRC_of_static ho
  have hsb := sb_applyOp w o hn
  have hsr := sr_applyOp (fun d => (w.dev d).kind = .sink) w o (fun _ => Iff.rfl) ho
  refine ⟨(h.inv.of_sv (sv_of_sb hsb)).of_sv rfl, (h.stat.of_sr hsr).of_sr ⟨rfl, rfl, rfl⟩, ?_⟩
  exact batAll_of_frame (w := w) (kind_of_tv hsr.1) (sv_of_sb hsb) (bv_of_sb hsb) h.bat

theorem ci_exec {w0 w : World} (h0 : CI w0.simulateInit) (h : Exec w0 w) : CI w := by
  induction h with
  | init => exact h0
  | runBegin d _ ih => exact ci_runBegin _ d ih
  | step _ hst ih => exact ci_step _ _ _ ih hst
  | fuel _ ih => exact ci_runLoop 0 _ ih
  | op o _ ho ih => exact ci_op _ o ih ho

theorem noFail_exec {w0 w : World} (h0 : CI w0.simulateInit) (hn : NoFailNonProc w0.simulateInit)
    (h : Exec w0 w) : NoFailNonProc w := by
  induction h with
  | init => exact hn
  | runBegin d _ ih => exact ih.of_sr (sr_runBegin _ _ d)
  | step hex hst ih => exact noFail_step _ _ _ (ci_exec h0 hex).stat ih hst
  | fuel _ ih => exact ih.of_sr (SR.of_st (st_setErr ..) (scr_setErr ..) (hb_setErr ..))
  | op o hex ho ih =>
    exact (ih.of_sr (srp_applyOp _ _ o (fun _ => Iff.rfl) ho)).of_sr ⟨rfl, rfl, rfl⟩

end C17W
end SimProc
