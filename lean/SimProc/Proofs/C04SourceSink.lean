/-
C04 — the source → sink line: the reachable worlds in closed form (`W P s`), what every model
function does to them, and the run invariant.
-/
import SimProc.Proofs.C04Lemmas

set_option linter.unusedSimpArgs false

namespace SimProc
namespace C04
namespace SS
open World

/-- Parameters of the scenario. -/
structure Par where
  c0 : Int
  cn : Int
  budget : Option Nat
  seed : Nat
  wmod : Nat

/-- The varying part of a reachable world. -/
structure S where
  now : Int := 0
  evs : List Event := []
  term : Bool := true
  uid : Nat := 0
  recs : List Rec := []
  parts : List PartRec := []
  gen : List Nat := []
  del : List Nat := []
  /-- source -/
  out : Option Nat := none
  wds : Bool := false
  produced : Int := 0
  /-- sink -/
  spart : Option Nat := none
  sout : Option Nat := none
  since : Option Int := some 0
  rc : Int := 0

def srcDev (P : Par) (s : S) : Dev :=
  { kind := .source, aid := 1, down := [1], inited := true, cycle := P.c0,
    maxParts := P.budget.map Int.ofNat,
    output := s.out, waitingDS := s.wds, since := some 0, produced := s.produced }

def snkDev (P : Par) (s : S) : Dev :=
  { kind := .sink, aid := 2, up := [0], inited := true, cycle := P.cn,
    part := s.spart, output := s.sout, since := s.since, recvCount := s.rc }

/-- The reachable worlds of the source → sink scenario. -/
def W (P : Par) (s : S) : World :=
  { env := { now := s.now, events := s.evs, terminated := s.term, nextUid := s.uid }
    seed := P.seed, wmod := P.wmod
    recs := s.recs
    rm := { inited := true }
    devs := [srcDev P s, snkDev P s]
    parts := s.parts
    assets := [.dev 0, .dev 1]
    started := true
    generated := s.gen
    delivered := s.del }

/-- The event `schedule_event` creates. -/
def mkEv (P : Par) (uid : Nat) (t asset : Int) (a : Action) (prio : Int) : Event :=
  { uid := uid, time := t, prio := prio, weight := weightOf P.seed P.wmod t asset a.toNat prio,
    asset := asset, act := a.toNat }

theorem W_dev0 (P : Par) (s : S) : (W P s).dev 0 = srcDev P s := rfl
theorem W_dev1 (P : Par) (s : S) : (W P s).dev 1 = snkDev P s := rfl
theorem W_now (P : Par) (s : S) : (W P s).now = s.now := rfl

theorem W_schedLib (P : Par) (s : S) (t asset : Int) (a : Action) (prio : Int) (h : s.now ≤ t) :
    (W P s).schedLib t asset a prio =
      W P { s with evs := insort (mkEv P s.uid t asset a prio) s.evs, uid := s.uid + 1 } := by
  have : ¬ t < s.now := by omega
  simp [schedLib, sched, Env.apply, Env.schedule, W, this, mkEv, Env.newEvent, srcDev, snkDev]

theorem W_addRec (P : Par) (s : S) (r : Rec) :
    (W P s).addRec r = W P { s with recs := s.recs ++ [r] } := rfl

theorem W_schedulePass0 (P : Par) (s : S) (h : 0 ≤ s.now) :
    (W P s).schedulePass 0 0 =
      W P { s with wds := false,
                   evs := insort (mkEv P s.uid s.now 1 (.passPart 0) pPassPart) s.evs,
                   uid := s.uid + 1 } := by
  have h1 : ¬ s.now + 0 < 0 := by omega
  have h2 : ¬ s.now < 0 := by omega
  simp [schedulePass, schedLib, sched, Env.apply, Env.schedule, W, mkEv, Env.newEvent, srcDev, snkDev,
    World.dev, World.setDev, World.now, h1, h2, pPassPart]

theorem W_notify0 (P : Par) (s : S) : (W P s).notify 0 = W P s := by
  simp [notify, World.fuel, notifyUp, setWaiting, W, srcDev, snkDev, World.dev, World.setDev]

theorem W_notify1 (P : Par) (s : S) (h : 0 ≤ s.now) (hs : s.since = none)
    (hp : s.spart = none) (ho : s.sout = none) :
    (W P s).notify 1 =
      if s.wds then
        W P { s with since := some s.now, wds := false,
                     evs := insort (mkEv P s.uid s.now 1 (.passPart 0) pPassPart) s.evs,
                     uid := s.uid + 1 }
      else W P { s with since := some s.now } := by
  have h2 : ¬ s.now < 0 := by omega
  cases hw : s.wds <;>
  simp [notify, World.fuel, notifyUp, spaceAvail, setWaiting, operational, W, srcDev, snkDev, World.dev,
    World.setDev, World.now, hs, hw, hp, ho, schedulePass, schedLib, sched, Env.apply, Env.schedule,
    mkEv, Env.newEvent, h2, pPassPart]

/-! ### parts: only single parts of value 0 occur -/

def PartsOK (parts : List PartRec) : Prop :=
  ∀ p, (parts.getD p default).kids = none ∧ (parts.getD p default).value = 0

/-- `add_routing_history` on the part list. -/
def histAdd (parts : List PartRec) (p d : Nat) : List PartRec :=
  parts.set p { parts.getD p default with hist := (parts.getD p default).hist ++ [d] }

theorem histAdd_length (parts : List PartRec) (p d : Nat) :
    (histAdd parts p d).length = parts.length := by simp [histAdd]

theorem histAdd_kids (parts : List PartRec) (p d q : Nat) :
    ((histAdd parts p d).getD q default).kids = (parts.getD q default).kids := by
  simp only [histAdd, List.getD_eq_getElem?_getD, List.getElem?_set]
  split
  · next h => subst h; split <;> simp_all
  · rfl

theorem histAdd_value (parts : List PartRec) (p d q : Nat) :
    ((histAdd parts p d).getD q default).value = (parts.getD q default).value := by
  simp only [histAdd, List.getD_eq_getElem?_getD, List.getElem?_set]
  split
  · next h => subst h; split <;> simp_all
  · rfl

theorem PartsOK_histAdd {parts : List PartRec} (h : PartsOK parts) (p d : Nat) :
    PartsOK (histAdd parts p d) := by
  intro q; rw [histAdd_kids, histAdd_value]; exact h q

theorem PartsOK_nil : PartsOK [] := by intro p; simp; exact ⟨rfl, rfl⟩

theorem PartsOK_append {parts : List PartRec} (h : PartsOK parts) (q : Int) :
    PartsOK (parts ++ [{ quality := q, value := 0 }]) := by
  intro p
  simp only [List.getD_eq_getElem?_getD, List.getElem?_append]
  split
  · have := h p; simpa [List.getD_eq_getElem?_getD] using this
  · cases (p - parts.length) with
    | zero => exact ⟨rfl, rfl⟩
    | succ m => exact ⟨rfl, rfl⟩

theorem partValue_ok (w : World) (h : PartsOK w.parts) (p : Nat) : w.partValue p = 0 := by
  simp only [partValue, World.part, (h p).1, (h p).2]

theorem leafCount_ok (w : World) (h : PartsOK w.parts) (p : Nat) : w.leafCount p = 1 := by
  simp only [leafCount, World.part, (h p).1]

theorem leavesOf_ok (w : World) (h : PartsOK w.parts) (p : Nat) : w.leavesOf p = [p] := by
  simp only [leavesOf, World.part, (h p).1]

theorem addHist_ok (w : World) (h : PartsOK w.parts) (p d : Nat) :
    w.addHist p d = { w with parts := histAdd w.parts p d } := by
  have hk : ((w.modPart p (fun r => { r with hist := r.hist ++ [d] })).part p).kids = none := by
    show ((histAdd w.parts p d).getD p default).kids = none
    rw [histAdd_kids]; exact (h p).1
  unfold addHist
  simp only [hk]
  rfl

/-! ### the sink -/

/-- What `notify` of the sink does: the sink waits again, a blocked source is woken up. -/
def wake (P : Par) (s : S) : S :=
  if s.wds then
    { s with since := some s.now, wds := false,
             evs := insort (mkEv P s.uid s.now 1 (.passPart 0) pPassPart) s.evs,
             uid := s.uid + 1 }
  else { s with since := some s.now }

theorem W_notify1' (P : Par) (s : S) (h : 0 ≤ s.now) (hs : s.since = none)
    (hp : s.spart = none) (ho : s.sout = none) :
    (W P s).notify 1 = W P (wake P s) := by
  rw [W_notify1 P s h hs hp ho]; unfold wake; split <;> rfl

theorem W_finishCycle1 (P : Par) (s : S) (p : Nat) (h : 0 ≤ s.now) (hs : s.since = none)
    (hp : s.spart = some p) (ho : s.sout = none) :
    (W P s).finishCycle 1 = W P (wake P { s with spart := none }) := by
  have : (W P s).finishCycle 1 = (W P { s with spart := none }).notify 1 := by
    simp [finishCycle, finishCycleHandler, operational, schedulePass, W, srcDev, snkDev, World.dev,
      World.setDev, World.modDev, hp, ho]
  rw [this]
  exact W_notify1' P { s with spart := none } h hs rfl ho

/-- The state after the sink has accepted part `p` (before its cycle is scheduled). -/
def accepted (s : S) (p : Nat) : S :=
  { s with del := s.del ++ [p], spart := some p, parts := histAdd s.parts p 1, since := none,
           rc := s.rc + 1,
           recs := s.recs ++ [.received 1 s.now p ((histAdd s.parts p 1).getD p default).quality 0] }

theorem W_scheduleFinish1_pos (P : Par) (s : S) (hc : 0 < P.cn) :
    (W P s).scheduleFinish 1 =
      W P { s with evs := insort (mkEv P s.uid (s.now + P.cn) 2 (.finishCycle 1) pFinish) s.evs,
                   uid := s.uid + 1 } := by
  have h1 : ¬ P.cn < 0 := by omega
  have h2 : ¬ P.cn ≤ 0 := by omega
  have h3 : ¬ s.now + P.cn < s.now := by omega
  simp [scheduleFinish, cycleTime, W, srcDev, snkDev, World.dev, World.setDev, World.now, h1, h2, h3,
    schedLib, sched, Env.apply, Env.schedule, mkEv, Env.newEvent, pFinish]

theorem W_scheduleFinish1_zero (P : Par) (s : S) (hc : P.cn = 0) :
    (W P s).scheduleFinish 1 = (W P s).finishCycle 1 := by
  simp [scheduleFinish, cycleTime, W, srcDev, snkDev, World.dev, World.setDev, World.now, hc]

theorem W_accept1 (P : Par) (s : S) (p : Nat) (hok : PartsOK s.parts) (ho : s.sout = none) :
    (W P s).acceptPart 1 p = (W P (accepted s p)).scheduleFinish 1 := by
  have e1 : ∀ w : World, PartsOK w.parts → w.partValue p = 0 := fun w h => partValue_ok w h p
  have e2 : ∀ w : World, PartsOK w.parts → w.leafCount p = 1 := fun w h => leafCount_ok w h p
  have e3 : ∀ w : World, PartsOK w.parts → w.leavesOf p = [p] := fun w h => leavesOf_ok w h p
  have e4 : ∀ w : World, PartsOK w.parts → w.addHist p 1 = { w with parts := histAdd w.parts p 1 } :=
    fun w h => addHist_ok w h p 1
  simp [acceptPart, onReceived, tryMove, setWaiting, operational, W, srcDev, snkDev, World.dev,
    World.setDev, World.modDev, World.now, World.addRec, World.part, accepted, ho, e1, e2, e3, e4, hok,
    PartsOK_histAdd, AssetVal.addValue]

/-! ### the source -/

theorem W_give1_free (P : Par) (s : S) (p : Nat) (hf : s.spart = none) (ho : s.sout = none) :
    (W P s).givePart 1 p = ((W P s).acceptPart 1 p, true) := by
  have : (W P s).canAcceptBasic 1 p = true := by
    simp [canAcceptBasic, operational, W, srcDev, snkDev, World.dev, hf, ho]
  have hk : ((W P s).dev 1).kind = .sink := rfl
  show give (4 + 1) (W P s) 1 p = _
  rw [give.eq_2]
  simp only [hk, this, if_true]

theorem W_give1_busy (P : Par) (s : S) (p q : Nat) (hf : s.spart = some q) :
    (W P s).givePart 1 p = (W P s, false) := by
  have : (W P s).canAcceptBasic 1 p = false := by
    simp [canAcceptBasic, operational, W, srcDev, snkDev, World.dev, hf]
  have hk : ((W P s).dev 1).kind = .sink := rfl
  show give (4 + 1) (W P s) 1 p = _
  rw [give.eq_2]
  simp [hk, this]

theorem W_sortedDown0 (P : Par) (s : S) : (W P s).sortedDown 0 = [1] := by
  simp [sortedDown, stableSort, insertByKey, W, srcDev, World.dev]

theorem W_clearOut (P : Par) (s : S) :
    ((W P s).modDev 0 (fun d => { d with output := none })).notify 0 = W P { s with out := none } := by
  have : (W P s).modDev 0 (fun d => { d with output := none }) = W P { s with out := none } := rfl
  rw [this, W_notify0]

theorem W_passHandler0_free (P : Par) (s s' : S) (p : Nat) (hout : s.out = some p)
    (hf : s.spart = none) (ho : s.sout = none) (hok : PartsOK s.parts)
    (hs' : (W P (accepted s p)).scheduleFinish 1 = W P s') :
    (W P s).passHandler 0 = W P { s' with out := none } := by
  have hop : (W P s).operational 0 = true := by simp [operational, W, srcDev, World.dev]
  have hd : ((W P s).dev 0).output = some p := hout
  unfold passHandler
  simp only [hop, hd, W_sortedDown0, tryList, W_give1_free P s p hf ho, W_accept1 P s p hok ho, hs']
  exact W_clearOut P s'

theorem W_passHandler0_busy (P : Par) (s : S) (p q : Nat) (hout : s.out = some p)
    (hf : s.spart = some q) :
    (W P s).passHandler 0 = W P { s with wds := true } := by
  have hop : (W P s).operational 0 = true := by simp [operational, W, srcDev, World.dev]
  have hd : ((W P s).dev 0).output = some p := hout
  unfold passHandler
  simp only [hop, hd, W_sortedDown0, tryList, W_give1_busy P s p q hf]
  rfl

/-- The state after the source has generated its next part and asked to pass it on. -/
def generated (P : Par) (s : S) : S :=
  { s with parts := histAdd (s.parts ++ [{ quality := 1, value := 0 }]) s.parts.length 0,
           gen := s.gen ++ [s.parts.length],
           out := some s.parts.length, wds := false,
           evs := insort (mkEv P s.uid s.now 1 (.passPart 0) pPassPart) s.evs,
           uid := s.uid + 1 }

theorem W_finishCycle0 (P : Par) (s : S) (h : 0 ≤ s.now) (hout : s.out = none)
    (hok : PartsOK s.parts) :
    (W P s).finishCycle 0 = W P (generated P s) := by
  have h2 : ¬ s.now < 0 := by omega
  have e4 : ∀ (w : World) (p : Nat), PartsOK w.parts →
      w.addHist p 0 = { w with parts := histAdd w.parts p 0 } := fun w p h => addHist_ok w h p 0
  have hok' := PartsOK_append hok 1
  simp [finishCycle, genPart, newPart, W, srcDev, snkDev, World.dev, World.setDev, World.modDev,
    World.now, hout, e4, hok', schedulePass, schedLib, sched, Env.apply, Env.schedule, mkEv,
    Env.newEvent, h2, pPassPart, generated]

theorem W_scheduleFinish0_pos (P : Par) (s : S) (hc : 0 < P.c0) :
    (W P s).scheduleFinish 0 =
      W P { s with evs := insort (mkEv P s.uid (s.now + P.c0) 1 (.finishCycle 0) pFinish) s.evs,
                   uid := s.uid + 1 } := by
  have h1 : ¬ P.c0 < 0 := by omega
  have h2 : ¬ P.c0 ≤ 0 := by omega
  have h3 : ¬ s.now + P.c0 < s.now := by omega
  simp [scheduleFinish, cycleTime, W, srcDev, snkDev, World.dev, World.setDev, World.now, h1, h2, h3,
    schedLib, sched, Env.apply, Env.schedule, mkEv, Env.newEvent, pFinish]

theorem W_scheduleFinish0_zero (P : Par) (s : S) (hc : P.c0 = 0) :
    (W P s).scheduleFinish 0 = (W P s).finishCycle 0 := by
  simp [scheduleFinish, cycleTime, W, srcDev, snkDev, World.dev, World.setDev, World.now, hc]

/-- The source's bookkeeping after a successful hand-over. -/
def supplied (s : S) (p : Nat) : S :=
  { s with produced := s.produced + 1, recs := s.recs ++ [.supplied 0 s.now p] }

theorem W_passPart0_exhausted (P : Par) (s : S) (B : Nat) (hB : P.budget = some B)
    (hx : (B : Int) ≤ s.produced) : (W P s).passPart 0 = W P s := by
  have h1 : (B : Int) - s.produced < 1 := by omega
  have h2 : (0 : Int) < 1 := by omega
  simp [passPart, W_dev0, srcDev, hB]
  intro h; split at h <;> omega

theorem W_passPart0_busy (P : Par) (s : S) (p q : Nat)
    (hB : ∀ B, P.budget = some B → s.produced < (B : Int)) (hout : s.out = some p)
    (hf : s.spart = some q) :
    (W P s).passPart 0 = W P { s with wds := true } := by
  have hd : ((W P { s with wds := true }).dev 0).output = some p := hout
  cases hb : P.budget with
  | none =>
    simp [passPart, W_dev0, srcDev, hb, hout, W_passHandler0_busy P s p q hout hf, hd]
  | some B =>
    have := hB B hb
    have h1 : ¬ ((B : Int) - s.produced < 0) := by omega
    have h2 : ¬ ((B : Int) - s.produced < 1) := by omega
    simp [passPart, W_dev0, srcDev, hb, hout, W_passHandler0_busy P s p q hout hf, hd, h1, h2]

theorem W_passPart0_free (P : Par) (s s' : S) (p : Nat)
    (hB : ∀ B, P.budget = some B → s.produced < (B : Int)) (hout : s.out = some p)
    (hf : s.spart = none) (ho : s.sout = none) (hok : PartsOK s.parts)
    (hs' : (W P (accepted s p)).scheduleFinish 1 = W P s') :
    (W P s).passPart 0 = (W P (supplied { s' with out := none } p)).scheduleFinish 0 := by
  have hv : (W P s).partValue p = 0 := partValue_ok _ hok p
  have hd : ((W P { s' with out := none }).dev 0).output = none := rfl
  cases hb : P.budget with
  | none =>
    simp only [passPart, W_dev0, srcDev, hb, hout, W_passHandler0_free P s s' p hout hf ho hok hs', hd,
      hv, Option.map_none, Option.isNone_none, if_true, Bool.false_eq_true, if_false]
    congr 1
  | some B =>
    have := hB B hb
    have h1 : ¬ ((B : Int) - s.produced < 0) := by omega
    have h2 : ¬ ((B : Int) - s.produced < 1) := by omega
    simp only [passPart, W_dev0, srcDev, hb, hout, W_passHandler0_free P s s' p hout hf ho hok hs', hd,
      hv, Option.map_some, Option.isNone_none, if_true, Int.ofNat_eq_natCast, h1, h2, if_false,
      decide_false, Bool.false_eq_true]
    congr 1

/-! ### events, initialisation, start of the run -/

theorem W_step (P : Par) (s : S) (e : Event) (rest : List Event) (h : s.evs = e :: rest) :
    (W P s).step = some (e,
      if e.live then
        (W P { s with now := e.time, evs := rest,
                      term := s.term || (e.live && e.act == terminateAct) }).exec (Action.ofNat e.act)
      else W P { s with now := e.time, evs := rest,
                        term := s.term || (e.live && e.act == terminateAct) }) := by
  simp only [World.step, W, Env.step, h]
  rfl

/-- The line and its parameters. -/
def line (P : Par) : Line := { c0 := P.c0, budget := P.budget, mids := [], cn := P.cn }

/-- State after `simulateInit`. -/
def initS (P : Par) : S :=
  if P.c0 ≤ 0 then generated P {}
  else { evs := [mkEv P 0 P.c0 1 (.finishCycle 0) pFinish], uid := 1 }

theorem W_init (P : Par) (hc : 0 ≤ P.c0) :
    ((line P).toWorld P.seed P.wmod).simulateInit = W P (initS P) := by
  by_cases h0 : P.c0 ≤ 0
  · have : P.c0 = 0 := by omega
    simp [Line.toWorld, line, addMids, addAsset, addDev, rewire, simulateInit, RM.init, rmEffects,
      initAsset, initDev, setWaiting, scheduleFinish, cycleTime, finishCycle, genPart, newPart,
      schedulePass, schedLib, sched, Env.apply, Env.schedule, Env.newEvent, addHist, modPart,
      World.part, isHandlerLike, W, srcDev, snkDev, initS, generated, mkEv, histAdd,
      World.dev, World.setDev, World.modDev, World.now, this, pPassPart, insort, spaceAvailable, AssetVal.reset]
  · have h1 : ¬ P.c0 < 0 := by omega
    have h2 : ¬ (0 : Int) + P.c0 < 0 := by omega
    simp [Line.toWorld, line, addMids, addAsset, addDev, rewire, simulateInit, RM.init, rmEffects,
      initAsset, initDev, setWaiting, scheduleFinish, cycleTime, schedLib, sched, Env.apply,
      Env.schedule, Env.newEvent, isHandlerLike, W, srcDev, snkDev, initS, mkEv,
      World.dev, World.setDev, World.modDev, World.now, h0, h1, h2, pFinish, insort, spaceAvailable, AssetVal.reset]

theorem W_runBegin_ok (P : Par) (s : S) (T : Int) (h : 0 ≤ T) :
    (W P s).runBegin T =
      (W P { s with term := false,
                    evs := insort (mkEv P s.uid (s.now + T) (-1) .terminate pTerminate) s.evs,
                    uid := s.uid + 1 }, .ok) := by
  have h1 : ¬ s.now + T < s.now := by omega
  simp [World.runBegin, Env.runBegin, Env.schedule, Arith.exact, W, h1, mkEv, Env.newEvent, srcDev,
    snkDev, pTerminate, prioTerminate, Action.toNat, terminateAct]

theorem W_runBegin_neg (P : Par) (s : S) (T : Int) (h : T < 0) :
    (W P s).runBegin T = (W P s, .err .value) := by
  have h1 : s.now + T < s.now := by omega
  simp [World.runBegin, Env.runBegin, Env.schedule, Arith.exact, W, h1]

/-! ### the reference for the source → sink line -/

/-- Departure of part `k` from the source = entry into the sink. -/
def D0 (P : Par) (k : Nat) : Int := dI (line P) 0 k
/-- Time at which the sink's slot is free again after part `k`. -/
def F (P : Par) (k : Nat) : Int := dI (line P) 1 k

theorem line_wf (P : Par) (h0 : 0 ≤ P.c0) (hn : 0 ≤ P.cn) : (line P).WF := by
  intro s hs
  simp only [Line.stations, line, List.nil_append, List.mem_cons, List.not_mem_nil, or_false] at hs
  rcases hs with rfl | rfl
  · exact ⟨h0, fun K hK => by simp [Station.effCap] at hK; omega⟩
  · exact ⟨hn, fun K hK => by simp [Station.effCap] at hK; omega⟩

theorem D0_zero (P : Par) : D0 P 0 = 0 := dI_zero _ _
theorem F_zero (P : Par) : F P 0 = 0 := dI_zero _ _

theorem D0_nonneg (P : Par) (h0 : 0 ≤ P.c0) (hn : 0 ≤ P.cn) (k : Nat) : 0 ≤ D0 P k :=
  dI_nonneg _ (line_wf P h0 hn) _ _

theorem F_nonneg (P : Par) (h0 : 0 ≤ P.c0) (hn : 0 ≤ P.cn) (k : Nat) : 0 ≤ F P k :=
  dI_nonneg _ (line_wf P h0 hn) _ _

theorem D0_succ (P : Par) (h0 : 0 ≤ P.c0) (hn : 0 ≤ P.cn) (k : Nat) :
    D0 P (k + 1) = max (D0 P k + P.c0) (F P k) := by
  have hL := line_wf P h0 hn
  have h := dI_rec (line P) hL 0 k ⟨.handler, P.c0, some 1⟩ rfl
  have hb : blockI (line P) (0 + 1) (k + 1) = F P k := by
    simp [blockI, line, Line.stations, Station.effCap, F]
  have he : eI (line P) 0 (k + 1) = D0 P k := by simp [eI, D0]
  have hnn := D0_nonneg P h0 hn k
  rw [hb, he] at h
  simp only [Station.isBuffer] at h
  unfold D0 at *
  rw [h]
  simp only [Bool.false_eq_true, if_false]
  omega

theorem F_succ (P : Par) (h0 : 0 ≤ P.c0) (hn : 0 ≤ P.cn) (k : Nat) :
    F P (k + 1) = D0 P (k + 1) + P.cn := by
  have hL := line_wf P h0 hn
  have h := dI_rec (line P) hL 1 k ⟨.handler, P.cn, some 1⟩ rfl
  have hb : blockI (line P) (1 + 1) (k + 1) = 0 := by
    simp [blockI, line, Line.stations]
  have he : eI (line P) 1 (k + 1) = D0 P (k + 1) := rfl
  have hnn := D0_nonneg P h0 hn (k + 1)
  rw [hb, he] at h
  simp only [Station.isBuffer] at h
  unfold F
  rw [h]
  simp only [Bool.false_eq_true, if_false]
  omega

theorem D0_mono (P : Par) (h0 : 0 ≤ P.c0) (hn : 0 ≤ P.cn) {k k' : Nat} (h : k ≤ k') :
    D0 P k ≤ D0 P k' := dI_mono_le _ (line_wf P h0 hn) 0 h

/-! ### the event queue by owner -/

abbrev Key := Int × Int × Int × Nat × Bool

/-- What matters of an event: time, priority, owner, action, cancelled flag. -/
def key (e : Event) : Key := (e.time, e.prio, e.asset, e.act, e.cancelled)

/-- The keys of the events of asset `c`, in queue order. -/
def cls (c : Int) (l : List Event) : List Key := (l.filter (fun e => e.asset == c)).map key

theorem cls_cons (c : Int) (e : Event) (l : List Event) :
    cls c (e :: l) = if e.asset = c then key e :: cls c l else cls c l := by
  by_cases h : e.asset = c <;> simp [cls, List.filter_cons, h]

theorem cls_insort_ne (c : Int) (x : Event) (l : List Event) (h : x.asset ≠ c) :
    cls c (insort x l) = cls c l := by
  induction l with
  | nil => simp [insort, cls_cons, h]
  | cons e es ih =>
    unfold insort
    split
    · rw [cls_cons, if_neg h]
    · rw [cls_cons, cls_cons, ih]

theorem cls_insort_eq (c : Int) (x : Event) (l : List Event) (h : x.asset = c) (hl : cls c l = []) :
    cls c (insort x l) = [key x] := by
  induction l with
  | nil => simp [insort, cls_cons, h, cls]
  | cons e es ih =>
    rw [cls_cons] at hl
    split at hl
    · simp at hl
    · next hne =>
      unfold insort
      split
      · rw [cls_cons, if_pos h, cls_cons, if_neg hne, hl]
      · rw [cls_cons, if_neg hne, ih hl]

theorem cls_mem {c : Int} {l : List Event} {κ : Key} (h : κ ∈ cls c l) : ∃ e ∈ l, key e = κ := by
  simp only [cls, List.mem_map, List.mem_filter] at h
  obtain ⟨e, ⟨he, _⟩, hk⟩ := h
  exact ⟨e, he, hk⟩

@[simp] theorem key_mkEv (P : Par) (uid : Nat) (t a : Int) (act : Action) (prio : Int) :
    key (mkEv P uid t a act prio) = (t, prio, a, act.toNat, false) := rfl

/-- The entry times into the sink logged so far. -/
def rt (recs : List Rec) : List Int :=
  recs.filterMap (fun r => match r with
    | .received d' t _ _ _ => if d' = 1 then some t else none
    | _ => none)

theorem entryTimes_W (P : Par) (s : S) : entryTimes (W P s) 1 = rt s.recs := rfl

theorem rt_append (recs : List Rec) (r : Rec) : rt (recs ++ [r]) = rt recs ++ rt [r] := by
  simp [rt, List.filterMap_append]

/-! ### the run invariant -/

/-- The part of the invariant that does not depend on what the source and the sink are doing:
`k` parts have been handed over so far, at the reference's times. -/
structure Core (P : Par) (s : S) (k : Nat) : Prop where
  now0 : 0 ≤ s.now
  sorted : SortedEv s.evs
  fut : ∀ e ∈ s.evs, s.now ≤ e.time
  cover : ∀ e ∈ s.evs, e.asset = -1 ∨ e.asset = 1 ∨ e.asset = 2
  pok : PartsOK s.parts
  sout : s.sout = none
  prod : s.produced = k
  rc : s.rc = k
  ent : rt s.recs = (List.range k).map (fun i => D0 P (i + 1))
  dk : D0 P k ≤ s.now
  bud : ∀ B, P.budget = some B → k ≤ B
  plen : s.parts.length = k + (if s.out.isSome then 1 else 0)

/-- Take the head of the queue. -/
def pop (s : S) (e : Event) (rest : List Event) : S :=
  { s with now := e.time, evs := rest, term := false }

/-- `schedule_event`. -/
def push (P : Par) (s : S) (t a : Int) (act : Action) (prio : Int) : S :=
  { s with evs := insort (mkEv P s.uid t a act prio) s.evs, uid := s.uid + 1 }

theorem Core.pop {P : Par} {s : S} {k : Nat} (c : Core P s k) {e : Event} {rest : List Event}
    (h : s.evs = e :: rest) : Core P (pop s e rest) k := by
  have hs := c.sorted
  rw [h] at hs
  have hle : s.now ≤ e.time := c.fut e (by simp [h])
  refine { now0 := ?_, sorted := hs.tail, fut := ?_, cover := ?_, pok := c.pok, sout := c.sout,
           prod := c.prod, rc := c.rc, ent := c.ent, dk := ?_, bud := c.bud, plen := c.plen }
  · show 0 ≤ e.time
    have := c.now0; omega
  · intro e' he'
    exact Event.nlt_time (hs.head_min e' he')
  · intro e' he'
    exact c.cover e' (by rw [h]; exact List.mem_cons_of_mem _ he')
  · show D0 P k ≤ e.time
    have := c.dk; omega

theorem Core.push {P : Par} {s : S} {k : Nat} (c : Core P s k) (t a : Int) (act : Action)
    (prio : Int) (ht : s.now ≤ t) (ha : a = -1 ∨ a = 1 ∨ a = 2) :
    Core P (push P s t a act prio) k := by
  refine { now0 := c.now0, sorted := insort_sorted c.sorted, fut := ?_, cover := ?_, pok := c.pok,
           sout := c.sout, prod := c.prod, rc := c.rc, ent := c.ent, dk := c.dk, bud := c.bud,
           plen := c.plen }
  · intro e' he'
    rcases insort_mem.1 he' with rfl | h
    · exact ht
    · exact c.fut e' h
  · intro e' he'
    rcases insort_mem.1 he' with rfl | h
    · exact ha
    · exact c.cover e' h

/-- The source generates its next part. -/
def gen (s : S) : S :=
  { s with parts := histAdd (s.parts ++ [{ quality := 1, value := 0 }]) s.parts.length 0,
           gen := s.gen ++ [s.parts.length],
           out := some s.parts.length, wds := false }

theorem generated_eq (P : Par) (s : S) :
    generated P s = push P (gen s) s.now 1 (.passPart 0) pPassPart := rfl

theorem Core.gen {P : Par} {s : S} {k : Nat} (c : Core P s k) (ho : s.out = none) :
    Core P (gen s) k := by
  refine { now0 := c.now0, sorted := c.sorted, fut := c.fut, cover := c.cover,
           pok := PartsOK_histAdd (PartsOK_append c.pok 1) _ _, sout := c.sout, prod := c.prod,
           rc := c.rc, ent := c.ent, dk := c.dk, bud := c.bud, plen := ?_ }
  have := c.plen
  rw [ho] at this
  show (histAdd (s.parts ++ [_]) s.parts.length 0).length = k + 1
  rw [histAdd_length, List.length_append, this]
  rfl

/-- Fields the core invariant does not read. -/
def tweak (s : S) (wds : Bool) (spart : Option Nat) (since : Option Int) : S :=
  { s with wds := wds, spart := spart, since := since }

theorem Core.tweak {P : Par} {s : S} {k : Nat} (c : Core P s k) (wds : Bool) (spart : Option Nat)
    (since : Option Int) : Core P (tweak s wds spart since) k :=
  { now0 := c.now0, sorted := c.sorted, fut := c.fut, cover := c.cover, pok := c.pok, sout := c.sout,
    prod := c.prod, rc := c.rc, ent := c.ent, dk := c.dk, bud := c.bud, plen := c.plen }

/-- The hand-over of part `p` from the source to the sink. -/
def passS (s : S) (p : Nat) : S :=
  { s with del := s.del ++ [p], parts := histAdd s.parts p 1, rc := s.rc + 1,
           recs := s.recs ++ [.received 1 s.now p ((histAdd s.parts p 1).getD p default).quality 0]
                    ++ [.supplied 0 s.now p],
           produced := s.produced + 1, out := none }

theorem Core.pass {P : Par} {s : S} {k : Nat} (c : Core P s k) (p : Nat) (ho : s.out = some p)
    (hb : ∀ B, P.budget = some B → k < B) (hd : D0 P (k + 1) = s.now) :
    Core P (passS s p) (k + 1) := by
  refine { now0 := c.now0, sorted := c.sorted, fut := c.fut, cover := c.cover,
           pok := PartsOK_histAdd c.pok _ _, sout := c.sout, prod := ?_, rc := ?_, ent := ?_,
           dk := ?_, bud := ?_, plen := ?_ }
  · show s.produced + 1 = ((k + 1 : Nat) : Int)
    have := c.prod; omega
  · show s.rc + 1 = ((k + 1 : Nat) : Int)
    have := c.rc; omega
  · show rt (s.recs ++ [_] ++ [_]) = _
    rw [rt_append, rt_append, c.ent, List.range_succ, List.map_append]
    simp [rt, hd]
  · show D0 P (k + 1) ≤ s.now
    omega
  · intro B hB; exact hb B hB
  · have := c.plen
    rw [ho] at this
    show (histAdd s.parts p 1).length = k + 1 + 0
    rw [histAdd_length, this]
    rfl

theorem step_live (P : Par) (s : S) (e : Event) (rest : List Event) (h : s.evs = e :: rest)
    (hterm : s.term = false) (hc : e.cancelled = false) (hact : e.act ≠ 0) :
    (W P s).step = some (e, (W P (pop s e rest)).exec (Action.ofNat e.act)) := by
  rw [W_step P s e rest h]
  have : (e.act == 0) = false := by simp [hact]
  simp [Event.live, hc, hterm, this, terminateAct, pop]

theorem step_term (P : Par) (s : S) (e : Event) (rest : List Event) (h : s.evs = e :: rest)
    (hc : e.cancelled = false) (hact : e.act = 0) :
    (W P s).step = some (e, W P { pop s e rest with term := true }) := by
  rw [W_step P s e rest h]
  simp [Event.live, hc, hact, terminateAct, pop, Action.ofNat, World.exec]

inductive SrcMode where
  | cycling | ready (t : Int) | blocked | exhausted

inductive SnkMode where
  | idle | busy
deriving DecidableEq

def termKey (T : Int) : Key := (T, 4, -1, 0, false)

/-- The source's pending event: the end of its cycle, or the attempt to pass its part on. -/
def srcKeys (P : Par) (k : Nat) : SrcMode → List Key
  | .cycling => [(D0 P k + P.c0, 32, 1, 2, false)]
  | .ready t => [(t, 28, 1, 3, false)]
  | _ => []

/-- The sink's pending event: the end of its cycle. -/
def snkKeys (P : Par) (k : Nat) : SnkMode → List Key
  | .busy => [(F P k, 32, 2, 18, false)]
  | .idle => []

def SrcCond (P : Par) (s : S) (k : Nat) (km : SnkMode) : SrcMode → Prop
  | .cycling => s.out = none ∧ s.wds = false ∧ 0 < P.c0
  | .ready t => (∃ p, s.out = some p) ∧ s.wds = false ∧ D0 P k + P.c0 ≤ t ∧
      (t = D0 P k + P.c0 ∨ t = F P k)
  | .blocked => (∃ p, s.out = some p) ∧ s.wds = true ∧ km = .busy ∧ D0 P k + P.c0 ≤ s.now
  | .exhausted => (∃ p, s.out = some p) ∧ s.wds = false ∧ ∃ B, P.budget = some B ∧ B ≤ k

def SnkCond (P : Par) (s : S) (k : Nat) : SnkMode → Prop
  | .idle => s.spart = none ∧ F P k ≤ s.now
  | .busy => (∃ q, s.spart = some q) ∧ s.since = none ∧ 0 < P.cn

/-- The invariant of the run loop while the run has not terminated: `k` parts handed over, the
source in mode `sm`, the sink in mode `km`, and the queue holds exactly the terminate event and
the events of these modes. -/
structure RunInv (P : Par) (T : Int) (s : S) (k : Nat) (sm : SrcMode) (km : SnkMode) : Prop where
  core : Core P s k
  nowT : s.now ≤ T
  term : s.term = false
  kT : cls (-1) s.evs = [termKey T]
  kS : cls 1 s.evs = srcKeys P k sm
  kK : cls 2 s.evs = snkKeys P k km
  src : SrcCond P s k km sm
  snk : SnkCond P s k km

/-- What holds when the run has terminated. -/
structure Done (P : Par) (T : Int) (s : S) : Prop where
  term : s.term = true
  ex : ∃ k : Nat, rt s.recs = (List.range k).map (fun i => D0 P (i + 1)) ∧ s.rc = k ∧
    k ≤ s.parts.length ∧ (∀ i, i < k → D0 P (i + 1) ≤ T) ∧ (∀ B, P.budget = some B → k ≤ B) ∧
    ((∃ B, P.budget = some B ∧ B ≤ k) ∨ T < D0 P (k + 1))

theorem key_fields {e : Event} {t pr a : Int} {act : Nat} {c : Bool} (h : key e = (t, pr, a, act, c)) :
    e.time = t ∧ e.prio = pr ∧ e.asset = a ∧ e.act = act ∧ e.cancelled = c := by
  simp only [key, Prod.mk.injEq] at h
  exact h

/-- An event of higher priority that is still behind the head is strictly later. -/
theorem later_of_key {e : Event} {rest : List Event} (hs : SortedEv (e :: rest)) {c : Int}
    {t pr a : Int} {act : Nat} {b : Bool} (h : (t, pr, a, act, b) ∈ cls c rest) (hp : e.prio < pr) :
    e.time < t := by
  obtain ⟨e', he', hk⟩ := cls_mem h
  obtain ⟨h1, h2, _, _, _⟩ := key_fields hk
  have := (Event.nlt_iff e e').1 (hs.head_min e' he')
  omega

theorem notlater_of_key {e : Event} {rest : List Event} (hs : SortedEv (e :: rest)) {c : Int}
    {t pr a : Int} {act : Nat} {b : Bool} (h : (t, pr, a, act, b) ∈ cls c rest) :
    e.time ≤ t := by
  obtain ⟨e', he', hk⟩ := cls_mem h
  obtain ⟨h1, _, _, _, _⟩ := key_fields hk
  have := Event.nlt_time (hs.head_min e' he')
  omega

theorem SnkCond.mono {P : Par} {s s' : S} {k : Nat} {km : SnkMode} (h : SnkCond P s k km)
    (h1 : s'.spart = s.spart) (h2 : s'.since = s.since) (h3 : s.now ≤ s'.now) :
    SnkCond P s' k km := by
  cases km with
  | idle => exact ⟨by rw [h1]; exact h.1, by have := h.2; omega⟩
  | busy => exact ⟨by rw [h1]; exact h.1, by rw [h2]; exact h.2.1, h.2.2⟩

end SS
end C04
end SimProc
