/-
C13W, part 3: the action of an event as a sequence of MACHINE MOVES of a fixed device `x`: frames
(the view of `x` is unchanged), `x` accepts a part / acquires its resources / its output slot is
emptied by a hand-over (the FLOW moves: only in hand-over events), `x` is shut down for maintenance
/ restored (the CONTROL moves: only in scripts and maintainer events).  The hand-over functions
(`give`, `tryList`, `passHandler`, `bufferLoop`, `passPart`) as sequences of flow moves.
-/
import SimProc.Proofs.C13WFloor
import SimProc.Proofs.C06TPass
namespace SimProc
namespace C13W
open World FloorCoreL

/-! ### moves -/

/-- One move of device `x`.  `fl`: flow moves (accept / acquire) allowed; `cl`: emptying the output
slot allowed; `ct`: control moves (maintenance shutdown / restore) allowed. -/
inductive PAtom (x : Nat) (fl cl ct : Prop) : World → World → Prop
  | frame {w w' : World} (h : pvw x w' = pvw x w) : PAtom x fl cl ct w w'
  | accept {w : World} (hf : fl) (p : Nat) (hc : w.canAcceptBasic x p = true) :
      PAtom x fl cl ct w (w.acceptPart x p)
  | acquire {w : World} (hf : fl) (p : Nat) (hc : w.canAcceptBasic x p = true) :
      PAtom x fl cl ct w (w.procAcquire x).1
  | clear {w : World} (hc : cl) (hop : w.operational x = true) :
      PAtom x fl cl ct w (w.modDev x (fun d => { d with output := none }))
  | shutdown {w : World} (hc : ct) : PAtom x fl cl ct w (w.shutdownDev x false none)
  | restore {w : World} (hc : ct) : PAtom x fl cl ct w (w.restoreDev x)

inductive PMoves (x : Nat) (fl cl ct : Prop) : World → World → Prop
  | refl (w : World) : PMoves x fl cl ct w w
  | cons {w w' w'' : World} (a : PAtom x fl cl ct w w') (m : PMoves x fl cl ct w' w'') :
      PMoves x fl cl ct w w''

variable {x : Nat} {fl cl ct : Prop}

theorem PMoves.one {w w' : World} (a : PAtom x fl cl ct w w') : PMoves x fl cl ct w w' :=
  .cons a (.refl _)

theorem PMoves.trans {a b c : World} (h1 : PMoves x fl cl ct a b) (h2 : PMoves x fl cl ct b c) :
    PMoves x fl cl ct a c := by
  induction h1 with
  | refl => exact h2
  | cons a _ ih => exact .cons a (ih h2)

theorem PMoves.fr {w w' : World} (h : pvw x w' = pvw x w) : PMoves x fl cl ct w w' := .one (.frame h)

theorem PMoves.of_eq {w w' : World} (h : w' = w) : PMoves x fl cl ct w w' := by
  subst h; exact .refl _

theorem PMoves.then_fr {w w' w'' : World} (m : PMoves x fl cl ct w w') (h : pvw x w'' = pvw x w') :
    PMoves x fl cl ct w w'' := m.trans (.fr h)

theorem PAtom.mono {fl' cl' ct' : Prop} {w w' : World} (a : PAtom x fl cl ct w w')
    (h1 : fl → fl') (h2 : cl → cl') (h3 : ct → ct') : PAtom x fl' cl' ct' w w' := by
  cases a with
  | frame h => exact .frame h
  | accept hf p hc => exact .accept (h1 hf) p hc
  | acquire hf p hc => exact .acquire (h1 hf) p hc
  | clear hc hop => exact .clear (h2 hc) hop
  | shutdown hc => exact .shutdown (h3 hc)
  | restore hc => exact .restore (h3 hc)

theorem PMoves.mono {fl' cl' ct' : Prop} {w w' : World} (m : PMoves x fl cl ct w w')
    (h1 : fl → fl') (h2 : cl → cl') (h3 : ct → ct') : PMoves x fl' cl' ct' w w' := by
  induction m with
  | refl => exact .refl _
  | cons a _ ih => exact .cons (a.mono h1 h2 h3) ih

theorem PMoves.foldl {α : Type} (f : World → α → World) (l : List α) (w : World)
    (h : ∀ w a, PMoves x fl cl ct w (f w a)) : PMoves x fl cl ct w (l.foldl f w) := by
  induction l generalizing w with
  | nil => exact .refl _
  | cons a l ih => exact (h w a).trans (ih _)

/-! ### flow moves keep the shutdown flag -/

theorem procAcquire_pv (w : World) (y : Nat) :
    pvd ((w.procAcquire y).1.dev y) = { pvd (w.dev y) with reserved := ((w.procAcquire y).1.dev y).reserved } := by
  have key : ∀ {α} (g : Dev → α), (∀ d r wr, g { d with reserved := r, waitingRes := wr } = g d) →
      g ((w.procAcquire y).1.dev y) = g (w.dev y) := fun g hg => procAcquire_dev_field g hg w y y
  unfold pvd
  rw [key Dev.kind (fun _ _ _ => rfl), key Dev.aid (fun _ _ _ => rfl), key Dev.part (fun _ _ _ => rfl),
    key Dev.output (fun _ _ _ => rfl), key Dev.shutDown (fun _ _ _ => rfl),
    key Dev.uptime (fun _ _ _ => rfl), key Dev.lastRestore (fun _ _ _ => rfl),
    key Dev.timeInUse (fun _ _ _ => rfl), key Dev.lastUseStart (fun _ _ _ => rfl),
    key Dev.nShutCbs (fun _ _ _ => rfl), key Dev.nRestCbs (fun _ _ _ => rfl)]

theorem procAcquire_operational (w : World) (y : Nat) :
    (w.procAcquire y).1.operational y = w.operational y := by
  have h := procAcquire_pv w y
  have h1 : ((w.procAcquire y).1.dev y).kind = (w.dev y).kind := congrArg PV.kind h
  have h2 : ((w.procAcquire y).1.dev y).shutDown = (w.dev y).shutDown := congrArg PV.shutDown h
  unfold World.operational
  rw [h1, h2]

/-- The flow moves (and frames) do not change kind, asset id and shutdown flag of a processor `x`. -/
theorem PAtom.flags {w w' : World} (a : PAtom x fl cl False w w')
    (hk : (w.dev x).kind = .processor) :
    (w'.dev x).kind = .processor ∧ (w'.dev x).shutDown = (w.dev x).shutDown := by
  cases a with
  | frame h => exact ⟨(pv_kind h).trans hk, pv_shutDown h⟩
  | accept hf p hc =>
    exact ⟨(acceptPart_proc_field' Dev.kind (fun _ => rfl) (fun _ _ _ => rfl) w p hk hc).trans
        (by unfold moveDev finDev finH; dsimp only; repeat' split
            all_goals exact hk),
      (acceptPart_proc_field' Dev.shutDown (fun _ => rfl) (fun _ _ _ => rfl) w p hk hc).trans
        (by unfold moveDev finDev finH; dsimp only; repeat' split
            all_goals rfl)⟩
  | acquire hf p hc =>
    have h := procAcquire_pv w x
    exact ⟨(congrArg PV.kind h).trans hk, congrArg PV.shutDown h⟩
  | clear hc hop =>
    have hx := lt_of_processor hk
    rw [dev_modDev_same hx]; exact ⟨hk, rfl⟩
  | shutdown hc => exact hc.elim
  | restore hc => exact hc.elim

theorem PMoves.flags {w w' : World} (m : PMoves x fl cl False w w')
    (hk : (w.dev x).kind = .processor) :
    (w'.dev x).kind = .processor ∧ (w'.dev x).shutDown = (w.dev x).shutDown := by
  induction m with
  | refl => exact ⟨hk, rfl⟩
  | cons a _ ih =>
    obtain ⟨h1, h2⟩ := a.flags hk
    obtain ⟨h3, h4⟩ := ih h1
    exact ⟨h3, h4.trans h2⟩

theorem PMoves.operational {w w' : World} (m : PMoves x fl cl False w w')
    (hk : (w.dev x).kind = .processor) : w'.operational x = w.operational x := by
  obtain ⟨h1, h2⟩ := m.flags hk
  unfold World.operational
  rw [h1, hk, h2]

/-! ### the hand-over as flow moves -/

/-- Any device accepts a part it can accept. -/
theorem pm_acceptPart (w : World) (y p : Nat) (hc : w.canAcceptBasic y p = true) :
    PMoves x True cl ct w (w.acceptPart y p) := by
  by_cases hy : y = x
  · subst hy; exact .one (.accept trivial p hc)
  · exact .fr (pv_acceptPart x w y p hy)

theorem pm_tryList (g : World → Nat → Nat → World × Bool)
    (hg : ∀ w y p, PMoves x fl cl ct w (g w y p).1) (l : List Nat) :
    ∀ (w : World) (p : Nat), PMoves x fl cl ct w (tryList g w l p).1 := by
  induction l with
  | nil => intro w p; exact .refl _
  | cons y ys ih =>
    intro w p
    unfold tryList
    have h1 := hg w y p
    cases hgy : g w y p with
    | mk w' b =>
      rw [hgy] at h1
      cases b with
      | true => exact h1
      | false => exact h1.trans (ih w' p)

theorem pm_give (f : Nat) : ∀ (w : World) (y p : Nat), PMoves x True cl ct w (give f w y p).1 := by
  induction f with
  | zero => intro w y p; exact .fr (pv_setErr ..)
  | succ f ih =>
    intro w y p
    have hl := pm_tryList (x := x) (fl := True) (cl := cl) (ct := ct) (give f) ih
    unfold give
    simp only []
    split
    iterate 5
      split
      · rename_i hc
        dsimp only
        exact pm_acceptPart w y p hc
      · exact .refl _
    · -- processor
      rename_i hk
      split
      · rename_i hc
        have hc1 := C06T.canAccept_procAcquire hk hc
        have ma : PMoves x True cl ct w (w.procAcquire y).1 := by
          by_cases hy : y = x
          · subst hy; exact .one (.acquire trivial p hc)
          · exact .fr (pv_procAcquire x w y hy)
        split
        · rename_i w1 hw1
          rw [hw1] at ma hc1
          dsimp only at ma hc1 ⊢
          exact ma.trans (pm_acceptPart w1 y p hc1)
        · rename_i w1 hw1
          rw [hw1] at ma
          exact ma
      · exact .refl _
    · -- gate
      split
      · exact .refl _
      · split
        · exact .refl _
        · have g1 : PMoves x True cl ct w (w.addHist p y) := .fr (pv_addHist ..)
          have := hl ((w.addHist p y).sortedDown y) (w.addHist p y) p
          split
          · rename_i w2 hw2; rw [hw2] at this
            exact g1.trans this
          · rename_i w2 hw2; rw [hw2] at this
            exact (g1.trans this).then_fr (pv_dropHist ..)
    · -- ginput
      split
      · exact .refl _
      · exact hl (w.sortedDown y) w p
    · -- gpath
      split
      · exact .refl _
      · have g1 : PMoves x True cl ct w
            ((w.modPart p (fun r => { r with stack := r.stack ++ [y] })).addHist p y) :=
          .fr (by rw [pv_addHist, pv_modPart])
        have := ih ((w.modPart p (fun r => { r with stack := r.stack ++ [y] })).addHist p y)
          ((((w.modPart p (fun r => { r with stack := r.stack ++ [y] })).addHist p y).groups.getD
            (w.dev y).group default).input) p
        split
        · rename_i w2 hw2
          rw [hw2] at this
          exact g1.trans this
        · rename_i w2 hw2
          rw [hw2] at this
          exact (g1.trans this).then_fr (by rw [pv_dropHist, pv_modPart])
    · -- goutput
      split
      · exact .fr (pv_setErr ..)
      · rename_i g hg
        have g1 : PMoves x True cl ct w (w.modPart p (fun r => { r with stack := r.stack.dropLast })) :=
          .fr (pv_modPart ..)
        have := hl ((w.modPart p (fun r => { r with stack := r.stack.dropLast })).sortedDown g)
          (w.modPart p (fun r => { r with stack := r.stack.dropLast })) p
        split
        · rename_i w2 hw2; rw [hw2] at this
          exact g1.trans this
        · rename_i w2 hw2; rw [hw2] at this
          dsimp only at this ⊢
          exact (g1.trans this).then_fr (pv_modPart ..)

theorem pm_tryGive (w : World) (l : List Nat) (p : Nat) :
    PMoves x True cl ct w (tryList givePart w l p).1 :=
  pm_tryList givePart (fun w y p => pm_give w.fuel w y p) l w p

/-- `_pass_part_downstream` of device `y`: only if `y = x` is the output slot of `x` emptied. -/
theorem pm_passHandler (w : World) (y : Nat) (hk : (w.dev x).kind = .processor) :
    PMoves x True (y = x) False w (w.passHandler y) := by
  unfold World.passHandler
  simp only []
  split
  · exact .refl _
  · rename_i hop
    split
    · exact .refl _
    · rename_i p _
      have h1 := pm_tryGive (x := x) (cl := (y = x)) (ct := False) w (w.sortedDown y) p
      split
      · rename_i w1 hw1
        rw [hw1] at h1
        dsimp only at h1
        refine (h1.trans ?_).then_fr (pv_notify ..)
        by_cases hy : y = x
        · subst hy
          refine .one (.clear rfl ?_)
          rw [h1.operational hk]
          simpa using hop
        · exact .fr (pv_modDev _ _ _ _ (Or.inl hy))
      · rename_i w1 hw1
        rw [hw1] at h1
        exact h1.then_fr (pv_modDev _ _ _ _ (Or.inr rfl))

theorem pm_bufferLoop (f : Nat) : ∀ (w : World) (y : Nat), y ≠ x →
    PMoves x True (y = x) False w (bufferLoop f w y) := by
  induction f with
  | zero => intro w y _; exact .refl _
  | succ f ih =>
    intro w y hy
    unfold bufferLoop
    simp only []
    split
    · exact .refl _
    · rename_i t p rest _
      split
      · exact .refl _
      · have h1 := pm_tryGive (x := x) (cl := (y = x)) (ct := False) w (w.sortedDown y) p
        split
        · rename_i w1 hw1
          rw [hw1] at h1
          dsimp only at h1
          refine (h1.then_fr ?_).trans (ih _ y hy)
          rw [pv_addRec _ _ _ rfl, pv_modDev _ _ _ _ (Or.inl hy)]
        · rename_i w1 hw1
          rw [hw1] at h1
          exact h1

theorem pm_passPart (w : World) (y : Nat) (hk : (w.dev x).kind = .processor) :
    PMoves x True (y = x) False w (w.passPart y) := by
  have hph := pm_passHandler w y hk
  cases hky : (w.dev y).kind
  case source =>
    have hy : y ≠ x := fun e => by rw [e, hk] at hky; cases hky
    unfold World.passPart
    simp only [hky]
    repeat' split
    all_goals first
      | exact .refl _
      | exact hph
      | (refine hph.then_fr ?_
         rw [pv_scheduleFinish _ _ _ hy, pv_addRec _ _ _ rfl, pv_modDev _ _ _ _ (Or.inl hy)])
  case buffer =>
    have hy : y ≠ x := fun e => by rw [e, hk] at hky; cases hky
    unfold World.passPart
    simp only [hky]
    have h1 := pm_bufferLoop (x := x) ((w.dev y).buf.length + 1) w y hy
    refine PMoves.then_fr ?_ (pv_notify ..)
    split
    · exact h1
    · split
      · exact h1.then_fr (pv_schedulePass ..)
      · exact h1.then_fr (pv_setDev _ _ _ _ (Or.inl hy))
  case batcher =>
    have hy : y ≠ x := fun e => by rw [e, hk] at hky; cases hky
    unfold World.passPart
    simp only [hky]
    split
    · exact hph.then_fr (pv_tryMove _ _ _ hy)
    · exact hph
  case sink =>
    unfold World.passPart
    simp only [hky]
    exact .refl _
  all_goals
    unfold World.passPart
    simp only [hky]
    exact hph

end C13W
end SimProc
