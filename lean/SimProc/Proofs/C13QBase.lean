/-
C13Q (a down machine is QUIET), part 1: the pass-part and release events of a device `x` in the
event queue (`isQ`), the frame relation `QK x w w'` ("`w'` is `w` with the flags of `x` unchanged, the
paused list unchanged, and possibly more pending events — none of which is a pass / release event of
`x` unless it carries the asset id of `x` and `x` is operational"), its primitives and a chaining
tactic.
-/
import SimProc.Props.C13W
namespace SimProc
namespace C13Q
open World FloorCoreL C06W

/-! ### the pass-part and release events of a device -/

def passAct (x : Nat) : Nat := (Action.passPart x).toNat
def relAct (x : Nat) : Nat := (Action.releaseIfIdle x).toNat

/-- `e` is a live pass-part or release event of device `x` -/
def isQ (x : Nat) (e : Event) : Bool := e.live && (e.act == passAct x || e.act == relAct x)

theorem isQ_iff (x : Nat) (e : Event) :
    isQ x e = true ↔ e.live = true ∧ (e.act = passAct x ∨ e.act = relAct x) := by
  simp [isQ]

theorem toNat_q {a : Action} {x : Nat} (h : a.toNat = passAct x ∨ a.toNat = relAct x) :
    a = .passPart x ∨ a = .releaseIfIdle x := by
  rcases h with h | h
  · left
    cases a <;> simp only [Action.toNat, passAct] at h <;> first | omega | (congr 1; omega)
  · right
    cases a <;> simp only [Action.toNat, relAct] at h <;> first | omega | (congr 1; omega)

theorem ofNat_pass {n d : Nat} (h : Action.ofNat n = .passPart d) : n = passAct d := by
  have hlt : n % 16 < 16 := Nat.mod_lt _ (by decide)
  unfold Action.ofNat at h
  simp only [] at h
  split at h
  all_goals first
    | (split at h <;> cases h)
    | (rename_i hm
       injection h with h
       simp only [passAct, Action.toNat]; omega)
    | cases h

theorem ofNat_rel {n d : Nat} (h : Action.ofNat n = .releaseIfIdle d) : n = relAct d := by
  have hlt : n % 16 < 16 := Nat.mod_lt _ (by decide)
  unfold Action.ofNat at h
  simp only [] at h
  split at h
  all_goals first
    | (split at h <;> cases h)
    | (rename_i hm
       injection h with h
       simp only [relAct, Action.toNat]; omega)
    | cases h

theorem mem_insort {e a : Event} {l : List Event} : e ∈ insort a l ↔ e = a ∨ e ∈ l := by
  rw [(insort_perm a l).mem_iff]; simp

/-! ### the frame relation -/

structure QK (x : Nat) (w w' : World) : Prop where
  kind : (w'.dev x).kind = (w.dev x).kind
  aid : (w'.dev x).aid = (w.dev x).aid
  sd : (w'.dev x).shutDown = (w.dev x).shutDown
  mp : (w.dev x).maxParts = none → (w'.dev x).maxParts = none
  now : w'.now = w.now
  paused : w'.env.paused = w.env.paused
  sub : ∀ e ∈ w.env.events, e ∈ w'.env.events
  new : ∀ e ∈ w'.env.events, e ∈ w.env.events ∨
    (e.cancelled = false ∧ w.now ≤ e.time ∧
      (isQ x e = true → e.asset = (w.dev x).aid ∧ w.operational x = true))

variable {x : Nat}

theorem QK.op {w w' : World} (h : QK x w w') : w'.operational x = w.operational x := by
  unfold World.operational; rw [h.kind, h.sd]

theorem QK.refl (w : World) : QK x w w :=
  ⟨rfl, rfl, rfl, id, rfl, rfl, fun _ h => h, fun _ h => Or.inl h⟩

theorem QK.trans {a b c : World} (h1 : QK x a b) (h2 : QK x b c) : QK x a c where
  kind := h2.kind.trans h1.kind
  aid := h2.aid.trans h1.aid
  sd := h2.sd.trans h1.sd
  mp := fun h => h2.mp (h1.mp h)
  now := h2.now.trans h1.now
  paused := h2.paused.trans h1.paused
  sub := fun e he => h2.sub e (h1.sub e he)
  new := fun e he => by
    rcases h2.new e he with h | h
    · exact h1.new e h
    · right
      rw [h1.aid, h1.op, h1.now] at h
      exact h

theorem QK.of_eq {w w' : World} (h : w' = w) : QK x w w' := by subst h; exact QK.refl _

theorem QK.foldl {α : Type} (f : World → α → World) (l : List α) (w : World)
    (h : ∀ w a, QK x w (f w a)) : QK x w (l.foldl f w) := by
  induction l generalizing w with
  | nil => exact QK.refl w
  | cons a l ih => exact (h w a).trans (ih _)

/-- a change that touches neither the devices nor the environment -/
theorem qk_of_fields {w w' : World} (hd : w'.devs = w.devs) (he : w'.env = w.env) : QK x w w' := by
  have hdev : w'.dev x = w.dev x := dev_congr hd x
  refine ⟨by rw [hdev], by rw [hdev], by rw [hdev], by rw [hdev]; exact id,
    by unfold World.now; rw [he], by rw [he], by rw [he]; exact fun _ h => h,
    by rw [he]; exact fun _ h => Or.inl h⟩

section prim
variable (w : World)

theorem qk_setErr (m : String) : QK x w (w.setErr m) := by
  unfold World.setErr; split
  · exact QK.refl _
  · exact qk_of_fields rfl rfl

theorem qk_addRec (r : Rec) : QK x w (w.addRec r) := qk_of_fields rfl rfl
theorem qk_addRes (r : Res) : QK x w (w.addRes r) := qk_of_fields rfl rfl
theorem qk_modPart (p : Nat) (g : PartRec → PartRec) : QK x w (w.modPart p g) := qk_of_fields rfl rfl
theorem qk_newPart (r : PartRec) : QK x w (w.newPart r).1 := qk_of_fields rfl rfl

/-- Scheduling an event: a frame unless it is a pass / release event of `x` with a foreign asset id
or while `x` is down. -/
theorem qk_sched (t a : Int) (act : Action) (p : Int)
    (hq : act = .passPart x ∨ act = .releaseIfIdle x →
      a = (w.dev x).aid ∧ w.operational x = true) :
    QK x w (w.sched t a act p).1 := by
  have henv := sched_fst_env w t a act p
  have hd : (w.sched t a act p).1.devs = w.devs := sched_fst_devs ..
  have hdev : (w.sched t a act p).1.dev x = w.dev x := dev_congr hd x
  cases hs : w.env.schedule t a act.toNat p (weightOf w.seed w.wmod t a act.toNat p) with
  | none =>
    have he : (w.sched t a act p).1.env = w.env := by rw [henv]; simp [Env.apply, hs]
    exact qk_of_fields hd he
  | some s' =>
    have he : (w.sched t a act p).1.env = s' := by rw [henv]; simp [Env.apply, hs]
    obtain ⟨hge, hs'⟩ := Env.schedule_some.mp hs
    refine ⟨by rw [hdev], by rw [hdev], by rw [hdev], by rw [hdev]; exact id,
      by unfold World.now; rw [he, hs'], by rw [he, hs'], ?_, ?_⟩
    · intro e hm; rw [he, hs']; exact mem_insort.mpr (Or.inr hm)
    · intro e hm
      rw [he, hs'] at hm
      rcases mem_insort.mp hm with rfl | hm
      · right
        refine ⟨rfl, hge, ?_⟩
        intro hqe
        have := (isQ_iff x _).mp hqe
        exact hq (toNat_q this.2)
      · exact Or.inl hm

theorem qk_schedLib (t a : Int) (act : Action) (p : Int)
    (hq : act = .passPart x ∨ act = .releaseIfIdle x →
      a = (w.dev x).aid ∧ w.operational x = true) :
    QK x w (w.schedLib t a act p) := by
  have h := qk_sched (x := x) w t a act p hq
  unfold World.schedLib
  generalize w.sched t a act p = s at h ⊢
  obtain ⟨w', r⟩ := s
  cases r
  case ok => exact h
  all_goals exact h.trans (qk_setErr _ _)

theorem qk_rmEffects (recs : List ResRec) (check : Bool) : QK x w (w.rmEffects recs check) := by
  have h : QK x w (recs.foldl (fun w r => w.addRec (.resUpdate r.res w.now r.inUse r.cap)) w) :=
    QK.foldl _ _ _ (fun w r => qk_addRec w _)
  unfold World.rmEffects
  split
  · exact h.trans (qk_schedLib _ _ _ _ _ (by intro e; rcases e with e | e <;> cases e))
  · exact h

/-- Overwriting device `y`: a frame if `y` is another device, or if the flags are kept. -/
theorem qk_setDev (y : Nat) (d : Dev)
    (h : y ≠ x ∨ (d.kind = (w.dev y).kind ∧ d.aid = (w.dev y).aid ∧ d.shutDown = (w.dev y).shutDown ∧
      ((w.dev y).maxParts = none → d.maxParts = none))) :
    QK x w (w.setDev y d) := by
  have hdev : (w.setDev y d).dev x = if y = x ∧ y < w.devs.length then d else w.dev x :=
    dev_setDev w y x d
  refine ⟨?_, ?_, ?_, ?_, rfl, rfl, fun _ h => h, fun _ h => Or.inl h⟩
  all_goals
    rw [hdev]
    split
    · rename_i hc
      rcases h with h | h
      · exact absurd hc.1 h
      · obtain ⟨h1, h2, h3, h4⟩ := h
        rw [← hc.1]
        first | exact h1 | exact h2 | exact h3 | exact h4
    · first | rfl | exact id

theorem qk_modDev (y : Nat) (f : Dev → Dev)
    (h : y ≠ x ∨ ((f (w.dev y)).kind = (w.dev y).kind ∧ (f (w.dev y)).aid = (w.dev y).aid ∧
      (f (w.dev y)).shutDown = (w.dev y).shutDown ∧
      ((w.dev y).maxParts = none → (f (w.dev y)).maxParts = none))) :
    QK x w (w.modDev y f) := qk_setDev w y _ h

end prim

/-! ### the chaining tactic -/

syntax "qk_side" : tactic
macro_rules | `(tactic| qk_side) => `(tactic| first
  | exact Or.inr ⟨rfl, rfl, rfl, id⟩
  | exact Or.inr ⟨rfl, rfl, rfl, fun _ => rfl⟩
  | (apply Or.inl; assumption)
  | (apply Or.inl; apply Ne.symm; assumption))

syntax "qks" : tactic
macro_rules | `(tactic| qks) => `(tactic| first
  | exact QK.refl _
  | exact qk_of_fields rfl rfl
  | refine QK.trans ?_ (qk_setErr _ _)
  | refine QK.trans ?_ (qk_addRec _ _)
  | refine QK.trans ?_ (qk_addRes _ _)
  | refine QK.trans ?_ (qk_modPart _ _ _)
  | refine QK.trans ?_ (qk_schedLib _ _ _ _ _ (by intro e; rcases e with e | e <;> cases e))
  | refine QK.trans ?_ (qk_rmEffects _ _ _)
  | refine QK.trans ?_ (qk_setDev _ _ _ (by qk_side))
  | refine QK.trans ?_ (qk_modDev _ _ _ (by qk_side)))

macro "qk_auto" : tactic => `(tactic| ((try dsimp only) <;> repeat' (first | qks | split)))

macro "qk_lemma3" a:ident : command =>
  `(macro_rules | `(tactic| qks) => `(tactic| refine QK.trans ?_ ($a:ident _ _ _ _)))
macro "qk_lemma2" a:ident : command =>
  `(macro_rules | `(tactic| qks) => `(tactic| refine QK.trans ?_ ($a:ident _ _ _)))
macro "qk_lemma1" a:ident : command =>
  `(macro_rules | `(tactic| qks) => `(tactic| refine QK.trans ?_ ($a:ident _ _)))

end C13Q
end SimProc
