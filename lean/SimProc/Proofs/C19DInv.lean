/-
C19D — machinery, part 1: the global invariant `GS` of sensors with ONE ANCHOR PER SENSOR
(`B s` = the time at which sensor `s` was initialised), after `GI` of `Proofs/C19WGlobal.lean`
(one anchor for all) and `GD` of `Proofs/C18DInv.lean` (one anchor per scheduler).  Every sensor
that exists is initialised (`PI (B s)` for a periodic one, `OI` for an output-part one), indices
beyond the list satisfy `SensU`; the schedulers keep the invariant `SchedInv P` of C18W with the
single anchor of `P`.  Preservation by frames, by taking an event from the queue, by transitions,
and by APPENDING a fresh periodic sensor and initialising it at the current time.
-/
import SimProc.Proofs.C19WStep

namespace SimProc
namespace C19D
open World FloorCoreL C18W C19W

/-- sensor `s` under the anchor map `B` -/
def SensD (B : Nat → Int) (e : Env) (c : TK) (s : Nat) : Prop :=
  (s < c.sensors.length →
    ((c.sensors.getD s default).s.kind = .periodic → PI (B s) e c s) ∧
    ((c.sensors.getD s default).s.kind = .output → OI e c s)) ∧
  (c.sensors.length ≤ s → SensU e c s)

structure GS (P : Par) (B : Nat → Int) (e : Env) (c : TK) : Prop where
  sok : SOK c
  sched : ∀ s, SchedInv P e c s
  sens : ∀ s, SensD B e c s
  acts : ∀ s, AI c s

theorem SensD.congr {B : Nat → Int} {e e' : Env} {c c' : TK} {s : Nat} (h : SensD B e c s)
    (hlen : c'.sensors.length = c.sensors.length)
    (hsw : c'.sensors.getD s default = c.sensors.getD s default)
    (hlog : senseLog c'.resT s = senseLog c.resT s)
    (hprod : ∀ x, prodLog c'.recsT x = prodLog c.recsT x)
    (hev : e'.events.filter (psEv s) = e.events.filter (psEv s))
    (hpa : e'.paused.filter (psEv s) = e.paused.filter (psEv s)) (hnow : e.now ≤ e'.now)
    (hfin : ∀ x, (c'.finS x).count s = (c.finS x).count s) (hdk : c'.dk.length = c.dk.length) :
    SensD B e' c' s := by
  unfold SensD
  rw [hlen, hsw]
  refine ⟨fun hc => ⟨fun hk => ((h.1 hc).1 hk).congr hsw hlog hev hpa hnow hfin,
    fun hk => ((h.1 hc).2 hk).congr hsw hlog (hprod _) hev hpa hfin hdk⟩,
    fun hc => (h.2 hc).congr (by rw [hsw]) hlog hev hpa hfin⟩

/-- Only the anchors of existing sensors matter. -/
theorem GS.congrB {P : Par} {B B' : Nat → Int} {e : Env} {c : TK} (h : GS P B e c)
    (hB : ∀ s, s < c.sensors.length → B' s = B s) : GS P B' e c :=
  ⟨h.sok, h.sched, fun s => ⟨fun hc => by rw [hB s hc]; exact (h.sens s).1 hc, (h.sens s).2⟩, h.acts⟩

theorem GS.env {P : Par} {B : Nat → Int} {e e' : Env} {c : TK} (h : GS P B e c)
    (hev : e'.events.filter tracked = e.events.filter tracked)
    (hpa : e'.paused.filter tracked = e.paused.filter tracked) (hnow : e.now ≤ e'.now) :
    GS P B e' c :=
  ⟨h.sok,
    fun s => (h.sched s).congr rfl rfl rfl (filter_sub_congr (fun _ => suEv_tracked) hev)
      (filter_sub_congr (fun _ => suEv_tracked) hpa) hnow,
    fun s => (h.sens s).congr rfl rfl rfl (fun _ => rfl) (filter_sub_congr (fun _ => psEv_tracked) hev)
      (filter_sub_congr (fun _ => psEv_tracked) hpa) hnow (fun _ => rfl) rfl, h.acts⟩

theorem GS.cstep {P : Par} {B : Nat → Int} {e : Env} {a b : TK} (h : GS P B e a) (hs : CStep a b) :
    GS P B e b := by
  have hss := sstat_of_cstat hs.cstat
  obtain ⟨l1, l2, _⟩ := lengths_of_sstat hss
  refine ⟨h.sok.of_sstat hss, fun s => ?_, fun s => ?_,
    fun s => (h.acts s).congr (hs.sched_logs s).1 (hs.sched_logs s).2⟩
  · have hst := schedStat_of_cstat hs.cstat s
    unfold SchedInv
    rw [l1]
    exact ⟨fun hc => (h.sched s).1 hc |>.frame rfl rfl (Int.le_refl _) hst (hs.sched_logs s).1,
      fun hc => (h.sched s).2 hc |>.frame rfl rfl hst (hs.sched_logs s).1⟩
  · unfold SensD
    rw [l2, kind_of_sstat hss s]
    refine ⟨fun hc => ⟨fun hk => CStep.pi hs hc (((h.sens s).1 hc).1 hk),
      fun hk => CStep.oi hs hc (((h.sens s).1 hc).2 hk)⟩, fun hc => CStep.sensU hs ((h.sens s).2 hc)⟩

theorem GS.crun {P : Par} {B : Nat → Int} {e : Env} {a b : TK} (h : GS P B e a) (hs : CRun a b) :
    GS P B e b :=
  CRun.preserve (P := GS P B e) (fun hs h => h.cstep hs) hs h

/-- Every tracked event is the pending event of an initialised scheduler or of a periodic sensor. -/
theorem GS.owner {P : Par} {B : Nat → Int} {e : Env} {c : TK} (h : GS P B e c) {x : Event}
    (hx : x ∈ e.events ++ e.paused) (ht : tracked x = true) :
    (∃ s, suEv s x = true ∧ s < c.scheds.length ∧ AssetRef.sched s ∈ P.done ∧ x ∈ e.events ∧
      x.asset = (c.scheds.getD s default).aid) ∨
    (∃ s, psEv s x = true ∧ s < c.sensors.length ∧ x ∈ e.events ∧
      (c.sensors.getD s default).s.kind = .periodic ∧ x.asset = (c.sensors.getD s default).aid) := by
  have hmem : ∀ p : Event → Bool, p x = true →
      x ∈ e.events.filter p ∨ x ∈ e.paused.filter p := by
    intro p hp
    rcases List.mem_append.mp hx with h1 | h1
    · exact Or.inl (List.mem_filter.mpr ⟨h1, hp⟩)
    · exact Or.inr (List.mem_filter.mpr ⟨h1, hp⟩)
  rcases tracked_cases ht with hs | hs
  · left
    refine ⟨x.act / 16, hs, ?_⟩
    by_cases hc : x.act / 16 < c.scheds.length ∧ AssetRef.sched (x.act / 16) ∈ P.done
    · have hsi := (h.sched _).1 hc
      unfold SI at hsi
      by_cases hlt : (c.scheds.getD (x.act / 16) default).s.idx <
          (c.scheds.getD (x.act / 16) default).s.tt.length
      · obtain ⟨_, _, _, ⟨e0, h1, _, _, h4, _⟩, h6⟩ := hsi.running hlt
        rcases hmem _ hs with hm | hm
        · rw [h1] at hm
          simp only [List.mem_singleton] at hm
          subst hm
          have : x ∈ e.events.filter (suEv (x.act / 16)) := by rw [h1]; simp
          exact ⟨hc.1, hc.2, (List.mem_filter.mp this).1, h4⟩
        · rw [h6] at hm; cases hm
      · obtain ⟨h1, h2, _⟩ := hsi.ended (Nat.le_of_not_lt hlt)
        rcases hmem _ hs with hm | hm
        · rw [h1] at hm; cases hm
        · rw [h2] at hm; cases hm
    · have hsu := (h.sched _).2 hc
      rcases hmem _ hs with hm | hm
      · rw [hsu.ev] at hm; cases hm
      · rw [hsu.pa] at hm; cases hm
  · right
    refine ⟨x.act / 16, hs, ?_⟩
    by_cases hc : x.act / 16 < c.sensors.length
    · cases hk : (c.sensors.getD (x.act / 16) default).s.kind with
      | periodic =>
        obtain ⟨log, _, _, _, _, _, _, ⟨e0, h1, _, _, h4, _⟩, h6⟩ := (((h.sens _).1 hc).1 hk).ex
        rcases hmem _ hs with hm | hm
        · rw [h1] at hm
          simp only [List.mem_singleton] at hm
          subst hm
          have : x ∈ e.events.filter (psEv (x.act / 16)) := by rw [h1]; simp
          exact ⟨hc, (List.mem_filter.mp this).1, rfl, h4⟩
        · rw [h6] at hm; cases hm
      | output =>
        have hoi := ((h.sens _).1 hc).2 hk
        rcases hmem _ hs with hm | hm
        · rw [hoi.ev] at hm; cases hm
        · rw [hoi.pa] at hm; cases hm
    · have hsu := (h.sens _).2 (Nat.le_of_not_lt hc)
      rcases hmem _ hs with hm | hm
      · rw [hsu.ev] at hm; cases hm
      · rw [hsu.pa] at hm; cases hm

theorem GS.qi {P : Par} {B : Nat → Int} {e : Env} {c : TK} (h : GS P B e c) : QI c.ta e := by
  intro x hx ht
  rcases h.owner hx ht with ⟨s, _, h2, _, _, h5⟩ | ⟨s, _, h2, _, _, h6⟩
  · rw [h5]; exact mem_ta_sched h2
  · rw [h6]; exact mem_ta_sensor h2

theorem GS.stat {P : Par} {B : Nat → Int} {w : World} (h : GS P B w.env (tk w)) : Stat w :=
  ⟨h.sok.statc, h.qi⟩

/-- **Frames keep the invariant.** -/
theorem GS.fr {P : Par} {B : Nat → Int} {w w' : World} (h : GS P B w.env (tk w))
    (hi : C01.Inv w.env) (hf : Fr w w') :
    GS P B w'.env (tk w') ∧ C01.Inv w'.env ∧ w'.now = w.now ∧
    (tk w').sensors.length = (tk w).sensors.length ∧ (tk w').ta = (tk w).ta := by
  obtain ⟨he, hc⟩ := hf h.stat
  obtain ⟨f1, f2, _⟩ := he.filters h.qi
  have hn : w'.env.now = w.env.now := he.now
  exact ⟨(h.env f1 f2 (by rw [hn]; exact Int.le_refl _)).crun hc, he.inv hi, hn,
    (lengths_of_sstat (sstat_of_cstat hc.cstat)).2.1, ta_of_cstat hc.cstat⟩

theorem GS.pop_untracked {P : Par} {B : Nat → Int} {e : Env} {c : TK} (h : GS P B e c)
    (hi : C01.Inv e) {ev : Event} {es : List Event} (he : e.events = ev :: es)
    (ht : tracked ev = false) : GS P B (popEnv e ev es) c :=
  h.env (filter_pop he _ ht) rfl (hi.future ev (by rw [he]; exact List.mem_cons_self))

/-- A scheduler transition: the head of the queue is the event of scheduler `s`. -/
theorem GS.sched_adv {P : Par} {B : Nat → Int} {e : Env} {c : TK} (h : GS P B e c) (hi : C01.Inv e)
    {ev : Event} {es : List Event} (he : e.events = ev :: es) {s : Nat} (hs : suEv s ev = true)
    {e' : Env} {c' : TK} (ha : ASched (popEnv e ev es) c s true e' c') : GS P B e' c' := by
  have hnow : e.now ≤ ev.time := hi.future ev (by rw [he]; exact List.mem_cons_self)
  have hown := h.owner (x := ev) (by rw [he]; simp) (suEv_tracked hs)
  have hc : s < c.scheds.length ∧ AssetRef.sched s ∈ P.done := by
    rcases hown with ⟨s', h1, h2, h3, _⟩ | ⟨s', h1, _⟩
    · have : s' = s := by
        have a1 : ev.act = 9 + 16 * s := by simpa [suEv] using hs
        have a2 : ev.act = 9 + 16 * s' := by simpa [suEv] using h1
        omega
      subst this; exact ⟨h2, h3⟩
    · rw [suEv_not_psEv h1] at hs; cases hs
  obtain ⟨hmid, _, _⟩ := ((h.sched s).1 hc).pop he hs (e.terminated || (ev.live && ev.act == terminateAct))
  have hfr := ha.frame
  obtain ⟨l1, l2, l3⟩ := lengths_of_sstat hfr.sstat
  refine ⟨h.sok.of_sstat hfr.sstat, fun s' => ?_, fun s' => ?_, fun s' => (h.acts s').asched ha⟩
  · by_cases hne : s' = s
    · subst hne
      unfold SchedInv
      rw [l1]
      exact ⟨fun _ => SI_advance hmid hc.1 (h.sok.dur_at s') ha, fun hn => absurd hc hn⟩
    · have h1 : SchedInv P (popEnv e ev es) c s' :=
        (h.sched s').congr rfl rfl rfl (filter_pop he _ (suEv_ne hne hs)) rfl hnow
      unfold SchedInv at h1 ⊢
      rw [l1]
      exact ⟨fun hc' => hfr.si hne (h1.1 hc'), fun hc' => hfr.su hne (h1.2 hc')⟩
  · have h1 : SensD B (popEnv e ev es) c s' :=
      (h.sens s').congr rfl rfl rfl (fun _ => rfl) (filter_pop he _ (psEv_not_suEv hs)) rfl hnow
        (fun _ => rfl) rfl
    unfold SensD at h1 ⊢
    rw [l2, hfr.sensors]
    exact ⟨fun hc' => ⟨fun hk => schedFrame_pi hfr ((h1.1 hc').1 hk),
      fun hk => schedFrame_oi hfr ((h1.1 hc').2 hk)⟩, fun hc' => schedFrame_sensU hfr (h1.2 hc')⟩

/-- A periodic measurement: the head of the queue is the event of sensor `s`. -/
theorem GS.sense_adv {P : Par} {B : Nat → Int} {e : Env} {c : TK} (h : GS P B e c) (hi : C01.Inv e)
    {ev : Event} {es : List Event} (he : e.events = ev :: es) {s : Nat} (hs : psEv s ev = true)
    {vals : List Int} (hv : vals.length = (c.sensors.getD s default).vars.length)
    {e' : Env} {c' : TK} (ha : APSense (popEnv e ev es) c s vals e' c') : GS P B e' c' := by
  have hnow : e.now ≤ ev.time := hi.future ev (by rw [he]; exact List.mem_cons_self)
  have hown := h.owner (x := ev) (by rw [he]; simp) (psEv_tracked hs)
  have hc : s < c.sensors.length ∧ (c.sensors.getD s default).s.kind = .periodic := by
    rcases hown with ⟨s', h1, _⟩ | ⟨s', h1, h2, _, h5, _⟩
    · rw [psEv_not_suEv h1] at hs; cases hs
    · have : s' = s := by
        have a1 : ev.act = 10 + 16 * s := by simpa [psEv] using hs
        have a2 : ev.act = 10 + 16 * s' := by simpa [psEv] using h1
        omega
      subst this; exact ⟨h2, h5⟩
  obtain ⟨hmid, _, _⟩ := (((h.sens s).1 hc.1).1 hc.2).pop he hs hnow
    (e.terminated || (ev.live && ev.act == terminateAct))
  have hfr := ha.frame
  obtain ⟨l1, l2, l3⟩ := lengths_of_sstat hfr.sstat
  refine ⟨h.sok.of_sstat hfr.sstat, fun s' => ?_, fun s' => ?_, fun s' => (h.acts s').sensFrame hfr⟩
  · have h1 : SchedInv P (popEnv e ev es) c s' :=
      (h.sched s').congr rfl rfl rfl (filter_pop he _ (suEv_not_psEv hs)) rfl hnow
    unfold SchedInv at h1 ⊢
    rw [l1]
    exact ⟨fun hc' => hfr.si (h1.1 hc'), fun hc' => hfr.su (h1.2 hc')⟩
  · by_cases hne : s' = s
    · subst hne
      unfold SensD
      rw [l2, kind_of_sstat hfr.sstat s']
      exact ⟨fun _ => ⟨fun _ => PI_advance hmid hc.1 hv ha, fun hk => by rw [hc.2] at hk; cases hk⟩,
        fun hn => by omega⟩
    · have h1 : SensD B (popEnv e ev es) c s' :=
        (h.sens s').congr rfl rfl rfl (fun _ => rfl) (filter_pop he _ (psEv_ne hne hs)) rfl hnow
          (fun _ => rfl) rfl
      unfold SensD at h1 ⊢
      rw [l2, hfr.sensors s' hne]
      exact ⟨fun hc' => ⟨fun hk => hfr.pi hne ((h1.1 hc').1 hk),
        fun hk => hfr.oi hne ((h1.1 hc').2 hk)⟩, fun hc' => hfr.sensU hne (h1.2 hc')⟩

/-- From the invariant of C18W/C19W (one anchor), when every sensor is registered. -/
theorem GS.of_gi {P : Par} {e : Env} {c : TK} (h : GI P e c)
    (hall : ∀ s, s < c.sensors.length → AssetRef.sensor s ∈ P.done) :
    GS P (fun _ => P.t0) e c :=
  ⟨h.sok, h.sched,
    fun s => ⟨fun hc => (h.sens s).1 ⟨hc, hall s hc⟩, fun hc => (h.sens s).2 (fun hn => by omega)⟩,
    h.acts⟩

/-! ### a fresh sensor is appended, then initialised -/

/-- the key with a sensor appended -/
def pushN (c : TK) (x : SensorW) : TK := { c with sensors := c.sensors ++ [x] }

theorem pushN_getD_lt (c : TK) (x : SensorW) {s : Nat} (h : s < c.sensors.length) :
    (pushN c x).sensors.getD s default = c.sensors.getD s default :=
  getD_append_left _ _ _ _ h

theorem pushN_getD_gt (c : TK) (x : SensorW) {s : Nat} (h : c.sensors.length < s) :
    (pushN c x).sensors.getD s default = c.sensors.getD s default := by
  have h1 : (pushN c x).sensors.length ≤ s := by simp [pushN]; omega
  rw [List.getD_eq_getElem?_getD, List.getD_eq_getElem?_getD, List.getElem?_eq_none h1,
    List.getElem?_eq_none (by omega)]

/-- Appending a constructor-fresh sensor (not registered with a machine, a new asset id, interval
not negative if periodic) keeps the invariant: it is one more uninitialised sensor. -/
theorem GS.push {P : Par} {B : Nat → Int} {e : Env} {c : TK} (h : GS P B e c) (x : SensorW)
    (hreg : x.registered = false) (hivl : x.s.kind = .periodic → 0 ≤ x.s.interval)
    (haid : x.aid ≠ 0 ∧ ∀ k ∈ c.dk, k.1 ≠ x.aid) (hscr : c.scripts = []) :
    SOK (pushN c x) ∧ (∀ s, SchedInv P e (pushN c x) s) ∧
    (∀ s, s ≠ c.sensors.length → SensD B e (pushN c x) s) ∧
    SensU e (pushN c x) c.sensors.length ∧ (∀ s, AI (pushN c x) s) := by
  refine ⟨⟨⟨?_, ?_⟩, h.sok.dur, ?_⟩,
    fun s => (h.sched s).congr rfl rfl rfl rfl rfl (Int.le_refl _), ?_, ?_,
    fun s => (h.acts s).congr rfl rfl⟩
  · intro a ha
    have : a ∈ c.ta ∨ a = x.aid := by
      simp only [TK.ta, pushN, List.map_append, List.mem_append, List.mem_map, List.map_cons,
        List.map_nil, List.mem_singleton] at ha ⊢
      rcases ha with ha | ha | ha
      · exact Or.inl (Or.inl ha)
      · exact Or.inl (Or.inr ha)
      · exact Or.inr ha
    rcases this with ha | rfl
    · exact h.sok.statc.aids a ha
    · exact haid
  · intro l hl
    rw [show (pushN c x).scripts = c.scripts from rfl, hscr] at hl
    cases hl
  · intro sw hsw
    rcases List.mem_append.mp hsw with hm | hm
    · exact h.sok.ivl sw hm
    · simp only [List.mem_singleton] at hm
      subst hm; exact hivl
  · intro s hne
    have hlen : (pushN c x).sensors.length = c.sensors.length + 1 := by simp [pushN]
    unfold SensD
    rw [hlen]
    by_cases hlt : s < c.sensors.length
    · have hsw := pushN_getD_lt c x hlt
      rw [hsw]
      refine ⟨fun _ => ⟨fun hk => (((h.sens s).1 hlt).1 hk).congr hsw rfl rfl rfl (Int.le_refl _)
          (fun _ => rfl),
        fun hk => (((h.sens s).1 hlt).2 hk).congr hsw rfl rfl rfl rfl (fun _ => rfl) rfl⟩,
        fun hc => by omega⟩
    · have hgt : c.sensors.length < s := by omega
      refine ⟨fun hc => by omega, fun _ => ?_⟩
      exact ((h.sens s).2 (by omega)).congr (by rw [pushN_getD_gt c x hgt]) rfl rfl rfl (fun _ => rfl)
  · have := (h.sens c.sensors.length).2 (Nat.le_refl _)
    refine ⟨this.ev, this.pa, this.log, ?_, this.nofin⟩
    rw [show (pushN c x).sensors.getD c.sensors.length default = x from getD_append_singleton _ _ _]
    exact hreg

/-- The appended periodic sensor is initialised at the current time: its anchor is the clock. -/
theorem GS.sens_start {P : Par} {B : Nat → Int} {e : Env} {c : TK} {i : Nat}
    (hsok : SOK c) (hsch : ∀ s, SchedInv P e c s) (hs : ∀ s, s ≠ i → SensD B e c s)
    (hsu : SensU e c i) (hi : i < c.sensors.length)
    (hk : (c.sensors.getD i default).s.kind = .periodic) (hacts : ∀ s, AI c s) (hB : B i = e.now)
    {e' : Env} {c' : TK} (ha : AInitSens e c i e' c') : GS P B e' c' := by
  have hfr := ha.frame
  obtain ⟨l1, l2, l3⟩ := lengths_of_sstat hfr.sstat
  refine ⟨hsok.of_sstat hfr.sstat, fun s' => ?_, fun s' => ?_, fun s' => (hacts s').sensFrame hfr⟩
  · unfold SchedInv
    rw [l1]
    exact ⟨fun hc => hfr.si ((hsch s').1 hc), fun hc => hfr.su ((hsch s').2 hc)⟩
  · unfold SensD
    rw [l2]
    by_cases hne : s' = i
    · subst hne
      rw [kind_of_sstat hfr.sstat s']
      refine ⟨fun _ => ⟨fun _ => ?_, fun hk' => by rw [hk] at hk'; cases hk'⟩, fun hc => by omega⟩
      rw [hB]
      exact PI_start hsu hi hk ha
    · rw [hfr.sensors s' hne]
      have := hs s' hne
      exact ⟨fun hc => ⟨fun hk' => hfr.pi hne ((this.1 hc).1 hk'),
        fun hk' => hfr.oi hne ((this.1 hc).2 hk')⟩, fun hc => hfr.sensU hne (this.2 hc)⟩

end C19D
end SimProc
