/-
C18W / C19W — machinery, part 7: what one step of the event loop does to the tracked key, by the
kind of the event executed (`step_kinds`); abstract steps never write `.act` results
(`CRun.acts`) and leave the data of a periodic sensor alone (`CRun.periodic_quiet`).
-/
import SimProc.Proofs.C19WGlobal

namespace SimProc
namespace C19W
open World FloorCoreL C18W

/-! ### `.act` results -/

def isAct : Res → Bool
  | .act .. => true
  | _ => false

/-- all `.act` results, of every scheduler -/
def acts (res : List Res) : List Res := res.filter isAct

theorem acts_filter (res : List Res) : acts (res.filter trackedRes) = acts res := by
  unfold acts
  rw [List.filter_filter]
  apply List.filter_congr
  intro r _
  cases r <;> simp [trackedRes, isAct]

theorem acts_append (l1 l2 : List Res) : acts (l1 ++ l2) = acts l1 ++ acts l2 := by
  unfold acts; rw [List.filter_append]

theorem acts_sense (l : List Nat) (s : Nat) (t : Int) (vals : List Int) :
    acts (l.map (fun cb => Res.sense s cb t vals)) = [] := by
  unfold acts
  apply filter_eq_nil_of_forall
  intro r hr
  obtain ⟨c, _, rfl⟩ := List.mem_map.mp hr
  rfl

theorem acts_act (l : List (Nat × Option Nat)) (s : Nat) (t st : Int) :
    acts (l.map (fun p => Res.act s p.1 t st p.2)) = l.map (fun p => Res.act s p.1 t st p.2) := by
  unfold acts
  apply List.filter_eq_self.mpr
  intro r hr
  obtain ⟨c, _, rfl⟩ := List.mem_map.mp hr
  rfl

theorem outSense_acts (c : TK) (s : Nat) (t q v : Int) : acts (c.outSense s t q v).resT = acts c.resT := by
  unfold TK.outSense
  dsimp only
  split
  · rw [acts_append, acts_sense, List.append_nil]
  · rfl

theorem foldl_outSense_acts (l : List Nat) (c : TK) (t q v : Int) :
    acts (l.foldl (fun c s => c.outSense s t q v) c).resT = acts c.resT := by
  induction l generalizing c with
  | nil => rfl
  | cons s l ih => rw [List.foldl_cons, ih, outSense_acts]

theorem CStep.acts {a b : TK} (h : CStep a b) : acts b.resT = acts a.resT := by
  cases h with
  | reg => rfl
  | unreg => rfl
  | addCb => rfl
  | prod x t p q v hx => exact foldl_outSense_acts _ _ _ _ _

theorem CRun.acts {a b : TK} (h : CRun a b) : acts b.resT = acts a.resT := by
  induction h with
  | refl => rfl
  | tail _ hs ih => exact (CStep.acts hs).trans ih

/-! ### abstract steps and a periodic sensor -/

/-- The measured data of a sensor (everything except the callbacks). -/
def sensData (sw : SensorW) := (sw.s.data, sw.s.time, sw.s.last, sw.s.counter)

/-- A sensor that is attached to no device keeps its data and writes no result in an abstract
step. -/
theorem CStep.quiet {a b : TK} (h : CStep a b) {s : Nat} (hn : ∀ x, (a.finS x).count s = 0) :
    sensData (b.sensors.getD s default) = sensData (a.sensors.getD s default) ∧
    senseLog b.resT s = senseLog a.resT s ∧ (∀ x, (b.finS x).count s = 0) := by
  cases h with
  | reg => exact ⟨rfl, rfl, hn⟩
  | unreg => exact ⟨rfl, rfl, hn⟩
  | addCb s' cb =>
    refine ⟨?_, rfl, hn⟩
    by_cases he : s' = s
    · subst he
      by_cases hs : s' < a.sensors.length
      · rw [show (a.addCb s' cb).sensors.getD s' default =
            { a.sensors.getD s' default with s := (a.sensors.getD s' default).s.addCb cb } from
          getD_set_same _ _ _ _ hs]
        rfl
      · have : (a.addCb s' cb).sensors = a.sensors := by
          unfold TK.addCb
          exact set_of_length_le _ _ _ (Nat.le_of_not_lt hs)
        rw [this]
    · rw [show (a.addCb s' cb).sensors.getD s default = a.sensors.getD s default from
        getD_set_ne _ _ _ _ _ he]
  | prod x t p q v hx =>
    obtain ⟨f1, f2⟩ := foldl_outSense_notin (a.finS x) a (hn x) t q v
    refine ⟨?_, f2, fun y => by rw [prod_finS]; exact hn y⟩
    rw [show (a.prod x t p q v).sensors.getD s default = a.sensors.getD s default from f1]

theorem CRun.quiet {a b : TK} (h : CRun a b) {s : Nat} (hn : ∀ x, (a.finS x).count s = 0) :
    sensData (b.sensors.getD s default) = sensData (a.sensors.getD s default) ∧
    senseLog b.resT s = senseLog a.resT s := by
  have : sensData (b.sensors.getD s default) = sensData (a.sensors.getD s default) ∧
      senseLog b.resT s = senseLog a.resT s ∧ (∀ x, (b.finS x).count s = 0) := by
    induction h with
    | refl => exact ⟨rfl, rfl, hn⟩
    | tail _ hs ih =>
      obtain ⟨h1, h2, h3⟩ := CStep.quiet hs ih.2.2
      exact ⟨h1.trans ih.1, h2.trans ih.2.1, h3⟩
  exact ⟨this.1, this.2.1⟩

/-! ### one step of the event loop, by the kind of the event -/

/-- What `World.step` does to queue and key. -/
inductive StepKind (w w' : World) (ev : Event) : Prop where
  /-- the transition event of scheduler `s` (it is live): `_update_state(True)` -/
  | sched (s : Nat) (es : List Event) : w.env.events = ev :: es → suEv s ev = true →
      s < w.scheds.length → ev.cancelled = false →
      ASched (popEnv w.env ev es) (tk w) s true w'.env (tk w') → StepKind w w' ev
  /-- the event of periodic sensor `s` (it is live): `_periodic_sense()` -/
  | sense (s : Nat) (es : List Event) : w.env.events = ev :: es → psEv s ev = true →
      s < w.sensors.length → (w.sensors.getD s default).s.kind = .periodic → ev.cancelled = false →
      APSense (popEnv w.env ev es) (tk w) s
        ((w.sensors.getD s default).vars.map (fun k => w.svars.getD k 0)) w'.env (tk w') →
      StepKind w w' ev
  /-- any other event: the tracked events stay as they are, the key moves by abstract steps -/
  | other (es : List Event) : w.env.events = ev :: es → tracked ev = false →
      w'.env.events.filter tracked = es.filter tracked →
      w'.env.paused.filter tracked = w.env.paused.filter tracked →
      CRun (tk w) (tk w') → StepKind w w' ev

theorem step_kinds {S0 : SStat} {P : Par} {w w' : World} {ev : Event} (h : WI S0 P w)
    (hst : w.step = some (ev, w')) : StepKind w w' ev := by
  obtain ⟨es, he, rfl⟩ := step_cases hst
  by_cases ht : tracked ev = true
  · have hown := h.gi.owner (x := ev) (by rw [he]; simp) ht
    rcases hown with ⟨s, hs, h2, h3, _, _⟩ | ⟨s, hs, h2, h3, _, hk, _⟩
    · obtain ⟨_, hcan, _⟩ := ((h.gi.sched s).1 ⟨h2, h3⟩).pop he hs false
      have hlive : ev.live = true := by simp [Event.live, hcan]
      have hact : ev.act = 9 + 16 * s := by simpa [suEv] using hs
      rw [if_pos hlive, hact, ofNat_su]
      exact .sched s es he hs h2 hcan
        (schedUpdate_refines ({ w with env := popEnv w.env ev es } : World) s true (h.gi.sok.dur_at s))
    · have hnow : w.env.now ≤ ev.time := h.inv.future ev (by rw [he]; exact List.mem_cons_self)
      obtain ⟨_, hcan, _⟩ := (((h.gi.sens s).1 ⟨h2, h3⟩).1 hk).pop he hs hnow false
      have hlive : ev.live = true := by simp [Event.live, hcan]
      have hact : ev.act = 10 + 16 * s := by simpa [psEv] using hs
      rw [if_pos hlive, hact, ofNat_ps]
      exact .sense s es he hs h2 hk hcan
        (periodicSense_refines ({ w with env := popEnv w.env ev es } : World) s (h.gi.sok.ivl_at s hk))
  · have ht' : tracked ev = false := by simpa using ht
    have h1 : WI S0 P ({ w with env := popEnv w.env ev es } : World) :=
      ⟨h.gi.pop_untracked h.inv he ht', C01.inv_step h.inv (Env.step_some.mpr ⟨es, he, rfl⟩), h.ss⟩
    split
    · obtain ⟨hE, hC⟩ := (Fr_exec ({ w with env := popEnv w.env ev es } : World) _
        (isTrackedAct_ofNat ht')) h1.gi.stat
      obtain ⟨f1, f2, _⟩ := hE.filters h1.gi.qi
      exact .other es he ht' f1 f2 hC
    · exact .other es he ht' rfl rfl (CRun.refl _)

end C19W
end SimProc
