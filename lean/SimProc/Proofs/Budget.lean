/-
A source never supplies more parts than its budget.
-/
import SimProc.Proofs.FloorSt
namespace SimProc
namespace C02V
open World

def BudgetW (w : World) : Prop :=
  ∀ d ∈ w.devs, d.kind = .source → ∀ m, d.maxParts = some m → d.produced ≤ m

def BudgetT (t : ST) : Prop :=
  ∀ d ∈ t.devs, d.kind = .source → ∀ m, d.maxParts = some m → d.produced ≤ m

theorem budget_iff (w : World) : BudgetW w ↔ BudgetT (st w) := by
  unfold BudgetW BudgetT st
  simp only [List.mem_map]
  constructor
  · rintro h _ ⟨d, hd, rfl⟩; exact h d hd
  · intro h d hd; exact h (tdev d) ⟨d, hd, rfl⟩

theorem BudgetW.of_st {w w' : World} (h : BudgetW w) (e : st w' = st w) : BudgetW w' := by
  rw [budget_iff] at *; rw [e]; exact h

theorem budget_setDev (w : World) (x : Nat) (d : Dev) (h : BudgetW w)
    (hd : d.kind = .source → ∀ m, d.maxParts = some m → d.produced ≤ m) : BudgetW (w.setDev x d) := by
  intro d' hd'
  rcases List.mem_or_eq_of_mem_set hd' with h' | h'
  · exact h d' h'
  · subst h'; exact hd

theorem st_passPart_nonsource (w : World) (x : Nat) (hk : (w.dev x).kind ≠ .source) :
    st (w.passPart x) = st w := by
  unfold World.passPart
  simp only []
  split
  · rename_i h; exact absurd h hk
  all_goals frame

theorem tdev_of_st' {w w' : World} (h : st w' = st w) (x : Nat) : tdev (w'.dev x) = tdev (w.dev x) := by
  have h1 : ∀ w : World, tdev (w.dev x) = (st w).devs.getD x (tdev default) := by
    intro w
    simp only [st, World.dev, List.getD_eq_getElem?_getD, List.getElem?_map]
    cases w.devs[x]? <;> rfl
  rw [h1, h1, h]

theorem budget_incr (w : World) (x : Nat) (h : BudgetW w) (p : Nat)
    (hg : ∀ m, (w.dev x).maxParts = some m → (w.dev x).produced + 1 ≤ m) :
    BudgetW (match (w.dev x).output with
      | none => w
      | some p =>
        let v := w.partValue p
        let w1 := w.passHandler x
        if (w1.dev x).output.isNone then
          let w2 := w1.modDev x (fun d => { d with
            produced := d.produced + 1
            val := d.val.addCost lblSupplied w1.now v
            costProduced := d.costProduced + v })
          let w3 := w2.addRec (.supplied x w2.now p)
          w3.scheduleFinish x
        else w1) := by
  split
  · exact h
  · have h1 : BudgetW (w.passHandler x) := h.of_st (st_passHandler w x)
    simp only []
    split
    · refine BudgetW.of_st (w := (w.passHandler x).modDev x _) ?_ (by rw [st_scheduleFinish, st_addRec])
      apply budget_setDev _ _ _ h1
      intro _ m hm
      have ht := tdev_of_st' (st_passHandler w x) x
      have e1 : ((w.passHandler x).dev x).maxParts = (w.dev x).maxParts := congrArg TDev.maxParts ht
      have e2 : ((w.passHandler x).dev x).produced = (w.dev x).produced := congrArg TDev.produced ht
      simp only [] at hm ⊢
      rw [e1] at hm; rw [e2]
      exact hg m hm
    · exact h1

theorem budget_passPart (w : World) (x : Nat) (h : BudgetW w) : BudgetW (w.passPart x) := by
  by_cases hk : (w.dev x).kind = .source
  · unfold World.passPart
    simp only [hk]
    cases hmp : (w.dev x).maxParts with
    | none =>
      simp only [Option.map_none, Bool.false_eq_true, if_false]
      exact budget_incr w x h 0 (by intro m hm; rw [hmp] at hm; cases hm)
    | some m =>
      simp only [Option.map_some]
      by_cases hr : (if m - (w.dev x).produced < 0 then (0 : Int) else m - (w.dev x).produced) < 1
      · simp only [hr, decide_true, if_true]; exact h
      · simp only [hr, decide_false, Bool.false_eq_true, if_false]
        refine budget_incr w x h 0 ?_
        intro m' hm'; rw [hmp] at hm'; cases hm'
        split at hr <;> omega
  · exact h.of_st (st_passPart_nonsource w x hk)

theorem budget_adjust (w : World) (x : Nat) (v : Int) (h : BudgetW w) : BudgetW (w.adjustParts x v) := by
  unfold World.adjustParts
  simp only []
  split
  · exact h
  · rename_i m hm
    have h1 : BudgetW (w.setDev x { w.dev x with
        maxParts := some (if m + v < (w.dev x).produced then (w.dev x).produced else m + v) }) := by
      apply budget_setDev _ _ _ h
      intro _ m' hm'
      simp only [Option.some.injEq] at hm'
      subst hm'
      simp only []
      split <;> omega
    split
    · exact h1.of_st (st_schedulePass ..)
    · exact h1

end C02V
end SimProc
