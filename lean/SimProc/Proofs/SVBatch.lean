/-
Abstract (slot-view) lemmas for C02, part 2: the batcher's moves, hand-over (transfer), loss.
-/
import SimProc.Proofs.SV
namespace SimProc
namespace C02V

namespace SVBatchAux

/-- leaves with explicit kids table -/
def lvs (K : List (Option (List Nat))) (p : Nat) : List Nat :=
  match K.getD p none with
  | some l => l
  | none => [p]

theorem leaves_eq (a : SV) : a.leaves = lvs a.kids := rfl

theorem lvs_congr {K K' : List (Option (List Nat))} {q : Nat} (h : K'[q]? = K[q]?) :
    lvs K' q = lvs K q := by
  simp [lvs, List.getD_eq_getElem?_getD, h]

theorem lvs_batch {K : List (Option (List Nat))} {q : Nat} {l} (h : K[q]? = some (some l)) :
    lvs K q = l := by
  simp [lvs, List.getD_eq_getElem?_getD, h]

theorem lvs_leaf {K : List (Option (List Nat))} {q : Nat} (h : K[q]? = some none) :
    lvs K q = [q] := by
  simp [lvs, List.getD_eq_getElem?_getD, h]

/-- contribution of a device to `inside` -/
def con (K : List (Option (List Nat))) (d : SDev) : List Nat :=
  if d.kind = .sink then [] else d.held.flatMap (lvs K)

theorem inside_eq (a : SV) : a.inside = a.devs.flatMap (con a.kids) := by
  unfold SV.inside
  rw [leaves_eq]
  induction a.devs with
  | nil => rfl
  | cons d l ih =>
    by_cases hd : d.kind = .sink <;> simp [con, hd] <;> simpa [con] using ih

theorem split_at {α} {l : List α} {z : Nat} {d : α} (h : l[z]? = some d) :
    ∃ l1 l2, l = l1 ++ d :: l2 ∧ l1.length = z := by
  induction l generalizing z with
  | nil => simp at h
  | cons x l ih =>
    cases z with
    | zero => simp at h; exact ⟨[], l, by simp [h], rfl⟩
    | succ z =>
      simp at h
      obtain ⟨l1, l2, h1, h2⟩ := ih h
      exact ⟨x :: l1, l2, by simp [h1], by simp [h2]⟩

theorem set_split {α} (l1 l2 : List α) (d d' : α) :
    (l1 ++ d :: l2).set l1.length d' = l1 ++ d' :: l2 := by
  induction l1 with
  | nil => rfl
  | cons x l ih => simp

theorem nodup_flatMap_inj {α β} {f : α → List β} {L : List α} (h : (L.flatMap f).Nodup)
    {a b : α} (ha : a ∈ L) (hb : b ∈ L) {x : β} (hxa : x ∈ f a) (hxb : x ∈ f b) : a = b := by
  induction L with
  | nil => simp at ha
  | cons c L ih =>
    simp only [List.flatMap_cons, List.nodup_append, List.mem_flatMap] at h
    obtain ⟨h1, h2, h3⟩ := h
    simp only [List.mem_cons] at ha hb
    rcases ha with rfl | ha <;> rcases hb with rfl | hb
    · rfl
    · exact absurd rfl (h3 x hxa x ⟨_, hb, hxb⟩)
    · exact absurd rfl (h3 x hxb x ⟨_, ha, hxa⟩)
    · exact ih h2 ha hb

theorem nodup_flatMap_mem {α β} {f : α → List β} {L : List α} (h : (L.flatMap f).Nodup)
    {a : α} (ha : a ∈ L) : (f a).Nodup := by
  induction L with
  | nil => simp at ha
  | cons c L ih =>
    simp only [List.flatMap_cons, List.nodup_append] at h
    simp only [List.mem_cons] at ha
    rcases ha with rfl | ha
    · exact h.1
    · exact ih h.2.1 ha

theorem mass_nodup {a : SV} (h : ConsV a) : a.mass.Nodup := (h.perm.nodup_iff).2 h.nodup

theorem perm_swap {A B X X' D D' L L' G : List Nat}
    (h1 : (X' ++ (D' ++ L')).Perm (X ++ (D ++ L))) (h2 : (A ++ (X ++ B) ++ D ++ L).Perm G) :
    (A ++ (X' ++ B) ++ D' ++ L').Perm G := by
  refine List.Perm.trans ?_ h2
  rw [List.perm_iff_count] at h1 ⊢
  intro x
  have := h1 x
  simp only [List.count_append] at this ⊢
  omega

theorem flatMap_lvs_congr {K K' : List (Option (List Nat))} {H : List Nat}
    (h : ∀ q ∈ H, K'[q]? = K[q]?) : H.flatMap (lvs K') = H.flatMap (lvs K) := by
  induction H with
  | nil => rfl
  | cons x H ih =>
    simp [lvs_congr (h x (by simp)), ih (fun q hq => h q (by simp [hq]))]

theorem flatMap_con_congr {K K' : List (Option (List Nat))} {L : List SDev}
    (h : ∀ e ∈ L, ∀ q ∈ e.held, K'[q]? = K[q]?) : L.flatMap (con K') = L.flatMap (con K) := by
  induction L with
  | nil => rfl
  | cons e L ih =>
    have h1 : con K' e = con K e := by
      unfold con
      split
      · rfl
      · exact flatMap_lvs_congr (h e (by simp))
    simp [h1, ih (fun e he => h e (by simp [he]))]

/-- General single-device update. -/
theorem gsd {a : SV} (h : Inv a) {z : Nat} {d d' : SDev} {K' : List (Option (List Nat))}
    {del' lost' : List Nat}
    (hz : a.devs[z]? = some d) (hkind : d'.kind = d.kind)
    (hlen : K'.length = a.kids.length)
    (hsame : ∀ q : Nat, q ∉ d.held → K'[q]? = a.kids[q]?)
    (hleaf : ∀ q : Nat, a.kids[q]? = some none → K'[q]? = some none)
    (hbatch : ∀ (q : Nat) l, a.kids[q]? = some (some l) → ∃ l', K'[q]? = some (some l'))
    (hkl : ∀ (p : Nat) (l : List Nat), K'[p]? = some (some l) → ∀ k ∈ l, K'[k]? = some none)
    (hperm : (con K' d' ++ (del' ++ lost')).Perm (con a.kids d ++ (a.del ++ a.lost)))
    (hnd : d'.held.Nodup)
    (hnew : ∀ q ∈ d'.held, q ∉ d.held → ∀ e ∈ a.devs, q ∉ e.held)
    (hvalid : ∀ q ∈ d'.held, q < a.kids.length)
    (hinp : ∀ b, d'.inprog = some b → ∃ l, K'[b]? = some (some l))
    (hdel : ∀ x ∈ a.del, x ∈ del')
    (hsink : d.kind = .sink → ∀ q ∈ d'.held, ∀ l ∈ lvs K' q, l ∈ del') :
    Inv { devs := a.devs.set z d', kids := K', gen := a.gen, del := del', lost := lost' } := by
  obtain ⟨devs, kids, gen, del, lost⟩ := a
  obtain ⟨hc, hx⟩ := h
  obtain ⟨l1, l2, hsplit, rfl⟩ := split_at hz
  simp only at hsplit hlen hsame hleaf hbatch hperm hnew hvalid hdel
  subst hsplit
  have htop := hc.topNodup
  simp only [List.flatMap_append, List.flatMap_cons, List.nodup_append, List.mem_flatMap,
    List.mem_append] at htop
  have hdis1 : ∀ e ∈ l1, ∀ q ∈ e.held, q ∉ d.held := by grind
  have hdis2 : ∀ e ∈ l2, ∀ q ∈ e.held, q ∉ d.held := by grind
  rw [set_split]
  refine ⟨⟨?_, hc.nodup, ?_, ?_, hkl, ?_⟩, ⟨?_, ?_⟩⟩
  · -- perm
    have hp := hc.perm
    simp only [SV.mass, inside_eq, List.flatMap_append, List.flatMap_cons] at hp ⊢
    rw [flatMap_con_congr (K := kids) (K' := K') (fun e he q hq => hsame q (hdis1 e he q hq)),
      flatMap_con_congr (K := kids) (K' := K') (fun e he q hq => hsame q (hdis2 e he q hq))]
    exact perm_swap hperm hp
  · -- topNodup
    simp only [List.flatMap_append, List.flatMap_cons, List.nodup_append, List.mem_flatMap,
      List.mem_append]
    have hn1 : ∀ e ∈ l1, ∀ q ∈ e.held, q ∉ d'.held := by
      intro e he q hq hq'
      by_cases hqd : q ∈ d.held
      · exact hdis1 e he q hq hqd
      · exact hnew q hq' hqd e (by simp [he]) hq
    have hn2 : ∀ e ∈ l2, ∀ q ∈ e.held, q ∉ d'.held := by
      intro e he q hq hq'
      by_cases hqd : q ∈ d.held
      · exact hdis2 e he q hq hqd
      · exact hnew q hq' hqd e (by simp [he]) hq
    grind
  · -- heldValid
    intro e he q hq
    simp only [List.mem_append, List.mem_cons] at he
    have hv := hc.heldValid
    simp only [List.mem_append, List.mem_cons] at hv
    rw [hlen]
    rcases he with he | rfl | he
    · exact hv e (Or.inl he) q hq
    · exact hvalid q hq
    · exact hv e (Or.inr (Or.inr he)) q hq
  · -- genValid
    intro p hp
    exact hleaf p (hc.genValid p hp)
  · -- inprogBatch
    intro e he b hb
    simp only [List.mem_append, List.mem_cons] at he
    have hv := hx.inprogBatch
    simp only [List.mem_append, List.mem_cons] at hv
    rcases he with he | rfl | he
    · obtain ⟨l, hl⟩ := hv e (Or.inl he) b hb
      exact hbatch b l hl
    · exact hinp b hb
    · obtain ⟨l, hl⟩ := hv e (Or.inr (Or.inr he)) b hb
      exact hbatch b l hl
  · -- sinkDel
    intro e he hek q hq x hxq
    simp only [List.mem_append, List.mem_cons] at he
    have hv := hx.sinkDel
    simp only [List.mem_append, List.mem_cons, leaves_eq] at hv
    rw [leaves_eq] at hxq
    simp only at hxq ⊢
    rcases he with he | rfl | he
    · rw [lvs_congr (hsame q (hdis1 e he q hq))] at hxq
      exact hdel x (hv e (Or.inl he) hek q hq x hxq)
    · exact hsink (hkind ▸ hek) q hq x hxq
    · rw [lvs_congr (hsame q (hdis2 e he q hq))] at hxq
      exact hdel x (hv e (Or.inr (Or.inr he)) hek q hq x hxq)

theorem held_nodup {a : SV} (h : ConsV a) {d : SDev} (hd : d ∈ a.devs) : d.held.Nodup :=
  nodup_flatMap_mem h.topNodup hd

theorem nodup_flatMap_idx {α β} {f : α → List β} {L : List α} (h : (L.flatMap f).Nodup)
    {i j : Nat} {a b : α} (ha : L[i]? = some a) (hb : L[j]? = some b) {x : β}
    (hxa : x ∈ f a) (hxb : x ∈ f b) : i = j := by
  induction L generalizing i j with
  | nil => simp at ha
  | cons c L ih =>
    simp only [List.flatMap_cons, List.nodup_append, List.mem_flatMap] at h
    obtain ⟨h1, h2, h3⟩ := h
    cases i <;> cases j
    · rfl
    · simp at ha hb; subst ha
      exact absurd rfl (h3 x hxa x ⟨_, List.mem_of_getElem? hb, hxb⟩)
    · simp at ha hb; subst hb
      exact absurd rfl (h3 x hxb x ⟨_, List.mem_of_getElem? ha, hxa⟩)
    · simp at ha hb
      rw [ih h2 ha hb]

theorem held_unique {a : SV} (h : ConsV a) {x z : Nat} {dx dz : SDev} (hx : a.devs[x]? = some dx)
    (hz : a.devs[z]? = some dz) {q : Nat} (h1 : q ∈ dx.held) (h2 : q ∈ dz.held) : x = z :=
  nodup_flatMap_idx h.topNodup hx hz h1 h2

def KL (K : List (Option (List Nat))) : Prop :=
  ∀ (p : Nat) (l : List Nat), K[p]? = some (some l) → ∀ k ∈ l, K[k]? = some none

theorem kl_set {K : List (Option (List Nat))} (h : KL K) {p : Nat} {l0 l' : List Nat}
    (h0 : K[p]? = some (some l0)) (hl : ∀ k ∈ l', K[k]? = some none) :
    KL (K.set p (some l')) := by
  intro q l hq k hk
  have hlt : p < K.length := by
    rcases Nat.lt_or_ge p K.length with h | h
    · exact h
    · rw [List.getElem?_eq_none h] at h0; simp at h0
  have key : ∀ k : Nat, K[k]? = some none → (K.set p (some l'))[k]? = some none := by
    intro k hk
    rw [List.getElem?_set_ne]; exact hk
    rintro rfl; rw [h0] at hk; simp at hk
  by_cases hqp : p = q
  · subst hqp
    rw [List.getElem?_set_self hlt] at hq
    simp only [Option.some.injEq] at hq; subst hq
    exact key k (hl k hk)
  · rw [List.getElem?_set_ne hqp] at hq
    exact key k (h q l hq k hk)

structure KUpd (H : List Nat) (K K' : List (Option (List Nat))) : Prop where
  len : K'.length = K.length
  same : ∀ q : Nat, q ∉ H → K'[q]? = K[q]?
  leaf : ∀ q : Nat, K[q]? = some none → K'[q]? = some none
  batch : ∀ (q : Nat) (l : List Nat), K[q]? = some (some l) → ∃ l', K'[q]? = some (some l')

theorem KUpd.trans {H : List Nat} {K K' K'' : List (Option (List Nat))} (h1 : KUpd H K K')
    (h2 : KUpd H K' K'') : KUpd H K K'' where
  len := h2.len.trans h1.len
  same q hq := (h2.same q hq).trans (h1.same q hq)
  leaf q hq := h2.leaf q (h1.leaf q hq)
  batch q l hq := by
    obtain ⟨l', hl'⟩ := h1.batch q l hq
    exact h2.batch q l' hl'

theorem kupd_set {H : List Nat} {K : List (Option (List Nat))} {p : Nat} {l0 l' : List Nat}
    (hp : p ∈ H) (h0 : K[p]? = some (some l0)) : KUpd H K (K.set p (some l')) := by
  have hlt : p < K.length := by
    rcases Nat.lt_or_ge p K.length with h | h
    · exact h
    · rw [List.getElem?_eq_none h] at h0; simp at h0
  refine ⟨List.length_set, ?_, ?_, ?_⟩
  · intro q hq
    rw [List.getElem?_set_ne]; rintro rfl; exact hq hp
  · intro q hq
    rw [List.getElem?_set_ne]; exact hq
    rintro rfl; rw [h0] at hq; simp at hq
  · intro q l hq
    by_cases hqp : p = q
    · subst hqp; exact ⟨l', List.getElem?_set_self hlt⟩
    · exact ⟨l, by rw [List.getElem?_set_ne hqp]; exact hq⟩

theorem kid_not_held {a : SV} (h : Inv a) {d : SDev} (hd : d ∈ a.devs) (hs : d.kind ≠ .sink)
    {p k : Nat} {l : List Nat} (hp : p ∈ d.held) (hk : a.kids[p]? = some (some l)) (hkl : k ∈ l) :
    ∀ e ∈ a.devs, k ∉ e.held := by
  intro e he hke
  have hnd := mass_nodup h.1
  simp only [SV.mass, inside_eq, List.nodup_append, List.mem_append, List.mem_flatMap] at hnd
  obtain ⟨⟨hin, -, hdis⟩, -, -⟩ := hnd
  have hkleaf : a.kids[k]? = some none := h.1.kidsLeaf p l hk k hkl
  have hlk : lvs a.kids k = [k] := lvs_leaf hkleaf
  have hlp : lvs a.kids p = l := lvs_batch hk
  have hkd : k ∈ con a.kids d := by
    simp only [con, hs, if_false, List.mem_flatMap]
    exact ⟨p, hp, hlp ▸ hkl⟩
  by_cases hes : e.kind = .sink
  · have : k ∈ a.del := h.2.sinkDel e he hes k hke k (by rw [leaves_eq, hlk]; simp)
    exact hdis k ⟨d, hd, hkd⟩ k this rfl
  · have hke' : k ∈ con a.kids e := by
      simp only [con, hes, if_false, List.mem_flatMap]
      exact ⟨k, hke, by simp [hlk]⟩
    have hde : d = e := nodup_flatMap_inj hin hd he hkd hke'
    subst hde
    have hcn := nodup_flatMap_mem hin hd
    simp only [con, hs, if_false] at hcn
    have : p = k := nodup_flatMap_inj hcn hp hke (hlp ▸ hkl) (by simp [hlk])
    subst this
    rw [hk] at hkleaf; simp at hkleaf

theorem gsd' {a : SV} (h : Inv a) {z : Nat} {d d' : SDev} {K' : List (Option (List Nat))}
    (hz : a.devs[z]? = some d) (hs : d.kind ≠ .sink) (hkind : d'.kind = d.kind)
    (hupd : KUpd d.held a.kids K') (hkl : KL K')
    (hperm : (d'.held.flatMap (lvs K')).Perm (d.held.flatMap (lvs a.kids)))
    (hnd : d'.held.Nodup)
    (hnew : ∀ q ∈ d'.held, q ∉ d.held → ∀ e ∈ a.devs, q ∉ e.held)
    (hvalid : ∀ q ∈ d'.held, q < a.kids.length)
    (hinp : ∀ b, d'.inprog = some b → ∃ l, K'[b]? = some (some l)) :
    Inv { devs := a.devs.set z d', kids := K', gen := a.gen, del := a.del, lost := a.lost } := by
  refine gsd h hz hkind hupd.len hupd.same hupd.leaf hupd.batch hkl ?_ hnd hnew hvalid hinp
    (fun _ h => h) (fun hk => absurd hk hs)
  have hs' : d'.kind ≠ .sink := hkind ▸ hs
  simp only [con, hs, hs', if_false]
  exact List.Perm.append_right _ hperm

theorem optP_flat {rest : List Nat} {p : Nat} {f : Nat → List Nat} (h : f p = rest) :
    (if rest.isEmpty then none else some p : Option Nat).toList.flatMap f = rest := by
  cases rest <;> simp [h]

theorem optP_nodup {rest : List Nat} {p : Nat} {X : List Nat} (h : (p :: X).Nodup) :
    ((if rest.isEmpty then none else some p : Option Nat).toList ++ X).Nodup := by
  split
  · simpa using (List.nodup_cons.1 h).2
  · simpa using h

theorem optP_mem {rest : List Nat} {p q : Nat}
    (h : q ∈ (if rest.isEmpty then none else some p : Option Nat).toList) : q = p := by
  split at h <;> simp at h; exact h

theorem kids_lt {K : List (Option (List Nat))} {p : Nat} {x} (h : K[p]? = some x) : p < K.length := by
  rcases Nat.lt_or_ge p K.length with h' | h'
  · exact h'
  · rw [List.getElem?_eq_none h'] at h; simp at h

theorem addKid_eq {K : List (Option (List Nat))} {b t : Nat} {lb : List Nat}
    (h : K[b]? = some (some lb)) : addKid K b t = K.set b (some (lb ++ [t])) := by
  simp [addKid, List.getD_eq_getElem?_getD, h]

end SVBatchAux
open SVBatchAux

theorem inv_kidOut {z : Nat} {a : SV} (h : Inv a) (d : SDev) (p k : Nat) (rest : List Nat)
    (hz : a.devs[z]? = some d) (hs : d.kind ≠ .sink) (hp : d.part = some p) (ho : d.output = none)
    (hk : a.kids[p]? = some (some (k :: rest))) :
    Inv { a with devs := a.devs.set z { d with part := (if rest.isEmpty then none else some p),
                                                output := some k },
                 kids := a.kids.set p (some rest) } := by
  have hmem : d ∈ a.devs := List.mem_of_getElem? hz
  have hnd := held_nodup h.1 hmem
  obtain ⟨R, hRdef⟩ : ∃ R, R = d.buf ++ d.inprog.toList := ⟨_, rfl⟩
  have hheld : d.held = p :: R := by simp [SDev.held, hp, ho, hRdef]
  have hheld' : ({ d with part := (if rest.isEmpty then none else some p), output := some k } : SDev).held
      = (if rest.isEmpty then none else some p : Option Nat).toList ++ k :: R := by
    simp [SDev.held, hRdef]
  have hpd : p ∈ d.held := by rw [hheld]; simp
  have hkn := kid_not_held h hmem hs hpd hk (List.mem_cons_self)
  have hkd : k ∉ d.held := hkn d hmem
  have hkleaf : a.kids[k]? = some none := h.1.kidsLeaf p _ hk k List.mem_cons_self
  have hupd : KUpd d.held a.kids (a.kids.set p (some rest)) := kupd_set hpd hk
  have hkl : KL (a.kids.set p (some rest)) :=
    kl_set h.1.kidsLeaf hk (fun k' hk' => h.1.kidsLeaf p _ hk k' (List.mem_cons_of_mem _ hk'))
  have hplt := kids_lt hk
  rw [hheld] at hnd
  have hpR : p ∉ R := (List.nodup_cons.1 hnd).1
  have hR : R.flatMap (lvs (a.kids.set p (some rest)))
      = R.flatMap (lvs a.kids) := by
    apply flatMap_lvs_congr
    intro q hq
    rw [List.getElem?_set_ne]; rintro rfl; exact hpR hq
  have hlp' : lvs (a.kids.set p (some rest)) p = rest := lvs_batch (List.getElem?_set_self hplt)
  have hlk' : lvs (a.kids.set p (some rest)) k = [k] := lvs_leaf (hupd.leaf k hkleaf)
  refine gsd' h hz hs rfl hupd hkl ?_ ?_ ?_ ?_ ?_
  · rw [hheld', hheld]
    simp only [List.flatMap_append, List.flatMap_cons, optP_flat hlp', hlk', lvs_batch hk]
    rw [hR]
    rw [List.perm_iff_count]; intro x; simp only [List.count_append, List.count_cons, List.count_nil]; omega
  · rw [hheld']
    rw [hheld] at hkd
    have : (p :: k :: R).Nodup := by
      refine List.nodup_cons.2 ⟨?_, List.nodup_cons.2 ⟨fun hc => hkd (List.mem_cons_of_mem _ hc), (List.nodup_cons.1 hnd).2⟩⟩
      intro hc
      rcases List.mem_cons.1 hc with rfl | hc
      · exact hkd (by simp)
      · exact hpR hc
    exact optP_nodup this
  · intro q hq hq'
    rw [hheld'] at hq
    rw [hheld] at hq'
    rcases List.mem_append.1 hq with hq | hq
    · exact absurd (optP_mem hq ▸ (by simp)) hq'
    · rcases List.mem_cons.1 hq with rfl | hq
      · exact hkn
      · exact absurd (List.mem_cons_of_mem _ hq) hq'
  · intro q hq
    rw [hheld'] at hq
    rcases List.mem_append.1 hq with hq | hq
    · rw [optP_mem hq]; exact hplt
    · rcases List.mem_cons.1 hq with rfl | hq
      · exact kids_lt hkleaf
      · exact h.1.heldValid d hmem q (by rw [hheld]; exact List.mem_cons_of_mem _ hq)
  · intro b hb
    obtain ⟨l, hl⟩ := h.2.inprogBatch d hmem b hb
    exact hupd.batch b l hl

theorem inv_kidIn {z : Nat} {a : SV} (h : Inv a) (d : SDev) (p k : Nat) (rest : List Nat) (b : Nat)
    (hz : a.devs[z]? = some d) (hs : d.kind ≠ .sink) (hp : d.part = some p) (hb : d.inprog = some b)
    (hk : a.kids[p]? = some (some (k :: rest))) :
    Inv { a with devs := a.devs.set z { d with part := (if rest.isEmpty then none else some p) },
                 kids := addKid (a.kids.set p (some rest)) b k } := by
  have hmem : d ∈ a.devs := List.mem_of_getElem? hz
  have hnd := held_nodup h.1 hmem
  obtain ⟨M, hMdef⟩ : ∃ M, M = d.output.toList ++ d.buf := ⟨_, rfl⟩
  have hheld : d.held = p :: (M ++ [b]) := by simp [SDev.held, hp, hb, hMdef]
  have hheld' : ({ d with part := (if rest.isEmpty then none else some p) } : SDev).held
      = (if rest.isEmpty then none else some p : Option Nat).toList ++ (M ++ [b]) := by
    simp [SDev.held, hMdef, hb]
  have hpd : p ∈ d.held := by rw [hheld]; simp
  have hbd : b ∈ d.held := by rw [hheld]; simp
  rw [hheld] at hnd
  have hpR : p ∉ M ++ [b] := (List.nodup_cons.1 hnd).1
  have hbp : p ≠ b := by rintro rfl; exact hpR (by simp)
  have hpM : p ∉ M := fun hc => hpR (by simp [hc])
  have hbM : b ∉ M := by
    have := (List.nodup_cons.1 hnd).2
    rw [List.nodup_append] at this
    intro hc; exact this.2.2 b hc b (by simp) rfl
  obtain ⟨lb, hlb⟩ := h.2.inprogBatch d hmem b hb
  have hkleaf : a.kids[k]? = some none := h.1.kidsLeaf p _ hk k List.mem_cons_self
  have hplt := kids_lt hk
  have hblt := kids_lt hlb
  have hlb1 : (a.kids.set p (some rest))[b]? = some (some lb) := by
    rw [List.getElem?_set_ne hbp]; exact hlb
  rw [addKid_eq hlb1]
  have hupd1 : KUpd d.held a.kids (a.kids.set p (some rest)) := kupd_set hpd hk
  have hupd : KUpd d.held a.kids ((a.kids.set p (some rest)).set b (some (lb ++ [k]))) :=
    hupd1.trans (kupd_set hbd hlb1)
  have hkl1 : KL (a.kids.set p (some rest)) :=
    kl_set h.1.kidsLeaf hk (fun k' hk' => h.1.kidsLeaf p _ hk k' (List.mem_cons_of_mem _ hk'))
  have hkl : KL ((a.kids.set p (some rest)).set b (some (lb ++ [k]))) := by
    refine kl_set hkl1 hlb1 ?_
    intro k' hk'
    rcases List.mem_append.1 hk' with hk' | hk'
    · exact hupd1.leaf k' (h.1.kidsLeaf b lb hlb k' hk')
    · simp only [List.mem_singleton] at hk'; subst hk'
      exact hupd1.leaf _ hkleaf
  have hM : M.flatMap (lvs ((a.kids.set p (some rest)).set b (some (lb ++ [k]))))
      = M.flatMap (lvs a.kids) := by
    apply flatMap_lvs_congr
    intro q hq
    rw [List.getElem?_set_ne (by rintro rfl; exact hbM hq),
      List.getElem?_set_ne (by rintro rfl; exact hpM hq)]
  have hlp' : lvs ((a.kids.set p (some rest)).set b (some (lb ++ [k]))) p = rest := by
    apply lvs_batch
    rw [List.getElem?_set_ne (Ne.symm hbp)]
    exact List.getElem?_set_self hplt
  have hlb' : lvs ((a.kids.set p (some rest)).set b (some (lb ++ [k]))) b = lb ++ [k] := by
    apply lvs_batch
    exact List.getElem?_set_self (by rw [List.length_set]; exact hblt)
  refine gsd' h hz hs rfl hupd hkl ?_ ?_ ?_ ?_ ?_
  · rw [hheld', hheld]
    simp only [List.flatMap_append, List.flatMap_cons, List.flatMap_nil, optP_flat hlp', hlb',
      lvs_batch hk, lvs_batch hlb, hM]
    rw [List.perm_iff_count]; intro x
    simp only [List.count_append, List.count_cons, List.count_nil]; omega
  · rw [hheld']; exact optP_nodup hnd
  · intro q hq hq'
    rw [hheld'] at hq
    rw [hheld] at hq'
    rcases List.mem_append.1 hq with hq | hq
    · exact absurd (optP_mem hq ▸ (by simp)) hq'
    · exact absurd (List.mem_cons_of_mem _ hq) hq'
  · intro q hq
    rw [hheld'] at hq
    rcases List.mem_append.1 hq with hq | hq
    · rw [optP_mem hq]; exact hplt
    · exact h.1.heldValid d hmem q (by rw [hheld]; exact List.mem_cons_of_mem _ hq)
  · intro b' hb'
    obtain ⟨l, hl⟩ := h.2.inprogBatch d hmem b' hb'
    exact hupd.batch b' l hl

theorem inv_leafIn {z : Nat} {a : SV} (h : Inv a) (d : SDev) (p b : Nat)
    (hz : a.devs[z]? = some d) (hs : d.kind ≠ .sink) (hp : d.part = some p) (hb : d.inprog = some b)
    (hk : a.kids.getD p none = none) :
    Inv { a with devs := a.devs.set z { d with part := none },
                 kids := addKid a.kids b p } := by
  have hmem : d ∈ a.devs := List.mem_of_getElem? hz
  have hnd := held_nodup h.1 hmem
  obtain ⟨M, hMdef⟩ : ∃ M, M = d.output.toList ++ d.buf := ⟨_, rfl⟩
  have hheld : d.held = p :: (M ++ [b]) := by simp [SDev.held, hp, hb, hMdef]
  have hheld' : ({ d with part := none } : SDev).held = M ++ [b] := by
    simp [SDev.held, hMdef, hb]
  have hpd : p ∈ d.held := by rw [hheld]; simp
  have hbd : b ∈ d.held := by rw [hheld]; simp
  have hplt : p < a.kids.length := h.1.heldValid d hmem p hpd
  have hpleaf : a.kids[p]? = some none := by
    rw [List.getD_eq_getElem?_getD, List.getElem?_eq_getElem hplt] at hk
    rw [List.getElem?_eq_getElem hplt]
    simpa using hk
  rw [hheld] at hnd
  have hpR : p ∉ M ++ [b] := (List.nodup_cons.1 hnd).1
  have hbM : b ∉ M := by
    have := (List.nodup_cons.1 hnd).2
    rw [List.nodup_append] at this
    intro hc; exact this.2.2 b hc b (by simp) rfl
  obtain ⟨lb, hlb⟩ := h.2.inprogBatch d hmem b hb
  have hblt := kids_lt hlb
  rw [addKid_eq hlb]
  have hupd : KUpd d.held a.kids (a.kids.set b (some (lb ++ [p]))) := kupd_set hbd hlb
  have hkl : KL (a.kids.set b (some (lb ++ [p]))) := by
    refine kl_set h.1.kidsLeaf hlb ?_
    intro k' hk'
    rcases List.mem_append.1 hk' with hk' | hk'
    · exact h.1.kidsLeaf b lb hlb k' hk'
    · simp only [List.mem_singleton] at hk'; subst hk'
      exact hpleaf
  have hM : M.flatMap (lvs (a.kids.set b (some (lb ++ [p])))) = M.flatMap (lvs a.kids) := by
    apply flatMap_lvs_congr
    intro q hq
    rw [List.getElem?_set_ne (by rintro rfl; exact hbM hq)]
  have hlb' : lvs (a.kids.set b (some (lb ++ [p]))) b = lb ++ [p] :=
    lvs_batch (List.getElem?_set_self hblt)
  refine gsd' h hz hs rfl hupd hkl ?_ ?_ ?_ ?_ ?_
  · rw [hheld', hheld]
    simp only [List.flatMap_append, List.flatMap_cons, List.flatMap_nil, hlb',
      lvs_leaf hpleaf, lvs_batch hlb, hM]
    rw [List.perm_iff_count]; intro x
    simp only [List.count_append, List.count_cons, List.count_nil]; omega
  · rw [hheld']; exact (List.nodup_cons.1 hnd).2
  · intro q hq hq'
    rw [hheld'] at hq
    rw [hheld] at hq'
    exact absurd (List.mem_cons_of_mem _ hq) hq'
  · intro q hq
    rw [hheld'] at hq
    exact h.1.heldValid d hmem q (by rw [hheld]; exact List.mem_cons_of_mem _ hq)
  · intro b' hb'
    obtain ⟨l, hl⟩ := h.2.inprogBatch d hmem b' hb'
    exact hupd.batch b' l hl

/-- Hand-over: the giver `x` (not a sink) gives up `p` (its slots become `s`), the receiver `z`
takes it into its empty input slot. -/
theorem inv_transfer {a : SV} (h : Inv a) {x z p : Nat} {dx dz s : SDev}
    (hx : a.devs[x]? = some dx) (hz : a.devs[z]? = some dz) (hne : x ≠ z)
    (hzp : dz.part = none) (hxs : dx.kind ≠ .sink) (hsk : s.kind = dx.kind)
    (hp : dx.held.Perm (p :: s.held)) (hi : ∀ b, s.inprog = some b → dx.inprog = some b) :
    Inv (mask (accept a z p dz) x s) := by
  have hmx : dx ∈ a.devs := List.mem_of_getElem? hx
  have hmz : dz ∈ a.devs := List.mem_of_getElem? hz
  have hndx := held_nodup h.1 hmx
  have hnds : (p :: s.held).Nodup := hp.nodup_iff.1 hndx
  have hpx : p ∈ dx.held := hp.symm.subset (by simp)
  have hsub : ∀ q ∈ s.held, q ∈ dx.held := fun q hq => hp.symm.subset (by simp [hq])
  -- step 1: the giver loses `p`
  have h1 : Inv { devs := a.devs.set x s, kids := a.kids, gen := a.gen, del := a.del,
                  lost := a.lost ++ a.leaves p } := by
    refine gsd h hx hsk rfl (fun _ _ => rfl) (fun _ h => h) (fun _ l h => ⟨l, h⟩) h.1.kidsLeaf ?_ ?_
      ?_ ?_ ?_ (fun _ h => h) ?_
    · have hs' : s.kind ≠ .sink := hsk ▸ hxs
      simp only [con, hxs, hs', if_false, leaves_eq]
      have := hp.flatMap_right (lvs a.kids)
      rw [List.perm_iff_count] at this ⊢
      intro y
      have := this y
      simp only [List.count_append, List.flatMap_cons] at this ⊢
      omega
    · exact (List.nodup_cons.1 hnds).2
    · intro q hq hq'; exact absurd (hsub q hq) hq'
    · intro q hq; exact h.1.heldValid dx hmx q (hsub q hq)
    · intro b hb; exact h.2.inprogBatch dx hmx b (hi b hb)
    · intro hk; exact absurd hk hxs
  -- step 2: the receiver takes `p`
  have hz1 : (a.devs.set x s)[z]? = some dz := by
    rw [List.getElem?_set_ne hne]; exact hz
  have hheld : ({ dz with part := some p } : SDev).held = p :: dz.held := by
    simp [SDev.held, hzp]
  have hpz : p ∉ dz.held := fun hc => hne (held_unique h.1 hx hz hpx hc)
  have h2 := gsd (d' := { dz with part := some p }) (K' := a.kids)
    (del' := if dz.kind = .sink then a.del ++ a.leaves p else a.del) (lost' := a.lost)
    h1 hz1 rfl rfl (fun _ _ => rfl) (fun _ h => h) (fun _ l h => ⟨l, h⟩) h.1.kidsLeaf ?_ ?_
      ?_ ?_ ?_ ?_ ?_
  · rw [List.set_comm _ _ hne] at h2
    exact h2
  · simp only [con, hheld, leaves_eq]
    by_cases hk : dz.kind = .sink
    · simp only [hk, if_true]
      rw [List.perm_iff_count]; intro y; simp only [List.count_append]; omega
    · simp only [hk, if_false, List.flatMap_cons]
      rw [List.perm_iff_count]; intro y; simp only [List.count_append]; omega
  · rw [hheld]; exact List.nodup_cons.2 ⟨hpz, held_nodup h.1 hmz⟩
  · intro q hq hq' e he hqe
    rw [hheld] at hq
    have : q = p := by simpa [hq'] using hq
    subst this
    obtain ⟨j, hj⟩ := List.getElem?_of_mem he
    simp only at hj
    by_cases hjx : x = j
    · subst hjx
      simp only [List.getElem?_set, if_true] at hj
      split at hj
      · simp only [Option.some.injEq] at hj; subst hj
        exact (List.nodup_cons.1 hnds).1 hqe
      · simp at hj
    · rw [List.getElem?_set_ne hjx] at hj
      exact hjx (held_unique h.1 hx hj hpx hqe)
  · intro q hq
    rw [hheld] at hq
    rcases List.mem_cons.1 hq with rfl | hq
    · exact h.1.heldValid dx hmx _ hpx
    · exact h.1.heldValid dz hmz q hq
  · intro b hb; exact h.2.inprogBatch dz hmz b hb
  · intro y hy; split
    · simp [hy]
    · exact hy
  · intro hk q hq y hy
    rw [hheld] at hq
    simp only [hk, if_true, List.mem_append]
    rcases List.mem_cons.1 hq with rfl | hq
    · exact Or.inr hy
    · exact Or.inl (h.2.sinkDel dz hmz hk q hq y hy)

/-- A failing device (not a sink) loses the part in its input slot. -/
theorem inv_lose {a : SV} (h : Inv a) {z p : Nat} {d : SDev}
    (hz : a.devs[z]? = some d) (hs : d.kind ≠ .sink) (hp : d.part = some p) :
    Inv { a with devs := a.devs.set z { d with part := none },
                 lost := a.lost ++ a.leaves p } := by
  have hmem : d ∈ a.devs := List.mem_of_getElem? hz
  have hnd := held_nodup h.1 hmem
  have hheld : d.held = p :: ({ d with part := none } : SDev).held := by simp [SDev.held, hp]
  refine gsd h hz rfl rfl (fun _ _ => rfl) (fun _ h => h) (fun _ l h => ⟨l, h⟩) h.1.kidsLeaf ?_ ?_ ?_ ?_
    ?_ (fun _ h => h) ?_
  · simp only [con, hs, if_false, hheld, leaves_eq, List.flatMap_cons]
    rw [List.perm_iff_count]; intro x; simp only [List.count_append]; omega
  · rw [hheld] at hnd; exact (List.nodup_cons.1 hnd).2
  · intro q hq hq'; exact absurd (by rw [hheld]; simp [hq]) hq'
  · intro q hq; exact h.1.heldValid d hmem q (by rw [hheld]; simp [hq])
  · intro b hb; exact h.2.inprogBatch d hmem b hb
  · intro hk; exact absurd hk hs

end C02V
end SimProc
