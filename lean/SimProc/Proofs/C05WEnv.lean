/-
C05W machinery, part 7: the queue invariant `C01.Inv` of the environment is preserved by every
function of `Model/Floor.lean` and `Model/World.lean` (they change the environment only through
`schedule_event`, `pause`/`unpause`/`cancel`).  Consequence: the clock never goes backwards in a
closed-world run.
-/
import SimProc.Proofs.C05WViews
namespace SimProc
namespace C05W
open World C02V

/-- The event queue of the world is sorted, nothing in it is in the past, uids are unique. -/
def EI (w : World) : Prop := C01.Inv w.env

theorem EI.of_env {w w' : World} (e : w'.env = w.env) (h : EI w) : EI w' := by
  unfold EI; rw [e]; exact h

section prim
variable {w : World}

theorem ei_mk {env : Env} (seed wmod : Nat) (scripts : List (List Op)) (results : List Res)
    (error : Option String) (recs : List Rec) (rm : RM) (vars : List (Option Nat)) (devs : List Dev)
    (parts : List PartRec) (groups : List Group) (maints : List MaintW) (targets : List Target)
    (scheds : List SchedW) (sensors : List SensorW) (cmsSensors : List (List Nat)) (svars : List Int)
    (assets : List AssetRef) (started : Bool) (generated delivered lost : List Nat)
    (h : C01.Inv env) :
    EI ⟨env, seed, wmod, scripts, results, error, recs, rm, vars, devs, parts, groups, maints, targets,
      scheds, sensors, cmsSensors, svars, assets, started, generated, delivered, lost⟩ := h

theorem ei_setErr (m : String) (h : EI w) : EI (w.setErr m) :=
  h.of_env (by unfold World.setErr; split <;> rfl)
theorem ei_addRec (r : Rec) (h : EI w) : EI (w.addRec r) := h
theorem ei_addRes (r : Res) (h : EI w) : EI (w.addRes r) := h
theorem ei_setDev (x : Nat) (d : Dev) (h : EI w) : EI (w.setDev x d) := h
theorem ei_modDev (x : Nat) (f : Dev → Dev) (h : EI w) : EI (w.modDev x f) := h
theorem ei_modPart (p : Nat) (f : PartRec → PartRec) (h : EI w) : EI (w.modPart p f) := h
theorem ei_newPart (r : PartRec) (h : EI w) : EI (w.newPart r).1 := h

theorem ei_sched (t a : Int) (act : Action) (p : Int) (h : EI w) : EI (w.sched t a act p).1 := by
  unfold World.sched
  simp only []
  split
  · rename_i e he
    have := C01.inv_apply Arith.exact (.sched t a act.toNat p (weightOf w.seed w.wmod t a act.toNat p)) h
    rw [he] at this
    exact this
  · exact h

theorem ei_schedLib (t a : Int) (act : Action) (p : Int) (h : EI w) : EI (w.schedLib t a act p) := by
  have := ei_sched t a act p h
  unfold World.schedLib
  split
  · simp_all
  · apply ei_setErr; simp_all

theorem ei_envOp (op : EnvOp) (h : EI w) : EI (w.envOp op) := C01.inv_apply Arith.exact op h

end prim

syntax "ei_step" : tactic
macro_rules | `(tactic| ei_step) => `(tactic| first
  | assumption
  | with_reducible apply ei_setErr | with_reducible apply ei_schedLib | with_reducible apply ei_sched
  | with_reducible apply ei_envOp
  | with_reducible apply ei_setDev | with_reducible apply ei_modDev | with_reducible apply ei_modPart
  | with_reducible apply ei_addRec | with_reducible apply ei_addRes | with_reducible apply ei_newPart
  | (with_reducible apply ei_mk; change EI _)
  | (with_reducible apply foldl_inv (fun w => EI w))
  | intro _)

macro "einv" : tactic => `(tactic| ((try simp only []); repeat' split) <;> (repeat' ei_step))

macro "ei_lemma" a:ident : command =>
  `(macro_rules | `(tactic| ei_step) => `(tactic| with_reducible apply $a:ident))

section
variable {w : World}

theorem ei_rmEffects (recs : List ResRec) (c : Bool) (h : EI w) : EI (w.rmEffects recs c) := by
  unfold World.rmEffects; einv
ei_lemma ei_rmEffects
theorem ei_setWaiting (x : Nat) (a b : Bool) (h : EI w) : EI (w.setWaiting x a b) := by
  unfold World.setWaiting; einv
ei_lemma ei_setWaiting
theorem ei_schedulePass (x : Nat) (o : Int) (h : EI w) : EI (w.schedulePass x o) := by
  unfold World.schedulePass; einv
ei_lemma ei_schedulePass

end

theorem notify_pres (P : World → Prop)
    (hSW : ∀ w x a b, P w → P (setWaiting w x a b)) (hSP : ∀ w x o, P w → P (schedulePass w x o))
    (hE : ∀ w m, P w → P (setErr w m)) (f : Nat) :
    ∀ (w : World) (x : Nat), P w → P (notifyUp f w x) ∧ P (spaceAvail f w x) := by
  induction f with
  | zero => intro w x h; exact ⟨by unfold notifyUp; exact hE _ _ h, by unfold spaceAvail; exact hE _ _ h⟩
  | succ f ih =>
    intro w x h
    have hup : ∀ (w : World) (l : List Nat), P w → P (l.foldl (fun w u => spaceAvail f w u) w) :=
      fun w l hw => foldl_inv P _ l w hw (fun w a hw => (ih w a hw).2)
    have hnu : ∀ (w : World) (l : List Nat), P w → P (l.foldl (fun w u => notifyUp f w u) w) :=
      fun w l hw => foldl_inv P _ l w hw (fun w a hw => (ih w a hw).1)
    have h1 : P (notifyUp (f + 1) w x) := by
      unfold notifyUp
      simp only []
      repeat' split
      all_goals first | exact h | exact hup _ _ (hSW _ _ _ _ h) | exact hnu _ _ h | exact hup _ _ h
    refine ⟨h1, ?_⟩
    unfold spaceAvail
    simp only []
    repeat' split
    all_goals first | exact h | exact (ih w x h).1 | exact (ih _ _ h).2 | exact hSP _ _ _ h

section
variable {w : World}

theorem ei_notify (x : Nat) (h : EI w) : EI (w.notify x) :=
  (notify_pres EI (fun _ _ _ _ => ei_setWaiting _ _ _) (fun _ _ _ => ei_schedulePass _ _)
    (fun _ _ => ei_setErr _) _ w x h).1
theorem ei_spaceAvailable (x : Nat) (h : EI w) : EI (w.spaceAvailable x) :=
  (notify_pres EI (fun _ _ _ _ => ei_setWaiting _ _ _) (fun _ _ _ => ei_schedulePass _ _)
    (fun _ _ => ei_setErr _) _ w x h).2
ei_lemma ei_notify
ei_lemma ei_spaceAvailable

theorem ei_releaseReserved (x : Nat) (h : EI w) : EI (w.releaseReserved x) := by
  unfold World.releaseReserved; einv
ei_lemma ei_releaseReserved
theorem ei_procAcquire (x : Nat) (h : EI w) : EI (w.procAcquire x).1 := by
  unfold World.procAcquire; einv
ei_lemma ei_procAcquire
theorem ei_applyPartCb (x p : Nat) (c : PartCb) (h : EI w) : EI (w.applyPartCb x p c) := by
  unfold World.applyPartCb; einv
ei_lemma ei_applyPartCb
theorem ei_senseOutput (s p : Nat) (h : EI w) : EI (w.senseOutput s p) := by
  unfold World.senseOutput; einv
ei_lemma ei_senseOutput
theorem ei_addHist (p d : Nat) (h : EI w) : EI (w.addHist p d) := by
  unfold World.addHist; einv
ei_lemma ei_addHist
theorem ei_dropHist (p : Nat) (h : EI w) : EI (w.dropHist p) := by
  unfold World.dropHist; einv
ei_lemma ei_dropHist
theorem ei_shutdownDev (x : Nat) (f : Bool) (l : Option Nat) (h : EI w) : EI (w.shutdownDev x f l) := by
  unfold World.shutdownDev; einv
ei_lemma ei_shutdownDev
theorem ei_restoreDev (x : Nat) (h : EI w) : EI (w.restoreDev x) := by
  unfold World.restoreDev; einv
ei_lemma ei_restoreDev
theorem ei_releaseIfIdle (x : Nat) (h : EI w) : EI (w.releaseIfIdle x) := by
  unfold World.releaseIfIdle; einv
ei_lemma ei_releaseIfIdle
theorem ei_procResourceCb (x : Nat) (h : EI w) : EI (w.procResourceCb x) := by
  unfold World.procResourceCb; einv
ei_lemma ei_procResourceCb
theorem ei_setBlock (x : Nat) (b : Bool) (h : EI w) : EI (w.setBlock x b) := by
  unfold World.setBlock; einv
ei_lemma ei_setBlock
theorem ei_adjustParts (x : Nat) (v : Int) (h : EI w) : EI (w.adjustParts x v) := by
  unfold World.adjustParts; einv
ei_lemma ei_adjustParts
theorem ei_finishCycleHandler (x : Nat) (h : EI w) : EI (w.finishCycleHandler x) := by
  unfold World.finishCycleHandler; einv
ei_lemma ei_finishCycleHandler
theorem ei_genPart (x : Nat) (h : EI w) : EI (w.genPart x).1 := by
  cases hb : ((w.dev x).genBatch == 0)
  · rw [genPart_batch w x hb]; exact h
  · rw [genPart_leaf w x hb]; exact h
ei_lemma ei_genPart
theorem ei_finishCycle (x : Nat) (h : EI w) : EI (w.finishCycle x) := by
  unfold World.finishCycle; einv
ei_lemma ei_finishCycle
theorem ei_scheduleFinish (x : Nat) (h : EI w) : EI (w.scheduleFinish x) := by
  unfold World.scheduleFinish; einv
ei_lemma ei_scheduleFinish
theorem ei_batchGet (x p : Nat) (h : EI w) : EI (batchGet w x p).1 := by
  unfold batchGet; einv
ei_lemma ei_batchGet
theorem ei_batchShell (x : Nat) (h : EI w) : EI (batchShell w x).1 := by
  unfold batchShell; einv
ei_lemma ei_batchShell
theorem ei_batchAdd (x t : Nat) (h : EI w) : EI (batchAdd w x t) := by
  unfold batchAdd; einv
ei_lemma ei_batchAdd

end

theorem ei_batcherLoop (f : Nat) : ∀ (w : World) (x : Nat), EI w → EI (batcherLoop f w x) := by
  induction f with
  | zero => intro w x h; exact h
  | succ f ih =>
    intro w x h; rw [C02V.batcherLoop_succ]
    split
    · apply ih; einv
    · exact h

section
variable {w : World}

theorem ei_batcherLoop' (f x : Nat) (h : EI w) : EI (batcherLoop f w x) := ei_batcherLoop f w x h
ei_lemma ei_batcherLoop'

theorem ei_tryMove (x : Nat) (h : EI w) : EI (w.tryMove x) := by
  unfold World.tryMove; einv
ei_lemma ei_tryMove
theorem ei_onReceived (x p : Nat) (h : EI w) : EI (w.onReceived x p) := by
  unfold World.onReceived; einv
ei_lemma ei_onReceived
theorem ei_acceptPart (x p : Nat) (h : EI w) : EI (w.acceptPart x p) := by
  unfold World.acceptPart; einv
ei_lemma ei_acceptPart

end

theorem tryList_pres (P : World → Prop) (g : World → Nat → Nat → World × Bool)
    (hg : ∀ w y p, P w → P (g w y p).1) (l : List Nat) : ∀ (w : World) (p : Nat), P w →
    P (tryList g w l p).1 := by
  induction l with
  | nil => intro w p h; exact h
  | cons y ys ih =>
    intro w p h
    unfold tryList
    split
    · rename_i w' h'; have := hg w y p h; rw [h'] at this; exact this
    · rename_i w' h'; have := hg w y p h; rw [h'] at this; exact ih _ _ this

theorem ei_give (f : Nat) : ∀ (w : World) (x p : Nat), EI w → EI (give f w x p).1 := by
  induction f with
  | zero => intro w x p h; exact ei_setErr _ h
  | succ f ih =>
    intro w x p h
    have hl : ∀ (w : World) (l : List Nat), EI w → EI (tryList (give f) w l p).1 :=
      fun w l hw => tryList_pres EI (give f) ih l w p hw
    unfold give
    simp only []
    split
    iterate 5
      split
      · dsimp only; exact ei_acceptPart _ _ h
      · exact h
    · -- processor
      split
      · split
        · rename_i w1 h'
          have h3 : EI w1 := by have := ei_procAcquire x h; rw [h'] at this; exact this
          dsimp only; exact ei_acceptPart _ _ h3
        · rename_i w1 h'
          have h3 : EI w1 := by have := ei_procAcquire x h; rw [h'] at this; exact this
          exact h3
      · exact h
    · -- gate
      split
      · exact h
      · split
        · exact h
        · have := hl (w.addHist p x) ((w.addHist p x).sortedDown x) (ei_addHist _ _ h)
          split
          · rename_i w2 h'; rw [h'] at this; exact this
          · rename_i w2 h'; rw [h'] at this; exact ei_dropHist _ this
    · -- ginput
      split
      · exact h
      · exact hl _ _ h
    · -- gpath
      split
      · exact h
      · have := ih ((w.modPart p (fun r => { r with stack := r.stack ++ [x] })).addHist p x)
          ((((w.modPart p (fun r => { r with stack := r.stack ++ [x] })).addHist p x).groups.getD
            (w.dev x).group default).input) p (ei_addHist _ _ (ei_modPart _ _ h))
        split
        · rename_i w2 h'; rw [h'] at this; exact this
        · rename_i w2 h'; rw [h'] at this; exact ei_dropHist _ (ei_modPart _ _ this)
    · -- goutput
      split
      · exact ei_setErr _ h
      · rename_i g hg
        have := hl (w.modPart p (fun r => { r with stack := r.stack.dropLast }))
          ((w.modPart p (fun r => { r with stack := r.stack.dropLast })).sortedDown g) (ei_modPart _ _ h)
        split
        · rename_i w2 h'; rw [h'] at this; exact this
        · rename_i w2 h'; rw [h'] at this; exact ei_modPart _ _ this

theorem ei_tryGive (w : World) (l : List Nat) (p : Nat) (h : EI w) : EI (tryList givePart w l p).1 :=
  tryList_pres EI _ (fun w y p hw => ei_give w.fuel w y p hw) l w p h

theorem ei_passHandler (w : World) (x : Nat) (h : EI w) : EI (w.passHandler x) := by
  unfold World.passHandler
  simp only []
  repeat' split
  all_goals first
    | exact h
    | (rename_i w' h'
       have h2 := congrArg (fun r => r.1) h'
       simp only [] at h2
       have h3 : EI w' := by rw [← h2]; exact ei_tryGive _ _ _ h
       first | exact ei_notify _ (ei_modDev _ _ h3) | exact ei_modDev _ _ h3)

theorem ei_bufferLoop (f : Nat) : ∀ (w : World) (x : Nat), EI w → EI (bufferLoop f w x) := by
  induction f with
  | zero => intro w x h; exact h
  | succ f ih =>
    intro w x h
    unfold bufferLoop
    simp only []
    repeat' split
    all_goals first
      | exact h
      | (rename_i w' h'
         have h2 := congrArg (fun r => r.1) h'
         simp only [] at h2
         have h3 : EI w' := by rw [← h2]; exact ei_tryGive _ _ _ h
         first | exact h3 | exact ih _ _ (ei_addRec _ (ei_modDev _ _ h3)))

section
variable {w : World}

theorem ei_passHandler' (x : Nat) (h : EI w) : EI (w.passHandler x) := ei_passHandler w x h
theorem ei_bufferLoop' (f x : Nat) (h : EI w) : EI (bufferLoop f w x) := ei_bufferLoop f w x h
ei_lemma ei_passHandler'
ei_lemma ei_bufferLoop'

theorem ei_passPart (x : Nat) (h : EI w) : EI (w.passPart x) := by
  unfold World.passPart; einv
theorem ei_failDev (x : Nat) (h : EI w) : EI (w.failDev x) := by
  unfold World.failDev; einv
theorem ei_initDev (x : Nat) (h : EI w) : EI (w.initDev x) := by
  unfold World.initDev; einv
ei_lemma ei_initDev

/-! ### `Model/World.lean` -/

theorem ei_modMaint (m : Nat) (f : Maint → Maint) (h : EI w) : EI (w.modMaint m f) := h
ei_lemma ei_modMaint
theorem ei_setVar (k : Nat) (v : Option Nat) (h : EI w) : EI (w.setVar k v) := h
ei_lemma ei_setVar
theorem ei_startOrders (m : Nat) (l : List Order) (h : EI w) : EI (w.startOrders m l) := by
  unfold World.startOrders; einv
ei_lemma ei_startOrders
theorem ei_schedUpdate (s : Nat) (b : Bool) (h : EI w) : EI (w.schedUpdate s b) := by
  unfold World.schedUpdate; einv
ei_lemma ei_schedUpdate
theorem ei_periodicSense (s : Nat) (h : EI w) : EI (w.periodicSense s) := by
  unfold World.periodicSense; einv
ei_lemma ei_periodicSense
theorem ei_initAsset (a : AssetRef) (h : EI w) : EI (w.initAsset a) := by
  unfold World.initAsset; einv

end

end C05W
end SimProc
