/-
C08S — the idle clock is exact.  Part 3: `Clk X w (f w)` for accepting and handing over parts
(batcher, `tryMove`, `onReceived`, `acceptPart`, `give`, `passHandler`, `bufferLoop`, `passPart`)
and for shutdown, failure and restore.
-/
import SimProc.Proofs.C08SFloor
import SimProc.Proofs.FloorGive

namespace SimProc
namespace C08S
open World FloorCoreL

section pass
variable {X : Nat → Prop} (w : World)

/-! ### the batcher and the buffer: their slots are masked -/

macro "cmask_hf" : tactic => `(tactic| first
  | exact fun _ => ⟨rfl, rfl, rfl, rfl⟩
  | exact ⟨rfl, rfl, rfl, rfl⟩)
macro "cmask_peel" : tactic => `(tactic| (
  (first
    | refine Clk.trans ?_ (Clk_modDev_mask _ _ _ ?_ ?hf)
    | refine Clk.trans ?_ (Clk_setDev_mask _ _ _ ?_ ?hf))
  (case hf => cmask_hf)))

theorem Clk_batchGet (x p : Nat) (hk : isS (w.dev x).kind = false) : Clk X w (C02V.batchGet w x p).1 := by
  unfold C02V.batchGet
  split
  · dsimp only
    split
    · cmask_peel
      · exact Clk_modPart w _ _
      · exact hk
    · exact Clk_modPart w _ _
  · dsimp only
    cmask_peel
    · exact Clk.refl _ _
    · exact hk

theorem Clk_batchShell (x : Nat) (hk : isS (w.dev x).kind = false) : Clk X w (C02V.batchShell w x).1 := by
  unfold C02V.batchShell
  split
  · exact Clk.refl _ _
  · dsimp only [World.newPart]
    cmask_peel
    · exact Clk.of_devs rfl rfl
    · exact hk

theorem Clk_batchAdd (x t : Nat) (hk : isS (w.dev x).kind = false) : Clk X w (C02V.batchAdd w x t) := by
  unfold C02V.batchAdd
  split
  · cmask_peel
    · exact Clk.refl _ _
    · exact hk
  · have h1 := Clk_batchShell (X := X) w x hk
    have hk1 : isS ((C02V.batchShell w x).1.dev x).kind = false := by rw [h1.kind]; exact hk
    dsimp only
    split
    · cmask_peel
      · exact h1.trans (Clk_modPart _ _ _)
      · exact hk1
    · exact h1.trans (Clk_modPart _ _ _)

theorem Clk_batcherLoop (f : Nat) : ∀ (w : World) (x : Nat), isS (w.dev x).kind = false →
    Clk X w (batcherLoop f w x) := by
  induction f with
  | zero => intro w x _; exact Clk.refl _ _
  | succ f ih =>
    intro w x hk
    rw [C02V.batcherLoop_succ]
    split
    · rename_i p _ _
      have h1 := Clk_batchGet (X := X) w x p hk
      have hk1 : isS ((C02V.batchGet w x p).1.dev x).kind = false := by rw [h1.kind]; exact hk
      have h2 := Clk_batchAdd (X := X) (C02V.batchGet w x p).1 x (C02V.batchGet w x p).2 hk1
      have hk2 : isS ((C02V.batchAdd (C02V.batchGet w x p).1 x (C02V.batchGet w x p).2).dev x).kind = false := by
        rw [h2.kind]; exact hk1
      exact (h1.trans h2).trans (ih _ x hk2)
    · exact Clk.refl _ _

theorem Clk_tryMove (x : Nat) : Clk X w (w.tryMove x) := by
  unfold World.tryMove
  dsimp only
  split
  · -- buffer
    next hk =>
    have hT : isS (w.dev x).kind = false := by rw [hk]; rfl
    split
    · exact Clk.refl _ _
    · split
      · refine Clk.trans ?_ (Clk_schedulePass _ _ _)
        refine Clk.trans ?_ (Clk_notify _ _)
        cmask_peel
        · exact Clk.refl _ _
        · exact hT
      · refine Clk.trans ?_ (Clk_notify _ _)
        cmask_peel
        · exact Clk.refl _ _
        · exact hT
  · -- batcher
    next hk =>
    have hT : isS (w.dev x).kind = false := by rw [hk]; rfl
    repeat' split
    all_goals first
      | exact Clk.refl _ _
      | (cmask_peel
         · exact Clk.refl _ _
         · exact hT)
      | (refine Clk.trans ?_ (Clk_schedulePass _ _ _); exact Clk_batcherLoop _ _ _ hT)
      | exact Clk_batcherLoop _ _ _ hT
  · clk_auto
  · clk_auto
clk_lemma1 Clk_tryMove

/-! ### accepting a part -/

theorem Clk_recvBook (x p : Nat) : Clk X w (C02V.recvBook w x p) := by
  unfold C02V.recvBook
  clk_auto

theorem Clk_onReceived (x p : Nat) : Clk X w (w.onReceived x p) := by
  rw [C02V.onReceived_eq]
  split
  · exact (Clk_recvBook w x p).trans (Clk_tryMove _ _)
  · exact Clk_recvBook w x p
clk_lemma2 Clk_onReceived

/-- The head of `_accept_part`: the input slot is filled and the clock stopped. -/
theorem Clk_acceptHead (x p : Nat) :
    Clk X w (((w.modDev x (fun d => { d with part := some p })).addHist p x).setWaiting x false false) := by
  rw [setWaiting_false]
  refine ⟨by simp, by simp, fun y => ?_⟩
  rw [dev_setDev, dev_addHist]
  have hl : ((w.modDev x (fun d => { d with part := some p })).addHist p x).devs.length =
      w.devs.length := by simp
  rw [hl]
  split
  · next hxy =>
    rw [dev_modDev_same hxy.2, ← hxy.1]
    exact PD_accept _ _
  · next hxy =>
    rw [dev_addHist, dev_modDev]
    rw [if_neg hxy]
    exact PD.refl _ _ _

theorem Clk_acceptPart (x p : Nat) : Clk X w (w.acceptPart x p) := by
  unfold World.acceptPart
  dsimp only
  refine Clk.trans ?_ (Clk_onReceived _ _ _)
  refine Clk.trans ?_ (Clk_acceptHead _ _ _)
  split
  · exact Clk.of_devs rfl rfl
  · exact Clk.refl _ _

/-! ### handing parts over -/

theorem Clk_tryList (g : World → Nat → Nat → World × Bool)
    (hg : ∀ w y p, Clk X w (g w y p).1) (w : World) (l : List Nat) (p : Nat) :
    Clk X w (tryList g w l p).1 := by
  induction l generalizing w with
  | nil => exact Clk.refl _ w
  | cons y ys ih =>
    rw [tryList]
    have h := hg w y p
    split
    · rename_i heq; rw [heq] at h; exact h
    · rename_i heq; rw [heq] at h; exact h.trans (ih _)

/-- After a `split` on a pair-valued call: use the fact `t` about the call. -/
macro "clk_heq " t:term : tactic =>
  `(tactic| (rename_i heq; with_reducible apply Clk.trans (h2 := Clk.of_fst_eq $t heq)))

theorem Clk_give (n : Nat) : ∀ (w : World) (x p : Nat), Clk X w (give n w x p).1 := by
  induction n with
  | zero => intro w x p; exact Clk_setErr _ _
  | succ n ih =>
    intro w x p
    have hT : ∀ w l p, Clk X w (tryList (give n) w l p).1 := Clk_tryList _ ih
    rw [give]
    dsimp only
    repeat' first
      | clk
      | with_reducible apply Clk.trans (h2 := Clk_acceptPart _ _ _)
      | with_reducible exact hT _ _ _
      | with_reducible exact ih _ _ _
      | clk_heq (hT _ _ _)
      | clk_heq (ih _ _ _)
      | clk_heq (Clk_procAcquire _ _)
      | split

theorem Clk_givePart (x p : Nat) : Clk X w (w.givePart x p).1 := Clk_give _ _ _ _

theorem Clk_tryList_givePart (l : List Nat) (p : Nat) : Clk X w (tryList givePart w l p).1 :=
  Clk_tryList _ (fun w y p => Clk_givePart w y p) _ _ _

theorem Clk_passHandler (x : Nat) (hX : isM (w.dev x).kind = true → X x) :
    Clk X w (w.passHandler x) := by
  unfold World.passHandler
  dsimp only
  split
  · exact Clk.refl _ _
  · split
    · exact Clk.refl _ _
    · next p _ =>
      have hT := Clk_tryList_givePart (X := X) w (w.sortedDown x) p
      split
      · next w' heq =>
        rw [heq] at hT
        refine hT.trans (Clk_release_notify _ x ?_)
        intro h
        rw [hT.kind x] at h
        exact hX h
      · next w' heq =>
        rw [heq] at hT
        refine hT.trans ?_
        clk_auto

theorem Clk_bufferLoop (n : Nat) : ∀ (w : World) (x : Nat), Clk X w (bufferLoop n w x) := by
  induction n with
  | zero => intro w x; exact Clk.refl _ _
  | succ n ih =>
    intro w x
    rw [bufferLoop]
    dsimp only
    repeat' first
      | clk
      | with_reducible apply Clk.trans (h2 := ih _ _)
      | clk_heq (Clk_tryList_givePart _ _ _)
      | split
clk_lemma2 Clk_bufferLoop

theorem Clk_passPart (x : Nat) (hX : isM (w.dev x).kind = true → X x) : Clk X w (w.passPart x) := by
  have hP := Clk_passHandler w x hX
  unfold World.passPart
  dsimp only
  repeat' first
    | clk
    | with_reducible apply Clk.trans (h2 := hP)
    | split

/-! ### shutdown, failure, restore -/

theorem Clk_shutdownDev (x : Nat) (isF : Bool) (lost : Option Nat)
    (hX : isM (w.dev x).kind = true → X x) : Clk X w (w.shutdownDev x isF lost) := by
  cases hs : (w.dev x).shutDown with
  | true =>
    rw [shutdownDev_eq_down w x isF lost hs]
    split
    · exact Clk.of_devs rfl rfl
    · exact Clk.refl _ _
  | false =>
    by_cases hx : x < w.devs.length
    · rw [shutdownDev_eq_up w isF lost hx hs]
      refine ⟨?_, by simp, fun y => ?_⟩
      · cases isF <;> rfl
      · show PD (X y) w.now (cv (w.dev y)) (cv ((w.setDev x (shutDev w.now (w.dev x))).dev y))
        rw [dev_setDev]
        split
        · next hxy =>
          rw [← hxy.1]
          exact PD_stop _ hX _ rfl rfl rfl rfl rfl rfl
        · exact PD.refl _ _ _
    · -- a device that does not exist: nothing but the queue and the log change
      have hx' : w.devs.length ≤ x := Nat.le_of_not_lt hx
      have hsd : ∀ (W : World) (d : Dev), W.devs.length = w.devs.length → W.setDev x d = W :=
        fun W d hW => dev_setDev_out_of_range (by rw [hW]; exact hx')
      unfold World.shutdownDev
      simp only [hs, Bool.false_eq_true, if_false]
      rw [setWaiting_false]
      rw [hsd _ _ (by cases isF <;> simp), hsd _ _ (by cases isF <;> simp), hsd _ _ rfl]
      clk_auto

theorem shutdownDev_shut (x : Nat) (isF : Bool) (lost : Option Nat) (hx : x < w.devs.length) :
    ((w.shutdownDev x isF lost).dev x).shutDown = true := by
  cases hs : (w.dev x).shutDown with
  | true =>
    rw [shutdownDev_eq_down w x isF lost hs]
    split
    · exact hs
    · exact hs
  | false =>
    rw [shutdownDev_eq_up w isF lost hx hs]
    show ((w.setDev x (shutDev w.now (w.dev x))).dev x).shutDown = true
    rw [dev_setDev_same hx]
    rfl

/-- **A failure**: the part in process is lost, the machine is down, its clock stopped. -/
theorem Clk_failDev (x : Nat) (hX : isM (w.dev x).kind = true → X x) : Clk X w (w.failDev x) := by
  rw [failDev_eq_c13]
  generalize hW : ({ w with lost := w.lost ++ w.lostLeaves x } : World) = W
  have h0 : Clk X w W := by rw [← hW]; exact Clk.of_devs rfl rfl
  have hdev : W.dev x = w.dev x := by rw [← hW]; rfl
  have hX' : isM (W.dev x).kind = true → X x := by rw [hdev]; exact hX
  rw [← hdev]
  generalize (W.dev x).part = lost
  unfold failPre
  have h1 : Pre X x W (W.modDev x (fun d => { d with part := none })) :=
    Pre_setDev W x _ (PDs_release_part _ hX')
  have h2 : Pre X x W (((W.modDev x (fun d => { d with part := none })).releaseReserved x).addRec
      (.failure x W.now lost)) :=
    h1.trans (((Clk_releaseReserved _ _).trans (Clk_addRec _ _)).pre x)
  generalize ((W.modDev x (fun d => { d with part := none })).releaseReserved x).addRec
      (.failure x W.now lost) = W2 at h2 ⊢
  have hX2 : isM (W2.dev x).kind = true → X x := by rw [h2.kind]; exact hX'
  have h3 : Pre X x W (W2.shutdownDev x true lost) :=
    h2.trans ((Clk_shutdownDev W2 x true lost hX2).pre x)
  refine h0.trans (h3.close ?_)
  by_cases hx : x < W2.devs.length
  · intro _ _ hsd _
    rw [show (cv ((W2.shutdownDev x true lost).dev x)).shutDown =
      ((W2.shutdownDev x true lost).dev x).shutDown from rfl, shutdownDev_shut W2 x true lost hx] at hsd
    cases hsd
  · exact complete_of_ge (by rw [h3.len, ← h2.len]; exact Nat.le_of_not_lt hx)

/-- **A restore**: the clock of a machine whose slots are free is started. -/
theorem Clk_restoreDev (x : Nat) : Clk X w (w.restoreDev x) := by
  cases hs : (w.dev x).shutDown with
  | false => rw [restoreDev_eq_up w x hs]; exact Clk.refl _ _
  | true =>
    have hx := lt_of_shutDown hs
    rw [restoreDev_eq_down w x hs]
    dsimp only
    have hd1 : (w.restorePre x).dev x = { w.dev x with shutDown := false, lastRestore := some w.now } := by
      unfold restorePre; rw [dev_envOp, dev_setDev_same hx]
    have h1 : Pre X x w (w.restorePre x) := by
      unfold restorePre
      refine (Pre_setDev w x _ ?_).trans ((Clk_envOp_unpause _ _).pre x)
      exact PDs_flag _ _ rfl rfl rfl rfl rfl
    have hS : Stamp (w.restorePre x) ((w.restorePre x).restoreFlow x) := by
      unfold restoreFlow
      repeat' split
      all_goals first
        | exact Stamp.refl _ | exact Stamp_schedulePass _ _ _ | exact Stamp_notify _ _
    have h2 : Pre X x w ((w.restorePre x).restoreFlow x) := h1.trans ((hS.clk (X := X)).pre x)
    generalize hW1 : w.restorePre x = W1 at *
    generalize hW2 : W1.restoreFlow x = W2 at *
    -- the last two steps do not touch the clock view
    have hfin : ∀ W3 : World, Clk X W2 W3 → (cv (W3.dev x) = cv (W2.dev x)) →
        Clk X w W3 := by
      intro W3 h3 he
      refine (h2.trans (h3.pre x)).close ?_
      rw [he]
      intro hk hi _ hf
      obtain ⟨e1, e2, _, e4, e5⟩ := hS.fields x
      have hk1 : isS (W1.dev x).kind = true := by
        have : (cv (W2.dev x)).kind = (W1.dev x).kind := e1
        rw [← this]; exact hk
      have hi1 : (W1.dev x).inited = true := by
        have : (cv (W2.dev x)).inited = (W1.dev x).inited := e2
        rw [← this]; exact hi
      have hf1 : (cv (W1.dev x)).free = true := by
        unfold CV.free at hf ⊢
        rw [← e4, ← e5]; exact hf
      obtain ⟨hp, ho⟩ := slots_of_free hk1 hf1
      have : W2 = W1.notify x := by
        rw [← hW2]
        unfold restoreFlow
        simp [hp, ho]
      rw [this]
      exact notify_since W1 x hk1 hi1 hp ho
    split
    · refine hfin _ ?_ ?_
      · exact Clk.trans (b := W2.modDev x (fun d => { d with lastUseStart := some W2.now }))
          (Clk_modDev_same _ _ _ rfl) (Clk.of_devs rfl rfl)
      · show cv ((W2.modDev x (fun d => { d with lastUseStart := some W2.now })).dev x) = _
        rw [dev_modDev]
        split <;> rfl
    · exact hfin _ (Clk.of_devs rfl rfl) rfl

end pass

end C08S
end SimProc
