/-
C03W with re-wiring — blindness to the scripts: the functions of `Model/World.lean` that do not run
a script (`f (es w s) … = es (f w …) s`), after `Proofs/C14WBlindW.lean`.
-/
import SimProc.Proofs.C03YEsFloor

namespace SimProc
namespace C03W
open World

theorem be_startOrders (m : Nat) (st : List Order) : EBlind (fun w => w.startOrders m st) := by
  intro w s
  eb_close [startOrders]
@[c03es] theorem es_startOrders (w : World) (s : List (List Op)) (m : Nat) (st : List Order) :
    (es w s).startOrders m st = es (w.startOrders m st) s := (be_startOrders m st).eq w s

theorem be_schedUpdate (sd : Nat) (adv : Bool) : EBlind (fun w => w.schedUpdate sd adv) := by
  intro w s
  have h : ∀ (st : Int) (w : World) (s : List (List Op)) (a : Nat × Option Nat),
      (match a with | (o, ovr) => (es w s).addRes (.act sd o (es w s).now st ovr)) =
        es (match a with | (o, ovr) => w.addRes (.act sd o w.now st ovr)) s := by
    intro st w s a; rfl
  eb_close [schedUpdate, h]
@[c03es] theorem es_schedUpdate (w : World) (s : List (List Op)) (sd : Nat) (adv : Bool) :
    (es w s).schedUpdate sd adv = es (w.schedUpdate sd adv) s := (be_schedUpdate sd adv).eq w s

theorem be_initAsset (a : AssetRef) : EBlind (fun w => w.initAsset a) := by
  intro w s
  eb_close [initAsset]
@[c03es] theorem es_initAsset (w : World) (s : List (List Op)) (a : AssetRef) :
    (es w s).initAsset a = es (w.initAsset a) s := (be_initAsset a).eq w s

theorem be_periodicSense (sn : Nat) : EBlind (fun w => w.periodicSense sn) := by
  intro w s
  eb_close [periodicSense]
@[c03es] theorem es_periodicSense (w : World) (s : List (List Op)) (sn : Nat) :
    (es w s).periodicSense sn = es (w.periodicSense sn) s := (be_periodicSense sn).eq w s

/-- scripted operations other than `create` -/
theorem es_applyOp (w : World) (s : List (List Op)) (op : Op) (h : ∀ sp, op ≠ .create sp) :
    (es w s).applyOp op = (es (w.applyOp op).1 s, (w.applyOp op).2) := by
  have key : ekey ((es w s).applyOp op).1 = (noScr (w.applyOp op).1, s) ∧
      ((es w s).applyOp op).2 = (w.applyOp op).2 := by
    cases op
    case create sp => exact absurd rfl (h sp)
    all_goals eb_close [applyOp]
  exact Prod.ext (eq_es_of_key key.1) key.2

theorem be_simulateInit : EBlind (fun w => w.simulateInit) := by
  intro w s
  eb_close [simulateInit]
theorem es_simulateInit (w : World) (s : List (List Op)) :
    (es w s).simulateInit = es w.simulateInit s := be_simulateInit.eq w s

theorem es_runBegin (w : World) (s : List (List Op)) (d : Int) :
    ((es w s).runBegin d).1 = es (w.runBegin d).1 s := by
  unfold World.runBegin
  simp only [es_env, es_seed, es_wmod]
  split <;> rfl

/-- the actions that run no script -/
theorem es_exec (w : World) (s : List (List Op)) (a : Action)
    (h1 : ∀ k, a ≠ .script k) (h2 : a ≠ .rmCheck) (h3 : ∀ m o, a ≠ .startWork m o)
    (h4 : ∀ m o, a ≠ .finishWork m o) : (es w s).exec a = es (w.exec a) s := by
  cases a with
  | terminate => rfl
  | script k => exact absurd rfl (h1 k)
  | finishCycle d => exact es_finishCycle w s d
  | passPart d => exact es_passPart w s d
  | fail d => exact es_failDev w s d
  | releaseIfIdle d => exact es_releaseIfIdle w s d
  | rmCheck => exact absurd rfl h2
  | startWork m o => exact absurd rfl (h3 m o)
  | finishWork m o => exact absurd rfl (h4 m o)
  | schedUpdate sd => exact es_schedUpdate w s sd true
  | periodicSense sn => exact es_periodicSense w s sn
  | unknown n => exact es_setErr w s _

end C03W
end SimProc
