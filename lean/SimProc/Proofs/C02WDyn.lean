/-
C02W machinery, part 3: the dynamic class `DynN need w` (closed wiring, scripts whose re-wiring /
creation / triggering operations are admissible once `need k` devices exist, and no trigger of a
script that is not yet admissible or of the failure of a sink / missing device pending), its
preservation by every operation, script, event action, step, run and initialisation, and the
admissibility (`ActOK`) of every executed action.
-/
import SimProc.Proofs.C02WWire
import SimProc.Props.C02
namespace SimProc
namespace C02W
open World C02V

/-! ### definitions -/

/-- Constructor arguments that are admissible in a world with at least `n` devices: a device is
created with empty slots and names only downstream neighbours that exist (or itself); the inputs
of a new group exist. -/
def SpecOKAt (n : Nat) : AssetSpec → Prop
  | .dev d => C02.held d = [] ∧ ∀ y ∈ d.down, y ≤ n
  | .group _ devs ins _ => ∀ d ∈ groupIns devs ins, d ≤ n
  | _ => True

/-- Operations that are admissible in a world with at least `n` devices (`need k`: the number of
devices script `k` needs). -/
def OpOK (need : Nat → Nat) (n : Nat) : Op → Prop
  | .rewire x _ => x < n
  | .create spec => SpecOKAt n spec
  | .sched _ _ k _ => need k ≤ n
  | .schedRel _ _ k _ => need k ≤ n
  | .register k _ => need k ≤ n
  | _ => True

/-- the number of devices a constructor call adds -/
def specCreated : AssetSpec → Nat
  | .dev _ => 1
  | .group _ _ _ _ => 2
  | _ => 0

def created : Op → Nat
  | .create s => specCreated s
  | _ => 0

/-- A list of operations run in sequence from a world with at least `n` devices. -/
def OpsOK (need : Nat → Nat) : Nat → List Op → Prop
  | _, [] => True
  | n, op :: ops => OpOK need n op ∧ OpsOK need (n + created op) ops

/-- What the execution of an action needs: a failure hits an existing device that is not a sink; a
script has the devices it needs. -/
def ActSafe (need : Nat → Nat) (w : World) : Action → Prop
  | .fail d => d < w.devs.length ∧ (w.dev d).kind ≠ .sink
  | .script k => need k ≤ w.devs.length
  | _ => True

def HookOK (need : Nat → Nat) (n : Nat) (h : Option Nat × Option Nat) : Prop :=
  (∀ k, h.1 = some k → need k ≤ n) ∧ (∀ k, h.2 = some k → need k ≤ n)

/-- every trigger that is pending is admissible now -/
structure TrigOK (need : Nat → Nat) (w : World) : Prop where
  ev : ∀ n, (trig w).pend n → ActSafe need w (Action.ofNat n)
  rm : ∀ k ∈ (trig w).rms, need k ≤ w.devs.length
  tg : ∀ h ∈ (trig w).hooks, HookOK need w.devs.length h

def ScriptsDyn (need : Nat → Nat) (w : World) : Prop :=
  ∀ k, OpsOK need (need k) (w.scripts.getD k [])

structure DynN (need : Nat → Nat) (w : World) : Prop where
  scripts : ScriptsDyn need w
  wired : Wired w
  tok : TrigOK need w

/-! ### monotonicity -/

theorem SpecOKAt.mono {n m : Nat} {s : AssetSpec} (h : SpecOKAt n s) (hnm : n ≤ m) : SpecOKAt m s := by
  cases s with
  | dev d => exact ⟨h.1, fun y hy => Nat.le_trans (h.2 y hy) hnm⟩
  | group gid devs ins outs => exact fun d hd => Nat.le_trans (h d hd) hnm
  | _ => trivial

theorem OpOK.mono {need : Nat → Nat} {n m : Nat} {op : Op} (h : OpOK need n op) (hnm : n ≤ m) :
    OpOK need m op := by
  cases op
  case rewire x ups => exact Nat.lt_of_lt_of_le h hnm
  case create s => exact SpecOKAt.mono h hnm
  case sched t a k p => exact Nat.le_trans h hnm
  case schedRel t a k p => exact Nat.le_trans h hnm
  case register k r => exact Nat.le_trans h hnm
  all_goals trivial

theorem OpsOK.mono {need : Nat → Nat} {ops : List Op} : ∀ {n m : Nat}, OpsOK need n ops → n ≤ m →
    OpsOK need m ops := by
  induction ops with
  | nil => intro _ _ _ _; trivial
  | cons op ops ih =>
    intro n m h hnm
    exact ⟨h.1.mono hnm, ih h.2 (by omega)⟩

theorem ActSafe.ext {need : Nat → Nat} {n : Nat} {w w' : World} {a : Action} (h : ActSafe need w a)
    (e : ExtN n w w') : ActSafe need w' a := by
  cases a
  case fail d => exact ⟨Nat.lt_of_lt_of_le h.1 e.len, by rw [e.kind d h.1]; exact h.2⟩
  case script k => exact Nat.le_trans h e.len
  all_goals trivial

theorem HookOK.mono {need : Nat → Nat} {n m : Nat} {h : Option Nat × Option Nat} (hh : HookOK need n h)
    (hnm : n ≤ m) : HookOK need m h :=
  ⟨fun k hk => Nat.le_trans (hh.1 k hk) hnm, fun k hk => Nat.le_trans (hh.2 k hk) hnm⟩

/-- The general preservation lemma: the world is extended with new wiring targets that exist, the
scripts are the same, and whatever trigger is new is admissible. -/
theorem DynN.ext {need : Nat → Nat} {w w' : World} (h : DynN need w) (e : ExtN w'.devs.length w w')
    (hs : w'.scripts = w.scripts)
    (hp : ∀ n, (trig w').pend n → (trig w).pend n ∨ ActSafe need w' (Action.ofNat n))
    (hr : ∀ k ∈ (trig w').rms, k ∈ (trig w).rms ∨ need k ≤ w'.devs.length)
    (hh : (trig w').hooks = (trig w).hooks) : DynN need w' := by
  refine ⟨?_, ?_, ⟨?_, ?_, ?_⟩⟩
  · intro k; rw [hs]; exact h.scripts k
  · exact (h.wired.mono e.len).ext e
  · intro n hn
    rcases hp n hn with h' | h'
    · exact (h.tok.ev n h').ext e
    · exact h'
  · intro k hk
    rcases hr k hk with h' | h'
    · exact Nat.le_trans (h.tok.rm k h') e.len
    · exact h'
  · intro x hx
    rw [hh] at hx
    exact (h.tok.tg x hx).mono e.len

theorem DynN.ext_same {need : Nat → Nat} {w w' : World} (h : DynN need w) (e : ExtN w'.devs.length w w')
    (hs : w'.scripts = w.scripts) (ht : trig w' = trig w) : DynN need w' :=
  h.ext e hs (fun n hn => Or.inl (by rw [← ht]; exact hn)) (fun k hk => Or.inl (by rw [← ht]; exact hk))
    (by rw [ht])

theorem DynN.of_tv {need : Nat → Nat} {w w' : World} (h : DynN need w) (e : tv w' = tv w)
    (hs : w'.scripts = w.scripts) (ht : trig w' = trig w) : DynN need w' :=
  h.ext_same (ExtN.of_tv e) hs ht

theorem DynN.of_st {need : Nat → Nat} {w w' : World} (h : DynN need w) (e : st w' = st w)
    (hs : w'.scripts = w.scripts) (ht : trig w' = trig w) : DynN need w' :=
  h.of_tv (tv_of_st e) hs ht

/-! ### the trigger view and the constructor calls -/

theorem tg_regPath (w : World) (d : Dev) (i : Nat) : trig (regPath w d i) = trig w := by
  unfold regPath; split <;> rfl

theorem tg_addDev (w : World) (d : Dev) : trig (w.addDev d) = trig w := by
  rw [addDev_eq]
  split
  · rw [tg_initAsset, tg_regPath, tg_rewire]; rfl
  · rw [tg_regPath, tg_rewire]; rfl

theorem tg_addAsset (w : World) (spec : AssetSpec) : trig (w.addAsset spec) = trig w := by
  cases spec with
  | dev d => exact tg_addDev w d
  | group gid devs ins outs =>
    rw [addAsset_group_eq]
    simp only []
    rw [tg_rewire, tg_addDev, foldl_proj trig _ _ _ (fun _ _ => tg_rewire ..), tg_addDev]
    rfl
  | maint cap v =>
    unfold World.addAsset; simp only []
    split
    · rw [tg_initAsset]; rfl
    · rfl
  | sched tt cyc =>
    unfold World.addAsset; simp only []
    split
    · rw [tg_initAsset]; rfl
    · rfl
  | sensor sw =>
    unfold World.addAsset; simp only []
    split
    · rw [tg_initAsset]; rfl
    · rfl
  | cms => rfl

theorem st_addAsset_nondev (w : World) (spec : AssetSpec) (h1 : ∀ d, spec ≠ .dev d)
    (h2 : ∀ a b c d, spec ≠ .group a b c d) : st (w.addAsset spec) = st w := by
  cases spec with
  | dev d => exact absurd rfl (h1 d)
  | group gid devs ins outs => exact absurd rfl (h2 _ _ _ _)
  | maint cap v =>
    unfold World.addAsset; simp only []
    split
    · rw [st_initAsset]; rfl
    · rfl
  | sched tt cyc =>
    unfold World.addAsset; simp only []
    split
    · rw [st_initAsset]; rfl
    · rfl
  | sensor sw =>
    unfold World.addAsset; simp only []
    split
    · rw [st_initAsset]; rfl
    · rfl
  | cms => rfl

/-- a constructor call extends the world; all new wiring targets exist afterwards -/
theorem extN_addAsset (w : World) (spec : AssetSpec) (n : Nat) (hn : n ≤ w.devs.length) (h : SpecOKAt n spec) :
    ExtN (w.addAsset spec).devs.length w (w.addAsset spec) ∧
      (w.addAsset spec).devs.length = w.devs.length + specCreated spec := by
  cases spec with
  | dev d =>
    have hl : (w.addAsset (.dev d)).devs.length = w.devs.length + 1 := len_addDev w d
    refine ⟨?_, hl⟩
    rw [hl]
    exact extN_addDev w d (by omega) (fun y hy => by have := h.2 y hy; omega)
  | group gid devs ins outs =>
    have hl := len_addAsset_group w gid devs ins outs
    refine ⟨?_, hl⟩
    rw [hl]
    exact extN_addAsset_group w gid devs ins outs (fun d hd => Nat.le_trans (h d hd) hn)
  | maint cap v =>
    have e := st_addAsset_nondev w (.maint cap v) (by intro _ h; cases h) (by intro _ _ _ _ h; cases h)
    exact ⟨ExtN.of_st e, len_of_st e⟩
  | sched tt cyc =>
    have e := st_addAsset_nondev w (.sched tt cyc) (by intro _ h; cases h) (by intro _ _ _ _ h; cases h)
    exact ⟨ExtN.of_st e, len_of_st e⟩
  | sensor sw =>
    have e := st_addAsset_nondev w (.sensor sw) (by intro _ h; cases h) (by intro _ _ _ _ h; cases h)
    exact ⟨ExtN.of_st e, len_of_st e⟩
  | cms =>
    have e : st (w.addAsset .cms) = st w := rfl
    exact ⟨ExtN.of_st e, len_of_st e⟩

/-! ### scripted operations -/

theorem tg_setParams (w : World) (tgt : Nat) (t : Target)
    (h : (t.startScript, t.endScript) =
      ((w.targets.getD tgt default).startScript, (w.targets.getD tgt default).endScript)) :
    trig { w with targets := w.targets.set tgt t } = trig w := by
  unfold trig
  simp only []
  rw [map_set_getD_self (fun t : Target => (t.startScript, t.endScript)) w.targets tgt default t h]

/-- operations that schedule no sensitive action and register no script -/
theorem tg_applyOp (w : World) (op : Op) (h1 : ∀ t a k p, op ≠ .sched t a k p)
    (h2 : ∀ t a k p, op ≠ .schedRel t a k p) (h3 : ∀ k r, op ≠ .register k r)
    (h4 : ∀ d t, op ≠ .schedFail d t) (h5 : ∀ d t, op ≠ .schedFailRel d t) :
    trig (w.applyOp op).1 = trig w := by
  cases op
  case sched t a k p => exact absurd rfl (h1 _ _ _ _)
  case schedRel t a k p => exact absurd rfl (h2 _ _ _ _)
  case register k r => exact absurd rfl (h3 _ _)
  case schedFail d t => exact absurd rfl (h4 _ _)
  case schedFailRel d t => exact absurd rfl (h5 _ _)
  case create s => exact tg_addAsset w s
  case rewire d ups => exact tg_rewire w d ups
  case addRes r amt =>
    simp only [World.applyOp]
    rw [tg_rmEffects]
    exact tg_withRm w _ (rms_add ..)
  case reserve hh req =>
    simp only [World.applyOp]
    split
    · rfl
    · rw [tg_setVar, tg_rmEffects]
      exact tg_withRm w _ (rms_reserve ..)
  case release hh part =>
    simp only [World.applyOp]
    split
    · rfl
    · simp only []
      rw [tg_rmEffects]
      exact tg_withRm w _ (rms_release ..)
  case merge a b =>
    simp only [World.applyOp]
    split
    · rfl
    · split
      · rfl
      · exact tg_withRm w _ (rms_merge ..)
  case setParams tgt tag dur nd cost =>
    simp only [World.applyOp]
    exact tg_setParams w tgt _ rfl
  case workOrder m tgt tag info =>
    simp only [World.applyOp]
    rw [tg_startOrders]
    split <;> rfl
  all_goals (unfold World.applyOp; frame')

theorem kind_lt {w : World} {d : Nat} (h : (w.dev d).kind ≠ .handler) : d < w.devs.length := by
  by_cases hd : d < w.devs.length
  · exact hd
  · rw [dev_of_length_le (Nat.le_of_not_lt hd)] at h
    exact absurd rfl h

/-- Scheduling one more (admissible) sensitive action. -/
theorem DynN.sched {need : Nat → Nat} {w : World} (h : DynN need w) (t a : Int) (act : Action) (p : Int)
    (ha : ActSafe need w act) (hact : Action.ofNat act.toNat = act) : DynN need (w.sched t a act p).1 := by
  have e : ExtN (w.sched t a act p).1.devs.length w (w.sched t a act p).1 := ExtN.of_st (st_sched ..)
  refine h.ext e (scr_sched ..) ?_ ?_ ?_
  · intro n hn
    rcases acts_sched w t a act p n hn.1 with rfl | h'
    · right; rw [hact]; exact ha.ext e
    · exact Or.inl ⟨h', hn.2⟩
  · intro k hk
    left
    have : (trig (w.sched t a act p).1).rms = (trig w).rms := by
      show rmScripts _ = rmScripts _
      rw [rm_sched]
    rw [← this]; exact hk
  · show List.map _ _ = List.map _ _
    rw [targets_sched]

theorem dyn_applyOp {need : Nat → Nat} (w : World) (op : Op) (n : Nat) (h : DynN need w)
    (hn : n ≤ w.devs.length) (ho : OpOK need n op) :
    DynN need (w.applyOp op).1 ∧ w.devs.length + created op ≤ (w.applyOp op).1.devs.length := by
  have plain : ∀ op : Op, OpStatic w op → trig (w.applyOp op).1 = trig w → created op = 0 →
      DynN need (w.applyOp op).1 ∧ w.devs.length + created op ≤ (w.applyOp op).1.devs.length := by
    intro op hs ht hc
    have e := tv_applyOp_static w op hs
    refine ⟨h.of_tv e (scr_applyOp w op) ht, ?_⟩
    rw [hc, devs_len_of_tv e]; omega
  have viaSched : ∀ (t a : Int) (act : Action) (p : Int), ActSafe need w act → Action.ofNat act.toNat = act →
      DynN need (w.sched t a act p).1 ∧ w.devs.length + 0 ≤ (w.sched t a act p).1.devs.length := by
    intro t a act p ha hact
    exact ⟨h.sched t a act p ha hact, by rw [len_of_st (st_sched ..)]; omega⟩
  cases op
  case create s =>
    have := extN_addAsset w s n hn ho
    refine ⟨h.ext_same this.1 (scr_addAsset w s) (tg_addAsset w s), ?_⟩
    show _ ≤ (w.addAsset s).devs.length
    rw [this.2]; exact Nat.le_refl _
  case rewire x ups =>
    have hl : (w.rewire x ups).devs.length = w.devs.length := len_rewire w x ups
    refine ⟨h.ext_same ?_ (scr_rewire w x ups) (tg_rewire w x ups), ?_⟩
    · show ExtN (w.rewire x ups).devs.length w (w.rewire x ups)
      rw [hl]
      exact extN_rewire w x ups (Nat.lt_of_lt_of_le ho hn)
    · show _ ≤ (w.rewire x ups).devs.length
      rw [hl]; exact Nat.le_refl _
  case sched t a k p =>
    exact viaSched t a (.script k) p (Nat.le_trans ho hn) (ofNat_script k)
  case schedRel t a k p =>
    exact viaSched _ a (.script k) p (Nat.le_trans ho hn) (ofNat_script k)
  case schedFail d t =>
    simp only [World.applyOp]
    split
    · exact ⟨h, Nat.le_refl _⟩
    · rename_i hk
      have hk' : (w.dev d).kind = .processor := by simpa using hk
      exact viaSched t _ (.fail d) _ ⟨kind_lt (by rw [hk']; decide), by rw [hk']; decide⟩ (ofNat_fail d)
  case schedFailRel d t =>
    simp only [World.applyOp]
    split
    · exact ⟨h, Nat.le_refl _⟩
    · rename_i hk
      have hk' : (w.dev d).kind = .processor := by simpa using hk
      exact viaSched _ _ (.fail d) _ ⟨kind_lt (by rw [hk']; decide), by rw [hk']; decide⟩ (ofNat_fail d)
  case register k req =>
    have hst : st (w.applyOp (.register k req)).1 = st w := by
      simp only [World.applyOp]; rw [st_rmEffects]; rfl
    have e : ExtN (w.applyOp (.register k req)).1.devs.length w (w.applyOp (.register k req)).1 :=
      ExtN.of_st hst
    have ht : trig (w.applyOp (.register k req)).1 =
        trig { w with rm := (w.rm.register req (.script k)).1 } := by
      simp only [World.applyOp]; rw [tg_rmEffects]
    refine ⟨h.ext e (scr_applyOp w _) ?_ ?_ ?_, by rw [len_of_st hst]; exact Nat.le_refl _⟩
    · intro m hm; rw [ht] at hm; exact Or.inl hm
    · intro j hj
      rw [ht] at hj
      have hj' : j ∈ rmScripts w.rm ++ [k] := by rw [← rms_register_script]; exact hj
      rcases List.mem_append.1 hj' with h' | h'
      · exact Or.inl h'
      · right
        have : j = k := by simpa using h'
        subst this
        exact Nat.le_trans (Nat.le_trans ho hn) e.len
    · rw [ht]; rfl
  all_goals
    apply plain
    · trivial
    · apply tg_applyOp <;> (intros; intro hcontra; cases hcontra)
    · rfl

theorem dyn_applyOps {need : Nat → Nat} (ops : List Op) : ∀ (w : World) (n : Nat), DynN need w →
    n ≤ w.devs.length → OpsOK need n ops →
    DynN need (w.applyOps ops) ∧ w.devs.length ≤ (w.applyOps ops).devs.length := by
  induction ops with
  | nil => intro w n h _ _; exact ⟨h, Nat.le_refl _⟩
  | cons op ops ih =>
    intro w n h hn hok
    unfold World.applyOps
    simp only [List.foldl_cons]
    have h1 := dyn_applyOp w op n h hn hok.1
    have h2 : DynN need ((w.applyOp op).1.addRes (w.applyOp op).2) := h1.1.of_st rfl rfl rfl
    have := ih ((w.applyOp op).1.addRes (w.applyOp op).2) (n + created op) h2
      (by show _ ≤ (w.applyOp op).1.devs.length; omega) hok.2
    unfold World.applyOps at this
    refine ⟨this.1, Nat.le_trans ?_ this.2⟩
    show _ ≤ (w.applyOp op).1.devs.length
    omega

theorem dyn_runScript {need : Nat → Nat} (w : World) (k : Nat) (h : DynN need w)
    (hk : need k ≤ w.devs.length) :
    DynN need (w.runScript k) ∧ w.devs.length ≤ (w.runScript k).devs.length :=
  dyn_applyOps _ w (need k) h hk (h.scripts k)

/-! ### the resource check, the maintainer events -/

/-- removing an entry from the waiting list -/
theorem DynN.erase {need : Nat → Nat} {w : World} (h : DynN need w) (i : Nat) :
    DynN need (scanOps.erase w i) := by
  have e : ExtN (scanOps.erase w i).devs.length w (scanOps.erase w i) := ExtN.of_st rfl
  refine h.ext e rfl (fun n hn => Or.inl hn) ?_ rfl
  intro k hk
  left
  have hsub : (w.rm.waiting.eraseIdx i).Sublist w.rm.waiting := List.eraseIdx_sublist _ _
  exact (hsub.filterMap _).subset hk

theorem dyn_scan {need : Nat → Nat} (n : Nat) : ∀ (w : World) (i : Nat), DynN need w →
    DynN need (scanWaiting scanOps n w i) := by
  induction n with
  | zero => intro w i h; exact h
  | succ n ih =>
    intro w i h
    unfold scanWaiting
    split
    · exact h
    · split
      · rename_i req cb hget _
        apply ih
        apply DynN.erase
        cases cb with
        | script k =>
          have hmem : (req, Cb.script k) ∈ w.rm.waiting := List.mem_of_getElem? hget
          have hk : need k ≤ w.devs.length := by
            apply h.tok.rm k
            show k ∈ rmScripts w.rm
            unfold rmScripts
            rw [List.mem_filterMap]
            exact ⟨_, hmem, rfl⟩
          have h0 : DynN need (w.addRes (.cb k)) := h.of_st rfl rfl rfl
          exact (dyn_runScript (w.addRes (.cb k)) k h0 hk).1
        | proc d =>
          exact h.of_st (st_procResourceCb w d) (scr_procResourceCb w d) (tg_procResourceCb w d)
      · exact ih _ _ h

theorem dyn_rmCheck {need : Nat → Nat} (w : World) (h : DynN need w) : DynN need w.rmCheck :=
  dyn_scan _ _ _ h

theorem hook_mem (w : World) (tgt : Nat) :
    ((w.targets.getD tgt default).startScript, (w.targets.getD tgt default).endScript) ∈ (trig w).hooks ∨
    ((w.targets.getD tgt default).startScript = none ∧ (w.targets.getD tgt default).endScript = none) := by
  by_cases ht : tgt < w.targets.length
  · left
    show _ ∈ List.map _ _
    rw [List.mem_map]
    refine ⟨w.targets[tgt], List.getElem_mem ht, ?_⟩
    simp [List.getD_eq_getElem?_getD, ht]
  · right
    have : w.targets.getD tgt default = default := by
      simp [List.getD_eq_getElem?_getD, Nat.le_of_not_lt ht]
    rw [this]; exact ⟨rfl, rfl⟩

theorem dyn_hookStart {need : Nat → Nat} (w : World) (tgt : Nat) (tag : Int) (h : DynN need w) :
    DynN need (w.hookStart tgt tag) := by
  have h0 : DynN need (w.addRes (.hook true tgt tag)) := h.of_st rfl rfl rfl
  unfold World.hookStart
  simp only []
  split
  · exact h0.of_st (st_shutdownDev ..) (scr_shutdownDev ..) (tg_shutdownDev ..)
  · split
    · rename_i k hk
      refine (dyn_runScript _ k h0 ?_).1
      rcases hook_mem w tgt with hm | hm
      · exact (h.tok.tg _ hm).1 k hk
      · rw [hm.1] at hk; cases hk
    · exact h0

theorem dyn_hookEnd {need : Nat → Nat} (w : World) (tgt : Nat) (tag : Int) (h : DynN need w) :
    DynN need (w.hookEnd tgt tag) := by
  have h0 : DynN need (w.addRes (.hook false tgt tag)) := h.of_st rfl rfl rfl
  unfold World.hookEnd
  simp only []
  split
  · exact h0.of_st (st_restoreDev ..) (scr_restoreDev ..) (tg_restoreDev ..)
  · split
    · rename_i k hk
      refine (dyn_runScript _ k h0 ?_).1
      rcases hook_mem w tgt with hm | hm
      · exact (h.tok.tg _ hm).2 k hk
      · rw [hm.2] at hk; cases hk
    · exact h0

theorem dyn_startWork {need : Nat → Nat} (w : World) (m seq : Nat) (h : DynN need w) :
    DynN need (w.startWork m seq) := by
  have key : ∀ w' : World, DynN need w' → ∀ t g a b d,
      DynN need ((w'.hookStart t g).schedLib a b (.finishWork m seq) d) := fun w' r t g a b d =>
    (dyn_hookStart w' t g r).of_st (st_schedLib ..) (scr_schedLib ..)
      (tg_schedLib _ _ _ _ _ (not_sens _ (by intro d h; cases h) (by intro d h; cases h)))
  unfold World.startWork
  split
  · exact h.of_st (st_setErr ..) (scr_setErr ..) (tg_setErr ..)
  · simp only []
    refine key _ ?_ _ _ _ _ _
    exact h.of_st rfl rfl rfl

theorem dyn_finishWork {need : Nat → Nat} (w : World) (m seq : Nat) (h : DynN need w) :
    DynN need (w.finishWork m seq) := by
  have key : ∀ w' : World, DynN need w' → ∀ w'' : World, st w'' = st w' → w''.scripts = w'.scripts →
      trig w'' = trig w' → ∀ m l, DynN need (w''.startOrders m l) := fun w' r w'' e1 e2 e3 m l =>
    (r.of_st e1 e2 e3).of_st (st_startOrders ..) (scr_startOrders ..) (tg_startOrders ..)
  unfold World.finishWork
  split
  · exact h.of_st (st_setErr ..) (scr_setErr ..) (tg_setErr ..)
  · simp only []
    rename_i o _
    refine key _ (dyn_hookEnd w o.target o.tag h) _ ?_ ?_ ?_ _ _ <;> rfl

/-! ### event actions -/

theorem dyn_exec {need : Nat → Nat} (w : World) (a : Action) (h : DynN need w) (ha : ActSafe need w a) :
    DynN need (w.exec a) := by
  cases a with
  | terminate => exact h
  | script k => exact (dyn_runScript w k h ha).1
  | finishCycle d => exact h.of_st (st_finishCycle w d) (scr_finishCycle w d) (tg_finishCycle w d)
  | passPart d => exact h.of_tv (tv_passPart w d) (scr_passPart w d) (tg_passPart w d)
  | fail d => exact h.of_st (st_failDev w d) (scr_failDev w d) (tg_failDev w d)
  | releaseIfIdle d => exact h.of_st (st_releaseIfIdle w d) (scr_releaseIfIdle w d) (tg_releaseIfIdle w d)
  | rmCheck => exact dyn_rmCheck w h
  | startWork m o => exact dyn_startWork w m o h
  | finishWork m o => exact dyn_finishWork w m o h
  | schedUpdate s => exact h.of_st (st_schedUpdate w s true) (scr_schedUpdate w s true) (tg_schedUpdate w s true)
  | periodicSense s => exact h.of_st (st_periodicSense w s) (scr_periodicSense w s) (tg_periodicSense w s)
  | unknown n => exact h.of_st (st_setErr ..) (scr_setErr ..) (tg_setErr ..)

/-- In a `DynN` world every safe action is admissible for conservation. -/
theorem actOK_of_dyn {need : Nat → Nat} {w : World} (h : DynN need w) {a : Action} (ha : ActSafe need w a) :
    ActOK w a := by
  cases a with
  | fail d => exact ha.2
  | passPart x => exact topoOK_of_wired h.wired x
  | _ => trivial

theorem opOK'_of_opsOK {need : Nat → Nat} : ∀ (ops : List Op) (n : Nat), OpsOK need n ops →
    ∀ op ∈ ops, OpOK' op := by
  intro ops
  induction ops with
  | nil => intro _ _ op hop; cases hop
  | cons o ops ih =>
    intro n hn op hop
    rcases List.mem_cons.1 hop with rfl | hop'
    · have hm := hn.1
      cases op
      case create s =>
        cases s with
        | dev d => exact hm.1
        | _ => trivial
      all_goals trivial
    · exact ih _ hn.2 op hop'

theorem scriptsOK_of_dyn {need : Nat → Nat} {w : World} (h : ScriptsDyn need w) : ScriptsOK' w := by
  intro l hl op hop
  obtain ⟨k, hk, rfl⟩ := List.getElem_of_mem hl
  have hs := h k
  have : w.scripts.getD k [] = w.scripts[k] := by simp [List.getD_eq_getElem?_getD, hk]
  rw [this] at hs
  exact opOK'_of_opsOK _ _ hs op hop

/-! ### `step`, `runLoop`, `simulateInit`, `runBegin` -/

/-- the event at the head of the queue is safe to execute -/
theorem safe_head {need : Nat → Nat} {w : World} (h : DynN need w) {e : Event} {env' : Env}
    (hst : w.env.step = some (e, env')) : ActSafe need w (Action.ofNat e.act) := by
  have hmem : e.act ∈ acts w.env := by
    rw [mem_acts]
    refine ⟨e, Or.inl ?_, rfl⟩
    unfold Env.step at hst
    split at hst
    · cases hst
    · rename_i e' es he
      simp only [Option.some.injEq, Prod.mk.injEq] at hst
      rw [he, ← hst.1]; exact List.mem_cons_self ..
  by_cases hs : Sens e.act
  · exact h.tok.ev _ ⟨hmem, hs⟩
  · cases ha : Action.ofNat e.act with
    | fail d => exact absurd (Or.inl ⟨d, ha⟩) hs
    | script k => exact absurd (Or.inr ⟨k, ha⟩) hs
    | _ => trivial

theorem dyn_pop {need : Nat → Nat} {w : World} (h : DynN need w) {e : Event} {env' : Env}
    (hst : w.env.step = some (e, env')) : DynN need { w with env := env' } := by
  have e0 : ExtN ({ w with env := env' } : World).devs.length w { w with env := env' } := ExtN.of_st rfl
  refine h.ext e0 rfl ?_ (fun k hk => Or.inl hk) rfl
  intro n hn
  left
  refine ⟨?_, hn.2⟩
  have hn1 : n ∈ acts env' := hn.1
  unfold Env.step at hst
  split at hst
  · cases hst
  · rename_i e' es he
    simp only [Option.some.injEq, Prod.mk.injEq] at hst
    rw [mem_acts] at hn1 ⊢
    obtain ⟨x, hx, rfl⟩ := hn1
    rw [← hst.2] at hx
    refine ⟨x, ?_, rfl⟩
    rw [he]
    rcases hx with hx | hx
    · exact Or.inl (List.mem_cons_of_mem _ hx)
    · exact Or.inr hx

theorem ActSafe.env {need : Nat → Nat} {w : World} {a : Action} (env' : Env) (h : ActSafe need w a) :
    ActSafe need { w with env := env' } a := by
  cases a <;> exact h

/-- **One step** keeps the conservation invariant and the class. -/
theorem dyn_step {need : Nat → Nat} (w w' : World) (e : Event) (hI : InvW w) (h : DynN need w)
    (hst : w.step = some (e, w')) : InvW w' ∧ DynN need w' := by
  have hg : Good Inv w := ⟨hI, scriptsOK_of_dyn h.scripts⟩
  unfold World.step at hst
  split at hst
  · cases hst
  · rename_i e' env' henv
    simp only [Option.some.injEq, Prod.mk.injEq] at hst
    obtain ⟨rfl, rfl⟩ := hst
    have h1 : DynN need ({ w with env := env' } : World) := dyn_pop h henv
    have hs : ActSafe need ({ w with env := env' } : World) (Action.ofNat e'.act) := (safe_head h henv).env env'
    have hg1 : Good Inv ({ w with env := env' } : World) := hg.of_frame rfl rfl
    split
    · exact ⟨(good_exec _ _ hg1 (actOK_of_dyn h1 hs)).1, dyn_exec _ _ h1 hs⟩
    · exact ⟨hg1.1, h1⟩

/-- the class alone (no invariant needed) -/
theorem dynN_step {need : Nat → Nat} (w w' : World) (e : Event) (h : DynN need w)
    (hst : w.step = some (e, w')) : DynN need w' := by
  unfold World.step at hst
  split at hst
  · cases hst
  · rename_i e' env' henv
    simp only [Option.some.injEq, Prod.mk.injEq] at hst
    obtain ⟨rfl, rfl⟩ := hst
    have h1 : DynN need ({ w with env := env' } : World) := dyn_pop h henv
    split
    · exact dyn_exec _ _ h1 ((safe_head h henv).env env')
    · exact h1

theorem dynN_runLoop {need : Nat → Nat} (n : Nat) : ∀ (w : World), DynN need w → DynN need (runLoop n w) := by
  induction n with
  | zero => intro w h; exact h.of_st (st_setErr ..) (scr_setErr ..) (tg_setErr ..)
  | succ n ih =>
    intro w h
    unfold runLoop
    split
    · split
      · exact h
      · rename_i e w' hst
        exact ih w' (dynN_step w w' e h hst)
    · exact h

theorem dyn_runLoop {need : Nat → Nat} (n : Nat) : ∀ (w : World), InvW w → DynN need w →
    InvW (runLoop n w) ∧ DynN need (runLoop n w) := by
  induction n with
  | zero =>
    intro w hI h
    exact ⟨hI.of_sv (sv_setErr ..), h.of_st (st_setErr ..) (scr_setErr ..) (tg_setErr ..)⟩
  | succ n ih =>
    intro w hI h
    unfold runLoop
    split
    · split
      · exact ⟨hI, h⟩
      · rename_i e w' hst
        have := dyn_step w w' e hI h hst
        exact ih w' this.1 this.2
    · exact ⟨hI, h⟩

theorem tg_simulateInit (w : World) : trig w.simulateInit = trig w := by
  unfold World.simulateInit
  split
  · rfl
  · simp only []
    show trig (List.foldl _ _ _) = _
    rw [foldl_proj trig _ _ _ (fun _ _ => tg_initAsset ..), tg_rmEffects]
    exact tg_withRm w _ (rms_init _)

theorem dyn_simulateInit {need : Nat → Nat} (w : World) (h : DynN need w) : DynN need w.simulateInit := by
  have := sr_simulateInit (fun _ => True) w
  exact h.of_tv this.1 this.2.1 (tg_simulateInit w)

theorem dyn_runBegin {need : Nat → Nat} (w : World) (d : Int) (h : DynN need w) :
    DynN need (w.runBegin d).1 := by
  unfold World.runBegin
  simp only []
  split
  · exact h
  · rename_i e he
    have e0 : ExtN ({ w with env := e } : World).devs.length w { w with env := e } := ExtN.of_st rfl
    refine h.ext e0 rfl ?_ (fun k hk => Or.inl hk) rfl
    intro n hn
    left
    refine ⟨?_, hn.2⟩
    have hn1 : n ∈ acts e := hn.1
    unfold Env.runBegin at he
    rcases (acts_schedule he n).1 hn1 with rfl | h'
    · exfalso
      rcases hn.2 with ⟨d, hd⟩ | ⟨k, hk⟩
      · simp [terminateAct, Action.ofNat] at hd
      · simp [terminateAct, Action.ofNat] at hk
    · exact h'

theorem sv_runBegin (w : World) (d : Int) : sv (w.runBegin d).1 = sv w := by
  unfold World.runBegin
  simp only []
  split <;> rfl

/-- Operations issued from outside between steps. -/
theorem dyn_ops {need : Nat → Nat} (w : World) (ops : List Op) (hI : InvW w) (h : DynN need w)
    (ho : OpsOK need w.devs.length ops) : InvW (w.applyOps ops) ∧ DynN need (w.applyOps ops) :=
  ⟨(good_applyOps closed_inv ops w ⟨hI, scriptsOK_of_dyn h.scripts⟩ (opOK'_of_opsOK ops _ ho)).1,
   (dyn_applyOps ops w _ h (Nat.le_refl _) ho).1⟩

theorem inv_simulateInit (w : World) (hI : InvW w) : InvW w.simulateInit :=
  pres_simulateInit closed_inv w hI

theorem inv_runBegin (w : World) (d : Int) (hI : InvW w) : InvW (w.runBegin d).1 :=
  hI.of_sv (sv_runBegin w d)

end C02W
end SimProc
